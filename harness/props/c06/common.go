package c06

import (
	"context"
	"database/sql/driver"
	"encoding/hex"
	"fmt"
	"sort"
	"strings"
	"time"

	rmodel "github.com/metrico/qryn/reader/model"
	"github.com/metrico/qryn/reader/service"
	wmodel "github.com/metrico/qryn/writer/model"
	"github.com/metrico/qryn/writer/utils/unmarshal"
	v1 "go.opentelemetry.io/proto/otlp/trace/v1"

	"qrynverif/fakesql"
)

// traceRow is one row of tempo_traces as the writer's parser produced it.
type traceRow struct {
	TraceID     []byte
	SpanID      []byte
	ParentID    string
	TimestampNs int64
	DurationNs  int64
	Name        string
	ServiceName string
	PayloadType int8
	Payload     []byte
}

// tagRow is one row of tempo_traces_attrs_gin.
type tagRow struct {
	TraceID     []byte
	SpanID      []byte
	TimestampNs int64
	DurationNs  int64
	Date        time.Time
	Key, Val    string
}

// runSpanParser pushes body through one of the exported span parsers the way
// controllerv1.Parser does (drain the response channel, stop at the first error) and
// concatenates the rows of every response (the parser flushes when a batch passes 1 MiB).
func runSpanParser(fn unmarshal.ParsingFunction, body []byte) ([]traceRow, []tagRow, error) {
	tr, tg, _, err := runSpanParserN(fn, body)
	return tr, tg, err
}

// runSpanParserN also reports how many responses carried rows (more than one: the parser
// flushed in the middle of the batch).
func runSpanParserN(fn unmarshal.ParsingFunction, body []byte) ([]traceRow, []tagRow, int, error) {
	resps, err := parseSpans(fn, body)
	if err != nil {
		return nil, nil, 0, err
	}
	return rowsOfResponses(resps)
}

// parseSpans drains the parser's channel and hands back the responses untouched. The
// portions are only looked at after the parser has finished with the whole body: a later
// portion must not disturb the rows of an earlier one (they sit in the insert queue while
// the parser goes on).
func parseSpans(fn unmarshal.ParsingFunction, body []byte) ([]*wmodel.ParserResponse, error) {
	ch := fn(context.Background(), strings.NewReader(string(body)), nil)
	var resps []*wmodel.ParserResponse
	var firstErr error
	for resp := range ch {
		if resp.Error != nil {
			if firstErr == nil {
				firstErr = resp.Error
			}
			continue
		}
		resps = append(resps, resp)
	}
	return resps, firstErr
}

// rowsOfResponses reads the parser's own rows (the variant without the insert services).
func rowsOfResponses(resps []*wmodel.ParserResponse) ([]traceRow, []tagRow, int, error) {
	var traces []traceRow
	var tags []tagRow
	nresp := 0
	for _, resp := range resps {
		if s, ok := resp.SpansRequest.(*wmodel.TempoSamples); ok && s != nil {
			nresp++
			n := len(s.MTraceId)
			for _, l := range []int{len(s.MSpanId), len(s.MTimestampNs), len(s.MDurationNs), len(s.MParentId), len(s.MName), len(s.MServiceName), len(s.MPayloadType), len(s.MPayload)} {
				if l != n {
					return nil, nil, 0, fmt.Errorf("VIOLATION-SHAPE: trace columns of unequal length: %d vs %d", n, l)
				}
			}
			for i := 0; i < n; i++ {
				traces = append(traces, traceRow{s.MTraceId[i], s.MSpanId[i], s.MParentId[i], s.MTimestampNs[i], s.MDurationNs[i],
					s.MName[i], s.MServiceName[i], s.MPayloadType[i], s.MPayload[i]})
			}
		}
		if a, ok := resp.SpansAttrsRequest.(*wmodel.TempoTag); ok && a != nil {
			n := len(a.MTraceId)
			for _, l := range []int{len(a.MSpanId), len(a.MTimestampNs), len(a.MDurationNs), len(a.MDate), len(a.MKey), len(a.MVal)} {
				if l != n {
					return nil, nil, 0, fmt.Errorf("VIOLATION-SHAPE: tag columns of unequal length: %d vs %d", n, l)
				}
			}
			for i := 0; i < n; i++ {
				tags = append(tags, tagRow{a.MTraceId[i], a.MSpanId[i], a.MTimestampNs[i], a.MDurationNs[i], a.MDate[i], a.MKey[i], a.MVal[i]})
			}
		}
	}
	return traces, tags, nresp, nil
}

// cand is one acceptable rendering of a tag value.
type cand struct {
	kind byte // 'x' exact string, 'f' float text (tolerance), '*' anything
	s    string
	f    float64
}

// spanExpect is what the oracle expects of the rows of one pushed span.
type spanExpect struct {
	traceID, spanID []byte
	parent          string
	ts, dur         int64
	name            string
	service         []cand // acceptable service names
	required        map[string][]cand
	optional        map[string][]cand
	desc            string
}

func (c cand) match(v string) bool {
	switch c.kind {
	case 'x':
		return c.s == v
	case 'f':
		return floatTextMatches(v, c.f)
	}
	return true
}

func matchAny(cs []cand, v string) bool {
	for _, c := range cs {
		if c.match(v) {
			return true
		}
	}
	return false
}

func showCands(cs []cand) string {
	var parts []string
	for _, c := range cs {
		switch c.kind {
		case 'x':
			parts = append(parts, fmt.Sprintf("%q", c.s))
		case 'f':
			parts = append(parts, fmt.Sprintf("float %v", c.f))
		default:
			parts = append(parts, "<any>")
		}
	}
	return "[" + strings.Join(parts, " | ") + "]"
}

func tupleKey(traceID, spanID []byte, ts, dur int64) string {
	return fmt.Sprintf("%x/%x/%d/%d", traceID, spanID, ts, dur)
}

// checkTags decides "one tag row per flattened attribute bearing the same ids and times".
// Tag rows are grouped by (trace id, span id, timestamp, duration); every group must belong
// to a pushed span; within the group of a single span: every required key exactly once,
// optional keys at most once, no other key, every value one of the acceptable renderings.
// Spans that are indistinguishable by ids and times are checked together, loosely.
func checkTags(exp []spanExpect, tags []tagRow) error {
	groups := map[string][]tagRow{}
	for _, t := range tags {
		k := tupleKey(t.TraceID, t.SpanID, t.TimestampNs, t.DurationNs)
		groups[k] = append(groups[k], t)
		day := time.Unix(0, t.TimestampNs).UTC().Truncate(24 * time.Hour)
		// ClickHouse's Date column ends on 2149-06-06 (day 65535): later days have no
		// representation (the decoded block shows them wrapped); not compared
		if day.Unix()/86400 <= 65535 && !t.Date.UTC().Truncate(24*time.Hour).Equal(day) {
			return fmt.Errorf("tag row key=%q of span %x: date %v is not the day of its timestamp %d", t.Key, t.SpanID, t.Date.UTC(), t.TimestampNs)
		}
	}
	byTuple := map[string][]int{}
	for i, e := range exp {
		k := tupleKey(e.traceID, e.spanID, e.ts, e.dur)
		byTuple[k] = append(byTuple[k], i)
	}
	for k, g := range groups {
		if _, ok := byTuple[k]; !ok {
			return fmt.Errorf("%d tag row(s) (first: key=%q val=%q) carry trace/span/timestamp/duration %s that belong to no pushed span", len(g), g[0].Key, g[0].Val, k)
		}
	}
	for k, idx := range byTuple {
		g := groups[k]
		if len(idx) == 1 {
			e := exp[idx[0]]
			seen := map[string]int{}
			for _, t := range g {
				seen[t.Key]++
				cs, ok := e.required[t.Key]
				if !ok {
					cs, ok = e.optional[t.Key]
				}
				if !ok {
					return fmt.Errorf("%s: unexpected tag row key=%q val=%q (no attribute of the span flattens to that key)", e.desc, t.Key, t.Val)
				}
				if !matchAny(cs, t.Val) {
					return fmt.Errorf("%s: tag row key=%q has value %q, expected one of %s", e.desc, t.Key, t.Val, showCands(cs))
				}
			}
			for key, n := range seen {
				if n > 1 {
					return fmt.Errorf("%s: %d tag rows for key %q, expected one", e.desc, n, key)
				}
			}
			for key, cs := range e.required {
				if seen[key] == 0 {
					return fmt.Errorf("%s: no tag row for flattened attribute %q (expected value %s); rows of the span: %s", e.desc, key, showCands(cs), showTagRows(g))
				}
			}
			continue
		}
		// indistinguishable spans
		for _, t := range g {
			ok := false
			for _, i := range idx {
				cs, have := exp[i].required[t.Key]
				if !have {
					cs, have = exp[i].optional[t.Key]
				}
				if have && matchAny(cs, t.Val) {
					ok = true
				}
			}
			if !ok {
				return fmt.Errorf("%s (and %d spans with the same ids/times): unexpected tag row key=%q val=%q", exp[idx[0]].desc, len(idx)-1, t.Key, t.Val)
			}
		}
		for _, i := range idx {
			for key := range exp[i].required {
				found := false
				for _, t := range g {
					if t.Key == key {
						found = true
					}
				}
				if !found {
					return fmt.Errorf("%s: no tag row for flattened attribute %q", exp[i].desc, key)
				}
			}
		}
	}
	return nil
}

func showTagRows(g []tagRow) string {
	var parts []string
	for _, t := range g {
		parts = append(parts, fmt.Sprintf("%q=%q", t.Key, t.Val))
	}
	return "{" + strings.Join(parts, ", ") + "}"
}

// checkTraceRows decides "exactly one trace row per span with the span's ids, parent,
// start, duration, name and service name" (rows in push order: the parsers are sequential).
func checkTraceRows(exp []spanExpect, rows []traceRow, payloadType int8) error {
	if len(rows) != len(exp) {
		return fmt.Errorf("%d spans pushed and accepted, %d trace rows produced", len(exp), len(rows))
	}
	for i, e := range exp {
		r := rows[i]
		switch {
		case string(r.TraceID) != string(e.traceID):
			return fmt.Errorf("%s: trace row %d has trace id %x, pushed %x", e.desc, i, r.TraceID, e.traceID)
		case string(r.SpanID) != string(e.spanID):
			return fmt.Errorf("%s: trace row %d has span id %x, pushed %x", e.desc, i, r.SpanID, e.spanID)
		case r.ParentID != e.parent:
			return fmt.Errorf("%s: trace row %d has parent id %x, pushed %x", e.desc, i, r.ParentID, e.parent)
		case r.TimestampNs != e.ts:
			return fmt.Errorf("%s: trace row %d has timestamp_ns %d, pushed %d", e.desc, i, r.TimestampNs, e.ts)
		case r.DurationNs != e.dur:
			return fmt.Errorf("%s: trace row %d has duration_ns %d, pushed %d", e.desc, i, r.DurationNs, e.dur)
		case r.Name != e.name:
			return fmt.Errorf("%s: trace row %d has name %q, pushed %q", e.desc, i, r.Name, e.name)
		case !matchAny(e.service, r.ServiceName):
			return fmt.Errorf("%s: trace row %d has service name %q, expected %s", e.desc, i, r.ServiceName, showCands(e.service))
		case r.PayloadType != payloadType:
			return fmt.Errorf("%s: trace row %d has payload type %d, the decoder's format is %d", e.desc, i, r.PayloadType, payloadType)
		}
	}
	return nil
}

// readBack feeds the trace rows of one trace id to the real TempoService.Query through the
// scripted database/sql driver and returns the spans it emits. The handler plays
// ClickHouse for the one statement the service issues (reader/service/tempoService.go
// GetQueryRequest): WHERE trace_id = unhex('<hex>') ORDER BY timestamp_ns LIMIT 2000, columns
// (trace_id, span_id, parent_id, timestamp_ns, duration_ns, payload_type, payload) with the Go
// types clickhouse-go yields for FixedString/String/Int64/Int8.
func readBack(rows []traceRow, traceID []byte, binIds bool) ([]*rmodel.SpanResponse, error) {
	traceHex := hex.EncodeToString(traceID)
	var sel []traceRow
	for _, r := range rows {
		if string(r.TraceID) == string(traceID) {
			sel = append(sel, r)
		}
	}
	sort.SliceStable(sel, func(i, j int) bool { return sel[i].TimestampNs < sel[j].TimestampNs })
	for _, r := range sel {
		// parseOTLP indexes payload[0] inside the goroutine OutputQuery starts: an empty
		// payload would take the whole process down (C12's subject); report it here instead
		if len(r.Payload) == 0 {
			return nil, fmt.Errorf("span %x is stored with an empty payload (payload type %d): the read path cannot decode it", r.SpanID, r.PayloadType)
		}
		if len(r.TraceID) < 16 || len(r.SpanID) < 8 {
			return nil, fmt.Errorf("span is stored with a %d-byte trace id and a %d-byte span id (columns are FixedString(16)/FixedString(8))", len(r.TraceID), len(r.SpanID))
		}
	}
	if len(sel) > 2000 {
		sel = sel[:2000]
	}
	var sqlErr error
	db := fakesql.New(func(ctx context.Context, q string, args []driver.NamedValue) (*fakesql.Result, error) {
		if fakesql.IsVersionQuery(q) {
			return fakesql.AnswerVersion(q), nil
		}
		if !strings.Contains(q, "unhex('"+traceHex+"')") || !strings.Contains(q, "tempo_traces") {
			sqlErr = fmt.Errorf("trace query does not select trace %s from tempo_traces: %s", traceHex, q)
		}
		var out [][]any
		for _, r := range sel {
			out = append(out, []any{string(r.TraceID), string(r.SpanID), r.ParentID, r.TimestampNs, r.DurationNs, r.PayloadType, string(r.Payload)})
		}
		return fakesql.Rows([]string{"trace_id", "span_id", "parent_id", "timestamp_ns", "duration_ns", "payload_type", "payload"}, out...), nil
	})
	defer db.Close()
	svc := service.NewTempoService(rmodel.ServiceData{Session: db.Registry(nil)})
	ch, err := svc.Query(context.Background(), 0, 0, []byte(traceHex), binIds)
	if err != nil {
		return nil, err
	}
	var res []*rmodel.SpanResponse
	for s := range ch {
		res = append(res, s)
	}
	return res, sqlErr
}

// order of the spans of one trace as the reader returns them (ascending start, stable).
func traceOrder(rows []traceRow, traceID []byte) []int {
	var idx []int
	for i, r := range rows {
		if string(r.TraceID) == string(traceID) {
			idx = append(idx, i)
		}
	}
	sort.SliceStable(idx, func(a, b int) bool { return rows[idx[a]].TimestampNs < rows[idx[b]].TimestampNs })
	return idx
}

func distinctTraces(rows []traceRow) [][]byte {
	seen := map[string]bool{}
	var out [][]byte
	for _, r := range rows {
		if !seen[string(r.TraceID)] {
			seen[string(r.TraceID)] = true
			out = append(out, r.TraceID)
		}
	}
	return out
}

func spanAttrMap(sp *v1.Span) map[string][]int {
	m := map[string][]int{}
	for i, kv := range sp.Attributes {
		m[kv.Key] = append(m[kv.Key], i)
	}
	return m
}

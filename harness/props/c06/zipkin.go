package c06

import (
	"fmt"
	"sort"
	"strings"

	wmodel "github.com/metrico/qryn/writer/model"
	"github.com/metrico/qryn/writer/utils/unmarshal"
	common "go.opentelemetry.io/proto/otlp/common/v1"
	"pgregory.net/rapid"

	"qrynverif/evid"
	"qrynverif/gen"
)

// ---- C06(b): Zipkin JSON ingest (array and NDJSON framing) -> rows -> trace read path -------
//
// Also the field-order metamorphic relation: the same batch rendered with another
// permutation of the JSON object keys must produce the same rows (payload text aside, which
// is the pushed text itself).

type zipkinCase struct {
	Batch  gen.ZipkinBatch `json:"batch"`
	BinIDs bool            `json:"bin_ids,omitempty"`
	// Store/Split: see otlpCase.
	Store bool `json:"store,omitempty"`
	Split int  `json:"split,omitempty"`
}

func genZipkin(rt *rapid.T) zipkinCase {
	c := zipkinCase{Batch: gen.GenZipkinBatch(rt, true), BinIDs: rapid.Bool().Draw(rt, "bin-ids")}
	c.Store, c.Split = genStore(rt)
	return c
}

// zipkinExpect: Zipkin's service name of a span is localEndpoint.serviceName. When that is
// absent or empty qryn falls back to the remote endpoint's name on both sides; the property
// does not ask for the fallback, so "" and the remote name are both accepted then.
func zipkinExpect(s gen.ZipkinSpan, desc string) spanExpect {
	e := spanExpect{traceID: gen.PadHex(s.TraceID, 32), spanID: gen.PadHex(s.ID, 16), desc: desc,
		required: map[string][]cand{}, optional: map[string][]cand{}}
	if s.HasParent {
		e.parent = string(gen.PadHex(s.ParentID, 16))
	}
	if s.HasTS {
		e.ts = s.TS * 1000
	}
	if s.HasDur {
		e.dur = s.Dur * 1000
	}
	if s.HasName {
		e.name = s.Name
		e.optional["name"] = []cand{{kind: 'x', s: s.Name}}
	}
	if s.Local.Present && s.Local.HasName && s.Local.ServiceName != "" {
		e.service = []cand{{kind: 'x', s: s.Local.ServiceName}}
	} else {
		e.service = []cand{{kind: 'x', s: ""}}
		if s.Remote.Present && s.Remote.HasName {
			e.service = append(e.service, cand{kind: 'x', s: s.Remote.ServiceName})
		}
	}
	e.optional["service.name"] = e.service
	if s.Local.Present && s.Local.HasName {
		e.optional["local_endpoint_service_name"] = []cand{{kind: 'x', s: s.Local.ServiceName}}
	}
	if s.Remote.Present && s.Remote.HasName {
		e.optional["remote_endpoint_service_name"] = []cand{{kind: 'x', s: s.Remote.ServiceName}}
	}
	if s.HasTags {
		for _, t := range s.Tags {
			if t.Raw != "" {
				continue // not a string: no tag (Zipkin tags are strings); a row is not expected
			}
			e.required[t.K] = append(e.required[t.K], cand{kind: 'x', s: t.Value()})
		}
	}
	return e
}

type rowSig struct {
	trace, tags []string
}

func signature(rows []traceRow, tags []tagRow) rowSig {
	var sig rowSig
	for _, r := range rows {
		sig.trace = append(sig.trace, fmt.Sprintf("trace=%x span=%x parent=%x ts=%d dur=%d name=%q service=%q type=%d", r.TraceID, r.SpanID, r.ParentID, r.TimestampNs, r.DurationNs, r.Name, r.ServiceName, r.PayloadType))
	}
	for _, t := range tags {
		sig.tags = append(sig.tags, fmt.Sprintf("trace=%x span=%x ts=%d dur=%d date=%d %q=%q", t.TraceID, t.SpanID, t.TimestampNs, t.DurationNs, t.Date.Unix(), t.Key, trunc(t.Val)))
	}
	sort.Strings(sig.tags) // the order of a span's tag rows follows the field order; the set must not
	return sig
}

func trunc(s string) string {
	if len(s) > 80 {
		return fmt.Sprintf("%s…(%d bytes)", s[:80], len(s))
	}
	return s
}

func diffSig(a, b rowSig) string {
	if len(a.trace) != len(b.trace) {
		return fmt.Sprintf("%d vs %d trace rows", len(a.trace), len(b.trace))
	}
	for i := range a.trace {
		if a.trace[i] != b.trace[i] {
			return fmt.Sprintf("trace row %d: %s  VS  %s", i, a.trace[i], b.trace[i])
		}
	}
	if len(a.tags) != len(b.tags) {
		return fmt.Sprintf("%d vs %d tag rows", len(a.tags), len(b.tags))
	}
	for i := range a.tags {
		if a.tags[i] != b.tags[i] {
			return fmt.Sprintf("tag rows differ: %s  VS  %s", a.tags[i], b.tags[i])
		}
	}
	return ""
}

func predZipkin(c zipkinCase, o *evid.Obs) error {
	parser := unmarshal.UnmarshalZipkinJSONV2
	framing := "array"
	if c.Batch.ND {
		parser = unmarshal.UnmarshalZipkinNDJSONV2
		framing = "ndjson"
	}
	o.Tag("framing=" + framing)
	body := c.Batch.Body(false)
	rows, tags, nresp, err := runSpanParserN(parser, body)
	if err != nil {
		return fmt.Errorf("well-formed Zipkin %s batch rejected: %v\nbody: %s", framing, err, trunc(string(body)))
	}
	// rows of the whole body as the parser gives them: one side of the field-order relation
	prows, ptags := rows, tags
	if c.Store && len(c.Batch.Spans) > 0 {
		k := 1 + c.Split%len(c.Batch.Spans)
		var resps []*wmodel.ParserResponse
		for _, part := range [][]gen.ZipkinSpan{c.Batch.Spans[:k], c.Batch.Spans[k:]} {
			if len(part) == 0 {
				continue
			}
			pb := c.Batch
			pb.Spans = part
			rs, err := parseSpans(parser, pb.Body(false))
			if err != nil {
				return fmt.Errorf("well-formed Zipkin %s batch rejected: %v", framing, err)
			}
			resps = append(resps, rs...)
		}
		var nreq int
		rows, tags, nreq, err = storeAndDecode(resps)
		if err != nil {
			if strings.HasPrefix(err.Error(), "INFRA:") {
				o.Discard("insert-services-timeout")
				return nil
			}
			return err
		}
		o.Tag("via-insert-services", "via-insert-services:requests-in-one-block="+bucket(nreq))
	}
	var exp []spanExpect
	parents, tagged, endpoints, big, short := 0, 0, 0, 0, 0
	for i, s := range c.Batch.Spans {
		exp = append(exp, zipkinExpect(s, fmt.Sprintf("span %d (%s framing) id=%s", i, framing, s.ID)))
		if s.HasParent {
			parents++
		}
		if len(exp[i].required) > 0 {
			tagged++
		}
		if s.Local.Present || s.Remote.Present {
			endpoints++
		}
		if s.Local.Present && s.Local.HasName && s.Remote.Present && s.Remote.HasName {
			o.Tag("local+remote-name")
		}
		if s.Extra {
			o.Tag("unknown-members")
		}
		for _, t := range s.Tags {
			if t.Pad > 0 {
				big++
			}
		}
		if len(s.TraceID) < 32 || len(s.ID) < 16 || (s.HasParent && len(s.ParentID) < 16) {
			short++
		}
		if s.TSString || s.DurString {
			o.Tag("string-time")
		}
	}
	o.Tag("spans=" + bucket(len(exp)))
	if big > 0 {
		o.Tag("span>64KiB")
	}
	if nresp > 1 {
		o.Tag("flushed-mid-batch(>1MiB)")
	}
	if short > 0 {
		o.Tag("short-id")
	}
	if len(exp) >= 2 && parents >= 1 && tagged >= 1 && endpoints >= 1 {
		o.NonTrivial()
	}
	if err := checkTraceRows(exp, rows, 1); err != nil {
		return err
	}
	if err := checkTags(exp, tags); err != nil {
		return err
	}

	// field-order metamorphic relation
	rows2, tags2, err := runSpanParser(parser, c.Batch.Body(true))
	if err != nil {
		return fmt.Errorf("the same batch with permuted object keys is rejected: %v", err)
	}
	if d := diffSig(signature(prows, ptags), signature(rows2, tags2)); d != "" {
		return fmt.Errorf("permuting JSON object keys changed the rows (%s framing): %s", framing, d)
	}

	// reader half
	for _, tid := range distinctTraces(rows) {
		got, err := readBack(rows, tid, c.BinIDs)
		if err != nil {
			return fmt.Errorf("trace %x: read path failed: %v", tid, err)
		}
		order := traceOrder(rows, tid)
		if len(got) != len(order) {
			return fmt.Errorf("trace %x (%s framing): %d rows stored, read path returned %d spans (payload of the first row: %q)", tid, framing, len(order), len(got), trunc(string(rows[order[0]].Payload)))
		}
		for k, i := range order {
			e, s := exp[i], c.Batch.Spans[i]
			g := got[k].Span
			if g == nil {
				return fmt.Errorf("%s: read path returned no span", e.desc)
			}
			switch {
			case string(g.TraceId) != string(e.traceID):
				return fmt.Errorf("%s: read back trace id %x, pushed %x", e.desc, g.TraceId, e.traceID)
			case string(g.SpanId) != string(e.spanID):
				return fmt.Errorf("%s: read back span id %x, pushed %x", e.desc, g.SpanId, e.spanID)
			case string(g.ParentSpanId) != e.parent:
				return fmt.Errorf("%s: read back parent id %x, pushed %q = %x", e.desc, g.ParentSpanId, s.ParentID, e.parent)
			case g.Name != e.name:
				return fmt.Errorf("%s: read back name %q, pushed %q", e.desc, g.Name, e.name)
			case g.StartTimeUnixNano != uint64(e.ts) || g.EndTimeUnixNano != uint64(e.ts+e.dur):
				return fmt.Errorf("%s: read back times %d..%d, pushed %d..%d", e.desc, g.StartTimeUnixNano, g.EndTimeUnixNano, e.ts, e.ts+e.dur)
			}
			idx := spanAttrMap(g)
			for key, cs := range e.required {
				found := false
				for _, p := range idx[key] {
					v := g.Attributes[p].Value
					if v == nil {
						continue
					}
					if _, isStr := v.Value.(*common.AnyValue_StringValue); isStr && matchAny(cs, v.GetStringValue()) {
						found = true
					}
				}
				if !found {
					return fmt.Errorf("%s: pushed tag %q=%s is missing from the span read back (attributes: %v)", e.desc, key, showCands(cs), trunc(fmt.Sprint(g.Attributes)))
				}
			}
		}
	}
	return nil
}

func addZipkin(r *evid.Run) {
	evid.Add(r, evid.Prop[zipkinCase]{Name: "zipkin", Quick: 2000, Thorough: 20000, Gen: genZipkin, Pred: predZipkin, WAL: true})
}

package c06

import (
	"fmt"
	"time"

	wmodel "github.com/metrico/qryn/writer/model"

	"qrynverif/fakech"
	"qrynverif/inssvc"
)

// ---- the storage layer between parser and read path ------------------------------------------
//
// storeAndDecode submits parser responses to the REAL traces insert services
// (impl.NewTempoSamplesInsertService / NewTempoTagsInsertService, assembled by harness/inssvc
// over the fake ClickHouse client exactly as the plugin wires them), the way doParse does:
// per response the tag request, then the span request, synchronous mode. Nothing is flushed
// until every request of the case has been appended to the services' column sets (push
// interval one hour, no queue limit, one worker): several requests share one block, which is
// where position arithmetic of the column adaptors matters. Then one forced flush, and the
// blocks the fake client received are decoded column by column into the rows ClickHouse would
// hold: those rows, not the parser's, go on to the oracle and to the trace read path.
func storeAndDecode(resps []*wmodel.ParserResponse) (rows []traceRow, tags []tagRow, nreq int, err error) {
	h := inssvc.New(inssvc.Config{Workers: 1})
	defer h.Close()
	var subs []*inssvc.Submission
	for i, r := range resps {
		if a, ok := r.SpansAttrsRequest.(*wmodel.TempoTag); ok && a != nil && len(a.MKey) > 0 {
			subs = append(subs, h.Svc[inssvc.Tags].Submit(a, i+1))
		}
		if s, ok := r.SpansRequest.(*wmodel.TempoSamples); ok && s != nil && len(s.MTraceId) > 0 {
			subs = append(subs, h.Svc[inssvc.Spans].Submit(s, i+1))
			nreq++
		}
	}
	if len(subs) == 0 {
		return nil, nil, 0, nil
	}
	h.Svc[inssvc.Spans].PlanFlush()
	h.Svc[inssvc.Tags].PlanFlush()
	if !h.Rec.WaitAnswered(60 * time.Second) {
		return nil, nil, nreq, fmt.Errorf("INFRA: insert services did not answer %d submissions within 60 s of a forced flush", len(subs))
	}
	for _, s := range subs {
		if _, e, _ := s.Answer(); e != nil {
			return nil, nil, nreq, fmt.Errorf("insert service %s refused rows the parser produced: %v", s.Kind, e)
		}
	}
	for _, c := range h.DB.Calls() {
		if !c.OKResult() {
			continue
		}
		if c.RectErr != "" || c.ShapeErr != "" {
			return nil, nil, nreq, fmt.Errorf("INSERT block for %s is malformed: %s %s", c.Table, c.RectErr, c.ShapeErr)
		}
		switch c.Table {
		case "tempo_traces":
			for i := 0; i < c.NRows; i++ {
				m := c.Row(i)
				r, e := traceRowOf(m)
				if e != nil {
					return nil, nil, nreq, fmt.Errorf("tempo_traces block row %d: %v", i, e)
				}
				rows = append(rows, r)
			}
		case "tempo_traces_attrs_gin":
			for i := 0; i < c.NRows; i++ {
				m := c.Row(i)
				t, e := tagRowOf(m)
				if e != nil {
					return nil, nil, nreq, fmt.Errorf("tempo_traces_attrs_gin block row %d: %v", i, e)
				}
				tags = append(tags, t)
			}
		}
	}
	return rows, tags, nreq, nil
}

func col[T any](m map[string]any, name string) (T, error) {
	v, ok := m[name].(T)
	if !ok {
		var zero T
		return zero, fmt.Errorf("column %q holds %T (%v), expected %T", name, m[name], m[name], zero)
	}
	return v, nil
}

func traceRowOf(m map[string]any) (r traceRow, err error) {
	var tid, sid, payload string
	if tid, err = col[string](m, "trace_id"); err != nil {
		return
	}
	if sid, err = col[string](m, "span_id"); err != nil {
		return
	}
	if r.ParentID, err = col[string](m, "parent_id"); err != nil {
		return
	}
	if r.Name, err = col[string](m, "name"); err != nil {
		return
	}
	if r.TimestampNs, err = col[int64](m, "timestamp_ns"); err != nil {
		return
	}
	if r.DurationNs, err = col[int64](m, "duration_ns"); err != nil {
		return
	}
	if r.ServiceName, err = col[string](m, "service_name"); err != nil {
		return
	}
	if r.PayloadType, err = col[int8](m, "payload_type"); err != nil {
		return
	}
	if payload, err = col[string](m, "payload"); err != nil {
		return
	}
	r.TraceID, r.SpanID, r.Payload = []byte(tid), []byte(sid), []byte(payload)
	return
}

func tagRowOf(m map[string]any) (t tagRow, err error) {
	var tid, sid string
	var d fakech.Date
	if d, err = col[fakech.Date](m, "date"); err != nil {
		return
	}
	if t.Key, err = col[string](m, "key"); err != nil {
		return
	}
	if t.Val, err = col[string](m, "val"); err != nil {
		return
	}
	if tid, err = col[string](m, "trace_id"); err != nil {
		return
	}
	if sid, err = col[string](m, "span_id"); err != nil {
		return
	}
	if t.TimestampNs, err = col[int64](m, "timestamp_ns"); err != nil {
		return
	}
	if t.DurationNs, err = col[int64](m, "duration"); err != nil {
		return
	}
	t.TraceID, t.SpanID = []byte(tid), []byte(sid)
	t.Date = time.Unix(int64(d)*86400, 0).UTC()
	return
}

package c06

import (
	"encoding/hex"
	"fmt"
	"math"
	"strconv"
	"strings"

	wmodel "github.com/metrico/qryn/writer/model"
	"github.com/metrico/qryn/writer/utils/unmarshal"
	common "go.opentelemetry.io/proto/otlp/common/v1"
	v1 "go.opentelemetry.io/proto/otlp/trace/v1"
	"google.golang.org/protobuf/proto"
	"pgregory.net/rapid"

	"qrynverif/evid"
	"qrynverif/gen"
)

// ---- C06(a): OTLP protobuf ingest -> rows -> trace read path -----------------------------

type otlpCase struct {
	Batch  gen.OTLPBatch `json:"batch"`
	BinIDs bool          `json:"bin_ids"`
	// Store: the parser's responses go through the real traces insert services and the rows
	// decoded from the INSERT blocks are what is checked and read back (see store.go). The
	// batch is pushed as two bodies, cut before span number Split (mod the span count), both
	// appended to the same column set before the one forced flush.
	Store bool `json:"store,omitempty"`
	Split int  `json:"split,omitempty"`
}

func genOTLP(rt *rapid.T) otlpCase {
	c := otlpCase{Batch: gen.GenOTLPBatch(rt), BinIDs: rapid.Bool().Draw(rt, "bin-ids")}
	c.Store, c.Split = genStore(rt)
	return c
}

// genStore: about a third of the cases take the storage layer in.
func genStore(rt *rapid.T) (bool, int) {
	if rapid.SampledFrom([]int{0, 1, 0}).Draw(rt, "via-insert-services") == 1 {
		return true, rapid.IntRange(0, 12).Draw(rt, "split")
	}
	return false, 0
}

// splitOTLP cuts the batch before span number k (push order), keeping the resource/scope
// structure on both sides; empty scopes and resources are dropped.
func splitOTLP(b gen.OTLPBatch, k int) (gen.OTLPBatch, gen.OTLPBatch) {
	var a, z gen.OTLPBatch
	n := 0
	for _, r := range b.Resources {
		ra, rz := gen.OTLPResource{Attrs: r.Attrs}, gen.OTLPResource{Attrs: r.Attrs}
		for _, sc := range r.Scopes {
			sa, sz := gen.OTLPScope{Name: sc.Name, Attrs: sc.Attrs}, gen.OTLPScope{Name: sc.Name, Attrs: sc.Attrs}
			for _, sp := range sc.Spans {
				if n < k {
					sa.Spans = append(sa.Spans, sp)
				} else {
					sz.Spans = append(sz.Spans, sp)
				}
				n++
			}
			if len(sa.Spans) > 0 {
				ra.Scopes = append(ra.Scopes, sa)
			}
			if len(sz.Spans) > 0 {
				rz.Scopes = append(rz.Scopes, sz)
			}
		}
		if len(ra.Scopes) > 0 {
			a.Resources = append(a.Resources, ra)
		}
		if len(rz.Scopes) > 0 {
			z.Resources = append(z.Resources, rz)
		}
	}
	return a, z
}

func floatTextMatches(v string, f float64) bool {
	p, err := strconv.ParseFloat(v, 64)
	if err != nil {
		return false
	}
	if math.IsNaN(f) || math.IsNaN(p) {
		return math.IsNaN(f) && math.IsNaN(p)
	}
	if math.IsInf(f, 0) || math.IsInf(p, 0) {
		return p == f
	}
	// any decimal rendering with at least six fractional digits is accepted
	return math.Abs(p-f) <= 1e-6+1e-9*math.Abs(f)
}

// flattenInto is the reference flattening: scalars become one entry under their dotted
// path, array elements under path.<index>, kvlist members under path.<key>. Bytes and empty
// values have no defined text form: they are recorded as "anything goes" and never required.
func flattenInto(path string, v gen.AnyVal, scalar map[string][]cand, loose map[string][]cand) {
	switch v.K {
	case "s":
		scalar[path] = append(scalar[path], cand{kind: 'x', s: v.Str()})
	case "b":
		scalar[path] = append(scalar[path], cand{kind: 'x', s: strconv.FormatBool(v.B)})
	case "i":
		scalar[path] = append(scalar[path], cand{kind: 'x', s: strconv.FormatInt(v.I, 10)})
	case "d":
		f, _ := strconv.ParseFloat(v.D, 64)
		scalar[path] = append(scalar[path], cand{kind: 'f', f: f})
	case "a":
		for i, e := range v.A {
			flattenInto(path+"."+strconv.Itoa(i), e, scalar, loose)
		}
	case "m":
		for _, kv := range v.M {
			flattenInto(path+"."+kv.Key, kv.Val, scalar, loose)
		}
	default:
		loose[path] = append(loose[path], cand{kind: '*'})
	}
}

func hasNested(kvs []gen.KeyVal) bool {
	for _, kv := range kvs {
		if kv.Val.Nested() {
			return true
		}
	}
	return false
}

func topLevel(kvs []gen.KeyVal, key string) []gen.AnyVal {
	var out []gen.AnyVal
	for _, kv := range kvs {
		if kv.Key == key {
			out = append(out, kv.Val)
		}
	}
	return out
}

// otlpExpect builds the row expectations of one span.
//
// Service name ("carrying the span's ... service name"): OTLP puts service.name on the
// resource, qryn also honours a span-level one; either is accepted when both exist. When no
// service.name exists anywhere qryn falls back to other members of the family or a fixed
// placeholder: any of those is accepted (the property does not rank them).
func otlpExpect(sp gen.OTLPSpan, res gen.OTLPResource, scopeAttrs []gen.KeyVal, desc string) spanExpect {
	tid, _ := hex.DecodeString(sp.TraceID)
	sid, _ := hex.DecodeString(sp.SpanID)
	pid, _ := hex.DecodeString(sp.ParentID)
	e := spanExpect{traceID: tid, spanID: sid, parent: string(pid), ts: int64(sp.Start), dur: int64(sp.End - sp.Start), name: sp.Name,
		required: map[string][]cand{}, optional: map[string][]cand{}, desc: desc}
	spanScalar, spanLoose := map[string][]cand{}, map[string][]cand{}
	resScalar, resLoose := map[string][]cand{}, map[string][]cand{}
	for _, kv := range sp.Attrs {
		flattenInto(kv.Key, kv.Val, spanScalar, spanLoose)
	}
	for _, kv := range res.Attrs {
		flattenInto(kv.Key, kv.Val, resScalar, resLoose)
	}
	// every flattened scalar attribute of the span needs a row; a resource attribute or a
	// loose value flattening to the same key is an acceptable value of that single row
	for k, cs := range spanScalar {
		e.required[k] = append(e.required[k], cs...)
	}
	addOpt := func(k string, cs []cand) {
		if _, ok := e.required[k]; ok {
			e.required[k] = append(e.required[k], cs...)
		} else {
			e.optional[k] = append(e.optional[k], cs...)
		}
	}
	for k, cs := range resScalar {
		addOpt(k, cs)
	}
	for k, cs := range spanLoose {
		addOpt(k, cs)
	}
	for k, cs := range resLoose {
		addOpt(k, cs)
	}
	// qryn ignores the instrumentation scope's attributes; rows for them would not be wrong
	scScalar, scLoose := map[string][]cand{}, map[string][]cand{}
	for _, kv := range scopeAttrs {
		flattenInto(kv.Key, kv.Val, scScalar, scLoose)
	}
	for k, cs := range scScalar {
		addOpt(k, cs)
	}
	for k, cs := range scLoose {
		addOpt(k, cs)
	}
	// synthesised rows
	addOpt("name", []cand{{kind: 'x', s: sp.Name}})
	addOpt("remoteService.name", []cand{{kind: '*'}})

	// service name candidates come from the top-level attributes only
	scalarText := func(v gen.AnyVal) (cand, bool) {
		sc, lo := map[string][]cand{}, map[string][]cand{}
		if v.Nested() {
			return cand{}, false
		}
		flattenInto("k", v, sc, lo)
		if len(sc["k"]) == 1 {
			return sc["k"][0], true
		}
		return cand{}, false
	}
	var svc []cand
	for _, v := range append(topLevel(sp.Attrs, "service.name"), topLevel(res.Attrs, "service.name")...) {
		if c, ok := scalarText(v); ok {
			svc = append(svc, c)
		} else {
			svc = append(svc, cand{kind: '*'}) // service.name of a kind without text form: don't care
		}
	}
	if len(svc) == 0 {
		for _, fam := range gen.ServiceFamily {
			for _, v := range append(topLevel(sp.Attrs, fam), topLevel(res.Attrs, fam)...) {
				if c, ok := scalarText(v); ok {
					svc = append(svc, c)
				}
			}
		}
		svc = append(svc, cand{kind: 'x', s: "OTLPResourceNoServiceName"})
	}
	e.service = svc
	addOpt("service.name", svc)
	return e
}

// caseTags collects class labels so that each is counted once per case.
type caseTags map[string]bool

func (t caseTags) Tag(tags ...string) {
	for _, x := range tags {
		t[x] = true
	}
}

func predOTLP(c otlpCase, o *evid.Obs) error {
	ct := caseTags{}
	defer func() {
		for t := range ct {
			o.Tag(t)
		}
	}()
	var rows []traceRow
	var tags []tagRow
	var nresp int
	if c.Store && c.Batch.NumSpans() > 0 {
		a, z := splitOTLP(c.Batch, 1+c.Split%c.Batch.NumSpans())
		var resps []*wmodel.ParserResponse
		for _, part := range []gen.OTLPBatch{a, z} {
			if part.NumSpans() == 0 {
				continue
			}
			rs, err := parseSpans(unmarshal.UnmarshalOTLPV2, part.Body())
			if err != nil {
				return fmt.Errorf("well-formed OTLP batch rejected: %v", err)
			}
			resps = append(resps, rs...)
		}
		var err error
		rows, tags, nresp, err = storeAndDecode(resps)
		if err != nil {
			if strings.HasPrefix(err.Error(), "INFRA:") {
				o.Discard("insert-services-timeout")
				return nil
			}
			return err
		}
		ct.Tag("via-insert-services", "via-insert-services:requests-in-one-block="+bucket(nresp))
		if len(resps) > 2 || (len(resps) == 2 && (a.NumSpans() == 0 || z.NumSpans() == 0)) {
			ct.Tag("flushed-mid-batch(>1MiB)")
		}
		nresp = 1
	} else {
		var err error
		rows, tags, nresp, err = runSpanParserN(unmarshal.UnmarshalOTLPV2, c.Batch.Body())
		if err != nil {
			return fmt.Errorf("well-formed OTLP batch rejected: %v", err)
		}
	}
	var exp []spanExpect
	var spans []gen.OTLPSpan
	var ress []gen.OTLPResource
	parents, nested := 0, 0
	for ri, r := range c.Batch.Resources {
		for si, sc := range r.Scopes {
			for pi, sp := range sc.Spans {
				exp = append(exp, otlpExpect(sp, r, sc.Attrs, fmt.Sprintf("span %d/%d/%d %q", ri, si, pi, trunc(sp.Name))))
				spans = append(spans, sp)
				ress = append(ress, r)
				if sp.ParentID != "" {
					parents++
				}
				if hasNested(sp.Attrs) {
					nested++
				}
				if len(topLevel(sp.Attrs, "peer.service")) > 0 && len(topLevel(sp.Attrs, "service.name"))+len(topLevel(r.Attrs, "service.name")) > 0 {
					o.Tag("peer.service+service.name")
				}
				classifyCollisions(sp, r, sc.Attrs, ct)
			}
		}
	}
	o.Tag(fmt.Sprintf("spans=%s", bucket(len(exp))))
	if nresp > 1 {
		o.Tag("flushed-mid-batch(>1MiB)")
	}
	if nested > 0 {
		o.Tag("nested-attr")
	}
	if parents > 0 {
		o.Tag("with-parent")
	}
	if len(c.Batch.Resources) > 1 {
		o.Tag("multi-resource")
	}
	if len(exp) >= 2 && parents >= 1 && nested >= 1 {
		o.NonTrivial()
	}
	if err := checkTraceRows(exp, rows, 2); err != nil {
		return err
	}
	if err := checkTags(exp, tags); err != nil {
		return err
	}

	tagGroups := map[string][]tagRow{}
	for _, t := range tags {
		tk := tupleKey(t.TraceID, t.SpanID, t.TimestampNs, t.DurationNs)
		tagGroups[tk] = append(tagGroups[tk], t)
	}
	tupleCount := map[string]int{}
	for _, e := range exp {
		tupleCount[tupleKey(e.traceID, e.spanID, e.ts, e.dur)]++
	}

	// reader half
	for _, tid := range distinctTraces(rows) {
		got, err := readBack(rows, tid, c.BinIDs)
		if err != nil {
			return fmt.Errorf("trace %x: read path failed: %v", tid, err)
		}
		order := traceOrder(rows, tid)
		if len(got) != len(order) {
			return fmt.Errorf("trace %x: %d rows stored, read path returned %d spans", tid, len(order), len(got))
		}
		for k, i := range order {
			e, sp, res := exp[i], spans[i], ress[i]
			g := got[k].Span
			if g == nil {
				return fmt.Errorf("%s: read path returned no span", e.desc)
			}
			switch {
			case string(g.TraceId) != string(e.traceID):
				return fmt.Errorf("%s: read back trace id %x, pushed %x", e.desc, g.TraceId, e.traceID)
			case string(g.SpanId) != string(e.spanID):
				return fmt.Errorf("%s: read back span id %x, pushed %x", e.desc, g.SpanId, e.spanID)
			case string(g.ParentSpanId) != e.parent:
				return fmt.Errorf("%s: read back parent id %x, pushed %x", e.desc, g.ParentSpanId, e.parent)
			case g.Name != sp.Name:
				return fmt.Errorf("%s: read back name %q", e.desc, g.Name)
			case g.StartTimeUnixNano != sp.Start || g.EndTimeUnixNano != sp.End:
				return fmt.Errorf("%s: read back times %d..%d, pushed %d..%d", e.desc, g.StartTimeUnixNano, g.EndTimeUnixNano, sp.Start, sp.End)
			}
			idx := spanAttrMap(g)
			for _, kv := range sp.Attrs {
				cands := append(topLevel(sp.Attrs, kv.Key), topLevel(res.Attrs, kv.Key)...)
				if kv.Key == "service.name" {
					// the read path rewrites service.name as a string; a pushed value that
					// is not a non-empty string has no defined read-back form
					var strs []gen.AnyVal
					for _, cv := range cands {
						if cv.K == "s" && cv.S != "" {
							strs = append(strs, cv)
						}
					}
					if len(strs) != len(cands) {
						o.Tag("service.name-not-string")
						continue
					}
				}
				pos, ok := idx[kv.Key]
				if !ok {
					return fmt.Errorf("%s: pushed attribute %q is missing from the span read back", e.desc, kv.Key)
				}
				if len(pos) != 1 {
					return fmt.Errorf("%s: attribute %q occurs %d times in the span read back", e.desc, kv.Key, len(pos))
				}
				gv := g.Attributes[pos[0]].Value
				match := false
				for _, cv := range cands {
					if proto.Equal(gv, cv.Proto()) {
						match = true
					}
				}
				if !match {
					return fmt.Errorf("%s: attribute %q read back as %v, pushed %v", e.desc, kv.Key, showAny(gv), showAny(kv.Val.Proto()))
				}
			}
			if tupleCount[tupleKey(e.traceID, e.spanID, e.ts, e.dur)] == 1 {
				if err := checkAgreement(e, sp, res, rows[i], tagGroups[tupleKey(e.traceID, e.spanID, e.ts, e.dur)], got[k].ServiceName, g, ct); err != nil {
					return err
				}
			} else {
				ct.Tag("indistinguishable-spans")
			}
		}
	}
	return nil
}

// classifyCollisions tags the ways one key reaches a span more than once.
func classifyCollisions(sp gen.OTLPSpan, res gen.OTLPResource, scopeAttrs []gen.KeyVal, o caseTags) {
	count := func(kvs []gen.KeyVal) map[string][]gen.AnyVal {
		m := map[string][]gen.AnyVal{}
		for _, kv := range kvs {
			m[kv.Key] = append(m[kv.Key], kv.Val)
		}
		return m
	}
	same := func(a, b gen.AnyVal) bool { return proto.Equal(a.Proto(), b.Proto()) }
	sm, rm, cm := count(sp.Attrs), count(res.Attrs), count(scopeAttrs)
	fam := map[string]bool{}
	for _, f := range gen.ServiceFamily {
		fam[f] = true
	}
	seen := map[string]bool{}
	tag := func(t string) {
		if !seen[t] {
			seen[t] = true
			o.Tag(t)
		}
	}
	for k, vs := range sm {
		if rvs, ok := rm[k]; ok {
			if same(vs[len(vs)-1], rvs[len(rvs)-1]) {
				tag("span+resource-key:equal-values")
			} else {
				tag("span+resource-key:different-values")
				if fam[k] {
					tag("span+resource-key:different-values:service-family")
				}
			}
		}
		if _, ok := cm[k]; ok {
			tag("span+scope-key")
		}
		if len(vs) > 1 {
			if same(vs[0], vs[len(vs)-1]) {
				tag("key-twice-in-span-list:equal-values")
			} else {
				tag("key-twice-in-span-list:different-values")
			}
		}
	}
	for _, vs := range rm {
		if len(vs) > 1 {
			tag("key-twice-in-resource-list")
		}
	}
}

func isTextScalar(v gen.AnyVal) bool { return v.K == "s" || v.K == "b" || v.K == "i" || v.K == "d" }

// protoScalarMatches reports whether a read-back value is a scalar whose text form is val.
func protoScalarMatches(v *common.AnyValue, val string) bool {
	switch x := v.GetValue().(type) {
	case *common.AnyValue_StringValue:
		return x.StringValue == val
	case *common.AnyValue_BoolValue:
		return strconv.FormatBool(x.BoolValue) == val
	case *common.AnyValue_IntValue:
		return strconv.FormatInt(x.IntValue, 10) == val
	case *common.AnyValue_DoubleValue:
		return floatTextMatches(val, x.DoubleValue)
	}
	return false
}

// checkAgreement decides that the index side and the read side keep the SAME occurrence of
// a key that reaches the span more than once (span list, resource list, twice in a list):
// whatever single value the tag row of key k (and, for service.name, the service_name
// column) carries is the value of attribute k in the span read back. Which occurrence wins
// is qryn's convention (today: the last one, span attributes first, then the resource's) and
// is not fixed here.
//
// Keys outside the rule (counted, not compared): "name" (the index row of that key is the
// span name by design); keys that some nested attribute also flattens to (a.0 next to a=[..]);
// keys with an occurrence that has no text form or is a list/map (the index cannot show
// it, the read path may); service.name when the indexed text could stem from an occurrence
// that is not a non-empty string (the read path then substitutes a fallback name).
func checkAgreement(e spanExpect, sp gen.OTLPSpan, res gen.OTLPResource, row traceRow, tags []tagRow, respService string, g *v1.Span, o caseTags) error {
	type origin struct {
		top    string
		scalar bool
	}
	origins := map[string][]origin{}
	opaqueTop := map[string]bool{} // key has a top-level occurrence that is nested, bytes or empty
	var occ []gen.KeyVal
	occ = append(occ, sp.Attrs...)
	occ = append(occ, res.Attrs...)
	for _, kv := range occ {
		sc, lo := map[string][]cand{}, map[string][]cand{}
		flattenInto(kv.Key, kv.Val, sc, lo)
		for fk := range sc {
			origins[fk] = append(origins[fk], origin{kv.Key, isTextScalar(kv.Val)})
		}
		if !isTextScalar(kv.Val) {
			opaqueTop[kv.Key] = true
		}
	}
	idx := spanAttrMap(g)
	for _, t := range tags {
		k := t.Key
		if k == "name" {
			continue
		}
		if opaqueTop[k] {
			o.Tag("agreement-skipped:opaque-occurrence")
			continue
		}
		ok, own := true, false
		for _, og := range origins[k] {
			if og.top != k || !og.scalar {
				ok = false
			} else {
				own = true
			}
		}
		if !ok {
			if own {
				o.Tag("agreement-skipped:flatten-collision")
			}
			continue // a key that (also) comes out of a nested attribute
		}
		if len(origins[k]) == 0 && k != "service.name" && k != "remoteService.name" {
			continue // not a key of this span at all: the row oracle has dealt with it
		}
		if k == "service.name" {
			skip := false
			for _, v := range append(topLevel(sp.Attrs, k), topLevel(res.Attrs, k)...) {
				sc, lo := map[string][]cand{}, map[string][]cand{}
				flattenInto("k", v, sc, lo)
				if matchAny(sc["k"], t.Val) && !(v.K == "s" && v.Str() != "") {
					skip = true
				}
			}
			if skip {
				o.Tag("agreement-skipped:service.name-not-a-non-empty-string")
				continue
			}
		}
		pos := idx[k]
		if len(pos) != 1 {
			return fmt.Errorf("%s: key %q is indexed with value %q but occurs %d times in the span read back", e.desc, k, trunc(t.Val), len(pos))
		}
		gv := g.Attributes[pos[0]].Value
		if !protoScalarMatches(gv, t.Val) {
			return fmt.Errorf("%s: key %q is indexed with value %q but the span read back shows %s (occurrences pushed: span %v, resource %v)", e.desc, k, trunc(t.Val), trunc(showAny(gv)),
				showVals(topLevel(sp.Attrs, k)), showVals(topLevel(res.Attrs, k)))
		}
		if len(origins[k]) > 1 {
			o.Tag("agreement-checked:key-with-several-occurrences")
		}
		if k == "service.name" {
			if row.ServiceName != gv.GetStringValue() {
				return fmt.Errorf("%s: service_name column holds %q but the span read back shows service.name=%s", e.desc, row.ServiceName, showAny(gv))
			}
			if respService != row.ServiceName {
				return fmt.Errorf("%s: service_name column holds %q but the read path files the span under service %q", e.desc, row.ServiceName, respService)
			}
		}
	}
	return nil
}

func showVals(vs []gen.AnyVal) string {
	var parts []string
	for _, v := range vs {
		parts = append(parts, trunc(showAny(v.Proto())))
	}
	return "[" + strings.Join(parts, ", ") + "]"
}

func showAny(v *common.AnyValue) string {
	if v == nil {
		return "<nil>"
	}
	return fmt.Sprintf("%v", v)
}

func bucket(n int) string {
	switch {
	case n == 0:
		return "0"
	case n == 1:
		return "1"
	case n <= 4:
		return "2-4"
	case n <= 10:
		return "5-10"
	}
	return ">10"
}

func addOTLP(r *evid.Run) {
	evid.Add(r, evid.Prop[otlpCase]{Name: "otlp", Quick: 2000, Thorough: 20000, Gen: genOTLP, Pred: predOTLP, WAL: true})
}

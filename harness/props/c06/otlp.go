package c06

import (
	"encoding/hex"
	"fmt"
	"math"
	"strconv"

	"github.com/metrico/qryn/writer/utils/unmarshal"
	common "go.opentelemetry.io/proto/otlp/common/v1"
	"google.golang.org/protobuf/proto"
	"pgregory.net/rapid"

	"qrynverif/evid"
	"qrynverif/gen"
)

// ---- C06(a): OTLP protobuf ingest -> rows -> trace read path -----------------------------

type otlpCase struct {
	Batch  gen.OTLPBatch `json:"batch"`
	BinIDs bool          `json:"bin_ids"`
}

func genOTLP(rt *rapid.T) otlpCase {
	return otlpCase{Batch: gen.GenOTLPBatch(rt), BinIDs: rapid.Bool().Draw(rt, "bin-ids")}
}

func floatTextMatches(v string, f float64) bool {
	p, err := strconv.ParseFloat(v, 64)
	if err != nil {
		return false
	}
	if math.IsNaN(f) || math.IsNaN(p) {
		return math.IsNaN(f) && math.IsNaN(p)
	}
	if math.IsInf(f, 0) || math.IsInf(p, 0) {
		return p == f
	}
	// any decimal rendering with at least six fractional digits is accepted
	return math.Abs(p-f) <= 1e-6+1e-9*math.Abs(f)
}

// flattenInto is the reference flattening: scalars become one entry under their dotted
// path, array elements under path.<index>, kvlist members under path.<key>. Bytes and empty
// values have no defined text form: they are recorded as "anything goes" and never required.
func flattenInto(path string, v gen.AnyVal, scalar map[string][]cand, loose map[string][]cand) {
	switch v.K {
	case "s":
		scalar[path] = append(scalar[path], cand{kind: 'x', s: v.S})
	case "b":
		scalar[path] = append(scalar[path], cand{kind: 'x', s: strconv.FormatBool(v.B)})
	case "i":
		scalar[path] = append(scalar[path], cand{kind: 'x', s: strconv.FormatInt(v.I, 10)})
	case "d":
		f, _ := strconv.ParseFloat(v.D, 64)
		scalar[path] = append(scalar[path], cand{kind: 'f', f: f})
	case "a":
		for i, e := range v.A {
			flattenInto(path+"."+strconv.Itoa(i), e, scalar, loose)
		}
	case "m":
		for _, kv := range v.M {
			flattenInto(path+"."+kv.Key, kv.Val, scalar, loose)
		}
	default:
		loose[path] = append(loose[path], cand{kind: '*'})
	}
}

func hasNested(kvs []gen.KeyVal) bool {
	for _, kv := range kvs {
		if kv.Val.Nested() {
			return true
		}
	}
	return false
}

func topLevel(kvs []gen.KeyVal, key string) []gen.AnyVal {
	var out []gen.AnyVal
	for _, kv := range kvs {
		if kv.Key == key {
			out = append(out, kv.Val)
		}
	}
	return out
}

// otlpExpect builds the row expectations of one span.
//
// Service name ("carrying the span's ... service name"): OTLP puts service.name on the
// resource, qryn also honours a span-level one; either is accepted when both exist. When no
// service.name exists anywhere qryn falls back to other members of the family or a fixed
// placeholder: any of those is accepted (the property does not rank them).
func otlpExpect(sp gen.OTLPSpan, res gen.OTLPResource, desc string) spanExpect {
	tid, _ := hex.DecodeString(sp.TraceID)
	sid, _ := hex.DecodeString(sp.SpanID)
	pid, _ := hex.DecodeString(sp.ParentID)
	e := spanExpect{traceID: tid, spanID: sid, parent: string(pid), ts: int64(sp.Start), dur: int64(sp.End - sp.Start), name: sp.Name,
		required: map[string][]cand{}, optional: map[string][]cand{}, desc: desc}
	spanScalar, spanLoose := map[string][]cand{}, map[string][]cand{}
	resScalar, resLoose := map[string][]cand{}, map[string][]cand{}
	for _, kv := range sp.Attrs {
		flattenInto(kv.Key, kv.Val, spanScalar, spanLoose)
	}
	for _, kv := range res.Attrs {
		flattenInto(kv.Key, kv.Val, resScalar, resLoose)
	}
	// every flattened scalar attribute of the span needs a row; a resource attribute or a
	// loose value flattening to the same key is an acceptable value of that single row
	for k, cs := range spanScalar {
		e.required[k] = append(e.required[k], cs...)
	}
	addOpt := func(k string, cs []cand) {
		if _, ok := e.required[k]; ok {
			e.required[k] = append(e.required[k], cs...)
		} else {
			e.optional[k] = append(e.optional[k], cs...)
		}
	}
	for k, cs := range resScalar {
		addOpt(k, cs)
	}
	for k, cs := range spanLoose {
		addOpt(k, cs)
	}
	for k, cs := range resLoose {
		addOpt(k, cs)
	}
	// synthesised rows
	addOpt("name", []cand{{kind: 'x', s: sp.Name}})
	addOpt("remoteService.name", []cand{{kind: '*'}})

	// service name candidates come from the top-level attributes only
	scalarText := func(v gen.AnyVal) (cand, bool) {
		sc, lo := map[string][]cand{}, map[string][]cand{}
		if v.Nested() {
			return cand{}, false
		}
		flattenInto("k", v, sc, lo)
		if len(sc["k"]) == 1 {
			return sc["k"][0], true
		}
		return cand{}, false
	}
	var svc []cand
	for _, v := range append(topLevel(sp.Attrs, "service.name"), topLevel(res.Attrs, "service.name")...) {
		if c, ok := scalarText(v); ok {
			svc = append(svc, c)
		} else {
			svc = append(svc, cand{kind: '*'}) // service.name of a kind without text form: don't care
		}
	}
	if len(svc) == 0 {
		for _, fam := range gen.ServiceFamily {
			for _, v := range append(topLevel(sp.Attrs, fam), topLevel(res.Attrs, fam)...) {
				if c, ok := scalarText(v); ok {
					svc = append(svc, c)
				}
			}
		}
		svc = append(svc, cand{kind: 'x', s: "OTLPResourceNoServiceName"})
	}
	e.service = svc
	addOpt("service.name", svc)
	return e
}

func predOTLP(c otlpCase, o *evid.Obs) error {
	body := c.Batch.Body()
	rows, tags, err := runSpanParser(unmarshal.UnmarshalOTLPV2, body)
	if err != nil {
		return fmt.Errorf("well-formed OTLP batch rejected: %v", err)
	}
	var exp []spanExpect
	var spans []gen.OTLPSpan
	var ress []gen.OTLPResource
	parents, nested := 0, 0
	for ri, r := range c.Batch.Resources {
		for si, sc := range r.Scopes {
			for pi, sp := range sc.Spans {
				exp = append(exp, otlpExpect(sp, r, fmt.Sprintf("span %d/%d/%d %q", ri, si, pi, sp.Name)))
				spans = append(spans, sp)
				ress = append(ress, r)
				if sp.ParentID != "" {
					parents++
				}
				if hasNested(sp.Attrs) {
					nested++
				}
				if len(topLevel(sp.Attrs, "peer.service")) > 0 && len(topLevel(sp.Attrs, "service.name"))+len(topLevel(r.Attrs, "service.name")) > 0 {
					o.Tag("peer.service+service.name")
				}
				for _, kv := range sp.Attrs {
					if len(topLevel(r.Attrs, kv.Key)) > 0 {
						o.Tag("span/resource-key-collision")
						break
					}
				}
			}
		}
	}
	o.Tag(fmt.Sprintf("spans=%s", bucket(len(exp))))
	if nested > 0 {
		o.Tag("nested-attr")
	}
	if parents > 0 {
		o.Tag("with-parent")
	}
	if len(c.Batch.Resources) > 1 {
		o.Tag("multi-resource")
	}
	if len(exp) >= 2 && parents >= 1 && nested >= 1 {
		o.NonTrivial()
	}
	if err := checkTraceRows(exp, rows, 2); err != nil {
		return err
	}
	if err := checkTags(exp, tags); err != nil {
		return err
	}

	// reader half
	for _, tid := range distinctTraces(rows) {
		got, err := readBack(rows, tid, c.BinIDs)
		if err != nil {
			return fmt.Errorf("trace %x: read path failed: %v", tid, err)
		}
		order := traceOrder(rows, tid)
		if len(got) != len(order) {
			return fmt.Errorf("trace %x: %d rows stored, read path returned %d spans", tid, len(order), len(got))
		}
		for k, i := range order {
			e, sp, res := exp[i], spans[i], ress[i]
			g := got[k].Span
			if g == nil {
				return fmt.Errorf("%s: read path returned no span", e.desc)
			}
			switch {
			case string(g.TraceId) != string(e.traceID):
				return fmt.Errorf("%s: read back trace id %x, pushed %x", e.desc, g.TraceId, e.traceID)
			case string(g.SpanId) != string(e.spanID):
				return fmt.Errorf("%s: read back span id %x, pushed %x", e.desc, g.SpanId, e.spanID)
			case string(g.ParentSpanId) != e.parent:
				return fmt.Errorf("%s: read back parent id %x, pushed %x", e.desc, g.ParentSpanId, e.parent)
			case g.Name != sp.Name:
				return fmt.Errorf("%s: read back name %q", e.desc, g.Name)
			case g.StartTimeUnixNano != sp.Start || g.EndTimeUnixNano != sp.End:
				return fmt.Errorf("%s: read back times %d..%d, pushed %d..%d", e.desc, g.StartTimeUnixNano, g.EndTimeUnixNano, sp.Start, sp.End)
			}
			idx := spanAttrMap(g)
			for _, kv := range sp.Attrs {
				cands := append(topLevel(sp.Attrs, kv.Key), topLevel(res.Attrs, kv.Key)...)
				if kv.Key == "service.name" {
					// the read path rewrites service.name as a string; a pushed value that
					// is not a non-empty string has no defined read-back form
					var strs []gen.AnyVal
					for _, cv := range cands {
						if cv.K == "s" && cv.S != "" {
							strs = append(strs, cv)
						}
					}
					if len(strs) != len(cands) {
						o.Tag("service.name-not-string")
						continue
					}
				}
				pos, ok := idx[kv.Key]
				if !ok {
					return fmt.Errorf("%s: pushed attribute %q is missing from the span read back", e.desc, kv.Key)
				}
				if len(pos) != 1 {
					return fmt.Errorf("%s: attribute %q occurs %d times in the span read back", e.desc, kv.Key, len(pos))
				}
				gv := g.Attributes[pos[0]].Value
				match := false
				for _, cv := range cands {
					if proto.Equal(gv, cv.Proto()) {
						match = true
					}
				}
				if !match {
					return fmt.Errorf("%s: attribute %q read back as %v, pushed %v", e.desc, kv.Key, showAny(gv), showAny(kv.Val.Proto()))
				}
			}
		}
	}
	return nil
}

func showAny(v *common.AnyValue) string {
	if v == nil {
		return "<nil>"
	}
	return fmt.Sprintf("%v", v)
}

func bucket(n int) string {
	switch {
	case n == 0:
		return "0"
	case n == 1:
		return "1"
	case n <= 4:
		return "2-4"
	case n <= 10:
		return "5-10"
	}
	return ">10"
}

func addOTLP(r *evid.Run) {
	evid.Add(r, evid.Prop[otlpCase]{Name: "otlp", Quick: 3000, Thorough: 30000, Gen: genOTLP, Pred: predOTLP, WAL: true})
}

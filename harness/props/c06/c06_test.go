package c06

import (
	"testing"

	"qrynverif/evid"
)

func TestProp(t *testing.T) {
	r := evid.New(t, "C06", evid.Config{
		Level: "exploration",
		Rule:  "generated span batches through the exported span parsers, rows replayed into TempoService.Query; non-trivial: batch with >=2 spans of which >=1 has a parent and >=1 a nested (list/map) attribute (Zipkin: >=2 spans, >=1 parent, >=1 tag and an endpoint)",
		Assumptions: []string{
			"OTLP bodies carry a Resource per ResourceSpans and a Value per KeyValue; ids are 16/8 bytes (other lengths: C05)",
			"attribute keys are unique within one attribute list; Zipkin JSON object keys are unique",
			"the scripted database/sql driver returns the rows of one trace id ordered by timestamp_ns, as the generated SQL asks",
		},
	})
	addOTLP(r)
	addZipkin(r)
	r.Main()
}

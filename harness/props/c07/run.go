package c07

import (
	"context"
	"fmt"
	"io"
	"time"

	clcfg "github.com/metrico/cloki-config/config"
	"github.com/metrico/qryn/reader/logql/logql_transpiler_v2"
	"github.com/metrico/qryn/reader/logql/logql_transpiler_v2/shared"
	"github.com/metrico/qryn/reader/utils/dbVersion"
	sql "github.com/metrico/qryn/reader/utils/sql_select"
	"github.com/metrico/qryn/reader/utils/tables"

	"qrynverif/fakesql"
	"qrynverif/logdb"
	"qrynverif/readersvc"
)

// Req is one query_range request, the parameters QueryRangeService.QueryRange receives
// (reader/service/queryRangeService.go:206).
type Req struct {
	Query   string `json:"query"`
	FromNs  int64  `json:"from_ns"`
	ToNs    int64  `json:"to_ns"`
	StepMs  int64  `json:"step_ms"`
	Limit   int64  `json:"limit"`
	Forward bool   `json:"forward"`
	Cluster bool   `json:"cluster,omitempty"`
	// Consumer shapes the reader of the final channel (QueryRange's JSON writer can be
	// arbitrarily slow: it writes to the client's socket): 0 = drains as fast as it can;
	// 1 = waits 3 ms before the first receive, then fast; 2 = holds every batch 300 µs
	// before reading it; 3 = bursty: every third batch is held 1.5 ms. A held batch is read
	// only after the pause, so a stage that keeps writing into a batch it has already sent
	// shows up as a wrong answer (and, under -race, as a data race whatever the timing).
	Consumer int `json:"consumer,omitempty"`
}

// Outcome is what the real read path produced for a request.
type Outcome struct {
	Entries   []shared.LogEntry // everything the processor chain emitted, in order (EOF markers removed)
	Batches   int               // slices received from the final channel
	IsMatrix  bool
	PlanErr   error             // Transpile / Process refused the query (before or while rendering SQL)
	StreamErr error             // an entry carried an error (scan failure, failed statement)
	Backend   *logdb.Backend    // statements and what the reference interpreter made of them
}

// Run executes a request exactly the way QueryRangeService.prepareOutput does
// (queryRangeService.go:382): Transpile, version info, PlannerContext with From/To cut to
// whole seconds, CHFinalize, Step, cluster flag from the database configuration, then
// chain[0].Process — over a fake database/sql connection answered by the reference
// interpreter on db's tables. The rows travel through the real ClickhouseGetterPlanner
// scanners and the real post-processors (ZeroEater, FixPeriod) Plan wires in.
func Run(db *logdb.DB, rq Req) (out Outcome) {
	restore := readersvc.Quiet()
	defer restore()
	be := logdb.NewBackend(db.CH())
	// `topk(k, X) > v` renders HAVING on a select without aggregation: read it the way the
	// new ClickHouse analyzer (default since 24.3) does, as a filter (logdb.Backend)
	be.HavingAsFilter = true
	out.Backend = be
	fdb := fakesql.New(be.Handler())
	defer fdb.Close()
	cfg := &clcfg.ClokiBaseDataBase{}
	if rq.Cluster {
		cfg.ClusterName = "clstr"
		cfg.Name = "qryn"
	}
	reg := fdb.Registry(cfg)
	ctx, cancelAll := context.WithCancel(context.Background())
	defer cancelAll()
	conn, err := reg.GetDB(ctx)
	if err != nil {
		out.PlanErr = err
		return
	}
	chain, err := logql_transpiler_v2.Transpile(rq.Query)
	if err != nil {
		out.PlanErr = err
		return
	}
	versionInfo, err := dbVersion.GetVersionInfo(ctx, conn.Config.ClusterName != "", conn.Session)
	if err != nil {
		out.PlanErr = err
		return
	}
	_ctx, cancel := context.WithCancel(ctx)
	plannerCtx := tables.PopulateTableNames(&shared.PlannerContext{
		IsCluster:  conn.Config.ClusterName != "",
		From:       time.Unix(rq.FromNs/1000000000, 0),
		To:         time.Unix(rq.ToNs/1000000000, 0),
		OrderASC:   rq.Forward,
		Limit:      rq.Limit,
		Ctx:        _ctx,
		CancelCtx:  cancel,
		CHDb:       conn.Session,
		CHFinalize: true,
		Step:       time.Duration(rq.StepMs) * time.Millisecond,
		CHSqlCtx: &sql.Ctx{
			Params: map[string]sql.SQLObject{},
			Result: map[string]sql.SQLObject{},
		},
		VersionInfo: versionInfo,
	}, conn)
	out.IsMatrix = chain[0].IsMatrix()
	res, err := chain[0].Process(plannerCtx, nil)
	if err != nil {
		out.PlanErr = err
		return
	}
	if rq.Consumer == 1 {
		time.Sleep(3 * time.Millisecond)
	}
	nb := 0
	for batch := range res {
		nb++
		out.Batches++
		switch {
		case rq.Consumer == 2:
			time.Sleep(300 * time.Microsecond)
		case rq.Consumer == 3 && nb%3 == 0:
			time.Sleep(1500 * time.Microsecond)
		}
		for _, e := range batch {
			if e.Err == io.EOF {
				continue
			}
			if e.Err != nil {
				if out.StreamErr == nil {
					out.StreamErr = e.Err
				}
				continue
			}
			out.Entries = append(out.Entries, e)
		}
	}
	return
}

// Rewritten says whether a statement was executed under the HAVING-as-filter reading.
func (o *Outcome) Rewritten() bool {
	for _, e := range o.Backend.Log() {
		if e.Rewritten {
			return true
		}
	}
	return false
}

// SQL returns the main statement of the outcome ("" if none was sent).
func (o *Outcome) SQL() string {
	l := o.Backend.Log()
	if len(l) == 0 {
		return ""
	}
	return l[len(l)-1].SQL
}

func (o *Outcome) String() string {
	return fmt.Sprintf("matrix=%v planErr=%v streamErr=%v entries=%d sql=%s", o.IsMatrix, o.PlanErr, o.StreamErr, len(o.Entries), o.SQL())
}

package c07

// gen.go: grammar-directed generators shared by C07 and C08 — small log databases placed
// around a request window, and LogQL selectors / pipelines as refeval ASTs (the printer of
// refeval.Expr yields the query text; the AST stays in the case for the direct evaluator).

import (
	"encoding/json"
	"regexp"
	"strconv"
	"strings"

	"pgregory.net/rapid"

	"qrynverif/logdb"
	"qrynverif/refeval"
)

// Midnight is 2023-11-15T00:00:00Z in seconds: windows are placed around it so that the
// `date` columns of time_series / time_series_gin take two values.
const Midnight = int64(1700006400)

// Label universe. Names are unchanged by the writer's sanitisation; values mix plain words,
// numbers (for numeric label filters / unwrap) and the hostile alphabet of the property
// (quotes, backslashes, %, _, regex metacharacters, newline, non-ASCII).
var (
	LabelNames  = []string{"app", "env", "lvl", "job", "n", "a_b", "_u"}
	LabelValues = []string{
		"x", "y", "prod", "dev", "info", "api", "api-server",
		"1", "42", "3.5", "007", "1e3",
		`it's`, `a"b`, `back\slash`, `100%`, `a_b`, `a.b`, `(x)`, `x|y`, "new\nline", "é", `a\%b`, `[x]`, `$^`, `x'`,
	}
	// names a query may mention although no series carries them
	AbsentNames = []string{"nolbl", "zz"}
	// names json/regexp stages extract into
	ExtractNames = []string{"a", "b", "v", "w", "xl", "xn"}
)

// Window is a request window in whole seconds (QueryRangeService cuts start/end to whole
// seconds: queryRangeService.go:398 time.Unix(fromNs/1e9, 0)).
type Window struct {
	FromS int64 `json:"from_s"`
	ToS   int64 `json:"to_s"`
}

func (w Window) FromNs() int64 { return w.FromS * 1e9 }
func (w Window) ToNs() int64   { return w.ToS * 1e9 }

// GenWindow draws a window of 1..maxLen seconds near midnight.
func GenWindow(rt *rapid.T, maxLen int) Window {
	from := Midnight + int64(rapid.IntRange(-70, 20).Draw(rt, "from"))
	l := int64(rapid.IntRange(1, maxLen).Draw(rt, "len"))
	return Window{from, from + l}
}

// ---- lines -----------------------------------------------------------------------------------

var lineWords = []string{"hello", "error", "GET /a_b?x=100%", `it's`, `say "hi"`, `c:\dir\f`, "a.b", "(x)", "x|y", "tab\there", "two\nlines", "ünï", "50%_off", `\d+`, "$5"}

var jsonKeys = []string{"a", "b", "lvl", "n", "c d", "v"}

func genJSONValue(rt *rapid.T, depth int) string {
	switch rapid.IntRange(0, 9).Draw(rt, "jv") {
	case 0, 1, 2:
		b, _ := json.Marshal(rapid.SampledFrom(LabelValues).Draw(rt, "js"))
		return string(b)
	case 3, 4:
		return rapid.SampledFrom([]string{"1", "42", "3.5", "-2", "0", "10"}).Draw(rt, "jn")
	case 5:
		b, _ := json.Marshal(rapid.SampledFrom(lineWords).Draw(rt, "jw"))
		return string(b)
	case 6:
		return rapid.SampledFrom([]string{"true", "false", "null"}).Draw(rt, "jb")
	case 7:
		return "[" + rapid.SampledFrom([]string{`1,2`, `"x","y"`, ``, `{"a":"in"}`}).Draw(rt, "ja") + "]"
	default:
		if depth >= 2 {
			return `"deep"`
		}
		return genJSONObject(rt, depth+1)
	}
}

// distinct keys: which of two equal keys a JSON reader reports is parser-dependent
func genJSONObject(rt *rapid.T, depth int) string {
	n := rapid.IntRange(1, 3).Draw(rt, "jn")
	keys := rapid.SliceOfNDistinct(rapid.SampledFrom(jsonKeys), n, n, rapid.ID[string]).Draw(rt, "jkeys")
	parts := make([]string, len(keys))
	for i, key := range keys {
		k, _ := json.Marshal(key)
		if (key == "lvl" || key == "a") && Chance(rt, "jarr", 25) {
			// arrays under the keys the indexed json paths address
			parts[i] = string(k) + ":" + rapid.SampledFrom([]string{`[1,2]`, `["x","y"]`, `[{"a":"in"},5]`, `[42]`}).Draw(rt, "jarrv")
			continue
		}
		if (key == "n" || key == "v") && rapid.IntRange(0, 9).Draw(rt, "jnum") < 7 {
			// numeric more often than not: what unwrap and numeric filters feed on
			parts[i] = string(k) + ":" + rapid.SampledFrom([]string{"1", "2", "42", "3.5", "-2", "10", `"7"`, `"0.5"`}).Draw(rt, "jnv")
			continue
		}
		parts[i] = string(k) + ":" + genJSONValue(rt, depth)
	}
	return "{" + strings.Join(parts, ",") + "}"
}

func nameIndex(n string) int {
	for i, x := range LabelNames {
		if x == n {
			return i
		}
	}
	return 0
}

// GenLine draws a log line: JSON object / key=value text the regexp stages parse / free
// hostile text / (rarely) empty or broken JSON.
// richJSON: every key of the json paths present, with different values under different keys
// (two extractions into one label then disagree).
func richJSON(rt *rapid.T) string {
	vals := rapid.SliceOfNDistinct(rapid.SampledFrom([]string{"x", "y", "prod", "dev", "info", "api", "1", "42", "3.5", "it's", "a.b"}), 4, 4, rapid.ID[string]).Draw(rt, "rjv")
	q := func(s string) string { b, _ := json.Marshal(s); return string(b) }
	return `{"a":` + q(vals[0]) + `,"b":` + q(vals[1]) + `,"lvl":` + q(vals[2]) + `,"v":` + q(vals[3]) + `,"n":` + rapid.SampledFrom([]string{"1", "7", "42"}).Draw(rt, "rjn") + `}`
}

func GenLine(rt *rapid.T) string {
	switch rapid.IntRange(0, 13).Draw(rt, "lk") {
	case 12, 13:
		return richJSON(rt)
	case 0, 1, 2, 3:
		return genJSONObject(rt, 0)
	case 4, 5, 6:
		s := "lvl=" + rapid.SampledFrom([]string{"1", "5", "42", "info", "3.5"}).Draw(rt, "lv")
		if rapid.Bool().Draw(rt, "lm") {
			s += " msg=" + rapid.SampledFrom([]string{"ok", "fail", "x", "a_b"}).Draw(rt, "lw")
		}
		if rapid.Bool().Draw(rt, "l2") {
			s += " lvl=" + rapid.SampledFrom([]string{"2", "9"}).Draw(rt, "lv2")
		}
		return s
	case 7, 8, 9:
		n := rapid.IntRange(1, 3).Draw(rt, "ln")
		ws := make([]string, n)
		for i := range ws {
			ws[i] = rapid.SampledFrom(lineWords).Draw(rt, "lw")
		}
		return strings.Join(ws, " ")
	case 10:
		return rapid.SampledFrom([]string{"", `{"a":`, `{"a":"1"} trailing`, `[1,2]`, `"str"`, "  "}).Draw(rt, "lb")
	default:
		return rapid.StringMatching(`[ -~]{0,12}`).Draw(rt, "lr")
	}
}

// ---- database --------------------------------------------------------------------------------

// DBOpt controls GenDB.
type DBOpt struct {
	MinSeries  int
	MaxSeries  int
	MaxSamples int
	// SpreadNs: samples lie in [from-SpreadNs, to+SpreadNs).
	SpreadNs int64
	// GridNs, if > 0, adds anchors at multiples of it (bucket edges for metric queries).
	GridNs int64
	// Metric: also generate metric-typed (2) and both-typed (0) samples.
	OtherTypes bool
}

func genLabels(rt *rapid.T) []logdb.Label {
	// "app" and "env" are carried by most series (so that negative matchers on them are not
	// decided by the absence of the label), the other names by some
	var names []string
	for _, nm := range LabelNames {
		p := 2
		if nm == "app" || nm == "env" {
			p = 9
		}
		if rapid.IntRange(0, 9).Draw(rt, "has-"+nm) < p {
			names = append(names, nm)
		}
	}
	if len(names) == 0 {
		names = []string{"app"}
	}
	if len(names) > 5 {
		names = names[:5]
	}
	// stored key order is ingestion order: any permutation
	perm := rapid.Permutation(names).Draw(rt, "order")
	out := make([]logdb.Label, len(perm))
	for i, nm := range perm {
		// few distinct values per name so that series share and differ in labels
		var v string
		if rapid.IntRange(0, 9).Draw(rt, "vk") < 6 {
			v = LabelValues[(nameIndex(nm)*2+rapid.IntRange(0, 2).Draw(rt, "vi"))%len(LabelValues)]
		} else {
			v = rapid.SampledFrom(LabelValues).Draw(rt, "v")
		}
		out[i] = logdb.Label{Name: nm, Value: v}
	}
	return out
}

// GenDB draws a database placed around the window.
func GenDB(rt *rapid.T, w Window, o DBOpt) logdb.DB {
	db := logdb.DB{}
	minS := o.MinSeries
	if minS < 1 {
		minS = 1
	}
	ns := rapid.IntRange(minS, o.MaxSeries).Draw(rt, "nseries")
	seen := map[string]bool{}
	from, to := w.FromNs(), w.ToNs()
	anchors := []int64{from - 1e9, from - 1, from, from + 1, from + 5e8, to - 1e9, to - 1, to, to + 1, to + 999999999,
		Midnight*1e9 - 1, Midnight * 1e9, (from + to) / 2}
	if o.GridNs > 0 {
		g := o.GridNs
		for _, t := range []int64{from, to, (from + to) / 2} {
			b := t / g * g
			anchors = append(anchors, b-1, b, b+g-1, b+g, b-g)
		}
	}
	for i := 0; i < ns; i++ {
		s := logdb.Series{Labels: genLabels(rt)}
		k := refeval.LabelsKey(s.LabelMap())
		if seen[k] {
			continue
		}
		seen[k] = true
		nsm := rapid.IntRange(0, o.MaxSamples).Draw(rt, "nsamples")
		if nsm == 0 && !Chance(rt, "empty-series", 10) {
			nsm = 1 + o.MaxSamples/2
		}
		for j := 0; j < nsm; j++ {
			var ts int64
			switch tk := rapid.IntRange(0, 9).Draw(rt, "tk"); {
			case tk < 3:
				ts = rapid.SampledFrom(anchors).Draw(rt, "anchor")
			case tk < 8:
				ts = rapid.Int64Range(from, to-1).Draw(rt, "ts-in")
				if rapid.Bool().Draw(rt, "round") {
					ts = ts / 1e6 * 1e6 // milliseconds, as most clients send
				}
			default:
				ts = rapid.Int64Range(from-o.SpreadNs, to+o.SpreadNs-1).Draw(rt, "ts")
			}
			if ts <= 0 {
				ts = 1
			}
			sm := logdb.Sample{TsNs: ts, Type: logdb.TypeLog, Batch: rapid.IntRange(0, 1).Draw(rt, "batch")}
			tk := 0
			if o.OtherTypes {
				tk = rapid.IntRange(0, 9).Draw(rt, "type")
			}
			switch {
			case tk == 8: // metric sample: no line
				sm.Type = logdb.TypeMetric
				sm.Value = float64(rapid.IntRange(-3, 50).Draw(rt, "val"))
			case tk == 9: // Loki JSON entry with line and value
				sm.Type = logdb.TypeBoth
				sm.Line = GenLine(rt)
				sm.Value = float64(rapid.IntRange(0, 9).Draw(rt, "val"))
			default:
				sm.Line = GenLine(rt)
			}
			s.Samples = append(s.Samples, sm)
		}
		if rapid.IntRange(0, 4).Draw(rt, "reann") == 0 {
			s.Reannounce = 1
		}
		db.Series = append(db.Series, s)
	}
	if rapid.Bool().Draw(rt, "shuffle") {
		db.RowSeed = uint64(rapid.IntRange(1, 1000).Draw(rt, "rowseed"))
	}
	return db
}

// ---- query -----------------------------------------------------------------------------------

// dbStrings collects what the data offers to the query generator.
type dbStrings struct {
	names  []string
	values map[string][]string
	allVal []string
	lines  []string
}

func collect(db *logdb.DB) dbStrings {
	d := dbStrings{values: map[string][]string{}}
	d.names = db.LabelNames()
	for _, s := range db.Series {
		for _, l := range s.Labels {
			d.values[l.Name] = append(d.values[l.Name], l.Value)
			d.allVal = append(d.allVal, l.Value)
		}
		for _, sm := range s.Samples {
			if sm.Line != "" {
				d.lines = append(d.lines, sm.Line)
			}
		}
	}
	if len(d.names) == 0 {
		d.names = []string{"app"}
	}
	if len(d.allVal) == 0 {
		d.allVal = []string{"x"}
	}
	return d
}

// genRegexFor draws a regular expression meant to match (part of) target.
func genRegexFor(rt *rapid.T, target string, pool []string) string {
	switch rapid.IntRange(0, 13).Draw(rt, "rek") {
	case 0, 1, 2, 12, 13:
		return regexp.QuoteMeta(target)
	case 3:
		r := []rune(target)
		k := rapid.IntRange(0, len(r)).Draw(rt, "pre")
		return regexp.QuoteMeta(string(r[:k])) + ".*"
	case 4:
		return regexp.QuoteMeta(target) + "|" + regexp.QuoteMeta(rapid.SampledFrom(pool).Draw(rt, "alt"))
	case 5:
		return rapid.SampledFrom([]string{".+", ".*", "[a-z]+", `\d+`, "^[a-z]", "[0-9]$", "", "x?", `\w+`, "(?i)X", "(?i)PROD"}).Draw(rt, "gen")
	case 6:
		return "^" + regexp.QuoteMeta(target) + "$"
	case 7:
		return "(" + regexp.QuoteMeta(target) + ")+"
	case 8:
		return target // raw: metacharacters of the data act as operators (may be invalid)
	case 9:
		return "^(?:" + regexp.QuoteMeta(target) + ")$"
	default:
		r := []rune(target)
		if len(r) == 0 {
			return "."
		}
		k := rapid.IntRange(0, len(r)-1).Draw(rt, "dot")
		return regexp.QuoteMeta(string(r[:k])) + "." + regexp.QuoteMeta(string(r[k+1:]))
	}
}

// GenMatchers draws 1..3 stream-selector matchers (rarely 9..11: the matcher bitmask),
// mostly aimed at one series of the database so that the selector selects.
func GenMatchers(rt *rapid.T, db *logdb.DB) []refeval.Matcher {
	d := collect(db)
	n := rapid.SampledFrom([]int{1, 1, 1, 2, 2, 3}).Draw(rt, "nm")
	if Chance(rt, "many", 3) {
		n = rapid.IntRange(9, 11).Draw(rt, "nmany")
	}
	var target []logdb.Label
	if len(db.Series) > 0 {
		// aim at a series that has samples, if there is one
		ti := rapid.IntRange(0, len(db.Series)-1).Draw(rt, "target")
		for k := 0; k < len(db.Series); k++ {
			if len(db.Series[(ti+k)%len(db.Series)].Samples) > 0 {
				ti = (ti + k) % len(db.Series)
				break
			}
		}
		target = db.Series[ti].Labels
	}
	var out []refeval.Matcher
	for i := 0; i < n; i++ {
		if len(target) > 0 && rapid.IntRange(0, 9).Draw(rt, "aimed") < 8 {
			l := target[rapid.IntRange(0, len(target)-1).Draw(rt, "tl")]
			op := rapid.SampledFrom([]string{"=", "=", "=", "=~", "=~", "!=", "!~"}).Draw(rt, "mop")
			if (op == "!=" || op == "!~") && !Chance(rt, "anyneg", 15) {
				// negative matchers mostly on the labels nearly every series carries: on other
				// names the answer hinges on series that lack the label (don't-care)
				for _, tl := range target {
					if tl.Name == "app" || tl.Name == "env" {
						l = tl
					}
				}
			}
			pool := d.values[l.Name]
			val := l.Value
			if op == "!=" || op == "!~" {
				// usually another value (keeps the target), sometimes the target's own
				if rapid.IntRange(0, 4).Draw(rt, "own") > 0 {
					val = rapid.SampledFrom(append([]string{"zzz"}, pool...)).Draw(rt, "nval")
				}
			}
			if op == "=~" || op == "!~" {
				val = genRegexFor(rt, val, pool)
			}
			out = append(out, refeval.Matcher{Name: l.Name, Op: op, Val: val})
			continue
		}
		name := rapid.SampledFrom(append(append([]string{}, AbsentNames...), LabelNames...)).Draw(rt, "mname")
		pool := d.values[name]
		if len(pool) == 0 {
			pool = d.allVal
		}
		val := rapid.SampledFrom(append(append([]string{}, pool...), LabelValues...)).Draw(rt, "mval")
		op := rapid.SampledFrom([]string{"=", "=", "!=", "=~", "=~", "!~"}).Draw(rt, "mop")
		if op == "=~" || op == "!~" {
			val = genRegexFor(rt, val, pool)
		}
		out = append(out, refeval.Matcher{Name: name, Op: op, Val: val})
	}
	return out
}

// GenMatchersBroad draws, half of the time, a selector that admits several series (what
// vector aggregations and limits need), else GenMatchers.
func GenMatchersBroad(rt *rapid.T, db *logdb.DB) []refeval.Matcher {
	d := collect(db)
	if rapid.Bool().Draw(rt, "narrow") {
		return GenMatchers(rt, db)
	}
	name := rapid.SampledFrom([]string{"app", "env", "app", "env", "lvl", "job"}).Draw(rt, "bname")
	pool := d.values[name]
	if len(pool) == 0 {
		name = d.names[0]
		pool = d.values[name]
	}
	if len(pool) == 0 {
		pool = []string{"x"}
	}
	switch rapid.IntRange(0, 3).Draw(rt, "bk") {
	case 0:
		return []refeval.Matcher{{Name: name, Op: "=~", Val: ".+"}}
	case 1:
		a := rapid.SampledFrom(pool).Draw(rt, "ba")
		b := rapid.SampledFrom(pool).Draw(rt, "bb")
		return []refeval.Matcher{{Name: name, Op: "=~", Val: "^(" + regexp.QuoteMeta(a) + "|" + regexp.QuoteMeta(b) + ")$"}}
	case 2:
		return []refeval.Matcher{{Name: name, Op: "=", Val: rapid.SampledFrom(pool).Draw(rt, "bv")}}
	default:
		return []refeval.Matcher{{Name: name, Op: "=~", Val: ".+"}, {Name: name, Op: "!=", Val: rapid.SampledFrom(append([]string{"zzz"}, pool...)).Draw(rt, "bn")}}
	}
}

// substring of a data line (so the filter selects), or a hostile string
func genLineNeedle(rt *rapid.T, d dbStrings) string {
	if len(d.lines) > 0 && rapid.IntRange(0, 9).Draw(rt, "fromdata") < 7 {
		l := []rune(rapid.SampledFrom(d.lines).Draw(rt, "line"))
		if len(l) > 0 {
			a := rapid.IntRange(0, len(l)-1).Draw(rt, "a")
			b := rapid.IntRange(a+1, min(len(l), a+6)).Draw(rt, "b")
			return string(l[a:b])
		}
	}
	return rapid.SampledFrom(append(append([]string{""}, lineWords...), LabelValues...)).Draw(rt, "needle")
}

func genLineFilter(rt *rapid.T, d dbStrings) refeval.Stage {
	op := rapid.SampledFrom([]string{"|=", "|=", "!=", "|~", "!~"}).Draw(rt, "lfop")
	needle := genLineNeedle(rt, d)
	// DESIGN section 4 item 12 (the C10 builder owns the repair): backslashes and a trailing
	// quote in LIKE patterns. Mostly steer around, keep a trickle to count the region.
	if rapid.IntRange(0, 9).Draw(rt, "keepbs") > 5 {
		needle = strings.ReplaceAll(needle, `\`, "/")
		needle = strings.TrimRight(needle, "'")
	}
	if op == "|~" || op == "!~" {
		needle = genRegexFor(rt, needle, append([]string{"x"}, lineWords...))
	}
	return refeval.Stage{Kind: refeval.KLineFilter, Op: op, Val: needle}
}

func genFilterLeaf(rt *rapid.T, d dbStrings, extracted []string) *refeval.LabelFilter {
	names := append(append([]string{}, d.names...), extracted...)
	if rapid.IntRange(0, 9).Draw(rt, "absent") == 0 {
		names = append(names, AbsentNames...)
	}
	name := rapid.SampledFrom(names).Draw(rt, "fname")
	if rapid.IntRange(0, 2).Draw(rt, "numeric") == 0 {
		op := rapid.SampledFrom([]string{"==", "!=", ">", ">=", "<", "<="}).Draw(rt, "nop")
		num := rapid.SampledFrom([]string{"0", "1", "2", "5", "42", "3.5", "3.", "10", "007", "41.99"}).Draw(rt, "num")
		return &refeval.LabelFilter{Label: name, Cmp: op, Num: num}
	}
	pool := d.values[name]
	if len(pool) == 0 {
		pool = append([]string{"1", "5", "info", "ok"}, d.allVal...)
	}
	val := rapid.SampledFrom(pool).Draw(rt, "fval")
	if rapid.IntRange(0, 5).Draw(rt, "other") == 0 {
		val = rapid.SampledFrom(append([]string{""}, LabelValues...)).Draw(rt, "fval2")
	}
	op := rapid.SampledFrom([]string{"=", "=", "!=", "=~", "!~"}).Draw(rt, "fop")
	if op == "=~" || op == "!~" {
		val = genRegexFor(rt, val, pool)
	}
	return &refeval.LabelFilter{Label: name, Cmp: op, Str: &val}
}

func genFilterTree(rt *rapid.T, d dbStrings, extracted []string, depth int) *refeval.LabelFilter {
	if depth >= 2 || rapid.IntRange(0, 9).Draw(rt, "leaf") < 6 {
		return genFilterLeaf(rt, d, extracted)
	}
	return &refeval.LabelFilter{
		Bool: rapid.SampledFrom([]string{"and", "or"}).Draw(rt, "bool"),
		L:    genFilterTree(rt, d, extracted, depth+1),
		R:    genFilterTree(rt, d, extracted, depth+1),
	}
}

var jsonPaths = []string{"a", "b", "lvl", "n", "v", "b.a", "b.lvl", "a.b", `["c d"]`, `b["c d"]`, "b.b.a", "nokey", "lvl[0]", "lvl[1]", "a[0]", "b.a[1]", "a[0].a"}

var regexpStages = []struct {
	re    string
	names []string
}{
	{`lvl=(?P<xl>[0-9]+)`, []string{"xl"}},
	{`lvl=(?P<xl>\w+) msg=(?P<w>\w+)`, []string{"xl", "w"}},
	{`lvl=(?P<lvl>[0-9.]+)`, []string{"lvl"}},
	{`(?P<w>[a-z]+)`, []string{"w"}},
	{`(lvl|msg)=(?P<v>[^ ]*)`, []string{"v"}},
	{`"(?P<a>[a-z]+)":"?(?P<v>[^",}]*)`, []string{"a", "v"}},
	{`^(?P<w>\S+) (?P<xn>\S+)$`, []string{"w", "xn"}},
	{`(?P<xn>\d+)%`, []string{"xn"}},
}

// nestedRegexpStages: group structures qryn's regexp parser accepts
// (planner_parser_regexp.go: "(?P<" name ">" ... ")", "(" ... ")", everything else literal):
// named inside named / unnamed, unnamed inside named, siblings, optional groups, alternation
// with groups, an empty named group, non-capturing and flag groups. Anchored, so that a line
// matches at most once. Each named group's label must receive its own group's text.
var nestedRegexpStages = []struct {
	re    string
	names []string
}{
	{`^(?P<w>lvl=(?P<xl>\w+))`, []string{"w", "xl"}},
	{`^(lvl=(?P<xl>\w+))( msg=(?P<w>\w+))?`, []string{"xl", "w"}},
	{`^(?P<w>(lvl)=(\w+))`, []string{"w"}},
	{`^(?P<xl>lvl)=(?P<xn>[^ ]+) (?P<w>msg)`, []string{"xl", "xn", "w"}},
	{`^(?:lvl|msg)=(?P<v>\w+)`, []string{"v"}},
	{`^(lvl=(?P<xn>\d+)|lvl=(?P<w>[a-z]+))`, []string{"xn", "w"}},
	{`^(?P<b>)lvl=(?P<xl>\w+)`, []string{"b", "xl"}},
	{`^(?i)LVL=(?P<xl>\w+)`, []string{"xl"}},
	{`^(?P<w>lvl=(?P<xn>\d+)(?P<v>\.\d+)?)`, []string{"w", "xn", "v"}},
	{`^(?P<w>(?P<xl>[a-z]+) (?P<xn>[^ ]+))`, []string{"w", "xl", "xn"}},
	{`^\{"(?P<a>[a-z]+)":("(?P<v>[^"]*)"|(?P<xn>\d+))`, []string{"a", "v", "xn"}},
	{`^(?P<w>(?:hello|error) (?P<xl>\S+))`, []string{"w", "xl"}},
}

// StageOpt controls GenStages.
type StageOpt struct {
	Max int
	// Unwrap appends `| unwrap <label>` (metric queries with unwrap functions).
	Unwrap bool
}

// GenStages draws a pipeline of the stages the SQL planner implements (the property's
// grammar): line filters, label filters, json with parameters, regexp, drop. `json`
// without parameters, logfmt and line_format run in the in-process engine (C09);
// label_format is outside the property's grammar.
func GenStages(rt *rapid.T, db *logdb.DB, o StageOpt) []refeval.Stage {
	st, _ := GenStagesFlat(rt, db, o)
	return st
}

// genFlatChain draws an unparenthesised chain of 3-4 terms with mixed and/or, as the
// right-nested tree qryn's grammar builds for it. Terms are aimed at the label sets of the
// database (true for one series, false for another) so that different groupings of the same
// text give different answers.
func genFlatChain(rt *rapid.T, db *logdb.DB, d dbStrings, extracted []string) *refeval.LabelFilter {
	n := rapid.IntRange(3, 4).Draw(rt, "chain-n")
	terms := make([]*refeval.LabelFilter, n)
	for i := range terms {
		if len(db.Series) > 0 && rapid.IntRange(0, 9).Draw(rt, "chain-aim") < 8 {
			s := db.Series[rapid.IntRange(0, len(db.Series)-1).Draw(rt, "chain-s")]
			l := s.Labels[rapid.IntRange(0, len(s.Labels)-1).Draw(rt, "chain-l")]
			v := l.Value
			terms[i] = &refeval.LabelFilter{Label: l.Name, Cmp: rapid.SampledFrom([]string{"=", "=", "!="}).Draw(rt, "chain-op"), Str: &v}
		} else {
			terms[i] = genFilterLeaf(rt, d, extracted)
		}
	}
	ops := make([]string, n-1)
	for i := range ops {
		ops[i] = rapid.SampledFrom([]string{"and", "or"}).Draw(rt, "chain-bool")
	}
	// mixed: at least one of each
	if n >= 3 {
		same := true
		for _, o := range ops[1:] {
			if o != ops[0] {
				same = false
			}
		}
		if same {
			if ops[0] == "and" {
				ops[len(ops)-1] = "or"
			} else {
				ops[len(ops)-1] = "and"
			}
		}
	}
	f := terms[n-1]
	for i := n - 2; i >= 0; i-- {
		f = &refeval.LabelFilter{Bool: ops[i], L: terms[i], R: f}
	}
	return f
}

// GenStagesFlat is GenStages; flat lists the stages whose label filter is to be printed
// without parentheses (refeval.FlatFilterString).
func GenStagesFlat(rt *rapid.T, db *logdb.DB, o StageOpt) (st []refeval.Stage, flat []int) {
	d := collect(db)
	n := rapid.IntRange(0, o.Max).Draw(rt, "nstages")
	var extracted []string
	nLine := 0
	for i := 0; i < n; i++ {
		switch k := rapid.IntRange(0, 11).Draw(rt, "stage"); {
		case k <= 3 && nLine < 3:
			st = append(st, genLineFilter(rt, d))
			nLine++
		case k <= 6:
			f := genFilterTree(rt, d, extracted, 0)
			if rapid.IntRange(0, 9).Draw(rt, "flat-chain") < 4 {
				f = genFlatChain(rt, db, d, extracted)
				flat = append(flat, len(st))
			}
			st = append(st, refeval.Stage{Kind: refeval.KLabelFilter, Filter: f})
			if i+1 < n && Chance(rt, "rewrite-after-filter", 25) {
				// a later stage that changes the very label the filter read: stage order matters
				leaf := f
				for leaf.Bool != "" {
					leaf = leaf.L
				}
				i++
				if rapid.Bool().Draw(rt, "rw-drop") {
					st = append(st, refeval.Stage{Kind: refeval.KDrop, Params: []refeval.Param{{Name: leaf.Label}}})
				} else {
					st = append(st, refeval.Stage{Kind: refeval.KJSON, Params: []refeval.Param{{Name: leaf.Label, Val: rapid.SampledFrom([]string{"a", "n", "lvl", "v"}).Draw(rt, "rw-path")}}})
					extracted = append(extracted, leaf.Label)
				}
			}
		case k <= 8:
			np := rapid.IntRange(1, 2).Draw(rt, "njp")
			var ps []refeval.Param
			used := map[string]bool{}
			for j := 0; j < np; j++ {
				nm := rapid.SampledFrom(ExtractNames).Draw(rt, "jname")
				if rapid.IntRange(0, 14).Draw(rt, "collide") == 0 {
					nm = rapid.SampledFrom(d.names).Draw(rt, "jname2")
				}
				if used[nm] {
					continue
				}
				used[nm] = true
				ps = append(ps, refeval.Param{Name: nm, Val: rapid.SampledFrom(jsonPaths).Draw(rt, "jpath")})
				extracted = append(extracted, nm)
			}
			st = append(st, refeval.Stage{Kind: refeval.KJSON, Params: ps})
		case k == 9:
			r := rapid.SampledFrom(regexpStages).Draw(rt, "re")
			if rapid.Bool().Draw(rt, "nested-re") {
				r = rapid.SampledFrom(nestedRegexpStages).Draw(rt, "nre")
			}
			st = append(st, refeval.Stage{Kind: refeval.KRegexp, Val: r.re})
			extracted = append(extracted, r.names...)
		default:
			np := rapid.IntRange(1, 2).Draw(rt, "ndrop")
			var ps []refeval.Param
			for j := 0; j < np; j++ {
				nm := rapid.SampledFrom(append(append([]string{}, d.names...), extracted...)).Draw(rt, "dname")
				p := refeval.Param{Name: nm}
				if rapid.IntRange(0, 2).Draw(rt, "dval") == 0 {
					pool := d.values[nm]
					if len(pool) == 0 {
						pool = d.allVal
					}
					p.HasVal, p.Val = true, rapid.SampledFrom(pool).Draw(rt, "dv")
				}
				ps = append(ps, p)
			}
			st = append(st, refeval.Stage{Kind: refeval.KDrop, Params: ps})
		}
	}
	if o.Unwrap {
		joined := false
		for _, x := range st {
			if x.Kind == refeval.KJSON || x.Kind == refeval.KRegexp || x.Kind == refeval.KDrop {
				joined = true
			}
		}
		if !joined && !Chance(rt, "bare-unwrap", 5) {
			// qryn refuses `unwrap` on a pipeline that never touched the labels ("labels col
			// not inited", planner_unwrap.go:34): real queries unwrap an extracted value
			if rapid.Bool().Draw(rt, "uw-json") {
				nm := rapid.SampledFrom([]string{"v", "a", "xn"}).Draw(rt, "uw-name")
				st = append(st, refeval.Stage{Kind: refeval.KJSON, Params: []refeval.Param{{Name: nm, Val: rapid.SampledFrom([]string{"n", "v", "n", "v", "lvl", "b.n"}).Draw(rt, "uw-path")}}})
				extracted = append(extracted, nm)
			} else {
				r := regexpStages[rapid.IntRange(0, 2).Draw(rt, "uw-re")]
				st = append(st, refeval.Stage{Kind: refeval.KRegexp, Val: r.re})
				extracted = append(extracted, r.names...)
			}
		}
		cands := append(append([]string{}, extracted...), "n", "lvl")
		if len(extracted) > 0 && !Chance(rt, "uw-stored", 20) {
			cands = extracted
		}
		st = append(st, refeval.Stage{Kind: refeval.KUnwrap, Label: rapid.SampledFrom(cands).Draw(rt, "unwrap")})
	}
	return st, flat
}

// GenShapedStages draws a pipeline of 4-6 stages in which a label filter on L is separated by
// an unrelated stage from a later stage that rewrites or removes L:
//
//	[opener: json-with-params | regexp | drop]  ->  filter on L  ->  separator (line filter
//	or a label filter on another label, 1-2 of them)  ->  rewriter of L (drop L | json L=<other
//	path> | regexp extracting L)  ->  [optionally a second filter on L]
//
// with the line-filter separator sometimes moved in front of the filter. L is an extracted
// label (value differs per path) or a stored one; the filter is one whose outcome differs
// before and after the rewrite (=~ ".+", = "", = / != a value of the data). A filter must judge
// the labels as they are at its own position.
func GenShapedStages(rt *rapid.T, db *logdb.DB) ([]refeval.Stage, string) {
	d := collect(db)
	var st []refeval.Stage
	stored := rapid.IntRange(0, 3).Draw(rt, "sh-stored") == 0
	var L string
	path1 := rapid.SampledFrom([]string{"a", "b", "lvl", "v"}).Draw(rt, "sh-p1")
	kind := "extracted"
	if stored {
		kind = "stored"
		L = rapid.SampledFrom(d.names).Draw(rt, "sh-L")
		// opener that makes the planner join the labels without touching L
		switch rapid.IntRange(0, 2).Draw(rt, "sh-open") {
		case 0:
			st = append(st, refeval.Stage{Kind: refeval.KDrop, Params: []refeval.Param{{Name: "zz"}}})
		case 1:
			st = append(st, refeval.Stage{Kind: refeval.KJSON, Params: []refeval.Param{{Name: "w", Val: path1}}})
		default:
			st = append(st, refeval.Stage{Kind: refeval.KRegexp, Val: `lvl=(?P<xl>[0-9]+)`})
		}
	} else {
		L = rapid.SampledFrom([]string{"a", "v", "w"}).Draw(rt, "sh-L")
		if rapid.IntRange(0, 3).Draw(rt, "sh-open") == 0 {
			L = "xl"
			st = append(st, refeval.Stage{Kind: refeval.KRegexp, Val: `lvl=(?P<xl>\w+)`})
		} else {
			st = append(st, refeval.Stage{Kind: refeval.KJSON, Params: []refeval.Param{{Name: L, Val: path1}}})
		}
	}
	filterOn := func(label string) refeval.Stage {
		pool := d.values[label]
		if len(pool) == 0 {
			pool = []string{"x", "y", "prod", "dev", "info", "api", "1", "42", "5"}
		}
		var f refeval.LabelFilter
		f.Label = label
		var v string
		switch rapid.IntRange(0, 4).Draw(rt, "sh-f") {
		case 0, 1:
			f.Cmp, v = "=~", ".+"
		case 2:
			f.Cmp, v = "=", ""
		case 3:
			f.Cmp, v = "=", rapid.SampledFrom(pool).Draw(rt, "sh-fv")
		default:
			f.Cmp, v = "!=", rapid.SampledFrom(pool).Draw(rt, "sh-fv")
		}
		f.Str = &v
		return refeval.Stage{Kind: refeval.KLabelFilter, Filter: &f}
	}
	lineSep := func() refeval.Stage {
		return refeval.Stage{Kind: refeval.KLineFilter, Op: rapid.SampledFrom([]string{"|=", "!=", "|~"}).Draw(rt, "sh-lop"),
			Val: rapid.SampledFrom([]string{"", "l", "a", "\"", "zzzz", "="}).Draw(rt, "sh-lv")}
	}
	sepKind := rapid.SampledFrom([]string{"line", "line", "label", "both", "line-before"}).Draw(rt, "sh-sep")
	if sepKind == "line-before" {
		st = append(st, lineSep())
	}
	st = append(st, filterOn(L))
	switch sepKind {
	case "line":
		st = append(st, lineSep())
	case "label", "line-before":
		other := "app"
		if L == "app" {
			other = "env"
		}
		v := ".*"
		st = append(st, refeval.Stage{Kind: refeval.KLabelFilter, Filter: &refeval.LabelFilter{Label: other, Cmp: rapid.SampledFrom([]string{"=~", "!="}).Draw(rt, "sh-oop"), Str: &v}})
		if *st[len(st)-1].Filter.Str == ".*" && st[len(st)-1].Filter.Cmp == "!=" {
			z := "zzz"
			st[len(st)-1].Filter.Str = &z
		}
	default:
		st = append(st, lineSep())
		z := "zzz"
		st = append(st, refeval.Stage{Kind: refeval.KLabelFilter, Filter: &refeval.LabelFilter{Label: "nolbl", Cmp: "!=", Str: &z}})
	}
	rw := rapid.SampledFrom([]string{"drop", "drop", "json", "json", "regexp"}).Draw(rt, "sh-rw")
	switch rw {
	case "drop":
		st = append(st, refeval.Stage{Kind: refeval.KDrop, Params: []refeval.Param{{Name: L}}})
	case "json":
		p2 := rapid.SampledFrom([]string{"a", "b", "lvl", "v", "n"}).Draw(rt, "sh-p2")
		st = append(st, refeval.Stage{Kind: refeval.KJSON, Params: []refeval.Param{{Name: L, Val: p2}}})
	default:
		st = append(st, refeval.Stage{Kind: refeval.KRegexp, Val: "\"(?P<" + L + ">[a-z]+)\":"})
	}
	if rapid.Bool().Draw(rt, "sh-tail") {
		st = append(st, filterOn(L))
	}
	return st, kind + "/" + sepKind + "/" + rw
}

// GenDropParenStages draws the class "drop x, then a label filter that mentions x only inside
// a parenthesised term": [parser opener] [line filter] -> drop of 1-2 stored labels of a target
// series -> a filter whose parenthesised sub-terms read dropped and kept (stored or extracted)
// labels, chosen so that the stored value of x would decide the filter (x = "" is true only
// after the drop, x = <stored value> only before). Returns the stages, the parenthesis styles
// ({stage, style} for refeval.ParenFilterString) and a selector that admits the target.
func GenDropParenStages(rt *rapid.T, db *logdb.DB, ms []refeval.Matcher) ([]refeval.Stage, [][2]int, []refeval.Matcher) {
	d := collect(db)
	if len(db.Series) == 0 {
		return nil, nil, ms
	}
	// a target with at least two labels and samples, if any
	ti := rapid.IntRange(0, len(db.Series)-1).Draw(rt, "dp-target")
	for k := 0; k < len(db.Series); k++ {
		c := db.Series[(ti+k)%len(db.Series)]
		if len(c.Labels) >= 2 && len(c.Samples) > 0 {
			ti = (ti + k) % len(db.Series)
			break
		}
	}
	t := db.Series[ti]
	if len(t.Labels) < 2 {
		return GenStages(rt, db, StageOpt{Max: 3}), nil, ms
	}
	xi := rapid.IntRange(0, len(t.Labels)-1).Draw(rt, "dp-x")
	x := t.Labels[xi]
	y := t.Labels[(xi+1+rapid.IntRange(0, len(t.Labels)-2).Draw(rt, "dp-y"))%len(t.Labels)]
	// selector on the kept label so that the target (and its like) is selected
	ms = []refeval.Matcher{{Name: y.Name, Op: rapid.SampledFrom([]string{"=", "=~"}).Draw(rt, "dp-mop"), Val: y.Value}}
	if ms[0].Op == "=~" {
		ms[0].Val = ".+"
	}
	var st []refeval.Stage
	ext := ""
	switch rapid.IntRange(0, 3).Draw(rt, "dp-open") {
	case 0:
		st = append(st, refeval.Stage{Kind: refeval.KJSON, Params: []refeval.Param{{Name: "w", Val: rapid.SampledFrom([]string{"a", "lvl", "v"}).Draw(rt, "dp-path")}}})
		ext = "w"
	case 1:
		st = append(st, refeval.Stage{Kind: refeval.KRegexp, Val: `lvl=(?P<xl>\w+)`})
		ext = "xl"
	}
	if rapid.IntRange(0, 3).Draw(rt, "dp-line") == 0 {
		st = append(st, genLineFilter(rt, d))
	}
	drop := refeval.Stage{Kind: refeval.KDrop, Params: []refeval.Param{{Name: x.Name}}}
	if rapid.IntRange(0, 2).Draw(rt, "dp-two") == 0 {
		drop.Params = append(drop.Params, refeval.Param{Name: rapid.SampledFrom(append([]string{"zz"}, d.names...)).Draw(rt, "dp-x2")})
	}
	st = append(st, drop)
	if rapid.IntRange(0, 4).Draw(rt, "dp-sep") == 0 {
		st = append(st, genLineFilter(rt, d))
	}
	leaf := func(name, cmp, v string) *refeval.LabelFilter {
		return &refeval.LabelFilter{Label: name, Cmp: cmp, Str: &v}
	}
	// terms on the dropped label whose truth differs before / after the drop
	xTerm := func() *refeval.LabelFilter {
		switch rapid.IntRange(0, 4).Draw(rt, "dp-xt") {
		case 0, 1:
			return leaf(x.Name, "=", "")
		case 2:
			return leaf(x.Name, "=", x.Value)
		case 3:
			return leaf(x.Name, "=~", ".+")
		default:
			return leaf(x.Name, "!=", x.Value)
		}
	}
	// a term on a kept label: the stored y, or the extracted label
	yTerm := func() *refeval.LabelFilter {
		if ext != "" && rapid.IntRange(0, 2).Draw(rt, "dp-ext") == 0 {
			return leaf(ext, rapid.SampledFrom([]string{"=~", "!="}).Draw(rt, "dp-eop"), rapid.SampledFrom([]string{".*", "zzz", "x"}).Draw(rt, "dp-ev"))
		}
		switch rapid.IntRange(0, 2).Draw(rt, "dp-yt") {
		case 0:
			return leaf(y.Name, "=", y.Value)
		case 1:
			return leaf(y.Name, "!=", y.Value)
		default:
			return leaf(y.Name, "=", "nope")
		}
	}
	node := func(op string, l, r *refeval.LabelFilter) *refeval.LabelFilter {
		return &refeval.LabelFilter{Bool: op, L: l, R: r}
	}
	bop := func(l string) string { return rapid.SampledFrom([]string{"and", "or"}).Draw(rt, l) }
	var f *refeval.LabelFilter
	var style int
	switch rapid.IntRange(0, 5).Draw(rt, "dp-form") {
	case 0: // (x... op y...)
		f, style = node(bop("dp-b"), xTerm(), yTerm()), rapid.SampledFrom([]int{1, 3, 5, 7}).Draw(rt, "dp-style")
	case 1: // y... op (x...)
		f, style = node(bop("dp-b"), yTerm(), xTerm()), rapid.SampledFrom([]int{4, 2, 6, 5}).Draw(rt, "dp-style")
	case 2: // y... op (x... op x...)
		f, style = node(bop("dp-b"), yTerm(), node(bop("dp-b2"), xTerm(), xTerm())), rapid.SampledFrom([]int{0, 2, 1}).Draw(rt, "dp-style")
	case 3: // y... op (x... op y...)   nested: ((x) op y)
		f, style = node(bop("dp-b"), yTerm(), node(bop("dp-b2"), xTerm(), yTerm())), rapid.SampledFrom([]int{0, 2, 6}).Draw(rt, "dp-style")
	case 4: // (x... op y...) op y...
		f, style = node(bop("dp-b"), node(bop("dp-b2"), xTerm(), yTerm()), yTerm()), rapid.SampledFrom([]int{0, 2, 4}).Draw(rt, "dp-style")
	default: // ((x...))
		f, style = xTerm(), 3
	}
	paren := [][2]int{{len(st), style}}
	st = append(st, refeval.Stage{Kind: refeval.KLabelFilter, Filter: f})
	if rapid.IntRange(0, 3).Draw(rt, "dp-tail") == 0 {
		st = append(st, refeval.Stage{Kind: refeval.KLabelFilter, Filter: yTerm()})
	}
	return st, paren, ms
}

// GenAbsentLabelFilter draws the class "label FILTER on a label some selected streams lack":
// a selector on a label nearly every stream carries (positive, so no stream is selected by
// the absence of a label), and a filter on a sparse label that is satisfied by the empty
// string (a pattern matching "", a negative comparison, = "") or is not, placed before any
// parser stage (answered from the stored labels document) or after one (answered from the
// labels map). Absent label = empty string for a filter stage in LogQL and, consistently,
// in qryn; only stream-SELECTOR matchers have index semantics.
func GenAbsentLabelFilter(rt *rapid.T, db *logdb.DB) []refeval.Stage {
	d := collect(db)
	// a label carried by some series but not all, if there is one
	count := map[string]int{}
	for _, s := range db.Series {
		for _, l := range s.Labels {
			count[l.Name]++
		}
	}
	var sparse []string
	for _, nme := range d.names {
		if count[nme] < len(db.Series) {
			sparse = append(sparse, nme)
		}
	}
	if len(sparse) == 0 {
		sparse = []string{"lvl", "job", "nolbl"}
	}
	L := rapid.SampledFrom(sparse).Draw(rt, "ab-L")
	pool := d.values[L]
	if len(pool) == 0 {
		pool = []string{"x"}
	}
	v := rapid.SampledFrom(pool).Draw(rt, "ab-v")
	var f refeval.LabelFilter
	f.Label = L
	var val string
	switch rapid.IntRange(0, 8).Draw(rt, "ab-k") {
	case 0, 1:
		f.Cmp, val = "=~", ".*"
	case 2:
		f.Cmp, val = "=~", "("+regexp.QuoteMeta(v)+"|zz)?"
	case 3:
		f.Cmp, val = "!=", v
	case 4:
		f.Cmp, val = "!~", regexp.QuoteMeta(v)
	case 5:
		f.Cmp, val = "=", ""
	case 6:
		f.Cmp, val = "=~", "^$"
	case 7:
		f.Cmp, val = "=~", regexp.QuoteMeta(v)+".*"
	default:
		f.Cmp, val = "=~", "^("+regexp.QuoteMeta(v)+")?$"
	}
	f.Str = &val
	filter := refeval.Stage{Kind: refeval.KLabelFilter, Filter: &f}
	var st []refeval.Stage
	switch rapid.IntRange(0, 4).Draw(rt, "ab-pos") {
	case 0, 1: // first stage: answered from time_series.labels
		st = append(st, filter)
	case 2: // after a line filter, still before any parser
		st = append(st, genLineFilter(rt, d), filter)
	case 3: // after a parser stage
		st = append(st, refeval.Stage{Kind: refeval.KJSON, Params: []refeval.Param{{Name: "w", Val: "a"}}}, filter)
	default:
		st = append(st, refeval.Stage{Kind: refeval.KRegexp, Val: `lvl=(?P<xl>[0-9]+)`}, filter)
	}
	if rapid.Bool().Draw(rt, "ab-tail") {
		st = append(st, genLineFilter(rt, d))
	}
	return st
}

// ---- regions -----------------------------------------------------------------------------------

// LikeText returns the text a line filter hands to LIKE (planner_line_filter.go: |= and !=
// always; |~ and !~ when the expression is a plain literal) and whether it does.
func LikeText(st refeval.Stage) (string, bool) {
	if st.Kind != refeval.KLineFilter {
		return "", false
	}
	if st.Op == "|=" || st.Op == "!=" {
		return st.Val, true
	}
	return regexLiteral(st.Val)
}

// InLikeEscapeRegion: DESIGN section 4 item 12 — a LIKE operand with a backslash or a
// trailing single quote is escaped wrongly (owned by C10).
func InLikeEscapeRegion(stages []refeval.Stage) bool {
	for _, st := range stages {
		if t, ok := LikeText(st); ok && (strings.Contains(t, `\`) || strings.HasSuffix(t, "'")) {
			return true
		}
	}
	return false
}

func itoa(n int) string { return strconv.Itoa(n) }

// Chance is true with probability pct/100. (rapid favours the bounds of an integer range, so
// the hit region lies in the middle of it.)
func Chance(rt *rapid.T, label string, pct int) bool {
	v := rapid.IntRange(0, 999).Draw(rt, label)
	return v >= 300 && v < 300+10*pct
}

package c07

// log.go — C07: the SQL generated for a LogQL log query selects exactly the matching lines.
//
// Pipeline per case: refeval AST --String()--> LogQL text --> real Transpile / planner -->
// SQL text --> chsim on the tables logdb derives --> rows through the real
// ClickhouseGetterPlanner.Scan --> entries; compared with refeval.EvalLog on the same data.

import (
	"errors"
	"fmt"
	"regexp/syntax"
	"sort"
	"strings"

	"pgregory.net/rapid"

	"qrynverif/chsim"
	"qrynverif/evid"
	"qrynverif/logdb"
	"qrynverif/refeval"
)

// LogCase is one C07 case.
type LogCase struct {
	DB      logdb.DB     `json:"db"`
	Q       refeval.Expr `json:"q"`
	W       Window       `json:"window"`
	Limit   int64        `json:"limit"`
	Forward bool         `json:"forward"`
	Cluster bool         `json:"cluster,omitempty"`
	// Flat lists the stages whose label filter is written without parentheses (mixed and/or
	// chains as users type them); the tree in Q is the right-nested one qryn's grammar builds.
	Flat []int `json:"flat,omitempty"`
	// Paren lists {stage, style}: label filters printed with extra parentheses
	// (refeval.ParenFilterString) that do not change their reading.
	Paren [][2]int `json:"paren,omitempty"`
	// Shape names the pattern of a shaped pipeline (GenShapedStages); informational.
	Shape string `json:"shape,omitempty"`
}

func genLog(rt *rapid.T) LogCase {
	c := LogCase{W: GenWindow(rt, 90)}
	c.DB = GenDB(rt, c.W, DBOpt{MaxSeries: 6, MaxSamples: 8, SpreadNs: 10e9, OtherTypes: true})
	if Chance(rt, "broad", 40) {
		c.Q.Matchers = GenMatchersBroad(rt, &c.DB)
	} else {
		c.Q.Matchers = GenMatchers(rt, &c.DB)
	}
	switch k := rapid.IntRange(0, 9).Draw(rt, "pipeline-kind"); {
	case k < 2:
		c.Q.Stages, c.Shape = GenShapedStages(rt, &c.DB)
	case k == 3:
		c.Q.Stages, c.Paren, c.Q.Matchers = GenDropParenStages(rt, &c.DB, c.Q.Matchers)
		c.Shape = "drop-then-paren-filter"
	case k == 2:
		// filter on a label some selected streams lack: selector on a label (nearly) all carry
		name := rapid.SampledFrom([]string{"app", "env"}).Draw(rt, "ab-sel")
		c.Q.Matchers = []refeval.Matcher{{Name: name, Op: "=~", Val: ".+"}}
		c.Q.Stages = GenAbsentLabelFilter(rt, &c.DB)
		c.Shape = "absent-label-filter"
	default:
		c.Q.Stages, c.Flat = GenStagesFlat(rt, &c.DB, StageOpt{Max: 4})
	}
	c.Limit = rapid.SampledFrom([]int64{0, 1, 1, 2, 2, 3, 5, 8, 100, 1000}).Draw(rt, "limit")
	c.Forward = rapid.Bool().Draw(rt, "forward")
	c.Cluster = rapid.IntRange(0, 4).Draw(rt, "cluster") == 0
	return c
}

// regexLiteral mirrors the decision "is this regular expression just a literal" with the
// standard library (the planner hands such filters to LIKE).
func regexLiteral(re string) (string, bool) {
	exp, err := syntax.Parse(re, syntax.PerlX)
	if err != nil || exp.Op != syntax.OpLiteral || exp.Flags&^(syntax.PerlX|syntax.FoldCase) != 0 {
		return "", false
	}
	return string(exp.Rune), true
}

// normLabels drops empty-valued labels: LogQL has no empty label (a label with an empty
// value is an absent label); qryn's SQL writes extracted-but-missing values as "".
func normLabels(m map[string]string) string {
	n := make(map[string]string, len(m))
	for k, v := range m {
		if v != "" {
			n[k] = v
		}
	}
	return refeval.LabelsKey(n)
}

type lineKey struct {
	labels string
	ts     int64
	line   string
}

func (k lineKey) String() string { return fmt.Sprintf("%s %d %q", k.labels, k.ts, k.line) }

// DotNL returns a copy of the query in which every regular expression is compiled with the
// s flag. ClickHouse's match() lets "." match a line break ("unlike re2's default"), Go's
// regexp (LogQL) does not; where the two readings give different answers the case is
// don't-care.
func DotNL(e *refeval.Expr) *refeval.Expr {
	c := *e
	c.Matchers = append([]refeval.Matcher(nil), e.Matchers...)
	for i, m := range c.Matchers {
		if m.Op == "=~" || m.Op == "!~" {
			c.Matchers[i].Val = "(?s)" + m.Val
		}
	}
	var cp func(f *refeval.LabelFilter) *refeval.LabelFilter
	cp = func(f *refeval.LabelFilter) *refeval.LabelFilter {
		if f == nil {
			return nil
		}
		n := *f
		n.L, n.R = cp(f.L), cp(f.R)
		if f.Str != nil && (f.Cmp == "=~" || f.Cmp == "!~") {
			v := "(?s)" + *f.Str
			n.Str = &v
		}
		return &n
	}
	c.Stages = append([]refeval.Stage(nil), e.Stages...)
	for i, st := range c.Stages {
		switch st.Kind {
		case refeval.KLineFilter:
			if st.Op == "|~" || st.Op == "!~" {
				c.Stages[i].Val = "(?s)" + st.Val
			}
		case refeval.KRegexp:
			c.Stages[i].Val = "(?s)" + st.Val
		case refeval.KLabelFilter:
			c.Stages[i].Filter = cp(st.Filter)
		}
	}
	return &c
}

func rowsKey(rows []refeval.Row) string {
	ks := make([]string, len(rows))
	for i, r := range rows {
		ks[i] = fmt.Sprintf("%s %d %q %v", normLabels(r.Labels), r.TsNs, r.Line, r.Value)
	}
	sort.Strings(ks)
	return strings.Join(ks, "\n")
}

// QueryText prints the query; the label filters of the stages listed in flat are printed
// without parentheses (refeval.FlatFilterString).
func QueryText(e *refeval.Expr, flat []int, paren [][2]int) string {
	if len(flat) == 0 && len(paren) == 0 {
		return e.String()
	}
	style := map[int]int{}
	for _, p := range paren {
		style[p[0]] = p[1]
	}
	isFlat := map[int]bool{}
	for _, i := range flat {
		isFlat[i] = true
	}
	ms := make([]string, len(e.Matchers))
	for i, m := range e.Matchers {
		ms[i] = m.Name + m.Op + refeval.Quote(m.Val)
	}
	sel := "{" + strings.Join(ms, ", ") + "}"
	for i, st := range e.Stages {
		if isFlat[i] && st.Kind == refeval.KLabelFilter {
			sel += " | " + refeval.FlatFilterString(st.Filter)
		} else if sty, ok := style[i]; ok && st.Kind == refeval.KLabelFilter {
			sel += " | " + refeval.ParenFilterString(st.Filter, sty)
		} else {
			sel += " " + st.String()
		}
	}
	return strings.Replace(e.String(), e.Selector(), sel, 1)
}

// tagFilters classifies the label filters of a case against its data: unparenthesised mixed
// chains (and whether other groupings of the same text would answer differently on the
// selected label sets), and filters on labels that some selected streams lack.
func tagFilters(o *evid.Obs, c *LogCase) {
	data := c.DB.Ref()
	var selected []map[string]string
	for _, s := range data {
		if ok, err := refeval.MatchSeries(c.Q.Matchers, s.Labels, &refeval.Flags{}); err == nil && ok {
			selected = append(selected, s.Labels)
		}
	}
	isFlat := map[int]bool{}
	for _, i := range c.Flat {
		isFlat[i] = true
	}
	afterParser := false
	for i, st := range c.Q.Stages {
		if st.Kind == refeval.KJSON || st.Kind == refeval.KRegexp {
			afterParser = true
		}
		if st.Kind != refeval.KLabelFilter {
			continue
		}
		if isFlat[i] {
			o.Tag("flat-chain")
			if terms, ops, ok := refeval.ChainTerms(st.Filter); ok && len(terms) >= 3 {
				logql := refeval.RegroupLogQL(terms, ops)
				left := refeval.RegroupLeft(terms, ops)
				dl, dq := false, false
				for _, ls := range selected {
					a, _ := refeval.EvalFilter(st.Filter, ls, &refeval.Flags{})
					b, _ := refeval.EvalFilter(left, ls, &refeval.Flags{})
					q, _ := refeval.EvalFilter(logql, ls, &refeval.Flags{})
					dl = dl || a != b
					dq = dq || a != q
				}
				if dl {
					o.Tag("flat-chain-left-grouping-would-differ")
				}
				if dq {
					// qryn's grammar is right-recursive without precedence; LogQL gives `and` precedence
					o.Tag("deviation:flat-chain-grouping-differs-from-logql-precedence")
				}
			}
		}
		var walk func(f *refeval.LabelFilter)
		walk = func(f *refeval.LabelFilter) {
			if f.Bool != "" {
				walk(f.L)
				walk(f.R)
				return
			}
			have, lack := 0, 0
			for _, ls := range selected {
				if _, ok := ls[f.Label]; ok {
					have++
				} else {
					lack++
				}
			}
			if lack == 0 || afterParserSets(c.Q.Stages[:i], f.Label) {
				return
			}
			cls := "filter-on-label-some-selected-streams-lack"
			if have == 0 {
				cls = "filter-on-label-all-selected-streams-lack"
			}
			o.Tag(cls)
			if ok, err := refeval.EvalFilter(f, map[string]string{}, &refeval.Flags{}); err == nil && ok {
				if afterParser {
					o.Tag(cls + ":satisfied-by-absence:after-parser")
				} else {
					o.Tag(cls + ":satisfied-by-absence:before-parser")
				}
				if f.Cmp == "=~" && have > 0 {
					o.Tag("positive-regex-filter-matching-empty-on-partly-absent-label")
				}
			}
		}
		walk(st.Filter)
	}
}

// tagDropParen: does the stored value of a dropped label decide a later filter for some
// selected stream (the filter on the stored labels answers differently than on the labels
// drop left)?
func tagDropParen(o *evid.Obs, c *LogCase) {
	dropped := map[string]bool{}
	parser := false
	for _, st := range c.Q.Stages {
		switch st.Kind {
		case refeval.KJSON, refeval.KRegexp:
			parser = true
		case refeval.KDrop:
			for _, p := range st.Params {
				if !p.HasVal {
					dropped[p.Name] = true
				}
			}
		case refeval.KLabelFilter:
			if len(dropped) == 0 {
				continue
			}
			decides := false
			for _, s := range c.DB.Ref() {
				if ok, err := refeval.MatchSeries(c.Q.Matchers, s.Labels, &refeval.Flags{}); err != nil || !ok {
					continue
				}
				left := map[string]string{}
				for k, v := range s.Labels {
					if !dropped[k] {
						left[k] = v
					}
				}
				a, _ := refeval.EvalFilter(st.Filter, s.Labels, &refeval.Flags{})
				b, _ := refeval.EvalFilter(st.Filter, left, &refeval.Flags{})
				decides = decides || a != b
			}
			if decides {
				o.Tag("stored-value-of-dropped-label-decides-filter")
				if parser {
					o.Tag("stored-value-of-dropped-label-decides-filter:parser-before")
				}
			}
		}
	}
}

// afterParserSets: an earlier stage extracts into name (then the label is not "absent").
func afterParserSets(stages []refeval.Stage, name string) bool {
	for _, st := range stages {
		switch st.Kind {
		case refeval.KJSON:
			for _, p := range st.Params {
				if p.Name == name {
					return true
				}
			}
		case refeval.KRegexp:
			if strings.Contains(st.Val, "(?P<"+name+">") {
				return true
			}
		}
	}
	return false
}

// TagQuery classifies a query for the evidence histogram.
func TagQuery(o *evid.Obs, e *refeval.Expr) {
	for _, m := range e.Matchers {
		o.Tag("matcher" + m.Op)
	}
	if len(e.Matchers) > 8 {
		o.Tag("matchers>8")
	}
	afterParser, afterDrop := false, false
	for _, st := range e.Stages {
		switch st.Kind {
		case refeval.KLineFilter:
			if _, lit := LikeText(st); lit {
				o.Tag("line" + st.Op + "like")
			} else {
				o.Tag("line" + st.Op + "match")
			}
		case refeval.KLabelFilter:
			o.Tag("label-filter")
			if afterParser {
				o.Tag("label-filter-after-parser")
			}
			if afterDrop {
				o.Tag("label-filter-after-drop")
			}
			var walk func(f *refeval.LabelFilter)
			walk = func(f *refeval.LabelFilter) {
				if f.Bool != "" {
					o.Tag("filter-" + f.Bool)
					walk(f.L)
					walk(f.R)
					return
				}
				if f.Str != nil {
					o.Tag("filter-str" + f.Cmp)
				} else {
					o.Tag("filter-num" + f.Cmp)
				}
			}
			walk(st.Filter)
		case refeval.KJSON:
			o.Tag("json")
			afterParser = true
		case refeval.KRegexp:
			o.Tag("regexp")
			if strings.Count(st.Val, "(") >= 2 || strings.Contains(st.Val, "(?:") || strings.Contains(st.Val, "(?i)") {
				o.Tag("regexp-nested-or-special-groups")
			}
			afterParser = true
		case refeval.KDrop:
			o.Tag("drop")
			afterDrop = true
		case refeval.KUnwrap:
			o.Tag("unwrap")
		}
	}
	if len(e.Stages) == 0 {
		o.Tag("no-stages")
	}
}

// Judge inspects what the interpreter made of the statements: returns (discard reason, error).
func Judge(out *Outcome, text string) (string, error) {
	if out.PlanErr != nil && len(out.Backend.Log()) == 0 {
		// the generator printed something qryn's parser / planner refuses: outside the domain
		msg := out.PlanErr.Error()
		if len(msg) > 40 {
			msg = msg[:40]
		}
		return "plan-error: " + msg, nil
	}
	if sqlText, err := out.Backend.FirstErr(); err != nil {
		if errors.Is(err, chsim.ErrUnsupported) {
			return "chsim-unsupported", nil
		}
		return "", fmt.Errorf("query %s\nrenders SQL that ClickHouse rejects: %v\nSQL: %s", text, err, sqlText)
	}
	if out.PlanErr != nil {
		return "", fmt.Errorf("query %s: Process failed: %v", text, out.PlanErr)
	}
	if out.StreamErr != nil {
		return "", fmt.Errorf("query %s: result stream carried an error: %v\nSQL: %s", text, out.StreamErr, out.SQL())
	}
	return "", nil
}

func predLog(c LogCase, o *evid.Obs) error {
	if err := c.DB.Validate(); err != nil {
		o.Discard("invalid-db")
		return nil
	}
	text := QueryText(&c.Q, c.Flat, c.Paren)
	from, to := c.W.FromNs(), c.W.ToNs()
	ref, err := refeval.EvalLogSQL(&c.Q, c.DB.Ref(), from, to, c.Forward)
	if err != nil {
		o.Discard("invalid-regex")
		return nil
	}
	TagQuery(o, &c.Q)
	if c.Shape == "absent-label-filter" {
		o.Tag("shape:absent-label-filter")
	} else if c.Shape == "drop-then-paren-filter" {
		o.Tag("shape:drop-then-paren-filter")
		tagDropParen(o, &c)
	} else if c.Shape != "" {
		o.Tag("shape:filter-sep-rewrite", "shape:"+c.Shape)
	}
	tagFilters(o, &c)
	if sel, _ := refeval.Select(c.DB.Ref(), c.Q.Matchers, from, to, &refeval.Flags{}); len(sel) == 0 {
		o.Tag("selector-selects-nothing-in-window")
	}
	if ref.Flags.Unsupported != "" {
		o.Discard("refeval-unsupported")
		return nil
	}
	for _, d := range ref.Flags.DontCare {
		o.Tag("dontcare:" + d)
	}
	if len(ref.Flags.DontCare) > 0 {
		o.Discard("dontcare:" + ref.Flags.DontCare[0])
		return nil
	}
	if alt, err := refeval.EvalLogSQL(DotNL(&c.Q), c.DB.Ref(), from, to, c.Forward); err != nil || rowsKey(alt.AllRows) != rowsKey(ref.AllRows) {
		o.Discard("dontcare:regex-dot-vs-newline")
		return nil
	}
	if InLikeEscapeRegion(c.Q.Stages) {
		// DESIGN section 4 item 12 (repaired by C10's fix, merged): no longer excluded
		o.Tag("like-operand-with-backslash-or-trailing-quote")
	}
	for _, d := range ref.Flags.Deviations {
		o.Tag("deviation:" + d)
	}

	out := Run(&c.DB, Req{Query: text, FromNs: from, ToNs: to, StepMs: 0, Limit: c.Limit, Forward: c.Forward, Cluster: c.Cluster})
	if reason, err := Judge(&out, text); err != nil {
		return err
	} else if reason != "" {
		o.Discard(reason)
		return nil
	}
	if out.IsMatrix {
		return fmt.Errorf("log query %s planned as a matrix", text)
	}

	// expected multiset (no limit) and its timestamps
	want := map[lineKey]int{}
	var wantTs []int64
	for _, r := range ref.AllRows {
		want[lineKey{normLabels(r.Labels), r.TsNs, r.Line}]++
		wantTs = append(wantTs, r.TsNs)
	}
	got := map[lineKey]int{}
	for _, e := range out.Entries {
		got[lineKey{normLabels(e.Labels), e.TimestampNS, e.Message}]++
	}
	total := len(ref.AllRows)
	inWindow := 0
	for _, s := range c.DB.Ref() {
		for _, e := range s.Entries {
			if e.TsNs >= from && e.TsNs < to {
				inWindow++
			}
		}
	}
	switch {
	case c.Limit == 0:
		o.Tag("limit-none")
	case int64(total) > c.Limit:
		o.Tag("limit-cuts")
	default:
		o.Tag("limit-loose")
	}
	if c.Forward {
		o.Tag("forward")
	}
	if c.Cluster {
		o.Tag("cluster")
	}
	if total > 0 && total < inWindow {
		o.NonTrivial()
	}
	if total == 0 {
		o.Tag("ref-empty")
	}

	describe := func() string {
		var w, g []string
		for k, n := range want {
			w = append(w, fmt.Sprintf("%dx %s", n, k))
		}
		for k, n := range got {
			g = append(g, fmt.Sprintf("%dx %s", n, k))
		}
		sort.Strings(w)
		sort.Strings(g)
		return fmt.Sprintf("query: %s\nwindow [%d,%d) limit %d forward %v\nexpected (%d): %s\ngot (%d): %s\nSQL: %s",
			text, from, to, c.Limit, c.Forward, total, strings.Join(w, "\n          "), len(out.Entries), strings.Join(g, "\n     "), out.SQL())
	}

	// every returned line must be a matching line (multiset inclusion)
	for k, n := range got {
		if n > want[k] {
			return fmt.Errorf("returned %dx but %dx match: %s\n%s", n, want[k], k, describe())
		}
	}
	if c.Limit == 0 || int64(total) <= c.Limit {
		for k, n := range want {
			if got[k] != n {
				return fmt.Errorf("matching line returned %dx instead of %dx: %s\n%s", got[k], n, k, describe())
			}
		}
		return nil
	}
	// the limit cuts: exactly Limit lines, and they are the newest (oldest when forward);
	// lines sharing the timestamp at the cut may be chosen either way
	if int64(len(out.Entries)) != c.Limit {
		return fmt.Errorf("limit %d with %d matching lines returned %d lines\n%s", c.Limit, total, len(out.Entries), describe())
	}
	sort.Slice(wantTs, func(i, j int) bool {
		if c.Forward {
			return wantTs[i] < wantTs[j]
		}
		return wantTs[i] > wantTs[j]
	})
	cut := wantTs[c.Limit-1]
	for k, n := range want {
		before := k.ts > cut
		if c.Forward {
			before = k.ts < cut
		}
		if before && got[k] != n {
			return fmt.Errorf("limit %d: line strictly inside the cut (cut timestamp %d) returned %dx instead of %dx: %s\n%s", c.Limit, cut, got[k], n, k, describe())
		}
	}
	for k := range got {
		after := k.ts < cut
		if c.Forward {
			after = k.ts > cut
		}
		if after {
			return fmt.Errorf("limit %d: line beyond the cut (cut timestamp %d) returned: %s\n%s", c.Limit, cut, k, describe())
		}
	}
	return nil
}

func addLog(r *evid.Run) {
	evid.Add(r, evid.Prop[LogCase]{Name: "log", Quick: 6000, Thorough: 50000, Gen: genLog, Pred: predLog})
}

package c07

import (
	"fmt"
	"os"
	"testing"

	"qrynverif/logdb"
)

func TestExplore(t *testing.T) {
	if os.Getenv("C07_EXPLORE") == "" {
		t.Skip()
	}
	t0 := int64(1700000000) * 1e9
	db := &logdb.DB{Series: []logdb.Series{
		{Labels: []logdb.Label{{"app", "x"}, {"env", "prod"}}, Samples: []logdb.Sample{
			{TsNs: t0 + 1e9, Line: `{"a":"1","b":{"c":2}}`, Type: 1},
			{TsNs: t0 + 2e9, Line: `hello it's`, Type: 1},
			{TsNs: t0 + 17e9, Line: `lvl=5 x`, Type: 1},
			{TsNs: t0 + 3e9, Value: 3, Type: 2},
		}},
		{Labels: []logdb.Label{{"env", "prod"}, {"app", "y"}, {"z", "q"}}, Samples: []logdb.Sample{
			{TsNs: t0 + 1e9, Line: `{"a":"7"}`, Type: 1},
			{TsNs: t0 + 20e9, Line: `hello`, Type: 1, Batch: 1},
		}},
	}}
	if err := db.Validate(); err != nil {
		t.Fatal(err)
	}
	qs := []string{
		`{app=~"x|y"}`,
		`{app="x", env!="dev"} |= "hello"`,
		`{env="prod"} !~ "h.llo"`,
		`{env="prod"} | app="y"`,
		`{env="prod"} | json a="a" | a >= 2`,
		`{env="prod"} | regexp "lvl=(?P<lvl>[0-9]+)" | lvl == 5`,
		`{env="prod"} | json a="a" | drop app`,
		`{env="prod"} | drop app | app="y"`,
		`rate({env="prod"}[5s])`,
		`rate({env="prod"}[15s])`,
		`count_over_time({env="prod"} | app="y" [15s])`,
		`sum by (env) (count_over_time({env="prod"}[5s]))`,
		`sum by (env) (count_over_time({env="prod"}[30s]))`,
		`bytes_over_time({env="prod"}[5s])`,
		`sum_over_time({env="prod"} | json a="a" | unwrap a [10s]) by (env)`,
		`topk(1, sum by (app) (count_over_time({env="prod"}[5s])))`,
		`max(rate({env="prod"}[5s])) without (app) > 0`,
		`quantile_over_time(0.5, {env="prod"} | json a="a" | unwrap a [10s])`,
	}
	for _, q := range qs {
		for _, cl := range []bool{false} {
			o := Run(db, Req{Query: q, FromNs: t0, ToNs: t0 + 30e9, StepMs: 5000, Limit: 100, Cluster: cl})
			fmt.Fprintf(os.Stderr, "\n### %s\n%s\n", q, o.SQL())
			if _, err := o.Backend.FirstErr(); err != nil {
				fmt.Fprintf(os.Stderr, "  CHSIM ERR: %v\n", err)
			}
			fmt.Fprintf(os.Stderr, "  planErr=%v streamErr=%v\n", o.PlanErr, o.StreamErr)
			for _, e := range o.Entries {
				fmt.Fprintf(os.Stderr, "  %d %v %q %v fp=%d\n", e.TimestampNS, e.Labels, e.Message, e.Value, e.Fingerprint)
			}
		}
	}
}

package c07

import (
	"testing"

	"qrynverif/evid"
)

func TestProp(t *testing.T) {
	r := evid.New(t, "C07", evid.Config{
		Level: "exploration",
		Rule:  "generated LogQL log queries x small databases; non-trivial: the reference result is non-empty and smaller than the set of log lines in the window (the query both selects and rejects something)",
		Assumptions: []string{
			"chsim models the ClickHouse subset the planners emit (harness/chsim/README.md, Model assumptions)",
			"refeval is the LogQL definition with qryn's documented deviations (unanchored regex, numeric filter on a non-number drops the line)",
			"request windows are whole seconds (QueryRangeService cuts start/end to seconds)",
			"label values and lines are valid UTF-8; stored label documents are valid JSON (C04 owns the rest)",
		},
	})
	addLog(r)
	r.Main()
}

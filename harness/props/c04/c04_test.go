package c04

import (
	"testing"

	"qrynverif/evid"
)

func TestProp(t *testing.T) {
	r := evid.New(t, "C04", evid.Config{
		Level: "exploration",
		Rule: "identity: generated label sets pushed in permutations and through several protocols (non-trivial: >= 3 labels and >= 1 non-alphanumeric value byte); " +
			"indexing: request histories over the real handlers, fingerprint/day cache and insert services with failing series/sample INSERTs, cache resets, client retries and day changes under time.Local = UTC, UTC-10, UTC+13 and both fingerprint types " +
			"(non-trivial: a failed series INSERT followed by a client retry, or a push after a cache reset)",
		Assumptions: []string{
			"label names stay distinct after sanitisation",
			"the read side finds a series row iff date >= FormatFromDate(from) = UTC date of (from - 30 min); a sample at t must be found by every window containing t, so date >= UTCdate(t - 30 min)",
			"cache resets are explicit actions (the real cache's reset is performed under its own lock), not wall-clock events; every push is driven to completion before the next action",
			"cases that change time.Local run sequentially in one process",
		},
	})
	AddIdentity(r) // sub-check 1 (identity.go, built by the C03 builder)
	addIndexing(r) // sub-checks 2-3
	r.Main()
}

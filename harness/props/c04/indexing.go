package c04

import (
	"bytes"
	"fmt"
	"net/http"
	"net/http/httptest"
	"strings"
	"time"

	"github.com/golang/snappy"
	"github.com/metrico/qryn/writer/utils/proto/prompb"
	"google.golang.org/protobuf/proto"
	"pgregory.net/rapid"

	"qrynverif/evid"
	"qrynverif/fakech"
	"qrynverif/inssvc"
)

// ---- C04 (2–3): every acknowledged sample's series is indexed under a day the read side
// searches; across a request history, fault sequences, cache resets and time zones -------
//
// Domain: a history of push requests through the real handlers (Loki JSON and Prometheus
// remote-write) over the real insert services and the real fingerprint/day cache, with the
// database failing chosen series / sample INSERTs, cache resets, client retries of failed
// requests and day changes. time.Local is UTC, UTC-10 or UTC+13 for the whole case, both
// fingerprint types. Every push is driven to completion (services flushed until the handler
// answers) before the next action, so the history is sequential and deterministic.
//
// Oracle (invariant checked after every step): for every sample (fingerprint, t) of a
// request answered 2xx there is a series row (fingerprint, date) in a time_series INSERT
// that returned nil, with date - decoded from the ColDate that was sent - admitted by the
// read side's bound `date >= FormatFromDate(from)` (= UTC date of from-30min,
// reader/logql/.../sql_misc.go) for every window containing t, i.e. date >= UTCdate(t-30min).
//
// Known finding (design level): the (day, fingerprint) pair is put into the cache when the
// request is parsed, before the series INSERT has succeeded; once that INSERT fails on all
// attempts the push is answered with an error, but LATER pushes of the stream (the client's
// retry, or any other push) are acknowledged without a series row until the next cache
// reset. The exclusion is exactly that signature: the acknowledged push itself submitted no
// series row that would cover the sample, and an earlier push that was answered with an
// error status had submitted one for the fingerprint which only travelled in failed
// INSERTs (counted with o.Known; the witness is replayed with the exclusion off). A push
// that is itself acknowledged must have the series rows it submitted in a successful
// time_series INSERT: no exclusion.

const FindingAnnouncedBeforeInsert = "C04-series-announced-before-insert"

var idxZones = []*time.Location{time.UTC, time.FixedZone("UTC-10", -10*3600), time.FixedZone("UTC+13", 13*3600)}

type idxAction struct {
	// push | fail-series | fail-samples | reset | retry | nextday
	Op      string `json:"op"`
	Proto   string `json:"proto,omitempty"`   // loki | prom | influx
	Streams []int  `json:"streams,omitempty"` // which of the label sets
	Offs    []int  `json:"offs,omitempty"`    // indexes into idxOffsets, one entry per sample, dealt round-robin to the streams
	// Dup (loki): every stream is listed twice in the body, the second time with its labels
	// in the other order; its samples alternate between the two occurrences, so the same
	// label set reaches the parser callback twice in one request, possibly with other days.
	Dup bool `json:"dup,omitempty"`
	// Long (prom): the first series is a back-fill of more than 1000 points, one per minute,
	// whose point 1000 is the first of the next UTC day: the decoder hands a series over in
	// chunks of 1000 points, the second chunk lies on a day the first did not touch.
	Long bool `json:"long,omitempty"`
	// fail-series / fail-samples: the error class of the failing INSERTs (fakech.ErrClasses;
	// "" = plain) and how many consecutive INSERTs into the table fail (0 = one). N >= the
	// retry attempts makes the part fail on EVERY attempt.
	Err string `json:"err,omitempty"`
	N   int    `json:"n,omitempty"`
}

type idxCase struct {
	TZ        int         `json:"tz"` // index into idxZones
	Bernstein bool        `json:"bernstein"`
	Retries   int         `json:"retries"`
	Actions   []idxAction `json:"actions"`
}

// seconds relative to UTC midnight of the current day; the local-midnight entries are
// resolved against the case's zone
var idxOffsets = []int{43200, -1, 0, 1, 1799, 1800, 1801, 86399, -100000 /* local midnight -1s */, -100001 /* local midnight */, -100002 /* local midnight +1s */, 3600,
	86400 + 3600 /* next day 01:00 */, -86400 + 43200 /* previous day noon */, 86400 /* next UTC midnight */}

const idxDay0 = int64(19737) // 2024-01-15

func genIndexing(rt *rapid.T) idxCase {
	c := idxCase{}
	c.TZ = rapid.IntRange(0, 2).Draw(rt, "tz")
	c.Bernstein = rapid.Bool().Draw(rt, "bernstein")
	c.Retries = rapid.SampledFrom([]int{1, 1, 2}).Draw(rt, "retries")
	ops := []string{"push", "fail-series", "push", "retry", "reset", "push", "fail-samples", "nextday", "push", "retry"}
	act := rapid.Custom(func(rt *rapid.T) idxAction {
		a := idxAction{Op: rapid.SampledFrom(ops).Draw(rt, "op")}
		if a.Op == "push" {
			a.Proto = rapid.SampledFrom([]string{"loki", "prom", "influx"}).Draw(rt, "proto")
			a.Streams = rapid.SliceOfNDistinct(rapid.IntRange(0, 2), 1, 3, func(i int) int { return i }).Draw(rt, "streams")
			a.Offs = rapid.SliceOfN(rapid.IntRange(0, len(idxOffsets)-1), 1, 6).Draw(rt, "offs")
			switch a.Proto {
			case "loki":
				a.Dup = rapid.IntRange(0, 2).Draw(rt, "dup") == 1
			case "prom":
				a.Long = rapid.IntRange(0, 3).Draw(rt, "long") == 2
			}
		}
		if a.Op == "fail-series" || a.Op == "fail-samples" {
			a.Err = rapid.SampledFrom(fakech.ErrClasses).Draw(rt, "err")
			a.N = rapid.SampledFrom([]int{1, 2, 1, 3}).Draw(rt, "n")
		}
		return a
	})
	c.Actions = rapid.SliceOfN(act, 1, 14).Draw(rt, "actions")
	return c
}

type idxSample struct {
	marker string // exact marker (loki) or prefix (prom)
	prefix bool
	tNs    int64
}

type idxPush struct {
	action  idxAction
	day     int64
	id      int
	samples []idxSample
	seq     int                      // position in the history
	status  int                      // what the client saw (200 when the handler wrote nothing)
	writes  int                      // WriteHeader calls: 0 = the handler returned without answering (implicit 200)
	own     map[uint64][]fakech.Date // series rows the handler submitted for this push (any attempt)
}

func idxBuild(p *idxPush, loc *time.Location) *http.Request {
	_, zoff := time.Unix(p.day*86400, 0).In(loc).Zone()
	at := func(k int) int64 {
		off := idxOffsets[k%len(idxOffsets)]
		switch off {
		case -100000:
			off = -zoff - 1
		case -100001:
			off = -zoff
		case -100002:
			off = -zoff + 1
		}
		// + id ms keeps (stream, time) unique across requests without crossing a boundary that matters
		return (p.day*86400+int64(off))*1e9 + int64(p.id)*1e6
	}
	per := map[int][]int64{}
	for i, k := range p.action.Offs {
		s := p.action.Streams[i%len(p.action.Streams)]
		per[s] = append(per[s], at(k)+int64(i)*1000)
	}
	p.samples = nil
	if p.action.Proto == "influx" {
		// one line = one call of the parser callback: a stream with several samples is a
		// repeated series by construction
		var sb strings.Builder
		n := 0
		for _, s := range p.action.Streams {
			for i, t := range per[s] {
				msg := fmt.Sprintf("I%d-%d-%d", p.id, s, i)
				fmt.Fprintf(&sb, "s%d,job=c04 message=\"%s\" %d\n", s, msg, t)
				p.samples = append(p.samples, idxSample{marker: msg, tNs: t})
				n++
			}
		}
		r := httptest.NewRequest("POST", "/influx/api/v2/write", strings.NewReader(sb.String()))
		r.Header.Set("Content-Type", "text/plain")
		return r
	}
	if p.action.Proto == "prom" {
		wr := &prompb.WriteRequest{}
		for si, s := range p.action.Streams {
			if len(per[s]) == 0 {
				continue
			}
			ts := &prompb.TimeSeries{Labels: []*prompb.Label{{Name: "__name__", Value: fmt.Sprintf("m%d", s)}, {Name: "job", Value: "c04"}}}
			if p.action.Long && si == 0 {
				// promMetricsProtoDec.Decode flushes every 1000 points (flushLimit)
				// one point per minute: the points behind number 1000 go well past the read
				// side's 30-minute slack after midnight
				start := (p.day+1)*86400 - 1000*60
				total := 1000 + 40 + (len(p.action.Offs)*37)%160
				for j := 0; j < total; j++ {
					ms := (start+int64(j)*60)*1000 + int64(p.id)
					ts.Samples = append(ts.Samples, &prompb.Sample{Value: float64(j), Timestamp: ms})
					p.samples = append(p.samples, idxSample{prefix: true, tNs: ms * 1e6})
				}
			}
			for _, t := range per[s] {
				ms := t / 1e6
				ts.Samples = append(ts.Samples, &prompb.Sample{Value: float64(p.id), Timestamp: ms})
				p.samples = append(p.samples, idxSample{marker: fmt.Sprintf("t%d/", ms*1e6), prefix: true, tNs: ms * 1e6})
			}
			wr.Timeseries = append(wr.Timeseries, ts)
		}
		raw, _ := proto.Marshal(wr)
		r := httptest.NewRequest("POST", "/api/v1/prom/remote/write", bytes.NewReader(snappy.Encode(nil, raw)))
		r.Header.Set("Content-Type", "application/x-protobuf")
		return r
	}
	var sb strings.Builder
	sb.WriteString(`{"streams":[`)
	first := true
	occs := 1
	if p.action.Dup {
		occs = 2
	}
	for occ := 0; occ < occs; occ++ {
		for _, s := range p.action.Streams {
			var mine []int
			for i := range per[s] {
				if occs == 1 || i%2 == occ {
					mine = append(mine, i)
				}
			}
			if len(mine) == 0 {
				continue
			}
			if !first {
				sb.WriteString(",")
			}
			first = false
			if occ == 0 {
				fmt.Fprintf(&sb, `{"stream":{"app":"a%d","job":"c04"},"values":[`, s)
			} else {
				fmt.Fprintf(&sb, `{"stream":{"job":"c04","app":"a%d"},"values":[`, s)
			}
			for k, i := range mine {
				if k > 0 {
					sb.WriteString(",")
				}
				line := fmt.Sprintf("X%d-%d-%d", p.id, s, i)
				fmt.Fprintf(&sb, `["%d","%s"]`, per[s][i], line)
				p.samples = append(p.samples, idxSample{marker: line, tNs: per[s][i]})
			}
			sb.WriteString("]}")
		}
	}
	sb.WriteString("]}")
	r := httptest.NewRequest("POST", "/loki/api/v1/push", strings.NewReader(sb.String()))
	r.Header.Set("Content-Type", "application/json")
	return r
}

func predIndexing(c idxCase, o *evid.Obs) error {
	if c.TZ < 0 || c.TZ >= len(idxZones) {
		o.Discard("bad-zone")
		return nil
	}
	saved := time.Local
	time.Local = idxZones[c.TZ]
	defer func() { time.Local = saved }()
	retries := c.Retries
	if retries < 1 {
		retries = 1
	}
	hs := inssvc.New(inssvc.Config{Workers: 1, RetryAttempts: retries, Bernstein: c.Bernstein})
	defer hs.Close()
	o.Tag("tz:"+idxZones[c.TZ].String(), fmt.Sprintf("bernstein:%v", c.Bernstein), fmt.Sprintf("retries:%d", retries))

	type acked struct {
		push *idxPush
	}
	var ackedPushes, allPushes []*idxPush
	seq := 0
	var lastFailed *idxPush
	day := idxDay0
	id := 0
	sawFailedSeries, retryAfterFailedSeries, resetThenPush, sawReset := false, false, false, false
	knownHit := false

	drive := func(p *idxPush) (inssvc.Response, error) {
		req := idxBuild(p, idxZones[c.TZ])
		done := make(chan inssvc.Response, 1)
		go func() { done <- hs.Serve(req) }()
		deadline := time.After(30 * time.Second)
		for {
			select {
			case r := <-done:
				return r, nil
			case <-deadline:
				return inssvc.Response{}, fmt.Errorf("push %d got no answer within 30 s although the database keeps answering", p.id)
			case <-time.After(150 * time.Microsecond):
				// the real trigger chain: a samples flush asks for the series flush first; the
				// series service's own timer (stood in for by PlanFlush) picks up retried parts
				hs.Svc[inssvc.Samples].PlanFlush()
				hs.Svc[inssvc.Series].PlanFlush()
			}
		}
	}

	check := func(step int) error {
		calls := hs.DB.Calls()
		type fd struct {
			fp uint64
			d  fakech.Date
		}
		series := map[uint64][]fakech.Date{}
		lost := map[uint64]bool{}
		samples := map[string]inssvc.Row{}
		promRows := map[int64][]inssvc.Row{} // remote-write rows have no line: found by timestamp
		for _, cl := range calls {
			if !cl.Done {
				continue
			}
			rows := inssvc.BlockRows(cl)
			switch cl.Table {
			case "time_series":
				for _, r := range rows {
					fp, _ := r.Cols["fingerprint"].(uint64)
					d, _ := r.Cols["date"].(fakech.Date)
					if cl.Err == nil {
						series[fp] = append(series[fp], d)
					} else {
						lost[fp] = true
					}
				}
			case "samples_v3":
				if cl.Err != nil {
					continue
				}
				for _, r := range rows {
					samples[r.Marker] = r
					if s, _ := r.Cols["string"].(string); s == "" {
						t, _ := r.Cols["timestamp_ns"].(int64)
						promRows[t] = append(promRows[t], r)
					}
				}
			}
		}
		for _, p := range ackedPushes {
			// an acknowledged push - a status 2xx, or no status at all, which the client sees as
			// 200 - must have every series row it submitted in a successful time_series INSERT
			for fp, dates := range p.own {
				for _, d := range dates {
					in := false
					for _, sd := range series[fp] {
						if sd == d {
							in = true
						}
					}
					if !in {
						how := fmt.Sprintf("was answered %d", p.status)
						if p.writes == 0 {
							how = "got no status from the handler (the client sees an implicit 200 OK)"
						}
						return fmt.Errorf("after step %d: push %d (%s) %s, but the series row (fingerprint %d, %s) it submitted is in no successful time_series INSERT "+
							"(successful dates for the fingerprint: %v): its samples are acknowledged without an index row (time.Local=%s)",
							step, p.id, p.action.Proto, how, fp, d, series[fp], idxZones[c.TZ])
					}
				}
			}
			for _, s := range p.samples {
				var rows []inssvc.Row
				if !s.prefix {
					if r, ok := samples[s.marker]; ok {
						rows = []inssvc.Row{r}
					}
				} else {
					rows = promRows[s.tNs] // every stream of the push that has a point at that instant
				}
				// an acknowledged sample that was never inserted is C01's finding, not judged here
				for _, row := range rows {
					fp, _ := row.Cols["fingerprint"].(uint64)
					t, _ := row.Cols["timestamp_ns"].(int64)
					need := fakech.Date((t/1e9 - 1800) / 86400) // FormatFromDate(from) with from = t
					if t/1e9-1800 < 0 {
						need = 0
					}
					ok := false
					for _, d := range series[fp] {
						if d >= need {
							ok = true
							break
						}
					}
					if ok {
						continue
					}
					ownCovers := false
					for _, d := range p.own[fp] {
						if d >= need {
							ownCovers = true
						}
					}
					if !ownCovers && lost[fp] && !o.Witness {
						// only the recorded finding: an earlier push, answered with an error, announced
						// the pair and its series row never got through
						hit := false
						for _, q := range allPushes {
							if q.seq >= p.seq || (q.status >= 200 && q.status < 300) {
								continue
							}
							for _, d := range q.own[fp] {
								if d >= need {
									hit = true
								}
							}
						}
						if hit {
							knownHit = true
							continue
						}
					}
					if ownCovers {
						return fmt.Errorf("after step %d: push %d (%s) was acknowledged (%d) and had itself submitted the series row for fingerprint %d (dates %v), but that row is in no successful time_series INSERT "+
							"(successfully inserted dates: %v): sample %q at %s is not discoverable (time.Local=%s)",
							step, p.id, p.action.Proto, p.status, fp, p.own[fp], series[fp], row.Marker, time.Unix(0, t).UTC().Format(time.RFC3339Nano), idxZones[c.TZ])
					}
					have := "none"
					if len(series[fp]) > 0 {
						have = fmt.Sprint(series[fp])
					}
					return fmt.Errorf("after step %d: push %d (%s) was acknowledged; its sample %q (fingerprint %d, t=%s) has no series row the read side would find: "+
						"successfully inserted series dates for the fingerprint: %s; a window starting at t searches date >= %s (time.Local=%s)",
						step, p.id, p.action.Proto, row.Marker, fp, time.Unix(0, t).UTC().Format(time.RFC3339Nano), have, need, idxZones[c.TZ])
				}
			}
		}
		return nil
	}

	for i, a := range c.Actions {
		switch a.Op {
		case "push", "retry":
			var p *idxPush
			if a.Op == "retry" {
				if lastFailed == nil {
					o.Tag("retry:nothing-to-retry")
					continue
				}
				// the client sends the same body again
				id++
				p = &idxPush{action: lastFailed.action, day: lastFailed.day, id: lastFailed.id}
				if sawFailedSeries {
					retryAfterFailedSeries = true
				}
			} else {
				if len(a.Streams) == 0 || len(a.Offs) == 0 {
					continue
				}
				id++
				p = &idxPush{action: a, day: day, id: id}
				if sawReset {
					resetThenPush = true
				}
			}
			before := len(hs.DB.Calls())
			subsBefore := len(hs.Rec.Subs())
			resp, err := drive(p)
			if err != nil {
				return err
			}
			status := resp.Status
			p.writes = resp.HeaderWrites
			if resp.HeaderWrites == 0 {
				o.Tag("implicit-200(no status written)")
			}
			// doParse answers on the first failed part; let the sibling parts' retries finish
			for dl := time.Now().Add(20 * time.Second); !hs.Rec.Settled(retries) && time.Now().Before(dl); {
				hs.Svc[inssvc.Samples].PlanFlush()
				hs.Svc[inssvc.Series].PlanFlush()
				time.Sleep(150 * time.Microsecond)
			}
			seq++
			p.seq, p.status, p.own = seq, status, map[uint64][]fakech.Date{}
			for _, sub := range hs.Rec.Subs()[subsBefore:] {
				if sub.Kind != inssvc.Series {
					continue
				}
				for _, r := range sub.Rows {
					fp, _ := r.Cols["fingerprint"].(uint64)
					d, _ := r.Cols["date"].(fakech.Date)
					p.own[fp] = append(p.own[fp], d)
				}
			}
			allPushes = append(allPushes, p)
			o.Tag(fmt.Sprintf("status:%dxx", status/100), "proto:"+p.action.Proto)
			days := map[int64]bool{}
			for _, sm := range p.samples {
				days[sm.tNs/1e9/86400] = true
			}
			if len(days) >= 2 {
				o.Tag("request-spans->=2-utc-days")
				if p.action.Dup {
					o.Tag("loki-same-stream-twice-across-days")
				}
				if p.action.Proto == "influx" {
					o.Tag("influx-repeated-series-across-days")
				}
			}
			if p.action.Long {
				o.Tag("prom-backfill>1000-points-across-midnight")
			}
			for _, cl := range hs.DB.Calls()[before:] {
				if cl.Table == "time_series" && cl.Done && cl.Err != nil {
					sawFailedSeries = true
				}
			}
			if status >= 200 && status < 300 {
				ackedPushes = append(ackedPushes, p)
				if lastFailed != nil && a.Op == "retry" {
					lastFailed = nil
				}
			} else {
				lastFailed = p
			}
		case "fail-series", "fail-samples":
			table, what := "time_series", "series"
			if a.Op == "fail-samples" {
				table, what = "samples_v3", "sample"
			}
			n := a.N
			if n < 1 {
				n = 1
			}
			for k := 0; k < n; k++ {
				hs.DB.PushFor(table, fakech.Step{Kind: fakech.Error, Err: "scripted failure of the " + what + " INSERT", Class: a.Err})
			}
			if n >= retries {
				o.Tag(a.Op + "-on-every-attempt")
			}
			if a.Err != "" {
				o.Tag(a.Op + ":" + a.Err)
			}
		case "reset":
			inssvc.ResetCache(hs.Cache)
			sawReset = true
		case "nextday":
			day++
		}
		if err := check(i); err != nil {
			return err
		}
	}
	hs.Close()
	if hs.NotQuiet {
		o.Discard("not-quiet-before-stop")
		return nil
	}
	if knownHit {
		o.Known(FindingAnnouncedBeforeInsert)
	}
	if sawFailedSeries {
		o.Tag("series-insert-failed")
	}
	if retryAfterFailedSeries {
		o.Tag("retry-after-failed-series-insert")
	}
	if resetThenPush {
		o.Tag("push-after-cache-reset")
	}
	if retryAfterFailedSeries || resetThenPush {
		o.NonTrivial()
	}
	return nil
}

func addIndexing(r *evid.Run) {
	evid.Add(r, evid.Prop[idxCase]{Name: "indexing", Quick: 400, Thorough: 3000, Gen: genIndexing, Pred: predIndexing})
}

package c04

// identity.go: C04 sub-check 1 - series identity depends only on the label set.
//
// Domain: one generated label set S (names distinct after sanitisation; values any bytes:
// quotes, backslashes, control bytes, invalid UTF-8, longer than 100 bytes), pushed
//   * in several permutations through every protocol that can spell it (Loki JSON v1
//     always; Loki JSON legacy layout and Loki protobuf when the names are identifiers and
//     everything is UTF-8; remote-write when everything is UTF-8), alone and in one body
//     together with other streams, as a log line and as a metric point,
//   * under a name spelling that sanitises to the same set ('.' for a '_'),
//   * inside large (>= 200 KiB) Loki JSON stream-form bodies, as the first stream and
//     between other streams (the decoder refills its read buffer several times between the
//     label object and the end of the values),
//   * under a value spelling that differs only behind the 100-byte cap of sanitizeLabels
//     (gen.SameSanitized: by the documented sanitisation the same stored set),
// and its adversarial neighbours (gen.Neighbours: a character moved across the name/value
// boundary, two values swapped, an empty-valued label added, a label dropped, ...; first of
// all the length-limit neighbours: a long label name - names are not capped, about one in
// six is stretched to 60..400 bytes - changed only in its last byte or at offset
// 63/64/99/100/127/128/254/255, one byte longer or shorter; a value changed at byte 99, a
// value of exactly 100 bytes against a longer one with the same first 100 bytes).
// Oracle (metamorphic, the hash is never recomputed): all pushes of S yield one
// fingerprint; S and its neighbours yield pairwise different fingerprints; every stored
// label document is valid JSON and decodes to exactly the sanitised set of its push.
// The process time zone and the fingerprint type are part of the case.

import (
	"fmt"
	"strings"
	"time"
	"unicode/utf8"

	"pgregory.net/rapid"

	"qrynverif/evid"
	"qrynverif/gen"
	"qrynverif/props/c03"
)

type identityCase struct {
	FPType uint        `json:"fp_type"` // 1 CityHash, 0 Bernstein (32 bit)
	Zone   int         `json:"zone"`    // 0 UTC, 1 UTC-10, 2 UTC+13
	Set    []gen.Label `json:"set"`
	Perms  []uint64    `json:"perms"`
	Other  []gen.Label `json:"other"` // an unrelated stream sharing a body with S
	Styles []uint16    `json:"styles"`
	// TTLValue != "": S is also pushed with the special label __ttl_days__=TTLValue at
	// position TTLPos (0 first, 1 middle, 2 last), with CtxTTL as the request's TTL_DAYS.
	TTLValue string `json:"ttl_value,omitempty"`
	TTLPos   int    `json:"ttl_pos,omitempty"`
	CtxTTL   uint16 `json:"ctx_ttl,omitempty"`
}

var zones = []*time.Location{time.UTC, time.FixedZone("UTC-10", -10*3600), time.FixedZone("UTC+13", 13*3600)}

const ts0 = int64(1699920000) * 1e9

func genIdentity(rt *rapid.T) identityCase {
	c := identityCase{FPType: 1, Zone: rapid.IntRange(0, 2).Draw(rt, "zone")}
	if rapid.IntRange(0, 4).Draw(rt, "bernstein") == 0 {
		c.FPType = 0
	}
	o := gen.LabelOpt{Min: 1, Max: 7, Long: true, LongNames: true}
	switch rapid.IntRange(0, 3).Draw(rt, "alphabet") {
	case 0: // spellable by all four encoders
		o.Names, o.Val = gen.NamesGoIdent, gen.StrOpt{UTF8Only: true}
	case 1:
		o.Names, o.Val = gen.NamesUTF8, gen.StrOpt{UTF8Only: true}
	default:
		o.Names = gen.NamesAny
	}
	c.Set = gen.LabelSet(rt, o)
	c.Perms = rapid.SliceOfN(rapid.Uint64(), 2, 4).Draw(rt, "perms")
	c.Other = gen.LabelSet(rt, gen.LabelOpt{Min: 1, Max: 3, Names: gen.NamesGoIdent, Val: gen.StrOpt{UTF8Only: true}})
	c.Styles = rapid.SliceOfN(rapid.Uint16(), 4, 4).Draw(rt, "styles")
	if rapid.IntRange(0, 2).Draw(rt, "ttl") == 0 {
		c.TTLValue = gen.DrawTTLValue(rt)
		c.TTLPos = rapid.IntRange(0, 2).Draw(rt, "ttl-pos")
		if rapid.IntRange(0, 2).Draw(rt, "ttl-ctx") == 0 {
			c.CtxTTL = uint16(rapid.SampledFrom([]int{1, 14, 90}).Draw(rt, "ttl-ctx-days"))
		}
	}
	return c
}

func allUTF8(ls []gen.Label) bool {
	for _, l := range ls {
		if !utf8.ValidString(string(l.Name)) || !utf8.ValidString(string(l.Value)) {
			return false
		}
	}
	return true
}

type push struct {
	what   string
	proto  gen.Proto
	body   gen.Body
	target int // index into body.Chunks of the chunk under test
}

func entry(kind uint8, i int, style uint16) gen.Entry {
	e := gen.Entry{Ts: ts0 + int64(i)*1e6, Kind: kind, Style: style}
	if kind == gen.KindLog {
		e.Line = evid.Str(fmt.Sprintf("line-%d", i))
	} else {
		e.Val = float64(i)
	}
	return e
}

func single(p gen.Proto, set []gen.Label, perm uint64, kind uint8, cstyle uint16, i int) gen.Body {
	return gen.Body{Sets: [][]gen.Label{set}, Chunks: []gen.Chunk{{Set: 0, Perm: perm, Style: cstyle, Entries: []gen.Entry{entry(kind, i, cstyle)}}}}
}

// fingerprintOf pushes the body and returns the fingerprint and label document stored for
// the stream whose expected label set is want (found through the sample rows: the body
// gives every stream distinct lines / values).
func fingerprintOf(p push, fpType uint) (fp uint64, doc string, err error) {
	c03.Setup(fpType)
	res := c03.ParseBody(p.proto, p.body, false)
	if res.Err != nil {
		return 0, "", fmt.Errorf("%s: body rejected: %v", p.what, res.Err)
	}
	if res.Shape != "" {
		return 0, "", fmt.Errorf("%s: %s", p.what, res.Shape)
	}
	var te gen.FlatEntry
	found := false
	for _, fc := range p.body.Expand() {
		if fc.Index == p.target && len(fc.Entries) > 0 && !found {
			te, found = fc.Entries[0], true
		}
	}
	n := 0
	for _, r := range res.Samples {
		if r.Ts == te.Ts && r.Line == te.Line && r.Type == te.Kind && (r.Val == te.Val) {
			fp = r.FP
			n++
		}
	}
	if n != 1 {
		return 0, "", fmt.Errorf("%s: the entry under test was stored %d times", p.what, n)
	}
	docs := map[string]bool{}
	for _, s := range res.Series {
		if s.FP == fp {
			docs[s.Labels] = true
			doc = s.Labels
		}
	}
	if len(docs) != 1 {
		return 0, "", fmt.Errorf("%s: %d distinct label documents stored for fingerprint %d", p.what, len(docs), fp)
	}
	return fp, doc, nil
}

func labelsStr(ls []gen.Label) string {
	s := "{"
	for i, l := range ls {
		if i > 0 {
			s += ", "
		}
		s += fmt.Sprintf("%q=%q", string(l.Name), string(l.Value))
	}
	return s + "}"
}

func checkDoc(what, doc string, set []gen.Label, o *evid.Obs, known *bool) error {
	want := gen.Sanitized(set)
	if !gen.DocRepresentable(want) && !o.Witness {
		// bytes that are not UTF-8 cannot be written in JSON text: the document cannot decode
		// to them (recorded finding); it must still be a valid document
		if !*known {
			*known = true
			o.Known(c03.FindingDocNotJSON)
		}
		if _, err := gen.DecodeLabelDoc(doc); err != nil {
			return fmt.Errorf("%s: %v", what, err)
		}
		return nil
	}
	got, err := gen.DecodeLabelDoc(doc)
	if err != nil {
		return fmt.Errorf("%s: %v (label set %s)", what, err, labelsStr(want))
	}
	if gen.CanonKey(got) != gen.CanonKey(want) {
		return fmt.Errorf("%s: label document %q decodes to %s, the sanitised label set is %s", what, doc, labelsStr(got), labelsStr(want))
	}
	return nil
}

func predIdentity(c identityCase, o *evid.Obs) error {
	if len(c.Set) == 0 || len(c.Perms) == 0 || len(c.Styles) < 4 || c.Zone < 0 || c.Zone > 2 {
		o.Discard("malformed case")
		return nil
	}
	saved := time.Local
	time.Local = zones[c.Zone]
	defer func() { time.Local = saved }()

	S := c.Set
	utf := allUTF8(S)
	ident := utf && gen.GoIdentSet(S)
	o.Tag(fmt.Sprintf("fp-type=%d", c.FPType), fmt.Sprintf("zone=%d", c.Zone))

	// ---- pushes of S itself
	var pushes []push
	for i, perm := range c.Perms {
		st := c.Styles[i%len(c.Styles)]
		pushes = append(pushes, push{fmt.Sprintf("loki-json v1, permutation %d", i), gen.LokiJSON, single(gen.LokiJSON, S, perm, gen.KindLog, st&^gen.LokiLegacy, i), 0})
		if ident {
			pushes = append(pushes,
				push{fmt.Sprintf("loki-json legacy layout, permutation %d", i), gen.LokiJSON, single(gen.LokiJSON, S, perm, gen.KindMetric, st|gen.LokiLegacy, i), 0},
				push{fmt.Sprintf("loki protobuf, permutation %d", i), gen.LokiProto, single(gen.LokiProto, S, perm, gen.KindLog, st, i), 0})
		}
		if utf {
			pushes = append(pushes, push{fmt.Sprintf("remote-write, permutation %d", i), gen.PromRW, single(gen.PromRW, S, perm, gen.KindMetric, st, i), 0})
		}
	}
	// S in one body with another stream, before and after it
	if gen.CanonKey(gen.Sanitized(c.Other)) != gen.CanonKey(gen.Sanitized(S)) {
		b := gen.Body{Sets: [][]gen.Label{c.Other, S}, Chunks: []gen.Chunk{
			{Set: 0, Perm: 1, Entries: []gen.Entry{entry(gen.KindLog, 100, 0), entry(gen.KindLog, 101, 0)}},
			{Set: 1, Perm: c.Perms[0] + 1, Entries: []gen.Entry{entry(gen.KindLog, 102, 0)}},
			{Set: 0, Perm: 2, Entries: []gen.Entry{entry(gen.KindLog, 103, 0)}},
		}}
		pushes = append(pushes, push{"loki-json v1, between two chunks of another stream", gen.LokiJSON, b, 1})
		o.Tag("shared-body")
	}
	// S inside large Loki JSON "stream"-form bodies (>= 200 KiB): the decoder refills its
	// 64 KiB read buffer several times between the stream's label object and the end of its
	// values; fingerprint and label document must equal the small-body ones (labels that are
	// views into the decoder's buffer would not survive the refills). A third of the cases.
	if c.Perms[0]%3 == 0 && gen.CanonKey(gen.Sanitized(c.Other)) != gen.CanonKey(gen.Sanitized(S)) {
		lines := func(base, n int) []gen.Entry {
			out := make([]gen.Entry, n)
			for i := range out {
				out[i] = entry(gen.KindLog, base+i, 0)
				out[i].Line = evid.Str(fmt.Sprintf("big-%d-", base+i) + strings.Repeat("l", 1500))
			}
			return out
		}
		first := gen.Body{Sets: [][]gen.Label{S, c.Other}, Chunks: []gen.Chunk{
			{Set: 0, Perm: c.Perms[0], Entries: lines(1000, 150)},
			{Set: 1, Perm: 1, Entries: lines(2000, 10)},
		}}
		middle := gen.Body{Sets: [][]gen.Label{c.Other, S}, Chunks: []gen.Chunk{
			{Set: 0, Perm: 1, Entries: lines(3000, 50)},
			{Set: 1, Perm: c.Perms[0] + 1, Entries: lines(4000, 140)},
			{Set: 0, Perm: 2, Entries: lines(5000, 10)},
		}}
		pushes = append(pushes,
			push{"loki-json v1, first stream of a 240 KiB body", gen.LokiJSON, first, 0},
			push{"loki-json v1, between other streams of a 300 KiB body", gen.LokiJSON, middle, 1})
		o.Tag("large-body")
	}
	// a spelling that sanitises to the same set
	if al, ok := gen.AliasSpelling(S); ok {
		pushes = append(pushes, push{"loki-json v1, alias spelling " + labelsStr(al), gen.LokiJSON, single(gen.LokiJSON, al, c.Perms[0], gen.KindLog, 0, 200), 0})
		o.Tag("alias-spelling")
	}

	// spellings that differ only behind the value cap: same sanitised set, same fingerprint
	for i, alt := range gen.SameSanitized(S) {
		if i >= 3 {
			break
		}
		pushes = append(pushes, push{fmt.Sprintf("loki-json v1, value differing only behind the 100-byte cap (variant %d)", i), gen.LokiJSON,
			single(gen.LokiJSON, alt, c.Perms[0], gen.KindLog, 0, 210+i), 0})
		o.Tag("same-set-behind-value-cap")
	}

	var fp0 uint64
	known := false
	for i, p := range pushes {
		fp, doc, err := fingerprintOf(p, c.FPType)
		if err != nil {
			return err
		}
		set := p.body.Sets[p.body.Chunks[p.target].Set]
		if err := checkDoc(p.what, doc, set, o, &known); err != nil {
			return err
		}
		if i == 0 {
			fp0 = fp
		} else if fp != fp0 {
			return fmt.Errorf("label set %s: fingerprint %d through %q but %d through %q", labelsStr(gen.Sanitized(S)), fp0, pushes[0].what, fp, p.what)
		}
	}
	o.Tag(fmt.Sprintf("pushes=%d", len(pushes)))
	if ident {
		o.Tag("all-four-encoders")
	} else if utf {
		o.Tag("json+remote-write")
	} else {
		o.Tag("json-only")
	}

	if c.TTLValue != "" {
		if err := checkTTLLabel(c, S, fp0, utf, o, &known); err != nil {
			return err
		}
	}

	// ---- neighbours: different sanitised sets must get different fingerprints
	nb := gen.Neighbours(S)
	if len(nb) > 12 {
		nb = nb[:12]
	}
	seen := map[uint64][]gen.Label{fp0: S}
	for i, n := range nb {
		p := push{fmt.Sprintf("neighbour %d %s", i, labelsStr(n)), gen.LokiJSON, single(gen.LokiJSON, n, uint64(i), gen.KindLog, 0, 300+i), 0}
		fp, doc, err := fingerprintOf(p, c.FPType)
		if err != nil {
			return err
		}
		if err := checkDoc(p.what, doc, n, o, &known); err != nil {
			return err
		}
		if prev, dup := seen[fp]; dup {
			if c.FPType == 0 {
				o.Tag("bernstein-collision-ignored") // 32-bit hash: collisions are by design
				continue
			}
			return fmt.Errorf("label sets %s and %s (sanitised: %s and %s) share fingerprint %d", labelsStr(prev), labelsStr(n), labelsStr(gen.Sanitized(prev)), labelsStr(gen.Sanitized(n)), fp)
		}
		seen[fp] = n
	}
	o.Tag(fmt.Sprintf("neighbours=%d", min(len(nb), 12)/4*4))

	maxName := 0
	for _, l := range S {
		if len(l.Name) > maxName {
			maxName = len(l.Name)
		}
	}
	switch {
	case maxName > 255:
		o.Tag("name-len:>255")
	case maxName > 128:
		o.Tag("name-len:129..255")
	case maxName > 100:
		o.Tag("name-len:101..128")
	case maxName > 64:
		o.Tag("name-len:65..100")
	case maxName > 32:
		o.Tag("name-len:33..64")
	default:
		o.Tag("name-len:<=32")
	}
	nonAlnum := false
	tagged := map[string]bool{}
	for _, l := range S {
		for _, cl := range gen.StrClasses(string(l.Value)) {
			if !tagged[cl] {
				tagged[cl] = true
				o.Tag("value:" + cl)
			}
		}
		if gen.NonAlnum(string(l.Value)) {
			nonAlnum = true
		}
	}
	if len(S) >= 3 && nonAlnum {
		o.NonTrivial()
	}
	return nil
}

// AddIdentity registers sub-check 1 of C04.
func AddIdentity(r *evid.Run) {
	evid.Add(r, evid.Prop[identityCase]{Name: "identity", Quick: 1500, Thorough: 12000, Gen: genIdentity, Pred: predIdentity})
}

// checkTTLLabel: S pushed with the special label __ttl_days__ (gen/ttl.go) through the two
// decoders' shapes that hand one stream to the builder more than once - a Loki JSON body
// that repeats the stream, and a remote-write series of 1 002 points, which the decoder
// flushes in two pieces from one label buffer. Without a TTL in the request context the
// label is not part of the series: one fingerprint, equal to that of S; the document
// decodes to S (no duplicate keys); every row carries the TTL parsed from the label (0 for
// an unparsable value). With a TTL in the context qryn leaves the label in the set (it is
// then an ordinary label) and every row carries the context's TTL.
func checkTTLLabel(c identityCase, S []gen.Label, fp0 uint64, utf bool, o *evid.Obs, known *bool) error {
	pos := []int{0, len(S) / 2, len(S)}[((c.TTLPos%3)+3)%3]
	ST := gen.InsertTTLLabel(S, pos, c.TTLValue, 0, 0)
	o.Tag("ttl-label", fmt.Sprintf("ttl-label:pos=%d", ((c.TTLPos%3)+3)%3))
	if c.CtxTTL != 0 {
		o.Tag("ttl-label+ctx-ttl")
	}
	if gen.TTLOf(c.TTLValue) == 0 {
		o.Tag("ttl-label:invalid-value")
	}
	type ttlPush struct {
		what  string
		proto gen.Proto
		body  gen.Body
	}
	pushes := []ttlPush{{"loki-json v1, stream with __ttl_days__ repeated in one body", gen.LokiJSON, gen.Body{Sets: [][]gen.Label{ST}, Chunks: []gen.Chunk{
		{Set: 0, Perm: 0, Entries: []gen.Entry{entry(gen.KindLog, 400, 0), entry(gen.KindLog, 401, 0)}},
		{Set: 0, Perm: 0, Entries: []gen.Entry{entry(gen.KindLog, 402, 0)}},
	}}}}
	if utf {
		pushes = append(pushes, ttlPush{"remote-write, series with __ttl_days__ flushed in two pieces (1002 points)", gen.PromRW, gen.Body{Sets: [][]gen.Label{ST}, Chunks: []gen.Chunk{
			{Set: 0, Perm: 0, Entries: []gen.Entry{entry(gen.KindMetric, 403, 0)}, Bulk: 1001, BulkTs: ts0 + 1e9, BulkStep: 1e6, BulkKind: gen.KindMetric},
		}}})
		o.Tag("ttl-label:rw-flushed-in-pieces")
	}
	var fpT uint64
	for i, p := range pushes {
		c03.Setup(c.FPType)
		res := c03.ParseBodyTTL(p.proto, p.body, false, c.CtxTTL)
		if res.Err != nil {
			return fmt.Errorf("%s: body rejected: %v", p.what, res.Err)
		}
		if res.Shape != "" {
			return fmt.Errorf("%s: %s", p.what, res.Shape)
		}
		want, ttl := gen.ExpectedStored(p.proto, ST, c.CtxTTL)
		if n := gen.Points(p.body.Expand()); len(res.Samples) != n {
			return fmt.Errorf("%s: %d entries submitted, %d rows stored", p.what, n, len(res.Samples))
		}
		fp := res.Samples[0].FP
		for _, r := range res.Samples {
			if r.FP != fp {
				return fmt.Errorf("%s: rows of one stream carry fingerprints %d and %d (row ts=%d)", p.what, fp, r.FP, r.Ts)
			}
			if r.TTL != ttl {
				return fmt.Errorf("%s: row ts=%d carries TTL %d, expected %d (label value %q, context TTL %d)", p.what, r.Ts, r.TTL, ttl, c.TTLValue, c.CtxTTL)
			}
		}
		if len(res.Series) == 0 {
			return fmt.Errorf("%s: no series row", p.what)
		}
		for _, sr := range res.Series {
			if sr.FP != fp {
				return fmt.Errorf("%s: series row with fingerprint %d, the sample rows carry %d", p.what, sr.FP, fp)
			}
			if sr.TTL != ttl {
				return fmt.Errorf("%s: series row carries TTL %d, expected %d", p.what, sr.TTL, ttl)
			}
			if !gen.DocRepresentable(want) && !o.Witness {
				if !*known {
					*known = true
					o.Known(c03.FindingDocNotJSON)
				}
				continue
			}
			got, err := gen.DecodeLabelDoc(sr.Labels)
			if err != nil {
				return fmt.Errorf("%s: %v", p.what, err)
			}
			if gen.CanonKey(got) != gen.CanonKey(want) {
				return fmt.Errorf("%s: label document %q decodes to %s, the stored label set should be %s", p.what, sr.Labels, labelsStr(got), labelsStr(want))
			}
		}
		if c.CtxTTL == 0 && fp != fp0 {
			return fmt.Errorf("%s: fingerprint %d, but %d for the same label set %s pushed without __ttl_days__", p.what, fp, fp0, labelsStr(gen.Sanitized(S)))
		}
		if i == 0 {
			fpT = fp
		} else if fp != fpT {
			return fmt.Errorf("label set %s: fingerprint %d through %q but %d through %q", labelsStr(want), fpT, pushes[0].what, fp, p.what)
		}
	}
	return nil
}

package c12

import (
	"bufio"
	"context"
	"database/sql/driver"
	"errors"
	"fmt"
	"io"
	"net"
	"net/http"
	"net/http/httptest"
	"net/url"
	"sort"
	"strings"
	"sync"
	"sync/atomic"
	"syscall"
	"time"

	"github.com/gorilla/websocket"
	"pgregory.net/rapid"

	"qrynverif/evid"
	"qrynverif/fakesql"
	"qrynverif/readersvc"
)

// ---- C12(b): the client goes away while a streaming read route is still producing ------------
//
// Every streaming read route gets a result set large enough that its producer (row scanner
// -> unbuffered channel -> handler loop) is still at work when the consumer stops:
//
//	mode tcp     real loopback server whose connections have minimal socket buffers (so the
//	             handler blocks in Write after a few KiB); the client reads Abort bytes of the
//	             body and resets the connection
//	mode writer  the handler is called in-process with a ResponseWriter that accepts Abort
//	             bytes and fails every Write afterwards (what net/http's writer does once the
//	             peer is gone); the request context is cancelled at that moment or, as
//	             net/http guarantees at the latest, when the handler returns
//	mode ws      the tail route: websocket client that reads Abort messages and drops the
//	             connection
//
// Oracle (as in `request`): process alive; after the settle bound no goroutine with a qryn
// frame that was started for the request is left (producer parked on its channel send,
// scanner not drained) and fakesql.OpenResultSets() == 0; a leak must show again on an
// immediate second run.

type discCase struct {
	Route       int  `json:"route"`
	Mode        int  `json:"mode"`  // 0 tcp, 1 writer
	Abort       int  `json:"abort"` // body bytes the consumer takes before it goes away (ws: messages)
	Size        int  `json:"size"`  // 0 small, 1 medium, 2 large result set
	Forward     bool `json:"forward"`
	FP0         bool `json:"fp0"`
	Wide        bool `json:"wide"`
	CancelOnErr bool `json:"cancel_on_err"` // writer mode: cancel the request context when the first Write fails
}

type discRoute struct {
	name   string
	target func(c discCase) string
	series [3]int
	rows   [3]int
	proto  bool
	ws     bool
}

func lokiWindow() string { return "&start=1700000000000000000&end=1700007200000000000" }

var discRoutes = []discRoute{
	{name: "loki-streams", series: [3]int{3, 3, 3}, rows: [3]int{400, 2000, 6000}, target: func(c discCase) string {
		return "/loki/api/v1/query_range?limit=100000&query=" + url.QueryEscape(`{a="b"}`) + lokiWindow() + dir(c)
	}},
	{name: "loki-streams-pipeline", series: [3]int{2, 2, 2}, rows: [3]int{300, 1500, 4000}, target: func(c discCase) string {
		return "/loki/api/v1/query_range?limit=100000&query=" + url.QueryEscape(`{a="b"} | logfmt | freq >= 2`) + lokiWindow() + dir(c)
	}},
	{name: "loki-matrix", series: [3]int{3, 10, 30}, rows: [3]int{50, 200, 600}, target: func(c discCase) string {
		return "/loki/api/v1/query_range?step=5&query=" + url.QueryEscape(`rate({a="b"}[1m])`) + "&start=1699999980000000000&end=1700035980000000000"
	}},
	{name: "loki-matrix-pipeline", series: [3]int{2, 2, 2}, rows: [3]int{300, 1500, 4000}, target: func(c discCase) string {
		return "/loki/api/v1/query_range?step=5&query=" + url.QueryEscape(`sum by (test_id) (count_over_time({a="b"} | logfmt [1m]))`) + lokiWindow()
	}},
	{name: "loki-series", series: [3]int{1, 1, 1}, rows: [3]int{500, 5000, 20000}, target: func(c discCase) string {
		return "/loki/api/v1/series?match[]=" + url.QueryEscape(`{a="b"}`) + lokiWindow()
	}},
	{name: "loki-label-values", series: [3]int{1, 1, 1}, rows: [3]int{500, 5000, 20000}, target: func(c discCase) string {
		return "/loki/api/v1/label/job/values?x=1" + lokiWindow()
	}},
	{name: "loki-labels", series: [3]int{1, 1, 1}, rows: [3]int{500, 5000, 20000}, target: func(c discCase) string {
		return "/loki/api/v1/labels?x=1" + lokiWindow()
	}},
	{name: "prom-series", series: [3]int{1, 1, 1}, rows: [3]int{500, 5000, 20000}, target: func(c discCase) string {
		return "/api/v1/series?start=1700000000&end=1700007200&match[]=up"
	}},
	{name: "prom-label-values", series: [3]int{1, 1, 1}, rows: [3]int{500, 5000, 20000}, target: func(c discCase) string {
		return "/api/v1/label/job/values?start=1700000000&end=1700007200"
	}},
	{name: "prom-query_range", series: [3]int{5, 50, 200}, rows: [3]int{100, 100, 100}, target: func(c discCase) string {
		return "/api/v1/query_range?start=1700000000&end=1700001500&step=15&query=" + url.QueryEscape(`{a="b"}`)
	}},
	{name: "tempo-trace-json", series: [3]int{1, 1, 1}, rows: [3]int{100, 400, 1500}, target: func(c discCase) string {
		return "/api/traces/0123456789abcdef0123456789abcdef"
	}},
	{name: "tempo-trace-protobuf", proto: true, series: [3]int{1, 1, 1}, rows: [3]int{100, 400, 1500}, target: func(c discCase) string {
		return "/api/traces/0123456789abcdef0123456789abcdef"
	}},
	{name: "tempo-search-tags", series: [3]int{1, 1, 1}, rows: [3]int{50, 1000, 5000}, target: func(c discCase) string {
		return "/api/search?start=1700000000&end=1700007200&limit=100000&tags=" + url.QueryEscape("a=b")
	}},
	{name: "tempo-search-traceql", series: [3]int{20, 200, 1000}, rows: [3]int{50, 50, 50}, target: func(c discCase) string {
		return "/api/search?start=1700000000&end=1700007200&limit=100000&q=" + url.QueryEscape(`{.a="b"}`)
	}},
	{name: "tempo-tags", series: [3]int{1, 1, 1}, rows: [3]int{500, 5000, 20000}, target: func(c discCase) string {
		return "/api/search/tags"
	}},
	{name: "tempo-tag-values", series: [3]int{1, 1, 1}, rows: [3]int{500, 5000, 20000}, target: func(c discCase) string {
		return "/api/search/tag/foo/values"
	}},
	{name: "loki-tail", ws: true, series: [3]int{1, 2, 3}, rows: [3]int{5, 200, 2000}, target: func(c discCase) string {
		return "/loki/api/v1/tail?query=" + url.QueryEscape(`{a="b"}`)
	}},
}

func dir(c discCase) string {
	if c.Forward {
		return "&direction=forward"
	}
	return "&direction=backward"
}

func genDisc(rt *rapid.T) discCase {
	c := discCase{
		Route:       int(rapid.Uint64().Draw(rt, "route") % uint64(len(discRoutes))), // uniform over the routes
		Mode:        rapid.IntRange(0, 1).Draw(rt, "mode"),
		Size:        rapid.SampledFrom([]int{0, 1, 1, 2}).Draw(rt, "size"),
		Forward:     rapid.Bool().Draw(rt, "forward"),
		FP0:         rapid.IntRange(0, 3).Draw(rt, "fp0") == 0,
		Wide:        rapid.IntRange(0, 7).Draw(rt, "wide") == 0,
		CancelOnErr: rapid.Bool().Draw(rt, "cancelonerr"),
	}
	switch rapid.IntRange(0, 5).Draw(rt, "abortkind") {
	case 0:
		c.Abort = 0
	case 1:
		c.Abort = 1 // the first chunk
	case 2:
		c.Abort = rapid.IntRange(2, 512).Draw(rt, "abort512")
	case 3:
		c.Abort = rapid.IntRange(513, 8192).Draw(rt, "abort8k")
	case 4:
		c.Abort = rapid.IntRange(8193, 100000).Draw(rt, "abort100k")
	default:
		c.Abort = rapid.IntRange(100001, 1500000).Draw(rt, "abort1m")
	}
	if discRoutes[c.Route].ws {
		// the tail loop ticks once per second: keep these cases rare and short
		if rapid.IntRange(0, 2).Draw(rt, "tailrare") != 0 {
			c.Route = int(rapid.Uint64().Draw(rt, "route2") % uint64(len(discRoutes)-1))
		} else {
			c.Abort = rapid.IntRange(0, 2).Draw(rt, "abortmsgs")
			c.Mode = 0
		}
	}
	return c
}

func abortBucket(c discCase) string {
	if discRoutes[c.Route].ws {
		return fmt.Sprintf("%dmsg", c.Abort)
	}
	switch {
	case c.Abort == 0:
		return "0"
	case c.Abort == 1:
		return "first-chunk"
	case c.Abort <= 512:
		return "<=512"
	case c.Abort <= 8192:
		return "<=8K"
	case c.Abort <= 100000:
		return "<=100K"
	default:
		return ">100K"
	}
}

// ---- small socket buffers ---------------------------------------------------------------------------

// The buffers are set before listen/connect, so the TCP window is small from the first
// segment on (the kernel rounds the values up to its minimum of a few KiB).
func sockBuf(opt int) func(network, address string, c syscall.RawConn) error {
	return func(network, address string, c syscall.RawConn) error {
		return c.Control(func(fd uintptr) { _ = syscall.SetsockoptInt(int(fd), syscall.SOL_SOCKET, opt, 2048) })
	}
}

func smallBufListen() (net.Listener, error) {
	lc := net.ListenConfig{Control: sockBuf(syscall.SO_SNDBUF)}
	return lc.Listen(context.Background(), "tcp", "127.0.0.1:0")
}

// ---- instrumented handler ---------------------------------------------------------------------------

type watchWriter struct {
	http.ResponseWriter
	st *handlerState
}

type handlerState struct {
	bytes     int64 // bytes the handler handed to Write
	writeErrs int64 // Writes that returned an error
	done      int32 // ServeHTTP returned
	panicked  atomic.Value
}

func (w watchWriter) Write(b []byte) (int, error) {
	n, err := w.ResponseWriter.Write(b)
	atomic.AddInt64(&w.st.bytes, int64(len(b)))
	if err != nil {
		atomic.AddInt64(&w.st.writeErrs, 1)
	}
	return n, err
}

func (w watchWriter) Flush() {
	if f, ok := w.ResponseWriter.(http.Flusher); ok {
		f.Flush()
	}
}

func (w watchWriter) Hijack() (net.Conn, *bufio.ReadWriter, error) {
	if h, ok := w.ResponseWriter.(http.Hijacker); ok {
		return h.Hijack()
	}
	return nil, nil, errors.New("response writer cannot be hijacked")
}

// failWriter accepts limit bytes, then fails like a connection whose peer is gone.
type failWriter struct {
	h      http.Header
	n      int
	limit  int
	failed bool
	onFail func()
	status int
	wrote  bool
}

var errPeerGone = errors.New("write tcp 127.0.0.1: write: broken pipe (scripted)")

func (f *failWriter) Header() http.Header { return f.h }
func (f *failWriter) WriteHeader(s int) {
	if !f.wrote { // like net/http: only the first status counts, a Write implies 200
		f.status, f.wrote = s, true
	}
}
func (f *failWriter) Write(b []byte) (int, error) {
	f.wrote = true
	if f.failed {
		return 0, errPeerGone
	}
	if f.n+len(b) > f.limit {
		k := f.limit - f.n
		f.n = f.limit
		f.failed = true
		if f.onFail != nil {
			f.onFail()
		}
		return k, errPeerGone
	}
	f.n += len(b)
	return len(b), nil
}

// ---- one attempt ---------------------------------------------------------------------------------------

type discOutcome struct {
	status         int
	respBytes      int64 // bytes the handler produced in total
	writeErrs      int64
	runningAtAbort bool // the handler had not returned when the consumer went away
	reachedDB      bool
	problem        error  // handler panic, no response where one was due
	leak           string // goroutines / result sets alive after the settle period
}

// settle waits until every goroutine with a qryn frame that was not there before is gone
// and every result set is closed; it returns a description of what is left after the bound.
func settle(before map[string]string, db *fakesql.DB) string {
	deadline := time.Now().Add(settleBound)
	sleep := time.Millisecond
	for {
		var extra []string
		for id, st := range census() {
			if _, ok := before[id]; !ok {
				extra = append(extra, st)
			}
		}
		open := db.OpenResultSets()
		if len(extra) == 0 && open == 0 {
			return ""
		}
		if time.Now().After(deadline) {
			sort.Strings(extra)
			var sb strings.Builder
			fmt.Fprintf(&sb, "%d goroutine(s) with qryn frames still alive and %d result set(s) still open %v after the request was over", len(extra), open, settleBound)
			for i, st := range extra {
				if i >= 4 {
					break
				}
				lines := strings.Split(st, "\n")
				if len(lines) > 14 {
					lines = lines[:14]
				}
				sb.WriteString("\n" + strings.Join(lines, "\n"))
			}
			return sb.String()
		}
		time.Sleep(sleep)
		if sleep < 50*time.Millisecond {
			sleep *= 2
		}
	}
}

func discAttempt(c discCase) discOutcome {
	var out discOutcome
	rdef := discRoutes[c.Route]
	sc := script{Series: rdef.series[c.Size], Rows: rdef.rows[c.Size], FP0: c.FP0, Wide: c.Wide, Vals: 0, Complexity: 7, Clean: true}
	var dbHits int64
	before := census()
	rd := readersvc.NewReader(func(ctx context.Context, q string, args []driver.NamedValue) (*fakesql.Result, error) {
		atomic.AddInt64(&dbHits, 1)
		return sc.answer(q), nil
	})
	st := &handlerState{}
	handler := http.HandlerFunc(func(w http.ResponseWriter, r *http.Request) {
		defer atomic.StoreInt32(&st.done, 1)
		rd.Handler.ServeHTTP(watchWriter{w, st}, r)
	})
	target := rdef.target(c)
	keepServer := false
	var srv *httptest.Server

	switch {
	case rdef.ws:
		srv = httptest.NewServer(handler)
		d := websocket.Dialer{HandshakeTimeout: 10 * time.Second}
		conn, resp, err := d.Dial("ws"+strings.TrimPrefix(srv.URL, "http")+target, nil)
		if err != nil {
			out.problem = fmt.Errorf("websocket handshake failed: %v", err)
			keepServer = true
			break
		}
		out.status = resp.StatusCode
		for i := 0; i < c.Abort; i++ {
			_ = conn.SetReadDeadline(time.Now().Add(10 * time.Second))
			if _, _, err := conn.ReadMessage(); err != nil {
				break
			}
		}
		out.runningAtAbort = atomic.LoadInt32(&st.done) == 0
		_ = conn.UnderlyingConn().Close() // no close frame: the peer just vanishes
	case c.Mode == 0:
		srv = httptest.NewUnstartedServer(handler)
		if l, err := smallBufListen(); err == nil {
			_ = srv.Listener.Close()
			srv.Listener = l
		}
		srv.Start()
		var cmu sync.Mutex
		var conns []net.Conn
		tr := &http.Transport{DisableKeepAlives: true, DisableCompression: true, DialContext: func(ctx context.Context, network, addr string) (net.Conn, error) {
			cn, err := (&net.Dialer{Control: sockBuf(syscall.SO_RCVBUF)}).DialContext(ctx, network, addr)
			cmu.Lock()
			conns = append(conns, cn)
			cmu.Unlock()
			return cn, err
		}}
		client := &http.Client{Transport: tr, Timeout: respDeadline}
		req, _ := http.NewRequest("GET", srv.URL+target, nil)
		if rdef.proto {
			req.Header.Set("Accept", "application/protobuf")
		}
		resp, err := client.Do(req)
		if err != nil {
			out.problem = fmt.Errorf("no HTTP response: %v", err)
			keepServer = true
			break
		}
		out.status = resp.StatusCode
		_, _ = io.CopyN(io.Discard, resp.Body, int64(c.Abort))
		out.runningAtAbort = atomic.LoadInt32(&st.done) == 0
		cmu.Lock()
		for _, cn := range conns {
			if tc, ok := cn.(*net.TCPConn); ok {
				_ = tc.SetLinger(0) // reset, as a killed client does
			}
			_ = cn.Close()
		}
		cmu.Unlock()
		_ = resp.Body.Close()
		tr.CloseIdleConnections()
	default:
		ctx, cancel := context.WithCancel(context.Background())
		req := httptest.NewRequest("GET", target, nil).WithContext(ctx)
		if rdef.proto {
			req.Header.Set("Accept", "application/protobuf")
		}
		fw := &failWriter{h: http.Header{}, limit: c.Abort, status: 200}
		if c.CancelOnErr {
			fw.onFail = cancel
		}
		func() {
			defer func() {
				if p := recover(); p != nil {
					out.problem = fmt.Errorf("handler panicked after the writer failed: %v", p)
				}
			}()
			handler.ServeHTTP(fw, req)
		}()
		cancel() // net/http cancels the request context when ServeHTTP returns
		out.status = fw.status
		out.runningAtAbort = fw.failed
	}

	out.leak = settle(before, rd.DB)
	out.respBytes = atomic.LoadInt64(&st.bytes)
	out.writeErrs = atomic.LoadInt64(&st.writeErrs)
	out.reachedDB = atomic.LoadInt64(&dbHits) > 0
	if srv != nil {
		if out.leak == "" && !keepServer {
			srv.Close()
		} else {
			srv.CloseClientConnections()
			_ = srv.Listener.Close()
		}
	}
	if out.leak == "" {
		rd.Close()
	}
	return out
}

func predDisc(c discCase, o *evid.Obs) error {
	if c.Route < 0 || c.Route >= len(discRoutes) || c.Size < 0 || c.Size > 2 || c.Abort < 0 {
		o.Discard("bad-case")
		return nil
	}
	restore := readersvc.Quiet()
	defer restore()
	out := discAttempt(c)
	rdef := discRoutes[c.Route]
	mode := []string{"tcp", "writer"}[c.Mode&1]
	if rdef.ws {
		mode = "ws"
	}
	o.Tag("route:"+rdef.name, "mode:"+mode, "abort:"+abortBucket(c), rdef.name+"@"+abortBucket(c), fmt.Sprintf("size:%d", c.Size))
	switch {
	case out.respBytes < 10000:
		o.Tag("produced:<10K")
	case out.respBytes < 100000:
		o.Tag("produced:<100K")
	case out.respBytes < 1000000:
		o.Tag("produced:<1M")
	default:
		o.Tag("produced:>=1M")
	}
	if out.writeErrs > 0 {
		o.Tag("handler-saw-write-errors", rdef.name+":saw-write-errors")
	}
	if out.runningAtAbort {
		o.Tag("producer-active-at-abort", rdef.name+":active-at-abort")
		if out.reachedDB {
			o.NonTrivial()
		}
	}
	if out.problem != nil {
		return fmt.Errorf("%s mode=%s abort=%d size=%d: %v", rdef.name, mode, c.Abort, c.Size, out.problem)
	}
	if out.status != 200 && out.status != 101 {
		return fmt.Errorf("harness: %s answered %d for a scripted successful result", rdef.name, out.status)
	}
	if out.leak != "" {
		again := discAttempt(c)
		if again.leak != "" {
			return fmt.Errorf("%s mode=%s abort=%d size=%d (handler produced %d bytes, %d failed writes): %s", rdef.name, mode, c.Abort, c.Size, again.respBytes, again.writeErrs, again.leak)
		}
		o.Tag("leak-not-reproduced")
	}
	return nil
}

func addDisc(r *evid.Run) {
	evid.Add(r, evid.Prop[discCase]{Name: "disconnect", Quick: 450, Thorough: 2000, Gen: genDisc, Pred: predDisc, WAL: true})
}

package c12

import (
	"context"
	"database/sql/driver"
	"errors"
	"fmt"
	"net"
	"net/http"
	"net/http/httptest"
	"net/url"
	"strings"
	"sync/atomic"
	"syscall"
	"time"

	"github.com/gorilla/websocket"
	"pgregory.net/rapid"

	"qrynverif/evid"
	"qrynverif/fakesql"
	"qrynverif/readersvc"
)

// ---- C12(d): the websocket tail route: stalled client, failing polls, disconnects -----------
//
// /loki/api/v1/tail upgrades to a websocket; QueryRangeService.Tail starts a poller that
// queries the database once per second (ticker) and sends one message per poll into an
// unbuffered channel; the handler loop forwards messages and pings to the websocket. A case
// is a short history:
//
//	Polls[i]  what the i-th database poll does: healthy rows, a row that cannot be scanned
//	          (NULL cell: the scanner forwards an error entry, the poller sends "]}}" and
//	          ends), QueryCtx error (the poller ends), driver error after K rows (looks like
//	          end of data to the scanner: the tail goes on), a poll that stalls 300 ms
//	Reads     messages the client reads before it stalls (stops reading, so the handler ends
//	          up inside a websocket write once the socket buffers - set to the minimum - are
//	          full; each healthy poll is a message of hundreds of KiB)
//	LeaveAt   the client drops the TCP connection (no close frame) LeaveDelayMs after the
//	          database has answered that many polls
//
// which covers: stalled client -> poll error -> disconnect; poll error first, then stall and
// disconnect; disconnect in the middle of a healthy (stalled) poll; several failing polls.
// Oracle as in `disconnect`: process alive; within the settle bound no goroutine with a qryn
// frame that belongs to the tail request is left (poller parked in its channel send, handler,
// watcher drain) and no result set is open; a leak must show again on the immediate second
// run. One case costs LeaveAt seconds (the poll interval is fixed at 1 s).

const (
	pollHealthy = iota
	pollScanErr
	pollQueryErr
	pollDriverErr
	pollSlow
	nPollKinds
)

var pollNames = []string{"H", "S", "Q", "D", "W"}

type tailCase struct {
	Polls        []int `json:"polls"`
	K            int   `json:"k"`    // row index of the failure inside a poll
	Rows         int   `json:"rows"` // rows per poll and series
	Series       int   `json:"series"`
	Reads        int   `json:"reads"`
	LeaveAt      int   `json:"leave_at"` // 1..3 polls answered
	LeaveDelayMs int   `json:"leave_delay_ms"`
}

func genTail(rt *rapid.T) tailCase {
	c := tailCase{
		K:            rapid.SampledFrom([]int{0, 1, 99, 100, 150}).Draw(rt, "k"),
		Rows:         rapid.SampledFrom([]int{5, 400, 2000}).Draw(rt, "rows"),
		Series:       rapid.IntRange(1, 3).Draw(rt, "series"),
		Reads:        rapid.SampledFrom([]int{0, 0, 1, 2}).Draw(rt, "reads"),
		LeaveAt:      rapid.SampledFrom([]int{1, 2, 2, 3}).Draw(rt, "leaveat"),
		LeaveDelayMs: rapid.SampledFrom([]int{0, 50, 150, 400}).Draw(rt, "leavedelay"),
	}
	switch rapid.SampledFrom([]int{0, 0, 0, 1, 1, 2, 3, 4, 5}).Draw(rt, "scenario") {
	case 0: // stalled client -> scan error -> disconnect
		c.Polls, c.Reads, c.LeaveAt, c.Rows = []int{pollHealthy, pollScanErr}, 0, 2, 2000
	case 1: // stalled client -> QueryCtx error -> disconnect
		c.Polls, c.Reads, c.LeaveAt, c.Rows = []int{pollHealthy, pollQueryErr}, 0, 2, 2000
	case 2: // error first, then stall and disconnect
		c.Polls = []int{rapid.SampledFrom([]int{pollScanErr, pollQueryErr}).Draw(rt, "firsterr"), pollHealthy}
	case 3: // disconnect while a healthy poll is under way
		c.Polls, c.LeaveAt = []int{pollHealthy, pollSlow}, 2
		c.LeaveDelayMs = rapid.SampledFrom([]int{0, 50}).Draw(rt, "slowleave")
	case 4: // several failing polls
		c.Polls = []int{pollDriverErr, pollDriverErr, rapid.SampledFrom([]int{pollDriverErr, pollScanErr, pollQueryErr}).Draw(rt, "thirderr")}
		c.LeaveAt = 3
	default:
		n := rapid.IntRange(1, 3).Draw(rt, "npolls")
		for i := 0; i < n; i++ {
			c.Polls = append(c.Polls, rapid.IntRange(0, nPollKinds-1).Draw(rt, "poll"))
		}
	}
	return c
}

var errTailPoll = errors.New("fakesql: scripted poll failure (connection reset by peer)")

type tailOutcome struct {
	polls     int
	messages  int
	handshake error
	leak      string
}

func tailAttempt(c tailCase) tailOutcome {
	var out tailOutcome
	sc := script{Series: c.Series, Rows: c.Rows, Vals: 0, Clean: true, Wide: c.Rows >= 400}
	var polls, answered int64
	before := census()
	rd := readersvc.NewReader(func(ctx context.Context, q string, args []driver.NamedValue) (*fakesql.Result, error) {
		res := sc.answer(q)
		if !strings.Contains(q, "prefinal.string as string") {
			return res, nil
		}
		i := int(atomic.AddInt64(&polls, 1)) - 1
		defer atomic.AddInt64(&answered, 1)
		kind := pollHealthy
		if i < len(c.Polls) {
			kind = c.Polls[i]
		}
		k := min(c.K, max(len(res.Rows)-1, 0))
		switch kind {
		case pollScanErr:
			if len(res.Rows) > 0 {
				row := append([]any(nil), res.Rows[k]...)
				row[0] = nil
				res.Rows[k] = row
			}
		case pollQueryErr:
			return nil, errTailPoll
		case pollDriverErr:
			res.FailAfter, res.NextErr = k, errTailPoll
		case pollSlow:
			gate := make(chan struct{})
			time.AfterFunc(300*time.Millisecond, func() { close(gate) })
			res.Gate = gate
		}
		return res, nil
	})
	srv := httptest.NewUnstartedServer(rd.Handler)
	if l, err := smallBufListen(); err == nil {
		_ = srv.Listener.Close()
		srv.Listener = l
	}
	srv.Start()
	d := websocket.Dialer{HandshakeTimeout: 10 * time.Second, NetDialContext: func(ctx context.Context, network, addr string) (net.Conn, error) {
		return (&net.Dialer{Control: sockBuf(syscall.SO_RCVBUF)}).DialContext(ctx, network, addr)
	}}
	conn, _, err := d.Dial("ws"+strings.TrimPrefix(srv.URL, "http")+"/loki/api/v1/tail?query="+url.QueryEscape(`{a="b"}`), http.Header{})
	if err != nil {
		out.handshake = err
	} else {
		for i := 0; i < c.Reads; i++ {
			_ = conn.SetReadDeadline(time.Now().Add(4 * time.Second))
			if _, _, err := conn.ReadMessage(); err != nil {
				break
			}
			out.messages++
		}
		// the client stalls: it does not read any more. It leaves once the database has
		// answered LeaveAt polls (bounded wait: the poller may have ended earlier)
		deadline := time.Now().Add(time.Duration(c.LeaveAt)*time.Second + 1500*time.Millisecond)
		for atomic.LoadInt64(&answered) < int64(c.LeaveAt) && time.Now().Before(deadline) {
			time.Sleep(10 * time.Millisecond)
		}
		time.Sleep(time.Duration(c.LeaveDelayMs) * time.Millisecond)
		if tc, ok := conn.UnderlyingConn().(*net.TCPConn); ok {
			_ = tc.SetLinger(0)
		}
		_ = conn.UnderlyingConn().Close()
	}
	out.leak = settle(before, rd.DB)
	out.polls = int(atomic.LoadInt64(&polls))
	if out.leak == "" && out.handshake == nil {
		srv.Close()
		rd.Close()
	} else {
		srv.CloseClientConnections()
		_ = srv.Listener.Close()
	}
	return out
}

func predTail(c tailCase, o *evid.Obs) error {
	if len(c.Polls) == 0 || len(c.Polls) > 4 || c.LeaveAt < 1 || c.LeaveAt > 4 || c.Rows < 0 || c.Rows > 5000 || c.Series < 1 || c.Series > 5 || c.Reads < 0 || c.Reads > 5 || c.K < 0 || c.LeaveDelayMs < 0 || c.LeaveDelayMs > 2000 {
		o.Discard("bad-case")
		return nil
	}
	for _, p := range c.Polls {
		if p < 0 || p >= nPollKinds {
			o.Discard("bad-case")
			return nil
		}
	}
	restore := readersvc.Quiet()
	defer restore()
	out := tailAttempt(c)
	seq := ""
	for i, p := range c.Polls {
		if i >= c.LeaveAt {
			break
		}
		seq += pollNames[p]
	}
	o.Tag("polls:"+seq, fmt.Sprintf("reads:%d", c.Reads), fmt.Sprintf("leave-at:%d", c.LeaveAt), fmt.Sprintf("polls-answered:%d", out.polls))
	if c.Rows >= 400 && c.Reads == 0 {
		o.Tag("client-stalled-on-large-message")
	}
	if strings.ContainsAny(seq, "SQD") {
		o.Tag("failing-poll")
	}
	if out.polls > 0 {
		o.NonTrivial()
	}
	desc := fmt.Sprintf("tail polls=%s k=%d rows=%dx%d reads=%d leave after poll %d +%dms", seq, c.K, c.Series, c.Rows, c.Reads, c.LeaveAt, c.LeaveDelayMs)
	if out.handshake != nil {
		return fmt.Errorf("%s: websocket handshake failed: %v", desc, out.handshake)
	}
	if out.leak != "" {
		again := tailAttempt(c)
		if again.leak != "" {
			return fmt.Errorf("%s: %s", desc, again.leak)
		}
		o.Tag("leak-not-reproduced")
	}
	return nil
}

func addTail(r *evid.Run) {
	evid.Add(r, evid.Prop[tailCase]{Name: "tail", Quick: 10, Thorough: 30, Gen: genTail, Pred: predTail, WAL: true})
}

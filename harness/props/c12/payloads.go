package c12

import (
	"context"
	"database/sql/driver"
	"fmt"
	"io"
	"net/http"
	"strings"

	common "go.opentelemetry.io/proto/otlp/common/v1"
	v1 "go.opentelemetry.io/proto/otlp/trace/v1"
	"google.golang.org/protobuf/proto"
	"pgregory.net/rapid"

	"qrynverif/evid"
	"qrynverif/fakesql"
	"qrynverif/readersvc"
)

// ---- C12(e): every span payload the writer accepts must be readable ---------------------------
//
// The writer stores a Zipkin span's JSON text AS SENT (writer/utils/unmarshal/zipkinJson
// Unmarshal.go: z.payload = the raw span) and only derives the id / time / name columns from
// it, and an OTLP span as proto.Marshal of the span it received. What it accepts (and
// therefore what the read path meets in `payload`):
//
//	traceId / id / parentId  JSON strings of 1+ characters; shorter than 32/16/16 digits are
//	                          left-padded, longer ones CUT to that length before hex decoding,
//	                          so 128-bit parent ids, odd lengths, upper case and any tail after
//	                          the first 16 digits of a parentId are stored verbatim
//	timestamp / duration      a number or a numeric string, or absent
//	name, localEndpoint.serviceName, tags   strings / object of anything (non-string tag
//	                          values are skipped, not rejected); each may be absent or empty
//	every other member        skipped without a look: kind, annotations, debug, shared, ipv4,
//	                          port ... of any JSON type, null included, nested, duplicated
//	OTLP                      any span with a 16-byte trace id and an 8-byte span id; parent
//	                          ids of any length, empty AnyValues, unknown enum values
//
// TempoService.OutputQuery decodes the payloads in a goroutine without recover: a panic
// there ends the process (write-ahead log). Oracle as in `request`: a complete response,
// process alive, goroutines and result sets settled.

type zSpan struct {
	TraceID   string   `json:"trace_id,omitempty"` // as sent
	ID        string   `json:"id,omitempty"`
	ParentID  *string  `json:"parent_id,omitempty"` // nil: member absent
	Name      *string  `json:"name,omitempty"`
	TsKind    int      `json:"ts_kind"` // 0 absent, 1 number, 2 numeric string, 3 huge
	Endpoint  int      `json:"endpoint"`
	Tags      int      `json:"tags"`
	Kind      int      `json:"kind"`
	Annos     int      `json:"annos"`
	Extra     int      `json:"extra"`
	OTLP      int      `json:"otlp"` // 0: Zipkin JSON; > 0: OTLP variant
	HostileS  evid.Str `json:"s"`
	HugeBytes int      `json:"huge,omitempty"`
}

type payloadCase struct {
	Proto bool    `json:"proto"` // Accept: application/protobuf
	Spans []zSpan `json:"spans"`
}

var hexIDs = []string{"1", "a", "A", "abc", "0123456789abcdef", "0123456789ABCDEF", "0123456789abcdef0", "0123456789abcdef0123456789abcdef",
	"0123456789abcdef0123456789ABCDEF01234567", "00000000000000000000000000000001", "ffffffffffffffff", "0123456789abcdefzz not hex any more", "0123456789abcdefü", "7"}

var endpointVariants = []string{
	``, // absent
	`{}`,
	`{"serviceName":"svc"}`,
	`{"serviceName":"","ipv4":"10.0.0.1","port":8080}`,
	`{"ipv4":1234,"ipv6":null,"port":"80"}`,
	`{"serviceName":"s","port":99999999999999999999,"ipv4":{"a":[1,2]}}`,
	`{"serviceName":"s","port":-1.5e3,"ipv6":["::1"]}`,
}

var tagVariants = []string{
	``, `{}`, `{"a":"b"}`, `{"http.method":"GET","n":1,"o":{"x":[1,{"y":null}]},"z":null,"t":true,"arr":["a"]}`,
	`{"":"","\u0000":"\u0001","a\"b":"c\\d","dup":"1","dup":"2"}`, `{"service.name":"from-tag","localEndpoint.serviceName":"x"}`,
}

var kindVariants = []string{``, `"CLIENT"`, `"client"`, `"SERVER"`, `"PRODUCER"`, `"CONSUMER"`, `"NOPE"`, `5`, `null`, `{}`, `["CLIENT"]`, `true`}

var annoVariants = []string{
	``, `[]`, `[{"timestamp":1700000000000000,"value":"ws"}]`, `[{"timestamp":"17","value":5},{"value":"no ts"},{"timestamp":-1},{"timestamp":1.5e30}]`,
	`[1,"x",null,[],{}]`, `{"timestamp":1,"value":"object not array"}`, `"str"`, `null`, `[{"timestamp":18446744073709551615,"value":"max"},{"timestamp":18446744073709551616}]`,
}

var extraVariants = []string{
	``, `"debug":true,"shared":null`, `"remoteEndpoint":{"serviceName":"remote","port":1}`, `"name":"second name","id":"ffff"`,
	`"deep":` + strings.Repeat(`{"a":[`, 40) + `1` + strings.Repeat(`]}`, 40), `"unicode key":"😀  "`, `"num":1e400,"neg":-0,"big":123456789012345678901234567890`,
}

func genPayloads(rt *rapid.T) payloadCase {
	c := payloadCase{Proto: rapid.IntRange(0, 2).Draw(rt, "proto") == 0}
	n := rapid.IntRange(1, 4).Draw(rt, "n")
	for i := 0; i < n; i++ {
		s := zSpan{
			TraceID:  rapid.SampledFrom(hexIDs).Draw(rt, "tid"),
			ID:       rapid.SampledFrom(hexIDs).Draw(rt, "id"),
			TsKind:   rapid.IntRange(0, 3).Draw(rt, "ts"),
			Endpoint: rapid.IntRange(0, len(endpointVariants)-1).Draw(rt, "ep"),
			Tags:     rapid.IntRange(0, len(tagVariants)-1).Draw(rt, "tags"),
			Kind:     rapid.IntRange(0, len(kindVariants)-1).Draw(rt, "kind"),
			Annos:    rapid.IntRange(0, len(annoVariants)-1).Draw(rt, "annos"),
			Extra:    rapid.IntRange(0, len(extraVariants)-1).Draw(rt, "extra"),
		}
		if rapid.IntRange(0, 4).Draw(rt, "hasparent") != 0 {
			p := rapid.SampledFrom(hexIDs).Draw(rt, "pid")
			s.ParentID = &p
		}
		if rapid.IntRange(0, 4).Draw(rt, "hasname") != 0 {
			nm := rapid.SampledFrom([]string{"", "op", "GET /x", "quo\"te\\ \u0001", "\U0001F600"}).Draw(rt, "name")
			s.Name = &nm
		}
		if rapid.IntRange(0, 3).Draw(rt, "otlp") == 0 {
			s.OTLP = rapid.IntRange(1, 6).Draw(rt, "otlpkind")
		}
		if rapid.IntRange(0, 3).Draw(rt, "hostile") == 0 {
			s.HostileS = evid.Str(rapid.SampledFrom(strPalette).Draw(rt, "hs"))
		}
		if rapid.IntRange(0, 9).Draw(rt, "huge") == 0 {
			s.HugeBytes = rapid.SampledFrom([]int{70000, 300000, 2000000}).Draw(rt, "hugelen")
		}
		c.Spans = append(c.Spans, s)
	}
	return c
}

func jq(s string) string { // a JSON string literal
	var sb strings.Builder
	sb.WriteByte('"')
	for _, r := range s {
		switch {
		case r == '"' || r == '\\':
			sb.WriteByte('\\')
			sb.WriteRune(r)
		case r < 0x20:
			fmt.Fprintf(&sb, `\u%04x`, r)
		default:
			sb.WriteRune(r)
		}
	}
	sb.WriteByte('"')
	return sb.String()
}

// payload renders the stored payload and its type (1 Zipkin JSON, 2 OTLP).
func (s zSpan) payload(i int) (int8, string) {
	if s.OTLP > 0 {
		sp := &v1.Span{TraceId: []byte("0123456789abcdef"), SpanId: []byte(fmt.Sprintf("%08d", i)), Name: "op", StartTimeUnixNano: 5, EndTimeUnixNano: 9,
			Attributes: []*common.KeyValue{{Key: "service.name", Value: &common.AnyValue{Value: &common.AnyValue_StringValue{StringValue: "svc"}}}}}
		switch s.OTLP {
		case 1: // the ids inside the payload are empty (the columns carry them)
			sp.TraceId, sp.SpanId = nil, nil
		case 2: // parent ids of odd lengths
			sp.ParentSpanId = []byte("0123456789abcdef0123")[:1+i*7%20]
		case 3: // empty AnyValue, nested empties, unknown enum values
			sp.Attributes = append(sp.Attributes, &common.KeyValue{Key: "empty", Value: &common.AnyValue{}}, &common.KeyValue{Key: "", Value: &common.AnyValue{Value: &common.AnyValue_ArrayValue{ArrayValue: &common.ArrayValue{}}}},
				&common.KeyValue{Key: "kv", Value: &common.AnyValue{Value: &common.AnyValue_KvlistValue{KvlistValue: &common.KeyValueList{Values: []*common.KeyValue{{Key: "inner"}}}}}})
			sp.Kind = v1.Span_SpanKind(99)
			sp.Status = &v1.Status{Code: v1.Status_StatusCode(77), Message: "m"}
		case 4: // events, links, end before start
			sp.Events = []*v1.Span_Event{{Name: "e", TimeUnixNano: 1}, {}}
			sp.Links = []*v1.Span_Link{{TraceId: []byte("x"), SpanId: nil}}
			sp.StartTimeUnixNano, sp.EndTimeUnixNano = 1<<63+5, 3
		case 5: // no service.name, duplicate keys
			sp.Attributes = []*common.KeyValue{{Key: "a", Value: &common.AnyValue{Value: &common.AnyValue_IntValue{IntValue: 1}}}, {Key: "a", Value: &common.AnyValue{Value: &common.AnyValue_BoolValue{BoolValue: true}}}}
		case 6: // very large attribute
			sp.Attributes = append(sp.Attributes, &common.KeyValue{Key: "big", Value: &common.AnyValue{Value: &common.AnyValue_StringValue{StringValue: strings.Repeat("x", max(s.HugeBytes, 70000))}}})
		}
		b, _ := proto.Marshal(sp)
		return 2, string(b)
	}
	var m []string
	m = append(m, `"traceId":`+jq(s.TraceID), `"id":`+jq(s.ID))
	if s.ParentID != nil {
		m = append(m, `"parentId":`+jq(*s.ParentID))
	}
	if s.Name != nil {
		m = append(m, `"name":`+jq(*s.Name))
	}
	switch s.TsKind {
	case 1:
		m = append(m, `"timestamp":1700000000000000`, `"duration":1500`)
	case 2:
		m = append(m, `"timestamp":"1700000000000000"`, `"duration":"1500"`)
	case 3:
		m = append(m, `"timestamp":9223372036854775`, `"duration":"9223372036854775"`)
	}
	if v := endpointVariants[s.Endpoint%len(endpointVariants)]; v != "" {
		m = append(m, `"localEndpoint":`+v)
	}
	tags := tagVariants[s.Tags%len(tagVariants)]
	if s.HugeBytes > 0 {
		tags = `{"huge":"` + strings.Repeat("h", s.HugeBytes) + `","a":"b"}`
	}
	if tags != "" {
		m = append(m, `"tags":`+tags)
	}
	if v := kindVariants[s.Kind%len(kindVariants)]; v != "" {
		m = append(m, `"kind":`+v)
	}
	if v := annoVariants[s.Annos%len(annoVariants)]; v != "" {
		m = append(m, `"annotations":`+v)
	}
	if v := extraVariants[s.Extra%len(extraVariants)]; v != "" {
		m = append(m, v)
	}
	if s.HostileS != "" {
		m = append(m, `"x":`+jq(string(s.HostileS)))
	}
	return 1, "{" + strings.Join(m, ",") + "}"
}

// writerTakesHex mirrors zipkinDecoderV2.decodeHexStr: non-empty, left-padded to leng or cut
// to leng, and those leng characters must be hex digits.
func writerTakesHex(h string, leng int) bool {
	if h == "" {
		return false
	}
	if len(h) > leng {
		h = h[:leng]
	}
	for i := 0; i < len(h); i++ {
		c := h[i]
		if !(c >= '0' && c <= '9' || c >= 'a' && c <= 'f' || c >= 'A' && c <= 'F') {
			return false
		}
	}
	return true
}

type payloadOutcome struct {
	status int
	noResp error
	leak   string
}

func payloadAttempt(c payloadCase) payloadOutcome {
	var out payloadOutcome
	var rows [][]any
	for i, s := range c.Spans {
		pt, p := s.payload(i)
		parent := ""
		if s.ParentID != nil {
			parent = "\x01\x23\x45\x67\x89\xab\xcd\xef" // the writer stores the decoded 8 bytes
		}
		// trace_id FixedString(16), span_id FixedString(8): the writer's normalised columns
		rows = append(rows, []any{"0123456789abcdef", fmt.Sprintf("%08d", i), parent, int64(1700000000000000000 + i), int64(1500000), pt, p})
	}
	before := census()
	rd := readersvc.NewReader(func(ctx context.Context, q string, args []driver.NamedValue) (*fakesql.Result, error) {
		if fakesql.IsVersionQuery(q) {
			return fakesql.AnswerVersion(q), nil
		}
		return fakesql.Rows(nil, rows...), nil
	})
	srv := rd.Serve()
	tr := &http.Transport{DisableKeepAlives: true}
	client := &http.Client{Transport: tr, Timeout: respDeadline}
	req, _ := http.NewRequest("GET", srv.URL+"/api/traces/30313233343536373839616263646566", nil)
	if c.Proto {
		req.Header.Set("Accept", "application/protobuf")
	}
	resp, err := client.Do(req)
	if err != nil {
		out.noResp = fmt.Errorf("no HTTP response: %v", err)
	} else {
		out.status = resp.StatusCode
		if _, rerr := io.Copy(io.Discard, resp.Body); rerr != nil {
			out.noResp = fmt.Errorf("response aborted after the status line (%d): %v", resp.StatusCode, rerr)
		}
		_ = resp.Body.Close()
	}
	tr.CloseIdleConnections()
	out.leak = settle(before, rd.DB)
	if out.leak == "" && out.noResp == nil {
		srv.Close()
		rd.Close()
	} else {
		srv.CloseClientConnections()
		_ = srv.Listener.Close()
	}
	return out
}

func predPayloads(c payloadCase, o *evid.Obs) error {
	if len(c.Spans) == 0 || len(c.Spans) > 16 {
		o.Discard("bad-case")
		return nil
	}
	for _, s := range c.Spans {
		if s.TraceID == "" || s.ID == "" || s.HugeBytes < 0 || s.HugeBytes > 4000000 || s.OTLP < 0 || s.OTLP > 6 ||
			s.Endpoint < 0 || s.Tags < 0 || s.Kind < 0 || s.Annos < 0 || s.Extra < 0 || s.TsKind < 0 {
			o.Discard("not-accepted-by-the-writer") // empty id strings are rejected with 400
			return nil
		}
	}
	for _, s := range c.Spans {
		if s.OTLP == 0 && (!writerTakesHex(s.TraceID, 32) || !writerTakesHex(s.ID, 16) || (s.ParentID != nil && !writerTakesHex(*s.ParentID, 16))) {
			o.Discard("not-accepted-by-the-writer")
			return nil
		}
	}
	restore := readersvc.Quiet()
	defer restore()
	out := payloadAttempt(c)
	o.Tag(fmt.Sprintf("accept-protobuf:%v", c.Proto))
	for _, s := range c.Spans {
		if s.OTLP > 0 {
			o.Tag(fmt.Sprintf("otlp:%d", s.OTLP))
			continue
		}
		o.Tag("zipkin")
		if s.ParentID != nil {
			switch l := len(*s.ParentID); {
			case l < 16:
				o.Tag("parentId:<16")
			case l == 16:
				o.Tag("parentId:16")
			default:
				o.Tag("parentId:>16")
			}
		} else {
			o.Tag("parentId:absent")
		}
		if s.HugeBytes > 0 {
			o.Tag("huge-tag-value")
		}
	}
	if out.status != 0 {
		o.Tag(fmt.Sprintf("status:%dxx", out.status/100))
	}
	o.NonTrivial()
	if out.noResp != nil {
		return fmt.Errorf("trace by id over %d stored payloads: %v", len(c.Spans), out.noResp)
	}
	if out.leak != "" {
		if again := payloadAttempt(c); again.leak != "" {
			return fmt.Errorf("trace by id over %d stored payloads: %s", len(c.Spans), again.leak)
		}
		o.Tag("leak-not-reproduced")
	}
	return nil
}

func addPayloads(r *evid.Run) {
	evid.Add(r, evid.Prop[payloadCase]{Name: "payloads", Quick: 600, Thorough: 3000, Gen: genPayloads, Pred: predPayloads, WAL: true})
}

package c12

import (
	"testing"

	"qrynverif/evid"
)

func TestProp(t *testing.T) {
	r := evid.New(t, "C12", evid.Config{
		Level: "exploration",
		Rule:  "generated requests (grammar / mutated / random-byte queries, hostile start/end/step/limit/time, result-set scripts, database faults, client going away) against the real reader route table on a loopback HTTP server; non-trivial: the request reached the database (a planner produced SQL or a row scanner ran), i.e. it was not rejected by parameter parsing",
		Assumptions: []string{
			"result rows have the column types and row order the generated SQL guarantees (see C15); sizes up to 5000 rows",
			"a response must arrive within 45 s (>= 1000 x the normal latency); goroutines with a qryn frame and open result sets must be gone within 4 s after the request ended; dbVersion's 10 s cache-reset sleeper is ignored; a leak is reported only when it shows again on an immediate second run of the same case",
			"midfail: the main statement of streams / matrix / vector / Prometheus / trace routes (SQL path and in-process pipelines) fails at row k, k in {0,1,99,100,101,150,250,1000}, as a driver error, a row the scanner cannot scan (NULL cell) or an unparsable log line",
			"tail: websocket tail histories (healthy / NULL-cell / QueryCtx-error / driver-error / slow polls, a client that stops reading and later drops the connection); a handful of cases per run because the poll interval is fixed at 1 s",
			"payloads: stored span payloads are whatever the writer accepts (Zipkin JSON as sent: ids of 1-40+ characters, absent/odd members, any JSON type in the members the writer skips; OTLP spans with 16/8-byte id columns), not what a well-behaved tracer sends",
			"disconnect: every streaming read route with result sets of hundreds to tens of thousands of rows; the consumer goes away after k body bytes (tcp reset with minimal socket buffers, or a ResponseWriter that starts failing, or a dropped websocket on the tail route); non-trivial there: the producer was still active when the consumer went away",
		},
	})
	addReq(r)
	addDisc(r)
	addMid(r)
	addTail(r)
	addPayloads(r)
	r.Main()
}

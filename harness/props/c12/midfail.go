package c12

import (
	"context"
	"database/sql/driver"
	"errors"
	"fmt"
	"io"
	"net/http"
	"net/url"
	"strings"
	"sync/atomic"

	"pgregory.net/rapid"

	"qrynverif/evid"
	"qrynverif/fakesql"
	"qrynverif/readersvc"
)

// ---- C12(c): the database fails midway, after k rows, k across scanner-batch multiples --------
//
// The scanners hand rows on in batches of 100 (planner_clickhouse_getter.go). A failure that
// arrives after one or more full batches meets a pipeline whose stages hold state: a series
// is open in the fix-period stage, the writer has an object open, aggregators hold buckets.
// If an error entry is forwarded while the producers still have something to flush and the
// writer stops reading, the producers stay parked on their channel send for ever.
//
// k is drawn from {0, 1, 99, 100, 101, 150, 250, 1000}; the result set has k + extra rows in
// 1-3 series, so the failing row lies inside a series. Failure kinds at row k of the main
// statement:
//
//	driver   rows.Next fails (fakesql FailAfter): connection lost, ClickHouse exception
//	scan     the row cannot be scanned (a cell the scanner's destination cannot take, e.g. a
//	         NULL): rows.Scan returns an error, the scanner forwards an error entry
//	line     (in-process routes) the k-th log line is not parsable by the in-process stage
//
// Oracle as in `request`: a complete HTTP response (of any status) within the deadline,
// process alive, afterwards no goroutine with a qryn frame started for the request and no
// open result set; a leak must show again on the immediate second run.

type midCase struct {
	Route  int  `json:"route"`
	Kind   int  `json:"kind"` // 0 driver, 1 scan, 2 line
	K      int  `json:"k"`
	Extra  int  `json:"extra"`
	Series int  `json:"series"`
	FP0    bool `json:"fp0"`
}

type midRoute struct {
	name      string
	inProcess bool
	json      bool // pipeline parses JSON lines
	target    func(rows int) string
	proto     bool
	poisonCol int // column that gets an unscannable value
	perSeries bool
}

func lokiEnd(rows int) string {
	// log rows are 1 s apart, metric rows 60 s: keep every row inside the window
	return fmt.Sprintf("&start=1699999980000000000&end=%d", int64(1699999980+60*(rows+2))*1000000000)
}

var midRoutes = []midRoute{
	{name: "loki-streams", perSeries: true, target: func(r int) string {
		return "/loki/api/v1/query_range?limit=100000&query=" + url.QueryEscape(`{a="b"}`) + lokiEnd(r)
	}},
	{name: "loki-streams-pipeline", inProcess: true, perSeries: true, target: func(r int) string {
		return "/loki/api/v1/query_range?limit=100000&query=" + url.QueryEscape(`{a="b"} | logfmt | freq >= 2`) + lokiEnd(r)
	}},
	{name: "loki-streams-json-pipeline", inProcess: true, json: true, perSeries: true, target: func(r int) string {
		return "/loki/api/v1/query_range?limit=100000&query=" + url.QueryEscape(`{a="b"} | json | n >= 0`) + lokiEnd(r)
	}},
	{name: "loki-matrix", perSeries: true, target: func(r int) string {
		return "/loki/api/v1/query_range?step=60&query=" + url.QueryEscape(`rate({a="b"}[1m])`) + lokiEnd(r)
	}},
	{name: "loki-matrix-pipeline", inProcess: true, perSeries: true, target: func(r int) string {
		return "/loki/api/v1/query_range?step=60&query=" + url.QueryEscape(`sum by (test_id) (count_over_time({a="b"} | logfmt [1m]))`) + lokiEnd(r)
	}},
	{name: "loki-matrix-unwrap-pipeline", inProcess: true, json: true, perSeries: true, target: func(r int) string {
		return "/loki/api/v1/query_range?step=60&query=" + url.QueryEscape(`sum_over_time({a="b"} | json | unwrap n [1m]) by (test_id)`) + lokiEnd(r)
	}},
	{name: "loki-vector", perSeries: true, target: func(r int) string {
		return "/loki/api/v1/query?step=60&time=1700000280000000000&query=" + url.QueryEscape(`rate({a="b"}[1m])`)
	}},
	{name: "loki-vector-pipeline", inProcess: true, perSeries: true, target: func(r int) string {
		return "/loki/api/v1/query?step=60&time=1700000280000000000&query=" + url.QueryEscape(`sum by (test_id) (count_over_time({a="b"} | logfmt [1m]))`)
	}},
	{name: "prom-query_range", perSeries: true, target: func(r int) string {
		return fmt.Sprintf("/api/v1/query_range?start=1700000000&end=%d&step=15&query=%s", 1700000000+15*(r+1), url.QueryEscape(`{a="b"}`))
	}},
	{name: "prom-query", perSeries: true, target: func(r int) string {
		return "/api/v1/query?time=1700000000&query=" + url.QueryEscape(`{a="b"}[5m]`)
	}},
	{name: "tempo-trace-json", poisonCol: 3, target: func(r int) string { return "/api/traces/0123456789abcdef0123456789abcdef" }},
	{name: "tempo-trace-protobuf", proto: true, poisonCol: 3, target: func(r int) string { return "/api/traces/0123456789abcdef0123456789abcdef" }},
	{name: "tempo-search-traceql", poisonCol: 4, target: func(r int) string {
		return "/api/search?start=1700000000&end=1700007200&limit=100000&q=" + url.QueryEscape(`{.a="b"}`)
	}},
}

var midKs = []int{0, 1, 99, 100, 101, 150, 250, 1000}

func genMid(rt *rapid.T) midCase {
	c := midCase{
		Route:  int(rapid.Uint64().Draw(rt, "route") % uint64(len(midRoutes))),
		K:      rapid.SampledFrom(midKs).Draw(rt, "k"),
		Extra:  rapid.SampledFrom([]int{0, 1, 50, 150}).Draw(rt, "extra"),
		Series: rapid.IntRange(1, 3).Draw(rt, "series"),
		FP0:    rapid.IntRange(0, 3).Draw(rt, "fp0") == 0,
	}
	c.Kind = rapid.IntRange(0, 1).Draw(rt, "kind")
	if midRoutes[c.Route].inProcess && rapid.IntRange(0, 2).Draw(rt, "linekind") == 0 {
		c.Kind = 2
	}
	return c
}

var errMid = errors.New("fakesql: scripted failure after k rows (code: 159, e.displayText() = DB::Exception: Timeout exceeded)")

// isMain recognises the statement whose rows feed the response.
func isMain(q string) bool {
	return strings.Contains(q, "prefinal.") || strings.Contains(q, "as timestamp_ms") || strings.Contains(q, "FROM raw ORDER BY timestamp_ns") || strings.Contains(q, "lower(hex(traces.trace_id))")
}

type midOutcome struct {
	status    int
	delivered bool // the main statement returned more than k rows' worth of result, failure armed
	noResp    error
	leak      string
}

func midAttempt(c midCase) midOutcome {
	var out midOutcome
	rdef := midRoutes[c.Route]
	total := c.K + c.Extra + 1
	sc := script{Series: c.Series, FP0: c.FP0, Vals: 0, Complexity: 7, Clean: true}
	if rdef.perSeries {
		sc.Rows = (total + c.Series - 1) / c.Series
	} else {
		sc.Series, sc.Rows = 1, total
		if rdef.name == "tempo-search-traceql" {
			sc.Series, sc.Rows = total, 50
		}
	}
	if rdef.name == "prom-query" && sc.Rows > 18 {
		// raw samples of the last 5 minutes, 15 s apart: more series instead of more rows
		sc.Series, sc.Rows = (total+17)/18, 18
	}
	var armed int32
	before := census()
	rd := readersvc.NewReader(func(ctx context.Context, q string, args []driver.NamedValue) (*fakesql.Result, error) {
		res := sc.answer(q)
		if !isMain(q) || len(res.Rows) == 0 {
			return res, nil
		}
		if rdef.json && len(res.Cols) > 2 && res.Cols[2] == "string" {
			for i := range res.Rows {
				res.Rows[i][2] = fmt.Sprintf(`{"level":"info","n":%d,"msg":"hello"}`, i%7)
			}
		}
		if rdef.name == "prom-query" {
			// raw samples inside (time-5m, time], ascending inside every series
			for i := range res.Rows {
				idx := i % sc.Rows
				res.Rows[i][2] = int64(1700000000000) - int64(sc.Rows-1-idx)*15000
			}
		}
		if c.K >= len(res.Rows) {
			return res, nil
		}
		atomic.StoreInt32(&armed, 1)
		switch c.Kind {
		case 0:
			res.FailAfter, res.NextErr = c.K, errMid
		case 1:
			row := append([]any(nil), res.Rows[c.K]...)
			row[rdef.poisonCol] = nil // NULL: no scanner destination of these statements takes it
			res.Rows[c.K] = row
		case 2:
			if len(res.Cols) > 2 && res.Cols[2] == "string" {
				row := append([]any(nil), res.Rows[c.K]...)
				row[2] = `{"level":"info","n":` // cut off in the middle: not JSON, not logfmt
				res.Rows[c.K] = row
			}
		}
		return res, nil
	})
	srv := rd.Serve()
	tr := &http.Transport{DisableKeepAlives: true}
	client := &http.Client{Transport: tr, Timeout: respDeadline}
	req, _ := http.NewRequest("GET", srv.URL+rdef.target(sc.Rows), nil)
	if rdef.proto {
		req.Header.Set("Accept", "application/protobuf")
	}
	resp, err := client.Do(req)
	if err != nil {
		out.noResp = fmt.Errorf("no HTTP response: %v", err)
	} else {
		out.status = resp.StatusCode
		if _, rerr := io.Copy(io.Discard, resp.Body); rerr != nil {
			out.noResp = fmt.Errorf("response aborted after the status line (%d): %v", resp.StatusCode, rerr)
		}
		_ = resp.Body.Close()
	}
	tr.CloseIdleConnections()
	out.leak = settle(before, rd.DB)
	out.delivered = atomic.LoadInt32(&armed) == 1
	if out.leak == "" && out.noResp == nil {
		srv.Close()
		rd.Close()
	} else {
		srv.CloseClientConnections()
		_ = srv.Listener.Close()
	}
	return out
}

func predMid(c midCase, o *evid.Obs) error {
	if c.Route < 0 || c.Route >= len(midRoutes) || c.K < 0 || c.Extra < 0 || c.Series < 1 || c.Series > 50 || c.Kind < 0 || c.Kind > 2 {
		o.Discard("bad-case")
		return nil
	}
	restore := readersvc.Quiet()
	defer restore()
	out := midAttempt(c)
	rdef := midRoutes[c.Route]
	kind := []string{"driver", "scan", "line"}[c.Kind]
	o.Tag("route:"+rdef.name, "kind:"+kind, fmt.Sprintf("k:%d", c.K), fmt.Sprintf("%s@k=%d", rdef.name, c.K), rdef.name+"/"+kind)
	if out.status != 0 {
		o.Tag(fmt.Sprintf("status:%dxx", out.status/100), fmt.Sprintf("%s:status:%dxx", kind, out.status/100))
	}
	if out.delivered {
		o.Tag("failure-armed")
		if c.K >= 100 {
			o.Tag("failure-after-full-batch")
		}
		o.NonTrivial()
	}
	desc := fmt.Sprintf("%s kind=%s k=%d extra=%d series=%d", rdef.name, kind, c.K, c.Extra, c.Series)
	if out.noResp != nil {
		return fmt.Errorf("%s: %v", desc, out.noResp)
	}
	if out.leak != "" {
		again := midAttempt(c)
		if again.leak != "" {
			return fmt.Errorf("%s: %s", desc, again.leak)
		}
		o.Tag("leak-not-reproduced")
	}
	return nil
}

func addMid(r *evid.Run) {
	evid.Add(r, evid.Prop[midCase]{Name: "midfail", Quick: 500, Thorough: 2500, Gen: genMid, Pred: predMid, WAL: true})
}

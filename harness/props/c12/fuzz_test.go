package c12

import (
	"context"
	"database/sql/driver"
	"net/http/httptest"
	"net/url"
	"testing"
	"time"

	"qrynverif/fakesql"
	"qrynverif/readersvc"
)

// Native fuzz targets of the three query front ends (thorough tier). Each target parses,
// plans and executes the query over a small scripted database and drains the result, so
// the oracle is C12's: no panic (in this goroutine or in one qryn started: that kills the
// fuzz worker and is reported as a crasher), and completion within a bound.

var fuzzScript = script{Series: 2, Rows: 3, Vals: 0, Complexity: 7}

func fuzzReader() *readersvc.Reader {
	return readersvc.NewReader(func(ctx context.Context, q string, args []driver.NamedValue) (*fakesql.Result, error) {
		return fuzzScript.answer(q), nil
	})
}

// bounded runs f in the calling goroutine (so a panic that escapes qryn's handlers is
// attributed to the input) under a watchdog.
func bounded(t *testing.T, what string, f func()) {
	wd := time.AfterFunc(40*time.Second, func() { // above the 30 s PromQL engine timeout
		panic("C12: " + what + " did not finish within 40 s")
	})
	defer wd.Stop()
	f()
}

func FuzzLogQL(f *testing.F) {
	for _, q := range []string{
		`{a="b"}`, `{a="b", c=~"d.*"} |= "x" != "y" |~ "z.+"`, `rate({a="b"} |~ "2[0-9]$" [1s])`,
		`sum by (test_id) (rate({test_id="x"} |~ "2[0-9]$" [1s]))`, `{a="b"}|json`, `{a="b"}|json lbl_repl="new_lbl"|lbl_repl="new_val"`,
		`sum_over_time({a="b"}|json|lbl_repl="REPL"|unwrap int_lbl [3s]) by (test_id, lbl_repl)`,
		`{a="b"}| line_format "{ \"str\":\"{{_entry}}\", \"freq2\": {{divide freq 2}} }"`,
		`rate({a="b"}| line_format "{{ divide int_lbl 2  }}" | unwrap _entry [1s])`, `sum(rate({a="b"}| json [5s])) by (test_id)`,
		`rate({a="b"} [1s]) == 2`, `sum(rate({a="b"} [1s])) by (test_id) > 4`, `{a="b"} | freq >= 4`,
		`{a="b"} | regexp "^(?<e>[^0-9]+)[0-9]+$"`, `first_over_time({a="b", freq="0.5"} | regexp "^[^0-9]+(?<e>[0-9]+)$" | unwrap e [1s]) by(test_id)`,
		`{a="b"} | freq > 1 and (freq="4" or freq==2 or freq > 0.5)`, `{a="b"} | json | drop a, b, __C__, d="e"`,
		`topk(3, rate({a="b"}[1m]))`, `quantile_over_time(0.5, {a="b"} | unwrap freq [1m]) by (a)`, `{a="b"} | logfmt | label_format x="y"`,
		`absent_over_time({a="b"}[5m])`, "{a=`b`}",
	} {
		f.Add(q)
	}
	f.Fuzz(func(t *testing.T, q string) {
		restore := readersvc.Quiet()
		defer restore()
		rd := fuzzReader()
		defer rd.Close()
		bounded(t, "LogQL query_range", func() {
			e := url.QueryEscape(q)
			// through the real handlers (their deferred tamePanic is part of the read side)
			for _, p := range []string{
				"/loki/api/v1/query_range?start=1700000000000000000&end=1700000100000000000&step=15&limit=100&direction=forward&query=",
				"/loki/api/v1/query_range?start=1700000000000000000&end=1700000100000000000&step=15&limit=100&query=",
				"/loki/api/v1/query?time=1700000100000000000&step=15&query=",
				"/loki/api/v1/series?match[]=", "/loki/api/v1/label/a/values?match[]=",
			} {
				rd.Do(httptest.NewRequest("GET", p+e, nil))
			}
		})
	})
}

func FuzzTraceQL(f *testing.F) {
	for _, q := range []string{
		`{.a="b"}`, `{}`, `{.randomContainer=~"admiring" && .randomFloat > 10}`,
		`{.randomContainer=~"admiring" && .randomFloat > 10} | count() > 2 || {.randomContainer=~"boring" && .randomFloat < 10}`,
		`{duration > 1s}`, `{name = "x" && (.a = 1 || .b != 2.5)}`, `{.a =~ "x.*"} | avg(duration) > 10ms`, `{ span.foo = "bar" } && { resource.service.name != "x" }`,
		"{.a=`t`}", `{.a > -1}`,
	} {
		f.Add(q)
	}
	f.Fuzz(func(t *testing.T, q string) {
		restore := readersvc.Quiet()
		defer restore()
		rd := fuzzReader()
		defer rd.Close()
		bounded(t, "TraceQL search", func() {
			e := url.QueryEscape(q)
			for _, p := range []string{"/api/search?start=1700000000&end=1700000100&limit=20&q=",
				"/api/v2/search/tags?start=1700000000&end=1700000100&q=", "/api/v2/search/tag/foo/values?start=1700000000&end=1700000100&q="} {
				rd.Do(httptest.NewRequest("GET", p+e, nil))
			}
		})
	})
}

func FuzzPromQL(f *testing.F) {
	for _, q := range []string{
		`up`, `up{job="x",instance=~"a.*"}`, `rate(http_requests_total{job="x"}[5m])`, `sum by (job) (rate(http_requests_total[5m]))`,
		`histogram_quantile(0.9, sum by (le) (rate(x_bucket[5m])))`, `up == 1`, `scalar(up)`, `1`, `vector(1)`, `time()`,
		`max_over_time(rate(x[1m])[5m:1m])`, `up offset 5m`, `label_replace(up, "a", "$1", "job", "(.*)")`, `{__name__=~"a.+"}`, `topk(3, up)`,
		`absent(up)`, `avg_over_time(up[1h])`, `up / on(job) group_left x`,
	} {
		f.Add(q)
	}
	f.Fuzz(func(t *testing.T, q string) {
		restore := readersvc.Quiet()
		defer restore()
		rd := fuzzReader()
		defer rd.Close()
		bounded(t, "PromQL query", func() {
			e := url.QueryEscape(q)
			for _, p := range []string{
				"/api/v1/query?time=1700000100&query=",
				"/api/v1/query_range?start=1700000000&end=1700000100&step=15&query=",
				"/api/v1/series?start=1700000000&end=1700000100&match[]=",
				"/api/v1/label/job/values?start=1700000000&end=1700000100&match[]=",
			} {
				rd.Do(httptest.NewRequest("GET", p+e, nil))
			}
		})
	})
}

package c12

import (
	"bytes"
	"context"
	"database/sql/driver"
	"encoding/hex"
	"errors"
	"fmt"
	"io"
	"math"
	"net/http"
	"net/url"
	"runtime"
	"sort"
	"strconv"
	"strings"
	"sync"
	"sync/atomic"
	"time"

	common "go.opentelemetry.io/proto/otlp/common/v1"
	v1 "go.opentelemetry.io/proto/otlp/trace/v1"
	"google.golang.org/protobuf/proto"
	"pgregory.net/rapid"

	"qrynverif/evid"
	"qrynverif/fakesql"
	"qrynverif/readersvc"
)

// ---- the case ----------------------------------------------------------------------------------

type fault struct {
	Kind    int  `json:"kind"` // 0 none, 1 QueryCtx error, 2 error after K rows, 3 stall then error, 4 stall then rows
	Stmt    int  `json:"stmt"` // ordinal of the statement it hits, counted among the version lookups (Version) or among the other statements
	Version bool `json:"version"`
	K       int  `json:"k"`
	StallMs int  `json:"stall_ms"`
}

type script struct {
	Series     int   `json:"series"`
	Rows       int   `json:"rows"` // per series
	FP0        bool  `json:"fp0"`
	Wide       bool  `json:"wide"` // ~1 KiB lines: response larger than the socket buffers
	Vals       int   `json:"vals"`
	Complexity int64 `json:"complexity"`
	// Clean: well-formed logfmt lines only and a distinct label set per series (disconnect check)
	Clean bool `json:"clean,omitempty"`
}

type reqCase struct {
	Route     int      `json:"route"`
	QKind     string   `json:"qkind"`
	Query     evid.Str `json:"query"`
	Start     string   `json:"start"`
	End       string   `json:"end"`
	Step      string   `json:"step"`
	Limit     string   `json:"limit"`
	Direction string   `json:"direction"`
	Time      string   `json:"time"`
	PathVar   evid.Str `json:"pathvar"`
	Post      bool     `json:"post"`
	Proto     bool     `json:"proto"`
	Script    script   `json:"script"`
	Fault     fault    `json:"fault"`
	// Cancel: -1 read the whole response; >= 0 the client goes away after reading that many
	// body bytes; -2 the client goes away 3 ms after sending the request.
	Cancel int `json:"cancel"`
}

type route struct {
	name string
	path string // %s = path variable
	lang int    // 0 LogQL, 1 TraceQL, 2 PromQL, 3 none, 4 pyroscope selector
	post bool   // form POST accepted
	body string // pyroscope JSON body template
}

var routes = []route{
	{name: "loki-query_range", path: "/loki/api/v1/query_range", lang: 0},
	{name: "loki-query", path: "/loki/api/v1/query", lang: 0},
	{name: "loki-labels", path: "/loki/api/v1/labels", lang: 3, post: true},
	{name: "loki-values", path: "/loki/api/v1/label/%s/values", lang: 0, post: true},
	{name: "loki-series", path: "/loki/api/v1/series", lang: 0, post: true},
	{name: "prom-query_range", path: "/api/v1/query_range", lang: 2, post: true},
	{name: "prom-query", path: "/api/v1/query", lang: 2, post: true},
	{name: "prom-labels", path: "/api/v1/labels", lang: 3, post: true},
	{name: "prom-values", path: "/api/v1/label/%s/values", lang: 2},
	{name: "prom-series", path: "/api/v1/series", lang: 2, post: true},
	{name: "tempo-trace", path: "/api/traces/%s", lang: 3},
	{name: "tempo-trace-json", path: "/api/traces/%s/json", lang: 3},
	{name: "tempo-search", path: "/api/search", lang: 1},
	{name: "tempo-search-tags", path: "/tempo/api/search", lang: 3},
	{name: "tempo-tags", path: "/api/search/tags", lang: 3},
	{name: "tempo-tag-values", path: "/api/search/tag/%s/values", lang: 3},
	{name: "tempo-tags-v2", path: "/api/v2/search/tags", lang: 1},
	{name: "tempo-tag-values-v2", path: "/api/v2/search/tag/%s/values", lang: 1},
	{name: "pyro-profile-types", path: "/querier.v1.QuerierService/ProfileTypes", lang: 4, body: `{"start":%s,"end":%s}`},
	{name: "pyro-label-names", path: "/querier.v1.QuerierService/LabelNames", lang: 4, body: `{"matchers":[%q],"start":%s,"end":%s}`},
	{name: "pyro-label-values", path: "/querier.v1.QuerierService/LabelValues", lang: 4, body: `{"matchers":[%q],"name":"service_name","start":%s,"end":%s}`},
	{name: "pyro-series", path: "/querier.v1.QuerierService/Series", lang: 4, body: `{"matchers":[%q],"labelNames":["service_name"],"start":%s,"end":%s}`},
	{name: "pyro-merge-stacktraces", path: "/querier.v1.QuerierService/SelectMergeStacktraces", lang: 4, body: `{"labelSelector":%q,"profileTypeID":"process_cpu:cpu:nanoseconds:cpu:nanoseconds","start":%s,"end":%s}`},
	{name: "pyro-select-series", path: "/querier.v1.QuerierService/SelectSeries", lang: 4, body: `{"labelSelector":%q,"profileTypeID":"process_cpu:cpu:nanoseconds:cpu:nanoseconds","groupBy":["service_name"],"step":%s,"start":%s,"end":%s}`},
	{name: "pyro-render-diff", path: "/pyroscope/render-diff", lang: 4},
}

func genPyroSelector(rt *rapid.T) string {
	n := rapid.IntRange(0, 2).Draw(rt, "npm")
	var ms []string
	for i := 0; i < n; i++ {
		ms = append(ms, pick(rt, "pyl", []string{"service_name", "a", "__name__"})+pick(rt, "pyo", []string{"=", "!=", "=~", "!~"})+pick(rt, "pyv", []string{`"b"`, `"x.*"`, `"("`, `""`}))
	}
	return "{" + strings.Join(ms, ",") + "}"
}

func genReq(rt *rapid.T) reqCase {
	c := reqCase{Route: rapid.IntRange(0, len(routes)-1).Draw(rt, "route")}
	// weight the query routes
	if rapid.IntRange(0, 2).Draw(rt, "favour") == 0 {
		c.Route = rapid.SampledFrom([]int{0, 0, 1, 5, 6, 12, 16}).Draw(rt, "qroute")
	}
	rtDef := routes[c.Route]
	switch rtDef.lang {
	case 0, 1, 2:
		q, k := genQuery(rt, rtDef.lang)
		c.Query, c.QKind = evid.Str(q), k
		if rapid.IntRange(0, 15).Draw(rt, "noquery") == 0 {
			c.Query, c.QKind = "", "empty"
		}
	case 4:
		q := genPyroSelector(rt)
		c.QKind = "grammar"
		if rapid.IntRange(0, 3).Draw(rt, "pymut") == 0 {
			q, c.QKind = mutate(rt, q), "mutated"
		}
		c.Query = evid.Str(q)
	default:
		c.QKind = "none"
	}
	// times: mostly a sane window so that requests reach the planners and scanners
	if rapid.IntRange(0, 2).Draw(rt, "sanetime") > 0 {
		switch {
		case c.Route <= 4:
			c.Start, c.End, c.Time = "1700000000000000000", "1700000100000000000", "1700000100000000000"
		case rtDef.lang == 4:
			c.Start, c.End = "1700000000000", "1700000100000"
		default:
			c.Start, c.End, c.Time = "1700000000", "1700000100", "1700000100"
		}
		if rapid.IntRange(0, 5).Draw(rt, "reversed") == 0 {
			c.Start, c.End = c.End, c.Start
		}
	} else {
		c.Start, c.End, c.Time = pick(rt, "start", timeVals), pick(rt, "end", timeVals), pick(rt, "time", timeVals)
	}
	if c.Route == 5 || c.Route == 6 {
		// Prometheus query routes read start/end/time as seconds. Values beyond ~1e12 s
		// overflow the engine's millisecond clock and make it evaluate steps until its own
		// 30 s timeout answers the request: bounded (the property holds) but far too slow to
		// sample, so such windows are left out here.
		for _, p := range []*string{&c.Start, &c.End, &c.Time} {
			if f, err := strconv.ParseFloat(*p, 64); err == nil && math.Abs(f) > 1e12 {
				*p = "1700000100"
			}
		}
	}
	c.Step = pick(rt, "step", stepVals)
	if rapid.IntRange(0, 2).Draw(rt, "sanestep") == 0 {
		c.Step = pick(rt, "step2", []string{"", "1", "5", "15", "60"})
	}
	c.Limit = pick(rt, "limit", limitVals)
	c.Direction = pick(rt, "dir", []string{"", "forward", "backward", "FORWARD", "x"})
	switch {
	case strings.HasPrefix(rtDef.name, "tempo-trace"):
		c.PathVar = evid.Str(pick(rt, "traceid", []string{"0123456789abcdef0123456789abcdef", "0123456789abcdef", "00", "", "zz", "0123456789abcdef0123456789abcdef0123456789abcdef0123456789abcdef",
			"0123456789abcdef0123456789abcdef0123456789abcdef0123456789abcdef00", strings.Repeat("ab", 200), "0123456789ABCDEF0123456789ABCDEF", "abc", "'", "a b"}))
		c.Proto = rapid.IntRange(0, 3).Draw(rt, "proto") == 0
	case strings.Contains(rtDef.path, "%s"):
		c.PathVar = evid.Str(pick(rt, "pathvar", []string{"job", "foo", ".foo", "span.foo", "resource.service.name", "resource.", "a'b", "a\"b", "__name__", "x y", "ü", "\x01", "a/b", "%", strings.Repeat("n", 300)}))
	}
	c.Post = rtDef.post && rapid.IntRange(0, 3).Draw(rt, "post") == 0

	c.Script = script{
		Series:     rapid.SampledFrom([]int{0, 1, 1, 2, 3, 5}).Draw(rt, "sseries"),
		Rows:       rapid.SampledFrom([]int{0, 1, 2, 3, 50, 100, 101, 250, 1000}).Draw(rt, "srows"),
		FP0:        rapid.IntRange(0, 3).Draw(rt, "sfp0") == 0,
		Wide:       rapid.IntRange(0, 15).Draw(rt, "swide") == 0,
		Vals:       rapid.IntRange(0, 3).Draw(rt, "svals"),
		Complexity: rapid.SampledFrom([]int64{0, 7, 9999999, 10000000, 25000000}).Draw(rt, "complexity"),
	}
	if rapid.IntRange(0, 2).Draw(rt, "faulty") == 0 {
		c.Fault = fault{Kind: rapid.IntRange(1, 4).Draw(rt, "fkind"), Stmt: rapid.SampledFrom([]int{0, 0, 0, 1, 1, 2}).Draw(rt, "fstmt"), Version: rapid.IntRange(0, 4).Draw(rt, "fver") == 0,
			K: rapid.SampledFrom([]int{0, 1, 2, 99, 100, 101, 150}).Draw(rt, "fk"), StallMs: rapid.SampledFrom([]int{1, 10, 40}).Draw(rt, "fstall")}
	}
	c.Cancel = -1
	if rapid.IntRange(0, 3).Draw(rt, "cancel") == 0 {
		c.Cancel = rapid.SampledFrom([]int{-2, 0, 1, 10, 100, 5000, 100000}).Draw(rt, "cancelk")
	}
	return c
}

// ---- scripted database ---------------------------------------------------------------------------

var errScripted = errors.New("fakesql: scripted QueryCtx failure")

var valPalettes = [][]float64{
	{1, 2, 3, 4.5},
	{0, 1, 0, math.Copysign(0, -1), 2},
	{math.NaN(), math.Inf(1), math.Inf(-1), 1e300, 5e-324},
	{-1, 1e21, 0.1, 123456789},
}

var strPalette = []string{"job", "level", "a\"b", "it's", "\x01\xff", "", "ü", strings.Repeat("v", 300), "x y", "\\"}

func (s script) fps(desc bool) []uint64 {
	out := make([]uint64, 0, s.Series)
	for i := 0; i < s.Series; i++ {
		fp := uint64(i+1) * 1000003
		if i == 0 && s.FP0 {
			fp = 0
		}
		out = append(out, fp)
	}
	if desc {
		for i, j := 0, len(out)-1; i < j; i, j = i+1, j-1 {
			out[i], out[j] = out[j], out[i]
		}
	}
	return out
}

func (s script) line(j int) string {
	if s.Clean && !s.Wide {
		return fmt.Sprintf("level=info msg=\"hello\" freq=2 n=%d", j)
	}
	if s.Wide {
		return fmt.Sprintf("%06d %s", j, strings.Repeat("wide line with \"quotes\" and \\ ", 36))
	}
	return []string{"level=info msg=\"hello\" freq=2 str_id=5", `{"a":"b","int_val":3,"str_id":598,"nested":{"x":1}}`, "GET /x 200 25", "", "\xff\x01 broken", `{"a":`}[j%6]
}

func (s script) labels(i int) map[string]string {
	if s.Clean {
		return map[string]string{"a": "b", "job": "x", "test_id": strconv.Itoa(i)}
	}
	switch i % 4 {
	case 0:
		return map[string]string{"a": "b", "job": "x", "freq": "2", "test_id": strconv.Itoa(i)}
	case 1:
		return map[string]string{}
	case 2:
		return map[string]string{"a": "q\"uote", "e": "\x01", "le": "+Inf", "test_id": strconv.Itoa(i)}
	default:
		return map[string]string{"level": "info", "test_id": strconv.Itoa(i)}
	}
}

const baseNs = int64(1700000000000000000)

// answer builds the result set of one statement from its text: rows of the Go types and in
// the order the statement's scanner expects (see C15 for the per-scanner justification).
func (s script) answer(q string) *fakesql.Result {
	n, m := s.Series, s.Rows
	var rows [][]any
	vals := valPalettes[s.Vals%len(valPalettes)]
	switch {
	case fakesql.IsVersionQuery(q):
		return fakesql.AnswerVersion(q)
	case strings.Contains(q, "_count as _count"):
		return fakesql.Rows([]string{"_count"}, []any{uint64(s.Complexity)})
	case strings.Contains(q, "COUNT(1)"):
		return fakesql.Rows([]string{"cnt"}, []any{uint64(s.Complexity)})
	case strings.Contains(q, "prefinal.string as string"):
		desc := strings.Contains(q, "ORDER BY fingerprint desc")
		for i, fp := range s.fps(desc) {
			for j := 0; j < m; j++ {
				jj := j
				if desc {
					jj = m - 1 - j
				}
				rows = append(rows, []any{fp, s.labels(i), s.line(jj), baseNs + int64(jj)*1e9})
			}
		}
		return fakesql.Rows([]string{"fingerprint", "labels", "string", "timestamp_ns"}, rows...)
	case strings.Contains(q, "prefinal.value as value"):
		for i, fp := range s.fps(false) {
			for j := 0; j < m; j++ {
				rows = append(rows, []any{fp, s.labels(i), vals[j%len(vals)], baseNs/60e9*60e9 + int64(j)*60e9})
			}
		}
		return fakesql.Rows([]string{"fingerprint", "labels", "value", "timestamp_ns"}, rows...)
	case strings.Contains(q, "JSONExtractKeysAndValues(labels, 'String') as labels"):
		for i, fp := range s.fps(false) {
			var l [][]any
			for k, v := range s.labels(i) {
				l = append(l, []any{k, v})
			}
			sort.Slice(l, func(a, b int) bool { return l[a][0].(string) < l[b][0].(string) })
			l = append(l, []any{"__name__", "up"})
			rows = append(rows, []any{fp, l})
		}
		return fakesql.Rows([]string{"fingerprint", "labels"}, rows...)
	case strings.Contains(q, "as timestamp_ms"):
		for _, fp := range s.fps(false) {
			for j := 0; j < m; j++ {
				rows = append(rows, []any{fp, vals[j%len(vals)], baseNs/1e6 + int64(j)*15000})
			}
		}
		return fakesql.Rows([]string{"fingerprint", "value", "timestamp_ms"}, rows...)
	case strings.Contains(q, "DISTINCT labels as labels"):
		for i := 0; i < n*max(m, 1); i++ {
			rows = append(rows, []any{fmt.Sprintf(`{"a":"b","i":"%d","q":"\"\\ \u0001"}`, i)})
		}
		return fakesql.Rows([]string{"labels"}, rows...)
	case strings.Contains(q, "FROM raw ORDER BY timestamp_ns"):
		tid := "0123456789abcdef"
		for j := 0; j < n*m; j++ {
			sid := fmt.Sprintf("%08d", j)
			if j%2 == 0 {
				rows = append(rows, []any{tid, sid, "", baseNs + int64(j), int64(1000), int8(1), fmt.Sprintf(`{"id":"%x","traceId":"%x","name":"op\u0001","parentId":"1234567812345678","localEndpoint":{"serviceName":"svc"},"tags":{"a":"b","n":"%d"},"annotations":[{"timestamp":1,"value":"x"}]}`, sid, tid, j)})
				continue
			}
			sp := &v1.Span{TraceId: []byte(tid), SpanId: []byte(sid), Name: "op", StartTimeUnixNano: uint64(baseNs), EndTimeUnixNano: uint64(baseNs + 5),
				Attributes: []*common.KeyValue{{Key: "service.name", Value: &common.AnyValue{Value: &common.AnyValue_StringValue{StringValue: "svc"}}},
					{Key: "n", Value: &common.AnyValue{Value: &common.AnyValue_IntValue{IntValue: int64(j)}}}}}
			b, _ := proto.Marshal(sp)
			if j%5 == 4 && !s.Clean {
				b = []byte("\x0a\xff garbage that is not a span")
			}
			rows = append(rows, []any{tid, sid, "", baseNs + int64(j), int64(1000), int8(2), string(b)})
		}
		return fakesql.Rows(nil, rows...)
	case strings.Contains(q, "hex(trace_id)") && strings.Contains(q, "root_service_name"):
		for j := 0; j < n*m; j++ {
			rows = append(rows, []any{strings.ToUpper(hex.EncodeToString([]byte(fmt.Sprintf("%016d", j)))), strPalette[j%len(strPalette)], strPalette[(j+3)%len(strPalette)], baseNs + int64(j), int64(j)})
		}
		return fakesql.Rows(nil, rows...)
	case strings.Contains(q, "lower(hex(traces.trace_id))"):
		for j := 0; j < n; j++ {
			k := m % 120 // groupArray(100)-ish
			ids, durs, tss := make([]string, k), make([]int64, k), make([]int64, k)
			for x := 0; x < k; x++ {
				ids[x], durs[x], tss[x] = fmt.Sprintf("%016x", x), int64(x)*7, baseNs+int64(x%3)
			}
			rows = append(rows, []any{hex.EncodeToString([]byte(fmt.Sprintf("%016d", j))), ids, durs, tss, baseNs + int64(j), vals[j%len(vals)], strPalette[j%len(strPalette)], strPalette[(j+3)%len(strPalette)]})
		}
		return fakesql.Rows(nil, rows...)
	case strings.Contains(q, "SELECT  DISTINCT key") || strings.Contains(q, "SELECT  DISTINCT val") || strings.Contains(q, "SELECT key as key") || strings.Contains(q, "SELECT val as val"):
		for j := 0; j < n*max(m, 1); j++ {
			rows = append(rows, []any{strPalette[j%len(strPalette)] + strconv.Itoa(j/len(strPalette))})
		}
		return fakesql.Rows([]string{"v"}, rows...)
	}
	// statements this harness does not script (profiles): an empty result set
	return fakesql.Rows(nil)
}

// ---- goroutine census ------------------------------------------------------------------------------

const qrynFrame = "github.com/metrico/qryn/"

// longLived are goroutines qryn starts once (or once per 10 s) independent of a request:
// dbVersion.throttle sleeps 10 s and resets the version cache (utils/dbVersion/version.go:24).
var longLived = []string{"utils/dbVersion.throttle"}

// census returns id -> stack of every goroutine with a qryn frame (running in, or created
// by, qryn code), minus the known long-lived ones.
func census() map[string]string {
	buf := make([]byte, 1<<20)
	for {
		n := runtime.Stack(buf, true)
		if n < len(buf) {
			buf = buf[:n]
			break
		}
		buf = make([]byte, 2*len(buf))
	}
	out := map[string]string{}
next:
	for _, blk := range strings.Split(string(buf), "\n\n") {
		if !strings.Contains(blk, qrynFrame) {
			continue
		}
		for _, l := range longLived {
			if strings.Contains(blk, l) {
				continue next
			}
		}
		head := blk
		if i := strings.IndexByte(blk, '['); i > 0 {
			head = blk[:i]
		}
		out[strings.TrimSpace(head)] = blk
	}
	return out
}

// ---- one attempt -----------------------------------------------------------------------------------

type outcome struct {
	status    int
	stmts     int
	mainStmts int
	noResp    error  // no complete HTTP response (and the client did not go away itself)
	leak      string // goroutines / result sets still alive after the settle period
	cancelled bool
	faultHit  bool
}

const (
	respDeadline = 45 * time.Second // >= 1000 x the normal latency (a few ms), and above the 30 s PromQL engine timeout
	settleBound  = 4 * time.Second
)

func (c reqCase) build(base string) (*http.Request, error) {
	rd := routes[c.Route]
	path := rd.path
	if strings.Contains(path, "%s") {
		path = fmt.Sprintf(path, url.PathEscape(string(c.PathVar)))
	}
	v := url.Values{}
	set := func(k, val string) {
		if val != "" {
			v.Set(k, val)
		}
	}
	q := string(c.Query)
	switch {
	case rd.lang == 4 && rd.body != "":
		var body string
		st, en := orDefault(c.Start, "0"), orDefault(c.End, "0")
		if _, err := strconv.ParseInt(st, 10, 64); err != nil {
			st = "0"
		}
		if _, err := strconv.ParseInt(en, 10, 64); err != nil {
			en = "0"
		}
		switch strings.Count(rd.body, "%") {
		case 2:
			body = fmt.Sprintf(rd.body, st, en)
		case 3:
			body = fmt.Sprintf(rd.body, q, st, en)
		default:
			stp := "15"
			if f, err := strconv.ParseFloat(c.Step, 64); err == nil && !math.IsNaN(f) && !math.IsInf(f, 0) {
				stp = strconv.FormatFloat(f, 'f', -1, 64)
			}
			body = fmt.Sprintf(rd.body, q, stp, st, en)
		}
		req, err := http.NewRequest("POST", base+path, strings.NewReader(body))
		if err == nil {
			req.Header.Set("Content-Type", "application/json")
		}
		return req, err
	case rd.name == "pyro-render-diff":
		set("leftQuery", "process_cpu:cpu:nanoseconds:cpu:nanoseconds"+q)
		set("rightQuery", "process_cpu:cpu:nanoseconds:cpu:nanoseconds"+q)
		set("leftFrom", c.Start)
		set("leftUntil", c.End)
		set("rightFrom", c.Start)
		set("rightUntil", c.End)
	case rd.name == "loki-values" || rd.name == "loki-series" || rd.name == "prom-series" || rd.name == "prom-values":
		set("match[]", q)
		set("start", c.Start)
		set("end", c.End)
	case rd.name == "tempo-search" || rd.name == "tempo-tags-v2" || rd.name == "tempo-tag-values-v2":
		set("q", q)
		set("start", c.Start)
		set("end", c.End)
		set("limit", c.Limit)
	case rd.name == "tempo-search-tags":
		set("tags", pickTags(c.Script.Vals))
		set("minDuration", []string{"", "1ms", "0", "-1s"}[c.Script.Vals%4])
		set("maxDuration", []string{"", "1h", "abc", "0"}[c.Script.Series%4])
		set("start", c.Start)
		set("end", c.End)
		set("limit", c.Limit)
	default:
		set("query", q)
		set("start", c.Start)
		set("end", c.End)
		set("step", c.Step)
		set("limit", c.Limit)
		set("direction", c.Direction)
		set("time", c.Time)
	}
	var req *http.Request
	var err error
	if c.Post && rd.post {
		req, err = http.NewRequest("POST", base+path, strings.NewReader(v.Encode()))
		if err == nil {
			req.Header.Set("Content-Type", "application/x-www-form-urlencoded")
		}
	} else {
		u := base + path
		if len(v) > 0 {
			u += "?" + v.Encode()
		}
		req, err = http.NewRequest("GET", u, nil)
	}
	if err == nil && c.Proto {
		req.Header.Set("Accept", "application/protobuf")
	}
	return req, err
}

func pickTags(i int) string {
	return []string{`a=b`, `a="b c" d=e`, `a`, `=`, `service.name=x http.status=200`}[i%5]
}

func orDefault(s, d string) string {
	if s == "" {
		return d
	}
	return s
}

func attempt(c reqCase) outcome {
	var out outcome
	var stmtNo, verNo int64
	var faultHit int32
	var timers []*time.Timer
	var tmu sync.Mutex
	handler := func(ctx context.Context, q string, args []driver.NamedValue) (*fakesql.Result, error) {
		isVer := fakesql.IsVersionQuery(q)
		var i int
		if isVer {
			i = int(atomic.AddInt64(&verNo, 1)) - 1
		} else {
			i = int(atomic.AddInt64(&stmtNo, 1)) - 1
		}
		res := c.Script.answer(q)
		if c.Fault.Kind != 0 && i == c.Fault.Stmt && isVer == c.Fault.Version {
			atomic.StoreInt32(&faultHit, 1)
			switch c.Fault.Kind {
			case 1:
				return nil, errScripted
			case 2:
				res.FailAfter = c.Fault.K
			case 3, 4:
				gate := make(chan struct{})
				t := time.AfterFunc(time.Duration(c.Fault.StallMs)*time.Millisecond, func() { close(gate) })
				tmu.Lock()
				timers = append(timers, t)
				tmu.Unlock()
				res.Gate = gate
				if c.Fault.Kind == 3 {
					res.FailAfter = 0
				}
			}
		}
		return res, nil
	}
	before := census()
	rd := readersvc.NewReader(handler)
	srv := rd.Serve()
	tr := &http.Transport{DisableKeepAlives: true}
	client := &http.Client{Transport: tr, Timeout: respDeadline, CheckRedirect: func(*http.Request, []*http.Request) error { return http.ErrUseLastResponse }}

	req, err := c.build(srv.URL)
	if err != nil {
		// not a request an HTTP client can send
		srv.Close()
		rd.Close()
		out.status = -1
		return out
	}
	ctx, cancel := context.WithCancel(context.Background())
	req = req.WithContext(ctx)
	if c.Cancel == -2 {
		t := time.AfterFunc(3*time.Millisecond, cancel)
		defer t.Stop()
		out.cancelled = true
	}
	resp, err := client.Do(req)
	switch {
	case err != nil && out.cancelled:
		// the client went away by itself
	case err != nil:
		out.noResp = fmt.Errorf("no HTTP response: %v", err)
	default:
		out.status = resp.StatusCode
		if c.Cancel >= 0 {
			_, _ = io.CopyN(io.Discard, resp.Body, int64(c.Cancel))
			out.cancelled = true
			cancel()
		} else {
			_, rerr := io.Copy(io.Discard, resp.Body)
			if rerr != nil && !out.cancelled {
				out.noResp = fmt.Errorf("response aborted after the status line (%d): %v", resp.StatusCode, rerr)
			}
		}
		_ = resp.Body.Close()
	}
	cancel()
	tr.CloseIdleConnections()

	// settle: every goroutine started for the request ends, every result set is closed
	deadline := time.Now().Add(settleBound)
	sleep := time.Millisecond
	for {
		var extra []string
		for id, st := range census() {
			if _, ok := before[id]; !ok {
				extra = append(extra, st)
			}
		}
		open := rd.DB.OpenResultSets()
		if len(extra) == 0 && open == 0 {
			break
		}
		if time.Now().After(deadline) {
			sort.Strings(extra)
			var sb bytes.Buffer
			fmt.Fprintf(&sb, "%d goroutine(s) with qryn frames still alive and %d result set(s) still open %v after the request ended", len(extra), open, settleBound)
			for i, st := range extra {
				if i >= 4 {
					break
				}
				lines := strings.Split(st, "\n")
				if len(lines) > 14 {
					lines = lines[:14]
				}
				sb.WriteString("\n" + strings.Join(lines, "\n"))
			}
			out.leak = sb.String()
			break
		}
		time.Sleep(sleep)
		if sleep < 50*time.Millisecond {
			sleep *= 2
		}
	}
	tmu.Lock()
	for _, t := range timers {
		t.Stop()
	}
	tmu.Unlock()
	log := rd.DB.Log()
	out.faultHit = atomic.LoadInt32(&faultHit) == 1
	out.stmts = len(log)
	for _, s := range log {
		if !fakesql.IsVersionQuery(s) {
			out.mainStmts++
		}
	}
	if out.leak == "" && out.noResp == nil {
		srv.Close() // waits for outstanding handlers: there are none
		rd.Close()
	} else {
		// do not wait for handlers that may never return
		srv.CloseClientConnections()
		_ = srv.Listener.Close()
	}
	return out
}

func predReq(c reqCase, o *evid.Obs) error {
	if c.Route < 0 || c.Route >= len(routes) {
		o.Discard("bad-route")
		return nil
	}
	restore := readersvc.Quiet()
	defer restore()
	out := attempt(c)
	if out.status == -1 {
		o.Discard("unsendable-request")
		return nil
	}
	o.Tag("route:"+routes[c.Route].name, "query:"+c.QKind, fmt.Sprintf("fault:%d", c.Fault.Kind))
	if out.status != 0 {
		o.Tag(fmt.Sprintf("status:%dxx", out.status/100))
	}
	if c.Cancel != -1 {
		o.Tag("client-went-away")
	}
	if out.faultHit {
		o.Tag("fault-hit", fmt.Sprintf("fault-hit:%d", c.Fault.Kind))
	}
	if out.mainStmts > 0 {
		o.Tag("reached-main-statement")
	}
	if out.stmts > 0 {
		o.Tag("reached-database")
		o.NonTrivial()
	}
	if out.noResp != nil {
		return fmt.Errorf("%s %s: %v", routes[c.Route].name, describe(c), out.noResp)
	}
	if out.leak != "" {
		// a leak must reproduce: run the same case once more in a fresh reader
		again := attempt(c)
		if again.leak != "" {
			return fmt.Errorf("%s %s: %s", routes[c.Route].name, describe(c), again.leak)
		}
		o.Tag("leak-not-reproduced")
	}
	return nil
}

func describe(c reqCase) string {
	return fmt.Sprintf("query=%q start=%q end=%q step=%q limit=%q pathvar=%q fault=%+v cancel=%d", string(c.Query), c.Start, c.End, c.Step, c.Limit, string(c.PathVar), c.Fault, c.Cancel)
}

func addReq(r *evid.Run) {
	evid.Add(r, evid.Prop[reqCase]{Name: "request", Quick: 2500, Thorough: 6000, Gen: genReq, Pred: predReq, WAL: true})
}

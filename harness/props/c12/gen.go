// Package c12: no query can crash, hang or leak work on the read side.
package c12

import (
	"fmt"
	"strings"

	"pgregory.net/rapid"
)

// ---- query text generators -----------------------------------------------------------------
//
// Three kinds per language: grammar-generated (usually parses and plans), mutated (a
// grammar-generated string with byte edits) and random bytes.

var lblNames = []string{"a", "job", "test_id", "level", "__name__", "freq", "str_id", "e", "_entry", "x.y", "a-b"}
var strVals = []string{`"b"`, `"x.*y"`, `"2[0-9]$"`, `""`, `"it's'"`, "`tick`", `"\\"`, `"("`, `"a\"b"`, `"%"`, `"[[:alpha:]]+"`, `"(?<e>[0-9]+)"`, `"^(?<e>[^0-9]+)[0-9]+$"`, `"ü"`, `"{{.a}}"`}
var durations = []string{"1s", "5s", "15s", "1m", "5m", "1h", "0s", "1ms", "100000h", "3s", "10s"}
var numbers = []string{"0", "1", "2", "0.5", "-1", "598", "1000", "1e3", "99999999999999999999"}

func pick(rt *rapid.T, l string, xs []string) string { return rapid.SampledFrom(xs).Draw(rt, l) }

func genSelector(rt *rapid.T) string {
	n := rapid.IntRange(1, 3).Draw(rt, "nsel")
	var parts []string
	for i := 0; i < n; i++ {
		parts = append(parts, pick(rt, "lbl", lblNames[:8])+pick(rt, "op", []string{"=", "!=", "=~", "!~"})+pick(rt, "val", strVals))
	}
	return "{" + strings.Join(parts, ", ") + "}"
}

func genPipeline(rt *rapid.T, unwrap bool) string {
	n := rapid.IntRange(0, 3).Draw(rt, "npipe")
	var sb strings.Builder
	for i := 0; i < n; i++ {
		switch rapid.IntRange(0, 9).Draw(rt, "stage") {
		case 0, 1:
			sb.WriteString(" " + pick(rt, "lf", []string{"|=", "!=", "|~", "!~"}) + " " + pick(rt, "lfv", strVals))
		case 2:
			sb.WriteString(" | json")
		case 3:
			sb.WriteString(" | json " + pick(rt, "jl", lblNames[:8]) + "=" + pick(rt, "jv", []string{`"str_id"`, `"a.b"`, `"a[0]"`, `"int_val"`}))
		case 4:
			sb.WriteString(" | logfmt")
		case 5:
			sb.WriteString(" | regexp " + pick(rt, "re", []string{`"^(?<e>[^0-9]+)[0-9]+$"`, `"(?<e>[0-9])+"`, `"("`, `"(?P<x>.*)"`}))
		case 6:
			sb.WriteString(" | " + pick(rt, "fl", lblNames[:8]) + pick(rt, "fop", []string{"=", "!=", "=~", "!~", ">", ">=", "<", "<=", "=="}) + pick(rt, "fv", append(append([]string{}, numbers...), strVals...)))
		case 7:
			sb.WriteString(" | line_format " + pick(rt, "lfm", []string{`"{{_entry}}"`, `"{{ divide freq 2 }}"`, `"{{.a}}"`, `"12345"`, `"{{"`, `"{ \"str\":\"{{_entry}}\" }"`}))
		case 8:
			sb.WriteString(" | label_format " + pick(rt, "lfl", lblNames[:8]) + "=" + pick(rt, "lfv2", []string{"job", `"{{.a}}x"`, `"c"`}))
		case 9:
			sb.WriteString(" | drop " + pick(rt, "dl", []string{"a", "a, b", `a="b"`, "__C__"}))
		}
	}
	if unwrap {
		sb.WriteString(" | unwrap " + pick(rt, "uw", []string{"freq", "str_id", "_entry", "e", "duration(a)", "bytes(a)"}))
	}
	return sb.String()
}

func genLogQL(rt *rapid.T) string {
	sel := genSelector(rt)
	switch rapid.IntRange(0, 9).Draw(rt, "qkind") {
	case 0, 1, 2:
		return sel + genPipeline(rt, false)
	case 3, 4:
		return fmt.Sprintf("%s(%s%s [%s])", pick(rt, "lra", []string{"rate", "count_over_time", "bytes_rate", "bytes_over_time", "absent_over_time"}), sel, genPipeline(rt, false), pick(rt, "dur", durations))
	case 5:
		fn := pick(rt, "uwf", []string{"sum_over_time", "avg_over_time", "min_over_time", "max_over_time", "first_over_time", "last_over_time", "rate", "stddev_over_time"})
		by := ""
		if rapid.Bool().Draw(rt, "by") {
			by = " by (" + pick(rt, "byl", lblNames[:6]) + ")"
		}
		return fmt.Sprintf("%s(%s%s [%s])%s", fn, sel, genPipeline(rt, true), pick(rt, "dur", durations), by)
	case 6, 7:
		inner := fmt.Sprintf("%s(%s%s [%s])", pick(rt, "lra", []string{"rate", "count_over_time", "bytes_rate"}), sel, genPipeline(rt, false), pick(rt, "dur", durations))
		agg := pick(rt, "agg", []string{"sum", "min", "max", "avg", "count", "stddev", "stdvar"})
		q := ""
		switch rapid.IntRange(0, 2).Draw(rt, "aggform") {
		case 0:
			q = fmt.Sprintf("%s(%s)", agg, inner)
		case 1:
			q = fmt.Sprintf("%s by (%s) (%s)", agg, pick(rt, "byl", lblNames[:6]), inner)
		default:
			q = fmt.Sprintf("%s(%s) without (%s)", agg, inner, pick(rt, "byl", lblNames[:6]))
		}
		if rapid.IntRange(0, 2).Draw(rt, "cmp") == 0 {
			q += " " + pick(rt, "cmpop", []string{">", "<", "==", "!=", ">=", "<="}) + " " + pick(rt, "num", numbers)
		}
		return q
	case 8:
		return fmt.Sprintf("%s(%s, rate(%s [%s]))", pick(rt, "topk", []string{"topk", "bottomk"}), pick(rt, "k", []string{"0", "1", "3", "-1", "100000"}), sel, pick(rt, "dur", durations))
	default:
		return fmt.Sprintf("quantile_over_time(%s, %s%s [%s]) by (%s)", pick(rt, "qv", []string{"0.5", "0", "1", "2", "-1"}), sel, genPipeline(rt, true), pick(rt, "dur", durations), pick(rt, "byl", lblNames[:6]))
	}
}

func genTraceQL(rt *rapid.T) string {
	attr := func() string {
		l := pick(rt, "tl", []string{".a", ".http.status", "name", "duration", "span.foo", "resource.service.name", ".randomFloat", "service.name", "status"})
		return l + " " + pick(rt, "top", []string{"=", "!=", "<", "<=", ">", ">=", "=~", "!~"}) + " " + pick(rt, "tv", []string{`"b"`, `"x.*"`, "10", "-1", "0.5", "1s", "100ms", "1.5h", `"("`, "`t`", "99999999999999999999"})
	}
	var sel func(d int) string
	sel = func(d int) string {
		n := rapid.IntRange(0, 3).Draw(rt, "nattr")
		if n == 0 {
			return "{}"
		}
		var sb strings.Builder
		sb.WriteString("{")
		for i := 0; i < n; i++ {
			if i > 0 {
				sb.WriteString(pick(rt, "andor", []string{" && ", " || "}))
			}
			if d < 2 && rapid.IntRange(0, 5).Draw(rt, "paren") == 0 {
				sb.WriteString("(" + attr() + " && " + attr() + ")")
			} else {
				sb.WriteString(attr())
			}
		}
		sb.WriteString("}")
		if rapid.IntRange(0, 3).Draw(rt, "aggr") == 0 {
			sb.WriteString(" | " + pick(rt, "tfn", []string{"count()", "avg(duration)", "max(duration)", "min(.a)", "sum(.a)"}) + " " + pick(rt, "tcmp", []string{">", "<", "=", "!=", ">=", "<="}) + " " + pick(rt, "tn", []string{"1", "2", "0", "-1", "1.5", "10ms", "2s"}))
		}
		return sb.String()
	}
	q := sel(0)
	for i := rapid.IntRange(0, 2).Draw(rt, "ntail"); i > 0; i-- {
		q += pick(rt, "andor", []string{" && ", " || "}) + sel(1)
	}
	return q
}

func genPromQL(rt *rapid.T) string {
	vs := func() string {
		name := pick(rt, "metric", []string{"up", "http_requests_total", "foo:bar", "", "go_gc_duration_seconds"})
		n := rapid.IntRange(0, 2).Draw(rt, "nm")
		var ms []string
		for i := 0; i < n; i++ {
			ms = append(ms, pick(rt, "pl", []string{"job", "instance", "__name__", "le", "a"})+pick(rt, "pop", []string{"=", "!=", "=~", "!~"})+pick(rt, "pv", []string{`"b"`, `"x.*"`, `""`, `"("`, `".+"`, `"it's"`}))
		}
		if name == "" && n == 0 {
			ms = []string{`job="b"`}
		}
		s := name
		if len(ms) > 0 {
			s += "{" + strings.Join(ms, ",") + "}"
		}
		return s
	}
	rng := func() string {
		return "[" + pick(rt, "pd", []string{"1m", "5m", "15s", "1s", "1h", "1d", "30s", "0s"}) + "]"
	}
	switch rapid.IntRange(0, 11).Draw(rt, "pkind") {
	case 0, 1:
		return vs()
	case 2:
		fn := pick(rt, "prf", []string{"rate(", "irate(", "increase(", "delta(", "avg_over_time(", "min_over_time(", "max_over_time(", "sum_over_time(", "count_over_time(", "last_over_time(", "quantile_over_time(0.9, ", "absent_over_time(", "deriv(", "resets(", "changes("})
		return fn + vs() + rng() + ")"
	case 3:
		agg := pick(rt, "pagg", []string{"sum", "avg", "min", "max", "count", "group", "stddev", "topk", "quantile"})
		arg := ""
		if agg == "topk" {
			arg = pick(rt, "topkk", []string{"3, ", "0, ", "-1, ", "1e9, "})
		} else if agg == "quantile" {
			arg = pick(rt, "qq", []string{"0.5, ", "2, ", "-1, "})
		}
		return fmt.Sprintf("%s by (%s) (%srate(%s%s))", agg, pick(rt, "pby", []string{"job", "instance", "le"}), arg, vs(), rng())
	case 4:
		return fmt.Sprintf("histogram_quantile(%s, sum by (le) (rate(%s%s)))", pick(rt, "hq", []string{"0.9", "0", "1", "2", "-1", "NaN"}), vs(), rng())
	case 5:
		return vs() + " " + pick(rt, "bop", []string{"+", "-", "*", "/", "%", "^", "==", "!=", ">", "<", "and", "or", "unless", "> bool", "/ on(job)", "* ignoring(a) group_left"}) + " " + vs()
	case 6:
		fn := pick(rt, "pfn", []string{"scalar(", "abs(", "ceil(", "floor(", "exp(", "ln(", "sqrt(", "timestamp(", "sort(", "sort_desc(", "absent(", "sgn(", "vector(scalar(", "round("})
		return fn + vs() + strings.Repeat(")", strings.Count(fn, "("))
	case 7:
		return pick(rt, "lit", []string{"1", "1e-9", "0.1", "NaN", "Inf", "-Inf", "1/0", "vector(1)", "time()", "vector(time())", `"str"`, "1e308*10", "2^1024", "pi()"})
	case 8:
		return fmt.Sprintf("max_over_time(rate(%s%s)[%s:%s])", vs(), rng(), pick(rt, "sq1", []string{"5m", "1h", "10s"}), pick(rt, "sq2", []string{"1m", "", "15s", "1s"}))
	case 9:
		return vs() + " offset " + pick(rt, "off", []string{"5m", "1h", "-5m", "0s", "100000h"})
	case 10:
		return vs() + " @ " + pick(rt, "at", []string{"1700000000", "start()", "end()", "0"})
	default:
		return fmt.Sprintf("label_replace(%s, %s, %s, %s, %s)", vs(), pick(rt, "lr1", []string{`"dst"`, `"job"`, `""`}), pick(rt, "lr2", []string{`"$1"`, `"x"`, `"$9"`}), pick(rt, "lr3", []string{`"job"`, `"a"`}), pick(rt, "lr4", []string{`"(.*)"`, `"("`, `".*"`}))
	}
}

// mutate applies a few byte edits to s.
func mutate(rt *rapid.T, s string) string {
	b := []byte(s)
	for i := rapid.IntRange(1, 4).Draw(rt, "nmut"); i > 0; i-- {
		if len(b) == 0 {
			b = append(b, byte(rapid.IntRange(0, 255).Draw(rt, "mb")))
			continue
		}
		p := rapid.IntRange(0, len(b)-1).Draw(rt, "mpos")
		switch rapid.IntRange(0, 5).Draw(rt, "mkind") {
		case 0:
			b = append(b[:p], b[p+1:]...)
		case 1:
			ins := pick(rt, "mins", []string{"(", ")", "{", "}", "[", "]", `"`, "`", "|", ",", "\\", " ", "\x00", "\xff", "=", "~", "!", "5", "by", "[1s]", "\n"})
			b = append(b[:p], append([]byte(ins), b[p:]...)...)
		case 2:
			b[p] = byte(rapid.IntRange(0, 255).Draw(rt, "mb"))
		case 3:
			q := rapid.IntRange(p, len(b)).Draw(rt, "mend")
			b = append(b[:q], append(append([]byte{}, b[p:q]...), b[q:]...)...)
		case 4:
			b = b[:p]
		default:
			q := rapid.IntRange(p, len(b)).Draw(rt, "mend")
			b = append(b[:p], b[q:]...)
		}
		if len(b) > 600 {
			b = b[:600]
		}
	}
	return string(b)
}

func genBytes(rt *rapid.T) string {
	return string(rapid.SliceOfN(rapid.Byte(), 0, 40).Draw(rt, "rnd"))
}

// genQuery draws a query of language lang (0 LogQL, 1 TraceQL, 2 PromQL) and reports its
// kind (grammar, mutated, bytes).
func genQuery(rt *rapid.T, lang int) (string, string) {
	k := rapid.IntRange(0, 9).Draw(rt, "qsrc")
	var q string
	switch lang {
	case 0:
		q = genLogQL(rt)
	case 1:
		q = genTraceQL(rt)
	default:
		q = genPromQL(rt)
	}
	switch {
	case k <= 5:
		return q, "grammar"
	case k <= 8:
		return mutate(rt, q), "mutated"
	default:
		return genBytes(rt), "bytes"
	}
}

// numeric request parameter values: empty (absent), zero, negative, reversed, huge, garbage.
var timeVals = []string{"", "0", "1", "-1", "1700000000", "1700000100", "1700000000000", "1700000000000000000", "1700000100000000000", "1699999000000000000",
	"9223372036854775807", "-9223372036854775808", "99999999999999999999", "1e18", "1.5", "NaN", "abc", "2023-11-14T22:13:20Z", "1700003600", "1700003600000000000"}
var stepVals = []string{"", "0", "1", "15", "60", "0.5", "0.001", "-1", "1e-9", "1e18", "5m", "15s", "0s", "abc", "NaN", "Inf", "1000000", "1ms"}
var limitVals = []string{"", "0", "1", "2", "100", "1000", "-1", "99999999999999999999", "abc", "2000", "5000"}

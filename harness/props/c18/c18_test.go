package c18

import (
	"fmt"
	"sort"
	"testing"

	"qrynverif/evid"
)

func TestProp(t *testing.T) {
	r := evid.New(t, "C18", evid.Config{
		Level: "fault_enumeration",
		Rule: "maintenance.Update on the ctrl fake with a fault plan, restarted until it succeeds; non-trivial: a fired fault lands on a " +
			"non-idempotent statement (RENAME, ALTER with an unguarded ADD/DROP, INSERT) or on a version write",
		Assumptions: []string{
			"ClickHouse is modelled: a catalogue with the documented failure rules (existing/missing object or column without its IF [NOT] EXISTS guard fails; MODIFY ORDER BY may only append columns added by the same ALTER); every statement is atomic",
			"a crash is an error returned at a statement boundary, before or after the statement took effect; ON CLUSTER statements succeed or fail as a whole",
			"the four modes upgradeDB can produce (single, cloud/replicated, clustered, clustered+replicated); cluster name set iff distributed",
		},
		Exhaustive: true,
	})
	addSingle(r)
	addErrors(r)
	addSeq(r)
	addMulti(r)
	addInit(r)
	r.Main()
	statMu.Lock()
	defer statMu.Unlock()
	if unrecQueries > 0 {
		fmt.Printf("INCONCLUSIVE property=C18: the ctrl fake could not answer %d quer(ies) qryn issued (query text changed?)\n", unrecQueries)
	}
	var ss []string
	for s := range unrecStmtSeen {
		ss = append(ss, s)
	}
	sort.Strings(ss)
	for _, s := range ss {
		r.Note("statement not recognised by the DDL model (no effect modelled): %s", s)
	}
}

package c18

// Shared harness for the entry-point checks of C18 and C19: the REAL ctrl.Init / ctrl.Rotate
// are driven with a generated list of DATABASE_DATA entries whose host:port point at
// loopback nodes of fakech.CtrlServer (native protocol), so the connections the entry
// points open themselves (ctrl/maintenance/shared.go ConnectV2 — there is no seam) end in
// the ctrl fake, one modelled database per logical database. No hook in /repo is needed.

import (
	"fmt"
	"io"
	"sync"

	clconfig "github.com/metrico/cloki-config"
	"github.com/metrico/cloki-config/config"
	"github.com/metrico/qryn/ctrl"
	"github.com/metrico/qryn/ctrl/logger"
	"github.com/metrico/qryn/ctrl/qryn/maintenance"
	"pgregory.net/rapid"

	"qrynverif/fakech"
)

// Move is one tier move of an entry (ttl_policy).
type Move struct {
	Dur  string `json:"dur"`
	Disk string `json:"disk"`
}

// Entry is one element of DATABASE_DATA.
type Entry struct {
	Node    int    `json:"node"`              // index of the loopback node (host:port) the entry points at
	Cluster string `json:"cluster,omitempty"` // cluster_name ("" = not clustered); a node belongs to one cluster
	DB      string `json:"db"`                // name
	Cloud   bool   `json:"cloud,omitempty"`
	Label   string `json:"label,omitempty"` // node (only used in messages by qryn)
	TTLDays int    `json:"ttl_days"`
	Policy  string `json:"storage_policy,omitempty"`
	Moves   []Move `json:"moves,omitempty"`
}

// Mode is the mode upgradeDB derives for the entry.
func (e Entry) Mode() int {
	m := maintenance.CLUST_MODE_SINGLE
	if e.Cloud {
		m = maintenance.CLUST_MODE_CLOUD
	}
	if e.Cluster != "" {
		m |= maintenance.CLUST_MODE_DISTRIBUTED
	}
	return m
}

const NNodes = 4

var nodes struct {
	once sync.Once
	srv  []*fakech.CtrlServer
	err  error
}

// Nodes starts (once per process) the loopback nodes and silences qryn's logger.
func Nodes() ([]*fakech.CtrlServer, error) {
	nodes.once.Do(func() {
		logger.Logger.SetOutput(io.Discard)
		for i := 0; i < NNodes; i++ {
			s, err := fakech.NewCtrlServer()
			if err != nil {
				nodes.err = err
				return
			}
			nodes.srv = append(nodes.srv, s)
		}
	})
	return nodes.srv, nodes.err
}

// World is the set of modelled databases of one case.
type World struct {
	Srv  []*fakech.CtrlServer
	Farm *fakech.CtrlFarm
	// Keys: logical database of every entry; Order: distinct keys in order of first appearance.
	Keys  []string
	Order []string
}

// NewWorld installs a fresh farm behind the nodes.
func NewWorld(entries []Entry) (*World, error) {
	srv, err := Nodes()
	if err != nil {
		return nil, err
	}
	clusterOf := map[string]string{}
	for _, e := range entries {
		clusterOf[srv[e.Node].Addr] = e.Cluster
	}
	w := &World{Srv: srv, Farm: fakech.NewCtrlFarm(clusterOf)}
	seen := map[string]bool{}
	for _, e := range entries {
		k := w.Farm.Key(srv[e.Node].Addr, e.DB)
		w.Keys = append(w.Keys, k)
		if !seen[k] {
			seen[k] = true
			w.Order = append(w.Order, k)
		}
	}
	for _, s := range srv {
		s.SetBackend(w.Farm)
	}
	return w, nil
}

// Close drops the connections qryn left open.
func (w *World) Close() {
	for _, s := range w.Srv {
		s.SetBackend(nil)
	}
}

// ProtoErrors returns protocol-level problems of the nodes (infrastructure, not verdicts).
func (w *World) ProtoErrors() []string {
	var out []string
	for _, s := range w.Srv {
		out = append(out, s.ProtoErrors...)
	}
	return out
}

// Config builds the configuration object ctrl.Init / ctrl.Rotate take.
func (w *World) Config(entries []Entry) *clconfig.ClokiConfig {
	set := &config.ClokiBaseSettingServer{}
	for _, e := range entries {
		d := config.ClokiBaseDataBase{
			User: "default", Password: "", Node: e.Label, Name: e.DB,
			Host: w.Srv[e.Node].Host, Port: w.Srv[e.Node].Port,
			TTLDays: e.TTLDays, StoragePolicy: e.Policy, Cloud: e.Cloud, ClusterName: e.Cluster,
		}
		for _, m := range e.Moves {
			d.TTLPolicy = append(d.TTLPolicy, struct {
				Timeout string `json:"ttl_policy" mapstructure:"ttl_policy" default:""`
				MoveTo  string `json:"move_to" mapstructure:"move_to" default:""`
			}{m.Dur, m.Disk})
		}
		set.DATABASE_DATA = append(set.DATABASE_DATA, d)
	}
	return &clconfig.ClokiConfig{Setting: set}
}

// RunInit calls the real ctrl.Init; a panic (Init panics when the per-database init step
// fails) is a reported failure.
func RunInit(cfg *clconfig.ClokiConfig) (err error) {
	defer func() {
		if p := recover(); p != nil {
			err = fmt.Errorf("panic: %v", p)
		}
	}()
	return ctrl.Init(cfg, "qryn")
}

// RunRotate calls the real ctrl.Rotate.
func RunRotate(cfg *clconfig.ClokiConfig) (err error) {
	defer func() {
		if p := recover(); p != nil {
			err = fmt.Errorf("panic: %v", p)
		}
	}()
	return ctrl.Rotate(cfg, "qryn")
}

var (
	entryClusters = []string{"", "", "c1", "c2"}
	entryDBs      = []string{"qryn", "logs", "db2", "default"}
	entryPolicies = []string{"", "", "tiered", "hot_cold"}
)

// GenEntries draws 1–4 entries: nodes are first assigned to clusters (a node belongs to one
// cluster; several nodes may share one), then every entry picks a node and a database name.
// Entries that denote the same logical database (same cluster and name, or same node and
// name) get identical settings: two different retentions for one database are not a
// meaningful configuration. genRetention fills TTL days / policy / moves.
func GenEntries(rt *rapid.T, genRetention func(rt *rapid.T, e *Entry)) []Entry {
	nodeCluster := make([]string, NNodes)
	for i := range nodeCluster {
		nodeCluster[i] = rapid.SampledFrom(entryClusters).Draw(rt, "nodecluster")
	}
	n := rapid.IntRange(1, 4).Draw(rt, "nentries")
	var out []Entry
	byKey := map[string]Entry{}
	for i := 0; i < n; i++ {
		e := Entry{Node: rapid.IntRange(0, NNodes-1).Draw(rt, "node")}
		e.Cluster = nodeCluster[e.Node]
		e.DB = rapid.SampledFrom(entryDBs).Draw(rt, "db")
		e.Label = fmt.Sprintf("node%d", e.Node)
		key := fmt.Sprintf("n%d/%s", e.Node, e.DB)
		if e.Cluster != "" {
			key = "c" + e.Cluster + "/" + e.DB
		}
		if prev, ok := byKey[key]; ok {
			node := e.Node
			e = prev
			e.Node, e.Label = node, fmt.Sprintf("node%d", node)
		} else {
			e.Cloud = rapid.Bool().Draw(rt, "cloud")
			genRetention(rt, &e)
			byKey[key] = e
		}
		out = append(out, e)
	}
	return out
}

// EntryFault is a fault (sequence) on one statement of one database during one attempt.
type EntryFault struct {
	Attempt int `json:"attempt"` // 0-based call of the entry point the fault is armed in
	// DB: index into the distinct logical databases in order of first appearance; -1: the
	// connection without database (CREATE DATABASE / SHOW CREATE DATABASE), At counts those calls.
	DB      int    `json:"db"`
	At      int    `json:"at"` // call index within that database's calls of the attempt
	Mode    string `json:"mode"`
	K       int    `json:"k,omitempty"`
	Persist bool   `json:"persist,omitempty"` // every attempt at the statement during the armed attempt fails
	Err     string `json:"err,omitempty"`     // error value (fakech.CtrlErrorKinds); over the wire: exception code + message, or a dropped connection
}

// Injector arms EntryFaults on the databases of a World.
type Injector struct {
	mu     sync.Mutex
	w      *World
	faults []EntryFault
	state  []struct {
		target string
		failed int
		query  bool
	}
	Attempt    int
	Armed      bool
	Fired      []*fakech.CtrlCall
	AdminN     int // admin calls seen in this attempt
	FiredAdmin int
	idx        map[string]int // key -> position in Order
	kindOf     map[*fakech.CtrlCall]string
	// Hook is installed as AfterApply on every database.
	Hook func(key string, c *fakech.CtrlCall, cat *fakech.CtrlCatalog)
}

// NewInjector wires the faults into the world (existing and future databases).
func NewInjector(w *World, faults []EntryFault) *Injector {
	in := &Injector{w: w, faults: faults, idx: map[string]int{}, Armed: true, kindOf: map[*fakech.CtrlCall]string{}}
	in.state = make([]struct {
		target string
		failed int
		query  bool
	}, len(faults))
	for i, k := range w.Order {
		in.idx[k] = i
	}
	w.Farm.OnCreate = func(key string, conn *fakech.CtrlConn) {
		conn.BeginRun()
		conn.Decide = func(c *fakech.CtrlCall) fakech.CtrlFaultMode { return in.decide(key, c) }
		conn.FaultErr = func(c *fakech.CtrlCall) error {
			in.mu.Lock()
			k := in.kindOf[c]
			in.mu.Unlock()
			return fakech.CtrlPanelError(k, c)
		}
		conn.AfterApply = func(c *fakech.CtrlCall, cat *fakech.CtrlCatalog) {
			if in.Hook != nil {
				in.Hook(key, c, cat)
			}
		}
	}
	w.Farm.AdminFault = func(addr, sql string) error {
		in.mu.Lock()
		defer in.mu.Unlock()
		n := in.AdminN
		in.AdminN++
		if !in.Armed {
			return nil
		}
		for _, f := range in.faults {
			if f.DB == -1 && f.Attempt == in.Attempt && f.At == n {
				in.FiredAdmin++
				return fakech.ErrCtrlInjected
			}
		}
		return nil
	}
	return in
}

// KindOf returns the error kind an injected fault returned for call c ("" = plain).
func (in *Injector) KindOf(c *fakech.CtrlCall) string {
	in.mu.Lock()
	defer in.mu.Unlock()
	return in.kindOf[c]
}

// Begin starts attempt n: every existing database starts a new run.
func (in *Injector) Begin(n int) {
	in.mu.Lock()
	in.Attempt, in.AdminN = n, 0
	in.mu.Unlock()
	for _, k := range in.w.Farm.Keys() {
		in.w.Farm.DB(k).BeginRun()
	}
}

func (in *Injector) decide(key string, c *fakech.CtrlCall) fakech.CtrlFaultMode {
	in.mu.Lock()
	defer in.mu.Unlock()
	if !in.Armed {
		return fakech.CtrlNoFault
	}
	pos, ok := in.idx[key]
	if !ok {
		return fakech.CtrlNoFault
	}
	for i, f := range in.faults {
		if f.DB != pos {
			continue
		}
		st := &in.state[i]
		if st.target == "" {
			if f.Attempt != in.Attempt || f.At != c.Index {
				continue
			}
			st.target, st.query = fakech.CtrlCanon(c.SQL), c.Query
		} else if st.query != c.Query || st.target != fakech.CtrlCanon(c.SQL) {
			continue
		}
		if f.Persist {
			if in.Attempt != f.Attempt {
				continue
			}
		} else if st.failed >= max(f.K, 1) {
			continue
		}
		st.failed++
		in.Fired = append(in.Fired, c)
		in.kindOf[c] = f.Err
		if f.Mode == "after" {
			return fakech.CtrlFailAfter
		}
		return fakech.CtrlFailBefore
	}
	return fakech.CtrlNoFault
}

// GenEntryFaults draws 0–2 faults for a list with ndb distinct databases.
func GenEntryFaults(rt *rapid.T, ndb int, maxAt int) []EntryFault {
	var out []EntryFault
	n := rapid.SampledFrom([]int{0, 1, 1, 2}).Draw(rt, "nfaults")
	for i := 0; i < n; i++ {
		f := EntryFault{Mode: rapid.SampledFrom([]string{"before", "after"}).Draw(rt, "fmode"), Err: rapid.SampledFrom(fakech.CtrlErrorKinds).Draw(rt, "errkind")}
		if i > 0 {
			f.Attempt = rapid.IntRange(0, 1).Draw(rt, "attempt") // the restart after the first fault
		}
		if rapid.IntRange(0, 9).Draw(rt, "admin") == 0 {
			f.DB, f.At, f.Mode = -1, rapid.IntRange(0, 2*ndb).Draw(rt, "at"), "before"
		} else {
			f.DB = rapid.IntRange(0, ndb-1).Draw(rt, "fdb")
			f.At = rapid.IntRange(0, maxAt).Draw(rt, "at")
			switch rapid.IntRange(0, 3).Draw(rt, "seqkind") {
			case 0:
				f.K = rapid.IntRange(2, 5).Draw(rt, "k")
			case 1:
				f.Persist = true
			}
		}
		out = append(out, f)
	}
	return out
}

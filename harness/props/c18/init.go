package c18

import (
	"fmt"
	"strings"

	"pgregory.net/rapid"

	"qrynverif/evid"
	"qrynverif/fakech"
)

// ---- C18 through the real entry point: ctrl.Init over a list of databases --------------------
//
// Domain: ctrl.Init(config, "qryn") with 1–4 DATABASE_DATA entries (nodes, cluster names,
// database names, cloud flag, ttl days, storage policy per entry), 0–2 fault sequences on a
// statement of one of the databases (or on the CREATE DATABASE step), restarted until it
// reports success. Oracle: when Init reports success EVERY configured database holds the
// schema / versions / markers of an uninterrupted Update of ITS OWN configuration, the
// per-database history invariants hold, one more Init changes nothing anywhere; Init must
// not report success while a statement of some database never took effect in that attempt.

type initCase struct {
	Entries []Entry      `json:"entries"`
	Faults  []EntryFault `json:"faults,omitempty"`
}

func (e Entry) updCfg() updCfg {
	return updCfg{Mode: e.Mode(), TTLDays: e.TTLDays, Policy: e.Policy, DB: e.DB, Cluster: e.Cluster}
}

func genInit(rt *rapid.T) initCase {
	c := initCase{}
	c.Entries = GenEntries(rt, func(rt *rapid.T, e *Entry) {
		// upgradeDB refuses ttl_days == 0 (maintain.go)
		e.TTLDays = rapid.IntRange(1, 400).Draw(rt, "ttl")
		e.Policy = rapid.SampledFrom(entryPolicies).Draw(rt, "policy")
	})
	w := map[string]bool{}
	for _, e := range c.Entries {
		k := fmt.Sprintf("n%d/%s", e.Node, e.DB)
		if e.Cluster != "" {
			k = "c" + e.Cluster + "/" + e.DB
		}
		w[k] = true
	}
	c.Faults = GenEntryFaults(rt, len(w), 120)
	return c
}

func describeEntries(es []Entry) string {
	var out []string
	for i, e := range es {
		out = append(out, fmt.Sprintf("#%d node%d cluster=%q db=%s cloud=%v ttl=%d policy=%q", i, e.Node, e.Cluster, e.DB, e.Cloud, e.TTLDays, e.Policy))
	}
	return strings.Join(out, "; ")
}

var protoProblems int

func predInit(c initCase, o *evid.Obs) error {
	if len(c.Entries) == 0 {
		o.Discard("empty")
		return nil
	}
	w, err := NewWorld(c.Entries)
	if err != nil {
		o.Discard("no-loopback-listener")
		return nil
	}
	defer w.Close()
	in := NewInjector(w, c.Faults)
	cfg := w.Config(c.Entries)

	o.Tag(fmt.Sprintf("entries:%d", len(c.Entries)), fmt.Sprintf("databases:%d", len(w.Order)))
	clusters := map[string]int{}
	for _, e := range c.Entries {
		clusters[e.Cluster]++
	}
	for cl, n := range clusters {
		if n > 1 {
			if cl == "" {
				o.Tag("several-unclustered-entries")
			} else {
				o.Tag("several-entries-on-one-cluster")
			}
		}
	}
	if len(w.Order) < len(c.Entries) {
		o.Tag("entries-sharing-a-database")
	}
	if len(w.Order) > 1 {
		o.NonTrivial()
	}

	maxAttempt := 0
	extra := 0
	for _, f := range c.Faults {
		maxAttempt = max(maxAttempt, f.Attempt)
		extra += max(f.K, 1)
	}
	completed := false
	attempts := 0
	var lastErr error
	for a := 0; a < maxAttempt+extra+3; a++ {
		attempts++
		in.Begin(a)
		nFired := len(in.Fired)
		lastErr = RunInit(cfg)
		if pe := w.ProtoErrors(); len(pe) > 0 {
			statMu.Lock()
			protoProblems++
			statMu.Unlock()
			o.Discard("protocol-problem")
			return nil
		}
		if lastErr == nil {
			if len(in.Fired) > nFired {
				o.Tag("success-after-fault-in-same-run")
				for _, k := range w.Order {
					if db := w.Farm.DB(k); db != nil {
						calls := db.Calls()
						if len(calls) == 0 {
							continue
						}
						if verr := neverSucceeded(db.RunCalls(calls[len(calls)-1].Run)); verr != nil {
							return fmt.Errorf("database %s: %v [entries: %s]", k, verr, describeEntries(c.Entries))
						}
					}
				}
			}
			completed = true
			break
		}
	}
	o.Tag(fmt.Sprintf("attempts:%d", min(attempts, 8)), fmt.Sprintf("faults-fired:%d", min(len(in.Fired)+in.FiredAdmin, 6)))
	for _, f := range in.Fired {
		ek := in.KindOf(f)
		if ek == "" {
			ek = "plain"
		}
		o.Tag("fault:"+string(f.Fault)+"@"+stmtClass(f), "error:"+ek)
	}
	if in.FiredAdmin > 0 {
		o.Tag("fault:before@create-database")
	}
	for _, k := range w.Order {
		if db := w.Farm.DB(k); db != nil {
			if _, uq := db.Unrecognised(); uq > 0 {
				statMu.Lock()
				unrecQueries += uq
				statMu.Unlock()
				o.Discard("query-not-modelled")
				return nil
			}
		}
	}
	if !completed {
		return fmt.Errorf("ctrl.Init cannot complete: %d attempts, the last %d without any fault, all fail; last error: %v [entries: %s]",
			attempts, 2, lastErr, describeEntries(c.Entries))
	}
	in.Armed = false

	// every entry's database holds the schema of ITS OWN configuration
	for i, e := range c.Entries {
		ref := getReference(e.updCfg())
		if ref.err != nil {
			return ref.err
		}
		db := w.Farm.DB(w.Keys[i])
		if db == nil {
			return fmt.Errorf("ctrl.Init reports success but the database of entry #%d (%s) was never created [entries: %s]", i, w.Keys[i], describeEntries(c.Entries))
		}
		if err := checkHistory(db.Calls(), ref); err != nil {
			return fmt.Errorf("entry #%d (%s): %v [entries: %s]", i, w.Keys[i], err, describeEntries(c.Entries))
		}
		if got := db.Cat.Schema(); got != ref.schema {
			return fmt.Errorf("ctrl.Init reports success but the schema of entry #%d (%s) differs from an uninterrupted initialisation of its configuration [entries: %s]:\n  %s",
				i, w.Keys[i], describeEntries(c.Entries), strings.Join(ref.cat.SchemaDiff(db.Cat), "\n  "))
		}
		for _, k := range ref.keys {
			if g, wv := db.Cat.MaxVer(k), ref.cat.MaxVer(k); g != wv {
				return fmt.Errorf("entry #%d (%s): stream %d ends at version %d, expected %d [entries: %s]", i, w.Keys[i], k, g, wv, describeEntries(c.Entries))
			}
		}
		if g, wv := settingsKeys(db.Cat), settingsKeys(ref.cat); g != wv {
			return fmt.Errorf("entry #%d (%s): settings markers %s, expected %s", i, w.Keys[i], g, wv)
		}
	}
	// up to date: one more Init changes nothing in any database
	in.Begin(attempts)
	if err := RunInit(cfg); err != nil {
		return fmt.Errorf("ctrl.Init on the up-to-date databases fails: %v [entries: %s]", err, describeEntries(c.Entries))
	}
	for _, k := range w.Order {
		db := w.Farm.DB(k)
		calls := db.Calls()
		for _, cl := range db.RunCalls(calls[len(calls)-1].Run) {
			if cl.Query {
				continue
			}
			if !isPrelude(cl) || cl.Changed {
				return fmt.Errorf("ctrl.Init on the up-to-date database %s executed %s", k, short(cl.SQL))
			}
		}
	}
	return nil
}

func addInit(r *evid.Run) {
	evid.Add(r, evid.Prop[initCase]{Name: "init-entries", Quick: 120, Thorough: 400, Gen: genInit, Pred: predInit})
}

var _ = fakech.CtrlNoFault

package c18

import (
	"encoding/json"
	"fmt"
	"os"
	"path/filepath"
	"regexp"
	"sort"
	"strings"
	"sync"

	"github.com/metrico/qryn/ctrl/qryn/maintenance"
	qsql "github.com/metrico/qryn/ctrl/qryn/sql"
	"pgregory.net/rapid"

	"qrynverif/evid"
	"qrynverif/fakech"
)

// ---- C18: schema initialisation survives failure at any statement and can be re-run ------
//
// Domain: maintenance.Update (the exported entry point ctrl.Init reaches through
// UpgradeAll/upgradeDB) on the ctrl fake, in the four modes upgradeDB can produce
// (ctrl/qryn/maintenance/maintain.go:17-28: mode = SINGLE|CLOUD, |DISTRIBUTED iff a cluster
// name is configured), with a fault plan: call number n of attempt r fails before its effect
// or after it; the attempt is then restarted on the same database until it succeeds.
//
// Oracle: an uninterrupted run on a fresh fake, itself checked against an independent split
// of the embedded .sql files.

type updCfg struct {
	// Mode: 1 single, 2 replicated (cloud), 5 clustered, 6 clustered+replicated.
	Mode       int    `json:"mode"`
	TTLDays    int    `json:"ttl_days"`
	Policy     string `json:"storage_policy,omitempty"`
	Ordering   string `json:"samples_ordering,omitempty"`
	SkipShards bool   `json:"skip_unavailable_shards,omitempty"`
	// DB is the database name ("" = "qryn"); only the entry-point checks vary it.
	DB string `json:"db,omitempty"`
	// Cluster is the cluster name used when the mode is distributed ("" = "qcluster").
	Cluster string `json:"cluster,omitempty"`
}

func (c updCfg) db() string {
	if c.DB == "" {
		return dbName
	}
	return c.DB
}

type faultSpec struct {
	Run int `json:"run"` // 0-based attempt the fault is armed in
	// By "call": At counts every Exec/Query of the attempt. By "mig": At counts only the
	// migration statements (scripts and version writes) the attempt executes, so a fault in a
	// restart lands on the statements that are re-executed.
	//
	// By "stmt": a fault sequence on one statement. The statement is the one call At of attempt
	// Run issues; from then on *every attempt qryn makes at that same statement text* — a
	// re-issue inside the same run (retry logic) or the re-execution by a restart — fails
	// again: the first K attempts (K = 0 counts as 1), or, when Persist > 0, every attempt
	// made during the attempts Run .. Run+Persist-1 (persistent failure for whole runs; it
	// succeeds in a later run).
	By      string `json:"by"`
	At      int    `json:"at"`
	Mode    string `json:"mode"` // before | after
	K       int    `json:"k,omitempty"`
	Persist int    `json:"persist,omitempty"`
	// Err names the error VALUE the fault returns (fakech.CtrlErrorKinds; "" = a plain error).
	Err string `json:"err,omitempty"`
}

type updCase struct {
	Cfg    updCfg      `json:"cfg"`
	Faults []faultSpec `json:"faults"`
}

const dbName = "qryn"

type nullLogger struct{}

func (nullLogger) Error(args ...any) {}
func (nullLogger) Debug(args ...any) {}
func (nullLogger) Info(args ...any)  {}

func runUpdate(conn *fakech.CtrlConn, cfg updCfg) error {
	cluster := ""
	if cfg.Mode&maintenance.CLUST_MODE_DISTRIBUTED != 0 {
		cluster = "qcluster" // upgradeDB: DISTRIBUTED iff ClusterName != ""
		if cfg.Cluster != "" {
			cluster = cfg.Cluster
		}
	}
	return maintenance.Update(conn, cfg.db(), cluster, cfg.Mode, cfg.TTLDays, cfg.Policy, cfg.Ordering, cfg.SkipShards, nullLogger{})
}

// ---- classification of the call log ---------------------------------------------------------

func isPrelude(c *fakech.CtrlCall) bool {
	return !c.Query && c.Stmt.Kind == "create_table" && (c.Stmt.Table == "ver" || c.Stmt.Table == "ver_dist")
}

func isVerWrite(c *fakech.CtrlCall) bool {
	return !c.Query && c.Stmt.Kind == "insert" && c.Stmt.Table == "ver"
}

func isScript(c *fakech.CtrlCall) bool { return !c.Query && !isPrelude(c) && !isVerWrite(c) }

func stmtClass(c *fakech.CtrlCall) string {
	switch {
	case c.Query:
		return "query"
	case isPrelude(c):
		return "create-ver"
	case isVerWrite(c):
		return "ver-write"
	case c.Stmt.Kind == "alter":
		if c.Stmt.HasUnguarded() {
			return "alter-unguarded"
		}
		return "alter-guarded"
	case c.Stmt.Kind == "rename":
		if c.Stmt.Renames[0].Guard {
			return "rename-guarded"
		}
		return "rename-unguarded"
	}
	if c.Stmt.Guard {
		return c.Stmt.Kind + "-guarded"
	}
	return c.Stmt.Kind
}

// ---- independent reading of the migration files ---------------------------------------------

// splitScripts splits a migration file the way its header documents: "## …" lines are
// comments, queries are separated by ';' followed by an empty line.
func splitScripts(file string) []string {
	var out []string
	var cur []string
	flush := func() {
		s := strings.TrimSpace(strings.Join(cur, "\n"))
		cur = nil
		if s != "" {
			out = append(out, s)
		}
	}
	for _, ln := range strings.Split(file, "\n") {
		blank := strings.TrimSpace(ln) == "" || strings.HasPrefix(ln, "##")
		if !blank {
			cur = append(cur, ln)
			continue
		}
		if len(cur) > 0 && strings.HasSuffix(strings.TrimRight(cur[len(cur)-1], " \t\r"), ";") {
			flush()
		}
	}
	flush()
	return out
}

var tplRe = regexp.MustCompile(`\{\{\.(\w+)\}\}`)
var sentinelRe = regexp.MustCompile(`QQ\w+?QQ`)

// skeleton turns a script template into a regexp over the space-free canonical statement:
// every {{.X}} may render to anything.
func skeleton(script string) *regexp.Regexp {
	// a placeholder inside a string literal or glued to an identifier stays glued: the
	// comparison is made on the space-free form
	s := tplRe.ReplaceAllString(script, "QQ${1}QQ")
	canon := strings.ReplaceAll(fakech.CtrlCanon(s), " ", "")
	q := regexp.QuoteMeta(canon)
	q = sentinelRe.ReplaceAllString(q, ".*?")
	return regexp.MustCompile("(?s)^" + q + "$")
}

var files = []struct {
	name string
	text string
	dist bool
}{
	{"log.sql", qsql.LogScript, false},
	{"log_dist.sql", qsql.LogDistScript, true},
	{"traces.sql", qsql.TracesScript, false},
	{"traces_dist.sql", qsql.TracesDistScript, true},
	{"profiles.sql", qsql.ProfilesScript, false},
	{"profiles_dist.sql", qsql.ProfilesDistScript, true},
}

// ---- reference run -----------------------------------------------------------------------------

type reference struct {
	err     error
	cat     *fakech.CtrlCatalog
	schema  string
	calls   []*fakech.CtrlCall
	streams map[int64][]string // k -> canonical script statements in execution order
	file    map[int64]string   // k -> file name
	keys    []int64
	unrec   int
}

// refCache holds the reference run per configuration. Generated checks draw thousands of
// configurations, so the cache is bounded (a reference costs a few milliseconds to rebuild):
// when it is full it is emptied.
var refCache boundedCache

type boundedCache struct {
	mu sync.Mutex
	m  map[string]any
}

const boundedCacheMax = 48

func (c *boundedCache) Load(k string) (any, bool) {
	c.mu.Lock()
	defer c.mu.Unlock()
	v, ok := c.m[k]
	return v, ok
}

func (c *boundedCache) Store(k string, v any) {
	c.mu.Lock()
	defer c.mu.Unlock()
	if c.m == nil || len(c.m) >= boundedCacheMax {
		c.m = map[string]any{}
	}
	c.m[k] = v
}

// sections cuts the calls of one run into stream sections: a section starts at the
// `SELECT max(ver) … WHERE k = n` query and is keyed by n.
func sections(calls []*fakech.CtrlCall) (pre []*fakech.CtrlCall, keys []int64, secs map[int][]*fakech.CtrlCall) {
	secs = map[int][]*fakech.CtrlCall{}
	cur := -1
	for _, c := range calls {
		if c.Query && c.Stmt.Kind == "select_ver" {
			var k int64
			fmt.Sscan(lastField(c.SQL), &k)
			keys = append(keys, k)
			cur = len(keys) - 1
			continue
		}
		if cur < 0 {
			pre = append(pre, c)
		} else {
			secs[cur] = append(secs[cur], c)
		}
	}
	return
}

var verKRe = regexp.MustCompile(`(?i)\bk\s*=\s*(-?\d+)`)

func lastField(sql string) string {
	if m := verKRe.FindStringSubmatch(sql); m != nil {
		return m[1]
	}
	return "0"
}

func getReference(cfg updCfg) *reference {
	key, _ := json.Marshal(cfg)
	if r, ok := refCache.Load(string(key)); ok {
		return r.(*reference)
	}
	ref := &reference{streams: map[int64][]string{}, file: map[int64]string{}}
	conn := fakech.NewCtrlConn(cfg.db())
	conn.BeginRun()
	if err := runUpdate(conn, cfg); err != nil {
		ref.err = fmt.Errorf("uninterrupted initialisation of an empty database failed: %v (last statement: %s)", err, lastSQL(conn))
		refCache.Store(string(key), ref)
		return ref
	}
	ref.cat = conn.Cat
	ref.schema = conn.Cat.Schema()
	ref.calls = conn.Calls()
	ref.unrec, _ = conn.Unrecognised()
	_, keys, secs := sections(ref.calls)
	for i, k := range keys {
		if _, dup := ref.streams[k]; dup {
			ref.err = fmt.Errorf("reference run reads the version of stream %d twice", k)
			break
		}
		ref.keys = append(ref.keys, k)
		ref.streams[k] = []string{}
		for _, c := range secs[i] {
			if isScript(c) {
				ref.streams[k] = append(ref.streams[k], fakech.CtrlCanon(c.SQL))
			}
		}
	}
	if ref.err == nil {
		ref.err = ref.checkAgainstFiles(cfg)
	}
	refCache.Store(string(key), ref)
	return ref
}

// checkAgainstFiles: the uninterrupted run executed exactly the scripts of the files the
// mode calls for, each file as one stream, in file order, none skipped — and recorded the
// number of scripts as the stream's version.
func (ref *reference) checkAgainstFiles(cfg updCfg) error {
	dist := cfg.Mode&maintenance.CLUST_MODE_DISTRIBUTED != 0
	used := map[int64]bool{}
	for _, f := range files {
		if f.dist && !dist {
			continue
		}
		want := splitScripts(f.text)
		found := false
		var why string
		for _, k := range ref.keys {
			if used[k] {
				continue
			}
			got := ref.streams[k]
			if len(got) == 0 || !skeleton(want[0]).MatchString(strings.ReplaceAll(got[0], " ", "")) {
				continue
			}
			if len(got) != len(want) {
				why = fmt.Sprintf("stream %d executed %d scripts, the file holds %d", k, len(got), len(want))
				continue
			}
			ok := true
			for i := range want {
				if !skeleton(want[i]).MatchString(strings.ReplaceAll(got[i], " ", "")) {
					ok = false
					why = fmt.Sprintf("stream %d script %d is %q, the file holds %q", k, i+1, got[i], want[i])
					break
				}
			}
			if ok {
				found = true
				used[k] = true
				ref.file[k] = f.name
				if v := ref.cat.MaxVer(k); v != uint64(len(want)) {
					return fmt.Errorf("uninterrupted run: %s has %d scripts but version %d is recorded for stream %d", f.name, len(want), v, k)
				}
				break
			}
		}
		if !found {
			return fmt.Errorf("uninterrupted run did not execute the scripts of %s in file order (%s)", f.name, why)
		}
	}
	for _, k := range ref.keys {
		if !used[k] {
			return fmt.Errorf("uninterrupted run executed a stream %d that matches no migration file", k)
		}
	}
	return nil
}

func lastSQL(conn *fakech.CtrlConn) string {
	calls := conn.Calls()
	if len(calls) == 0 {
		return "-"
	}
	c := calls[len(calls)-1]
	return fmt.Sprintf("[run %d call %d] %s => %s", c.Run, c.Index, short(c.SQL), c.Err)
}

func short(s string) string {
	s = strings.Join(strings.Fields(s), " ")
	if len(s) > 160 {
		return s[:160] + "…"
	}
	return s
}

// ---- known findings ------------------------------------------------------------------------------

var (
	knownOnce sync.Once
	knownSet  map[string]bool
)

// knownIDs returns the ids of C18 findings recorded with status "known": their regions are
// excluded from the campaign (counted), the witnesses are still replayed by the runner.
func knownIDs() map[string]bool {
	knownOnce.Do(func() {
		knownSet = map[string]bool{}
		root := os.Getenv("VERIF_ROOT")
		if root == "" {
			root = "/verif"
		}
		fs, _ := filepath.Glob(filepath.Join(root, "known_findings.d", "*.json"))
		fs = append(fs, filepath.Join(root, "known_findings.json"))
		for _, fn := range fs {
			b, err := os.ReadFile(fn)
			if err != nil {
				continue
			}
			var doc struct {
				Findings []evid.Finding `json:"findings"`
			}
			if json.Unmarshal(b, &doc) != nil {
				continue
			}
			for _, f := range doc.Findings {
				if f.Property == "C18" && f.Status == "known" {
					knownSet[f.ID] = true
				}
			}
		}
	})
	return knownSet
}

const (
	findRename    = "C18-rename-not-rerunnable"
	findAddColumn = "C18-add-column-not-rerunnable"
)

// ---- the predicate ---------------------------------------------------------------------------------

var (
	statMu        sync.Mutex
	unrecQueries  int
	unrecStmtSeen = map[string]bool{}
)

func predUpdate(c updCase, o *evid.Obs) error {
	ref := getReference(c.Cfg)
	if ref.err != nil {
		return ref.err
	}
	o.Tag(fmt.Sprintf("mode:%d", c.Cfg.Mode))

	conn := fakech.NewCtrlConn(c.Cfg.db())
	maxFaultRun := -1
	for _, f := range c.Faults {
		if f.Run > maxFaultRun {
			maxFaultRun = f.Run
		}
	}
	var fired []*fakech.CtrlCall
	attempt := 0
	migSeen := 0
	type seqState struct {
		target string // canonical text of the addressed statement, "" until call At was seen
		query  bool
		failed int
	}
	seq := make([]seqState, len(c.Faults))
	mode := func(f faultSpec) fakech.CtrlFaultMode {
		switch f.Mode {
		case "after":
			return fakech.CtrlFailAfter
		case "kill-before":
			return fakech.CtrlKillBefore
		case "kill-after":
			return fakech.CtrlKillAfter
		}
		return fakech.CtrlFailBefore
	}
	// kill modes: the attempt runs in its own goroutine which the fake parks forever at the
	// fault point (no deferred function, no error path of qryn runs — a killed process); the
	// goroutine is leaked on purpose, the catalogue is released at the end of the case
	hasKill := false
	for _, f := range c.Faults {
		if strings.HasPrefix(f.Mode, "kill") {
			hasKill = true
		}
	}
	if hasKill {
		defer conn.Discard()
	}
	errKilled := fmt.Errorf("killed at the fault point")
	runAttempt := func() error {
		if !hasKill {
			return runUpdate(conn, c.Cfg)
		}
		done := make(chan error, 1)
		go func() {
			defer func() {
				if p := recover(); p != nil {
					done <- fmt.Errorf("panic: %v", p)
				}
			}()
			done <- runUpdate(conn, c.Cfg)
		}()
		select {
		case err := <-done:
			return err
		case <-conn.Parked():
			o.Tag("killed-attempt")
			return errKilled
		}
	}
	disarmed := false
	kindOf := map[*fakech.CtrlCall]string{}
	conn.FaultErr = func(cl *fakech.CtrlCall) error { return fakech.CtrlPanelError(kindOf[cl], cl) }
	conn.Decide = func(cl *fakech.CtrlCall) fakech.CtrlFaultMode {
		if disarmed {
			return fakech.CtrlNoFault
		}
		mig := !cl.Query && !isPrelude(cl)
		defer func() {
			if mig {
				migSeen++
			}
		}()
		for i, f := range c.Faults {
			if f.By == "stmt" {
				st := &seq[i]
				if st.target == "" {
					if f.Run != attempt || f.At != cl.Index {
						continue
					}
					st.target, st.query = fakech.CtrlCanon(cl.SQL), cl.Query
				} else if st.query != cl.Query || st.target != fakech.CtrlCanon(cl.SQL) {
					continue
				}
				k := f.K
				if k < 1 {
					k = 1
				}
				if (f.Persist > 0 && attempt < f.Run+f.Persist) || (f.Persist <= 0 && st.failed < k) {
					st.failed++
					fired = append(fired, cl)
					kindOf[cl] = f.Err
					return mode(f)
				}
				continue
			}
			if f.Run != attempt {
				continue
			}
			hit := (f.By == "mig" && mig && f.At == migSeen) || (f.By != "mig" && f.At == cl.Index)
			if hit {
				fired = append(fired, cl)
				kindOf[cl] = f.Err
				return mode(f)
			}
		}
		return fakech.CtrlNoFault
	}

	// restarts until success; after the last attempt a fault can still fire in, at most two more
	maxRuns := maxFaultRun + 3
	for _, f := range c.Faults {
		if f.By == "stmt" {
			maxRuns += max(f.K, f.Persist, 1)
		}
	}
	completed := false
	var lastErr error
	attempts := 0
	for attempt = 0; attempt < maxRuns; attempt++ {
		attempts++
		run := conn.BeginRun()
		migSeen = 0
		nFired := len(fired)
		lastErr = runAttempt()
		if lastErr == nil {
			if len(fired) > nFired {
				// an injected error did not surface: legitimate only if the statement was re-issued and succeeded
				o.Tag("success-after-fault-in-same-run")
				if verr := neverSucceeded(conn.RunCalls(run)); verr != nil {
					return fmt.Errorf("%v [faults: %s]", verr, describe(fired, ref))
				}
			}
			completed = true
			break
		}
	}
	_, uq := conn.Unrecognised()
	if uq > 0 {
		statMu.Lock()
		unrecQueries += uq
		statMu.Unlock()
		o.Discard("query-not-modelled")
		return nil
	}
	for _, cl := range conn.Calls() {
		if cl.Stmt.Unrecognised && !cl.Query {
			o.Tag("unrecognised-statement")
			statMu.Lock()
			unrecStmtSeen[short(cl.SQL)] = true
			statMu.Unlock()
		}
	}
	_ = lastErr
	o.Tag(fmt.Sprintf("attempts:%d", min(attempts, 8)), fmt.Sprintf("faults-fired:%d", min(len(fired), 6)))
	for i, f := range c.Faults {
		if f.By != "stmt" {
			continue
		}
		switch {
		case seq[i].target == "":
			o.Tag("seq:not-reached")
		case f.Persist > 0:
			o.Tag(fmt.Sprintf("seq:persist-%d-runs", min(f.Persist, 3)))
		default:
			o.Tag(fmt.Sprintf("seq:k=%d", max(f.K, 1)))
		}
	}
	perRun := map[string]int{}
	for _, f := range fired {
		perRun[fmt.Sprintf("%d/%s", f.Run, fakech.CtrlCanon(f.SQL))]++
	}
	for _, n := range perRun {
		if n > 1 {
			o.Tag("seq:re-issued-in-same-run")
			break
		}
	}
	for _, f := range fired {
		ek := kindOf[f]
		if ek == "" {
			ek = "plain"
		}
		o.Tag("error:" + ek)
		if !f.Query && f.Stmt.Kind == "rename" {
			o.Tag("non-rerunnable-kind:rename@" + string(f.Fault))
		}
		if !f.Query && f.Stmt.Kind == "alter" {
			for _, cmd := range f.Stmt.Cmds {
				if cmd.Op == "modify_order_by" {
					o.Tag("non-rerunnable-kind:modify-order-by@" + string(f.Fault))
				}
			}
		}
		o.Tag("fault:" + string(f.Fault) + "@" + stmtClass(f))
		if !f.Query && (f.Stmt.NonIdempotent() || isVerWrite(f)) {
			o.NonTrivial()
		}
	}

	if !completed {
		calls := conn.Calls()
		last := calls[len(calls)-1]
		if !o.Witness && last.ModelErr {
			id := ""
			switch {
			case last.Stmt.Kind == "rename":
				id = findRename
			case last.Stmt.HasUnguarded():
				id = findAddColumn
			}
			if id != "" && knownIDs()[id] {
				o.Known(id)
				return nil
			}
		}
		where := "?"
		for k, ss := range ref.streams {
			for i, s := range ss {
				if s == fakech.CtrlCanon(last.SQL) {
					where = fmt.Sprintf("%s (stream %d) script %d", ref.file[k], k, i+1)
				}
			}
		}
		lastFaulted := 0
		if len(fired) > 0 {
			lastFaulted = fired[len(fired)-1].Run
		}
		return fmt.Errorf("initialisation cannot complete: after %d fault(s) %s, %d further restart(s) all fail; the last one at %s: %s => %s",
			len(fired), describe(fired, ref), attempts-lastFaulted, where, short(last.SQL), last.Err)
	}

	if err := checkHistory(conn.Calls(), ref); err != nil {
		return fmt.Errorf("%v [faults: %s]", err, describe(fired, ref))
	}

	// final state equals the uninterrupted run's
	if got := conn.Cat.Schema(); got != ref.schema {
		return fmt.Errorf("final schema differs from an uninterrupted run's [faults: %s]:\n  %s", describe(fired, ref),
			strings.Join(ref.cat.SchemaDiff(conn.Cat), "\n  "))
	}
	for _, k := range ref.keys {
		if g, w := conn.Cat.MaxVer(k), ref.cat.MaxVer(k); g != w {
			return fmt.Errorf("stream %d (%s) ends at version %d, an uninterrupted run ends at %d [faults: %s]", k, ref.file[k], g, w, describe(fired, ref))
		}
	}
	if g, w := settingsKeys(conn.Cat), settingsKeys(ref.cat); g != w {
		return fmt.Errorf("settings markers differ from an uninterrupted run's: %s vs %s [faults: %s]", g, w, describe(fired, ref))
	}

	// an up-to-date database: one more initialisation executes no migration script
	extra := conn.BeginRun()
	disarmed = true // no fault armed
	if err := runUpdate(conn, c.Cfg); err != nil {
		return fmt.Errorf("initialisation of the up-to-date database fails: %v (%s)", err, lastSQL(conn))
	}
	for _, cl := range conn.RunCalls(extra) {
		if cl.Query {
			continue
		}
		if !isPrelude(cl) || cl.Changed {
			return fmt.Errorf("initialisation of the up-to-date database executed %s", short(cl.SQL))
		}
	}
	return nil
}

// neverSucceeded: a run that reports success must not contain a statement all of whose
// attempts in that run failed before taking effect.
func neverSucceeded(calls []*fakech.CtrlCall) error {
	type rec struct {
		tries, ok int
		first     *fakech.CtrlCall
	}
	seen := map[string]*rec{}
	var order []string
	for _, c := range calls {
		if c.Query {
			continue // a query has no effect; what the code does without its answer is judged by the state checks
		}
		k := fakech.CtrlCanon(c.SQL)
		r := seen[k]
		if r == nil {
			r = &rec{first: c}
			seen[k] = r
			order = append(order, k)
		}
		r.tries++
		if c.Applied {
			r.ok++
		}
	}
	for _, k := range order {
		if r := seen[k]; r.ok == 0 {
			return fmt.Errorf("the run reports success although %d attempt(s) at this statement all failed and it never took effect in the run: %s => %s", r.tries, short(r.first.SQL), r.first.Err)
		}
	}
	return nil
}

func settingsKeys(cat *fakech.CtrlCatalog) string {
	var ks []string
	for fp, r := range cat.LatestSettings() {
		ks = append(ks, fp+"/"+r.Type+"/"+r.Name)
	}
	sort.Strings(ks)
	return strings.Join(ks, ",")
}

func describe(fired []*fakech.CtrlCall, ref *reference) string {
	var out []string
	for _, f := range fired {
		out = append(out, fmt.Sprintf("attempt %d call %d fails %s: %s", f.Run-1, f.Index, f.Fault, short(f.SQL)))
	}
	if len(out) == 0 {
		return "none fired"
	}
	return strings.Join(out, "; ")
}

// checkHistory decides the order / version invariants over the whole call log:
//   - a script of a stream is only executed when all earlier scripts of the stream took
//     effect before (file order, none skipped);
//   - a version n is only recorded for a stream when scripts 1..n all took effect before;
//   - at the end every script took effect at least once.
func checkHistory(calls []*fakech.CtrlCall, ref *reference) error {
	applied := map[int64][]int{}
	for k, ss := range ref.streams {
		applied[k] = make([]int, len(ss))
	}
	byRun := map[int][]*fakech.CtrlCall{}
	var runs []int
	for _, c := range calls {
		if _, ok := byRun[c.Run]; !ok {
			runs = append(runs, c.Run)
		}
		byRun[c.Run] = append(byRun[c.Run], c)
	}
	for _, run := range runs {
		pre, keys, secs := sections(byRun[run])
		for _, c := range pre {
			if !isPrelude(c) {
				return fmt.Errorf("attempt %d executes %s before reading any stream version", run-1, short(c.SQL))
			}
		}
		for si, k := range keys {
			scripts, ok := ref.streams[k]
			if !ok {
				return fmt.Errorf("attempt %d works on stream %d which an uninterrupted run never touches", run-1, k)
			}
			ap := applied[k]
			for _, c := range secs[si] {
				switch {
				case c.Query || isPrelude(c):
				case isVerWrite(c):
					if c.Fault == fakech.CtrlFailBefore || !c.Applied {
						continue
					}
					wk, v, ok := c.Stmt.VerRow()
					if !ok {
						return fmt.Errorf("version write not understood: %s", short(c.SQL))
					}
					if v > uint64(len(ref.streams[wk])) {
						return fmt.Errorf("version %d recorded for stream %d (%s) which has only %d scripts", v, wk, ref.file[wk], len(ref.streams[wk]))
					}
					for j := 0; j < int(v); j++ {
						if applied[wk][j] == 0 {
							return fmt.Errorf("version %d recorded for stream %d (%s) although its script %d never completed: %s",
								v, wk, ref.file[wk], j+1, short(ref.streams[wk][j]))
						}
					}
				default:
					text := fakech.CtrlCanon(c.SQL)
					// candidates: same text (log.sql holds one INSERT twice); greedy assignment
					idx := -1
					lastSame := -1
					for i, s := range scripts {
						if s != text {
							continue
						}
						lastSame = i
						if ap[i] == 0 && idx < 0 {
							idx = i
						}
					}
					if lastSame < 0 {
						return fmt.Errorf("attempt %d executes in stream %d (%s) a statement an uninterrupted run never executes: %s", run-1, k, ref.file[k], short(c.SQL))
					}
					if idx < 0 {
						idx = lastSame // re-execution of a completed script
					}
					for j := 0; j < idx; j++ {
						if ap[j] == 0 {
							return fmt.Errorf("attempt %d executes script %d of stream %d (%s) although script %d never completed (skipped): %s",
								run-1, idx+1, k, ref.file[k], j+1, short(scripts[j]))
						}
					}
					if c.Applied && c.Fault != fakech.CtrlFailBefore {
						ap[idx]++
					}
				}
			}
		}
	}
	for _, k := range ref.keys {
		ap := applied[k]
		for i, n := range ap {
			if n == 0 {
				return fmt.Errorf("script %d of stream %d (%s) never took effect: %s", i+1, k, ref.file[k], short(ref.streams[k][i]))
			}
		}
	}
	return nil
}

// ---- enumeration: every call of an uninterrupted run × {before, after} × mode -----------------------

var enumCfgs = []updCfg{
	{Mode: 1, TTLDays: 7},
	{Mode: 2, TTLDays: 30, Policy: "tiered"},
	{Mode: 5, TTLDays: 7, SkipShards: true},
	{Mode: 6, TTLDays: 14, Policy: "tiered", Ordering: "fingerprint, timestamp_ns"},
}

func enumerateSingle(yield func(updCase)) {
	for _, cfg := range enumCfgs {
		ref := getReference(cfg)
		n := len(ref.calls)
		if ref.err != nil {
			n = 1 // the predicate reports the reference failure
		}
		for i := 0; i < n; i++ {
			for mi, m := range []string{"before", "after"} {
				// every call × mode is enumerated; the error value rotates through the panel
				// (the full call × mode × error-value grid is the sub-check fault-error-values)
				ek := fakech.CtrlErrorKinds[(i+5*mi)%len(fakech.CtrlErrorKinds)]
				yield(updCase{Cfg: cfg, Faults: []faultSpec{{Run: 0, By: "call", At: i, Mode: m, Err: ek}}})
			}
			// killed at the statement: the call never returns
			for _, m := range []string{"kill-before", "kill-after"} {
				yield(updCase{Cfg: cfg, Faults: []faultSpec{{Run: 0, By: "call", At: i, Mode: m}}})
			}
		}
	}
}

// enumerateErrors: every call × {before, after} × every error value of the panel × 4 modes.
func enumerateErrors(yield func(updCase)) {
	for _, cfg := range enumCfgs {
		ref := getReference(cfg)
		n := len(ref.calls)
		if ref.err != nil {
			n = 1
		}
		for i := 0; i < n; i++ {
			for _, m := range []string{"before", "after"} {
				for _, ek := range fakech.CtrlErrorKinds {
					yield(updCase{Cfg: cfg, Faults: []faultSpec{{Run: 0, By: "call", At: i, Mode: m, Err: ek}}})
				}
			}
		}
	}
}

func addErrors(r *evid.Run) {
	evid.Add(r, evid.Prop[updCase]{Name: "fault-error-values", Quick: 600, Thorough: 0, Enumerate: enumerateErrors, Pred: predUpdate})
}

func addSingle(r *evid.Run) {
	evid.Add(r, evid.Prop[updCase]{Name: "single-fault", Quick: 0, Thorough: 0, Enumerate: enumerateSingle, Pred: predUpdate})
}

// ---- enumeration: one statement × fault sequence (k = 1..5 consecutive attempts, or persistent for a whole run) ----

func enumerateSeq(yield func(updCase)) {
	for _, cfg := range enumCfgs {
		ref := getReference(cfg)
		n := len(ref.calls)
		if ref.err != nil {
			n = 1
		}
		for i := 0; i < n; i++ {
			for _, m := range []string{"before", "after"} {
				for k := 1; k <= 5; k++ {
					ek := fakech.CtrlErrorKinds[(i+k)%len(fakech.CtrlErrorKinds)]
					yield(updCase{Cfg: cfg, Faults: []faultSpec{{Run: 0, By: "stmt", At: i, Mode: m, K: k, Err: ek}}})
				}
				yield(updCase{Cfg: cfg, Faults: []faultSpec{{Run: 0, By: "stmt", At: i, Mode: m, Persist: 1, Err: fakech.CtrlErrorKinds[i%len(fakech.CtrlErrorKinds)]}}})
			}
		}
	}
}

func addSeq(r *evid.Run) {
	evid.Add(r, evid.Prop[updCase]{Name: "stmt-fault-sequence", Quick: 500, Thorough: 0, Enumerate: enumerateSeq, Pred: predUpdate})
}

// ---- generated plans: 1–3 faults over successive attempts, generated configuration ---------------

func genMulti(rt *rapid.T) updCase {
	c := updCase{}
	c.Cfg.Mode = rapid.SampledFrom([]int{1, 2, 5, 6}).Draw(rt, "mode")
	// upgradeDB refuses ttl_days == 0 (maintain.go:24)
	c.Cfg.TTLDays = rapid.IntRange(1, 400).Draw(rt, "ttl")
	// storage policy / ordering come from the environment (main.go:140, config): plain identifiers
	c.Cfg.Policy = rapid.SampledFrom([]string{"", "", "tiered", "hot_cold"}).Draw(rt, "policy")
	c.Cfg.Ordering = rapid.SampledFrom([]string{"", "", "fingerprint, timestamp_ns", "timestamp_ns, fingerprint"}).Draw(rt, "ordering")
	c.Cfg.SkipShards = rapid.Bool().Draw(rt, "skip")
	// number of calls of a full run in this mode (only sizes the generator; the predicate does not depend on it)
	n := 260
	var hot []int // calls of a full run that are not idempotent (RENAME, INSERT, unguarded ALTER) and the version writes after them
	if ref := getReference(updCfg{Mode: c.Cfg.Mode, TTLDays: 7}); ref.err == nil {
		n = len(ref.calls)
		for i, cl := range ref.calls {
			if !cl.Query && !isVerWrite(cl) && cl.Stmt.NonIdempotent() {
				hot = append(hot, i, i+1)
			}
		}
	}
	nf := rapid.IntRange(1, 3).Draw(rt, "nfaults")
	run := 0
	for i := 0; i < nf; i++ {
		f := faultSpec{Run: run, Mode: rapid.SampledFrom([]string{"before", "after"}).Draw(rt, "fmode"),
			Err: rapid.SampledFrom(fakech.CtrlErrorKinds).Draw(rt, "errkind")}
		if rapid.IntRange(0, 7).Draw(rt, "kill") == 0 {
			f.Mode = "kill-" + f.Mode // the process is killed there instead of seeing an error
		}
		if i == 0 {
			f.By = "call"
			if len(hot) > 0 && rapid.IntRange(0, 2).Draw(rt, "hot") == 0 {
				f.At = rapid.SampledFrom(hot).Draw(rt, "at")
			} else {
				f.At = rapid.IntRange(0, n-1).Draw(rt, "at")
			}
			seqFault(rt, &f)
		} else if rapid.IntRange(0, 2).Draw(rt, "seq-restart") == 0 {
			// a fault sequence on a statement of a restart: calls of a restart are few (three per
			// finished stream, then the resumed scripts)
			f.By = "call"
			f.At = rapid.IntRange(0, 30).Draw(rt, "at")
			seqFault(rt, &f)
		} else {
			// a restart skips what is recorded: count migration statements so the fault lands on
			// the re-executed ones (0 = the very statement that is repeated first)
			f.By = "mig"
			f.At = rapid.IntRange(0, 6).Draw(rt, "at")
		}
		c.Faults = append(c.Faults, f)
		// consecutive attempts mostly; sometimes two faults would share an attempt (only the first fires)
		if rapid.IntRange(0, 9).Draw(rt, "same") > 0 {
			run++
		}
	}
	return c
}

// seqFault turns, half of the time, a single-shot fault into a fault sequence on its statement.
func seqFault(rt *rapid.T, f *faultSpec) {
	switch rapid.IntRange(0, 3).Draw(rt, "seqkind") {
	case 0:
		f.By = "stmt"
		f.K = rapid.IntRange(1, 5).Draw(rt, "k")
	case 1:
		f.By = "stmt"
		f.Persist = rapid.IntRange(1, 2).Draw(rt, "persist")
	}
}

func addMulti(r *evid.Run) {
	evid.Add(r, evid.Prop[updCase]{Name: "multi-fault", Quick: 1000, Thorough: 8000, Gen: genMulti, Pred: predUpdate})
}

package c02

import (
	"testing"

	"qrynverif/evid"
)

var cfg = evid.Config{
	Level: "exploration",
	Rule: "the proto.Input of every INSERT observed in gated histories and free-running stress over the real insert services (hand-built requests and requests produced by the real parsers from generated bodies); " +
		"non-trivial: a block holding rows of >= 2 submissions, or a block sent by a service whose previous block failed",
	Assumptions: []string{
		"hand-built requests keep all per-row arrays the same length (the documented precondition); a ProfileData request is one profile",
		"rows are identified by a marker column per table; every other column of a generated row is a function of the same marker",
		"the block a retried part went to is the k-th block holding its rows for the k-th submission (a retry follows the answer to the previous attempt)",
	},
}

func TestProp(t *testing.T) {
	r := evid.New(t, "C02", cfg)
	addHistory(r)
	addStress(r, 0, 0) // not run here (TestRace does); registered so that stress replay files can be replayed
	addStall(r)        // thorough tier only
	r.Main()
}

// TestRace is the free-running driver; the driver builds it with -race.
func TestRace(t *testing.T) {
	r := evid.New(t, "C02", cfg)
	RaceT = t
	defer func() { RaceT = nil }()
	addStress(r, 40, 250)
	r.Main()
}

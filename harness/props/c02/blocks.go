package c02

import (
	"fmt"
	"os"
	"sort"
	"testing"

	"pgregory.net/rapid"

	"qrynverif/evid"
	"qrynverif/fakech"
	"qrynverif/inssvc"
)

// ---- C02: every INSERT block is rectangular and made only of whole submitted rows --------
//
// Same harness and drivers as C01. Oracle, for every proto.Input handed to the ClickHouse
// client:
//
//	(1) all columns have the same Rows() (the rule and error of ch-go's block encoder) and
//	    nested array/tuple columns are well formed;
//	(2) every row of the block is one submitted row: its marker belongs to a row submitted to
//	    that service and every column carries that row's value;
//	(3) no marker occurs twice in a block;
//	(4) the rows of one submission are all in one block (never split, never partly left out),
//	    a request part appears in at most as many blocks as it was submitted (retries), and
//	    the block's outcome is the outcome the submission was answered with;
//	(5) requests produced by the real parsers keep all per-row arrays the same length;
//	(6) single worker, direct pushes: the block is exactly the predicted open batch, rows in
//	    submission order.

// CheckBlocks decides (1)–(6) on a trace.
func CheckBlocks(a *inssvc.Analysis) error {
	tr := a.T
	// submitted rows per service
	type sk struct {
		k inssvc.Kind
		m string
	}
	submitted := map[sk]inssvc.Row{}
	for _, s := range tr.Subs {
		for _, r := range s.Rows {
			submitted[sk{s.Kind, r.Marker}] = r
		}
	}
	calls := append([]*fakech.Call(nil), tr.Calls...)
	sort.Slice(calls, func(i, j int) bool { return calls[i].Seq < calls[j].Seq })
	for _, c := range calls {
		k := inssvc.KindOfCall(c)
		name := fmt.Sprintf("INSERT #%d into %s (%s service)", c.Seq, c.Table, k)
		if c.RectErr != "" {
			lens := ""
			for _, col := range c.Columns {
				lens += fmt.Sprintf(" %s=%d", col.Name, col.Rows)
			}
			return fmt.Errorf("%s is not rectangular: %s (column lengths:%s)", name, c.RectErr, lens)
		}
		if c.ShapeErr != "" {
			return fmt.Errorf("%s has a malformed nested column: %s", name, c.ShapeErr)
		}
		seen := map[string]int{}
		for i, r := range a.Rows[c] {
			w, ok := submitted[sk{k, r.Marker}]
			if !ok {
				return fmt.Errorf("%s row %d (%q) is not a row any request submitted to that service: %v", name, i, r.Marker, r.Cols)
			}
			if d := inssvc.DiffRow(w, r); d != "" {
				return fmt.Errorf("%s row %d (%q) mixes fields of different rows: %s", name, i, r.Marker, d)
			}
			if j, dup := seen[r.Marker]; dup {
				return fmt.Errorf("%s holds row %q twice (rows %d and %d)", name, r.Marker, j, i)
			}
			seen[r.Marker] = i
		}
	}
	// (2b) rows that came through a real parser: every column whose value the body generator
	// knows (line, value, type, timestamps, names, ids, the raw span payload, tag pairs,
	// profile arrays) must carry it in every block that holds the row - the request struct
	// the parser built is not taken at its word
	for _, rq := range tr.Reqs {
		if !rq.HTTP {
			continue
		}
		for _, e := range rq.Expect {
			if len(e.Cols) == 0 {
				continue
			}
			for _, oc := range a.FindAll(e) {
				row := a.Rows[oc.Call][oc.Row]
				for col, want := range e.Cols {
					got, ok := row.Cols[col]
					if !ok || !inssvc.SameValue(want, got) {
						return fmt.Errorf("INSERT #%d into %s row %d (%q, http request %d, %s): column %s holds %s, the pushed body says %s",
							oc.Call.Seq, oc.Call.Table, oc.Row, row.Marker, rq.ID, rq.Proto, col, brief(got), brief(want))
					}
				}
			}
		}
	}
	for _, p := range a.Parts {
		if len(p.Subs) == 0 || len(p.Subs[0].Rows) == 0 {
			continue
		}
		rq := a.ReqByID[p.ReqID]
		fromParser := rq != nil && rq.HTTP
		if s := p.Subs[0]; s.Ragged != "" && (fromParser || o(p)) {
			return fmt.Errorf("request %d (%s part): the parser produced per-row arrays of different length: %s", p.ReqID, p.Kind, s.Ragged)
		}
		if len(p.Blocks) > len(p.Subs) {
			return fmt.Errorf("request %d (%s part) was submitted %d time(s) but its rows are in %d INSERT blocks (#%d …)", p.ReqID, p.Kind, len(p.Subs), len(p.Blocks), p.Blocks[0].Seq)
		}
		okBlocks := 0
		for _, blk := range p.Blocks {
			if blk.OKResult() {
				okBlocks++
				if okBlocks == 2 {
					return fmt.Errorf("request %d (%s part) was sent again in INSERT #%d although an earlier INSERT carrying its rows had already succeeded: its rows are stored twice", p.ReqID, p.Kind, blk.Seq)
				}
			}
		}
		for _, blk := range p.Blocks {
			n := 0
			first := ""
			for _, r := range p.Subs[0].Rows {
				cnt := 0
				for _, oc := range a.ByMarker[r.Table+"|"+r.Marker] {
					if oc.Call == blk {
						cnt++
					}
				}
				if cnt != 1 {
					if n == 0 {
						first = fmt.Sprintf("%q occurs %d times", r.Marker, cnt)
					}
					n++
				}
			}
			if n > 0 {
				return fmt.Errorf("request %d (%s part, %d rows) is only partly in INSERT #%d: %d rows are not there exactly once (%s)", p.ReqID, p.Kind, len(p.Subs[0].Rows), blk.Seq, n, first)
			}
		}
		if tr.Stopped[p.Kind] {
			continue
		}
		for _, s := range p.Subs {
			answered, err, _ := s.Answer()
			if !answered {
				continue
			}
			blk := a.BlockOf(s)
			if blk == nil {
				if err == nil {
					return fmt.Errorf("request %d (%s part) was answered with success but its rows are in no INSERT block", p.ReqID, p.Kind)
				}
				continue
			}
			if blk.Done && (blk.Err == nil) != (err == nil) {
				return fmt.Errorf("request %d (%s part): its rows were in INSERT #%d (outcome %v) but it was answered with %v", p.ReqID, p.Kind, blk.Seq, blk.Err, err)
			}
		}
	}
	if tr.Exact && tr.ModelErr == "" {
		per := map[inssvc.Kind][]*fakech.Call{}
		for _, c := range calls {
			per[inssvc.KindOfCall(c)] = append(per[inssvc.KindOfCall(c)], c)
		}
		for _, k := range inssvc.Kinds {
			if tr.Stopped[k] {
				continue
			}
			want := tr.Batches[k]
			got := per[k]
			for i := 0; i < len(want) && i < len(got); i++ {
				var rows []inssvc.Row
				for _, s := range want[i] {
					rows = append(rows, s.Rows...)
				}
				g := a.Rows[got[i]]
				if len(g) != len(rows) {
					return fmt.Errorf("INSERT #%d (%s): the open batch held %d rows of %d submissions when it was swapped, the block has %d rows", got[i].Seq, k, len(rows), len(want[i]), len(g))
				}
				for j := range rows {
					if rows[j].Marker != g[j].Marker {
						return fmt.Errorf("INSERT #%d (%s): row %d is %q, the open batch had %q at that position", got[i].Seq, k, j, g[j].Marker, rows[j].Marker)
					}
				}
			}
			if len(got) < len(want) {
				return fmt.Errorf("%s service: %d batches were swapped out according to the model, only %d INSERTs were sent", k, len(want), len(got))
			}
		}
	}
	return nil
}

func brief(v any) string {
	s := fmt.Sprintf("%#v", v)
	if len(s) > 160 {
		s = s[:160] + "…"
	}
	return s
}

// o reports whether a part came through a real parser although it could not be attributed
// to a request (no row matched): never for hand-built requests, whose Tag is always set.
func o(p *inssvc.Part) bool { return p.ReqID == 0 }

// Classify tags the trace. Non-trivial: a block holding rows of >= 2 submissions, or a
// block sent by a service whose previous block failed.
func Classify(a *inssvc.Analysis, ob *evid.Obs) {
	tr := a.T
	if tr.Exact {
		ob.Tag("mode:exact")
	} else {
		ob.Tag("mode:invariants")
	}
	ob.Tag(fmt.Sprintf("workers:%d", tr.H.Cfg.Workers))
	multi, afterFail, maxRows := false, false, 0
	tagOnce := map[string]bool{}
	blocksOf := map[*fakech.Call]int{}
	for _, p := range a.Parts {
		for _, b := range p.Blocks {
			blocksOf[b]++
		}
	}
	for b, n := range blocksOf {
		if n >= 2 {
			multi = true
			if t := "multi-request-block:" + b.Table; !tagOnce[t] {
				tagOnce[t] = true
				ob.Tag(t)
			}
		}
	}
	for _, rq := range tr.Reqs {
		if rq.HTTP && rq.Proto == "mixed" && len(rq.Expect) > 0 {
			if rq.Expect[0].Prefix {
				ob.Tag("mixed-chunk:metric-batch-first")
			} else {
				ob.Tag("mixed-chunk:log-batch-first")
			}
		}
	}
	calls := append([]*fakech.Call(nil), tr.Calls...)
	sort.Slice(calls, func(i, j int) bool { return calls[i].Seq < calls[j].Seq })
	lastFailed := map[inssvc.Kind]bool{}
	for _, c := range calls {
		k := inssvc.KindOfCall(c)
		if lastFailed[k] && c.NRows > 0 {
			afterFail = true
		}
		lastFailed[k] = c.Done && c.Err != nil
		if c.NRows > maxRows {
			maxRows = c.NRows
		}
		ob.Tag("table:" + c.Table)
	}
	if multi {
		ob.Tag("block-of->=2-requests")
	}
	if afterFail {
		ob.Tag("block-after-failed-block")
	}
	switch {
	case maxRows > 10000:
		ob.Tag("block-rows:>10000")
	case maxRows > 1:
		ob.Tag("block-rows:2..10000")
	case maxRows == 1:
		ob.Tag("block-rows:1")
	default:
		ob.Tag("block-rows:none")
	}
	for _, rq := range tr.Reqs {
		if rq.HTTP {
			ob.Tag("parser:" + rq.Proto)
			if d, st, _, _ := rq.Result(); d {
				ob.Tag(fmt.Sprintf("parser:%s:%dxx", rq.Proto, st/100))
			}
		} else if rq.Direct != nil && len(rq.Direct.Rows) == 0 {
			ob.Tag("request-rows:0")
		}
	}
	for _, p := range a.Parts {
		if len(p.Subs) > 1 {
			ob.Tag("retried-part")
		}
	}
	parts, retried := a.Chunked()
	for id, n := range parts {
		if n >= 2 {
			ob.Tag("parser-body-chunked(>=2 requests)")
			if retried[id] {
				ob.Tag("parser-body-chunked+retried-part")
			}
		}
	}
	if multi || afterFail {
		ob.NonTrivial()
	}
}

func addHistory(r *evid.Run) {
	evid.Add(r, evid.Prop[inssvc.History]{
		Name: "history", Quick: 300, Thorough: 2000,
		Gen: func(rt *rapid.T) inssvc.History {
			max := 25
			if r.Tier == "thorough" {
				max = 60
			}
			return inssvc.GenHistory(rt, inssvc.GenOpts{MaxActions: max, HTTP: true, BigRows: true, Refuse: true})
		},
		Pred: func(h inssvc.History, ob *evid.Obs) error {
			h, known := inssvc.StripKnown(h, ob.Witness)
			for _, id := range known {
				ob.Known(id)
			}
			tr := inssvc.RunHistory(h)
			if tr.NotQuiet {
				ob.Discard("not-quiet-before-stop")
				return nil
			}
			a := inssvc.Analyse(tr)
			Classify(a, ob)
			return CheckBlocks(a)
		},
	})
}

// addStall registers the "long stall" class: thorough tier only (Quick: 0), one case per
// shard, about 35 s of wall time. It is the only class whose behaviour depends on the wall
// clock: the INSERTs are really held longer than any per-attempt waiting bound.
func addStall(r *evid.Run) {
	evid.Add(r, evid.Prop[inssvc.Stall]{
		Name: "stall", Quick: 0, Thorough: 1,
		Gen: inssvc.GenStall,
		Pred: func(s inssvc.Stall, ob *evid.Obs) error {
			scale := 1.0
			if v := os.Getenv("VERIF_STALL_SCALE"); v != "" { // development aid
				fmt.Sscan(v, &scale)
			}
			tr := inssvc.RunStall(s, scale)
			if tr.NotQuiet {
				ob.Discard("not-quiet-before-stop")
				return nil
			}
			a := inssvc.Analyse(tr)
			Classify(a, ob)
			ob.Tag("long-stall")
			for _, h := range s.Holds {
				ob.Tag("long-stall:" + h.Proto)
			}
			ob.NonTrivial()
			if tr.Unanswered != "" {
				return fmt.Errorf("%s", tr.Unanswered)
			}
			return CheckBlocks(a)
		},
	})
}

func addStress(r *evid.Run, quick, thorough int) {
	evid.Add(r, evid.Prop[inssvc.Stress]{
		Name: "stress", Quick: quick, Thorough: thorough,
		Gen: func(rt *rapid.T) inssvc.Stress { return inssvc.GenStress(rt, 8, 12) },
		WAL: true,
		Pred: func(s inssvc.Stress, ob *evid.Obs) error {
			if RaceT != nil {
				// under the race detector every case runs as a sub-test: a data race reported inside
				// qryn while the case runs fails that sub-test, and so this case. A schedule in which
				// the detector fires is one under which none of the guarantees can be relied on; the
				// unchanged tree is race-free on these paths (the drivers shut down quiescently).
				var err error
				notQuiet = false
				ok := RaceT.Run("case", func(*testing.T) { err = stressBody(s, ob) })
				if notQuiet {
					return nil // discarded: no race attribution either
				}
				if err == nil && !ok {
					return fmt.Errorf("the race detector reported a data race while this stress case ran (report above: \"WARNING: DATA RACE\"): " +
						"unsynchronised access in the promise / insert-service code during concurrent pushes")
				}
				return err
			}
			return stressBody(s, ob)
		},
	})
}

// RaceT is set by TestRace.
var RaceT *testing.T

// notQuiet is set by stressBody when the case was discarded because the writer did not
// become quiescent before shutdown (cases run one at a time).
var notQuiet bool

func stressBody(s inssvc.Stress, ob *evid.Obs) error {
	runs := 1
	if ob.Witness {
		runs = 20 // free-running schedules are not replayable: try the case repeatedly
	}
	for i := 0; i < runs; i++ {
		tr := inssvc.RunStress(s)
		if tr.NotQuiet {
			ob.Discard("not-quiet-before-stop")
			notQuiet = true
			return nil
		}
		a := inssvc.Analyse(tr)
		if i == 0 {
			Classify(a, ob)
		}
		if err := CheckBlocks(a); err != nil {
			return err
		}
	}
	return nil
}

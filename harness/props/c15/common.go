// Package c15: query responses are always one well-formed JSON document of the documented
// shape. Scripted result rows are fed through the real services and controllers (the real
// reader route table of package readersvc over the fakesql driver); the concatenated
// response chunks are parsed with encoding/json and compared with the script.
package c15

import (
	"bytes"
	"context"
	"database/sql/driver"
	"encoding/json"
	"fmt"
	"io"
	"sort"
	"strings"
	"unicode/utf8"

	"pgregory.net/rapid"

	"qrynverif/evid"
	"qrynverif/fakesql"
	"qrynverif/readersvc"
)

// ---- hostile strings -----------------------------------------------------------------------

var hostilePieces = []string{
	"", "a", "b", "x", "0", " ", "msg", "level=info", "\u00fc", "\u65e5\u672c", "\u2028", "\u2029", "\U0001F600", "\U000E0001", "\u200b",
	`"`, `\`, `\"`, `\\`, `/`, "'", "<", ">", "&", "{", "}", "[", "]", ",", ":",
	"\x00", "\x01", "\a", "\b", "\t", "\n", "\v", "\f", "\r", "\x1b", "\x1f", "\x7f", "\u0080", "\u009f",
	`\u0041`, `\x41`, `\n`, "%s", "%d", "null", "true",
}

var invalidPieces = []string{"\xff", "\xfe", "\xc0\x80", "\xe2\x82", "\xed\xa0\x80", "\xf0\x9f", "\x80", "\xc3"}

// GenStr draws a string over the hostile alphabet; invalid UTF-8 only when allowInvalid.
func GenStr(rt *rapid.T, label string, allowInvalid bool) evid.Str {
	n := rapid.IntRange(0, 6).Draw(rt, label+"_n")
	var sb strings.Builder
	for i := 0; i < n; i++ {
		k := rapid.IntRange(0, 9).Draw(rt, label+"_k")
		switch {
		case k == 0 && allowInvalid:
			sb.WriteString(rapid.SampledFrom(invalidPieces).Draw(rt, label+"_inv"))
		case k <= 6:
			sb.WriteString(rapid.SampledFrom(hostilePieces).Draw(rt, label+"_p"))
		default:
			sb.WriteByte(byte(rapid.IntRange(0x20, 0x7e).Draw(rt, label+"_c")))
		}
	}
	return evid.Str(sb.String())
}

// GenName draws a label/tag name: mostly identifier-like (what every ingest path produces),
// sometimes a valid-UTF-8 name that needs escaping.
func GenName(rt *rapid.T, label string) string {
	if rapid.IntRange(0, 4).Draw(rt, label+"_h") == 0 {
		s := string(GenStr(rt, label+"_hs", false))
		if s != "" {
			return s
		}
	}
	return rapid.StringMatching(`[a-zA-Z_][a-zA-Z0-9_.]{0,8}`).Draw(rt, label)
}

// Norm is the string a JSON decoder yields for s: every invalid UTF-8 byte becomes U+FFFD
// (both when the encoder replaced it and when it copied the byte through).
func Norm(s string) string {
	if utf8.ValidString(s) {
		return s
	}
	return string([]rune(s))
}

// NeedsEscape says whether a JSON encoder has to do anything but copy s.
func NeedsEscape(s string) bool {
	if !utf8.ValidString(s) {
		return true
	}
	for _, r := range s {
		if r < 0x20 || r == '"' || r == '\\' || r == 0x7f || r == 0x2028 || r == 0x2029 || r > 0xffff || (r >= 0x80 && r < 0xa0) {
			return true
		}
	}
	return false
}

// KV is one label.
type KV struct {
	K string   `json:"k"`
	V evid.Str `json:"v"`
}

// GenLabels draws a label set with names distinct (also after Norm; names are valid UTF-8).
func GenLabels(rt *rapid.T, label string, min, max int, allowInvalid bool) []KV {
	n := rapid.IntRange(min, max).Draw(rt, label+"_n")
	seen := map[string]bool{}
	var out []KV
	for i := 0; i < n; i++ {
		k := GenName(rt, fmt.Sprintf("%s_k%d", label, i))
		if seen[k] {
			continue
		}
		seen[k] = true
		out = append(out, KV{K: k, V: GenStr(rt, fmt.Sprintf("%s_v%d", label, i), allowInvalid)})
	}
	return out
}

func labelsMap(kvs []KV) map[string]string {
	m := make(map[string]string, len(kvs))
	for _, kv := range kvs {
		m[kv.K] = string(kv.V)
	}
	return m
}

func normMap(kvs []KV) map[string]string {
	m := make(map[string]string, len(kvs))
	for _, kv := range kvs {
		m[Norm(kv.K)] = Norm(string(kv.V))
	}
	return m
}

// mapKey is a canonical key of a decoded label object.
func mapKey(m map[string]string) string {
	ks := make([]string, 0, len(m))
	for k := range m {
		ks = append(ks, k)
	}
	sort.Strings(ks)
	var sb strings.Builder
	for _, k := range ks {
		fmt.Fprintf(&sb, "%q=%q,", k, m[k])
	}
	return sb.String()
}

func labelsNeedEscape(kvs []KV) bool {
	for _, kv := range kvs {
		if NeedsEscape(kv.K) || NeedsEscape(string(kv.V)) {
			return true
		}
	}
	return false
}

// ---- strict JSON ---------------------------------------------------------------------------

// OneDocument checks that body is exactly one syntactically valid JSON document without
// duplicate object keys.
func OneDocument(body []byte) error {
	if !json.Valid(body) {
		// locate the problem for the report
		var v any
		err := json.Unmarshal(body, &v)
		return fmt.Errorf("body is not one valid JSON document: %v; body=%s", err, clip(body))
	}
	dec := json.NewDecoder(bytes.NewReader(body))
	dec.UseNumber()
	if err := walkDup(dec, "$"); err != nil {
		return fmt.Errorf("%v; body=%s", err, clip(body))
	}
	if _, err := dec.Token(); err != io.EOF {
		return fmt.Errorf("trailing data after the JSON document; body=%s", clip(body))
	}
	return nil
}

func walkDup(dec *json.Decoder, path string) error {
	tok, err := dec.Token()
	if err != nil {
		return err
	}
	d, ok := tok.(json.Delim)
	if !ok {
		return nil
	}
	switch d {
	case '{':
		seen := map[string]bool{}
		for dec.More() {
			kt, err := dec.Token()
			if err != nil {
				return err
			}
			k, _ := kt.(string)
			if seen[k] {
				return fmt.Errorf("duplicate object key %q at %s", k, path)
			}
			seen[k] = true
			if err := walkDup(dec, path+"."+k); err != nil {
				return err
			}
		}
		_, err = dec.Token()
		return err
	case '[':
		for i := 0; dec.More(); i++ {
			if err := walkDup(dec, fmt.Sprintf("%s[%d]", path, i)); err != nil {
				return err
			}
		}
		_, err = dec.Token()
		return err
	}
	return nil
}

// Decode decodes body strictly (unknown fields rejected, numbers kept exact) into v.
func Decode(body []byte, v any) error {
	dec := json.NewDecoder(bytes.NewReader(body))
	dec.DisallowUnknownFields()
	dec.UseNumber()
	if err := dec.Decode(v); err != nil {
		return fmt.Errorf("body does not have the documented shape: %v; body=%s", err, clip(body))
	}
	return nil
}

func clip(b []byte) string {
	if len(b) > 1500 {
		return fmt.Sprintf("%q…(%d bytes)", b[:1500], len(b))
	}
	return fmt.Sprintf("%q", b)
}

// rawJSONString encodes s as a JSON string the way a byte-transparent encoder does:
// quote, backslash and control bytes escaped, everything else (including invalid UTF-8)
// copied. Used to build stored documents (label JSON, Zipkin payloads).
func rawJSONString(s string) string {
	var sb strings.Builder
	sb.WriteByte('"')
	for i := 0; i < len(s); i++ {
		c := s[i]
		switch {
		case c == '"' || c == '\\':
			sb.WriteByte('\\')
			sb.WriteByte(c)
		case c < 0x20:
			fmt.Fprintf(&sb, `\u%04x`, c)
		default:
			sb.WriteByte(c)
		}
	}
	sb.WriteByte('"')
	return sb.String()
}

// ---- running one request ---------------------------------------------------------------------

// run serves target through the real route table; every non-version statement is answered
// by answer (called with the ordinal of the statement among the non-version ones).
func run(target string, answer func(i int, q string) *fakesql.Result) (*readersvc.Response, []string) {
	restore := readersvc.Quiet()
	defer restore()
	n := 0
	rd := readersvc.NewReader(readersvc.Scripted(func(ctx context.Context, q string, args []driver.NamedValue) (*fakesql.Result, error) {
		r := answer(n, q)
		n++
		return r, nil
	}))
	defer rd.Close()
	resp := rd.Get(target)
	var main []string
	for _, s := range rd.DB.Log() {
		if !fakesql.IsVersionQuery(s) {
			main = append(main, s)
		}
	}
	return resp, main
}

// stdJSONString encodes s with encoding/json (valid UTF-8 out, <>& and U+2028/9 escaped).
func stdJSONString(s string) string {
	b, _ := json.Marshal(s)
	return string(b)
}

// Bulk describes a large run of generated elements compactly (the case stays small): N
// distinct strings of about Len bytes, deterministic in (Seed, index), with quotes,
// backslashes, control bytes and multi-byte runes sprinkled in so that escapes fall on any
// internal chunk boundary of a writer. Encoded sizes cross 16 KiB, 64 KiB and 1 MiB.
type Bulk struct {
	N    int `json:"n,omitempty"`
	Len  int `json:"len,omitempty"`
	Seed int `json:"seed,omitempty"`
}

var bulkShapes = []Bulk{{N: 300, Len: 20}, {N: 600, Len: 40}, {N: 1500, Len: 30}, {N: 2500, Len: 40}, {N: 5000, Len: 24}, {N: 20000, Len: 60}, {N: 40, Len: 30000}}

// GenBulk draws no bulk (most cases), or one of the shapes.
func GenBulk(rt *rapid.T) Bulk {
	if rapid.IntRange(0, 3).Draw(rt, "bulk") != 0 {
		return Bulk{}
	}
	b := rapid.SampledFrom(bulkShapes).Draw(rt, "bulkshape")
	if b.N >= 20000 && rapid.IntRange(0, 2).Draw(rt, "bulkhuge") != 0 {
		b = bulkShapes[rapid.IntRange(0, 4).Draw(rt, "bulkshape2")]
	}
	b.Seed = rapid.IntRange(0, 1000).Draw(rt, "bulkseed")
	return b
}

var bulkSpice = []string{`"`, `\`, "\x01", "\n", "\u00fc", "\u65e5", "<", "\U0001F600", "'", "\t"}

// Elem is the i-th element of the bulk.
func (b Bulk) Elem(i int) string {
	var sb strings.Builder
	fmt.Fprintf(&sb, "e%d-", i)
	x := uint32(b.Seed*7919 + i*2654435761)
	for sb.Len() < b.Len {
		x = x*1664525 + 1013904223
		if x>>28 == 0 {
			sb.WriteString(bulkSpice[(x>>8)%uint32(len(bulkSpice))])
		} else {
			sb.WriteByte(byte('a' + (x>>16)%26))
		}
	}
	return sb.String()
}

// Strs returns the whole bulk.
func (b Bulk) Strs() []evid.Str {
	out := make([]evid.Str, b.N)
	for i := range out {
		out[i] = evid.Str(b.Elem(i))
	}
	return out
}

// sizeClass buckets an encoded response size around the chunking thresholds.
func sizeClass(n int) string {
	switch {
	case n < 16<<10:
		return "size:<16K"
	case n < 64<<10:
		return "size:16K-64K"
	case n < 1<<20:
		return "size:64K-1M"
	default:
		return "size:>=1M"
	}
}

package c15

import (
	"context"
	"database/sql/driver"
	"fmt"
	"io"
	"net/http"
	"net/url"
	"sort"
	"strconv"
	"testing"
	"time"

	"pgregory.net/rapid"

	"qrynverif/evid"
	"qrynverif/fakesql"
	"qrynverif/readersvc"
)

// ---- C15(j): log streams through the real in-process pipeline ----------------------------------
//
// `{a="b"} | json`, `| logfmt`, `| logfmt | line_format ...` are split at the parser: the SQL
// part returns raw rows ORDER BY timestamp_ns only (MainFinalizerPlanner with IsFinal=false:
// streams interleave), the in-process stages (ParserPlanner, LineFormatPlanner, LimitPlanner)
// rewrite labels/lines and ResponseOptimizerPlanner regroups the rows per new fingerprint,
// flushing its map whenever 3000 entries have piled up, before exportStreamsValue writes
// them. 3000-10000 scripted rows, 1-4 source streams x 1-3 extracted label values
// interleaved by pattern, so every portion holds every stream and a stream flushed last in
// one portion continues in the next. The consumer is instantaneous (recorder) or a real
// client that reads slowly / in bursts.
//
// Oracle: one valid JSON document of the streams shape; every row exactly once, under an
// object carrying its labels (stream labels + extracted labels), timestamp and line intact.
// Each label set owns exactly one object - except in the region of the known finding
// C15-inprocess-streams-split-across-flushes (more than 3000 entries, >= 2 label sets, objects
// of a label set separated only at the 3000-entry flush boundaries), which is counted with
// o.Known; everything else stays judged there.

type ipCase struct {
	Query    int  `json:"query"` // 0 | json, 1 | logfmt, 2 | logfmt | line_format "{{.sid}}!"
	Streams  int  `json:"streams"`
	Sids     int  `json:"sids"`
	Rows     int  `json:"rows"`
	Pattern  int  `json:"pattern"` // 0 round robin, 1 blocks, 2 scattered
	Block    int  `json:"block"`
	Forward  bool `json:"forward"`
	Consumer int  `json:"consumer"` // 0 recorder, 1 slow reader, 2 bursty reader
}

var ipQueries = []string{`{a="b"} | json`, `{a="b"} | logfmt`, `{a="b"} | logfmt | line_format "{{.sid}}!"`}

func genIP(rt *rapid.T) ipCase {
	c := ipCase{
		Query:    rapid.IntRange(0, 2).Draw(rt, "query"),
		Streams:  rapid.IntRange(1, 4).Draw(rt, "streams"),
		Sids:     rapid.IntRange(1, 3).Draw(rt, "sids"),
		Pattern:  rapid.IntRange(0, 2).Draw(rt, "pattern"),
		Block:    rapid.SampledFrom([]int{1, 7, 100, 1000, 2999, 3000}).Draw(rt, "block"),
		Forward:  rapid.Bool().Draw(rt, "forward"),
		Consumer: rapid.SampledFrom([]int{0, 0, 1, 2}).Draw(rt, "consumer"),
	}
	switch rapid.IntRange(0, 3).Draw(rt, "rowskind") {
	case 0:
		c.Rows = rapid.SampledFrom([]int{2999, 3000, 3001, 5999, 6000, 6001, 9000}).Draw(rt, "rowsedge")
	case 1:
		c.Rows = rapid.IntRange(0, 400).Draw(rt, "rowssmall")
	default:
		c.Rows = rapid.IntRange(3000, 10000).Draw(rt, "rows")
	}
	return c
}

func (c ipCase) assign(i int) (stream, sid int) {
	switch c.Pattern {
	case 0:
		return i % c.Streams, (i / c.Streams) % c.Sids
	case 1:
		b := max(c.Block, 1)
		return (i / b) % c.Streams, (i / (b * c.Streams)) % c.Sids
	default:
		h := uint32(i) * 2654435761
		return int(h>>8) % c.Streams, int(h>>20) % c.Sids
	}
}

const knownSplit = "C15-inprocess-streams-split-across-flushes"

// raceT is set by TestRace: every case then runs as a sub-test of it, so a race report is
// attributed to the case that ran (the pattern of props/c08/batch.go).
var raceT *testing.T

func predIP(c ipCase, o *evid.Obs) error {
	if raceT == nil {
		return predIPBody(c, o)
	}
	var err error
	ok := raceT.Run("case", func(*testing.T) { err = predIPBody(c, o) })
	if err == nil && !ok {
		return fmt.Errorf("the race detector reported a data race while this case ran (report above: \"WARNING: DATA RACE\"); query %s, %d rows, consumer %d", ipQueries[c.Query%3], c.Rows, c.Consumer)
	}
	return err
}

func predIPBody(c ipCase, o *evid.Obs) error {
	if c.Query < 0 || c.Query > 2 || c.Streams < 1 || c.Streams > 8 || c.Sids < 1 || c.Sids > 8 || c.Rows < 0 || c.Rows > 20000 || c.Consumer < 0 || c.Consumer > 2 {
		o.Discard("bad-case")
		return nil
	}
	base := int64(1700000000000000000)
	rows := make([][]any, c.Rows)
	type rowExp struct {
		key  string
		ts   int64
		line string
	}
	want := make([]rowExp, c.Rows)
	srcLabels := make([]map[string]string, c.Streams)
	for s := range srcLabels {
		srcLabels[s] = map[string]string{"a": "b", "src": strconv.Itoa(s), "q": "quo\"te\\ \x01"}
	}
	for i := 0; i < c.Rows; i++ {
		// ORDER BY timestamp_ns asc (forward) / desc
		ts := base + int64(i)
		if !c.Forward {
			ts = base + int64(c.Rows-1-i)
		}
		s, sid := c.assign(i)
		line := fmt.Sprintf("sid=v%d msg=hello", sid)
		exp := map[string]string{"a": "b", "src": strconv.Itoa(s), "q": "quo\"te\\ \x01", "sid": fmt.Sprintf("v%d", sid)}
		if c.Query == 0 {
			line = fmt.Sprintf(`{"sid":"v%d"}`, sid)
		} else {
			exp["msg"] = "hello"
		}
		rows[i] = []any{uint64(s + 1), srcLabels[s], line, ts}
		outLine := line
		if c.Query == 2 {
			outLine = fmt.Sprintf("v%d!", sid)
		}
		want[i] = rowExp{mapKey(exp), ts, outLine}
	}
	q := url.Values{}
	q.Set("query", ipQueries[c.Query])
	q.Set("limit", strconv.Itoa(c.Rows+1))
	q.Set("start", strconv.FormatInt(base-1000000000, 10))
	q.Set("end", strconv.FormatInt(base+100000000000, 10))
	if c.Forward {
		q.Set("direction", "forward")
	}
	target := "/loki/api/v1/query_range?" + q.Encode()
	answer := func(_ context.Context, sqlText string, _ []driver.NamedValue) (*fakesql.Result, error) {
		return fakesql.Rows([]string{"fingerprint", "labels", "string", "timestamp_ns"}, rows...), nil
	}

	var body []byte
	code := 0
	restore := readersvc.Quiet()
	rd := readersvc.NewReader(readersvc.Scripted(answer))
	if c.Consumer == 0 {
		resp := rd.Get(target)
		body, code = resp.Body, resp.Code
	} else {
		srv := rd.Serve()
		tr := &http.Transport{DisableKeepAlives: true}
		resp, err := (&http.Client{Transport: tr, Timeout: 60 * time.Second}).Get(srv.URL + target)
		if err != nil {
			restore()
			return fmt.Errorf("no response: %v", err)
		}
		code = resp.StatusCode
		buf := make([]byte, 1500)
		if c.Consumer == 2 {
			buf = make([]byte, 64*1024)
		}
		for n := 0; ; n++ {
			k, rerr := resp.Body.Read(buf)
			body = append(body, buf[:k]...)
			if rerr == io.EOF {
				break
			}
			if rerr != nil {
				restore()
				return fmt.Errorf("response aborted: %v", rerr)
			}
			// slow: a short pause every 40 reads; bursty: a longer pause every 5 big reads
			if (c.Consumer == 1 && n%40 == 39) || (c.Consumer == 2 && n%5 == 4) {
				time.Sleep(time.Duration(1+c.Consumer*2) * time.Millisecond)
			}
		}
		_ = resp.Body.Close()
		tr.CloseIdleConnections()
		srv.Close()
	}
	rd.Close()
	restore()

	o.Tag("query:"+[]string{"json", "logfmt", "logfmt+line_format"}[c.Query], "rows:"+ipBucket(c.Rows), fmt.Sprintf("consumer:%d", c.Consumer),
		fmt.Sprintf("streams:%d", c.Streams*c.Sids), fmt.Sprintf("pattern:%d", c.Pattern))
	if c.Rows >= 3000 && c.Streams*c.Sids >= 2 {
		o.Tag("several-portions-several-streams")
		o.NonTrivial()
	}
	if code != 200 {
		return fmt.Errorf("status %d; body=%s", code, clip(body))
	}
	if err := OneDocument(body); err != nil {
		return err
	}
	var doc lokiStreamsDoc
	if err := Decode(body, &doc); err != nil {
		return err
	}
	if doc.Status != "success" || doc.Data.ResultType != "streams" || doc.Data.Result == nil {
		return fmt.Errorf("streams envelope wrong; body=%s", clip(body))
	}
	got := make([]rowExp, 0, c.Rows)
	objects := map[string]int{}
	for _, st := range doc.Data.Result {
		if st.Stream == nil || st.Values == nil {
			return fmt.Errorf("stream object without stream/values; body=%s", clip(body))
		}
		k := mapKey(st.Stream)
		objects[k]++
		for _, v := range st.Values {
			if len(v) != 2 {
				return fmt.Errorf("entry %v is not a [ts, line] pair", v)
			}
			ts, err := strconv.ParseInt(v[0], 10, 64)
			if err != nil {
				return fmt.Errorf("timestamp %q is not a decimal integer", v[0])
			}
			got = append(got, rowExp{k, ts, v[1]})
		}
	}
	// exactly one object per label set - except in the region of the known finding
	// C15-inprocess-streams-split-across-flushes: ResponseOptimizerPlanner flushes its
	// per-stream groups whenever 3000 entries have piled up, so with more than 3000 entries
	// and >= 2 label sets a label set gets one object per portion (two adjacent portions
	// merge when the stream is flushed last in one and first in the next). Explainable
	// duplicates: no two objects of one label set hold entries of the same portion.
	dupKey := ""
	for k, n := range objects {
		if n > 1 && (dupKey == "" || k < dupKey) {
			dupKey = k
		}
	}
	if dupKey != "" {
		o.Tag("stream-in-several-objects")
		arrival := func(ts int64) int {
			if c.Forward {
				return int(ts - base)
			}
			return c.Rows - 1 - int(ts-base)
		}
		explainable := c.Rows > 3000 && len(objects) >= 2
		type kp struct {
			key     string
			portion int
		}
		owner := map[kp]int{}
		for oi, st := range doc.Data.Result {
			k := mapKey(st.Stream)
			for _, v := range st.Values {
				ts, _ := strconv.ParseInt(v[0], 10, 64)
				p := kp{k, arrival(ts) / 3000}
				if prev, ok := owner[p]; ok && prev != oi {
					explainable = false
				}
				owner[p] = oi
			}
		}
		switch {
		case explainable && !o.Witness:
			o.Known(knownSplit)
		case explainable:
			return fmt.Errorf("label set %s owns %d {stream, values} objects (%d rows, %d label sets): the in-process regrouping stage flushes every 3000 entries and the writer opens a new object per flushed group", dupKey, objects[dupKey], c.Rows, len(objects))
		default:
			return fmt.Errorf("label set %s owns %d {stream, values} objects and the split is not at the 3000-entry flush boundaries (%d rows, %d label sets); body=%s", dupKey, objects[dupKey], c.Rows, len(objects), clip(body))
		}
	}
	less := func(a, b rowExp) bool {
		if a.ts != b.ts {
			return a.ts < b.ts
		}
		if a.key != b.key {
			return a.key < b.key
		}
		return a.line < b.line
	}
	sort.Slice(want, func(i, j int) bool { return less(want[i], want[j]) })
	sort.Slice(got, func(i, j int) bool { return less(got[i], got[j]) })
	for i := 0; i < len(want) && i < len(got); i++ {
		if want[i] != got[i] {
			return fmt.Errorf("row with timestamp %d: scripted labels %s line %q; the document has timestamp %d labels %s line %q (%d rows scripted, %d entries in the document)",
				want[i].ts, want[i].key, want[i].line, got[i].ts, got[i].key, got[i].line, len(want), len(got))
		}
	}
	if len(got) != len(want) {
		return fmt.Errorf("%d entries in the document for %d scripted rows", len(got), len(want))
	}
	return nil
}

func ipBucket(n int) string {
	switch {
	case n < 3000:
		return "<3000"
	case n <= 3001:
		return "3000-3001"
	case n < 6000:
		return "3002-5999"
	case n <= 6001:
		return "6000-6001"
	default:
		return ">6001"
	}
}

func addIP(r *evid.Run, quick, thorough int) {
	evid.Add(r, evid.Prop[ipCase]{Name: "inprocess-streams", Quick: quick, Thorough: thorough, Gen: genIP, Pred: predIP})
}

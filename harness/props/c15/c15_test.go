package c15

import (
	"testing"

	"qrynverif/evid"
)

var cfg = evid.Config{
	Level: "exploration",
	Rule:  "scripted result sets through the real route table; non-trivial: >= 2 reported series with a 100-row scanner batch boundary inside a series, or a label/line/tag/name string that needs JSON escaping (control byte, quote, backslash, invalid UTF-8, non-BMP)",
	Assumptions: []string{
		"rows arrive in the order the generated SQL asks for: series contiguous, fingerprints monotone in the query direction, timestamps monotone inside a series; one label set per fingerprint",
		"metric rows carry timestamps aligned to max(range, step) inside the queried window (GROUP BY of the LRA / step-fix planners); the expected matrix is the rows re-sampled by qryn's documented FixPeriod rule",
		"column Go types are those the scanners declare; trace_id is 16 bytes, span_id 8 bytes, payload_type 1 or 2 (table schema / writer)",
		"invalid UTF-8 is compared modulo U+FFFD replacement",
		"batches: the channel between producer and writer may carry nil, empty, single-element and large batches in any position (scripted through the LogQL planner plug-in point and a fake ITempoService); series stay contiguous across batches",
		"Prometheus routes: samples of a series have strictly ascending millisecond timestamps; the expected result is the rows selected by the engine's documented rule (latest sample within the 5 min lookback at each step; every sample of the range for a matrix selector); start/end multiples of 15 s, time in whole seconds; no stale-marker NaNs",
		"in-process streams: the SQL part of a `| json` / `| logfmt` query returns rows ORDER BY timestamp_ns only (streams interleave); qryn regroups them per 3000-row portion, so one label set may own several stream objects (not judged); every row must appear exactly once",
	},
}

func TestProp(t *testing.T) {
	r := evid.New(t, "C15", cfg)
	addStreams(r)
	addMatrix(r)
	addLists(r)
	addSeries(r)
	addTags(r)
	addSearch(r)
	addTrace(r)
	addProm(r)
	addBatches(r)
	addIP(r, 80, 400)
	r.Main()
}

// TestRace runs the in-process streams cases under the race detector (the driver builds this
// binary with -race): one sub-test per case, so a race report is attributed to the case.
func TestRace(t *testing.T) {
	raceT = t
	defer func() { raceT = nil }()
	r := evid.New(t, "C15", cfg)
	addIP(r, 25, 60)
	r.Main()
}

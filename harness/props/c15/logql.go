package c15

import (
	"encoding/json"
	"fmt"
	"math"
	"net/url"
	"sort"
	"strconv"

	"pgregory.net/rapid"

	"qrynverif/evid"
	"qrynverif/fakesql"
)

// ---- C15(a): Loki log queries (QueryRange streams, QueryInstant of a log selector) ----------
//
// Script: what the final SELECT of a log query returns. Column order and Go types are those
// of ClickhouseGetterPlanner.Scan (shared/planner_clickhouse_getter.go:62):
// fingerprint uint64, labels map[string]string, string string, timestamp_ns int64.
// Row order is the ORDER BY of MainFinalizerPlanner (clickhouse_planner/
// planner_main_finalizer.go:40-46): fingerprint dir, timestamp_ns dir with dir = asc for
// direction=forward, desc otherwise. So series are contiguous, fingerprints strictly
// monotone, and a series with fingerprint 0 can only be the first (forward) or the last
// (backward) one. One series = one label set (the fingerprint is a hash of the labels).

type logRow struct {
	Ts   int64    `json:"ts"`
	Line evid.Str `json:"line"`
}

type logSeries struct {
	FP     uint64   `json:"fp"`
	Labels []KV     `json:"labels"`
	Rows   []logRow `json:"rows"`
}

type streamsCase struct {
	Forward bool        `json:"forward"`
	Instant bool        `json:"instant"` // /loki/api/v1/query instead of query_range
	Series  []logSeries `json:"series"`
}

func genFPs(rt *rapid.T, n int, asc bool) []uint64 {
	set := map[uint64]bool{}
	var fps []uint64
	for len(fps) < n {
		var fp uint64
		switch rapid.IntRange(0, 5).Draw(rt, "fpkind") {
		case 0:
			fp = 0
		case 1:
			fp = uint64(rapid.IntRange(1, 3).Draw(rt, "fpsmall"))
		case 2:
			fp = math.MaxUint64 - uint64(rapid.IntRange(0, 2).Draw(rt, "fpbig"))
		default:
			fp = rapid.Uint64().Draw(rt, "fp")
		}
		if !set[fp] {
			set[fp] = true
			fps = append(fps, fp)
		}
	}
	sort.Slice(fps, func(i, j int) bool {
		if asc {
			return fps[i] < fps[j]
		}
		return fps[i] > fps[j]
	})
	return fps
}

// genCounts draws rows-per-series so that totals cluster around multiples of the scanner's
// batch size (100): batch boundaries inside a series, a final batch holding only the EOF
// marker, etc.
func genCounts(rt *rapid.T, n int) []int {
	counts := make([]int, n)
	for i := range counts {
		switch rapid.IntRange(0, 9).Draw(rt, "cntkind") {
		case 0:
			counts[i] = rapid.IntRange(95, 105).Draw(rt, "cnt100")
		case 1:
			counts[i] = rapid.IntRange(40, 60).Draw(rt, "cnt50")
		case 2:
			counts[i] = rapid.IntRange(195, 205).Draw(rt, "cnt200")
		default:
			counts[i] = rapid.IntRange(1, 4).Draw(rt, "cnt")
		}
	}
	if n > 0 && rapid.IntRange(0, 3).Draw(rt, "align") == 0 {
		total := 0
		for _, c := range counts {
			total += c
		}
		want := []int{0, 1, 99}[rapid.IntRange(0, 2).Draw(rt, "alignto")]
		add := ((want-total)%100 + 100) % 100
		counts[rapid.IntRange(0, n-1).Draw(rt, "alignwho")] += add
	}
	return counts
}

// batchInside: does a 100-row batch boundary fall strictly inside a series?
func batchInside(counts []int) bool {
	pos := 0
	for _, c := range counts {
		for b := 100; b < pos+c; b += 100 {
			if b > pos {
				return true // rows b-1 and b belong to this series
			}
		}
		pos += c
	}
	return false
}

func genStreams(rt *rapid.T) streamsCase {
	c := streamsCase{Forward: rapid.Bool().Draw(rt, "forward"), Instant: rapid.IntRange(0, 4).Draw(rt, "instant") == 0}
	if c.Instant {
		c.Forward = false // QueryInstant always plans backward (queryRangeService.go:399)
	}
	n := rapid.IntRange(0, 5).Draw(rt, "nseries")
	fps := genFPs(rt, n, c.Forward)
	counts := genCounts(rt, n)
	base := rapid.SampledFrom([]int64{0, 1000, 1700000000000000000}).Draw(rt, "base")
	keys := map[string]bool{}
	for i := 0; i < n; i++ {
		s := logSeries{FP: fps[i], Labels: GenLabels(rt, fmt.Sprintf("l%d", i), 0, 3, true)}
		// distinct label sets: different series have different labels (fingerprint = hash)
		if k := mapKey(normMap(s.Labels)); keys[k] {
			s.Labels = append(s.Labels, KV{K: fmt.Sprintf("series_%d", i), V: "x"})
		}
		keys[mapKey(normMap(s.Labels))] = true
		ts := make([]int64, counts[i])
		for j := range ts {
			ts[j] = base + int64(rapid.IntRange(0, 1000000).Draw(rt, "dts"))
		}
		sort.Slice(ts, func(a, b int) bool {
			if c.Forward {
				return ts[a] < ts[b]
			}
			return ts[a] > ts[b]
		})
		for j := range ts {
			var line evid.Str
			if counts[i] > 10 && j%7 != 0 {
				line = evid.Str("line " + strconv.Itoa(j)) // keep large series cheap
			} else {
				line = GenStr(rt, "line", true)
			}
			s.Rows = append(s.Rows, logRow{Ts: ts[j], Line: line})
		}
		c.Series = append(c.Series, s)
	}
	return c
}

type lokiStreamsDoc struct {
	Status string `json:"status"`
	Data   struct {
		ResultType string `json:"resultType"`
		Result     []struct {
			Stream map[string]string `json:"stream"`
			Values [][]string        `json:"values"`
		} `json:"result"`
	} `json:"data"`
}

func predStreams(c streamsCase, o *evid.Obs) error {
	var rows [][]any
	total := 0
	counts := make([]int, len(c.Series))
	esc := false
	for i, s := range c.Series {
		if len(s.Rows) == 0 {
			o.Discard("series-without-rows") // cannot come out of a SELECT
			return nil
		}
		counts[i] = len(s.Rows)
		total += len(s.Rows)
		esc = esc || labelsNeedEscape(s.Labels)
		for _, r := range s.Rows {
			rows = append(rows, []any{s.FP, labelsMap(s.Labels), string(r.Line), r.Ts})
			esc = esc || NeedsEscape(string(r.Line))
		}
	}
	q := url.Values{}
	q.Set("query", `{a="b"}`)
	q.Set("limit", strconv.Itoa(total+1)) // the SQL LIMIT: the database returns at most that many rows
	target := "/loki/api/v1/query_range?"
	if c.Instant {
		q.Set("time", "1700000001000000000")
		target = "/loki/api/v1/query?"
	} else {
		q.Set("start", "1700000000000000000")
		q.Set("end", "1700000001000000000")
		if c.Forward {
			q.Set("direction", "forward")
		} else {
			q.Set("direction", "backward")
		}
	}
	resp, stmts := run(target+q.Encode(), func(i int, _ string) *fakesql.Result {
		return fakesql.Rows([]string{"fingerprint", "labels", "string", "timestamp_ns"}, rows...)
	})
	if len(stmts) != 1 {
		return fmt.Errorf("harness: expected one main statement, got %d: %v", len(stmts), stmts)
	}
	// classes
	if c.Instant {
		o.Tag("endpoint:query")
	} else {
		o.Tag("endpoint:query_range")
	}
	o.Tag(fmt.Sprintf("series:%d", min(len(c.Series), 3)), "rows:"+bucket(total))
	for i, s := range c.Series {
		if s.FP == 0 {
			if i == 0 {
				o.Tag("fp0:first")
			} else {
				o.Tag("fp0:last")
			}
		}
	}
	bi := batchInside(counts)
	if bi {
		o.Tag("batch-boundary-inside-series")
	}
	if total > 0 && total%100 == 0 {
		o.Tag("final-batch-only-eof")
	}
	if esc {
		o.Tag("needs-escape")
	}
	if (len(c.Series) >= 2 && bi) || esc {
		o.NonTrivial()
	}

	if resp.Code != 200 {
		return fmt.Errorf("status %d for a successful result set; body=%s", resp.Code, clip(resp.Body))
	}
	if err := OneDocument(resp.Body); err != nil {
		return err
	}
	var doc lokiStreamsDoc
	if err := Decode(resp.Body, &doc); err != nil {
		return err
	}
	if doc.Status != "success" || doc.Data.ResultType != "streams" {
		return fmt.Errorf("status=%q resultType=%q, want success/streams", doc.Status, doc.Data.ResultType)
	}
	if doc.Data.Result == nil {
		return fmt.Errorf("data.result is not an array; body=%s", clip(resp.Body))
	}
	if len(doc.Data.Result) != len(c.Series) {
		return fmt.Errorf("%d stream objects for %d scripted series; body=%s", len(doc.Data.Result), len(c.Series), clip(resp.Body))
	}
	got := map[string][][]string{}
	for _, st := range doc.Data.Result {
		if st.Stream == nil || st.Values == nil {
			return fmt.Errorf("stream object without stream/values; body=%s", clip(resp.Body))
		}
		k := mapKey(st.Stream)
		if _, dup := got[k]; dup {
			return fmt.Errorf("label set %s appears in more than one stream object", k)
		}
		got[k] = st.Values
	}
	for _, s := range c.Series {
		k := mapKey(normMap(s.Labels))
		vals, ok := got[k]
		if !ok {
			return fmt.Errorf("series fp=%d labels %s missing from the response; body=%s", s.FP, k, clip(resp.Body))
		}
		if len(vals) != len(s.Rows) {
			return fmt.Errorf("series fp=%d: %d entries for %d rows", s.FP, len(vals), len(s.Rows))
		}
		var want, have []string
		for _, r := range s.Rows {
			want = append(want, fmt.Sprintf("%d|%s", r.Ts, Norm(string(r.Line))))
		}
		for _, v := range vals {
			if len(v) != 2 {
				return fmt.Errorf("series fp=%d: entry %v is not a [ts, line] pair", s.FP, v)
			}
			ts, err := strconv.ParseInt(v[0], 10, 64)
			if err != nil {
				return fmt.Errorf("series fp=%d: timestamp %q is not a decimal integer", s.FP, v[0])
			}
			have = append(have, fmt.Sprintf("%d|%s", ts, v[1]))
		}
		sort.Strings(want)
		sort.Strings(have)
		for i := range want {
			if want[i] != have[i] {
				return fmt.Errorf("series fp=%d: entries differ: want %q, got %q", s.FP, want[i], have[i])
			}
		}
	}
	return nil
}

func bucket(n int) string {
	switch {
	case n == 0:
		return "0"
	case n < 10:
		return "1-9"
	case n < 95:
		return "10-94"
	case n <= 105:
		return "95-105"
	case n < 195:
		return "106-194"
	default:
		return "195+"
	}
}

func addStreams(r *evid.Run) {
	evid.Add(r, evid.Prop[streamsCase]{Name: "streams", Quick: 1500, Thorough: 6000, Gen: genStreams, Pred: predStreams})
}

// ---- C15(b): Loki metric queries (QueryRange matrix, QueryInstant vector) -------------------
//
// Script: what the final SELECT of `rate({a="b"}[D])` returns: fingerprint uint64, labels
// map[string]string, value float64, timestamp_ns int64 (ScanMatrix, planner_clickhouse_
// getter.go:103), ORDER BY fingerprint asc, timestamp_ns asc (planner_main_finalizer.go:70).
// timestamp_ns is intDiv(ts, D)*D (planner_lra.go:57) and, when D < step, intDiv(ts, step)*
// step (planner_step_fix.go:29), one row per (fingerprint, timestamp): so timestamps of a
// series are strictly ascending multiples of A = D (D >= step) or step (D < step), inside
// [from.Truncate(D), to.Truncate(D)+D) (planner_from_fix.go:20).
//
// Between the rows and the encoder qryn deliberately re-samples (ZeroEaterPlanner,
// FixPeriodPlanner: a row covers [floor(ts/D)*D, +D] on the step grid from..to, zero values
// are not reported). The expected document is therefore computed from the rows with that
// documented re-sampling rule (resample below, plain integer arithmetic); what C15 decides
// is that every point the rule yields appears exactly once under exactly one object of its
// series with its timestamp and value intact.

type mRow struct {
	Ts int64  `json:"ts"`
	V  string `json:"v"` // strconv.ParseFloat syntax (NaN, +Inf allowed)
}

type mSeries struct {
	FP     uint64 `json:"fp"`
	Labels []KV   `json:"labels"`
	Rows   []mRow `json:"rows"`
}

type matrixCase struct {
	Instant bool      `json:"instant"`
	FromS   int64     `json:"from_s"` // instant: time_s - 300
	ToS     int64     `json:"to_s"`
	FromMs  int64     `json:"from_ms,omitempty"` // millisecond part of the start (0..999)
	ToMs    int64     `json:"to_ms,omitempty"`   // millisecond part of the end / of the instant
	StepMs  int64     `json:"step_ms"`
	RangeS  int64     `json:"range_s"`
	Series  []mSeries `json:"series"`
}

// floatPool: integral values below and above 2^53 and 2^63, 1e19, 1.5e300, MaxFloat64,
// the smallest subnormal and normal numbers, negative zero, +-Inf, NaN, long fractions.
var floatPool = []string{"1", "2", "0.5", "0", "-0", "-1", "100", "1e21", "123456789012345680000000", "1e-7", "-1e-9", "5e-324", "1e-323",
	"2.2250738585072014e-308", "1.7976931348623157e308", "-1.7976931348623157e308", "1.5e300", "1e19", "18446744073709551616",
	"9007199254740991", "9007199254740992", "9007199254740994", "-9007199254740993", "9223372036854775807", "9223372036854775808", "9223372036854777856",
	"0.1", "0.30000000000000004", "3.0000000000000004", "16.666666666666668", "3.141592653589793", "1.0000000000000002", "123456.78901234567",
	"0.000001234567890123", "NaN", "+Inf", "-Inf", "4503599627370497"}

func genFloat(rt *rapid.T) string {
	if rapid.IntRange(0, 2).Draw(rt, "fpool") == 0 {
		return strconv.FormatFloat(rapid.Float64().Draw(rt, "f"), 'g', -1, 64)
	}
	return rapid.SampledFrom(floatPool).Draw(rt, "fv")
}

// window is the [from, to] the service works with, in ns. The range route reads start/end
// as decimal floats (getRequiredFloat, queryRangeController.go:39) and converts them to
// int64: nanosecond values around 1.7e18 are rounded to a multiple of 256 ns on the way in.
// The instant route reads `time` as an integer and subtracts 300 s.
func (c matrixCase) window() (int64, int64) {
	from, to := c.FromS*1e9+c.FromMs*1e6, c.ToS*1e9+c.ToMs*1e6
	if c.Instant {
		return to - 300e9, to
	}
	return int64(float64(from)), int64(float64(to))
}

func genMatrix(rt *rapid.T) matrixCase {
	c := matrixCase{Instant: rapid.IntRange(0, 3).Draw(rt, "instant") == 0}
	c.RangeS = rapid.SampledFrom([]int64{1, 5, 15, 60}).Draw(rt, "range")
	if c.Instant {
		// window = 300 s: steps below 28 ms exceed the 11,000 points limit
		c.StepMs = rapid.SampledFrom([]int64{50, 125, 250, 1000, 2000, 5000, 15000, 60000, 300000}).Draw(rt, "step")
		c.ToS = rapid.SampledFrom([]int64{1700000000, 1700000007, 86400 * 3}).Draw(rt, "time")
		if rapid.Bool().Draw(rt, "timems") {
			c.ToMs = int64(rapid.IntRange(0, 999).Draw(rt, "toms"))
		}
		c.FromS, c.FromMs = c.ToS-300, c.ToMs // QueryInstant: timeNs-300000000000
	} else {
		switch rapid.IntRange(0, 4).Draw(rt, "stepkind") {
		case 0:
			c.StepMs = c.RangeS * 1000
		case 1:
			c.StepMs = rapid.SampledFrom([]int64{100, 250, 700, 1000, 1500}).Draw(rt, "stepsmall")
		case 2:
			c.StepMs = rapid.SampledFrom([]int64{1, 10, 50, 125}).Draw(rt, "steptiny") // instants like N.001, N.050, N.099
		default:
			c.StepMs = 1000 * rapid.SampledFrom([]int64{1, 2, 5, 15, 30, 60, 120}).Draw(rt, "step")
		}
		c.FromS = rapid.SampledFrom([]int64{0, 600, 1700000000, 1700000040}).Draw(rt, "from") + int64(rapid.IntRange(0, 7).Draw(rt, "fromoff"))
		if rapid.Bool().Draw(rt, "fromms") {
			c.FromMs = int64(rapid.SampledFrom([]int{1, 7, 50, 99, 100, 999}).Draw(rt, "frommspool"))
			if rapid.Bool().Draw(rt, "frommsany") {
				c.FromMs = int64(rapid.IntRange(0, 999).Draw(rt, "fromms2"))
			}
		}
		slots := int64(rapid.IntRange(0, 260).Draw(rt, "slots"))
		toMs := c.FromS*1000 + c.FromMs + slots*c.StepMs
		c.ToS, c.ToMs = toMs/1000, toMs%1000
	}
	fromNs, toNs := c.window()
	dNs := c.RangeS * 1e9
	aNs := dNs
	if dNs < c.StepMs*1e6 {
		aNs = c.StepMs * 1e6
	}
	lo := (fromNs / dNs * dNs) / aNs
	hi := ((toNs/dNs*dNs + dNs) - 1) / aNs
	if hi < lo {
		hi = lo
	}
	n := rapid.IntRange(0, 4).Draw(rt, "nseries")
	fps := genFPs(rt, n, true)
	keys := map[string]bool{}
	for i := 0; i < n; i++ {
		s := mSeries{FP: fps[i], Labels: GenLabels(rt, fmt.Sprintf("l%d", i), 0, 3, true)}
		if k := mapKey(normMap(s.Labels)); keys[k] {
			s.Labels = append(s.Labels, KV{K: fmt.Sprintf("series_%d", i), V: "x"})
		}
		keys[mapKey(normMap(s.Labels))] = true
		span := int(hi - lo + 1)
		want := rapid.IntRange(1, 5).Draw(rt, "nrows")
		if rapid.IntRange(0, 2).Draw(rt, "many") == 0 {
			want = rapid.IntRange(95, 210).Draw(rt, "nrowsmany")
		}
		if want > span {
			want = span
		}
		// strictly ascending slot numbers: a random subset of [lo, hi]
		picked := map[int64]bool{}
		if want*2 > span {
			for k := lo; k <= hi; k++ {
				picked[k] = true
			}
			for len(picked) > want {
				delete(picked, lo+int64(rapid.IntRange(0, span-1).Draw(rt, "drop")))
			}
		} else {
			for len(picked) < want {
				picked[lo+int64(rapid.IntRange(0, span-1).Draw(rt, "pick"))] = true
			}
		}
		ks := make([]int64, 0, len(picked))
		for k := range picked {
			ks = append(ks, k)
		}
		sort.Slice(ks, func(a, b int) bool { return ks[a] < ks[b] })
		for _, k := range ks {
			s.Rows = append(s.Rows, mRow{Ts: k * aNs, V: genFloat(rt)})
		}
		c.Series = append(c.Series, s)
	}
	return c
}

type point struct {
	ts int64
	v  float64
}

// resample is qryn's documented post-processing of metric rows (ZeroEaterPlanner +
// FixPeriodPlanner) written as a specification: a row (ts, v), v != 0, holds on the step
// grid from+i*step (0 <= i <= (to-from)/step) for the slots
// (floor(ts/D)*D-from)/step .. (floor(ts/D)*D+D-from)/step; later rows overwrite earlier
// ones; slots that hold 0 are not reported.
func resample(rows []mRow, fromNs, toNs, stepNs, dNs int64) ([]point, error) {
	n := (toNs-fromNs)/stepNs + 1
	vals := make([]float64, n)
	for _, r := range rows {
		v, err := strconv.ParseFloat(r.V, 64)
		if err != nil {
			return nil, err
		}
		if v == 0 {
			continue
		}
		a := ((r.Ts/dNs)*dNs - fromNs) / stepNs
		b := ((r.Ts/dNs+1)*dNs - fromNs) / stepNs
		if b < 0 || a >= n {
			continue
		}
		if a < 0 {
			a = 0
		}
		if b >= n {
			b = n - 1
		}
		for i := a; i <= b; i++ {
			vals[i] = v
		}
	}
	var out []point
	for i, v := range vals {
		if v != 0 {
			out = append(out, point{fromNs + int64(i)*stepNs, v})
		}
	}
	return out, nil
}

type lokiMatrixDoc struct {
	Status string `json:"status"`
	Data   struct {
		ResultType string `json:"resultType"`
		Result     []struct {
			Metric map[string]string `json:"metric"`
			Values [][]any           `json:"values"`
			Value  []any             `json:"value"`
		} `json:"result"`
	} `json:"data"`
}

// msOf rounds nanoseconds to the nearest millisecond.
func msOf(ns int64) int64 { return int64(math.Round(float64(ns) / 1e6)) }

func sameFloat(a, b float64) bool {
	if math.IsNaN(a) || math.IsNaN(b) {
		return math.IsNaN(a) && math.IsNaN(b)
	}
	return math.Float64bits(a) == math.Float64bits(b) // -0 is not 0
}

func checkPoint(pair []any, want point, instant bool) error {
	if len(pair) != 2 {
		return fmt.Errorf("sample %v is not a [ts, value] pair", pair)
	}
	tsn, ok := pair[0].(json.Number)
	if !ok {
		return fmt.Errorf("sample timestamp %v is not a number", pair[0])
	}
	vs, ok := pair[1].(string)
	if !ok {
		return fmt.Errorf("sample value %v is not a string", pair[1])
	}
	tf, err := strconv.ParseFloat(string(tsn), 64)
	if err != nil {
		return fmt.Errorf("timestamp %q: %v", tsn, err)
	}
	// compared numerically at millisecond resolution (N.50 is not N.050); the expected
	// instant may be off a whole millisecond by the < 256 ns of the float start
	if int64(math.Round(tf*1000)) != msOf(want.ts) {
		return fmt.Errorf("timestamp %s does not render %d ns", tsn, want.ts)
	}
	v, err := strconv.ParseFloat(vs, 64)
	if err != nil {
		return fmt.Errorf("value %q does not parse as a number", vs)
	}
	if !sameFloat(v, want.v) {
		return fmt.Errorf("value %q parses to %v, scripted %v", vs, v, want.v)
	}
	return nil
}

func predMatrix(c matrixCase, o *evid.Obs) error {
	fromNs, toNs := c.window()
	if c.StepMs <= 0 || toNs < fromNs || c.RangeS <= 0 || c.FromMs < 0 || c.FromMs > 999 || c.ToMs < 0 || c.ToMs > 999 {
		o.Discard("outside-domain") // C12's territory
		return nil
	}
	var rows [][]any
	counts := make([]int, len(c.Series))
	esc := false
	total := 0
	for i, s := range c.Series {
		if len(s.Rows) == 0 {
			o.Discard("series-without-rows")
			return nil
		}
		counts[i] = len(s.Rows)
		total += len(s.Rows)
		esc = esc || labelsNeedEscape(s.Labels)
		for _, r := range s.Rows {
			v, err := strconv.ParseFloat(r.V, 64)
			if err != nil {
				return fmt.Errorf("harness: bad float %q", r.V)
			}
			rows = append(rows, []any{s.FP, labelsMap(s.Labels), v, r.Ts})
		}
	}
	q := url.Values{}
	q.Set("query", fmt.Sprintf(`rate({a="b"}[%ds])`, c.RangeS))
	q.Set("step", strconv.FormatFloat(float64(c.StepMs)/1000, 'f', -1, 64))
	target := "/loki/api/v1/query_range?"
	if c.Instant {
		target = "/loki/api/v1/query?"
		q.Set("time", strconv.FormatInt(c.ToS*1e9+c.ToMs*1e6, 10))
		o.Tag("endpoint:query")
	} else {
		q.Set("start", strconv.FormatInt(c.FromS*1e9+c.FromMs*1e6, 10))
		q.Set("end", strconv.FormatInt(c.ToS*1e9+c.ToMs*1e6, 10))
		o.Tag("endpoint:query_range")
	}
	resp, stmts := run(target+q.Encode(), func(i int, _ string) *fakesql.Result {
		return fakesql.Rows([]string{"fingerprint", "labels", "value", "timestamp_ns"}, rows...)
	})
	if len(stmts) != 1 {
		return fmt.Errorf("harness: expected one main statement, got %d", len(stmts))
	}

	// expected points
	type exp struct {
		fp  uint64
		key string
		pts []point
	}
	var want []exp
	npts := 0
	smallMs, anyMs := false, false
	for _, s := range c.Series {
		pts, err := resample(s.Rows, fromNs, toNs, c.StepMs*1e6, c.RangeS*1e9)
		if err != nil {
			return fmt.Errorf("harness: %v", err)
		}
		if len(pts) == 0 {
			continue // every value zero or outside the window: the series is not reported
		}
		if c.Instant {
			pts = pts[len(pts)-1:]
		}
		npts += len(pts)
		for _, p := range pts {
			if m := msOf(p.ts) % 1000; m >= 1 && m <= 99 {
				smallMs = true
			} else if m != 0 {
				anyMs = true
			}
		}
		want = append(want, exp{s.FP, mapKey(normMap(s.Labels)), pts})
	}
	o.Tag(fmt.Sprintf("series:%d", min(len(c.Series), 3)), fmt.Sprintf("reported-series:%d", min(len(want), 3)), "rows:"+bucket(total), "points:"+bucket(npts))
	for i, s := range c.Series {
		if s.FP == 0 && i == 0 {
			o.Tag("fp0:first")
		}
	}
	bi := batchInside(counts)
	if bi {
		o.Tag("batch-boundary-inside-series")
	}
	if esc {
		o.Tag("needs-escape")
	}
	if smallMs {
		o.Tag("instant-ms-part:1-99")
	} else if anyMs {
		o.Tag("instant-ms-part:100-999")
	}
	if (len(want) >= 2 && bi) || (esc && len(want) > 0) || smallMs {
		o.NonTrivial()
	}

	if resp.Code != 200 {
		return fmt.Errorf("status %d for a successful result set; body=%s", resp.Code, clip(resp.Body))
	}
	if err := OneDocument(resp.Body); err != nil {
		return err
	}
	var doc lokiMatrixDoc
	if err := Decode(resp.Body, &doc); err != nil {
		return err
	}
	wantType := "matrix"
	if c.Instant {
		wantType = "vector"
	}
	if doc.Status != "success" || doc.Data.ResultType != wantType {
		return fmt.Errorf("status=%q resultType=%q, want success/%s", doc.Status, doc.Data.ResultType, wantType)
	}
	if doc.Data.Result == nil {
		return fmt.Errorf("data.result is not an array; body=%s", clip(resp.Body))
	}
	if len(doc.Data.Result) != len(want) {
		return fmt.Errorf("%d series objects, expected %d (scripted %d series); body=%s", len(doc.Data.Result), len(want), len(c.Series), clip(resp.Body))
	}
	got := map[string]int{}
	for i, s := range doc.Data.Result {
		if s.Metric == nil {
			return fmt.Errorf("series object without metric; body=%s", clip(resp.Body))
		}
		k := mapKey(s.Metric)
		if _, dup := got[k]; dup {
			return fmt.Errorf("label set %s appears in more than one series object", k)
		}
		got[k] = i
	}
	for _, w := range want {
		i, ok := got[w.key]
		if !ok {
			return fmt.Errorf("series fp=%d labels %s missing from the response; body=%s", w.fp, w.key, clip(resp.Body))
		}
		s := doc.Data.Result[i]
		if c.Instant {
			if s.Values != nil || s.Value == nil {
				return fmt.Errorf("vector sample must carry value, not values; body=%s", clip(resp.Body))
			}
			if err := checkPoint(s.Value, w.pts[0], true); err != nil {
				return fmt.Errorf("series fp=%d: %v", w.fp, err)
			}
			continue
		}
		if s.Value != nil || s.Values == nil {
			return fmt.Errorf("matrix series must carry values; body=%s", clip(resp.Body))
		}
		if len(s.Values) != len(w.pts) {
			return fmt.Errorf("series fp=%d: %d samples, expected %d; body=%s", w.fp, len(s.Values), len(w.pts), clip(resp.Body))
		}
		// match samples by timestamp (whole milliseconds): each expected point exactly once
		byMs := map[int64][]any{}
		for _, pair := range s.Values {
			if len(pair) == 2 {
				if n, ok := pair[0].(json.Number); ok {
					if f, err := strconv.ParseFloat(string(n), 64); err == nil {
						ms := int64(math.Round(f * 1000))
						if _, dup := byMs[ms]; dup {
							return fmt.Errorf("series fp=%d: two samples at %s; body=%s", w.fp, n, clip(resp.Body))
						}
						byMs[ms] = pair
						continue
					}
				}
			}
			return fmt.Errorf("series fp=%d: malformed sample %v", w.fp, pair)
		}
		for _, p := range w.pts {
			pair, ok := byMs[msOf(p.ts)]
			if !ok {
				return fmt.Errorf("series fp=%d: no sample at %d ns; body=%s", w.fp, p.ts, clip(resp.Body))
			}
			if err := checkPoint(pair, p, false); err != nil {
				return fmt.Errorf("series fp=%d: %v", w.fp, err)
			}
		}
	}
	return nil
}

func addMatrix(r *evid.Run) {
	evid.Add(r, evid.Prop[matrixCase]{Name: "matrix", Quick: 1200, Thorough: 5000, Gen: genMatrix, Pred: predMatrix})
}

package c15

import (
	"context"
	"encoding/hex"
	"errors"
	"fmt"
	"io"
	"math"
	"net/http/httptest"
	"net/url"
	"sort"
	"strconv"
	"sync"
	"time"

	"github.com/gorilla/mux"
	controllerv1 "github.com/metrico/qryn/reader/controller"
	"github.com/metrico/qryn/reader/logql/logql_parser"
	"github.com/metrico/qryn/reader/logql/logql_transpiler_v2/shared"
	"github.com/metrico/qryn/reader/model"
	"github.com/metrico/qryn/reader/plugins"
	v1 "go.opentelemetry.io/proto/otlp/trace/v1"
	"pgregory.net/rapid"

	"qrynverif/evid"
	"qrynverif/fakesql"
)

// ---- C15(i): batch boundaries on the channels that feed the response writers ---------------
//
// The writers consume batches ([]LogEntry, []TraceInfo) or single elements from a channel.
// The real producers do send nil and empty batches: Scan sends entries[:0] when its context
// ends (planner_clickhouse_getter.go:52), in-process stages forward a batch after filtering
// it down to nothing (planner_line_filter / label_filter OnAfterEntriesSlice), LimitPlanner
// sends entries[:0], ComplexRequestProcessor sends its nil result slice when a portion finds
// nothing (complex_request_processor.go:44). Here the channel content is scripted directly:
//
//   - Loki streams / matrix / vector writers: a LogQL planner plug-in (plugins.RegisterLogQL
//     PlannerPlugin, the extension point logql_transpiler_v2.Plan consults first) returns a
//     RequestProcessor that sends the scripted batches; the real QueryRangeService (QueryRange,
//     QueryInstant, exportStreamsValue) and the real controller consume them;
//   - Tempo writers: the real TempoController over a fake model.ITempoService (the interface
//     the controller is written against) whose SearchTraceQL sends the scripted []TraceInfo
//     batches, and whose Query / Search / Values / ValuesV2 send the elements one by one;
//   - additionally the real ComplexRequestProcessor path through scripted SQL (complexity at
//     the threshold): one batch, nil when the SELECT returns nothing.
//
// Batches: nil, empty non-nil, single element, large (up to 300), at the first / middle /
// last position, several in a row, and "nothing but empty batches". Series stay contiguous
// across batch boundaries (that is the producers' guarantee), the end-of-stream marker is
// absent, in the last batch, or a batch of its own.

const (
	wStreamsRange = iota
	wStreamsInstant
	wMatrix
	wVector
	wTraceQLFake
	wTraceQLComplex
	wSearchTagsFake
	wTagValuesFake
	wTagValuesV2Fake
	wTraceByIDFake
	nWriters
)

var writerNames = []string{"streams-range", "streams-instant", "matrix", "vector", "traceql-fake-service", "traceql-complex-processor",
	"search-tags-fake-service", "tag-values-fake-service", "tag-values-v2-fake-service", "trace-by-id-fake-service"}

type bSeries struct {
	FP     uint64 `json:"fp"`
	Labels []KV   `json:"labels"`
	N      int    `json:"n"` // entries of this series
}

type batchCase struct {
	Writer int       `json:"writer"`
	Series []bSeries `json:"series"` // Loki writers
	Items  int       `json:"items"`  // Tempo writers: number of traces / values / spans
	// Sizes partitions the element sequence: -1 a nil batch, 0 an empty non-nil batch, n > 0
	// the next n elements; what is left after the last size goes into one final batch.
	Sizes  []int      `json:"sizes"`
	Marker int        `json:"marker"` // Loki: 0 no end marker, 1 marker appended to the last batch, 2 marker in a batch of its own
	Strs   []evid.Str `json:"strs"`   // lines / names / values, cycled
	Vals   []string   `json:"vals"`   // metric values, cycled
}

func genBatches(rt *rapid.T) batchCase {
	c := batchCase{Writer: int(rapid.Uint64().Draw(rt, "writer") % nWriters)}
	total := 0
	if c.Writer <= wVector {
		n := rapid.IntRange(0, 4).Draw(rt, "nseries")
		fps := genFPs(rt, n, true)
		keys := map[string]bool{}
		for i := 0; i < n; i++ {
			s := bSeries{FP: fps[i], Labels: GenLabels(rt, fmt.Sprintf("l%d", i), 0, 2, true)}
			if k := mapKey(normMap(s.Labels)); keys[k] {
				s.Labels = append(s.Labels, KV{K: fmt.Sprintf("series_%d", i), V: "x"})
			}
			keys[mapKey(normMap(s.Labels))] = true
			s.N = rapid.SampledFrom([]int{1, 1, 2, 3, 10, 120}).Draw(rt, "n")
			total += s.N
			c.Series = append(c.Series, s)
		}
		c.Marker = rapid.IntRange(0, 2).Draw(rt, "marker")
	} else {
		c.Items = rapid.SampledFrom([]int{0, 0, 1, 2, 3, 7, 40, 300}).Draw(rt, "items")
		total = c.Items
	}
	nb := rapid.IntRange(0, 8).Draw(rt, "nbatches")
	for i := 0; i < nb; i++ {
		switch rapid.IntRange(0, 5).Draw(rt, "bkind") {
		case 0:
			c.Sizes = append(c.Sizes, -1)
		case 1:
			c.Sizes = append(c.Sizes, 0)
		case 2:
			c.Sizes = append(c.Sizes, 1)
		case 3:
			c.Sizes = append(c.Sizes, rapid.IntRange(2, 5).Draw(rt, "bsmall"))
		case 4:
			c.Sizes = append(c.Sizes, rapid.IntRange(50, 300).Draw(rt, "blarge"))
		default: // several empty ones in a row
			c.Sizes = append(c.Sizes, -1, 0, 0, -1)
		}
	}
	_ = total
	ns := rapid.IntRange(1, 5).Draw(rt, "nstrs")
	for i := 0; i < ns; i++ {
		c.Strs = append(c.Strs, GenStr(rt, "str", true))
	}
	nv := rapid.IntRange(1, 4).Draw(rt, "nvals")
	for i := 0; i < nv; i++ {
		c.Vals = append(c.Vals, genFloat(rt))
	}
	return c
}

// partition cuts n elements into index ranges per Sizes; -1 entries are nil batches.
type span struct {
	lo, hi int
	isNil  bool
}

func partition(n int, sizes []int) []span {
	var out []span
	pos := 0
	for _, sz := range sizes {
		switch {
		case sz < 0:
			out = append(out, span{pos, pos, true})
		default:
			hi := min(pos+sz, n)
			out = append(out, span{pos, hi, false})
			pos = hi
		}
	}
	if pos < n {
		out = append(out, span{pos, n, false})
	}
	return out
}

// ---- the LogQL planner plug-in -------------------------------------------------------------------

const batchLabel = "__c15_batches__"

type scriptedProc struct {
	matrix  bool
	batches [][]shared.LogEntry
}

func (p *scriptedProc) IsMatrix() bool { return p.matrix }
func (p *scriptedProc) Process(ctx *shared.PlannerContext, in chan []shared.LogEntry) (chan []shared.LogEntry, error) {
	ch := make(chan []shared.LogEntry)
	go func() {
		defer close(ch)
		for _, b := range p.batches {
			ch <- b
		}
	}()
	return ch, nil
}

type batchPlugin struct{}

var (
	batchMu   sync.Mutex
	batchReg  = map[string]*scriptedProc{}
	batchSeq  int
	batchOnce sync.Once
)

// Plan answers only selectors {__c15_batches__="<id>"} registered by a running predicate;
// for every other query it declines and the real planner plans.
func (batchPlugin) Plan(script *logql_parser.LogQLScript) (shared.RequestProcessorChain, error) {
	if script == nil || script.StrSelector == nil || len(script.StrSelector.StrSelCmds) != 1 || script.StrSelector.StrSelCmds[0].Label.Name != batchLabel {
		return nil, errors.New("not a scripted-batches query")
	}
	id, err := script.StrSelector.StrSelCmds[0].Val.Unquote()
	if err != nil {
		return nil, err
	}
	batchMu.Lock()
	p := batchReg[id]
	batchMu.Unlock()
	if p == nil {
		return nil, errors.New("unknown scripted-batches id")
	}
	return shared.RequestProcessorChain{p}, nil
}

func registerBatches(p *scriptedProc) (id string, done func()) {
	batchOnce.Do(func() { plugins.RegisterLogQLPlannerPlugin("c15-scripted-batches", batchPlugin{}) })
	batchMu.Lock()
	batchSeq++
	id = strconv.Itoa(batchSeq)
	batchReg[id] = p
	batchMu.Unlock()
	return id, func() { batchMu.Lock(); delete(batchReg, id); batchMu.Unlock() }
}

// ---- the fake Tempo service -------------------------------------------------------------------------

type fakeTempo struct {
	traceql [][]model.TraceInfo
	traces  []*model.TraceResponse
	values  []string
	spans   []*model.SpanResponse
}

func (f *fakeTempo) Query(ctx context.Context, startNS int64, endNS int64, traceId []byte, binIds bool) (chan *model.SpanResponse, error) {
	ch := make(chan *model.SpanResponse)
	go func() {
		defer close(ch)
		for _, s := range f.spans {
			ch <- s
		}
	}()
	return ch, nil
}
func (f *fakeTempo) strings() (chan string, error) {
	ch := make(chan string)
	go func() {
		defer close(ch)
		for _, s := range f.values {
			ch <- s
		}
	}()
	return ch, nil
}
func (f *fakeTempo) Tags(ctx context.Context) (chan string, error)               { return f.strings() }
func (f *fakeTempo) Values(ctx context.Context, tag string) (chan string, error) { return f.strings() }
func (f *fakeTempo) ValuesV2(ctx context.Context, key string, query string, from time.Time, to time.Time, limit int) (chan string, error) {
	return f.strings()
}
func (f *fakeTempo) TagsV2(ctx context.Context, query string, from time.Time, to time.Time, limit int) (chan string, error) {
	return f.strings()
}
func (f *fakeTempo) Search(ctx context.Context, tags string, minDurationNS int64, maxDurationNS int64, limit int, fromNS int64, toNS int64) (chan *model.TraceResponse, error) {
	ch := make(chan *model.TraceResponse)
	go func() {
		defer close(ch)
		for _, t := range f.traces {
			ch <- t
		}
	}()
	return ch, nil
}
func (f *fakeTempo) SearchTraceQL(ctx context.Context, q string, limit int, from time.Time, to time.Time) (chan []model.TraceInfo, error) {
	ch := make(chan []model.TraceInfo)
	go func() {
		defer close(ch)
		for _, b := range f.traceql {
			ch <- b
		}
	}()
	return ch, nil
}

// tempoRouter registers the real TempoController over svc on the paths of RouteTempo.
func tempoRouter(svc model.ITempoService) *mux.Router {
	ctrl := &controllerv1.TempoController{Service: svc}
	app := mux.NewRouter()
	app.HandleFunc("/api/traces/{traceId}", ctrl.Trace).Methods("GET")
	app.HandleFunc("/api/search/tag/{tag}/values", ctrl.Values).Methods("GET")
	app.HandleFunc("/api/v2/search/tag/{tag}/values", ctrl.ValuesV2).Methods("GET")
	app.HandleFunc("/api/search", ctrl.Search).Methods("GET")
	return app
}

// ---- the predicate ---------------------------------------------------------------------------------------

func traceID(i int) string { return fmt.Sprintf("%032x", i+1) }

func predBatches(c batchCase, o *evid.Obs) error {
	if c.Writer < 0 || c.Writer >= nWriters || len(c.Strs) == 0 || len(c.Vals) == 0 {
		o.Discard("bad-case")
		return nil
	}
	str := func(i int) string { return string(c.Strs[i%len(c.Strs)]) }
	esc := false
	for _, s := range c.Strs {
		esc = esc || NeedsEscape(string(s))
	}
	var body []byte
	var code int
	var spans []span
	total := 0

	classify := func() {
		nNil, nEmpty, run, maxRun := 0, 0, 0, 0
		for i, sp := range spans {
			empty := sp.lo == sp.hi
			if sp.isNil {
				nNil++
			} else if empty {
				nEmpty++
			}
			if empty {
				run++
				maxRun = max(maxRun, run)
				switch {
				case i == 0:
					o.Tag("empty-batch:first")
				case i == len(spans)-1:
					o.Tag("empty-batch:last")
				default:
					o.Tag("empty-batch:middle")
				}
			} else {
				run = 0
				if sp.hi-sp.lo == 1 {
					o.Tag("batch:single")
				} else if sp.hi-sp.lo >= 50 {
					o.Tag("batch:large")
				}
			}
		}
		if nNil > 0 {
			o.Tag("nil-batch")
		}
		if nEmpty > 0 {
			o.Tag("empty-non-nil-batch")
		}
		if maxRun >= 2 {
			o.Tag("empty-batches-in-a-row")
		}
		if len(spans) > 0 && total == 0 {
			o.Tag("only-empty-batches")
		}
		if len(spans) == 0 {
			o.Tag("no-batch-at-all")
		}
		o.Tag("writer:"+writerNames[c.Writer], "elements:"+bucket(total))
		if nNil+nEmpty > 0 {
			o.Tag(writerNames[c.Writer] + ":with-empty-batches")
			o.NonTrivial()
		}
		if esc {
			o.Tag("needs-escape")
		}
	}

	switch {
	case c.Writer <= wVector:
		// flatten the entries: series contiguous, timestamps ascending inside a series
		type ent struct {
			s  int
			e  shared.LogEntry
			ms int64
			v  float64
		}
		var ents []ent
		for si, s := range c.Series {
			if s.N <= 0 {
				o.Discard("series-without-entries")
				return nil
			}
			for j := 0; j < s.N; j++ {
				k := len(ents)
				v, err := strconv.ParseFloat(c.Vals[k%len(c.Vals)], 64)
				if err != nil && !math.IsInf(v, 0) {
					return fmt.Errorf("harness: bad float %q", c.Vals[k%len(c.Vals)])
				}
				ms := int64(1700000000000) + int64(j)*1500
				ents = append(ents, ent{si, shared.LogEntry{TimestampNS: ms * 1e6, Fingerprint: s.FP, Labels: labelsMap(s.Labels), Message: str(k), Value: v}, ms, v})
			}
		}
		total = len(ents)
		spans = partition(total, c.Sizes)
		proc := &scriptedProc{matrix: c.Writer >= wMatrix}
		for _, sp := range spans {
			if sp.isNil {
				proc.batches = append(proc.batches, nil)
				continue
			}
			b := make([]shared.LogEntry, 0, sp.hi-sp.lo)
			for _, e := range ents[sp.lo:sp.hi] {
				b = append(b, e.e)
			}
			proc.batches = append(proc.batches, b)
		}
		marker := shared.LogEntry{Err: io.EOF}
		switch c.Marker {
		case 1:
			if n := len(proc.batches); n > 0 && proc.batches[n-1] != nil {
				proc.batches[n-1] = append(proc.batches[n-1], marker)
			} else {
				proc.batches = append(proc.batches, []shared.LogEntry{marker})
			}
		case 2:
			proc.batches = append(proc.batches, []shared.LogEntry{marker})
		}
		o.Tag(fmt.Sprintf("marker:%d", c.Marker))
		classify()
		id, done := registerBatches(proc)
		defer done()
		q := url.Values{}
		q.Set("query", fmt.Sprintf(`{%s="%s"}`, batchLabel, id))
		q.Set("limit", "100000")
		target := "/loki/api/v1/query_range?start=1700000000000000000&end=1700000600000000000&step=1&"
		if c.Writer == wStreamsInstant || c.Writer == wVector {
			target = "/loki/api/v1/query?time=1700000600000000000&step=1&"
		}
		resp, _ := run(target+q.Encode(), func(i int, _ string) *fakesql.Result { return fakesql.Rows(nil) })
		body, code = resp.Body, resp.Code
		if code != 200 {
			return fmt.Errorf("%s: status %d; body=%s", writerNames[c.Writer], code, clip(body))
		}
		if err := OneDocument(body); err != nil {
			return fmt.Errorf("%s: %v", writerNames[c.Writer], err)
		}
		if c.Writer <= wStreamsInstant {
			var doc lokiStreamsDoc
			if err := Decode(body, &doc); err != nil {
				return err
			}
			if doc.Status != "success" || doc.Data.ResultType != "streams" || doc.Data.Result == nil {
				return fmt.Errorf("streams envelope wrong; body=%s", clip(body))
			}
			if len(doc.Data.Result) != len(c.Series) {
				return fmt.Errorf("%d stream objects for %d series; body=%s", len(doc.Data.Result), len(c.Series), clip(body))
			}
			got := map[string][][]string{}
			for _, st := range doc.Data.Result {
				if st.Stream == nil || st.Values == nil {
					return fmt.Errorf("stream object without stream/values; body=%s", clip(body))
				}
				k := mapKey(st.Stream)
				if _, dup := got[k]; dup {
					return fmt.Errorf("label set %s in more than one stream object; body=%s", k, clip(body))
				}
				got[k] = st.Values
			}
			for si, s := range c.Series {
				vals, ok := got[mapKey(normMap(s.Labels))]
				if !ok || len(vals) != s.N {
					return fmt.Errorf("series %d (fp %d): present=%v, %d entries, scripted %d; body=%s", si, s.FP, ok, len(vals), s.N, clip(body))
				}
				var want, have []string
				for _, e := range ents {
					if e.s == si {
						want = append(want, fmt.Sprintf("%d|%s", e.e.TimestampNS, Norm(e.e.Message)))
					}
				}
				for _, v := range vals {
					if len(v) != 2 {
						return fmt.Errorf("entry %v is not a pair", v)
					}
					have = append(have, v[0]+"|"+v[1])
				}
				sort.Strings(want)
				sort.Strings(have)
				for i := range want {
					if want[i] != have[i] {
						return fmt.Errorf("series fp=%d: entry %q, scripted %q", s.FP, have[i], want[i])
					}
				}
			}
			return nil
		}
		var doc lokiMatrixDoc
		if err := Decode(body, &doc); err != nil {
			return err
		}
		wantType := "matrix"
		if c.Writer == wVector {
			wantType = "vector"
		}
		if doc.Status != "success" || doc.Data.ResultType != wantType || doc.Data.Result == nil {
			return fmt.Errorf("%s envelope wrong; body=%s", wantType, clip(body))
		}
		if len(doc.Data.Result) != len(c.Series) {
			return fmt.Errorf("%d series objects for %d series; body=%s", len(doc.Data.Result), len(c.Series), clip(body))
		}
		got := map[string]int{}
		for i, s := range doc.Data.Result {
			if s.Metric == nil {
				return fmt.Errorf("series object without metric; body=%s", clip(body))
			}
			k := mapKey(s.Metric)
			if _, dup := got[k]; dup {
				return fmt.Errorf("label set %s in more than one series object; body=%s", k, clip(body))
			}
			got[k] = i
		}
		for si, s := range c.Series {
			gi, ok := got[mapKey(normMap(s.Labels))]
			if !ok {
				return fmt.Errorf("series %d (fp %d) missing; body=%s", si, s.FP, clip(body))
			}
			g := doc.Data.Result[gi]
			var mine []ent
			for _, e := range ents {
				if e.s == si {
					mine = append(mine, e)
				}
			}
			if c.Writer == wVector {
				last := mine[len(mine)-1]
				if g.Value == nil || g.Values != nil {
					return fmt.Errorf("vector sample must carry value; body=%s", clip(body))
				}
				if err := checkPoint(g.Value, point{last.ms * 1e6, last.v}, true); err != nil {
					return fmt.Errorf("series fp=%d: %v; body=%s", s.FP, err, clip(body))
				}
				continue
			}
			if g.Values == nil || len(g.Values) != len(mine) {
				return fmt.Errorf("series fp=%d: %d samples, scripted %d; body=%s", s.FP, len(g.Values), len(mine), clip(body))
			}
			for j, e := range mine { // the writer streams in order
				if err := checkPoint(g.Values[j], point{e.ms * 1e6, e.v}, false); err != nil {
					return fmt.Errorf("series fp=%d sample %d: %v", s.FP, j, err)
				}
			}
		}
		return nil

	case c.Writer == wTraceQLComplex:
		// real service, real ComplexRequestProcessor: complexity at the threshold, one portion
		total = c.Items
		if total == 0 {
			spans = []span{{0, 0, true}} // the processor sends its nil slice
		} else {
			spans = []span{{0, total, false}}
		}
		classify()
		var rows [][]any
		for i := 0; i < total; i++ {
			rows = append(rows, []any{traceID(i), []string{"00000000000000aa"}, []int64{5}, []int64{int64(1700000000000000000 + i)}, int64(1700000000000000000 + i), 1.5, str(i), str(i + 1)})
		}
		resp, _ := run("/api/search?start=1700000000&end=1700000100&limit=100000&q="+url.QueryEscape(`{.a="b"}`), func(i int, q string) *fakesql.Result {
			if isComplexity(q) {
				return fakesql.Rows([]string{"_count"}, []any{uint64(10000000)})
			}
			return fakesql.Rows(nil, rows...)
		})
		body, code = resp.Body, resp.Code
	default:
		total = c.Items
		spans = partition(total, c.Sizes)
		if c.Writer != wTraceQLFake {
			spans = nil
			if total > 0 {
				spans = []span{{0, total, false}}
			}
		}
		classify()
		f := &fakeTempo{}
		target := ""
		switch c.Writer {
		case wTraceQLFake:
			for _, sp := range spans {
				if sp.isNil {
					f.traceql = append(f.traceql, nil)
					continue
				}
				b := make([]model.TraceInfo, 0, sp.hi-sp.lo)
				for i := sp.lo; i < sp.hi; i++ {
					ss := model.SpanSet{Spans: []model.SpanInfo{{SpanID: "00000000000000aa", StartTimeUnixNano: "5", DurationNanos: "7", Attributes: []model.SpanAttr{}}}, Matched: 1}
					b = append(b, model.TraceInfo{TraceID: traceID(i), RootServiceName: str(i), RootTraceName: str(i + 1), StartTimeUnixNano: strconv.Itoa(1700000000 + i), DurationMs: 1.5, SpanSet: ss, SpanSets: []model.SpanSet{ss}})
				}
				f.traceql = append(f.traceql, b)
			}
			target = "/api/search?limit=100000&q=" + url.QueryEscape(`{.a="b"}`)
		case wSearchTagsFake:
			for i := 0; i < total; i++ {
				f.traces = append(f.traces, &model.TraceResponse{TraceID: traceID(i), RootServiceName: str(i), RootTraceName: str(i + 1), StartTimeUnixNano: int64(1700000000 + i), DurationMs: int64(i)})
			}
			target = "/api/search?limit=100000&tags=" + url.QueryEscape("a=b")
		case wTagValuesFake, wTagValuesV2Fake:
			for i := 0; i < total; i++ {
				f.values = append(f.values, str(i)+strconv.Itoa(i))
			}
			target = "/api/search/tag/foo/values"
			if c.Writer == wTagValuesV2Fake {
				target = "/api/v2/search/tag/foo/values?start=1700000000&end=1700000100"
			}
		case wTraceByIDFake:
			for i := 0; i < total; i++ {
				tid, _ := hex.DecodeString(traceID(0))
				f.spans = append(f.spans, &model.SpanResponse{ServiceName: str(i), Span: &v1.Span{TraceId: tid, SpanId: []byte(fmt.Sprintf("%08d", i)), Name: str(i), StartTimeUnixNano: uint64(i), EndTimeUnixNano: uint64(i + 5)}})
			}
			target = "/api/traces/" + traceID(0)
		}
		rec := httptest.NewRecorder()
		tempoRouter(f).ServeHTTP(rec, httptest.NewRequest("GET", target, nil))
		body, code = rec.Body.Bytes(), rec.Code
	}

	// Tempo documents
	if code != 200 {
		return fmt.Errorf("%s: status %d; body=%s", writerNames[c.Writer], code, clip(body))
	}
	if err := OneDocument(body); err != nil {
		return fmt.Errorf("%s: %v", writerNames[c.Writer], err)
	}
	switch c.Writer {
	case wTraceQLFake, wTraceQLComplex, wSearchTagsFake:
		var doc traceQLDoc
		if err := Decode(body, &doc); err != nil {
			return err
		}
		if doc.Traces == nil || len(doc.Traces) != total {
			return fmt.Errorf("%s: %d trace objects for %d scripted; body=%s", writerNames[c.Writer], len(doc.Traces), total, clip(body))
		}
		seen := map[string]bool{}
		for _, t := range doc.Traces {
			seen[t.TraceID] = true
		}
		for i := 0; i < total; i++ {
			if !seen[traceID(i)] {
				return fmt.Errorf("%s: trace %s missing; body=%s", writerNames[c.Writer], traceID(i), clip(body))
			}
		}
		for _, t := range doc.Traces {
			i64, _ := strconv.ParseInt(t.TraceID, 16, 64)
			i := int(i64) - 1
			if i < 0 || i >= total || t.RootServiceName != Norm(str(i)) || t.RootTraceName != Norm(str(i+1)) {
				return fmt.Errorf("%s: trace %s carries %q/%q; body=%s", writerNames[c.Writer], t.TraceID, t.RootServiceName, t.RootTraceName, clip(body))
			}
		}
	case wTagValuesFake, wTagValuesV2Fake:
		var got []string
		if c.Writer == wTagValuesFake {
			var doc struct {
				TagValues []string `json:"tagValues"`
			}
			if err := Decode(body, &doc); err != nil {
				return err
			}
			if doc.TagValues == nil {
				return fmt.Errorf("tagValues missing; body=%s", clip(body))
			}
			got = doc.TagValues
		} else {
			var doc struct {
				TagValues []struct {
					Type  string `json:"type"`
					Value string `json:"value"`
				} `json:"tagValues"`
			}
			if err := Decode(body, &doc); err != nil {
				return err
			}
			for _, v := range doc.TagValues {
				got = append(got, v.Value)
			}
		}
		var want []evid.Str
		for i := 0; i < total; i++ {
			want = append(want, evid.Str(str(i)+strconv.Itoa(i)))
		}
		if err := sameStrings(want, got); err != nil {
			return fmt.Errorf("%s: %v; body=%s", writerNames[c.Writer], err, clip(body))
		}
	case wTraceByIDFake:
		var doc traceDoc
		if err := Decode(body, &doc); err != nil {
			return err
		}
		if len(doc.ResourceSpans) != 1 || len(doc.ResourceSpans[0].ILS) != 1 || doc.ResourceSpans[0].ILS[0].Spans == nil {
			return fmt.Errorf("trace envelope wrong; body=%s", clip(body))
		}
		sp := doc.ResourceSpans[0].ILS[0].Spans
		if len(sp) != total {
			return fmt.Errorf("%d span objects for %d scripted; body=%s", len(sp), total, clip(body))
		}
		for i, g := range sp {
			if g.SpanID != hex.EncodeToString([]byte(fmt.Sprintf("%08d", i))) || g.Name != Norm(str(i)) {
				return fmt.Errorf("span %d: id %q name %q; body=%s", i, g.SpanID, g.Name, clip(body))
			}
		}
	}
	return nil
}

func addBatches(r *evid.Run) {
	evid.Add(r, evid.Prop[batchCase]{Name: "batches", Quick: 2000, Thorough: 6000, Gen: genBatches, Pred: predBatches})
}

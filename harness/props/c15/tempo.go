package c15

import (
	"encoding/base64"
	"encoding/hex"
	"encoding/json"
	"fmt"
	"math"
	"net/url"
	"sort"
	"strconv"
	"strings"

	common "go.opentelemetry.io/proto/otlp/common/v1"
	v1 "go.opentelemetry.io/proto/otlp/trace/v1"
	"google.golang.org/protobuf/proto"
	"pgregory.net/rapid"

	"qrynverif/evid"
	"qrynverif/fakesql"
)

func isComplexity(q string) bool { return strings.Contains(q, "_count as _count") }

// ---- C15(e): Tempo tag names and tag values (v1 and v2 routes) -----------------------------
//
// Script: the single String column of the tag/val SELECTs (tempoService.go Tags/Values scan
// into a string; the v2 processors too). Values are distinct (DISTINCT / GROUP BY).

type tagsCase struct {
	Endpoint int        `json:"endpoint"`
	Values   []evid.Str `json:"values"`
	Bulk     Bulk       `json:"bulk"`
}

var tagEndpoints = []string{
	"/api/search/tags",
	"/tempo/api/search/tags",
	"/api/search/tag/foo/values",
	"/tempo/api/search/tag/.foo/values",
	"/api/v2/search/tags",                                 // start unset: served by Tags
	"/api/v2/search/tags?start=1700000000&end=1700000100", // TagsV2, no query
	"/api/v2/search/tags?start=1700000000&end=1700000100&q=" + "%7B.a%3D%22b%22%7D",
	"/api/v2/search/tag/foo/values",
	"/api/v2/search/tag/foo/values?start=1700000000&end=1700000100",
	"/api/v2/search/tag/foo/values?start=1700000000&end=1700000100&q=" + "%7B.a%3D%22b%22%7D",
}

func genTags(rt *rapid.T) tagsCase {
	return tagsCase{Endpoint: rapid.IntRange(0, len(tagEndpoints)-1).Draw(rt, "endpoint"), Values: genDistinct(rt, 8, true), Bulk: GenBulk(rt)}
}

func predTags(c tagsCase, o *evid.Obs) error {
	if c.Endpoint < 0 || c.Endpoint >= len(tagEndpoints) {
		o.Discard("bad-endpoint")
		return nil
	}
	target := tagEndpoints[c.Endpoint]
	if c.Bulk.N < 0 || c.Bulk.N > 50000 || c.Bulk.Len < 0 || c.Bulk.Len > 100000 {
		o.Discard("bad-bulk")
		return nil
	}
	c.Values = append(append([]evid.Str(nil), c.Values...), c.Bulk.Strs()...)
	rows := make([][]any, len(c.Values))
	for i, v := range c.Values {
		rows[i] = []any{string(v)}
	}
	resp, _ := run(target, func(i int, q string) *fakesql.Result {
		if isComplexity(q) {
			return fakesql.Rows([]string{"_count"}, []any{uint64(7)})
		}
		return fakesql.Rows([]string{"v"}, rows...)
	})
	o.Tag(fmt.Sprintf("endpoint:%d", c.Endpoint), "rows:"+bucket(len(c.Values)), sizeClass(len(resp.Body)))
	if anyEscape(c.Values) {
		o.Tag("needs-escape")
		o.NonTrivial()
	}
	if resp.Code != 200 {
		return fmt.Errorf("status %d; body=%s", resp.Code, clip(resp.Body))
	}
	if err := OneDocument(resp.Body); err != nil {
		return err
	}
	var got []string
	switch {
	case c.Endpoint <= 1:
		var doc struct {
			TagNames []string `json:"tagNames"`
		}
		if err := Decode(resp.Body, &doc); err != nil {
			return err
		}
		if doc.TagNames == nil {
			return fmt.Errorf("tagNames missing; body=%s", clip(resp.Body))
		}
		got = doc.TagNames
	case c.Endpoint <= 3:
		var doc struct {
			TagValues []string `json:"tagValues"`
		}
		if err := Decode(resp.Body, &doc); err != nil {
			return err
		}
		if doc.TagValues == nil {
			return fmt.Errorf("tagValues missing; body=%s", clip(resp.Body))
		}
		got = doc.TagValues
	case c.Endpoint <= 6:
		var doc struct {
			Scopes []struct {
				Name string   `json:"name"`
				Tags []string `json:"tags"` // null when empty: accepted (encoding/json of a nil slice)
			} `json:"scopes"`
		}
		if err := Decode(resp.Body, &doc); err != nil {
			return err
		}
		if len(doc.Scopes) != 1 {
			return fmt.Errorf("want one scope; body=%s", clip(resp.Body))
		}
		got = doc.Scopes[0].Tags
	default:
		var doc struct {
			TagValues []struct {
				Type  string `json:"type"`
				Value string `json:"value"`
			} `json:"tagValues"`
		}
		if err := Decode(resp.Body, &doc); err != nil {
			return err
		}
		for _, v := range doc.TagValues {
			if v.Type != "string" {
				return fmt.Errorf("tag value type %q", v.Type)
			}
			got = append(got, v.Value)
		}
	}
	if err := sameStrings(c.Values, got); err != nil {
		return fmt.Errorf("%v; body=%s", err, clip(resp.Body))
	}
	return nil
}

func addTags(r *evid.Run) {
	evid.Add(r, evid.Prop[tagsCase]{Name: "tempo-tags", Quick: 1500, Thorough: 5000, Gen: genTags, Pred: predTags})
}

// ---- C15(f): trace search (tags search and TraceQL search) -----------------------------------
//
// tags search rows (tempoService.go:378 Scan): hex(trace_id) string, service_name string,
// name string, timestamp_ns int64, intDiv(duration_ns,1e6) int64.
// TraceQL rows (traceql/transpiler/reqest_processor.go:53): trace_id string, span_id
// []string, duration []int64, timestamp_ns []int64 (groupArray over the same rows: equal
// lengths), start_time_unix_nano int64, duration_ms float64 (finite: a difference of two
// integers / 1e6), root_service_name string, root_trace_name string.

type sSpan struct {
	ID  string `json:"id"`
	Ts  int64  `json:"ts"`
	Dur int64  `json:"dur"`
}

type sTrace struct {
	ID      string   `json:"id"`
	Service evid.Str `json:"service"`
	Name    evid.Str `json:"name"`
	Start   int64    `json:"start"`
	DurMs   int64    `json:"dur_ms"`
	DurF    string   `json:"dur_f"` // TraceQL: float duration
	Spans   []sSpan  `json:"spans"`
}

type searchCase struct {
	TraceQL bool     `json:"traceql"`
	Traces  []sTrace `json:"traces"`
}

func genHex(rt *rapid.T, n int, label string) string {
	b := rapid.SliceOfN(rapid.Byte(), n, n).Draw(rt, label)
	return hex.EncodeToString(b)
}

func genSearch(rt *rapid.T) searchCase {
	c := searchCase{TraceQL: rapid.Bool().Draw(rt, "traceql")}
	n := rapid.IntRange(0, 5).Draw(rt, "n")
	seen := map[string]bool{}
	for i := 0; i < n; i++ {
		t := sTrace{ID: genHex(rt, 16, "tid"), Service: GenStr(rt, "svc", true), Name: GenStr(rt, "name", true)}
		if seen[t.ID] {
			continue
		}
		seen[t.ID] = true
		t.Start = rapid.SampledFrom([]int64{0, 1, 1700000000123456789, math.MaxInt64, math.MinInt64, 9007199254740993}).Draw(rt, "start")
		t.DurMs = rapid.SampledFrom([]int64{0, 1, 1500, 9007199254740993, math.MaxInt64, math.MinInt64}).Draw(rt, "durms")
		t.DurF = rapid.SampledFrom([]string{"0", "0.000001", "1.5", "1234.567891", "1e21", "9007199254740.993", "5e-324", "0.30000000000000004", "1.0000000000000002", "1.7976931348623157e308", "123456.78901234567"}).Draw(rt, "durf")
		ns := rapid.IntRange(0, 4).Draw(rt, "nspans")
		for j := 0; j < ns; j++ {
			sp := sSpan{ID: genHex(rt, 8, "sid"), Ts: rapid.SampledFrom([]int64{0, 5, 1700000000123456789, 1700000000123456790, 9007199254740993, math.MaxInt64, math.MinInt64}).Draw(rt, "sts")}
			sp.Dur = rapid.SampledFrom([]int64{0, 5, 1000000, 1700000000123456789, 9007199254740993, math.MaxInt64, math.MinInt64}).Draw(rt, "sdur")
			t.Spans = append(t.Spans, sp)
		}
		c.Traces = append(c.Traces, t)
	}
	return c
}

type traceQLDoc struct {
	Traces []struct {
		TraceID           string       `json:"traceID"`
		RootServiceName   string       `json:"rootServiceName"`
		RootTraceName     string       `json:"rootTraceName"`
		StartTimeUnixNano any          `json:"startTimeUnixNano"`
		DurationMs        json.Number  `json:"durationMs"`
		SpanSet           *spanSetDoc  `json:"spanSet"`
		SpanSets          []spanSetDoc `json:"spanSets"`
	} `json:"traces"`
}

type spanSetDoc struct {
	Spans []struct {
		SpanID            string `json:"spanID"`
		StartTimeUnixNano string `json:"startTimeUnixNano"`
		DurationNanos     string `json:"durationNanos"`
		Attributes        []any  `json:"attributes"`
	} `json:"spans"`
	Matched int `json:"matched"`
}

func predSearch(c searchCase, o *evid.Obs) error {
	var rows [][]any
	esc := false
	for _, t := range c.Traces {
		esc = esc || NeedsEscape(string(t.Service)) || NeedsEscape(string(t.Name))
		if c.TraceQL {
			f, err := strconv.ParseFloat(t.DurF, 64)
			if err != nil || math.IsNaN(f) || math.IsInf(f, 0) {
				o.Discard("non-finite-duration")
				return nil
			}
			ids := make([]string, len(t.Spans))
			durs := make([]int64, len(t.Spans))
			tss := make([]int64, len(t.Spans))
			for i, s := range t.Spans {
				ids[i], durs[i], tss[i] = s.ID, s.Dur, s.Ts
			}
			rows = append(rows, []any{t.ID, ids, durs, tss, t.Start, f, string(t.Service), string(t.Name)})
		} else {
			rows = append(rows, []any{strings.ToUpper(t.ID), string(t.Service), string(t.Name), t.Start, t.DurMs})
		}
	}
	target := "/api/search?start=1700000000&end=1700000100&limit=" + strconv.Itoa(len(c.Traces)+1)
	if c.TraceQL {
		target += "&q=" + url.QueryEscape(`{.a="b"}`)
	} else {
		target += "&tags=" + url.QueryEscape(`a=b`)
	}
	resp, _ := run(target, func(i int, q string) *fakesql.Result {
		if isComplexity(q) {
			return fakesql.Rows([]string{"_count"}, []any{uint64(7)})
		}
		return fakesql.Rows(nil, rows...)
	})
	o.Tag(fmt.Sprintf("traceql:%v", c.TraceQL), "rows:"+bucket(len(c.Traces)))
	if esc {
		o.Tag("needs-escape")
		o.NonTrivial()
	}
	if resp.Code != 200 {
		return fmt.Errorf("status %d; body=%s", resp.Code, clip(resp.Body))
	}
	if err := OneDocument(resp.Body); err != nil {
		return err
	}
	var doc traceQLDoc
	if err := Decode(resp.Body, &doc); err != nil {
		return err
	}
	if doc.Traces == nil {
		return fmt.Errorf("traces is not an array; body=%s", clip(resp.Body))
	}
	if len(doc.Traces) != len(c.Traces) {
		return fmt.Errorf("%d trace objects for %d rows; body=%s", len(doc.Traces), len(c.Traces), clip(resp.Body))
	}
	byID := map[string]int{}
	for i, t := range doc.Traces {
		byID[strings.ToLower(t.TraceID)] = i
	}
	for _, t := range c.Traces {
		i, ok := byID[t.ID]
		if !ok {
			return fmt.Errorf("trace %s missing; body=%s", t.ID, clip(resp.Body))
		}
		g := doc.Traces[i]
		if g.RootServiceName != Norm(string(t.Service)) || g.RootTraceName != Norm(string(t.Name)) {
			return fmt.Errorf("trace %s: names %q/%q, scripted %q/%q", t.ID, g.RootServiceName, g.RootTraceName, Norm(string(t.Service)), Norm(string(t.Name)))
		}
		var start string
		switch v := g.StartTimeUnixNano.(type) {
		case string:
			start = v
		case json.Number:
			start = string(v)
		}
		if start != strconv.FormatInt(t.Start, 10) {
			return fmt.Errorf("trace %s: startTimeUnixNano %v, scripted %d", t.ID, g.StartTimeUnixNano, t.Start)
		}
		if !c.TraceQL {
			if string(g.DurationMs) != strconv.FormatInt(t.DurMs, 10) {
				return fmt.Errorf("trace %s: durationMs %s, scripted %d", t.ID, g.DurationMs, t.DurMs)
			}
			continue
		}
		gf, err := strconv.ParseFloat(string(g.DurationMs), 64)
		wf, _ := strconv.ParseFloat(t.DurF, 64)
		if err != nil || gf != wf {
			return fmt.Errorf("trace %s: durationMs %s, scripted %v", t.ID, g.DurationMs, wf)
		}
		if g.SpanSet == nil || len(g.SpanSets) != 1 {
			return fmt.Errorf("trace %s: spanSet/spanSets missing; body=%s", t.ID, clip(resp.Body))
		}
		for _, ss := range []spanSetDoc{*g.SpanSet, g.SpanSets[0]} {
			if ss.Matched != len(t.Spans) || len(ss.Spans) != len(t.Spans) {
				return fmt.Errorf("trace %s: %d spans (matched %d) for %d scripted", t.ID, len(ss.Spans), ss.Matched, len(t.Spans))
			}
			var want, have []string
			for _, s := range t.Spans {
				d := strconv.FormatInt(s.Dur, 10)
				if s.Dur == s.Ts {
					d = "n/a" // qryn's convention (reqest_processor.go:59)
				}
				want = append(want, fmt.Sprintf("%s|%d|%s", s.ID, s.Ts, d))
			}
			for _, s := range ss.Spans {
				have = append(have, fmt.Sprintf("%s|%s|%s", s.SpanID, s.StartTimeUnixNano, s.DurationNanos))
			}
			sort.Strings(want)
			sort.Strings(have)
			for k := range want {
				if want[k] != have[k] {
					return fmt.Errorf("trace %s: span %q, scripted %q", t.ID, have[k], want[k])
				}
			}
		}
	}
	return nil
}

func addSearch(r *evid.Run) {
	evid.Add(r, evid.Prop[searchCase]{Name: "trace-search", Quick: 1000, Thorough: 4000, Gen: genSearch, Pred: predSearch})
}

// ---- C15(g): trace by id -----------------------------------------------------------------------
//
// Rows (tempoService.go:112 Scan): trace_id string (FixedString(16)), span_id string
// (FixedString(8)), parent_id string, timestamp_ns int64, duration_ns int64, payload_type
// int8 (1 = Zipkin JSON, 2 = OTLP: what the writer stores), payload string; ORDER BY
// timestamp_ns asc.

type tSpan struct {
	Payload int      `json:"payload"` // 0 zipkin JSON (encoding/json), 1 zipkin JSON (raw bytes), 2 OTLP protobuf
	TraceID evid.Str `json:"trace_id"`
	SpanID  evid.Str `json:"span_id"`
	Name    evid.Str `json:"name"`
	Service evid.Str `json:"service"`
	Ts      int64    `json:"ts"`
	Dur     int64    `json:"dur"`
	Tags    []KV     `json:"tags"`
	Attrs   []tAttr  `json:"attrs,omitempty"`    // typed attributes (OTLP payloads only)
	LongTag int      `json:"long_tag,omitempty"` // length of an extra very long string tag
}

// tAttr is a typed OTLP attribute value. The trace-by-id JSON branch renders every value
// into value.stringValue (utils/unmarshal/convert.go SpanToJSONSpan): int64 as decimal
// digits, double by %v (shortest representation that parses back to the same float64),
// bool as true/false, bytes as standard base64, array / kvlist as the JSON text of the
// protobuf wrapper. Exactness is the point: ints digit-exact, doubles bit-exact.
type tAttr struct {
	Kind  int      `json:"kind"` // 1 int, 2 double, 3 bool, 4 bytes, 5 array [int, string], 6 kvlist {k: int}
	I     int64    `json:"i,omitempty"`
	F     string   `json:"f,omitempty"`
	B     bool     `json:"b,omitempty"`
	Bytes evid.Str `json:"bytes,omitempty"`
	S     evid.Str `json:"s,omitempty"`
}

var intPool = []int64{0, 1, -1, 1 << 53, 1<<53 + 1, 9007199254740993, -9007199254740993, math.MaxInt64, math.MinInt64, 1700000000123456789, 4611686018427387905}

func genAttr(rt *rapid.T) tAttr {
	a := tAttr{Kind: rapid.IntRange(1, 6).Draw(rt, "akind")}
	switch a.Kind {
	case 1, 5, 6:
		a.I = rapid.SampledFrom(intPool).Draw(rt, "ai")
		if rapid.IntRange(0, 3).Draw(rt, "airnd") == 0 {
			a.I = rapid.Int64().Draw(rt, "ai2")
		}
		a.S = GenStr(rt, "as", false)
	case 2:
		a.F = genFloat(rt)
	case 3:
		a.B = rapid.Bool().Draw(rt, "ab")
	case 4:
		a.Bytes = evid.Str(rapid.SliceOfN(rapid.Byte(), 0, 20).Draw(rt, "abytes"))
	}
	return a
}

type traceCase struct {
	Spans []tSpan `json:"spans"`
}

func genTrace(rt *rapid.T) traceCase {
	var c traceCase
	n := rapid.IntRange(0, 5).Draw(rt, "n")
	tid := evid.Str(rapid.SliceOfN(rapid.Byte(), 16, 16).Draw(rt, "tid"))
	ts := int64(0)
	for i := 0; i < n; i++ {
		p := rapid.IntRange(0, 2).Draw(rt, "payload")
		inv := p == 1
		s := tSpan{Payload: p, TraceID: tid, SpanID: evid.Str(rapid.SliceOfN(rapid.Byte(), 8, 8).Draw(rt, "sid")),
			Name: GenStr(rt, "name", inv), Service: GenStr(rt, "svc", inv), Tags: GenLabels(rt, "tag", 0, 3, inv)}
		ts += rapid.SampledFrom([]int64{0, 1, 1000, 1700000000123456789}).Draw(rt, "dts")
		s.Ts = ts
		s.Dur = rapid.SampledFrom([]int64{0, 1, 1000000, 123456789012}).Draw(rt, "dur")
		if p == 2 {
			for k := rapid.IntRange(0, 4).Draw(rt, "nattrs"); k > 0; k-- {
				s.Attrs = append(s.Attrs, genAttr(rt))
			}
		}
		if rapid.IntRange(0, 5).Draw(rt, "long") == 0 {
			s.LongTag = rapid.SampledFrom([]int{1000, 20000, 70000}).Draw(rt, "longlen")
		}
		c.Spans = append(c.Spans, s)
	}
	return c
}

func (s tSpan) payload() (int8, string, error) {
	switch s.Payload {
	case 0, 1:
		enc := stdJSONString
		if s.Payload == 1 {
			enc = rawJSONString
		}
		var sb strings.Builder
		sb.WriteString(`{"id":"` + hex.EncodeToString([]byte(s.SpanID)) + `","traceId":"` + hex.EncodeToString([]byte(s.TraceID)) + `","name":` + enc(string(s.Name)))
		sb.WriteString(`,"timestamp":` + strconv.FormatInt(s.Ts/1000, 10) + `,"duration":` + strconv.FormatInt(s.Dur/1000, 10))
		sb.WriteString(`,"localEndpoint":{"serviceName":` + enc(string(s.Service)) + `},"tags":{`)
		for i, kv := range s.Tags {
			if i > 0 {
				sb.WriteByte(',')
			}
			sb.WriteString(enc(kv.K) + ":" + enc(string(kv.V)))
		}
		if s.LongTag > 0 {
			if len(s.Tags) > 0 {
				sb.WriteByte(',')
			}
			sb.WriteString(`"c15.long":` + enc(longString(s.LongTag)))
		}
		sb.WriteString(`}}`)
		return 1, sb.String(), nil
	default:
		sp := &v1.Span{TraceId: []byte(s.TraceID), SpanId: []byte(s.SpanID), Name: string(s.Name),
			StartTimeUnixNano: uint64(s.Ts), EndTimeUnixNano: uint64(s.Ts + s.Dur)}
		for _, kv := range s.Tags {
			sp.Attributes = append(sp.Attributes, &common.KeyValue{Key: kv.K, Value: &common.AnyValue{Value: &common.AnyValue_StringValue{StringValue: string(kv.V)}}})
		}
		if s.LongTag > 0 {
			sp.Attributes = append(sp.Attributes, &common.KeyValue{Key: "c15.long", Value: &common.AnyValue{Value: &common.AnyValue_StringValue{StringValue: longString(s.LongTag)}}})
		}
		for i, a := range s.Attrs {
			v := &common.AnyValue{}
			iv := &common.AnyValue{Value: &common.AnyValue_IntValue{IntValue: a.I}}
			switch a.Kind {
			case 1:
				v = iv
			case 2:
				f, _ := strconv.ParseFloat(a.F, 64)
				v.Value = &common.AnyValue_DoubleValue{DoubleValue: f}
			case 3:
				v.Value = &common.AnyValue_BoolValue{BoolValue: a.B}
			case 4:
				v.Value = &common.AnyValue_BytesValue{BytesValue: []byte(a.Bytes)}
			case 5:
				v.Value = &common.AnyValue_ArrayValue{ArrayValue: &common.ArrayValue{Values: []*common.AnyValue{iv, {Value: &common.AnyValue_StringValue{StringValue: string(a.S)}}}}}
			case 6:
				v.Value = &common.AnyValue_KvlistValue{KvlistValue: &common.KeyValueList{Values: []*common.KeyValue{{Key: "k", Value: iv}}}}
			default:
				continue
			}
			sp.Attributes = append(sp.Attributes, &common.KeyValue{Key: fmt.Sprintf("c15.attr%d", i), Value: v})
		}
		if s.Service != "" {
			sp.Attributes = append(sp.Attributes, &common.KeyValue{Key: "service.name", Value: &common.AnyValue{Value: &common.AnyValue_StringValue{StringValue: string(s.Service)}}})
		}
		b, err := proto.Marshal(sp)
		return 2, string(b), err
	}
}

func longString(n int) string {
	const unit = "long value \"with quotes\" and \\ "
	return strings.Repeat(unit, n/len(unit)+1)[:n]
}

// hasNumber reports whether the JSON text holds the integer as one exact number token.
func hasNumber(text string, want int64) bool {
	dec := json.NewDecoder(strings.NewReader(text))
	dec.UseNumber()
	for {
		tok, err := dec.Token()
		if err != nil {
			return false
		}
		if n, ok := tok.(json.Number); ok && string(n) == strconv.FormatInt(want, 10) {
			return true
		}
	}
}

// checkAttr compares the rendered stringValue of a typed attribute.
func checkAttr(a tAttr, got string) error {
	switch a.Kind {
	case 1:
		if got != strconv.FormatInt(a.I, 10) {
			return fmt.Errorf("int attribute %d rendered %q", a.I, got)
		}
	case 2:
		want, _ := strconv.ParseFloat(a.F, 64)
		f, err := strconv.ParseFloat(got, 64)
		if err != nil || !sameFloat(f, want) {
			return fmt.Errorf("double attribute %s rendered %q", a.F, got)
		}
	case 3:
		if got != strconv.FormatBool(a.B) {
			return fmt.Errorf("bool attribute %v rendered %q", a.B, got)
		}
	case 4:
		if got != base64.StdEncoding.EncodeToString([]byte(a.Bytes)) {
			return fmt.Errorf("bytes attribute %x rendered %q", string(a.Bytes), got)
		}
	case 5, 6:
		if !json.Valid([]byte(got)) || !hasNumber(got, a.I) {
			return fmt.Errorf("nested attribute holding %d rendered %q", a.I, got)
		}
	}
	return nil
}

type traceDoc struct {
	ResourceSpans []struct {
		Resource struct {
			Attributes []any `json:"attributes"`
		} `json:"resource"`
		ILS []struct {
			Spans []struct {
				TraceID           string      `json:"traceID"`
				TraceId           string      `json:"traceId"`
				SpanID            string      `json:"spanID"`
				SpanId            string      `json:"spanId"`
				Name              string      `json:"name"`
				StartTimeUnixNano json.Number `json:"startTimeUnixNano"`
				EndTimeUnixNano   json.Number `json:"endTimeUnixNano"`
				ParentSpanId      string      `json:"parentSpanId"`
				ServiceName       string      `json:"serviceName"`
				Attributes        []struct {
					Key   string `json:"key"`
					Value struct {
						StringValue string `json:"stringValue"`
					} `json:"value"`
				} `json:"attributes"`
				Events []any `json:"events"`
				Status any   `json:"status"`
			} `json:"spans"`
		} `json:"instrumentationLibrarySpans"`
	} `json:"resourceSpans"`
}

func predTrace(c traceCase, o *evid.Obs) error {
	var rows [][]any
	esc := false
	for _, s := range c.Spans {
		if len(s.TraceID) != 16 || len(s.SpanID) != 8 || s.Ts < 0 || s.Dur < 0 {
			o.Discard("outside-schema")
			return nil
		}
		pt, payload, err := s.payload()
		if err != nil {
			o.Discard("payload-not-encodable") // protobuf strings must be valid UTF-8
			return nil
		}
		if pt == 2 && payload == "" {
			o.Discard("empty-otlp-payload")
			return nil
		}
		esc = esc || NeedsEscape(string(s.Name)) || NeedsEscape(string(s.Service)) || labelsNeedEscape(s.Tags)
		rows = append(rows, []any{string(s.TraceID), string(s.SpanID), "", s.Ts, s.Dur, pt, payload})
		o.Tag(fmt.Sprintf("payload:%d", s.Payload))
		for _, at := range s.Attrs {
			o.Tag(fmt.Sprintf("attr-kind:%d", at.Kind))
			if (at.Kind == 1 || at.Kind >= 5) && (at.I > 1<<53 || at.I < -(1<<53)) {
				o.Tag("attr-int-beyond-2^53")
				esc = true // counts as non-trivial
			}
		}
		if s.LongTag > 0 {
			o.Tag("long-string-attribute")
		}
	}
	resp, _ := run("/api/traces/0123456789abcdef0123456789abcdef", func(i int, q string) *fakesql.Result { return fakesql.Rows(nil, rows...) })
	o.Tag("rows:" + bucket(len(c.Spans)))
	if esc {
		o.Tag("needs-escape")
		o.NonTrivial()
	}
	if resp.Code != 200 {
		return fmt.Errorf("status %d; body=%s", resp.Code, clip(resp.Body))
	}
	if err := OneDocument(resp.Body); err != nil {
		return err
	}
	var doc traceDoc
	if err := Decode(resp.Body, &doc); err != nil {
		return err
	}
	if len(doc.ResourceSpans) != 1 || len(doc.ResourceSpans[0].ILS) != 1 || doc.ResourceSpans[0].ILS[0].Spans == nil {
		return fmt.Errorf("want resourceSpans[0].instrumentationLibrarySpans[0].spans; body=%s", clip(resp.Body))
	}
	spans := doc.ResourceSpans[0].ILS[0].Spans
	if len(spans) != len(c.Spans) {
		return fmt.Errorf("%d span objects for %d rows; body=%s", len(spans), len(c.Spans), clip(resp.Body))
	}
	// rows are ordered and spans streamed in order; match by span id + position-free
	used := make([]bool, len(spans))
	for _, s := range c.Spans {
		found := false
		var why string
		for i, g := range spans {
			if used[i] || g.SpanID != hex.EncodeToString([]byte(s.SpanID)) {
				continue
			}
			why = ""
			if g.SpanId != g.SpanID || g.TraceID != hex.EncodeToString([]byte(s.TraceID)) || g.TraceId != g.TraceID {
				why = fmt.Sprintf("ids %q/%q", g.TraceID, g.SpanID)
			} else if g.Name != Norm(string(s.Name)) {
				why = fmt.Sprintf("name %q, scripted %q", g.Name, Norm(string(s.Name)))
			} else if string(g.StartTimeUnixNano) != strconv.FormatInt(s.Ts, 10) || string(g.EndTimeUnixNano) != strconv.FormatInt(s.Ts+s.Dur, 10) {
				why = fmt.Sprintf("times %s..%s, scripted %d..%d", g.StartTimeUnixNano, g.EndTimeUnixNano, s.Ts, s.Ts+s.Dur)
			} else {
				attrs := map[string]string{}
				for _, a := range g.Attributes {
					attrs[a.Key] = a.Value.StringValue
				}
				for _, kv := range s.Tags {
					if kv.K == "service.name" {
						continue // overwritten by the service name
					}
					if v, ok := attrs[Norm(kv.K)]; !ok || v != Norm(string(kv.V)) {
						why = fmt.Sprintf("attribute %q = %q (present %v), scripted %q", kv.K, v, ok, Norm(string(kv.V)))
					}
				}
				if s.LongTag > 0 && attrs["c15.long"] != longString(s.LongTag) {
					why = fmt.Sprintf("long attribute of %d bytes rendered as %d bytes", s.LongTag, len(attrs["c15.long"]))
				}
				for i, at := range s.Attrs {
					v, ok := attrs[fmt.Sprintf("c15.attr%d", i)]
					if !ok {
						why = fmt.Sprintf("typed attribute %d missing", i)
					} else if err := checkAttr(at, v); err != nil {
						why = err.Error()
					}
				}
			}
			if why == "" {
				used[i] = true
				found = true
				break
			}
		}
		if !found {
			return fmt.Errorf("span %x not rendered faithfully: %s; body=%s", string(s.SpanID), why, clip(resp.Body))
		}
	}
	return nil
}

func addTrace(r *evid.Run) {
	evid.Add(r, evid.Prop[traceCase]{Name: "trace", Quick: 1000, Thorough: 4000, Gen: genTrace, Pred: predTrace})
}

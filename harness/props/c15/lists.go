package c15

import (
	"fmt"
	"net/url"
	"sort"
	"strconv"
	"strings"

	"pgregory.net/rapid"

	"qrynverif/evid"
	"qrynverif/fakesql"
)

// ---- C15(c): label names, label values (Loki and Prometheus routes) -------------------------
//
// Script: the single String column of `SELECT DISTINCT key|val ...` (GenericLabelReq scans
// into a string, queryLabelsService.go:58). DISTINCT: values are distinct; no order is
// requested by the SQL, so any order.

type listCase struct {
	Endpoint int        `json:"endpoint"` // index into listEndpoints
	Name     string     `json:"name"`     // label name of the values routes
	Values   []evid.Str `json:"values"`
	Bulk     Bulk       `json:"bulk"`
}

var listEndpoints = []string{
	"/loki/api/v1/labels?start=1700000000000000000&end=1700000100000000000",
	"/loki/api/v1/label/%s/values?start=1700000000000000000&end=1700000100000000000",
	"/api/v1/labels?start=1700000000&end=1700000100",
	"/api/v1/label/%s/values?start=1700000000&end=1700000100",
	"/loki/api/v1/label?start=1700000000000000000&end=1700000100000000000",
}

func genDistinct(rt *rapid.T, maxN int, allowInvalid bool) []evid.Str {
	n := rapid.IntRange(0, maxN).Draw(rt, "n")
	seen := map[string]bool{}
	var out []evid.Str
	for i := 0; i < n; i++ {
		s := GenStr(rt, fmt.Sprintf("s%d", i), allowInvalid)
		if seen[Norm(string(s))] {
			continue
		}
		seen[Norm(string(s))] = true
		out = append(out, s)
	}
	return out
}

func genList(rt *rapid.T) listCase {
	return listCase{
		Endpoint: rapid.IntRange(0, len(listEndpoints)-1).Draw(rt, "endpoint"),
		Name:     rapid.StringMatching(`[a-zA-Z_][a-zA-Z0-9_]{0,6}`).Draw(rt, "name"),
		Values:   genDistinct(rt, 8, true),
		Bulk:     GenBulk(rt),
	}
}

type promListDoc struct {
	Status string   `json:"status"`
	Data   []string `json:"data"`
}

func sameStrings(want []evid.Str, got []string) error {
	if len(want) != len(got) {
		return fmt.Errorf("%d elements for %d rows", len(got), len(want))
	}
	w := make([]string, len(want))
	for i, s := range want {
		w[i] = Norm(string(s))
	}
	g := append([]string(nil), got...)
	sort.Strings(w)
	sort.Strings(g)
	for i := range w {
		if w[i] != g[i] {
			return fmt.Errorf("element differs: scripted %q, got %q", w[i], g[i])
		}
	}
	return nil
}

func anyEscape(vs []evid.Str) bool {
	for _, v := range vs {
		if NeedsEscape(string(v)) {
			return true
		}
	}
	return false
}

func predList(c listCase, o *evid.Obs) error {
	if c.Endpoint < 0 || c.Endpoint >= len(listEndpoints) {
		o.Discard("bad-endpoint")
		return nil
	}
	target := listEndpoints[c.Endpoint]
	if strings.Contains(target, "%s") {
		target = fmt.Sprintf(target, url.PathEscape(c.Name))
	}
	if c.Bulk.N < 0 || c.Bulk.N > 50000 || c.Bulk.Len < 0 || c.Bulk.Len > 100000 {
		o.Discard("bad-bulk")
		return nil
	}
	c.Values = append(append([]evid.Str(nil), c.Values...), c.Bulk.Strs()...)
	rows := make([][]any, len(c.Values))
	for i, v := range c.Values {
		rows[i] = []any{string(v)}
	}
	resp, stmts := run(target, func(i int, _ string) *fakesql.Result { return fakesql.Rows([]string{"v"}, rows...) })
	if len(stmts) != 1 {
		return fmt.Errorf("harness: expected one statement, got %d", len(stmts))
	}
	o.Tag(fmt.Sprintf("endpoint:%d", c.Endpoint), "rows:"+bucket(len(c.Values)), sizeClass(len(resp.Body)))
	if anyEscape(c.Values) {
		o.Tag("needs-escape")
		o.NonTrivial()
	}
	if resp.Code != 200 {
		return fmt.Errorf("status %d; body=%s", resp.Code, clip(resp.Body))
	}
	if err := OneDocument(resp.Body); err != nil {
		return err
	}
	var doc promListDoc
	if err := Decode(resp.Body, &doc); err != nil {
		return err
	}
	if doc.Status != "success" || doc.Data == nil {
		return fmt.Errorf("status=%q data=%v", doc.Status, doc.Data)
	}
	if err := sameStrings(c.Values, doc.Data); err != nil {
		return fmt.Errorf("%v; body=%s", err, clip(resp.Body))
	}
	return nil
}

func addLists(r *evid.Run) {
	evid.Add(r, evid.Prop[listCase]{Name: "labels", Quick: 1500, Thorough: 5000, Gen: genList, Pred: predList})
}

// ---- C15(d): series (Loki and Prometheus routes) ---------------------------------------------
//
// Script: the single column `labels` of time_series (SeriesPlanner, planner_series.go:35):
// the label document the writer stored, a JSON object of string members. The generator
// stores valid JSON object texts only (what C04 demands of the writer), encoded either by
// encoding/json or by a byte-transparent encoder (raw multi-byte and invalid UTF-8 kept).

type seriesCase struct {
	Prom   bool   `json:"prom"`
	Raw    bool   `json:"raw"` // stored documents written by the byte-transparent encoder
	Series [][]KV `json:"series"`
	Bulk   Bulk   `json:"bulk"`
}

func genSeries(rt *rapid.T) seriesCase {
	c := seriesCase{Prom: rapid.Bool().Draw(rt, "prom"), Raw: rapid.Bool().Draw(rt, "raw")}
	n := rapid.IntRange(0, 6).Draw(rt, "n")
	keys := map[string]bool{}
	for i := 0; i < n; i++ {
		l := GenLabels(rt, fmt.Sprintf("l%d", i), 0, 4, c.Raw)
		if k := mapKey(normMap(l)); keys[k] {
			l = append(l, KV{K: fmt.Sprintf("series_%d", i), V: "x"})
		}
		keys[mapKey(normMap(l))] = true
		c.Series = append(c.Series, l)
	}
	c.Bulk = GenBulk(rt)
	return c
}

func storedLabels(l []KV, raw bool) string {
	var sb strings.Builder
	sb.WriteByte('{')
	for i, kv := range l {
		if i > 0 {
			sb.WriteByte(',')
		}
		if raw {
			sb.WriteString(rawJSONString(kv.K) + ":" + rawJSONString(string(kv.V)))
		} else {
			sb.WriteString(stdJSONString(kv.K) + ":" + stdJSONString(string(kv.V)))
		}
	}
	sb.WriteByte('}')
	return sb.String()
}

type seriesDoc struct {
	Status string              `json:"status"`
	Data   []map[string]string `json:"data"`
}

func predSeries(c seriesCase, o *evid.Obs) error {
	if c.Bulk.N < 0 || c.Bulk.N > 50000 || c.Bulk.Len < 0 || c.Bulk.Len > 100000 {
		o.Discard("bad-bulk")
		return nil
	}
	c.Series = append([][]KV(nil), c.Series...)
	for i := 0; i < c.Bulk.N; i++ {
		c.Series = append(c.Series, []KV{{K: "__name__", V: "bulk"}, {K: "c15_bulk_i", V: evid.Str(strconv.Itoa(i))}, {K: "pad", V: evid.Str(c.Bulk.Elem(i))}})
	}
	rows := make([][]any, len(c.Series))
	esc := false
	for i, l := range c.Series {
		rows[i] = []any{storedLabels(l, c.Raw)}
		esc = esc || labelsNeedEscape(l)
	}
	target := "/loki/api/v1/series?start=1700000000000000000&end=1700000100000000000&match[]=" + url.QueryEscape(`{a="b"}`)
	if c.Prom {
		target = "/api/v1/series?start=1700000000&end=1700000100&match[]=" + url.QueryEscape(`up`)
	}
	resp, stmts := run(target, func(i int, _ string) *fakesql.Result { return fakesql.Rows([]string{"labels"}, rows...) })
	if len(stmts) != 1 {
		return fmt.Errorf("harness: expected one statement, got %d", len(stmts))
	}
	o.Tag(fmt.Sprintf("prom:%v", c.Prom), fmt.Sprintf("raw:%v", c.Raw), "rows:"+bucket(len(c.Series)), sizeClass(len(resp.Body)))
	if esc {
		o.Tag("needs-escape")
		o.NonTrivial()
	}
	if resp.Code != 200 {
		return fmt.Errorf("status %d; body=%s", resp.Code, clip(resp.Body))
	}
	if err := OneDocument(resp.Body); err != nil {
		return err
	}
	var doc seriesDoc
	if err := Decode(resp.Body, &doc); err != nil {
		return err
	}
	if doc.Status != "success" || doc.Data == nil {
		return fmt.Errorf("status=%q data=%v; body=%s", doc.Status, doc.Data, clip(resp.Body))
	}
	if len(doc.Data) != len(c.Series) {
		return fmt.Errorf("%d series objects for %d rows; body=%s", len(doc.Data), len(c.Series), clip(resp.Body))
	}
	got := map[string]int{}
	for _, m := range doc.Data {
		got[mapKey(m)]++
	}
	for _, l := range c.Series {
		k := mapKey(normMap(l))
		if got[k] != 1 {
			return fmt.Errorf("series %s appears %d times; body=%s", k, got[k], clip(resp.Body))
		}
	}
	return nil
}

func addSeries(r *evid.Run) {
	evid.Add(r, evid.Prop[seriesCase]{Name: "series", Quick: 1000, Thorough: 4000, Gen: genSeries, Pred: predSeries})
}

package c15

import (
	"encoding/json"
	"fmt"
	"math"
	"net/url"
	"sort"
	"strconv"
	"strings"

	"pgregory.net/rapid"

	"qrynverif/evid"
	"qrynverif/fakesql"
)

// ---- C15(h): Prometheus query_range / query writers ------------------------------------------
//
// The real PromQueryRangeController (QueryRange, QueryInstant) with the real PromQL engine
// over CLokiQueriable over scripted rows. Statements of one request:
//   - the sample SELECT (promQueryable.go Select: rows.Scan(&fp uint64, &val float64, &ts
//     int64)), ORDER BY fingerprint asc, timestamp_ms asc, one row per (fingerprint,
//     timestamp): strictly ascending millisecond timestamps per series, inside
//     (hints.Start, hints.End]; for range queries of a vector selector the timestamps lie on
//     the grid hints.Start + k*step (processHints, transpiler.go:56), hints.Start = start -
//     5 min lookback;
//   - the label lookup (labelsGetter.Fetch: fingerprint uint64, labels [][]interface{} of
//     (name, value) tuples).
//
// The queries are chosen so that the engine's part is a plain, documented selection rule and
// the expected document follows from the rows:
//   range-matrix    query_range `{a="b"}`: at every T = start + k*step the latest sample with
//                   T-5m <= ts <= T (engine.go vectorSelectorSingle), stale markers excluded
//   instant-vector  query `{a="b"}`: the same rule at T = time
//   instant-matrix  query `{a="b"}[5m]`: every sample of (time-5m, time], raw ms timestamps
//   scalar          query `scalar({a="b"})` with exactly one series, or a number literal
//   string          query `"<literal>"`
// start/end are multiples of 15 s (the controller rounds them to 15 s, promQueryRange
// Controller.go:56-57), time is whole seconds (ParseTimeSecOrRFC truncates to seconds).

type pSample struct {
	Ts int64  `json:"ts"` // ms
	V  string `json:"v"`
}

type pSeries struct {
	FP      uint64    `json:"fp"`
	Labels  []KV      `json:"labels"`
	Samples []pSample `json:"samples"`
}

type promCase struct {
	Kind   int       `json:"kind"` // 0 range-matrix, 1 instant-vector, 2 instant-matrix, 3 scalar, 4 string
	StartS int64     `json:"start_s"`
	EndS   int64     `json:"end_s"`
	StepMs int64     `json:"step_ms"`
	TimeS  int64     `json:"time_s"`
	Series []pSeries `json:"series"`
	// Expr (range-matrix, instant-vector): 0 the plain selector, 1 `{a="b"} * 1` (the engine
	// drops the metric name, values unchanged), 2 `sum by (grp) ({a="b"})` with one series per
	// grp value (the result carries only grp, or no label at all when grp is empty)
	Expr int      `json:"expr,omitempty"`
	Lit  string   `json:"lit,omitempty"` // scalar: number literal instead of scalar(selector)
	Str  evid.Str `json:"str,omitempty"`
}

const lookbackMs = 300000

var promExprs = []string{`{a="b"}`, `{a="b"} * 1`, `sum by (grp) ({a="b"})`}

var promKinds = []string{"range-matrix", "instant-vector", "instant-matrix", "scalar", "string"}

func genProm(rt *rapid.T) promCase {
	c := promCase{Kind: rapid.SampledFrom([]int{0, 0, 0, 1, 1, 2, 2, 3, 3, 4}).Draw(rt, "kind")}
	base := rapid.SampledFrom([]int64{1700000010, 1700000100, 86400 * 20}).Draw(rt, "base") / 15 * 15
	c.TimeS = base + int64(rapid.IntRange(0, 14).Draw(rt, "timeoff"))
	var tsPool []int64 // candidate sample timestamps (ms), ascending
	switch c.Kind {
	case 0:
		c.StepMs = rapid.SampledFrom([]int64{1, 10, 50, 125, 100, 700, 1000, 1500, 7000, 15000, 30000, 60000, 300000, 400000}).Draw(rt, "step")
		c.StartS = base
		slots := int64(rapid.IntRange(0, 200).Draw(rt, "slots"))
		c.EndS = (c.StartS + slots*c.StepMs/1000 + 14) / 15 * 15
		hs := c.StartS*1000 - lookbackMs
		for k := int64(1); hs+k*c.StepMs <= c.EndS*1000 && len(tsPool) < 4000; k++ {
			tsPool = append(tsPool, hs+k*c.StepMs)
		}
		if len(tsPool) == 4000 { // tiny steps: keep the tail, which is what the window sees
			tsPool = nil
			for t := c.StartS*1000 - 2000; t <= c.EndS*1000; t += c.StepMs {
				tsPool = append(tsPool, t)
			}
			if len(tsPool) > 6000 {
				tsPool = tsPool[:6000]
			}
		}
	case 4:
		c.Str = GenStr(rt, "str", true)
		return c
	default:
		if c.Kind == 3 && rapid.Bool().Draw(rt, "literal") {
			c.Lit = genFloat(rt)
			return c
		}
		// raw samples: any millisecond inside (time-5m, time]
		n := rapid.IntRange(1, 40).Draw(rt, "ncand")
		set := map[int64]bool{}
		for i := 0; i < n; i++ {
			set[c.TimeS*1000-int64(rapid.IntRange(0, lookbackMs-1).Draw(rt, "ago"))] = true
		}
		for t := range set {
			tsPool = append(tsPool, t)
		}
		sort.Slice(tsPool, func(a, b int) bool { return tsPool[a] < tsPool[b] })
	}
	n := rapid.IntRange(0, 4).Draw(rt, "nseries")
	if c.Kind == 3 {
		n = 1
	}
	if c.Kind <= 1 {
		c.Expr = rapid.SampledFrom([]int{0, 0, 1, 2}).Draw(rt, "expr")
	}
	fps := genFPs(rt, n, true)
	keys := map[string]bool{}
	for i := 0; i < n; i++ {
		s := pSeries{FP: fps[i], Labels: GenLabels(rt, fmt.Sprintf("l%d", i), 0, 3, true)}
		if rapid.IntRange(0, 2).Draw(rt, "named") == 0 {
			has := false
			for _, kv := range s.Labels {
				has = has || kv.K == "__name__"
			}
			if !has {
				s.Labels = append(s.Labels, KV{K: "__name__", V: "up"})
			}
		}
		// the alphabetically first label with an EMPTY value (stored label documents may hold
		// empty values; labelsGetter passes them on): any label skipping in a writer meets
		// its comma logic here
		if rapid.IntRange(0, 2).Draw(rt, "emptyfirst") == 0 {
			has := false
			for _, kv := range s.Labels {
				has = has || kv.K == "AAA"
			}
			if !has {
				s.Labels = append(s.Labels, KV{K: "AAA", V: ""})
			}
		}
		if c.Expr == 2 {
			g := fmt.Sprintf("g%d", i)
			if i == 1 {
				g = "" // grouped under the empty value: the result series has no label at all
			}
			var kept []KV
			for _, kv := range s.Labels {
				if kv.K != "grp" {
					kept = append(kept, kv)
				}
			}
			s.Labels = append(kept, KV{K: "grp", V: evid.Str(g)})
		}
		if k := mapKey(resultLabels(c.Expr, s.Labels)); keys[k] {
			s.Labels = append(s.Labels, KV{K: fmt.Sprintf("series_%d", i), V: "x"})
		}
		keys[mapKey(resultLabels(c.Expr, s.Labels))] = true
		if len(tsPool) > 0 {
			want := rapid.IntRange(1, 6).Draw(rt, "nsamples")
			if rapid.IntRange(0, 3).Draw(rt, "many") == 0 {
				want = len(tsPool)
			}
			picked := map[int]bool{}
			if want >= len(tsPool) {
				for k := range tsPool {
					picked[k] = true
				}
			} else {
				for len(picked) < want {
					picked[rapid.IntRange(0, len(tsPool)-1).Draw(rt, "pick")] = true
				}
			}
			idx := make([]int, 0, len(picked))
			for k := range picked {
				idx = append(idx, k)
			}
			sort.Ints(idx)
			if len(idx) > 400 {
				idx = idx[len(idx)-400:]
			}
			for _, k := range idx {
				s.Samples = append(s.Samples, pSample{Ts: tsPool[k], V: genFloat(rt)})
			}
		}
		c.Series = append(c.Series, s)
	}
	return c
}

// resultLabels is the label set of the result series for expression kind expr.
func resultLabels(expr int, l []KV) map[string]string {
	m := normMap(l)
	// Prometheus data model: a label with an empty value is a label that is not set. The
	// engine drops such labels whenever it rebuilds a label set (labels.Builder: expr 1, 2),
	// the plain selector passes the stored ones through; a writer may render or omit them.
	// Label sets are therefore compared modulo empty-valued labels.
	for k, v := range m {
		if v == "" {
			delete(m, k)
		}
	}
	switch expr {
	case 1:
		delete(m, "__name__")
	case 2:
		g, ok := m["grp"]
		m = map[string]string{}
		if ok && g != "" {
			m["grp"] = g
		}
	}
	return m
}

type promDoc struct {
	Status string `json:"status"`
	Data   struct {
		ResultType string          `json:"resultType"`
		Result     json.RawMessage `json:"result"`
	} `json:"data"`
}

type promSeriesDoc struct {
	Metric map[string]string `json:"metric"`
	Values [][]any           `json:"values"`
	Value  []any             `json:"value"`
}

// promPair checks a [ts, "value"] pair against (tsMs, want): the timestamp is Unix seconds
// with the milliseconds as fraction, the value string parses back to exactly the float64.
func promPair(pair []any, tsMs int64, want float64) error {
	if len(pair) != 2 {
		return fmt.Errorf("sample %v is not a [ts, value] pair", pair)
	}
	tsn, ok := pair[0].(json.Number)
	if !ok {
		return fmt.Errorf("timestamp %v is not a number", pair[0])
	}
	vs, ok := pair[1].(string)
	if !ok {
		return fmt.Errorf("value %v is not a string", pair[1])
	}
	tf, err := strconv.ParseFloat(string(tsn), 64)
	if err != nil || int64(math.Round(tf*1000)) != tsMs {
		return fmt.Errorf("timestamp %s does not render %d ms", tsn, tsMs)
	}
	v, err := strconv.ParseFloat(vs, 64)
	if err != nil {
		return fmt.Errorf("value %q does not parse as a float", vs)
	}
	if !sameFloat(v, want) {
		return fmt.Errorf("value %q parses to %v, the sample is %v (%s)", vs, v, want, strconv.FormatFloat(want, 'g', -1, 64))
	}
	return nil
}

func pairMs(pair []any) (int64, bool) {
	if len(pair) != 2 {
		return 0, false
	}
	n, ok := pair[0].(json.Number)
	if !ok {
		return 0, false
	}
	f, err := strconv.ParseFloat(string(n), 64)
	if err != nil {
		return 0, false
	}
	return int64(math.Round(f * 1000)), true
}

const staleNaNBits = 0x7ff0000000000002

func predProm(c promCase, o *evid.Obs) error {
	if c.Kind < 0 || c.Kind > 4 {
		o.Discard("bad-kind")
		return nil
	}
	type pt struct {
		ts int64
		v  float64
	}
	type exp struct {
		fp  uint64
		key string
		pts []pt
	}
	var sampleRows, labelRows [][]any
	var want []exp
	esc := NeedsEscape(string(c.Str))
	extreme := false
	nsamples := 0
	evalMs := c.TimeS * 1000
	for _, s := range c.Series {
		esc = esc || labelsNeedEscape(s.Labels)
		var l [][]any
		for _, kv := range s.Labels {
			l = append(l, []any{kv.K, string(kv.V)})
		}
		labelRows = append(labelRows, []any{s.FP, l})
		var parsed []pt
		last := int64(math.MinInt64)
		for _, sm := range s.Samples {
			v, err := strconv.ParseFloat(sm.V, 64)
			if err != nil && !(math.IsInf(v, 0)) {
				return fmt.Errorf("harness: bad float %q", sm.V)
			}
			if sm.Ts <= last {
				o.Discard("samples-not-ascending")
				return nil
			}
			last = sm.Ts
			if math.Float64bits(v) == staleNaNBits {
				o.Discard("stale-marker")
				return nil
			}
			sampleRows = append(sampleRows, []any{s.FP, v, sm.Ts})
			parsed = append(parsed, pt{sm.Ts, v})
			nsamples++
			if v != 0 && (math.Abs(v) >= 1<<53 || math.Abs(v) < 1e-6 || math.IsNaN(v)) || (v == 0 && math.Signbit(v)) {
				extreme = true
			}
		}
		latest := func(t int64) (float64, bool) {
			i := sort.Search(len(parsed), func(i int) bool { return parsed[i].ts > t })
			if i == 0 || parsed[i-1].ts < t-lookbackMs {
				return 0, false
			}
			return parsed[i-1].v, true
		}
		e := exp{fp: s.FP, key: mapKey(resultLabels(c.Expr, s.Labels))}
		switch c.Kind {
		case 0:
			if c.StepMs <= 0 || c.EndS < c.StartS || c.StartS%15 != 0 || c.EndS%15 != 0 || (c.EndS-c.StartS)*1000/c.StepMs > 11000 {
				o.Discard("outside-domain")
				return nil
			}
			for t := c.StartS * 1000; t <= c.EndS*1000; t += c.StepMs {
				if v, ok := latest(t); ok {
					e.pts = append(e.pts, pt{t, v})
				}
			}
		case 1, 3:
			if v, ok := latest(evalMs); ok {
				e.pts = append(e.pts, pt{evalMs, v})
			}
		case 2:
			for _, p := range parsed {
				if p.ts <= evalMs-lookbackMs || p.ts > evalMs {
					o.Discard("sample-on-range-boundary")
					return nil
				}
				e.pts = append(e.pts, p)
			}
		}
		if len(e.pts) > 0 {
			want = append(want, e)
		}
	}

	q := url.Values{}
	target := "/api/v1/query?"
	q.Set("time", strconv.FormatInt(c.TimeS, 10))
	var wantScalar float64
	switch c.Kind {
	case 0:
		target = "/api/v1/query_range?"
		q.Del("time")
		q.Set("query", promExprs[c.Expr%3])
		q.Set("start", strconv.FormatInt(c.StartS, 10))
		q.Set("end", strconv.FormatInt(c.EndS, 10))
		q.Set("step", strconv.FormatFloat(float64(c.StepMs)/1000, 'f', -1, 64))
	case 1:
		q.Set("query", promExprs[c.Expr%3])
	case 2:
		q.Set("query", `{a="b"}[5m]`)
	case 3:
		if c.Lit != "" {
			f, err := strconv.ParseFloat(c.Lit, 64)
			if err != nil && !math.IsInf(f, 0) {
				o.Discard("bad-literal")
				return nil
			}
			wantScalar = f
			lit := strings.TrimPrefix(c.Lit, "+") // PromQL: Inf, NaN, -Inf
			q.Set("query", lit)
			if math.IsInf(f, 0) || math.IsNaN(f) || f < 0 || math.Signbit(f) {
				o.Tag("scalar:signed-or-special-literal")
			}
			if f != 0 && (math.Abs(f) >= 1<<53 || math.Abs(f) < 1e-6) || math.IsNaN(f) {
				extreme = true
			}
		} else {
			if len(c.Series) != 1 {
				o.Discard("scalar-needs-one-series")
				return nil
			}
			q.Set("query", `scalar({a="b"})`)
			wantScalar = math.NaN()
			if len(want) == 1 {
				wantScalar = want[0].pts[0].v
			}
		}
	case 4:
		q.Set("query", strconv.Quote(string(c.Str))) // PromQL string literals use Go escapes
	}
	var stmts []string
	resp, stmts := run(target+q.Encode(), func(i int, sqlText string) *fakesql.Result {
		if strings.Contains(sqlText, "JSONExtractKeysAndValues(labels, 'String')") {
			return fakesql.Rows([]string{"fingerprint", "labels"}, labelRows...)
		}
		return fakesql.Rows([]string{"fingerprint", "value", "timestamp_ms"}, sampleRows...)
	})
	for _, st := range stmts {
		if !strings.Contains(st, "JSONExtractKeysAndValues(labels, 'String')") && !strings.Contains(st, "timestamp_ms") {
			return fmt.Errorf("harness: unexpected statement %q", st)
		}
	}

	npts := 0
	for _, w := range want {
		npts += len(w.pts)
	}
	if c.Kind <= 1 {
		o.Tag(fmt.Sprintf("expr:%d", c.Expr))
	}
	for _, s := range c.Series {
		first := ""
		raw := normMap(s.Labels)
		for k := range raw {
			if first == "" || k < first {
				first = k
			}
		}
		if c.Expr == 0 && first != "" && raw[first] == "" {
			o.Tag("first-label-empty")
			break
		}
	}
	o.Tag("kind:"+promKinds[c.Kind], fmt.Sprintf("reported-series:%d", min(len(want), 3)), "samples:"+bucket(nsamples), "points:"+bucket(npts))
	if esc {
		o.Tag("needs-escape")
	}
	if extreme {
		o.Tag("extreme-float")
	}
	if c.Kind == 0 && c.StepMs%1000 != 0 {
		o.Tag("ms-timestamps")
	}
	for _, w := range want {
		for _, p := range w.pts {
			if m := p.ts % 1000; m >= 1 && m <= 99 {
				o.Tag("instant-ms-part:1-99")
				break
			}
		}
	}
	if (esc && (len(want) > 0 || c.Kind == 4)) || (extreme && (npts > 0 || c.Kind == 3)) || len(want) >= 2 {
		o.NonTrivial()
	}

	if resp.Code != 200 {
		return fmt.Errorf("status %d for a successful result set; body=%s", resp.Code, clip(resp.Body))
	}
	if err := OneDocument(resp.Body); err != nil {
		return err
	}
	var doc promDoc
	if err := Decode(resp.Body, &doc); err != nil {
		return err
	}
	wantType := []string{"matrix", "vector", "matrix", "scalar", "string"}[c.Kind]
	if doc.Status != "success" || doc.Data.ResultType != wantType {
		return fmt.Errorf("status=%q resultType=%q, want success/%s; body=%s", doc.Status, doc.Data.ResultType, wantType, clip(resp.Body))
	}
	switch c.Kind {
	case 3, 4:
		var pair []any
		if err := Decode(doc.Data.Result, &pair); err != nil {
			return err
		}
		if c.Kind == 3 {
			if err := promPair(pair, evalMs, wantScalar); err != nil {
				return fmt.Errorf("scalar: %v; body=%s", err, clip(resp.Body))
			}
			return nil
		}
		if len(pair) != 2 {
			return fmt.Errorf("string result %v is not a [ts, string] pair; body=%s", pair, clip(resp.Body))
		}
		if ms, ok := pairMs(pair); !ok || ms != evalMs {
			return fmt.Errorf("string result timestamp %v, want %d ms", pair[0], evalMs)
		}
		if sv, ok := pair[1].(string); !ok || sv != Norm(string(c.Str)) {
			return fmt.Errorf("string result %q, the literal is %q; body=%s", pair[1], Norm(string(c.Str)), clip(resp.Body))
		}
		return nil
	}
	var series []promSeriesDoc
	if err := Decode(doc.Data.Result, &series); err != nil {
		return err
	}
	if series == nil {
		return fmt.Errorf("data.result is not an array; body=%s", clip(resp.Body))
	}
	if len(series) != len(want) {
		return fmt.Errorf("%d series objects, expected %d (scripted %d series); body=%s", len(series), len(want), len(c.Series), clip(resp.Body))
	}
	got := map[string]promSeriesDoc{}
	for _, s := range series {
		if s.Metric == nil {
			return fmt.Errorf("series object without metric; body=%s", clip(resp.Body))
		}
		for lk, lv := range s.Metric {
			if lv == "" {
				delete(s.Metric, lk)
			}
		}
		k := mapKey(s.Metric)
		if _, dup := got[k]; dup {
			return fmt.Errorf("label set %s appears in more than one series object", k)
		}
		got[k] = s
	}
	for _, w := range want {
		s, ok := got[w.key]
		if !ok {
			return fmt.Errorf("series fp=%d labels %s missing from the response; body=%s", w.fp, w.key, clip(resp.Body))
		}
		if c.Kind == 1 {
			if s.Values != nil || s.Value == nil {
				return fmt.Errorf("vector sample must carry value, not values; body=%s", clip(resp.Body))
			}
			if err := promPair(s.Value, w.pts[0].ts, w.pts[0].v); err != nil {
				return fmt.Errorf("series fp=%d: %v", w.fp, err)
			}
			continue
		}
		if s.Value != nil || s.Values == nil {
			return fmt.Errorf("matrix series must carry values; body=%s", clip(resp.Body))
		}
		if len(s.Values) != len(w.pts) {
			return fmt.Errorf("series fp=%d: %d samples, expected %d; body=%s", w.fp, len(s.Values), len(w.pts), clip(resp.Body))
		}
		byMs := map[int64][]any{}
		for _, pair := range s.Values {
			ms, ok := pairMs(pair)
			if !ok {
				return fmt.Errorf("series fp=%d: malformed sample %v", w.fp, pair)
			}
			if _, dup := byMs[ms]; dup {
				return fmt.Errorf("series fp=%d: two samples at %d ms; body=%s", w.fp, ms, clip(resp.Body))
			}
			byMs[ms] = pair
		}
		for _, p := range w.pts {
			pair, ok := byMs[p.ts]
			if !ok {
				return fmt.Errorf("series fp=%d: no sample at %d ms; body=%s", w.fp, p.ts, clip(resp.Body))
			}
			if err := promPair(pair, p.ts, p.v); err != nil {
				return fmt.Errorf("series fp=%d: %v", w.fp, err)
			}
		}
	}
	return nil
}

func addProm(r *evid.Run) {
	evid.Add(r, evid.Prop[promCase]{Name: "prom", Quick: 1500, Thorough: 5000, Gen: genProm, Pred: predProm})
}

package c08

// batch.go — C08 sub-check `batch`: metric queries whose SQL result has several hundred to a
// few thousand rows (many series x many range buckets, zero-valued points mixed in), so that
// several 100-row batches of ClickhouseGetterPlanner.ScanMatrix flow through the
// post-processor chain Plan wires in (ZeroEaterPlanner -> FixPeriodPlanner), read by a fast,
// a late, a slow or a bursty consumer of the final channel. Oracle: the same differential as
// `metric` (refeval.EvalMetricSQL). TestRace runs the same cases under the race detector:
// a stage that keeps writing into a batch it has already sent downstream is a data race the
// detector reports whatever the timing; each case runs as its own sub-test so the report is
// attributed to the case (testing marks the sub-test "race detected during execution").

import (
	"fmt"
	"strconv"
	"testing"

	"pgregory.net/rapid"

	"qrynverif/evid"
	"qrynverif/logdb"
	"qrynverif/props/c07"
	"qrynverif/refeval"
)

// BatchCase is a dense database described by a few numbers (expanded by DB()), a query and
// the request shape.
type BatchCase struct {
	NSeries  int   `json:"n_series"`
	PerSer   int   `json:"per_series"` // samples per series
	PeriodMs int64 `json:"period_ms"`  // distance between the samples of a series
	JitterNs int64 `json:"jitter_ns"`
	ZeroPct  int   `json:"zero_pct"` // share of entries whose unwrapped value is 0
	Seed     int   `json:"seed"`

	Q        refeval.Expr `json:"q"`
	W        c07.Window   `json:"window"`
	StepMs   int64        `json:"step_ms"`
	Consumer int          `json:"consumer"`
	Cluster  bool         `json:"cluster,omitempty"`
}

// splitmix64: the expansion is a pure function of the case
func mix(x uint64) uint64 {
	x += 0x9e3779b97f4a7c15
	x = (x ^ (x >> 30)) * 0xbf58476d1ce4e5b9
	x = (x ^ (x >> 27)) * 0x94d049bb133111eb
	return x ^ (x >> 31)
}

var batchApps = []string{"x", "y", "api"}
var batchEnvs = []string{"prod", "dev", "it's"}

// DB expands the description: series i carries app, env (3 values each, stored in alternating
// key order) and a distinct job; its samples start at the window's first range bucket and
// follow each other every PeriodMs (+ jitter); lines are JSON with a numeric "n" (0 for
// ZeroPct % of them) and a level.
func (c *BatchCase) DB() logdb.DB {
	var db logdb.DB
	start := c.W.FromNs() - c.Q.RangeNs()
	for i := 0; i < c.NSeries; i++ {
		app := logdb.Label{Name: "app", Value: batchApps[i%3]}
		env := logdb.Label{Name: "env", Value: batchEnvs[(i/3)%3]}
		job := logdb.Label{Name: "job", Value: "j" + strconv.Itoa(i)}
		s := logdb.Series{Labels: []logdb.Label{app, env, job}}
		if i%2 == 1 {
			s.Labels = []logdb.Label{job, env, app}
		}
		for k := 0; k < c.PerSer; k++ {
			h := mix(uint64(c.Seed)<<32 ^ uint64(i)<<16 ^ uint64(k))
			ts := start + int64(k)*c.PeriodMs*1e6 + int64(i)*1000
			if c.JitterNs > 0 {
				ts += int64(h>>8) % c.JitterNs
			}
			n := int(h%9) + 1
			if int(h>>20)%100 < c.ZeroPct {
				n = 0
			}
			lvl := []string{"info", "warn", "error"}[(h>>40)%3]
			s.Samples = append(s.Samples, logdb.Sample{
				TsNs: ts, Type: logdb.TypeLog, Batch: int(h>>50) % 2,
				Line: fmt.Sprintf(`{"n":%d,"lvl":"%s","msg":"m%d"}`, n, lvl, k%7),
			})
		}
		db.Series = append(db.Series, s)
	}
	db.RowSeed = uint64(c.Seed) + 1
	return db
}

func genBatch(rt *rapid.T) BatchCase {
	var c BatchCase
	r := rapid.SampledFrom(mkDurs("1s", "2s", "1500ms", "999ms", "5s", "15s", "15001ms", "500ms")).Draw(rt, "range")
	c.NSeries = rapid.IntRange(6, 30).Draw(rt, "nseries")
	buckets := rapid.IntRange(12, 90).Draw(rt, "buckets")
	perBucket := rapid.IntRange(1, 2).Draw(rt, "per-bucket")
	c.PerSer = buckets * perBucket
	if c.NSeries*c.PerSer > 3600 {
		c.PerSer = 3600 / c.NSeries
	}
	c.PeriodMs = r.ns / 1e6 / int64(perBucket)
	if c.PeriodMs < 1 {
		c.PeriodMs = 1
	}
	c.JitterNs = rapid.SampledFrom([]int64{0, 1, 1000, 400000}).Draw(rt, "jitter")
	c.ZeroPct = rapid.SampledFrom([]int{0, 10, 30, 60}).Draw(rt, "zero")
	c.Seed = rapid.IntRange(0, 1000).Draw(rt, "seed")
	from := c07.Midnight + int64(rapid.IntRange(-30, 30).Draw(rt, "from"))
	span := int64(c.PerSer) * c.PeriodMs / 1000
	if span < 2 {
		span = 2
	}
	c.W = c07.Window{FromS: from, ToS: from + span - int64(rapid.IntRange(0, 1).Draw(rt, "short"))}
	rangeMs := r.ns / 1e6
	c.StepMs = rapid.SampledFrom([]int64{rangeMs, rangeMs, rangeMs / 2, rangeMs * 2, rangeMs + 1, 1000}).Draw(rt, "step")
	if c.StepMs < 100 {
		c.StepMs = 100
	}
	for (c.W.ToS-c.W.FromS)*1000/c.StepMs > 5000 {
		c.StepMs *= 2
	}
	c.Consumer = rapid.SampledFrom([]int{0, 0, 1, 2, 3}).Draw(rt, "consumer")
	c.Cluster = c07.Chance(rt, "cluster", 10)

	e := refeval.Expr{RangeN: r.n, RangeUnit: r.unit}
	switch rapid.IntRange(0, 3).Draw(rt, "sel") {
	case 0:
		e.Matchers = []refeval.Matcher{{Name: "app", Op: "=~", Val: ".+"}}
	case 1:
		e.Matchers = []refeval.Matcher{{Name: "env", Op: "!=", Val: "zzz"}, {Name: "app", Op: "=~", Val: "x|y|api"}}
	case 2:
		e.Matchers = []refeval.Matcher{{Name: "app", Op: "=~", Val: "^(x|api)$"}}
	default:
		e.Matchers = []refeval.Matcher{{Name: "job", Op: "=~", Val: "j[0-9]+"}}
	}
	if c07.Chance(rt, "lf", 30) {
		e.Stages = append(e.Stages, refeval.Stage{Kind: refeval.KLineFilter, Op: rapid.SampledFrom([]string{"|=", "!="}).Draw(rt, "lfop"), Val: rapid.SampledFrom([]string{"error", `"m3"`, "warn"}).Draw(rt, "lfv")})
	}
	if rapid.Bool().Draw(rt, "unwrap") {
		e.Stages = append(e.Stages, refeval.Stage{Kind: refeval.KJSON, Params: []refeval.Param{{Name: "v", Val: "n"}}})
		if c07.Chance(rt, "nf", 25) {
			e.Stages = append(e.Stages, refeval.Stage{Kind: refeval.KLabelFilter, Filter: &refeval.LabelFilter{Label: "v", Cmp: rapid.SampledFrom([]string{"<", ">=", "!="}).Draw(rt, "nfop"), Num: rapid.SampledFrom([]string{"5", "1", "0"}).Draw(rt, "nfv")}})
		}
		e.Stages = append(e.Stages, refeval.Stage{Kind: refeval.KUnwrap, Label: "v"})
		e.RangeFn = rapid.SampledFrom([]string{"sum_over_time", "sum_over_time", "max_over_time", "min_over_time", "avg_over_time", "rate"}).Draw(rt, "ufn")
		// the unwrapped label would split every series by value: group it away
		e.RangeGroup = &refeval.Grouping{Without: true, Labels: []string{"v"}, Suffix: rapid.Bool().Draw(rt, "rsuffix")}
	} else {
		e.RangeFn = rapid.SampledFrom([]string{"count_over_time", "rate", "bytes_over_time", "bytes_rate"}).Draw(rt, "lfn")
	}
	switch rapid.IntRange(0, 5).Draw(rt, "agg") {
	case 0:
		e.AggFn = rapid.SampledFrom([]string{"sum", "max", "min", "avg", "count"}).Draw(rt, "aggfn")
		e.AggGroup = &refeval.Grouping{Labels: []string{"app", "job"}, Suffix: rapid.Bool().Draw(rt, "asuffix")}
	case 1:
		e.AggFn = rapid.SampledFrom([]string{"sum", "max", "count"}).Draw(rt, "aggfn")
		e.AggGroup = &refeval.Grouping{Without: true, Labels: []string{"env"}}
	case 2:
		e.AggFn = "sum"
		e.AggGroup = &refeval.Grouping{Labels: []string{"env", "app"}}
	}
	if c07.Chance(rt, "cmp", 15) {
		cmp := &refeval.Comparison{Op: rapid.SampledFrom([]string{">", "<=", "!="}).Draw(rt, "cop"), Val: rapid.SampledFrom([]string{"1", "2", "5"}).Draw(rt, "cval")}
		if e.AggFn != "" {
			e.AggCmp = cmp
		} else {
			e.RangeCmp = cmp
		}
	}
	c.Q = e
	return c
}

// raceT is set by TestRace: every case then runs as a sub-test of it, and a race report
// during the case fails that sub-test.
var raceT *testing.T

func predBatch(c BatchCase, o *evid.Obs) error {
	if raceT == nil {
		return predBatchBody(c, o)
	}
	var err error
	ok := raceT.Run("case", func(*testing.T) { err = predBatchBody(c, o) })
	if err == nil && !ok {
		return fmt.Errorf("the race detector reported a data race while this case ran (report above: \"WARNING: DATA RACE\"); query %s, consumer mode %d", c.Q.String(), c.Consumer)
	}
	return err
}

func predBatchBody(c BatchCase, o *evid.Obs) error {
	if c.NSeries <= 0 || c.PerSer <= 0 || c.NSeries*c.PerSer > 20000 || c.StepMs <= 0 || c.Q.RangeNs() <= 0 {
		o.Discard("shape-outside-domain")
		return nil
	}
	mc := MetricCase{DB: c.DB(), Q: c.Q, W: c.W, StepMs: c.StepMs, Cluster: c.Cluster}
	ref, discard := reference(&mc, o)
	if discard != "" {
		o.Discard(discard)
		return nil
	}
	TagMetric(o, &mc)
	o.Tag("consumer:" + strconv.Itoa(c.Consumer))
	rq := mc.req()
	rq.Consumer = c.Consumer
	text := c.Q.String()
	out := c07.Run(&mc.DB, rq)
	if reason, err := c07.Judge(&out, text); err != nil {
		return err
	} else if reason != "" {
		o.Discard(reason)
		return nil
	}
	// rows of the SQL result = what the getter scans, 100 per batch
	sqlRows := 0
	if l := out.Backend.Log(); len(l) > 0 && l[len(l)-1].Res != nil {
		sqlRows = len(l[len(l)-1].Res.Rows)
	}
	switch {
	case sqlRows > 1000:
		o.Tag("sql-rows>1000")
	case sqlRows > 300:
		o.Tag("sql-rows>300")
	case sqlRows > 100:
		o.Tag("sql-rows>100")
	default:
		o.Tag("sql-rows<=100")
	}
	zeros := 0
	for _, s := range ref.Buckets {
		for _, sm := range s.Samples {
			if sm.Value == 0 {
				zeros++
			}
		}
	}
	if zeros > 0 {
		o.Tag("zero-valued-buckets")
	}
	// non-trivial: at least three getter batches, at least two output series
	if sqlRows > 200 && len(ref.Series) >= 2 {
		o.NonTrivial()
	}
	want, merged := wantOf(ref.Series)
	if merged {
		o.Discard("dontcare:series-differ-only-in-empty-labels")
		return nil
	}
	got := collectGot(&out)
	if got.EmptyDup {
		o.Discard("dontcare:series-differ-only-in-empty-labels")
		return nil
	}
	head := fmt.Sprintf("query: %s\nwindow [%d,%d) step %dms range %dns, %d series x %d samples, %d SQL rows, %d output batches, consumer mode %d",
		text, c.W.FromNs(), c.W.ToNs(), c.StepMs, c.Q.RangeNs(), c.NSeries, c.PerSer, sqlRows, out.Batches, c.Consumer)
	if len(got.Dup) > 0 {
		return fmt.Errorf("label set %s came back as more than one output series\n%s", got.Dup[0], head)
	}
	if err := compareSeries(want, got.Series, tolOf(&c.Q)); err != nil {
		return fmt.Errorf("%v\n%s\nSQL: %s", err, head, out.SQL())
	}
	return nil
}

func addBatch(r *evid.Run, quick, thorough int) {
	evid.Add(r, evid.Prop[BatchCase]{Name: "batch", Quick: quick, Thorough: thorough, Gen: genBatch, Pred: predBatch, WAL: true})
}

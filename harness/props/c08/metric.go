package c08

// metric.go — C08: the SQL generated for LogQL metric queries computes the defined aggregates.
//
// Same pipeline as C07 (props/c07.Run): LogQL text -> real Transpile -> SQL -> chsim on
// logdb's tables -> real ScanMatrix -> real ZeroEater / FixPeriod post-processors; compared
// with refeval.EvalMetricSQL on the same data.

import (
	"fmt"
	"math"
	"sort"
	"strconv"
	"strings"

	"pgregory.net/rapid"

	"qrynverif/evid"
	"qrynverif/logdb"
	"qrynverif/props/c07"
	"qrynverif/refeval"
)

// MetricCase is one C08 case.
type MetricCase struct {
	DB      logdb.DB     `json:"db"`
	Q       refeval.Expr `json:"q"`
	W       c07.Window   `json:"window"`
	StepMs  int64        `json:"step_ms"`
	Cluster bool         `json:"cluster,omitempty"`
}

type dur struct {
	n    int64
	unit string
	ns   int64
}

// Range durations. `ranges`: whole seconds / minutes below and above the 15 s threshold of
// the metrics_15s shortcut. `rangesOffGrid`: >= 15 s but not a multiple of 15 s (fixed finding
// C08-shortcut-range-not-multiple-of-15s). `rangesOdd`: the same regions written in ms / us /
// ns — one unit off the threshold and its multiples (the shortcut decision must be made on
// the exact duration, not on truncated seconds or milliseconds), exactly on it in another
// unit, sub-second and sub-millisecond ranges, and durations that do not divide 24 h (the
// bucket grid is epoch-aligned: fix/c09's FixPeriodPlanner repair is merged).
// qryn's grammar takes one integer and one unit (logql_parser/model_v2.go LRAOrUnwrap:
// "[" @Integer @("ns"|"us"|"ms"|"s"|"m"|"h") "]"): `[1m500ms]` is a parse error, not a
// supported query, so mixed units are written as their value in the smaller unit (60500ms).
var ranges = []dur{{1, "s", 1e9}, {2, "s", 2e9}, {5, "s", 5e9}, {10, "s", 10e9}, {15, "s", 15e9}, {30, "s", 30e9}, {1, "m", 60e9}, {2, "m", 120e9}, {5, "m", 300e9}}

var rangesOffGrid = []dur{{20, "s", 20e9}, {40, "s", 40e9}, {100, "s", 100e9}, {7, "s", 7e9}, {7, "m", 420e9}}

var rangesOdd = mkDurs(
	"14999ms", "15000ms", "15001ms", "15500ms", "15999ms", "16000ms", "29999ms", "30000ms", "30001ms", "30500ms",
	"45000001us", "45000000us", "44999999us", "15000001us", "14999999us", "15000000us",
	"15000000001ns", "14999999999ns", "15000000000ns", "30000000001ns", "60000000000ns", "60000000001ns",
	"60500ms", "59999ms", "60001ms", "90000ms", "75000ms",
	"1500ms", "2500ms", "999ms", "1001ms", "500ms", "1500000us", "2000000000ns",
	"1500us", "2500000ns", "999us", "700ns",
)

func mkDurs(specs ...string) []dur {
	mult := map[string]int64{"ns": 1, "us": 1e3, "ms": 1e6, "s": 1e9, "m": 60e9, "h": 3600e9}
	var out []dur
	for _, sp := range specs {
		i := 0
		for i < len(sp) && sp[i] >= '0' && sp[i] <= '9' {
			i++
		}
		var n int64
		fmt.Sscan(sp[:i], &n)
		out = append(out, dur{n, sp[i:], n * mult[sp[i:]]})
	}
	return out
}

var logFns = []string{"rate", "count_over_time", "bytes_rate", "bytes_over_time"}
var unwrapFns = []string{"rate", "sum_over_time", "sum_over_time", "avg_over_time", "avg_over_time", "min_over_time", "min_over_time", "max_over_time", "max_over_time", "first_over_time", "first_over_time", "last_over_time", "last_over_time", "stdvar_over_time", "stddev_over_time"}
var aggFns = []string{"sum", "sum", "min", "min", "max", "max", "avg", "avg", "count", "count", "stddev", "stdvar"}

func genGrouping(rt *rapid.T, db *logdb.DB, extracted []string) *refeval.Grouping {
	names := append(append([]string{}, db.LabelNames()...), extracted...)
	if len(names) == 0 {
		names = []string{"app"}
	}
	n := rapid.IntRange(1, 2).Draw(rt, "ngl")
	ls := rapid.SliceOfNDistinct(rapid.SampledFrom(names), 1, n, rapid.ID[string]).Draw(rt, "glabels")
	if c07.Chance(rt, "gcore", 35) {
		// the two labels most series share, stored in different key orders per series
		ls = []string{"env", "app"}
	}
	if c07.Chance(rt, "gabsent", 8) {
		ls = append(ls, "nolbl")
	}
	return &refeval.Grouping{Without: rapid.IntRange(0, 2).Draw(rt, "without") == 0, Labels: ls, Suffix: rapid.Bool().Draw(rt, "suffix")}
}

func genCmp(rt *rapid.T) *refeval.Comparison {
	return &refeval.Comparison{
		Op:  rapid.SampledFrom([]string{"==", "!=", ">", ">=", "<", "<="}).Draw(rt, "cop"),
		Val: rapid.SampledFrom([]string{"0", "1", "2", "0.5", "3", "10", "0.2"}).Draw(rt, "cval"),
	}
}

func extractedNames(st []refeval.Stage) []string {
	var out []string
	for _, s := range st {
		switch s.Kind {
		case refeval.KJSON:
			for _, p := range s.Params {
				out = append(out, p.Name)
			}
		case refeval.KRegexp:
			// group names of the fixed stage list all start with x / w / v / a / lvl
			for _, n := range []string{"xl", "xn", "w", "v", "a", "lvl"} {
				if strings.Contains(s.Val, "(?P<"+n+">") {
					out = append(out, n)
				}
			}
		}
	}
	return out
}

func genMetricQuery(rt *rapid.T, db *logdb.DB, r dur) refeval.Expr {
	var e refeval.Expr
	e.RangeN, e.RangeUnit = r.n, r.unit
	e.Matchers = c07.GenMatchersBroad(rt, db)
	unwrap := rapid.IntRange(0, 9).Draw(rt, "unwrap") < 3
	maxStages := 3
	if rapid.IntRange(0, 3).Draw(rt, "bare") == 0 {
		maxStages = 0 // plain selector: the shape dashboards send, and the >= 15 s shortcut's
	}
	e.Stages = c07.GenStages(rt, db, c07.StageOpt{Max: maxStages, Unwrap: unwrap})
	if unwrap {
		e.RangeFn = rapid.SampledFrom(unwrapFns).Draw(rt, "ufn")
		if rapid.IntRange(0, 2).Draw(rt, "rgroup") == 0 {
			e.RangeGroup = genGrouping(rt, db, extractedNames(e.Stages))
		}
	} else {
		e.RangeFn = rapid.SampledFrom(logFns).Draw(rt, "lfn")
	}
	if c07.Chance(rt, "rcmp", 12) {
		e.RangeCmp = genCmp(rt)
	}
	if rapid.IntRange(0, 9).Draw(rt, "agg") < 5 {
		e.AggFn = rapid.SampledFrom(aggFns).Draw(rt, "aggfn")
		if rapid.IntRange(0, 9).Draw(rt, "agroup") < 8 {
			e.AggGroup = genGrouping(rt, db, extractedNames(e.Stages))
		}
		if c07.Chance(rt, "acmp", 20) {
			e.AggCmp = genCmp(rt)
		}
	}
	if c07.Chance(rt, "top", 15) {
		e.TopFn = rapid.SampledFrom([]string{"topk", "bottomk"}).Draw(rt, "topfn")
		e.TopK = rapid.IntRange(1, 3).Draw(rt, "k")
		if c07.Chance(rt, "tcmp", 5) {
			e.TopCmp = genCmp(rt)
		}
	}
	return e
}

// genShape draws window and step for a range: the window is 0..4 ranges long plus an
// unaligned remainder; the step is smaller than, equal to or larger than the range.
func genShape(rt *rapid.T, rangeNs int64) (c07.Window, int64) {
	rs := rangeNs / 1e9
	if rs < 1 {
		rs = 1
	}
	from := c07.Midnight + int64(rapid.IntRange(-3, 2).Draw(rt, "fromk"))*rs + int64(rapid.IntRange(-40, 40).Draw(rt, "fromoff"))
	l := int64(rapid.IntRange(0, 4).Draw(rt, "lenk"))*rs + int64(rapid.IntRange(1, 20).Draw(rt, "lenoff"))
	w := c07.Window{FromS: from, ToS: from + l}
	rangeMs := rangeNs / 1e6
	var step int64
	switch rapid.IntRange(0, 6).Draw(rt, "stepk") {
	case 6:
		// one millisecond around step == range (StepFixPlanner regroups only when the
		// range is smaller than the step)
		step = rangeMs + int64(rapid.IntRange(-1, 1).Draw(rt, "step1"))
	case 0, 1:
		step = rangeMs
	case 2:
		step = rangeMs / int64(rapid.SampledFrom([]int{2, 3, 5}).Draw(rt, "div"))
	case 3:
		step = rangeMs * int64(rapid.IntRange(2, 3).Draw(rt, "mul"))
	case 4:
		step = int64(rapid.SampledFrom([]int{1000, 2000, 5000, 7000, 15000, 60000}).Draw(rt, "stepabs"))
	default:
		step = rangeMs + int64(rapid.IntRange(-500, 1500).Draw(rt, "stepoff"))
	}
	if step < 100 {
		step = 100
	}
	// keep the grid small
	for (w.ToS-w.FromS)*1000/step > 600 {
		step *= 2
	}
	return w, step
}

func genRange(rt *rapid.T) dur {
	switch k := rapid.IntRange(0, 19).Draw(rt, "rangekind"); {
	case k < 9:
		return rapid.SampledFrom(ranges).Draw(rt, "range0")
	case k < 11:
		return rapid.SampledFrom(rangesOffGrid).Draw(rt, "range0-off")
	default:
		return rapid.SampledFrom(rangesOdd).Draw(rt, "range0-odd")
	}
}

func genMetricCase(rt *rapid.T) MetricCase {
	var c MetricCase
	// the range is part of the query, but window and data are placed relative to it: draw it first
	r := genRange(rt)
	c.W, c.StepMs = genShape(rt, r.ns)
	spread := r.ns + 2e9
	c.DB = c07.GenDB(rt, c.W, c07.DBOpt{MaxSeries: 5, MaxSamples: 10, SpreadNs: spread, GridNs: r.ns, OtherTypes: true})
	c.Q = genMetricQuery(rt, &c.DB, r)
	c.Cluster = c07.Chance(rt, "cluster", 15)
	return c
}

// genTopCmpCase aims at `topk(k, X) cmp v`, `bottomk(k, X) cmp v` and `topk(k, X cmp v)`: a
// broad selector over up to 6 series that share range buckets (window shorter than two
// ranges), a range function with spread-out values (bytes, unwrapped sums), k smaller than
// the number of series, all six comparison operators, thresholds taken from the middle of
// the values, so that filtering before the ranking and after it give different answers.
func genTopCmpCase(rt *rapid.T) MetricCase {
	var c MetricCase
	r := rapid.SampledFrom(mkDurs("5s", "10s", "30s", "1m", "20s", "15s")).Draw(rt, "trange")
	from := c07.Midnight + int64(rapid.IntRange(-40, 40).Draw(rt, "tfrom"))
	c.W = c07.Window{FromS: from, ToS: from + int64(rapid.IntRange(1, int(r.ns/1e9)).Draw(rt, "tlen"))}
	c.StepMs = rapid.SampledFrom([]int64{r.ns / 1e6, r.ns / 2e6, 1000, r.ns / 1e6 * 2}).Draw(rt, "tstep")
	c.DB = c07.GenDB(rt, c.W, c07.DBOpt{MinSeries: 4, MaxSeries: 7, MaxSamples: 6, SpreadNs: 2e9, GridNs: r.ns})
	e := refeval.Expr{RangeN: r.n, RangeUnit: r.unit}
	e.Matchers = []refeval.Matcher{{Name: rapid.SampledFrom([]string{"app", "env"}).Draw(rt, "tm"), Op: "=~", Val: ".+"}}
	switch rapid.IntRange(0, 3).Draw(rt, "tfn") {
	case 0:
		e.RangeFn = "bytes_over_time"
	case 1:
		e.RangeFn = "bytes_rate"
	case 2:
		e.RangeFn = "count_over_time"
	default:
		e.Stages = []refeval.Stage{{Kind: refeval.KJSON, Params: []refeval.Param{{Name: "v", Val: "n"}}}, {Kind: refeval.KUnwrap, Label: "v"}}
		e.RangeFn = rapid.SampledFrom([]string{"sum_over_time", "max_over_time"}).Draw(rt, "tufn")
		e.RangeGroup = &refeval.Grouping{Without: true, Labels: []string{"v"}}
	}
	if rapid.IntRange(0, 2).Draw(rt, "tagg") == 0 {
		e.AggFn = rapid.SampledFrom([]string{"sum", "max", "min"}).Draw(rt, "taggfn")
		e.AggGroup = &refeval.Grouping{Labels: []string{rapid.SampledFrom([]string{"app", "env", "job"}).Draw(rt, "tagl"), "lvl"}}
	}
	e.TopFn = rapid.SampledFrom([]string{"topk", "bottomk"}).Draw(rt, "ttop")
	e.TopK = rapid.SampledFrom([]int{1, 1, 2, 2, 3}).Draw(rt, "tk")
	// thresholds from the middle of what the range function yields on this data
	var pool []string
	switch e.RangeFn {
	case "bytes_over_time":
		pool = []string{"10", "20", "30", "45", "60", "100"}
	case "bytes_rate":
		pool = []string{"1", "2", "4", "0.5", "8"}
	case "count_over_time":
		pool = []string{"1", "2", "3"}
	default:
		pool = []string{"1", "2", "7", "10", "42", "3.5"}
	}
	// better: the values this very query yields before ranking (the generator may evaluate
	// the reference: it is a pure function of what was drawn)
	probe := e
	probe.TopFn = ""
	if pr, err := refeval.EvalMetricSQL(&probe, c.DB.Ref(), refeval.MetricParams{FromNs: c.W.FromNs(), ToNs: c.W.ToNs(), StepNs: c.StepMs * 1e6}); err == nil {
		var vals []string
		for _, sr := range pr.Buckets {
			for _, sm := range sr.Samples {
				if sm.Value > 0 && sm.Value < 1e9 {
					if sm.Value == math.Trunc(sm.Value) {
						vals = append(vals, strconv.FormatFloat(sm.Value, 'f', -1, 64))
					} else {
						// just beside the value, never on it: non-integer values are compared
						// with a tolerance, a threshold within 1e-9 of one is don't-care
						vals = append(vals, strconv.FormatFloat(math.Round(sm.Value*1000)/1000+0.0004, 'f', 4, 64))
					}
				}
			}
		}
		if len(vals) > 0 && len(vals) <= 64 {
			pool = append(vals, pool[0])
		}
	}
	cmp := func() *refeval.Comparison {
		return &refeval.Comparison{Op: rapid.SampledFrom([]string{"==", "!=", ">", ">=", "<", "<="}).Draw(rt, "tcop"), Val: rapid.SampledFrom(pool).Draw(rt, "tcv")}
	}
	switch rapid.IntRange(0, 4).Draw(rt, "twhere") {
	case 0, 1, 2:
		e.TopCmp = cmp() // topk(k, X) cmp v
	case 3:
		if e.AggFn != "" { // topk(k, X cmp v)
			e.AggCmp = cmp()
		} else {
			e.RangeCmp = cmp()
		}
	default:
		e.TopCmp = cmp()
		if e.AggFn != "" {
			e.AggCmp = cmp()
		} else {
			e.RangeCmp = cmp()
		}
	}
	c.Q = e
	return c
}

func genMetric(rt *rapid.T) MetricCase {
	if c07.Chance(rt, "topcmp", 30) {
		return genTopCmpCase(rt)
	}
	return genMetricCase(rt)
}

// ---- comparison --------------------------------------------------------------------------------

// Got is the answer of the real read path, series keyed by (normalised) label set.
type Got struct {
	Series map[string]map[int64]float64
	// Dup lists label sets that came back as more than one output series.
	Dup []string
	// EmptyDup: two output series whose label sets differ only in empty-valued labels (qryn
	// writes name="" for a value it could not extract; LogQL knows no empty label): the
	// expected answer is not settled.
	EmptyDup bool
}

func collectGot(out *c07.Outcome) Got {
	g := Got{Series: map[string]map[int64]float64{}}
	fpOf := map[string]uint64{}
	rawOf := map[string]string{}
	dup := map[string]bool{}
	for _, e := range out.Entries {
		k := refeval.LabelsKey(refeval.NormLabels(e.Labels))
		raw := refeval.LabelsKey(e.Labels)
		if r, ok := rawOf[k]; ok && r != raw {
			g.EmptyDup = true
		} else if fp, ok := fpOf[k]; ok && fp != e.Fingerprint && !dup[k] {
			dup[k] = true
			g.Dup = append(g.Dup, k)
		}
		fpOf[k] = e.Fingerprint
		rawOf[k] = raw
		if g.Series[k] == nil {
			g.Series[k] = map[int64]float64{}
		}
		g.Series[k][e.TimestampNS] = e.Value
	}
	sort.Strings(g.Dup)
	return g
}

func wantOf(ms []refeval.MetricSeries) (map[string]map[int64]float64, bool) {
	w := map[string]map[int64]float64{}
	merged := false
	for _, s := range ms {
		k := refeval.LabelsKey(refeval.NormLabels(s.Labels))
		if w[k] != nil {
			merged = true // two reference series differ only in empty-valued labels
		} else {
			w[k] = map[int64]float64{}
		}
		for _, sm := range s.Samples {
			w[k][sm.TsNs] = sm.Value
		}
	}
	return w, merged
}

func closeTo(a, b, tol float64) bool {
	if a == b {
		return true
	}
	d := math.Abs(a - b)
	m := math.Max(math.Abs(a), math.Abs(b))
	return d <= tol*m || d <= 1e-12
}

func fmtSeries(m map[string]map[int64]float64) string {
	var ks []string
	for k := range m {
		ks = append(ks, k)
	}
	sort.Strings(ks)
	var b strings.Builder
	for _, k := range ks {
		var ts []int64
		for t := range m[k] {
			ts = append(ts, t)
		}
		sort.Slice(ts, func(i, j int) bool { return ts[i] < ts[j] })
		fmt.Fprintf(&b, "\n    %s:", k)
		for i, t := range ts {
			if i >= 12 {
				fmt.Fprintf(&b, " …(%d points)", len(ts))
				break
			}
			fmt.Fprintf(&b, " %d=%v", t, m[k][t])
		}
	}
	return b.String()
}

func compareSeries(want, got map[string]map[int64]float64, tol float64) error {
	for k := range got {
		if want[k] == nil {
			return fmt.Errorf("series %s returned but not expected", k)
		}
	}
	for k, w := range want {
		g := got[k]
		if g == nil {
			return fmt.Errorf("series %s expected but not returned", k)
		}
		for t, v := range w {
			gv, ok := g[t]
			if !ok {
				return fmt.Errorf("series %s: point at %d (value %v) expected but not returned", k, t, v)
			}
			if !closeTo(v, gv, tol) {
				return fmt.Errorf("series %s: value at %d is %v, expected %v", k, t, gv, v)
			}
		}
		for t, v := range g {
			if _, ok := w[t]; !ok {
				return fmt.Errorf("series %s: point at %d (value %v) returned but not expected", k, t, v)
			}
		}
	}
	return nil
}

func tolOf(e *refeval.Expr) float64 {
	if strings.HasPrefix(e.RangeFn, "std") || strings.HasPrefix(e.AggFn, "std") {
		return 1e-6
	}
	return 1e-9
}

// TagMetric classifies a metric query.
func TagMetric(o *evid.Obs, c *MetricCase) {
	e := &c.Q
	c07.TagQuery(o, e)
	o.Tag("fn:" + e.RangeFn)
	rng := e.RangeNs()
	if rng >= 15e9 {
		o.Tag("range>=15s")
		if (e.RangeFn == "rate" || e.RangeFn == "count_over_time") && !hasUnwrap(e) {
			o.Tag("range>=15s-rate/count")
		}
	} else {
		o.Tag("range<15s")
	}
	o.Tag("range-unit:" + e.RangeUnit)
	if rng%1e9 != 0 {
		o.Tag("range-not-whole-seconds")
	}
	if rng%1e6 != 0 {
		o.Tag("range-not-whole-milliseconds")
	}
	if d := rng % 15e9; rng >= 14e9 && (d <= 1e9 || d >= 14e9) && d != 0 {
		o.Tag("range-within-1s-of-a-multiple-of-15s")
	}
	step := c.StepMs * 1e6
	if d := step - rng; d != 0 && d >= -1e6 && d <= 1e6 {
		o.Tag("step-within-1ms-of-range")
	}
	switch {
	case step < rng:
		o.Tag("step<range")
	case step == rng:
		o.Tag("step=range")
	default:
		o.Tag("step>range")
	}
	if e.RangeGroup != nil {
		o.Tag("range-grouping")
	}
	if e.RangeCmp != nil {
		o.Tag("range-cmp")
	}
	if e.AggFn != "" {
		o.Tag("agg:" + e.AggFn)
		switch {
		case e.AggGroup == nil:
			o.Tag("agg-nogroup")
		case e.AggGroup.Without:
			o.Tag("agg-without")
		default:
			o.Tag("agg-by")
		}
		if e.AggGroup != nil && e.AggGroup.Suffix {
			o.Tag("agg-group-suffix")
		}
		if e.AggCmp != nil {
			o.Tag("agg-cmp")
		}
	}
	if e.TopFn != "" {
		o.Tag(e.TopFn)
		if e.TopCmp != nil {
			o.Tag(e.TopFn+"-then-cmp", e.TopFn+"-then-cmp"+e.TopCmp.Op)
		}
		if e.RangeCmp != nil || e.AggCmp != nil {
			o.Tag("cmp-inside-" + e.TopFn)
		}
	}
	if c.Cluster {
		o.Tag("cluster")
	}
}

func hasUnwrap(e *refeval.Expr) bool {
	return len(e.Stages) > 0 && e.Stages[len(e.Stages)-1].Kind == refeval.KUnwrap
}

// OffGrid15s says whether the query is answered from metrics_15s although its range is not
// a multiple of 15 s (region of the known finding).
func OffGrid15s(e *refeval.Expr) bool {
	rng := e.RangeNs()
	return rng >= 15e9 && rng%15e9 != 0 && (e.RangeFn == "rate" || e.RangeFn == "count_over_time") && !hasUnwrap(e)
}

func (c *MetricCase) params() refeval.MetricParams {
	return refeval.MetricParams{FromNs: c.W.FromNs(), ToNs: c.W.ToNs(), StepNs: c.StepMs * 1e6}
}

func (c *MetricCase) req() c07.Req {
	return c07.Req{Query: c.Q.String(), FromNs: c.W.FromNs(), ToNs: c.W.ToNs(), StepMs: c.StepMs, Limit: 100, Cluster: c.Cluster}
}

// reference evaluates the case; discard != "" means outside the oracle's domain.
func reference(c *MetricCase, o *evid.Obs) (res refeval.MetricResultSQL, discard string) {
	if err := c.DB.Validate(); err != nil {
		return res, "invalid-db"
	}
	if c.StepMs <= 0 || c.Q.RangeNs() <= 0 {
		return res, "shape-outside-domain"
	}
	res, err := refeval.EvalMetricSQL(&c.Q, c.DB.Ref(), c.params())
	if err != nil {
		return res, "invalid-regex"
	}
	if res.Flags.Unsupported != "" {
		return res, "refeval-unsupported"
	}
	for _, d := range res.Flags.DontCare {
		o.Tag("dontcare:" + d)
	}
	if len(res.Flags.DontCare) > 0 {
		return res, "dontcare:" + res.Flags.DontCare[0]
	}
	if thresholdSensitive(c, &res) {
		return res, "dontcare:value-within-1e-9-of-comparison-threshold"
	}
	alt, err := refeval.EvalMetricSQL(c07.DotNL(&c.Q), c.DB.Ref(), c.params())
	if err != nil || fmt.Sprint(alt.Series) != fmt.Sprint(res.Series) {
		return res, "dontcare:regex-dot-vs-newline"
	}
	return res, ""
}

// thresholdSensitive: values are compared with a relative tolerance of 1e-9, so a comparison
// whose outcome flips when its threshold moves by 1e-9 (a non-integer value sitting exactly
// on the threshold: sums of quotients depend on the order of summation in the last bit) is
// not decidable. Integer-valued pipelines (counts, bytes, sums of integers) are exact in
// both evaluators and stay decidable.
func thresholdSensitive(c *MetricCase, _ *refeval.MetricResultSQL) bool {
	e := &c.Q
	if e.RangeCmp == nil && e.AggCmp == nil && e.TopCmp == nil {
		return false
	}
	probe := *e
	probe.RangeCmp, probe.AggCmp, probe.TopCmp, probe.TopFn = nil, nil, nil, ""
	integral := true
	check := func(q *refeval.Expr) {
		r, err := refeval.EvalMetricSQL(q, c.DB.Ref(), c.params())
		if err != nil {
			integral = false
			return
		}
		for _, sr := range r.Buckets {
			for _, sm := range sr.Samples {
				if sm.Value != math.Trunc(sm.Value) || math.Abs(sm.Value) > 1e15 {
					integral = false
				}
			}
		}
	}
	check(&probe)
	if probe.AggFn != "" {
		noAgg := probe
		noAgg.AggFn, noAgg.AggGroup = "", nil
		check(&noAgg)
	}
	if integral {
		return false
	}
	near := func(q refeval.Expr, cm *refeval.Comparison) bool {
		if cm == nil {
			return false
		}
		thr, err := strconv.ParseFloat(cm.Val, 64)
		if err != nil {
			return true
		}
		r, err := refeval.EvalMetricSQL(&q, c.DB.Ref(), c.params())
		if err != nil {
			return true
		}
		for _, sr := range r.Buckets {
			for _, sm := range sr.Samples {
				if math.Abs(sm.Value-thr) <= 1e-9*math.Max(math.Abs(sm.Value), math.Abs(thr)) {
					return true
				}
			}
		}
		return false
	}
	// the values each comparison looks at: range level, aggregation level, pre-ranking level
	l1 := *e
	l1.RangeCmp, l1.AggFn, l1.AggGroup, l1.AggCmp, l1.TopFn, l1.TopCmp = nil, "", nil, nil, "", nil
	l2 := *e
	l2.AggCmp, l2.TopFn, l2.TopCmp = nil, "", nil
	l3 := *e
	l3.TopFn, l3.TopCmp = "", nil
	return near(l1, e.RangeCmp) || (e.AggFn != "" && near(l2, e.AggCmp)) || near(l3, e.TopCmp)
}

func predMetric(c MetricCase, o *evid.Obs) error {
	ref, discard := reference(&c, o)
	if discard != "" {
		o.Discard(discard)
		return nil
	}
	TagMetric(o, &c)
	if OffGrid15s(&c.Q) {
		o.Tag("range>=15s-not-multiple-of-15s")
	}
	for _, d := range ref.Flags.Deviations {
		o.Tag("deviation:" + d)
	}
	text := c.Q.String()
	out := c07.Run(&c.DB, c.req())
	if reason, err := c07.Judge(&out, text); err != nil {
		return err
	} else if reason != "" {
		o.Discard(reason)
		return nil
	}
	if !out.IsMatrix {
		return fmt.Errorf("metric query %s not planned as a matrix", text)
	}
	want, merged := wantOf(ref.Series)
	if merged {
		o.Discard("dontcare:series-differ-only-in-empty-labels")
		return nil
	}
	got := collectGot(&out)
	if out.Rewritten() {
		o.Tag("assumption:having-as-filter(new analyzer)")
	}
	if c.Q.TopFn != "" && c.Q.TopCmp != nil {
		// would filtering BEFORE the ranking have given another answer?
		alt := c.Q
		alt.TopCmp = nil
		if alt.AggFn != "" {
			if alt.AggCmp == nil {
				alt.AggCmp = c.Q.TopCmp
			} else {
				alt.AggFn = "" // both present: no single swapped form; skip the classification
			}
		} else if alt.RangeCmp == nil {
			alt.RangeCmp = c.Q.TopCmp
		} else {
			alt.TopFn = ""
		}
		if alt.TopFn != "" && (c.Q.AggFn == "" || alt.AggFn != "") {
			if ar, err := refeval.EvalMetricSQL(&alt, c.DB.Ref(), c.params()); err == nil && fmt.Sprint(ar.Series) != fmt.Sprint(ref.Series) {
				o.Tag("top-cmp-order-matters")
			}
		}
	}

	// non-trivial: >= 2 output series or >= 2 buckets, and the pipeline excluded something
	nb := 0
	for _, s := range ref.Buckets {
		nb += len(s.Samples)
	}
	inWin := 0
	wf, wt := refeval.Window(c.params(), c.Q.RangeNs(), &refeval.Flags{})
	for _, s := range c.DB.Ref() {
		for _, e := range s.Entries {
			if e.TsNs >= wf && e.TsNs < wt {
				inWin++
			}
		}
	}
	if (len(ref.Buckets) >= 2 || nb >= 2) && ref.Passed < inWin {
		o.NonTrivial()
	}
	if len(ref.Series) == 0 {
		o.Tag("ref-empty")
	}
	if len(ref.Buckets) >= 2 {
		o.Tag("series>=2")
	}

	describe := func() string {
		return fmt.Sprintf("query: %s\nwindow [%d,%d) step %dms range %dns\nexpected:%s\ngot:%s\nSQL: %s", text, c.W.FromNs(), c.W.ToNs(), c.StepMs, c.Q.RangeNs(), fmtSeries(want), fmtSeries(got.Series), out.SQL())
	}
	if got.EmptyDup {
		o.Discard("dontcare:series-differ-only-in-empty-labels")
		return nil
	}
	if len(got.Dup) > 0 {
		return fmt.Errorf("label set %s came back as more than one output series\n%s", got.Dup[0], describe())
	}
	if err := compareSeries(want, got.Series, tolOf(&c.Q)); err != nil {
		return fmt.Errorf("%v\n%s", err, describe())
	}
	return nil
}

func addMetric(r *evid.Run) {
	evid.Add(r, evid.Prop[MetricCase]{Name: "metric", Quick: 3000, Thorough: 30000, Gen: genMetric, Pred: predMetric})
}

package c08

import (
	"fmt"
	"os"
	"testing"

	"pgregory.net/rapid"

	"qrynverif/evid"
	"qrynverif/refeval"
)

func TestExplore(t *testing.T) {
	if os.Getenv("C08_EXPLORE") == "" {
		t.Skip()
	}
	n := 0
	rapid.Check(t, func(rt *rapid.T) {
		c := genMetric(rt)
		o := &evid.Obs{}
		ref, d := reference(&c, o)
		n++
		if n > 60 {
			return
		}
		sel, _ := refeval.Select(c.DB.Ref(), c.Q.Matchers, c.W.FromNs(), c.W.ToNs(), &refeval.Flags{})
		fmt.Fprintf(os.Stderr, "%-30s sel=%d selected=%d passed=%d buckets=%d series=%d  %s\n", d, len(sel), ref.Selected, ref.Passed, len(ref.Buckets), len(ref.Series), c.Q.String())
	})
}

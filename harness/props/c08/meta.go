package c08

// meta.go — C08 side-conditions that need no evaluator (DESIGN.md C08): the same request is
// run twice through the real planner + chsim + post-processors, on a transformed query or
// database, and the two answers are compared with each other.
//
//   reject-all: a pipeline stage that rejects every entry, inserted into the query, must
//               empty the result — for every range duration (the >= 15 s shortcut).
//   outside:    entries added outside the bucket-widened window
//               [floor(from/range)*range, floor(to/range)*range + range) must not change it.
//   reorder:    the stored key order of the labels documents (ingestion order) and the
//               physical row order must not change it: series are label SETS.
//
// These relations hold in the don't-care regions of the differential check too (absent
// labels, exotic numbers ...); only cases whose answer ClickHouse itself leaves open (ties
// of first/last_over_time and of top/bottom-k) are discarded.

import (
	"fmt"
	"strings"

	"pgregory.net/rapid"

	"qrynverif/evid"
	"qrynverif/logdb"
	"qrynverif/props/c07"
	"qrynverif/refeval"
)

// MetaCase is a base case plus a transformation.
type MetaCase struct {
	Base MetricCase `json:"base"`
	Kind string     `json:"kind"`
	Seed int        `json:"seed"`
}

const neverText = "@@never-in-any-line@@"

func genMeta(rt *rapid.T) MetaCase {
	return MetaCase{
		Base: genMetric(rt),
		Kind: rapid.SampledFrom([]string{"reject-all", "reject-all", "outside", "reorder"}).Draw(rt, "kind"),
		Seed: rapid.IntRange(0, 7).Draw(rt, "mseed"),
	}
}

func withRejectAll(e refeval.Expr, seed int) refeval.Expr {
	var st refeval.Stage
	if seed%2 == 0 {
		v := "__never__"
		st = refeval.Stage{Kind: refeval.KLabelFilter, Filter: &refeval.LabelFilter{Label: "zz_absent", Cmp: "=", Str: &v}}
	} else {
		st = refeval.Stage{Kind: refeval.KLineFilter, Op: "|=", Val: neverText}
	}
	stages := append([]refeval.Stage(nil), e.Stages...)
	pos := len(stages)
	if pos > 0 && stages[pos-1].Kind == refeval.KUnwrap {
		pos-- // unwrap stays last
	}
	if seed%4 >= 2 {
		pos = 0 // right after the selector
	}
	stages = append(stages[:pos], append([]refeval.Stage{st}, stages[pos:]...)...)
	e.Stages = stages
	return e
}

func withOutside(db logdb.DB, wf, wt, rng int64, seed int) logdb.DB {
	out := logdb.DB{RowSeed: db.RowSeed}
	for i, s := range db.Series {
		n := s
		n.Labels = append([]logdb.Label(nil), s.Labels...)
		n.Samples = append([]logdb.Sample(nil), s.Samples...)
		for j, t := range []int64{wf - 1, wf - rng, wt, wt + 1e9, wf - 1 - int64(seed)*1e6, wt + rng - 1} {
			if (i+j+seed)%2 == 0 && t > 0 {
				n.Samples = append(n.Samples, logdb.Sample{TsNs: t, Line: `{"n":7,"v":3,"a":"x","lvl":"5"} lvl=5 msg=ok`, Type: logdb.TypeLog, Batch: j % 2})
			}
		}
		out.Series = append(out.Series, n)
	}
	return out
}

func withReorder(db logdb.DB, seed int) logdb.DB {
	out := logdb.DB{RowSeed: db.RowSeed + uint64(seed) + 1}
	for i, s := range db.Series {
		n := s
		n.Labels = append([]logdb.Label(nil), s.Labels...)
		// rotate / reverse the stored key order, differently per series
		if (i+seed)%2 == 0 {
			for a, b := 0, len(n.Labels)-1; a < b; a, b = a+1, b-1 {
				n.Labels[a], n.Labels[b] = n.Labels[b], n.Labels[a]
			}
		} else if len(n.Labels) > 1 {
			n.Labels = append(n.Labels[1:], n.Labels[0])
		}
		out.Series = append(out.Series, n)
	}
	return out
}

func runGot(c *MetricCase) (Got, *c07.Outcome, string, error) {
	out := c07.Run(&c.DB, c.req())
	reason, err := c07.Judge(&out, c.Q.String())
	if err != nil || reason != "" {
		return Got{}, &out, reason, err
	}
	return collectGot(&out), &out, "", nil
}

func predMeta(m MetaCase, o *evid.Obs) error {
	c := m.Base
	if err := c.DB.Validate(); err != nil {
		o.Discard("invalid-db")
		return nil
	}
	if c.StepMs <= 0 || c.Q.RangeNs() <= 0 {
		o.Discard("shape-outside-domain")
		return nil
	}
	ref, err := refeval.EvalMetricSQL(&c.Q, c.DB.Ref(), c.params())
	if err != nil {
		o.Discard("invalid-regex")
		return nil
	}
	for _, d := range ref.Flags.DontCare {
		if strings.Contains(d, "tie") {
			o.Discard("dontcare:" + d)
			return nil
		}
	}
	if thresholdSensitive(&c, &ref) {
		o.Discard("dontcare:value-within-1e-9-of-comparison-threshold")
		return nil
	}
	o.Tag("meta:" + m.Kind)
	TagMetric(o, &c)
	text := c.Q.String()

	switch m.Kind {
	case "reject-all":
		for _, s := range c.DB.Series {
			for _, sm := range s.Samples {
				if strings.Contains(sm.Line, neverText) {
					o.Discard("never-text-in-data")
					return nil
				}
			}
		}
		t := c
		t.Q = withRejectAll(c.Q, m.Seed)
		got, out, reason, err := runGot(&t)
		if err != nil {
			return err
		}
		if reason != "" {
			o.Discard(reason)
			return nil
		}
		if len(ref.Buckets) > 0 {
			o.NonTrivial() // the untransformed query has an answer to lose
		}
		if len(got.Series) > 0 {
			return fmt.Errorf("query with a stage that rejects every entry still answers:%s\nquery: %s\n(base query: %s)\nSQL: %s", fmtSeries(got.Series), t.Q.String(), text, out.SQL())
		}
		return nil
	case "outside", "reorder":
		base, _, reason, err := runGot(&c)
		if err != nil {
			// the differential check reports broken statements; here only the relation counts
			o.Discard("base-run-failed")
			return nil
		}
		if reason != "" {
			o.Discard(reason)
			return nil
		}
		t := c
		if m.Kind == "outside" {
			wf, wt := refeval.Window(c.params(), c.Q.RangeNs(), &refeval.Flags{})
			t.DB = withOutside(c.DB, wf, wt, c.Q.RangeNs(), m.Seed)
		} else {
			t.DB = withReorder(c.DB, m.Seed)
		}
		if err := t.DB.Validate(); err != nil {
			o.Discard("invalid-transformed-db")
			return nil
		}
		got, out, reason, err := runGot(&t)
		if err != nil {
			return fmt.Errorf("transformed (%s) run failed where the base run did not: %v", m.Kind, err)
		}
		if reason != "" {
			o.Discard(reason)
			return nil
		}
		if len(base.Series) > 0 {
			o.NonTrivial()
		}
		if base.EmptyDup || got.EmptyDup {
			o.Discard("dontcare:series-differ-only-in-empty-labels")
			return nil
		}
		if len(base.Dup) > 0 || len(got.Dup) > 0 {
			d := append(append([]string{}, base.Dup...), got.Dup...)
			return fmt.Errorf("label set %s came back as more than one output series\nquery: %s\nSQL: %s", d[0], text, out.SQL())
		}
		if err := compareSeries(base.Series, got.Series, tolOf(&c.Q)); err != nil {
			return fmt.Errorf("%s transformation changed the answer: %v\nquery: %s\nwindow [%d,%d) step %dms\nbase:%s\ntransformed:%s\nSQL: %s",
				m.Kind, err, text, c.W.FromNs(), c.W.ToNs(), c.StepMs, fmtSeries(base.Series), fmtSeries(got.Series), out.SQL())
		}
		return nil
	}
	o.Discard("unknown-kind")
	return nil
}

func addMeta(r *evid.Run) {
	evid.Add(r, evid.Prop[MetaCase]{Name: "meta", Quick: 1500, Thorough: 12000, Gen: genMeta, Pred: predMeta})
}

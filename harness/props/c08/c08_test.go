package c08

import (
	"testing"

	"qrynverif/evid"
)

var cfg = evid.Config{
		Level: "exploration",
		Rule:  "generated LogQL metric queries x small databases x window/step shapes; non-trivial: >= 2 output series or >= 2 range buckets in the reference, and at least one entry of the widened window excluded by selector or pipeline",
		Assumptions: []string{
			"chsim models the ClickHouse subset the planners emit (harness/chsim/README.md, Model assumptions)",
			"refeval.EvalMetricSQL: tumbling epoch-aligned range buckets, qryn's step handling (StepFix / ZeroEater / FixPeriod) modelled as specified in refeval/sqlconv_eval.go",
			"range durations are one integer and one unit (ns us ms s m h), as qryn's grammar takes them; windows are whole seconds; step > 0",
		},
}

func TestProp(t *testing.T) {
	r := evid.New(t, "C08", cfg)
	addMetric(r)
	addMeta(r)
	addBatch(r, 150, 500)
	r.Main()
}

// TestRace runs multi-batch cases under the race detector (the driver builds this binary
// with -race): one sub-test per case, so a race report is attributed to the case that ran.
func TestRace(t *testing.T) {
	raceT = t
	defer func() { raceT = nil }()
	r := evid.New(t, "C08", cfg)
	addBatch(r, 40, 100)
	r.Main()
}

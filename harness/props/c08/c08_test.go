package c08

import (
	"testing"

	"qrynverif/evid"
)

func TestProp(t *testing.T) {
	r := evid.New(t, "C08", evid.Config{
		Level: "exploration",
		Rule:  "generated LogQL metric queries x small databases x window/step shapes; non-trivial: >= 2 output series or >= 2 range buckets in the reference, and at least one entry of the widened window excluded by selector or pipeline",
		Assumptions: []string{
			"chsim models the ClickHouse subset the planners emit (harness/chsim/README.md, Model assumptions)",
			"refeval.EvalMetricSQL: tumbling epoch-aligned range buckets, qryn's step handling (StepFix / ZeroEater / FixPeriod) modelled as specified in refeval/sqlconv_eval.go",
			"range durations divide 24h (others: finding C09-range-grid-year-one); windows are whole seconds; step > 0",
		},
	})
	addMetric(r)
	addMeta(r)
	r.Main()
}

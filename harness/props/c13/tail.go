package c13

// tail.go: C13 on the tail chain (service/queryRangeService.go Tail): every second the
// watcher runs the LogQL plan over [start of tailing - 5 min, now) and pushes the entries.
// The window is defined by the wall clock, so the case stores offsets relative to "now" and
// the predicate places the samples with wide margins: inside = 5 s .. 3 min before now,
// poison = more than 5 min 5 s before now, one hour or more after now, and a metric twin
// (same label set, other signal) inside. The first message of the watcher must carry every
// inside entry and no poison entry. The wall clock only places data (margins >= 5 s; a case
// whose first tick takes longer than 30 s is discarded, never reported).

import (
	"context"
	"encoding/json"
	"fmt"
	"strconv"
	"time"

	"pgregory.net/rapid"

	"qrynverif/evid"
	"qrynverif/gen"
	"qrynverif/readersvc"
)

type tailCase struct {
	WZone   int     `json:"wzone"`
	RZone   int     `json:"rzone"`
	Cluster bool    `json:"cluster,omitempty"`
	Query   string  `json:"query"`
	Inside  []int64 `json:"inside_ms_before_now"`
	Before  []int64 `json:"before_ms_before_now"`
	After   []int64 `json:"after_ms_after_now"`
	Twin    []int64 `json:"twin_ms_before_now"`
	Ver     VerCfg  `json:"ver"`
}

func genTail(rt *rapid.T) tailCase {
	c := tailCase{
		WZone:   rapid.IntRange(0, 2).Draw(rt, "wzone"),
		RZone:   rapid.IntRange(0, 2).Draw(rt, "rzone"),
		Cluster: rapid.Bool().Draw(rt, "cluster"),
		Query:   logQueries[rapid.IntRange(0, 4).Draw(rt, "lq")],
	}
	c.Inside = rapid.SliceOfNDistinct(rapid.Int64Range(5_000, 180_000), 1, 4, rapid.ID[int64]).Draw(rt, "inside")
	c.Before = rapid.SliceOfNDistinct(rapid.Int64Range(305_000, 4*86400_000), 1, 3, rapid.ID[int64]).Draw(rt, "before")
	c.After = rapid.SliceOfNDistinct(rapid.Int64Range(3600_000, 4*86400_000), 0, 2, rapid.ID[int64]).Draw(rt, "after")
	c.Twin = rapid.SliceOfNDistinct(rapid.Int64Range(5_000, 180_000), 0, 2, rapid.ID[int64]).Draw(rt, "twin")
	c.Ver = genVer(rt)
	return c
}

func predTail(c tailCase, o *evid.Obs) error {
	restore := readersvc.Quiet()
	defer restore()
	now := time.Now().UnixNano()
	now -= now % nsMs
	lbl := []gen.Label{gen.L("app", "a"), gen.L("env", "x"), gen.L("sid", "s0")}
	s0 := Strm{Tag: "s0", Labels: lbl}
	used := tsSet{}
	want := map[int64]bool{}
	bad := map[int64]string{}
	for i, ms := range c.Inside {
		if ts := now - ms*nsMs + 1; used.add(ts) { // +1 ns: never collides with the twin's millisecond grid
			s0.Smps = append(s0.Smps, Smp{Ts: ts, M: fmt.Sprintf("m-in-%d", i)})
			want[ts] = true
		}
	}
	for i, ms := range c.Before {
		if ts := now - ms*nsMs + 1; used.add(ts) {
			s0.Smps = append(s0.Smps, Smp{Ts: ts, M: fmt.Sprintf("m-before-%d", i)})
			bad[ts] = "lies before the tail window (more than 5 minutes old)"
		}
	}
	for i, ms := range c.After {
		if ts := now + ms*nsMs + 1; used.add(ts) {
			s0.Smps = append(s0.Smps, Smp{Ts: ts, M: fmt.Sprintf("m-after-%d", i)})
			bad[ts] = "lies after the tail window (in the future)"
		}
	}
	streams := []Strm{s0}
	if len(c.Twin) > 0 {
		tw := Strm{Tag: "mtype", Labels: lbl, Metric: true}
		for i, ms := range c.Twin {
			if ts := now - ms*nsMs; used.add(ts) {
				tw.Smps = append(tw.Smps, Smp{Ts: ts, V: float64(1000 + i)})
				bad[ts] = "is a metric point (other signal)"
			}
		}
		streams = append(streams, tw)
	}
	store, err := buildLogStore(streams, c.WZone, nil)
	if err != nil {
		return err
	}
	o.Tag("wzone:"+zoneNames[c.WZone], "rzone:"+zoneNames[c.RZone])
	if c.Cluster {
		o.Tag("cluster")
	} else {
		o.Tag("single-node")
	}
	tw := Win{From: now - 300*nsSec, To: now}
	rd, be := newReader(store.db, c.Cluster, c.Ver, tw)
	o.Tag(c.Ver.tags(tw)...)
	defer rd.Close()
	var msg string
	var terr error
	var took time.Duration
	inZone(c.RZone, func() {
		ctx, cancel := context.WithCancel(context.Background())
		defer cancel()
		t0 := time.Now()
		watcher, err := rd.QueryRange.Tail(ctx, c.Query)
		if err != nil {
			terr = err
			return
		}
		select {
		case out, ok := <-watcher.GetRes():
			if ok {
				msg, terr = out.Str, out.Err
			} else {
				terr = fmt.Errorf("watcher closed without a message")
			}
		case <-time.After(60 * time.Second):
			terr = fmt.Errorf("no message within 60 s")
		}
		took = time.Since(t0)
		watcher.Close()
		cancel()
		// let the watcher goroutine finish (it closes the channel) before the zone is restored
		deadline := time.After(5 * time.Second)
		for done := false; !done; {
			select {
			case _, ok := <-watcher.GetRes():
				done = !ok
			case <-deadline:
				done = true
			}
		}
	})
	stmts := be.statements()
	if p := stmtProblem(stmts); p != "" {
		o.Discard(p)
		return nil
	}
	if took > 30*time.Second {
		o.Discard("tick-delayed")
		return nil
	}
	if terr != nil {
		return fmt.Errorf("tail %q: %v\n%s", c.Query, terr, sqlDump(stmts))
	}
	var doc struct {
		Streams []struct {
			Values [][]string `json:"values"`
		} `json:"streams"`
	}
	if err := json.Unmarshal([]byte(msg), &doc); err != nil {
		return fmt.Errorf("tail %q: message is not JSON (%v): %.300s", c.Query, err, msg)
	}
	got := map[int64]bool{}
	for _, s := range doc.Streams {
		for _, v := range s.Values {
			if len(v) == 2 {
				ts, _ := strconv.ParseInt(v[0], 10, 64)
				got[ts] = true
			}
		}
	}
	for ts := range want {
		if !got[ts] {
			return fmt.Errorf("tail %q started at %s misses the entry at %s (%d s old), which lies inside the last 5 minutes\n%s", c.Query, fmtTs(now), fmtTs(ts), (now-ts)/nsSec, sqlDump(stmts))
		}
		o.Tag("found-inside")
	}
	for ts, why := range bad {
		if got[ts] {
			return fmt.Errorf("tail %q started at %s delivers the sample at %s, which %s\n%s", c.Query, fmtTs(now), fmtTs(ts), why, sqlDump(stmts))
		}
		o.Tag("kept-out")
	}
	o.NonTrivial() // poison and inside entries always share stream s0
	// structural: only the statements of the first tick are judged against its window
	lim := limits{DataLo: now - 5*60*nsSec - 2*nsSec, DataHi: now + int64(took) + nsSec, Types: map[uint8]bool{1: true, 0: true}, IdxLo: dayOf(now-5*60*nsSec) - 1}
	first := stmts
	if len(first) > 1 {
		first = first[:1]
	}
	if err := checkScans(store.db, first, lim, o); err != nil {
		return fmt.Errorf("tail %q started at %s: %v", c.Query, fmtTs(now), err)
	}
	return nil
}

func addTail(r *evid.Run) {
	evid.Add(r, evid.Prop[tailCase]{Name: "tail", Quick: 5, Thorough: 10, Gen: genTail, Pred: predTail})
}

package c13

// logs.go: C13 on the LogQL endpoints (query_range, instant query): log-stream queries and
// metric queries (range aggregations over samples_v3 and the >= 15 s shortcut over
// metrics_15s), single-node and clustered table names, writer and reader zones independent.
//
// Contract read from the code and the Loki API: a log query returns the entries with
// from <= timestamp < to (reader/logql/.../planner_main_init.go: >= from, < to) of the
// streams the selector names, log signal only (GetTypes: type IN (1, 0)). A metric query
// reads the samples of the range buckets that enclose the window:
// [floor(from, range), floor(to, range) + range) (logql_transpiler_v2/planner_from_fix.go).
//
// Oracles:
//   (a) log queries: every sample carries a unique timestamp and marker line. Every sample
//       of a selected stream inside the window must be returned, no sample outside the
//       window and no sample of the metric signal may be returned. Poison / edge samples live
//       in the SAME streams (same fingerprint, same labels) as in-window samples, and in
//       streams of their own whose only index rows are the ones the real writer dates for
//       that one sample (so only the index date bound decides whether they are found).
//       Metric queries: metamorphic - the response on the full database equals the response
//       on the database without the poison samples.
//   (b) structural, from chsim's scan log: checkScans (common.go); plus every inside sample
//       is admitted by the scan of samples_v3 / its 15 s bucket by the scan of metrics_15s.

import (
	"context"
	"encoding/json"
	"fmt"
	"sort"
	"strconv"
	"strings"
	"time"

	"pgregory.net/rapid"

	"qrynverif/chsim"
	"qrynverif/evid"
	"qrynverif/gen"
	"qrynverif/readersvc"
)

type logsCase struct {
	Win     Win    `json:"win"`
	WZone   int    `json:"wzone"`
	RZone   int    `json:"rzone"`
	Cluster bool   `json:"cluster,omitempty"`
	Instant bool   `json:"instant,omitempty"`
	Query   string `json:"query"`
	RangeS  int64  `json:"range_s,omitempty"` // > 0: metric query with this range
	StepMs  int64  `json:"step_ms"`
	Forward bool   `json:"forward,omitempty"`
	Streams []Strm `json:"streams"`
	Ver     VerCfg `json:"ver"`
}

var logQueries = []string{
	`{app="a"}`,
	`{app="a", env="x"}`,
	`{app=~"a|zz"}`,
	`{app="a"} |= "m-"`,
	`{app="a", sid!="none"}`,
	`{app="a"} | env="x"`,
	`{app="a"} |~ "m-.+"`,
}

// %s = range
var metricQueries = []string{
	`count_over_time({app="a"}[%s])`,
	`rate({app="a"}[%s])`,
	`bytes_rate({app="a"}[%s])`,
	`sum by (app) (count_over_time({app="a"}[%s]))`,
	`count_over_time({app="a"} |= "m-" [%s])`,
	`sum(rate({app="a", env="x"}[%s])) by (env)`,
}

var rangesS = []int64{1, 5, 15, 30, 60, 300}

type tsSet map[int64]bool

func (s tsSet) add(ts int64) bool {
	if ts <= 0 || s[ts] {
		return false
	}
	s[ts] = true
	return true
}

// near returns an unused timestamp in [lo, hi] as close to ts as possible (multiples of
// step away), or 0 when there is none within 64 steps.
func (s tsSet) near(ts, step, lo, hi int64) int64 {
	for k := int64(0); k < 64; k++ {
		for _, c := range []int64{ts + k*step, ts - k*step} {
			if c >= lo && c <= hi && c > 0 && !s[c] {
				s[c] = true
				return c
			}
		}
	}
	return 0
}

// genLogStreams places samples relative to [lo, hi) (the window in ns).
func genLogStreams(rt *rapid.T, w Win) []Strm {
	used := tsSet{}
	mk := func(tag string, i int) string { return fmt.Sprintf("m-%s-%d", tag, i) }
	base := []gen.Label{gen.L("app", "a"), gen.L("env", "x"), gen.L("sid", "s0")}
	some := func(name string) bool { return rapid.IntRange(0, 9).Draw(rt, name) < 7 }

	s0 := Strm{Tag: "s0", Labels: base}
	addTo := func(s *Strm, ts int64) {
		if used.add(ts) {
			s.Smps = append(s.Smps, Smp{Ts: ts, M: mk(s.Tag, len(s.Smps))})
		}
	}
	n := rapid.IntRange(1, 3).Draw(rt, "ninside")
	for i := 0; i < n; i++ {
		addTo(&s0, r64(rt, w.From, w.To-1, "inside"))
	}
	if some("at-from") {
		addTo(&s0, w.From)
	}
	if some("at-to-1") {
		addTo(&s0, w.To-1)
	}
	if some("from-1") {
		addTo(&s0, w.From-1)
	}
	if some("at-to") {
		addTo(&s0, w.To)
	}
	if f := w.From % nsSec; f > 0 && some("same-sec-before") {
		addTo(&s0, w.From-r64(rt, 1, f, "ssb"))
	}
	if f := w.To % nsSec; f > 0 && some("same-sec-after") {
		addTo(&s0, w.To+r64(rt, 0, nsSec-f-1, "ssa"))
	}
	if some("near-before") {
		addTo(&s0, w.From-r64(rt, 1, 3600*nsSec, "nb"))
	}
	if some("near-after") {
		addTo(&s0, w.To+r64(rt, 0, 3600*nsSec, "na"))
	}
	if some("far-before") {
		addTo(&s0, w.From-3*nsDay-r64(rt, 0, nsDay, "fb"))
	}
	if some("far-after") {
		addTo(&s0, w.To+3*nsDay+r64(rt, 0, nsDay, "fa"))
	}
	out := []Strm{s0}

	lbl := func(sid string) []gen.Label {
		return []gen.Label{gen.L("app", "a"), gen.L("env", "x"), gen.L("sid", sid)}
	}
	if some("elo") {
		s := Strm{Tag: "elo", Labels: lbl("elo")}
		if ts := used.near(w.From+r64(rt, 0, min64(w.To-w.From-1, 5*nsSec), "eloOff"), 1, w.From, w.To-1); ts > 0 {
			s.Smps = append(s.Smps, Smp{Ts: ts, M: mk(s.Tag, 0)})
		}
		if len(s.Smps) > 0 {
			out = append(out, s)
		}
	}
	if some("ehi") {
		s := Strm{Tag: "ehi", Labels: lbl("ehi")}
		if ts := used.near(w.To-1-r64(rt, 0, min64(w.To-w.From-1, 5*nsSec), "ehiOff"), 1, w.From, w.To-1); ts > 0 {
			s.Smps = append(s.Smps, Smp{Ts: ts, M: mk(s.Tag, 0)})
		}
		if len(s.Smps) > 0 {
			out = append(out, s)
		}
	}
	if m, ok := w.middleDay(); ok {
		// a stream that exists only on a middle day of a window touching three or more UTC days
		s := Strm{Tag: "mid", Labels: lbl("mid")}
		if ts := used.near(m+r64(rt, 0, 3600, "midOff")*nsSec, 1, w.From, w.To-1); ts > 0 {
			s.Smps = append(s.Smps, Smp{Ts: ts, M: mk(s.Tag, 0)})
			out = append(out, s)
		}
	}
	if some("pnear") {
		s := Strm{Tag: "pnear", Labels: lbl("pnear")}
		addTo(&s, w.From-1-r64(rt, 0, 60*nsSec, "pnb"))
		addTo(&s, w.To+r64(rt, 0, 60*nsSec, "pna"))
		out = append(out, s)
	}
	if some("pfar") {
		s := Strm{Tag: "pfar", Labels: lbl("pfar")}
		addTo(&s, w.From-3*nsDay-r64(rt, 0, nsDay, "pfb"))
		addTo(&s, w.To+3*nsDay+r64(rt, 0, nsDay, "pfa"))
		out = append(out, s)
	}
	if some("decoy") {
		s := Strm{Tag: "decoy", Labels: []gen.Label{gen.L("app", "b"), gen.L("env", "x"), gen.L("sid", "decoy")}}
		if ts := used.near(r64(rt, w.From, w.To-1, "decoyTs"), 1, w.From, w.To-1); ts > 0 {
			s.Smps = append(s.Smps, Smp{Ts: ts, M: mk(s.Tag, 0)})
			out = append(out, s)
		}
	}
	// the other signal: a metric series with the label set of s0 (one fingerprint for both)
	// whose points lie inside the window (remote write: millisecond timestamps)
	if some("mtype") {
		s := Strm{Tag: "mtype", Labels: base, Metric: true}
		lo, hi := (w.From+nsMs-1)/nsMs, (w.To-1)/nsMs
		if hi >= lo {
			k := rapid.IntRange(1, 2).Draw(rt, "nmetric")
			for i := 0; i < k; i++ {
				if ts := used.near(r64(rt, lo, hi, "mts")*nsMs, nsMs, lo*nsMs, hi*nsMs); ts > 0 {
					s.Smps = append(s.Smps, Smp{Ts: ts, V: float64(1000 + i)})
				}
			}
		}
		if len(s.Smps) > 0 {
			out = append(out, s)
		}
	}
	return out
}

func min64(a, b int64) int64 {
	if a < b {
		return a
	}
	return b
}

func genLogs(rt *rapid.T) logsCase {
	c := logsCase{
		WZone:   rapid.IntRange(0, 2).Draw(rt, "wzone"),
		RZone:   rapid.IntRange(0, 2).Draw(rt, "rzone"),
		Cluster: rapid.Bool().Draw(rt, "cluster"),
		Forward: rapid.Bool().Draw(rt, "forward"),
		StepMs:  1000,
	}
	metric := rapid.IntRange(0, 2).Draw(rt, "metric") == 0
	c.Instant = rapid.IntRange(0, 5).Draw(rt, "instant") == 0
	if c.Instant {
		// QueryInstant: window = [time-300 s, time) (service/queryRangeService.go QueryInstant)
		w := genWin(rt, 1)
		c.Win = Win{From: w.To - 300*nsSec, To: w.To, Kind: "instant/" + w.Kind}
	} else {
		c.Win = genWin(rt, 1)
	}
	if metric {
		c.RangeS = rangesS[rapid.IntRange(0, len(rangesS)-1).Draw(rt, "range")]
		c.Query = fmt.Sprintf(metricQueries[rapid.IntRange(0, len(metricQueries)-1).Draw(rt, "mq")], fmt.Sprintf("%ds", c.RangeS))
		step := []int64{1, 5, 15, 60}[rapid.IntRange(0, 3).Draw(rt, "step")]
		// keep the number of steps bounded (Loki caps it too); whole seconds
		if need := (c.Win.To-c.Win.From)/nsSec/1500 + 1; step < need {
			step = need
		}
		c.StepMs = step * 1000
	} else {
		c.Query = logQueries[rapid.IntRange(0, len(logQueries)-1).Draw(rt, "lq")]
	}
	c.Streams = genLogStreams(rt, c.Win)
	if metric && rapid.IntRange(0, 2).Draw(rt, "emptyFirstBucket") == 0 {
		// the first range bucket of the (bucket-widened) window holds nothing while the bucket
		// just before it holds entries: the first point of the answer must not be computed from
		// those (FixPeriodPlanner would put a bucket starting less than one step before `from`
		// into slot 0 - only the lower timestamp bound of the statement keeps it away)
		d := c.RangeS * nsSec
		lo := floorTo(c.Win.From, d)
		used := tsSet{}
		for i := range c.Streams {
			var keep []Smp
			for _, sm := range c.Streams[i].Smps {
				if sm.Ts >= lo && sm.Ts < lo+d {
					continue
				}
				keep = append(keep, sm)
				used[sm.Ts] = true
			}
			c.Streams[i].Smps = keep
		}
		s0 := &c.Streams[0]
		for i, ts := range []int64{lo - 1, lo - r64(rt, 1, d, "justBefore"), lo - d} {
			if ts = used.near(ts, 1, lo-d, lo-1); ts > 0 {
				s0.Smps = append(s0.Smps, Smp{Ts: ts, M: fmt.Sprintf("m-s0-jb%d", i)})
			}
		}
		var nonEmpty []Strm
		for _, st := range c.Streams {
			if len(st.Smps) > 0 {
				nonEmpty = append(nonEmpty, st)
			}
		}
		c.Streams = nonEmpty
	}
	c.Ver = genVer(rt)
	return c
}

// selectedBy: every query of the lists above selects exactly the log streams with app="a"
// (all of which carry env="x", a sid other than "none" and lines starting with "m-").
func selectedLog(s *Strm) bool {
	if s.Metric {
		return false
	}
	for _, l := range s.Labels {
		if string(l.Name) == "app" && string(l.Value) == "a" {
			return true
		}
	}
	return false
}

// runQueryRange calls the real service and returns the response document.
func runLogQuery(rd *readersvc.Reader, c *logsCase) (string, error) {
	ctx, cancel := context.WithTimeout(context.Background(), 60*time.Second)
	defer cancel()
	var sb strings.Builder
	var qerr error
	if c.Instant {
		ch, err := rd.QueryRange.QueryInstant(ctx, c.Query, c.Win.To, c.StepMs, 1000)
		if err != nil {
			return "", err
		}
		for o := range ch {
			sb.WriteString(o.Str)
			if o.Err != nil && qerr == nil {
				qerr = o.Err
			}
		}
	} else {
		ch, err := rd.QueryRange.QueryRange(ctx, c.Query, c.Win.From, c.Win.To, c.StepMs, 1000, c.Forward)
		if err != nil {
			return "", err
		}
		for o := range ch {
			sb.WriteString(o.Str)
			if o.Err != nil && qerr == nil {
				qerr = o.Err
			}
		}
	}
	return sb.String(), qerr
}

type lokiResp struct {
	Status string `json:"status"`
	Data   struct {
		ResultType string `json:"resultType"`
		Result     []struct {
			Stream map[string]string `json:"stream"`
			Metric map[string]string `json:"metric"`
			Values [][]any           `json:"values"`
			Value  []any             `json:"value"`
		} `json:"result"`
	} `json:"data"`
}

// canonMatrix renders a matrix / vector response order-independently.
func canonMatrix(r *lokiResp) string {
	var series []string
	for _, s := range r.Data.Result {
		series = append(series, canonJSON(s.Metric)+" "+canonJSON(s.Values)+" "+canonJSON(s.Value))
	}
	sort.Strings(series)
	return r.Data.ResultType + "\n" + strings.Join(series, "\n")
}

func floorTo(x, d int64) int64 { return x / d * d }

func predLogs(c logsCase, o *evid.Obs) error {
	restore := readersvc.Quiet()
	defer restore()
	w := c.Win
	metric := c.RangeS > 0
	// admissible data range of the request
	lo, hi := w.From, w.To-1
	if metric {
		d := c.RangeS * nsSec
		lo, hi = floorTo(w.From, d), floorTo(w.To, d)+d-1
	}
	inside := func(ts int64) bool { return ts >= w.From && ts < w.To }
	poison := func(s *Strm, sm Smp) bool { return s.Metric || sm.Ts < lo || sm.Ts > hi }

	full, err := buildLogStore(c.Streams, c.WZone, nil)
	if err != nil {
		return err
	}
	o.Tag(w.tags()...)
	o.Tag("wzone:"+zoneNames[c.WZone], "rzone:"+zoneNames[c.RZone])
	if c.Cluster {
		o.Tag("cluster")
	} else {
		o.Tag("single-node")
	}
	kind := "log-query"
	if metric {
		kind = "metric-query"
	}
	if c.Instant {
		kind += "/instant"
	}
	o.Tag(kind)
	o.Tag(c.Ver.tags(w, "v5", "v3_1")...)

	run := func(st *logStore) (string, []stmtRec, error) {
		rd, be := newReader(st.db, c.Cluster, c.Ver, w)
		defer rd.Close()
		var doc string
		var qerr error
		inZone(c.RZone, func() { doc, qerr = runLogQuery(rd, &c) })
		return doc, be.statements(), qerr
	}
	doc, stmts, qerr := run(full)
	if p := stmtProblem(stmts); p != "" {
		o.Discard(p)
		return nil
	}
	if qerr != nil {
		return fmt.Errorf("query %q failed: %v\n%s", c.Query, qerr, sqlDump(stmts))
	}
	var resp lokiResp
	if err := json.Unmarshal([]byte(doc), &resp); err != nil {
		return fmt.Errorf("response of %q is not JSON (%v): %.300s", c.Query, err, doc)
	}

	// non-trivial: poison and inside samples share a fingerprint (stream s0 or the metric twin)
	var s0in, s0out, twin bool
	for i := range c.Streams {
		s := &c.Streams[i]
		for _, sm := range s.Smps {
			switch {
			case s.Tag == "s0" && inside(sm.Ts):
				s0in = true
			case s.Tag == "s0" && poison(s, sm):
				s0out = true
			case s.Tag == "mtype":
				twin = true
			}
		}
	}
	if s0, mt := full.stream("s0"), full.stream("mtype"); twin && s0 != nil && mt != nil && s0.fp == mt.fp {
		o.Tag("other-signal-shares-fingerprint")
	} else {
		twin = false
	}
	if s0in && (s0out || twin) {
		o.NonTrivial()
	}
	if metric {
		d := c.RangeS * nsSec
		first, before := false, false
		for i := range c.Streams {
			for _, sm := range c.Streams[i].Smps {
				if selectedLog(&c.Streams[i]) && sm.Ts >= lo && sm.Ts < lo+d {
					first = true
				}
				if selectedLog(&c.Streams[i]) && sm.Ts >= lo-d && sm.Ts < lo {
					before = true
				}
			}
		}
		if !first && before {
			o.Tag("first-range-bucket-empty,entries-in-bucket-just-before")
			o.NonTrivial()
		}
	}

	describe := func(bs *builtStream) string {
		var ds []string
		for d := range bs.dates {
			ds = append(ds, dateStr(d))
		}
		sort.Strings(ds)
		return fmt.Sprintf("stream %s (fingerprint %d, type %d, index rows dated %v by the writer in zone %s)", bs.spec.Tag, bs.fp, bs.tp, ds, zoneNames[c.WZone])
	}

	// ---- (b) structural
	lim := limits{DataLo: lo, DataHi: hi, Types: map[uint8]bool{1: true, 0: true}, IdxLo: dayOf(w.From) - 1}
	if err := checkScans(full.db, stmts, lim, o); err != nil {
		return fmt.Errorf("%s %q window [%s, %s) reader zone %s cluster=%v: %v", kind, c.Query, fmtTs(w.From), fmtTs(w.To), zoneNames[c.RZone], c.Cluster, err)
	}

	if !metric {
		// ---- (a) log query: markers
		got := map[int64]string{}
		for _, s := range resp.Data.Result {
			for _, v := range s.Values {
				if len(v) != 2 {
					continue
				}
				tsStr, _ := v[0].(string)
				ts, err := strconv.ParseInt(tsStr, 10, 64)
				if err != nil {
					return fmt.Errorf("unparsable timestamp %v in response", v[0])
				}
				line, _ := v[1].(string)
				got[ts] = line
			}
		}
		for i := range full.streams {
			bs := &full.streams[i]
			for _, sm := range bs.spec.Smps {
				_, returned := got[sm.Ts]
				switch {
				case selectedLog(bs.spec) && inside(sm.Ts):
					if !returned {
						return fmt.Errorf("log query %q window [%s, %s) (reader zone %s, cluster=%v) misses the entry at %s (line %q) of %s, which lies inside the window\n%s",
							c.Query, fmtTs(w.From), fmtTs(w.To), zoneNames[c.RZone], c.Cluster, fmtTs(sm.Ts), sm.M, describe(bs), sqlDump(stmts))
					}
					o.Tag("found-inside")
					if bs.spec.Tag == "mid" {
						o.Tag("middle-day-only:found")
					}
				case returned:
					why := "lies outside the window"
					if bs.spec.Metric {
						why = "is a metric point (other signal)"
					} else if !selectedLog(bs.spec) {
						why = "belongs to a stream the selector does not name"
					}
					return fmt.Errorf("log query %q window [%s, %s) (reader zone %s, cluster=%v) returns the sample at %s (%q) of %s, which %s\n%s",
						c.Query, fmtTs(w.From), fmtTs(w.To), zoneNames[c.RZone], c.Cluster, fmtTs(sm.Ts), got[sm.Ts], describe(bs), why, sqlDump(stmts))
				default:
					o.Tag("kept-out")
				}
			}
		}
		return nil
	}

	// ---- (a) metric query: metamorphic, full database vs database without poison
	clean, err := buildLogStore(c.Streams, c.WZone, func(s *Strm, sm Smp) bool { return !poison(s, sm) })
	if err != nil {
		return err
	}
	doc2, stmts2, qerr2 := run(clean)
	if p := stmtProblem(stmts2); p != "" {
		o.Discard(p)
		return nil
	}
	if qerr2 != nil {
		return fmt.Errorf("query %q failed on the poison-free database: %v", c.Query, qerr2)
	}
	var resp2 lokiResp
	if err := json.Unmarshal([]byte(doc2), &resp2); err != nil {
		return fmt.Errorf("response of %q is not JSON (%v): %.300s", c.Query, err, doc2)
	}
	if a, b := canonMatrix(&resp), canonMatrix(&resp2); a != b {
		return fmt.Errorf("metric query %q window [%s, %s) step %d ms (reader zone %s, cluster=%v): the response changes when samples outside [%s, %s] / of the metric signal are added\n with poison: %.600s\n without:     %.600s\n%s",
			c.Query, fmtTs(w.From), fmtTs(w.To), c.StepMs, zoneNames[c.RZone], c.Cluster, fmtTs(lo), fmtTs(hi), a, b, sqlDump(stmts))
	}
	if len(resp.Data.Result) > 0 {
		o.Tag("metric-result-nonempty")
	}
	// inside samples must be admitted by the data scan
	use15 := scanned(stmts, "metrics_15s")
	if use15 {
		o.Tag("metrics_15s-shortcut")
	}
	for i := range full.streams {
		bs := &full.streams[i]
		if !selectedLog(bs.spec) {
			continue
		}
		for _, sm := range bs.spec.Smps {
			if !inside(sm.Ts) {
				continue
			}
			ok := false
			if use15 {
				b := floorTo(sm.Ts, 15*nsSec)
				ok = admitted(full.db, stmts, "metrics_15s", func(row []any) bool {
					return row[0].(uint64) == bs.fp && row[1].(int64) == b && row[8].(uint8) == bs.tp
				})
			} else {
				ok = admitted(full.db, stmts, "samples_v3", func(row []any) bool {
					return row[0].(uint64) == bs.fp && row[1].(int64) == sm.Ts
				})
			}
			if !ok {
				return fmt.Errorf("metric query %q window [%s, %s) (reader zone %s, cluster=%v): the sample at %s of %s lies inside the window but no scan of the sample tables admits it\n%s",
					c.Query, fmtTs(w.From), fmtTs(w.To), zoneNames[c.RZone], c.Cluster, fmtTs(sm.Ts), describe(bs), sqlDump(stmts))
			}
			o.Tag("found-inside")
		}
	}
	return nil
}

var _ = chsim.Date(0)

func addLogs(r *evid.Run) {
	evid.Add(r, evid.Prop[logsCase]{Name: "logs", Quick: 800, Thorough: 4000, Gen: genLogs, Pred: predLogs})
}

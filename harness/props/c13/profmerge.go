package c13

// profmerge.go: C13 on the profile selects that read the profiles themselves:
//   ProfService.MergeStackTraces (SelectMergeStacktraces)  - prof/transpiler/planner_merge_raw.go:  from <= t <  to
//   ProfService.MergeProfiles    (SelectMergeProfile)      - planner_merge_profiles.go:             from <= t <= to
//   GET /pyroscope/render-diff   (controller + ProfService.RenderDiff): TWO reads of the first
//     kind, each side with its OWN window leftFrom/leftUntil and rightFrom/rightUntil (the
//     controller cuts the millisecond parameters to whole seconds).
// The instant `to` is don't-care everywhere.
//
// Every stored profile i has one stack whose weight is 2^i (tree total, values_agg and the
// pprof payload's sample value), so a merged total - Flamegraph.Total, the sum of the merged
// profile's sample values, leftTicks / rightTicks - is a bit set telling exactly which
// profiles were read. Oracle (a): the bits of all profiles inside the window of THAT side
// are set, no bit of a profile outside it is. For render-diff the two windows are drawn
// disjoint, nested or overlapping, and profiles are placed relative to both, so a profile
// inside one window and outside the other tells the four time parameters apart.
// Oracle (b): checkScans on the statement(s) of each side against that side's window.
// Series of their own at the inside edges (elo / ehi) are only found if the index date
// range covers the window; a series dated days away (pfb / pfa) must stay out.

import (
	"context"
	"encoding/json"
	"fmt"
	"net/url"
	"strings"
	"time"

	rprof "github.com/metrico/qryn/reader/prof"
	"google.golang.org/protobuf/proto"
	"pgregory.net/rapid"

	"qrynverif/evid"
	"qrynverif/readersvc"
)

type profMergeCase struct {
	Endpoint string  `json:"endpoint"`
	Win      Win     `json:"win"`             // the window (left side for render-diff)
	Right    Win     `json:"right,omitempty"` // render-diff: the right side's window
	Relation string  `json:"relation,omitempty"`
	RZone    int     `json:"rzone"`
	Cluster  bool    `json:"cluster,omitempty"`
	Profiles []PProf `json:"profiles"`
	Ver      VerCfg  `json:"ver"`
}

func pprofPayload(w, ts int64) string {
	p := &rprof.Profile{
		StringTable: []string{"", "cpu", "nanoseconds", "main", "main.go"},
		SampleType:  []*rprof.ValueType{{Type: 1, Unit: 2}},
		PeriodType:  &rprof.ValueType{Type: 1, Unit: 2},
		Period:      1,
		Mapping:     []*rprof.Mapping{{Id: 1, Filename: 4, HasFunctions: true}},
		Function:    []*rprof.Function{{Id: 1, Name: 3, SystemName: 3, Filename: 4}},
		Location:    []*rprof.Location{{Id: 1, MappingId: 1, Line: []*rprof.Line{{FunctionId: 1, Line: 1}}}},
		Sample:      []*rprof.Sample{{LocationId: []uint64{1}, Value: []int64{w}}},
		TimeNanos:   ts, DurationNanos: 1000,
	}
	b, err := proto.Marshal(p)
	if err != nil {
		panic(err)
	}
	return string(b)
}

var profMergeEndpoints = []string{"merge-stacktraces", "merge-profiles", "render-diff", "render-diff"}

func genProfMerge(rt *rapid.T) profMergeCase {
	c := profMergeCase{
		RZone:    rapid.IntRange(0, 2).Draw(rt, "rzone"),
		Cluster:  rapid.Bool().Draw(rt, "cluster"),
		Endpoint: profMergeEndpoints[rapid.IntRange(0, len(profMergeEndpoints)-1).Draw(rt, "endpoint")],
	}
	wins := []Win{}
	if c.Endpoint == "render-diff" {
		l := genWin(rt, nsSec)
		if l.To-l.From < 4*nsSec {
			l.To = l.From + 4*nsSec
		}
		c.Win = l
		length := l.To - l.From
		c.Relation = []string{"disjoint-after", "disjoint-before", "nested", "containing", "overlap-right", "overlap-left", "same"}[rapid.IntRange(0, 6).Draw(rt, "relation")]
		sec := func(name string, lo, hi int64) int64 { return r64(rt, lo, hi, name) * nsSec }
		var r Win
		switch c.Relation {
		case "disjoint-after":
			r.From = l.To + sec("gap", 0, 6*3600)
			r.To = r.From + sec("rlen", 2, 3*3600)
		case "disjoint-before":
			r.To = l.From - sec("gap", 0, 6*3600)
			r.From = r.To - sec("rlen", 2, 3*3600)
		case "nested":
			r.From = l.From + sec("in1", 1, length/nsSec/2)
			r.To = l.To - sec("in2", 1, (l.To-r.From)/nsSec-1)
		case "containing":
			r.From = l.From - sec("out1", 1, 3*3600)
			r.To = l.To + sec("out2", 1, 3*3600)
		case "overlap-right":
			r.From = l.From + sec("in1", 1, length/nsSec-1)
			r.To = l.To + sec("out2", 1, 3*3600)
		case "overlap-left":
			r.From = l.From - sec("out1", 1, 3*3600)
			r.To = l.To - sec("in2", 1, length/nsSec-1)
		default:
			r = l
		}
		if r.To <= r.From {
			r.To = r.From + 2*nsSec
		}
		r.Kind = c.Relation
		c.Right = r
		wins = []Win{l, r}
	} else {
		c.Win = genWin(rt, nsMs)
		wins = []Win{c.Win}
	}
	used := tsSet{}
	far := int64(1) << 62
	add := func(sid string, ts, lo, hi int64) {
		if len(c.Profiles) >= 40 {
			return
		}
		ts -= ts % nsMs
		if lo < 1 {
			lo = 1
		}
		if ts = used.near(ts, nsMs, lo, hi); ts > 0 {
			c.Profiles = append(c.Profiles, PProf{Sid: sid, Ts: ts, W: int64(1) << uint(len(c.Profiles))})
		}
	}
	some := func(name string, pct int) bool { return rapid.IntRange(0, 99).Draw(rt, name) < pct }
	for k, w := range wins {
		tag := func(s string) string { return fmt.Sprintf("%s%d", s, k) }
		inLo, inHi := w.From, w.To-nsMs
		add("s0", r64(rt, inLo, inHi, "inside"), inLo, inHi)
		if some("inside2", 50) {
			add("s0", r64(rt, inLo, inHi, "inside2"), inLo, inHi)
		}
		if some("at-from", 60) {
			add("s0", w.From, inLo, inHi)
		}
		if some("to-1", 60) {
			add("s0", inHi, inLo, inHi)
		}
		if some("at-to", 40) {
			add("s0", w.To, w.To, w.To)
		}
		if some("from-1", 60) {
			add("s0", w.From-nsMs, 1, w.From-nsMs)
		}
		if some("to+1", 60) {
			add("s0", w.To+nsMs, w.To+nsMs, far)
		}
		if some("hours-before", 50) {
			add("s0", w.From-r64(rt, 60, 10*3600, "hb")*nsSec, 1, w.From-nsMs)
		}
		if some("hours-after", 50) {
			add("s0", w.To+r64(rt, 60, 10*3600, "ha")*nsSec, w.To+nsMs, far)
		}
		if some("days-before", 30) {
			add("s0", w.From-3*nsDay-r64(rt, 0, 86399, "db")*nsSec, 1, w.From-nsMs)
		}
		if some("days-after", 30) {
			add("s0", w.To+3*nsDay+r64(rt, 0, 86399, "da")*nsSec, w.To+nsMs, far)
		}
		if some("elo", 50) {
			add(tag("elo"), w.From+r64(rt, 0, 3000, "eloOff")*nsMs, inLo, inHi)
		}
		if some("ehi", 50) {
			add(tag("ehi"), inHi-r64(rt, 0, 3000, "ehiOff")*nsMs, inLo, inHi)
		}
		if m, ok := w.middleDay(); ok {
			add(tag("mid"), m+r64(rt, 0, 3600, "midOff")*nsSec, inLo, inHi)
		}
		if some("pfb", 35) {
			add(tag("pfb"), int64(dayOf(w.From)-1)*nsDay-nsMs-r64(rt, 0, 2*86400, "pfb")*nsSec, 1, w.From-nsMs)
		}
		if some("pfa", 35) {
			add(tag("pfa"), int64(dayOf(w.To)+2)*nsDay+r64(rt, 0, 2*86400, "pfa")*nsSec, w.To+nsMs, far)
		}
	}
	c.Ver = genVer(rt)
	return c
}

const profTypeID5 = profTypeID + ":cpu:nanoseconds"

func predProfMerge(c profMergeCase, o *evid.Obs) error {
	restore := readersvc.Quiet()
	defer restore()
	st := buildProfStore(c.Profiles, nil)
	o.Tag("rzone:"+zoneNames[c.RZone], "endpoint:"+c.Endpoint)
	o.Tag(c.Win.tags()...)
	if c.Cluster {
		o.Tag("cluster")
	} else {
		o.Tag("single-node")
	}
	o.Tag(c.Ver.tags(c.Win, "profiles_v2")...)
	rd, be := newReader(st.db, c.Cluster, c.Ver, c.Win)
	defer rd.Close()

	type side struct {
		name  string
		w     Win
		total int64
	}
	sides := []side{{name: "", w: c.Win}}
	var qerr error
	sel := `{app="a"}`
	inZone(c.RZone, func() {
		ctx := context.Background()
		start, end := time.UnixMilli(c.Win.From/nsMs), time.UnixMilli(c.Win.To/nsMs)
		switch c.Endpoint {
		case "merge-stacktraces":
			res, err := rd.Prof.MergeStackTraces(ctx, sel, profTypeID5, start, end)
			if err != nil {
				qerr = err
				return
			}
			sides[0].total = res.Flamegraph.GetTotal()
		case "merge-profiles":
			res, err := rd.Prof.MergeProfiles(ctx, sel, profTypeID5, start, end)
			if err != nil {
				qerr = err
				return
			}
			if res != nil {
				for _, s := range res.Sample {
					if len(s.Value) > 0 {
						sides[0].total += s.Value[0]
					}
				}
			}
		case "render-diff":
			sides = []side{{name: "left", w: c.Win}, {name: "right", w: c.Right}}
			q := url.Values{}
			q.Set("leftQuery", profTypeID5+sel)
			q.Set("rightQuery", profTypeID5+sel)
			q.Set("leftFrom", fmt.Sprint(c.Win.From/nsMs))
			q.Set("leftUntil", fmt.Sprint(c.Win.To/nsMs))
			q.Set("rightFrom", fmt.Sprint(c.Right.From/nsMs))
			q.Set("rightUntil", fmt.Sprint(c.Right.To/nsMs))
			resp := rd.Get("/pyroscope/render-diff?" + q.Encode())
			if resp.Code != 200 {
				qerr = fmt.Errorf("HTTP %d %.300s", resp.Code, resp.Body)
				return
			}
			var doc struct {
				LeftTicks  int64 `json:"leftTicks"`
				RightTicks int64 `json:"rightTicks"`
			}
			if err := json.Unmarshal(resp.Body, &doc); err != nil {
				qerr = fmt.Errorf("response is not JSON: %v: %.300s", err, resp.Body)
				return
			}
			sides[0].total, sides[1].total = doc.LeftTicks, doc.RightTicks
		}
	})
	stmts := be.statements()
	if p := stmtProblem(stmts); p != "" {
		o.Discard(p)
		return nil
	}
	ctxs := fmt.Sprintf("profile %s reader zone %s cluster=%v", c.Endpoint, zoneNames[c.RZone], c.Cluster)
	if c.Endpoint == "render-diff" {
		o.Tag("relation:" + c.Relation)
		ctxs += fmt.Sprintf(" left [%s, %s) right [%s, %s) (%s)", fmtTs(c.Win.From), fmtTs(c.Win.To), fmtTs(c.Right.From), fmtTs(c.Right.To), c.Relation)
	} else {
		ctxs += fmt.Sprintf(" window [%s, %s)", fmtTs(c.Win.From), fmtTs(c.Win.To))
	}
	if qerr != nil {
		return fmt.Errorf("%s failed: %v\n%s", ctxs, qerr, sqlDump(stmts))
	}
	nt := false
	for _, sd := range sides {
		w := sd.w
		var sawIn, sawOut bool
		for i, p := range c.Profiles {
			bit := sd.total&p.W != 0
			what := fmt.Sprintf("profile #%d of series %s at %s (weight %d)", i, p.Sid, fmtTs(p.Ts), p.W)
			switch {
			case p.Ts >= w.From && p.Ts < w.To:
				if !bit {
					return fmt.Errorf("%s: the %s total %d lacks %s, which lies inside that side's window [%s, %s)\n%s", ctxs, sd.name, sd.total, what, fmtTs(w.From), fmtTs(w.To), sqlDump(stmts))
				}
				o.Tag("found-inside")
				if strings.HasPrefix(p.Sid, "mid") {
					o.Tag("middle-day-only:found")
				}
				sawIn = sawIn || p.Sid == "s0"
			case p.Ts < w.From || p.Ts > w.To:
				if bit {
					return fmt.Errorf("%s: the %s total %d contains %s, which lies outside that side's window [%s, %s)\n%s", ctxs, sd.name, sd.total, what, fmtTs(w.From), fmtTs(w.To), sqlDump(stmts))
				}
				o.Tag("kept-out")
				sawOut = sawOut || p.Sid == "s0"
			default:
				o.Tag("dont-care")
			}
		}
		var sum int64
		for _, p := range c.Profiles {
			sum |= p.W
		}
		if sd.total&^sum != 0 {
			return fmt.Errorf("%s: the %s total %d is not a sum of stored profile weights (a profile counted twice?)\n%s", ctxs, sd.name, sd.total, sqlDump(stmts))
		}
		nt = nt || (sawIn && sawOut)
	}
	if nt {
		o.NonTrivial()
	}
	// (b) structural: the statements of each side against that side's window
	if len(stmts) != len(sides) {
		return fmt.Errorf("harness: %d statements for %d reads\n%s", len(stmts), len(sides), sqlDump(stmts))
	}
	for k, sd := range sides {
		lim := limits{DataLo: sd.w.From, DataHi: sd.w.To, IdxLo: dayOf(sd.w.From) - 1, IdxHi: dayOf(sd.w.To) + 1, CheckIdxHi: true}
		if err := checkScans(st.db, stmts[k:k+1], lim, o); err != nil {
			return fmt.Errorf("%s: %s read: %v", ctxs, sd.name, err)
		}
	}
	return nil
}

func addProfMerge(r *evid.Run) {
	evid.Add(r, evid.Prop[profMergeCase]{Name: "prof-merge", Quick: 500, Thorough: 3000, Gen: genProfMerge, Pred: predProfMerge})
}

package c13

// portions.go: C13 on TraceQL's per-portion path (traceql/transpiler/complex_request_processor.go),
// reached through the real HTTP route like `traces`, with the answer to the
// complexity-evaluation statement scripted above the threshold so that >= 3 portions run.
// From the second portion on the attribute-index read is `window AND (hash(trace_id) % n = i
// OR trace_id IN <ids found by earlier portions>)` (clickhouse_transpiler/attr_condition.go):
// the cached traces must be re-read INSIDE the window only.
//
// Data: several traces matching the selector, each with one or two spans inside the window
// (some exactly at `from` / `to - 1 ns`) and, in the SAME trace, poison spans one ns outside,
// hours outside on the window's own UTC days, and days outside. With more traces than
// portions and an order-insensitive hash, early portions find traces whose ids are cached
// for the later ones. Oracle as in traces.go: no span outside [from, to) in any spanSet,
// every inside span found (when the page holds all matching traces), and checkScans on the
// statements of EVERY portion (tempo_traces_attrs_gin by date and timestamp).
//
// Known finding C11-portion-narrows-window (recorded under C11, status known): once a
// portion has FILLED the page (`limit` traces held) the processor replaces From by the
// earliest start of the page's traces - over all their spans, also those before the window -
// so later portions read from another start: spans before the window are returned, or
// inside spans before a later From are lost. Signature used here, read from the statements:
// a portion's lower timestamp bound differs from the previous portion's AND the previous
// portion returned exactly `limit` traces. Only then (and not when replaying a witness):
// that portion's statement is judged against its own bound, and in the response - which is
// the last portion's statement - exactly the interval between the requested start and the
// last bound is excused; the case is counted with o.Known. A bound that moves after a
// portion that held FEWER than `limit` traces is a violation ("never miss data inside"), as
// is any miss when the page holds all matching traces.

import (
	"fmt"
	"os"
	"regexp"
	"strconv"
	"strings"

	"pgregory.net/rapid"

	"qrynverif/evid"
)

const FindingPortionNarrows = "C11-portion-narrows-window"

func genPortionsCase(rt *rapid.T) tracesCase {
	c := tracesCase{
		WZone:    rapid.IntRange(0, 2).Draw(rt, "wzone"),
		RZone:    rapid.IntRange(0, 2).Draw(rt, "rzone"),
		Cluster:  rapid.Bool().Draw(rt, "cluster"),
		Endpoint: "traceql-portions",
		Query:    traceQLs[rapid.IntRange(0, len(traceQLs)-1).Draw(rt, "q")],
	}
	w := genWin(rt, nsSec)
	c.Win = w
	nPortions := int64(rapid.IntRange(3, 5).Draw(rt, "portions"))
	c.Complexity = (nPortions-1)*10_000_000 + 1 + int64(rapid.IntRange(0, 8_000_000).Draw(rt, "jitter"))
	nTraces := rapid.IntRange(4, 9).Draw(rt, "ntraces")
	// mostly a page that holds every matching trace (From never moves: outside the known
	// finding); sometimes a small page
	c.Limit = 20
	if rapid.IntRange(0, 9).Draw(rt, "smallPage") < 4 {
		// anything from a page one portion fills to a page only the last portions fill
		c.Limit = rapid.IntRange(1, nTraces).Draw(rt, "limit")
	}
	// a third of the cases: no span before the window at all, so that the earliest start of
	// the traces found early lies INSIDE the window - a start raised to it would cut the older
	// in-window spans of traces found by later portions
	noBefore := rapid.IntRange(0, 2).Draw(rt, "noBefore") == 0
	used := tsSet{}
	far := int64(1) << 62
	add := func(tag string, trace int, ts, lo, hi int64) {
		if ts = used.near(ts, 1, lo, hi); ts > 0 {
			c.Spans = append(c.Spans, TSpan{Tag: tag, Trace: trace, Ts: ts, Dur: 1000 + int64(len(c.Spans)), App: "a"})
		}
	}
	pick := func(name string, pct int) bool { return rapid.IntRange(0, 99).Draw(rt, name) < pct }
	d0 := int64(dayOf(w.From)) * nsDay
	d1 := int64(dayOf(w.To)+1)*nsDay - 1
	for t := 0; t < nTraces; t++ {
		tg := func(s string) string { return fmt.Sprintf("t%d-%s", t, s) }
		add(tg("in"), t, r64(rt, w.From, w.To-1, "inside"), w.From, w.To-1)
		if pick("edge-lo", 25) {
			add(tg("lo"), t, w.From, w.From, w.To-1)
		}
		if pick("edge-hi", 25) {
			add(tg("hi"), t, w.To-1, w.From, w.To-1)
		}
		if !noBefore && pick("from-1", 30) {
			add(tg("pb1"), t, w.From-1, 1, w.From-1)
		}
		if pick("at-to", 30) {
			add(tg("pa0"), t, w.To, w.To, far)
		}
		if !noBefore && w.From-d0 > 3600*nsSec && pick("sameday-before", 45) {
			add(tg("psb"), t, r64(rt, d0, w.From-3600*nsSec, "sdb"), d0, w.From-1)
		}
		if d1-w.To > 3600*nsSec && pick("sameday-after", 45) {
			add(tg("psa"), t, r64(rt, w.To+3600*nsSec, d1, "sda"), w.To, d1)
		}
		if !noBefore && pick("hours-before", 35) {
			add(tg("phb"), t, w.From-r64(rt, 3600, 20*3600, "hb")*nsSec, 1, w.From-1)
		}
		if pick("hours-after", 35) {
			add(tg("pha"), t, w.To+r64(rt, 3600, 20*3600, "ha")*nsSec, w.To, far)
		}
		if !noBefore && pick("days-before", 25) {
			add(tg("pdb"), t, w.From-r64(rt, 1, 4, "db")*nsDay-r64(rt, 0, 86399, "dbo")*nsSec, 1, w.From-1)
		}
		if pick("days-after", 25) {
			add(tg("pda"), t, w.To+r64(rt, 1, 4, "da")*nsDay+r64(rt, 0, 86399, "dao")*nsSec, w.To, far)
		}
	}
	if m, ok := w.middleDay(); ok {
		add(fmt.Sprintf("t%d-mid", nTraces), nTraces, m+r64(rt, 0, 3600, "midOff")*nsSec, w.From, w.To-1)
	}
	c.Ver = genVer(rt)
	return c
}

var lowerBoundRe = regexp.MustCompile(`\(traces_idx\.timestamp_ns\) >= \((\d+)\)`)

// portionStmt is the search statement of one portion: its lower timestamp bound and the
// number of traces it returned (= the page the processor holds after that portion).
type portionStmt struct {
	idx   int // index into the statement list
	bound int64
	rows  int
}

func portionStmts(stmts []stmtRec) []portionStmt {
	var out []portionStmt
	for i, s := range stmts {
		if isComplexityStmt(s.SQL) {
			continue
		}
		if m := lowerBoundRe.FindStringSubmatch(s.SQL); m != nil {
			n, _ := strconv.ParseInt(m[1], 10, 64)
			out = append(out, portionStmt{idx: i, bound: n, rows: s.Rows})
		}
	}
	return out
}

// portionAdjust classifies the run, enforces that `from` moves only after a full page, and -
// inside the known-finding region only - relaxes the lower edge of the response.
func portionAdjust(c *tracesCase, stmts []stmtRec, must, mustNot func(*TSpan) bool, o *evid.Obs) (func(*TSpan) bool, func(*TSpan) bool, error) {
	ps := portionStmts(stmts)
	want := int((c.Complexity + 10_000_000 - 1) / 10_000_000)
	if len(ps) != want {
		return nil, nil, fmt.Errorf("harness: %d portion statements seen, %d portions expected from complexity %d", len(ps), want, c.Complexity)
	}
	o.Tag(fmt.Sprintf("portions:%d", want))
	withCache := 0
	for _, s := range stmts {
		if !isComplexityStmt(s.SQL) && strings.Contains(s.SQL, "unhex('") {
			withCache++
		}
	}
	if withCache > 0 {
		o.Tag("portion-with-cached-trace-ids")
	} else {
		o.Tag("no-portion-with-cached-trace-ids")
	}
	w := c.Win
	// The recorded finding moves From only once the page is FULL (complex_request_processor.go:
	// `if len(res) != ctx.Limit { from = ctx.From }`). A lower bound that differs from the
	// previous portion's after a portion that held fewer than `limit` traces is not that
	// finding: it makes later portions miss (or over-read) data of the window.
	prev := w.From
	full := false
	for k, p := range ps {
		if p.bound != prev {
			if k == 0 {
				return nil, nil, fmt.Errorf("the first portion reads from %s instead of the requested start %s", fmtTs(p.bound), fmtTs(w.From))
			}
			if ps[k-1].rows != c.Limit && os.Getenv("C13_NO_STRUCT") == "" {
				return nil, nil, fmt.Errorf("portion %d reads from %s instead of %s although the page was not full after portion %d (%d traces held, limit %d): in-window data of later portions is missed or data before the window is read - this is not the recorded finding %s, which moves the start only once `limit` traces are held",
					k, fmtTs(p.bound), fmtTs(prev), k-1, ps[k-1].rows, c.Limit, FindingPortionNarrows)
			}
			if o.Witness {
				return nil, nil, fmt.Errorf("portion %d reads from %s instead of the requested start %s (%s)", k, fmtTs(p.bound), fmtTs(w.From), FindingPortionNarrows)
			}
			if ps[k-1].rows == c.Limit {
				full = true
			}
		}
		prev = p.bound
	}
	for k, p := range ps {
		if p.rows == c.Limit && k < len(ps)-1 {
			o.Tag("page-full-before-last-portion")
			break
		}
	}
	traces := map[int]bool{}
	for _, sp := range c.Spans {
		if sp.App == "a" {
			traces[sp.Trace] = true
		}
	}
	if c.Limit < len(traces) {
		// the page cannot hold every matching trace: which ones it holds is C11's business
		o.Tag("page-smaller-than-matches")
		must = func(*TSpan) bool { return false }
	} else {
		o.Tag("page-holds-all-matches")
	}
	last := ps[len(ps)-1].bound
	if full && last != w.From {
		// the response is the LAST portion's statement (it re-reads the cached traces with the
		// bound in force then): exactly the interval between the requested start and that bound
		// is excused
		o.Known(FindingPortionNarrows)
		lo, hi := last, w.From
		if lo > hi {
			lo, hi = hi, lo
		}
		m0, n0 := must, mustNot
		must = func(sp *TSpan) bool { return m0(sp) && !(sp.Ts >= lo && sp.Ts < hi) }
		mustNot = func(sp *TSpan) bool { return n0(sp) && !(sp.Ts >= lo && sp.Ts < hi) }
	} else if full {
		o.Known(FindingPortionNarrows) // moved and moved back: counted, nothing excused in the response
	}
	return must, mustNot, nil
}

func addPortions(r *evid.Run) {
	evid.Add(r, evid.Prop[tracesCase]{Name: "traceql-portions", Quick: 400, Thorough: 3000, Gen: genPortionsCase, Pred: predTraces})
}

package c13

// prof.go: C13 on the Pyroscope selects (service/profService.go, called the way
// controller/profController.go calls it: start/end = time.UnixMilli(ms) in the process zone):
// ProfileTypes, LabelNames, LabelValues, Series (index only: profiles_series,
// profiles_series_gin, profiles_series_keys) and SelectSeries (profiles by timestamp).
//
// The profile index is dated by ClickHouse itself (ctrl/qryn/sql/profiles.sql
// profiles_series_mv: toDate(intDiv(timestamp_ns, 1000000000)), a UTC server assumed, as
// chsim does), so no writer code is involved; the tables are derived by the views' rules.
//
// Contract: index-only selects are day granular (see labels.go): series with a profile
// inside the window must be found, series whose rows are all dated two or more days away
// must not. SelectSeries reads from <= timestamp <= to (prof/transpiler/planner_select_series.go);
// the instant `to` is don't-care.

import (
	"context"
	"fmt"
	"sort"
	"strings"
	"time"

	"pgregory.net/rapid"

	"qrynverif/chsim"
	"qrynverif/evid"
	"qrynverif/readersvc"
)

// PProf is one stored profile of series Sid.
type PProf struct {
	Sid string `json:"sid"`
	Ts  int64  `json:"ts"`
	// W > 0 (profmerge.go): the weight of the profile's single stack, a power of two, so that
	// a merged total tells exactly which profiles were read
	W int64 `json:"w,omitempty"`
}

type profCase struct {
	Win      Win     `json:"win"`
	RZone    int     `json:"rzone"`
	Cluster  bool    `json:"cluster,omitempty"`
	Endpoint string  `json:"endpoint"`
	Selector bool    `json:"selector,omitempty"`
	Profiles []PProf `json:"profiles"`
	Ver      VerCfg  `json:"ver"`
}

var profEndpoints = []string{"profile-types", "label-names", "label-values", "series", "select-series", "select-series"}

func genProf(rt *rapid.T) profCase {
	c := profCase{
		RZone:    rapid.IntRange(0, 2).Draw(rt, "rzone"),
		Cluster:  rapid.Bool().Draw(rt, "cluster"),
		Endpoint: profEndpoints[rapid.IntRange(0, len(profEndpoints)-1).Draw(rt, "endpoint")],
		Selector: rapid.Bool().Draw(rt, "selector"),
	}
	w := genWin(rt, nsMs)
	c.Win = w
	used := tsSet{}
	far := int64(1) << 62
	some := func(name string) bool { return rapid.IntRange(0, 9).Draw(rt, name) < 7 }
	add := func(sid string, ts, lo, hi int64) {
		ts -= ts % nsMs
		if ts = used.near(ts, nsMs, lo, hi); ts > 0 {
			c.Profiles = append(c.Profiles, PProf{Sid: sid, Ts: ts})
		}
	}
	inLo, inHi := w.From, w.To-nsMs
	// series s0: inside + poison around
	for i, n := 0, rapid.IntRange(1, 3).Draw(rt, "ninside"); i < n; i++ {
		add("s0", r64(rt, inLo, inHi, "inside"), inLo, inHi)
	}
	if some("at-from") {
		add("s0", w.From, inLo, inHi)
	}
	if some("to-1") {
		add("s0", inHi, inLo, inHi)
	}
	if some("at-to") {
		add("s0", w.To, w.To, w.To)
	}
	if some("from-1") {
		add("s0", w.From-nsMs, 1, w.From-nsMs)
	}
	if some("to+1") {
		add("s0", w.To+nsMs, w.To+nsMs, far)
	}
	if some("near-before") {
		add("s0", w.From-r64(rt, 1, 3600_000, "nb")*nsMs, 1, w.From-nsMs)
	}
	if some("near-after") {
		add("s0", w.To+r64(rt, 1, 3600_000, "na")*nsMs, w.To+nsMs, far)
	}
	if some("far-before") {
		add("s0", w.From-3*nsDay-r64(rt, 0, 86400_000, "fb")*nsMs, 1, w.From-nsMs)
	}
	if some("far-after") {
		add("s0", w.To+3*nsDay+r64(rt, 0, 86400_000, "fa")*nsMs, w.To+nsMs, far)
	}
	if some("elo") {
		add("elo", w.From+r64(rt, 0, 5000, "eloOff")*nsMs, inLo, inHi)
	}
	if some("ehi") {
		add("ehi", inHi-r64(rt, 0, 5000, "ehiOff")*nsMs, inLo, inHi)
	}
	if m, ok := w.middleDay(); ok {
		add("mid", m+r64(rt, 0, 3600, "midOff")*nsSec, inLo, inHi)
	}
	if some("pfb") {
		add("pfb", int64(dayOf(w.From)-1)*nsDay-nsMs-r64(rt, 0, 2*86400_000, "pfb")*nsMs, 1, w.From-nsMs)
	}
	if some("pfa") {
		add("pfa", int64(dayOf(w.To)+2)*nsDay+r64(rt, 0, 2*86400_000, "pfa")*nsMs, w.To+nsMs, far)
	}
	if some("pnear") {
		add("pnear", w.From-nsMs-r64(rt, 0, 60000, "pnb")*nsMs, 1, w.From-nsMs)
		add("pnear", w.To+nsMs+r64(rt, 0, 60000, "pna")*nsMs, w.To+nsMs, far)
	}
	c.Ver = genVer(rt)
	return c
}

const profTypeID = "process_cpu:cpu:nanoseconds"

type profStore struct {
	db    *chsim.DB
	fp    map[string]uint64
	dates map[string]map[chsim.Date]bool
}

func buildProfStore(profiles []PProf, keep func(p PProf) bool) *profStore {
	st := &profStore{db: chsim.NewDB(), fp: map[string]uint64{}, dates: map[string]map[chsim.Date]bool{}}
	var prof, pser, pgin, pkeys [][]any
	tree := []any{chsim.Tuple{uint64(0), uint64(1), uint64(10), []any{chsim.Tuple{"cpu:nanoseconds", int64(5), int64(9)}}}}
	fns := []any{chsim.Tuple{uint64(10), "main"}}
	seenSer := map[string]bool{}
	seenKey := map[string]bool{}
	for i, p := range profiles {
		if keep != nil && !keep(p) {
			continue
		}
		fp, ok := st.fp[p.Sid]
		if !ok {
			fp = uint64(7000 + len(st.fp)*13)
			st.fp[p.Sid] = fp
			st.dates[p.Sid] = map[chsim.Date]bool{}
		}
		ptree, payload, cpu := tree, "bin", int64(100+i)
		if p.W > 0 {
			ptree = []any{chsim.Tuple{uint64(0), uint64(1), uint64(10), []any{chsim.Tuple{"cpu:nanoseconds", p.W, p.W}}}}
			payload, cpu = pprofPayload(p.W, p.Ts), p.W
		}
		stu := []any{chsim.Tuple{"cpu", "nanoseconds"}, chsim.Tuple{"u_" + p.Sid, "count"}}
		tags := []any{chsim.Tuple{"app", "a"}, chsim.Tuple{"k_" + p.Sid, "1"}, chsim.Tuple{"service_name", "svc"}, chsim.Tuple{"sid", p.Sid}}
		prof = append(prof, []any{uint64(p.Ts), fp, profTypeID, stu, "svc", uint64(1000), "pprof", payload,
			[]any{chsim.Tuple{"cpu:nanoseconds", cpu, int32(1)}, chsim.Tuple{"u_" + p.Sid + ":count", int64(1), int32(1)}}, ptree, fns})
		// profiles_series_mv: toDate(intDiv(timestamp_ns, 1000000000)) as date
		d := dayOf(p.Ts)
		st.dates[p.Sid][d] = true
		k := fmt.Sprintf("%d/%s", d, p.Sid)
		if seenSer[k] {
			continue
		}
		seenSer[k] = true
		pser = append(pser, []any{d, profTypeID, stu, "svc", fp, tags})
		// profiles_series_gin_mv: FROM profiles_series ARRAY JOIN tags AS kv
		for _, tg := range tags {
			t := tg.(chsim.Tuple)
			pgin = append(pgin, []any{d, t[0], t[1], profTypeID, stu, "svc", fp})
			// profiles_series_keys_mv: date, key, val, cityHash64(val) % 50000 as val_id
			kk := fmt.Sprintf("%d/%s/%s", d, t[0], t[1])
			if !seenKey[kk] {
				seenKey[kk] = true
				pkeys = append(pkeys, []any{d, t[0], t[1], uint64(len(pkeys))})
			}
		}
	}
	st.db.AddTable("profiles", []string{"timestamp_ns", "fingerprint", "type_id", "sample_types_units", "service_name", "duration_ns", "payload_type", "payload", "values_agg", "tree", "functions"}, prof)
	st.db.AddTable("profiles_series", []string{"date", "type_id", "sample_types_units", "service_name", "fingerprint", "tags"}, pser)
	st.db.AddTable("profiles_series_gin", []string{"date", "key", "val", "type_id", "sample_types_units", "service_name", "fingerprint"}, pgin)
	st.db.AddTable("profiles_series_keys", []string{"date", "key", "val", "val_id"}, pkeys)
	for _, t := range []string{"profiles", "profiles_series", "profiles_series_gin", "profiles_series_keys"} {
		st.db.Alias(t+"_dist", t)
	}
	return st
}

// runProf calls the endpoint; returns the set of sids the answer shows and a canonical text.
func runProf(rd *readersvc.Reader, c *profCase) (map[string]bool, string, error) {
	ctx := context.Background()
	start, end := time.UnixMilli(c.Win.From/nsMs), time.UnixMilli(c.Win.To/nsMs)
	var scripts []string
	if c.Selector {
		scripts = []string{`{app="a"}`}
	}
	shown := map[string]bool{}
	var canon []string
	switch c.Endpoint {
	case "profile-types":
		res, err := rd.Prof.ProfileTypes(ctx, start, end)
		if err != nil {
			return nil, "", err
		}
		for _, t := range res {
			if strings.HasPrefix(t.SampleType, "u_") {
				shown[t.SampleType[2:]] = true
			}
			canon = append(canon, t.ID)
		}
	case "label-names":
		res, err := rd.Prof.LabelNames(ctx, scripts, start, end)
		if err != nil {
			return nil, "", err
		}
		for _, n := range res.Names {
			if strings.HasPrefix(n, "k_") {
				shown[n[2:]] = true
			}
			canon = append(canon, n)
		}
	case "label-values":
		res, err := rd.Prof.LabelValues(ctx, scripts, "sid", start, end)
		if err != nil {
			return nil, "", err
		}
		for _, n := range res.Names {
			shown[n] = true
			canon = append(canon, n)
		}
	case "series":
		res, err := rd.Prof.TimeSeries(ctx, scripts, nil, start, end)
		if err != nil {
			return nil, "", err
		}
		for _, ls := range res.LabelsSet {
			var parts []string
			for _, l := range ls.Labels {
				if l.Name == "sid" {
					shown[l.Value] = true
				}
				parts = append(parts, l.Name+"="+l.Value)
			}
			sort.Strings(parts)
			canon = append(canon, strings.Join(parts, ","))
		}
	case "select-series":
		res, err := rd.Prof.SelectSeries(ctx, `{app="a"}`, profTypeID+":cpu:nanoseconds", []string{"sid"}, 0, 1, start, end)
		if err != nil {
			return nil, "", err
		}
		for _, s := range res.Series {
			sid := ""
			for _, l := range s.Labels {
				if l.Name == "sid" {
					sid = l.Value
				}
			}
			shown[sid] = true
			line := sid + ":"
			for _, p := range s.Points {
				line += fmt.Sprintf(" (%d %v)", p.Timestamp, p.Value)
			}
			canon = append(canon, line)
		}
	}
	sort.Strings(canon)
	return shown, strings.Join(canon, "\n"), nil
}

func predProf(c profCase, o *evid.Obs) error {
	restore := readersvc.Quiet()
	defer restore()
	w := c.Win
	full := buildProfStore(c.Profiles, nil)
	o.Tag(w.tags()...)
	o.Tag("rzone:"+zoneNames[c.RZone], "endpoint:"+c.Endpoint)
	o.Tag(c.Ver.tags(w, "profiles_v2")...)
	if c.Cluster {
		o.Tag("cluster")
	} else {
		o.Tag("single-node")
	}
	run := func(st *profStore) (map[string]bool, string, []stmtRec, error) {
		rd, be := newReader(st.db, c.Cluster, c.Ver, w)
		defer rd.Close()
		var shown map[string]bool
		var canon string
		var err error
		inZone(c.RZone, func() { shown, canon, err = runProf(rd, &c) })
		return shown, canon, be.statements(), err
	}
	shown, canon, stmts, qerr := run(full)
	if p := stmtProblem(stmts); p != "" {
		o.Discard(p)
		return nil
	}
	ctx := fmt.Sprintf("profile %s (selector=%v) window [%s, %s] reader zone %s cluster=%v", c.Endpoint, c.Selector, fmtTs(w.From), fmtTs(w.To), zoneNames[c.RZone], c.Cluster)
	if qerr != nil {
		return fmt.Errorf("%s failed: %v\n%s", ctx, qerr, sqlDump(stmts))
	}
	data := c.Endpoint == "select-series"
	loDay, hiDay := dayOf(w.From), dayOf(w.To-1)
	inside := func(ts int64) bool { return ts >= w.From && ts < w.To }
	outside := func(ts int64) bool { return ts < w.From || ts > w.To }

	bySid := map[string][]PProf{}
	var sids []string
	for _, p := range c.Profiles {
		if _, ok := bySid[p.Sid]; !ok {
			sids = append(sids, p.Sid)
		}
		bySid[p.Sid] = append(bySid[p.Sid], p)
	}
	var s0in, s0out bool
	for _, sid := range sids {
		hasIn, allOut, farDates := false, true, true
		var times []string
		for _, p := range bySid[sid] {
			times = append(times, time.Unix(0, p.Ts).UTC().Format("2006-01-02T15:04:05.000Z"))
			if inside(p.Ts) {
				hasIn = true
			}
			if !outside(p.Ts) {
				allOut = false
			}
			if sid == "s0" && inside(p.Ts) {
				s0in = true
			}
			if sid == "s0" && outside(p.Ts) {
				s0out = true
			}
		}
		for d := range full.dates[sid] {
			if d >= loDay-1 && d <= hiDay+1 {
				farDates = false
			}
		}
		what := fmt.Sprintf("series sid=%s (profiles at %v)", sid, times)
		switch {
		case hasIn:
			if !shown[sid] {
				return fmt.Errorf("%s misses %s, which has a profile inside the window\n%s", ctx, what, sqlDump(stmts))
			}
			o.Tag("found-inside")
			if sid == "mid" {
				o.Tag("middle-day-only:found")
			}
		case data && allOut, !data && farDates:
			if shown[sid] {
				return fmt.Errorf("%s returns %s, whose profiles all lie outside the window\n%s", ctx, what, sqlDump(stmts))
			}
			o.Tag("kept-out")
		default:
			o.Tag("dont-care")
		}
	}
	if s0in && s0out {
		o.NonTrivial()
	}
	lim := limits{DataLo: w.From, DataHi: w.To, IdxLo: loDay - 1, IdxHi: dayOf(w.To) + 1, CheckIdxHi: true}
	if err := checkScans(full.db, stmts, lim, o); err != nil {
		return fmt.Errorf("%s: %v", ctx, err)
	}
	if data {
		// metamorphic: without the profiles outside the window the answer is the same
		clean := buildProfStore(c.Profiles, func(p PProf) bool { return !outside(p.Ts) })
		_, canon2, stmts2, qerr2 := run(clean)
		if p := stmtProblem(stmts2); p != "" {
			o.Discard(p)
			return nil
		}
		if qerr2 != nil {
			return fmt.Errorf("%s failed on the poison-free database: %v", ctx, qerr2)
		}
		if canon != canon2 {
			return fmt.Errorf("%s: the answer changes when profiles outside the window are added\n with poison:\n%.600s\n without:\n%.600s\n%s", ctx, canon, canon2, sqlDump(stmts))
		}
		// every inside profile is admitted by the scan of profiles
		for _, p := range c.Profiles {
			if !inside(p.Ts) {
				continue
			}
			if !admitted(full.db, stmts, "profiles", func(row []any) bool { return row[0].(uint64) == uint64(p.Ts) && row[1].(uint64) == full.fp[p.Sid] }) {
				return fmt.Errorf("%s: the profile of sid=%s at %s lies inside the window but no scan of profiles admits it\n%s", ctx, p.Sid, fmtTs(p.Ts), sqlDump(stmts))
			}
		}
	}
	return nil
}

func addProf(r *evid.Run) {
	evid.Add(r, evid.Prop[profCase]{Name: "prof", Quick: 600, Thorough: 3000, Gen: genProf, Pred: predProf})
}

package c13

import (
	"testing"

	"qrynverif/evid"
)

func TestProp(t *testing.T) {
	r := evid.New(t, "C13", evid.Config{
		Level: "exploration",
		Rule: "generated windows (crossing midnight / month / year boundaries, sub-second, ending or starting within 30 min after UTC midnight) x writer zone x reader zone x cluster mode x endpoint; " +
			"non-trivial: poison rows (outside the window or of the other signal) share fingerprint / trace id / labels with rows inside the window, so only the bound keeps them apart",
		Assumptions: []string{
			"chsim models the ClickHouse subset the reader emits (comparison of Date columns with 'YYYY-MM-DD' constants, PREWHERE/WHERE, IN sub-selects)",
			"index dates are what the real writer parsers emit, converted with ch-go proto.ToDate as the insert service does",
			"label/series/tag endpoints are day-granular by design: one day of slack on each side of the window's UTC days is don't-care",
		},
	})
	addLogs(r)
	addLabels(r)
	addProm(r)
	addEngine(r)
	addTraces(r)
	addPortions(r)
	addProf(r)
	addProfMerge(r)
	addTail(r)
	r.Main()
}

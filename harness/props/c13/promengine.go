package c13

// promengine.go: C13 on PromQL queries with SEVERAL selectors, through the real route
// /api/v1/query_range: the real Prometheus engine opens ONE Querier for the whole query and
// calls CLokiQuerier.Select once per selector, each with its own hints (Start/End shifted by
// the selector's offset and widened by its range or the 5-minute look-back). qryn's per-Select
// state - the label lookup's date range (service/promQueryable.go labelsGetter) - has to
// follow EACH selector's own window.
//
// Queries: `m offset 3d or m`, `m - m offset 1d`, range selectors with different ranges and
// offsets (the pinned route table disables the @ modifier and negative offsets:
// router/prometheusQueryRangeRouter.go). Series: one that exists only in the later
// selector's window, one only in the earlier selector's (its index rows are dated days before
// the request's own window), one in both, poison series whose samples lie between / after
// the selectors' windows, and a log stream inside the window. With windows crossing UTC
// midnight a selected series has its LAST sample before the window's last day: its index
// rows exist only on the earlier day and its labels must still be found.
//
// Oracle (a): every series of the response carries its own label set (no `{}`, `sid`
// present); every series that has a sample a selector must see is returned; no poison series
// is. Oracle (b): every statement is attributed to a selector by its lower timestamp bound
// and judged, together with the label lookup that follows it, against THAT selector's window
// (checkScans).

import (
	"encoding/json"
	"fmt"
	"net/url"
	"regexp"
	"sort"
	"strconv"

	"pgregory.net/rapid"

	"qrynverif/evid"
	"qrynverif/gen"
	"qrynverif/readersvc"
)

// engSel is one selector of the query: offset, range (0 = instant selector: 5 min look-back).
type engSel struct {
	OffsetS int64 `json:"offset_s"`
	RangeS  int64 `json:"range_s"`
}

type engQuery struct {
	Text string
	Sels []engSel
	// Both: the query returns a series only where both selectors have it (binary operator)
	Both bool
}

const day = int64(86400)

var engQueries = []engQuery{
	{Text: `m{app="a"} offset 3d or m{app="a"}`, Sels: []engSel{{OffsetS: 3 * day}, {}}},
	{Text: `m{app="a"} or m{app="a"} offset 2d`, Sels: []engSel{{}, {OffsetS: 2 * day}}},
	{Text: `m{app="a"} - m{app="a"} offset 1d`, Sels: []engSel{{}, {OffsetS: day}}, Both: true},
	{Text: `sum_over_time(m{app="a"}[10m]) or sum_over_time(m{app="a"}[2h] offset 2d)`, Sels: []engSel{{RangeS: 600}, {OffsetS: 2 * day, RangeS: 7200}}},
	{Text: `max_over_time(m{app="a"}[1h]) or m{app="a"} offset 1d or m{app="a"} offset 4d`, Sels: []engSel{{RangeS: 3600}, {OffsetS: day}, {OffsetS: 4 * day}}},
	{Text: `m{app="a"}`, Sels: []engSel{{}}},
}

type engCase struct {
	Query   int    `json:"query"`
	StartS  int64  `json:"start_s"`
	EndS    int64  `json:"end_s"`
	StepS   int64  `json:"step_s"`
	WKind   string `json:"wkind"`
	WZone   int    `json:"wzone"`
	RZone   int    `json:"rzone"`
	Cluster bool   `json:"cluster,omitempty"`
	Streams []Strm `json:"streams"`
	Ver     VerCfg `json:"ver"`
}

const lookbackS = 300 // promql default look-back (EngineOpts.LookbackDelta: 0 -> 5 min)

// selWindow is what selector s may read, in ns: (lo, hi].
func (c *engCase) selWindow(s engSel) (lo, hi int64) {
	back := s.RangeS
	if back == 0 {
		back = lookbackS
	}
	// controller/promQueryRangeController.go: start is cut down and end is rounded up to 15 s
	// (the property's "widened at most to 15-second storage boundaries")
	start := c.StartS / 15 * 15
	end := (c.EndS + 14) / 15 * 15
	return (start - s.OffsetS - back) * nsSec, (end - s.OffsetS) * nsSec
}

func genEngine(rt *rapid.T) engCase {
	c := engCase{
		Query:   rapid.IntRange(0, len(engQueries)-1).Draw(rt, "query"),
		WZone:   rapid.IntRange(0, 2).Draw(rt, "wzone"),
		RZone:   rapid.IntRange(0, 2).Draw(rt, "rzone"),
		Cluster: rapid.Bool().Draw(rt, "cluster"),
		StepS:   []int64{5, 15, 60}[rapid.IntRange(0, 2).Draw(rt, "step")],
	}
	q := engQueries[c.Query]
	w := genWin(rt, nsSec)
	c.WKind = w.Kind
	c.StartS, c.EndS = w.From/nsSec, w.To/nsSec
	if c.EndS-c.StartS < 120 {
		c.EndS = c.StartS + 120 + r64(rt, 0, 1200, "extend")
	}
	// keep the number of steps moderate (the controller refuses more than 11 000)
	if need := (c.EndS-c.StartS)/2000 + 1; c.StepS < need {
		c.StepS = (need + 14) / 15 * 15
	}
	start := c.StartS / 15 * 15
	used := tsSet{}
	val := 0.0
	lbl := func(sid string) []gen.Label {
		return []gen.Label{gen.L("__name__", "m"), gen.L("app", "a"), gen.L("sid", sid)}
	}
	mk := func(sid string, metric bool, ts ...int64) {
		s := Strm{Tag: sid, Metric: metric, Labels: lbl(sid)}
		for _, t := range ts {
			t -= t % nsMs
			if t = used.near(t, nsMs, t-500*nsMs, t+500*nsMs); t > 0 {
				val++
				s.Smps = append(s.Smps, Smp{Ts: t, V: val, M: "m-" + sid})
			}
		}
		if len(s.Smps) > 0 {
			c.Streams = append(c.Streams, s)
		}
	}
	// a sample time every selector position can see: at least one step at or after it
	rel := func(name string) int64 {
		hi := c.EndS - c.StepS
		if hi < start {
			hi = start
		}
		return r64(rt, start, hi, name)
	}
	some := func(name string, pct int) bool { return rapid.IntRange(0, 99).Draw(rt, name) < pct }
	for i, s := range q.Sels {
		// exists only where selector i looks
		mk(fmt.Sprintf("only%d", i), true, (rel("only")-s.OffsetS)*nsSec)
	}
	// in every selector's window, at the same relative position (binary operators match per step)
	r0 := rel("both")
	var both []int64
	for _, s := range q.Sels {
		both = append(both, (r0-s.OffsetS)*nsSec)
	}
	mk("both", true, both...)
	// windows crossing UTC midnight: last sample before the window's last day
	if dayOf(start*nsSec) != dayOf(c.EndS*nsSec) && some("lastbefore", 80) {
		d1 := int64(dayOf(start*nsSec)+1) * nsDay // first midnight inside the window
		lo := start * nsSec
		ts := d1 - r64(rt, 1, min64((d1-lo)/nsSec, 240), "lb")*nsSec
		if ts >= lo {
			mk("lastbefore", true, ts)
		}
	}
	if m, ok := (Win{From: start * nsSec, To: c.EndS * nsSec}).middleDay(); ok && m/nsSec <= c.EndS-c.StepS {
		mk("mid", true, m+r64(rt, 0, 3600, "midOff")*nsSec)
	}
	// poison: outside every selector's window (with a margin of ten minutes)
	free := func(ts int64) bool {
		for _, s := range q.Sels {
			lo, hi := c.selWindow(s)
			if ts > lo-600*nsSec && ts <= hi+600*nsSec {
				return false
			}
		}
		return ts > 0
	}
	cands := map[string]int64{
		"pafter":  (c.EndS + 3600 + r64(rt, 0, 7200, "pa")) * nsSec,
		"pfar":    (c.EndS + 3*day + r64(rt, 0, day, "pf")) * nsSec,
		"pbefore": (start - 6*day - r64(rt, 0, day, "pb")) * nsSec,
	}
	if len(q.Sels) > 1 {
		o := q.Sels[len(q.Sels)-1].OffsetS
		if q.Sels[0].OffsetS > o {
			o = q.Sels[0].OffsetS
		}
		cands["pbetween"] = (start - o/2 - r64(rt, 0, 3600, "pm")) * nsSec
		cands["pbetween2"] = (c.EndS - o + 3600 + r64(rt, 0, 3600, "pm2")) * nsSec
	}
	names := make([]string, 0, len(cands))
	for n := range cands {
		names = append(names, n)
	}
	sort.Strings(names)
	for _, n := range names {
		if free(cands[n]) && some(n, 75) {
			mk(n, true, cands[n])
		}
	}
	if some("logtwin", 60) {
		mk("logtwin", false, rel("logtwin")*nsSec)
	}
	c.Ver = genVer(rt)
	return c
}

var promLowerRe = regexp.MustCompile(`\(samples\.timestamp_ns\) >=? \((\d+)\)`)

func predEngine(c engCase, o *evid.Obs) error {
	restore := readersvc.Quiet()
	defer restore()
	q := engQueries[c.Query]
	start := c.StartS / 15 * 15
	w := Win{From: start * nsSec, To: c.EndS * nsSec, Kind: c.WKind}
	store, err := buildLogStore(c.Streams, c.WZone, nil)
	if err != nil {
		return err
	}
	o.Tag(w.tags()...)
	o.Tag("wzone:"+zoneNames[c.WZone], "rzone:"+zoneNames[c.RZone], fmt.Sprintf("query:%d", c.Query), fmt.Sprintf("selectors:%d", len(q.Sels)))
	if c.Cluster {
		o.Tag("cluster")
	} else {
		o.Tag("single-node")
	}
	o.Tag(c.Ver.tags(w, "v5")...)
	rd, be := newReader(store.db, c.Cluster, c.Ver, w)
	defer rd.Close()
	u := url.Values{}
	u.Set("query", q.Text)
	u.Set("start", fmt.Sprint(c.StartS))
	u.Set("end", fmt.Sprint(c.EndS))
	u.Set("step", fmt.Sprint(c.StepS))
	var resp *readersvc.Response
	inZone(c.RZone, func() { resp = rd.Get("/api/v1/query_range?" + u.Encode()) })
	stmts := be.statements()
	if p := stmtProblem(stmts); p != "" {
		o.Discard(p)
		return nil
	}
	ctx := fmt.Sprintf("query_range %q start %s end %s step %ds writer zone %s reader zone %s cluster=%v", q.Text, fmtTs(w.From), fmtTs(w.To), c.StepS, zoneNames[c.WZone], zoneNames[c.RZone], c.Cluster)
	if resp.Code != 200 {
		return fmt.Errorf("%s: HTTP %d %.400s\n%s", ctx, resp.Code, resp.Body, sqlDump(stmts))
	}
	var doc struct {
		Status string `json:"status"`
		Data   struct {
			Result []struct {
				Metric map[string]string `json:"metric"`
				Values [][]any           `json:"values"`
			} `json:"result"`
		} `json:"data"`
	}
	if err := json.Unmarshal(resp.Body, &doc); err != nil {
		return fmt.Errorf("%s: response is not JSON (%v): %.300s", ctx, err, resp.Body)
	}
	shown := map[string]bool{}
	for _, r := range doc.Data.Result {
		sid, ok := r.Metric["sid"]
		if len(r.Metric) == 0 || !ok {
			return fmt.Errorf("%s: the response holds a series with the label set %v: the label lookup of one selector did not cover that selector's window\n%s", ctx, r.Metric, sqlDump(stmts))
		}
		shown[sid] = true
	}
	// expectations per series
	nt := false
	for i := range store.streams {
		bs := &store.streams[i]
		sid := bs.spec.Tag
		seen, all := 0, true
		for _, s := range q.Sels {
			lo, hi := c.selWindow(s)
			// must-see: a sample from the selector's (shifted) start on and no later than one
			// step before its end - a step at or after it, within look-back / range, exists
			selStart := (start - s.OffsetS) * nsSec
			_ = lo
			in := false
			for _, sm := range bs.spec.Smps {
				if sm.Ts >= selStart && sm.Ts <= hi-c.StepS*nsSec {
					in = true
				}
			}
			if in {
				seen++
			} else {
				all = false
			}
		}
		var dd []string
		for d := range bs.dates {
			dd = append(dd, dateStr(d))
		}
		sort.Strings(dd)
		what := fmt.Sprintf("series sid=%s (type %d, samples at %v, index rows dated %v)", sid, bs.tp, sampleTimes(bs.spec), dd)
		poison := !bs.spec.Metric
		if bs.spec.Metric {
			poison = true
			for _, sm := range bs.spec.Smps {
				for _, s := range q.Sels {
					lo, hi := c.selWindow(s)
					if sm.Ts > lo-600*nsSec && sm.Ts <= hi+600*nsSec {
						poison = false
					}
				}
			}
		}
		// binary operator: both sides need a value at the SAME step - only the series built that
		// way ("both": same relative position in every selector's window) is demanded
		// Steps above one minute (multi-day windows): the down-sampled path stamps a point
		// with the start of its absolute step bucket minus 1 ms, so the two sides, a day apart,
		// are shifted by different amounts below one step and their 5-minute visibility
		// intervals need not share a step - a quantisation inside the window, not a bound.
		must := bs.spec.Metric && ((q.Both && all && sid == "both" && c.StepS <= 60) || (!q.Both && seen > 0))
		switch {
		case must:
			if !shown[sid] {
				return fmt.Errorf("%s misses %s although a selector's window holds its samples\n%s", ctx, what, sqlDump(stmts))
			}
			o.Tag("found-inside")
			if sid == "mid" {
				o.Tag("middle-day-only:found")
			}
			if sid == "lastbefore" {
				o.Tag("last-sample-before-last-day:labels-found")
			}
			if len(q.Sels) > 1 {
				nt = true
			}
		case poison:
			if shown[sid] {
				return fmt.Errorf("%s returns %s, which lies outside every selector's window or belongs to the log signal\n%s", ctx, what, sqlDump(stmts))
			}
			o.Tag("kept-out")
		default:
			o.Tag("dont-care")
		}
	}
	if nt {
		o.NonTrivial()
	}
	// (b) structural: attribute each Select (main statement + the label lookup after it) to a
	// selector by its lower bound
	k := 0
	for k < len(stmts) {
		m := promLowerRe.FindStringSubmatch(stmts[k].SQL)
		if m == nil {
			return fmt.Errorf("harness: statement without a lower timestamp bound where a Select was expected\n%s", sqlDump(stmts[k:k+1]))
		}
		n, _ := strconv.ParseInt(m[1], 10, 64)
		var sel *engSel
		for i := range q.Sels {
			lo, _ := c.selWindow(q.Sels[i])
			if d := n - lo; d > -2*nsSec && d < 2*nsSec {
				sel = &q.Sels[i]
			}
		}
		if sel == nil {
			return fmt.Errorf("%s: a Select reads from %s, which is the start of no selector's window\n%s", ctx, fmtTs(n), sqlDump(stmts[k:k+1]))
		}
		lo, hi := c.selWindow(*sel)
		end := k + 1
		if end < len(stmts) && readersvc.Classify(stmts[end].SQL) == readersvc.KindLabelsOf {
			end++
		}
		lim := limits{DataLo: lo, DataHi: floorTo(hi, 15*nsSec) + 15*nsSec - 1, Types: map[uint8]bool{2: true, 0: true}, IdxLo: dayOf(lo) - 1}
		if err := checkScans(store.db, stmts[k:end], lim, o); err != nil {
			return fmt.Errorf("%s: selector offset %ds range %ds: %v", ctx, sel.OffsetS, sel.RangeS, err)
		}
		k = end
	}
	return nil
}

func addEngine(r *evid.Run) {
	evid.Add(r, evid.Prop[engCase]{Name: "prom-engine", Quick: 400, Thorough: 3000, Gen: genEngine, Pred: predEngine})
}

package c13

// traces.go: C13 on the Tempo endpoints, through the real HTTP route table:
//   /api/search?tags=...      (tempo/sqlIndexQuery.go + tempo/tracesQuery.go)
//   /api/search               (tracesQuery.go alone)
//   /api/search?q={...}       (TraceQL: clickhouse_transpiler/init.go, attrless.go)
//   /api/v2/search/tags, /api/v2/search/tag/{tag}/values   (tempo_traces_kv by date)
//
// The trace store is laid out by the REAL OTLP parser (writer/utils/unmarshal
// UnmarshalOTLPV2 -> onSpan) under the writer's zone: tempo_traces_attrs_gin.date is what
// that code computes, converted with ch-go's proto.ToDate like the insert service does;
// tempo_traces_kv is derived by the materialized view's rule (ctrl/qryn/sql/traces.sql).
//
// Contracts read from the code (the APIs take whole seconds):
//   search:   from <  span start <= to   (tracesQuery.go: > from, <= to); `from` don't-care
//   TraceQL:  from <= span start <  to   (init.go, attrless.go final select)
//   tags/values v2: index only, day granular (like the label endpoints): keys / values of
//   spans inside the window must be found, those whose rows are all dated two or more days
//   away must not.
// TraceQL's final statement looks the whole trace up by id to report its start and duration
// (traces_data.go traces_info) - that read is by trace id, deliberately not by window, and
// is exempt; the matched spans (spanSet.spans) are what the window applies to.
//
// Poison spans share the trace id (and the attribute the search matches on) with spans
// inside the window.

import (
	"bytes"
	"context"
	"encoding/json"
	"fmt"
	"net/url"
	"sort"
	"strconv"
	"strings"

	"github.com/ClickHouse/ch-go/proto"
	wmodel "github.com/metrico/qryn/writer/model"
	"github.com/metrico/qryn/writer/utils/unmarshal"
	"pgregory.net/rapid"

	"qrynverif/chsim"
	"qrynverif/evid"
	"qrynverif/gen"
	"qrynverif/props/c03"
	"qrynverif/readersvc"
)

// TSpan is one span; Ts is unique within a case.
type TSpan struct {
	Tag   string `json:"tag"`
	Trace int    `json:"trace"`
	Ts    int64  `json:"ts"`
	Dur   int64  `json:"dur"`
	App   string `json:"app"`
}

type tracesCase struct {
	Win      Win     `json:"win"`
	WZone    int     `json:"wzone"`
	RZone    int     `json:"rzone"`
	Cluster  bool    `json:"cluster,omitempty"`
	Endpoint string  `json:"endpoint"`
	Query    string  `json:"query,omitempty"`
	Spans    []TSpan `json:"spans"`
	Ver      VerCfg  `json:"ver"`
	// traceql-portions (portions.go): page size and the scripted complexity answer
	Limit      int   `json:"limit,omitempty"`
	Complexity int64 `json:"complexity,omitempty"`
}

var traceEndpoints = []string{"search-tags", "search-tags", "search-notags", "traceql", "traceql", "tags-v2", "values-v2"}
var traceQLs = []string{`{.app="a"}`, `{.app="a" && .common="c"}`, `{.app=~"a|zz"}`, `{name="op" && .app="a"}`}
var tagQueries = []string{`app=a`, `app=a common=c`, `app=~"a|zz"`}

func genTraces(rt *rapid.T) tracesCase {
	c := tracesCase{
		WZone:    rapid.IntRange(0, 2).Draw(rt, "wzone"),
		RZone:    rapid.IntRange(0, 2).Draw(rt, "rzone"),
		Cluster:  rapid.Bool().Draw(rt, "cluster"),
		Endpoint: traceEndpoints[rapid.IntRange(0, len(traceEndpoints)-1).Draw(rt, "endpoint")],
	}
	switch c.Endpoint {
	case "traceql":
		c.Query = traceQLs[rapid.IntRange(0, len(traceQLs)-1).Draw(rt, "q")]
	case "search-tags":
		c.Query = tagQueries[rapid.IntRange(0, len(tagQueries)-1).Draw(rt, "tags")]
	}
	w := genWin(rt, nsSec)
	c.Win = w
	used := tsSet{}
	some := func(name string) bool { return rapid.IntRange(0, 9).Draw(rt, name) < 7 }
	far := int64(1) << 62
	add := func(tag string, trace int, ts, lo, hi int64) {
		if ts = used.near(ts, 1, lo, hi); ts > 0 {
			c.Spans = append(c.Spans, TSpan{Tag: tag, Trace: trace, Ts: ts, Dur: 1000 + int64(len(c.Spans)), App: "a"})
		}
	}
	// trace 0: spans inside, at the edges, and poison spans around the window
	for i, n := 0, rapid.IntRange(1, 3).Draw(rt, "ninside"); i < n; i++ {
		add(fmt.Sprintf("in%d", i), 0, r64(rt, w.From+1, w.To-1, "inside"), w.From+1, w.To-1)
	}
	if some("from+1") {
		add("lo1", 0, w.From+1, w.From+1, w.To-1)
	}
	if some("to-1") {
		add("hi1", 0, w.To-1, w.From+1, w.To-1)
	}
	if some("at-from") {
		add("atfrom", 0, w.From, w.From, w.From)
	}
	if some("at-to") {
		add("atto", 0, w.To, w.To, w.To)
	}
	if some("from-1") {
		add("pb1", 0, w.From-1, 1, w.From-1)
	}
	if some("to+1") {
		add("pa1", 0, w.To+1, w.To+1, far)
	}
	if some("near-before") {
		add("pnb", 0, w.From-r64(rt, 1, 3600*nsSec, "nb"), 1, w.From-1)
	}
	if some("near-after") {
		add("pna", 0, w.To+r64(rt, 1, 3600*nsSec, "na"), w.To+1, far)
	}
	// hours outside the window but on the window's own UTC days: when the tag index is
	// bounded by date alone (tempo_v2 does not cover the window) only the timestamp bounds on
	// tempo_traces keep these out
	if d0 := int64(dayOf(w.From)) * nsDay; w.From-d0 > 3600*nsSec {
		if some("sameday-before") {
			add("psb", 0, r64(rt, d0, w.From-3600*nsSec, "sdb"), d0, w.From-1)
		}
		if some("sameday-before-own-trace") {
			add("tsb", 6, r64(rt, d0, w.From-3600*nsSec, "sdb2"), d0, w.From-1)
		}
	}
	if d1 := int64(dayOf(w.To)+1)*nsDay - 1; d1-w.To > 3600*nsSec {
		if some("sameday-after") {
			add("psa", 0, r64(rt, w.To+3600*nsSec, d1, "sda"), w.To+1, d1)
		}
		if some("sameday-after-own-trace") {
			add("tsa", 7, r64(rt, w.To+3600*nsSec, d1, "sda2"), w.To+1, d1)
		}
	}
	if some("far-before") {
		add("pfb", 0, w.From-3*nsDay-r64(rt, 0, nsDay, "fb"), 1, w.From-1)
	}
	if some("far-after") {
		add("pfa", 0, w.To+3*nsDay+r64(rt, 0, nsDay, "fa"), w.To+1, far)
	}
	// traces of their own: only the bounds decide whether they are found
	if some("elo") {
		add("elo", 1, w.From+1+r64(rt, 0, min64(w.To-w.From-2, 5*nsSec), "eloOff"), w.From+1, w.To-1)
	}
	if some("ehi") {
		add("ehi", 2, w.To-1-r64(rt, 0, min64(w.To-w.From-2, 5*nsSec), "ehiOff"), w.From+1, w.To-1)
	}
	if m, ok := w.middleDay(); ok {
		// a trace that exists only on a middle day of a window touching three or more UTC days
		add("mid", 8, m+r64(rt, 0, 3600, "midOff")*nsSec, w.From+1, w.To-1)
	}
	if some("tfb") {
		add("tfb", 3, int64(dayOf(w.From)-1)*nsDay-1-r64(rt, 0, 2*nsDay, "tfb"), 1, w.From-1)
	}
	if some("tfa") {
		add("tfa", 4, int64(dayOf(w.To)+2)*nsDay+r64(rt, 0, 2*nsDay, "tfa"), w.To+1, far)
	}
	if some("decoy") {
		if ts := used.near(r64(rt, w.From+1, w.To-1, "decoy"), 1, w.From+1, w.To-1); ts > 0 {
			c.Spans = append(c.Spans, TSpan{Tag: "decoy", Trace: 5, Ts: ts, Dur: 77, App: "b"})
		}
	}
	c.Ver = genVer(rt)
	return c
}

type traceStore struct {
	db       *chsim.DB
	dateOf   map[int64]chsim.Date // span start -> date of its attribute rows
	writerOK bool
}

func traceIDHex(i int) string { return fmt.Sprintf("%032x", 0xA000+i) }
func spanIDHex(i int) string  { return fmt.Sprintf("%016x", 0xB000+i) }

// buildTraceStore pushes the spans through the real OTLP parser under the writer's zone.
func buildTraceStore(spans []TSpan, wzone int) (*traceStore, error) {
	batch := gen.OTLPBatch{Resources: []gen.OTLPResource{{
		Attrs:  []gen.KeyVal{{Key: "service.name", Val: gen.AnyVal{K: "s", S: "svc"}}},
		Scopes: []gen.OTLPScope{{Name: "scope"}},
	}}}
	str := func(s string) gen.AnyVal { return gen.AnyVal{K: "s", S: s} }
	for i, sp := range spans {
		batch.Resources[0].Scopes[0].Spans = append(batch.Resources[0].Scopes[0].Spans, gen.OTLPSpan{
			TraceID: traceIDHex(sp.Trace), SpanID: spanIDHex(i), Name: "op", Kind: 1,
			Start: uint64(sp.Ts), End: uint64(sp.Ts + sp.Dur),
			Attrs: []gen.KeyVal{{Key: "app", Val: str(sp.App)}, {Key: "common", Val: str("c")}, {Key: "mark", Val: str(sp.Tag)}, {Key: "k_" + sp.Tag, Val: str("1")}},
		})
	}
	st := &traceStore{db: chsim.NewDB(), dateOf: map[int64]chsim.Date{}}
	var traces, attrs, kv [][]any
	var perr error
	inZone(wzone, func() {
		c03.Setup(1)
		ch := unmarshal.UnmarshalOTLPV2(context.Background(), bytes.NewReader(batch.Body()), nil)
		for resp := range ch {
			if resp.Error != nil {
				if perr == nil {
					perr = resp.Error
				}
				continue
			}
			if s, ok := resp.SpansRequest.(*wmodel.TempoSamples); ok && s != nil {
				for i := range s.MTraceId {
					traces = append(traces, []any{"0", string(s.MTraceId[i]), string(s.MSpanId[i]), s.MParentId[i], s.MName[i],
						s.MTimestampNs[i], s.MDurationNs[i], s.MServiceName[i], s.MPayloadType[i], string(s.MPayload[i])})
				}
			}
			if a, ok := resp.SpansAttrsRequest.(*wmodel.TempoTag); ok && a != nil {
				for i := range a.MTraceId {
					// writer/service: DateAppender -> proto.ColDate.Append -> proto.ToDate
					d := chsim.Date(proto.ToDate(a.MDate[i]))
					st.dateOf[a.MTimestampNs[i]] = d
					attrs = append(attrs, []any{"0", d, a.MKey[i], a.MVal[i], string(a.MTraceId[i]), string(a.MSpanId[i]), a.MTimestampNs[i], a.MDurationNs[i]})
				}
			}
		}
	})
	if perr != nil {
		return nil, fmt.Errorf("harness: the OTLP parser rejected the generated batch: %v", perr)
	}
	if len(traces) != len(spans) {
		return nil, fmt.Errorf("harness: %d span rows for %d spans", len(traces), len(spans))
	}
	// deterministic order (the parser walks a Go map of attributes)
	sort.SliceStable(attrs, func(i, j int) bool {
		a, b := attrs[i], attrs[j]
		if a[6].(int64) != b[6].(int64) {
			return a[6].(int64) < b[6].(int64)
		}
		return a[2].(string) < b[2].(string)
	})
	// tempo_traces_kv_mv: SELECT oid, date, key, cityHash64(val) % 10000 AS val_id, val FROM tempo_traces_attrs_gin
	seen := map[string]bool{}
	for _, a := range attrs {
		k := fmt.Sprintf("%d\x00%s\x00%s", a[1], a[2], a[3])
		if !seen[k] {
			seen[k] = true
			kv = append(kv, []any{"0", a[1], a[2], uint64(0), a[3]})
		}
	}
	st.db.AddTable("tempo_traces", []string{"oid", "trace_id", "span_id", "parent_id", "name", "timestamp_ns", "duration_ns", "service_name", "payload_type", "payload"}, traces)
	st.db.AddTable("tempo_traces_attrs_gin", []string{"oid", "date", "key", "val", "trace_id", "span_id", "timestamp_ns", "duration"}, attrs)
	st.db.AddTable("tempo_traces_kv", []string{"oid", "date", "key", "val_id", "val"}, kv)
	for _, t := range []string{"tempo_traces", "tempo_traces_attrs_gin", "tempo_traces_kv"} {
		st.db.Alias(t+"_dist", t)
	}
	return st, nil
}

func predTraces(c tracesCase, o *evid.Obs) error {
	restore := readersvc.Quiet()
	defer restore()
	w := c.Win
	st, err := buildTraceStore(c.Spans, c.WZone)
	if err != nil {
		return err
	}
	o.Tag(w.tags()...)
	o.Tag("wzone:"+zoneNames[c.WZone], "rzone:"+zoneNames[c.RZone], "endpoint:"+c.Endpoint)
	if c.Cluster {
		o.Tag("cluster")
	} else {
		o.Tag("single-node")
	}
	q := url.Values{}
	q.Set("start", fmt.Sprint(w.From/nsSec))
	q.Set("end", fmt.Sprint(w.To/nsSec))
	q.Set("limit", "100")
	if c.Limit > 0 {
		q.Set("limit", fmt.Sprint(c.Limit))
	}
	portions := c.Endpoint == "traceql-portions"
	path := "/api/search"
	switch c.Endpoint {
	case "search-tags":
		q.Set("tags", c.Query)
	case "traceql", "traceql-portions":
		q.Set("q", c.Query)
	case "tags-v2":
		path = "/api/v2/search/tags"
	case "values-v2":
		path = "/api/v2/search/tag/mark/values"
	}
	rd, be := newReader(st.db, c.Cluster, c.Ver, w)
	be.complexity = c.Complexity
	o.Tag(c.Ver.tags(w, "tempo_v2", "tempo_traces_v2")...)
	defer rd.Close()
	var resp *readersvc.Response
	inZone(c.RZone, func() { resp = rd.Get(path + "?" + q.Encode()) })
	stmts := be.statements()
	if p := stmtProblem(stmts); p != "" {
		o.Discard(p)
		return nil
	}
	ctx := fmt.Sprintf("%s %q window [%s, %s] writer zone %s reader zone %s cluster=%v", c.Endpoint, c.Query, fmtTs(w.From), fmtTs(w.To), zoneNames[c.WZone], zoneNames[c.RZone], c.Cluster)
	if resp.Code != 200 {
		return fmt.Errorf("%s: HTTP %d %.300s\n%s", ctx, resp.Code, resp.Body, sqlDump(stmts))
	}

	// which spans (by tag) does the response show?
	shown := map[string]bool{}
	byTs := map[int64]*TSpan{}
	for i := range c.Spans {
		byTs[c.Spans[i].Ts] = &c.Spans[i]
	}
	noteTs := func(v any) error {
		var ts int64
		switch x := v.(type) {
		case string:
			n, err := strconv.ParseInt(x, 10, 64)
			if err != nil {
				return fmt.Errorf("%s: unparsable startTimeUnixNano %q", ctx, x)
			}
			ts = n
		case json.Number:
			n, err := x.Int64()
			if err != nil {
				return fmt.Errorf("%s: unparsable startTimeUnixNano %v", ctx, x)
			}
			ts = n
		default:
			return fmt.Errorf("%s: startTimeUnixNano of type %T", ctx, v)
		}
		sp := byTs[ts]
		if sp == nil {
			return fmt.Errorf("%s: the response shows a span starting at %s that was never stored\n%s", ctx, fmtTs(ts), sqlDump(stmts))
		}
		shown[sp.Tag] = true
		return nil
	}
	dec := json.NewDecoder(bytes.NewReader(resp.Body))
	dec.UseNumber()
	var doc map[string]any
	if err := dec.Decode(&doc); err != nil {
		return fmt.Errorf("%s: response is not JSON (%v): %.300s", ctx, err, resp.Body)
	}
	switch c.Endpoint {
	case "search-tags", "search-notags":
		trs, _ := doc["traces"].([]any)
		for _, t := range trs {
			m, _ := t.(map[string]any)
			if err := noteTs(m["startTimeUnixNano"]); err != nil {
				return err
			}
		}
	case "traceql", "traceql-portions":
		trs, _ := doc["traces"].([]any)
		for _, t := range trs {
			m, _ := t.(map[string]any)
			ss, _ := m["spanSet"].(map[string]any)
			sps, _ := ss["spans"].([]any)
			for _, s := range sps {
				sm, _ := s.(map[string]any)
				if err := noteTs(sm["startTimeUnixNano"]); err != nil {
					return err
				}
			}
		}
	case "tags-v2":
		scopes, _ := doc["scopes"].([]any)
		for _, s := range scopes {
			sm, _ := s.(map[string]any)
			tags, _ := sm["tags"].([]any)
			for _, t := range tags {
				if name, _ := t.(string); strings.HasPrefix(name, "k_") {
					shown[name[2:]] = true
				}
			}
		}
	case "values-v2":
		vals, _ := doc["tagValues"].([]any)
		for _, v := range vals {
			vm, _ := v.(map[string]any)
			// without q the unfixed tree answers this endpoint with the tag NAMES
			// (traceql/transpiler/planner.go PlanValuesV2: script == nil -> allTagsV2RequestProcessor;
			// out of this property's scope, see NOTES.md): both spellings identify the span
			if s, _ := vm["value"].(string); strings.HasPrefix(s, "k_") {
				shown[s[2:]] = true
			} else if s != "" {
				shown[s] = true
			}
		}
	}

	indexOnly := c.Endpoint == "tags-v2" || c.Endpoint == "values-v2"
	var must, mustNot func(sp *TSpan) bool
	loDay, hiDay := dayOf(w.From), dayOf(w.To-1)
	switch {
	case indexOnly:
		must = func(sp *TSpan) bool { return sp.Ts >= w.From && sp.Ts < w.To }
		mustNot = func(sp *TSpan) bool { d := st.dateOf[sp.Ts]; return d < loDay-1 || d > hiDay+1 }
	case c.Endpoint == "traceql" || portions:
		must = func(sp *TSpan) bool { return sp.App == "a" && sp.Ts >= w.From && sp.Ts < w.To }
		mustNot = func(sp *TSpan) bool { return sp.App != "a" || sp.Ts < w.From || sp.Ts >= w.To }
	case c.Endpoint == "search-tags":
		must = func(sp *TSpan) bool { return sp.App == "a" && sp.Ts > w.From && sp.Ts <= w.To }
		mustNot = func(sp *TSpan) bool { return sp.App != "a" || sp.Ts < w.From || sp.Ts > w.To }
	default: // search-notags
		must = func(sp *TSpan) bool { return sp.Ts > w.From && sp.Ts <= w.To }
		mustNot = func(sp *TSpan) bool { return sp.Ts < w.From || sp.Ts > w.To }
	}
	if portions {
		var err error
		if must, mustNot, err = portionAdjust(&c, stmts, must, mustNot, o); err != nil {
			return fmt.Errorf("%s: %v\n%s", ctx, err, sqlDump(stmts))
		}
	}
	var in0, out0 bool
	for i := range c.Spans {
		sp := &c.Spans[i]
		what := fmt.Sprintf("span %s of trace %d starting at %s (attribute rows dated %s by the writer)", sp.Tag, sp.Trace, fmtTs(sp.Ts), dateStr(st.dateOf[sp.Ts]))
		switch {
		case must(sp):
			if !shown[sp.Tag] {
				return fmt.Errorf("%s misses %s, which lies inside the window\n%s", ctx, what, sqlDump(stmts))
			}
			o.Tag("found-inside")
			if sp.Tag == "mid" || strings.HasSuffix(sp.Tag, "-mid") {
				o.Tag("middle-day-only:found")
			}
			in0 = in0 || sp.Trace == 0 || portions
		case mustNot(sp):
			if shown[sp.Tag] {
				return fmt.Errorf("%s returns %s, which lies outside the window\n%s", ctx, what, sqlDump(stmts))
			}
			o.Tag("kept-out")
			out0 = out0 || sp.Trace == 0 || portions
		default:
			o.Tag("dont-care")
		}
	}
	if in0 && out0 {
		o.NonTrivial()
	}

	// (b) structural. tempo_traces: TraceQL's trace-level lookup by id is exempt (see top).
	lim := limits{DataLo: w.From, DataHi: w.To, IdxLo: loDay - 1, IdxHi: dayOf(w.To) + 1, CheckIdxHi: true}
	saved := dataTables["tempo_traces"]
	if c.Endpoint == "traceql" || portions {
		dataTables["tempo_traces"] = false
		lim.DataHi = w.To - 1
	}
	// Tempo tag search: when tempo_v2 does not cover the window the tag index is read by date
	// alone, by design (sqlIndexQuery.go) - it is an index table, a covering date range is
	// what the property asks of it; the read is then confined by the bounds on tempo_traces,
	// which checkScans demands in every class.
	lim.IndexDateOnly = c.Endpoint == "search-tags" && !c.Ver.covers("tempo_v2", w)
	if lim.IndexDateOnly {
		o.Tag("tag-index-bounded-by-date-only")
	}
	if portions {
		// every portion's statement against the start in force for it (== w.From unless the
		// page was full before: portionAdjust has already rejected any other move)
		ps := portionStmts(stmts)
		isPortion := map[int]int64{}
		for _, p := range ps {
			isPortion[p.idx] = p.bound
		}
		for i := range stmts {
			l := lim
			if b, ok := isPortion[i]; ok {
				l.DataLo, l.IdxLo = b, dayOf(b)-1
			}
			if err = checkScans(st.db, stmts[i:i+1], l, o); err != nil {
				break
			}
		}
	} else {
		err = checkScans(st.db, stmts, lim, o)
	}
	dataTables["tempo_traces"] = saved
	if err != nil {
		return fmt.Errorf("%s: %v", ctx, err)
	}
	return nil
}

func addTraces(r *evid.Run) {
	evid.Add(r, evid.Prop[tracesCase]{Name: "traces", Quick: 1000, Thorough: 5000, Gen: genTraces, Pred: predTraces})
}

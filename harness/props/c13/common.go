// Package c13: every read is confined to the requested time window and signal type.
//
// common.go: windows, time zones, the chsim-backed database the real reader services run
// against (with the per-scan offered/admitted log), the log/metric store laid out the way
// the REAL writer lays it out (series dates come from the real parser + ch-go's Date
// conversion under the writer's zone), and the structural oracle over chsim.ScanStat.
package c13

import (
	"context"
	"database/sql/driver"
	"encoding/json"
	"errors"
	"fmt"
	"os"
	"sort"
	"strings"
	"sync"
	"time"

	"github.com/ClickHouse/ch-go/proto"
	clcfg "github.com/metrico/cloki-config/config"
	"pgregory.net/rapid"

	"qrynverif/chsim"
	"qrynverif/evid"
	"qrynverif/fakesql"
	"qrynverif/gen"
	"qrynverif/props/c03"
	"qrynverif/readersvc"
)

const (
	nsSec = int64(1_000_000_000)
	nsMs  = int64(1_000_000)
	nsDay = 86400 * nsSec
)

// Finding ids (known_findings.d/C13.json).
const (
	FindingWriterSeriesDate = "C04-series-date-local-offset" // fixed on fix/c01 (writer/utils/unmarshal/builder.go onEntries)
)

var zones = []*time.Location{time.UTC, time.FixedZone("UTC-10", -10*3600), time.FixedZone("UTC+13", 13*3600)}
var zoneNames = []string{"utc", "utc-10", "utc+13"}

// inZone runs f with time.Local = zones[z]. Cases run serially (rapid is sequential and
// the runner executes one check at a time); every goroutine started by the reader for a
// request has finished when the response channel is drained, which all callers do inside f.
func inZone(z int, f func()) {
	saved := time.Local
	time.Local = zones[z]
	defer func() { time.Local = saved }()
	f()
}

// ---- windows ---------------------------------------------------------------------------

// Win is a requested window in nanoseconds.
type Win struct {
	From int64  `json:"from"`
	To   int64  `json:"to"`
	Kind string `json:"kind"`
}

func utcMidnight(y int, m time.Month, d int) int64 {
	return time.Date(y, m, d, 0, 0, 0, 0, time.UTC).UnixNano()
}

// anchors: UTC midnights; the day AFTER each anchor starts a new month / year for most.
var anchors = []int64{
	utcMidnight(2024, 1, 15),
	utcMidnight(2024, 1, 31),  // +1 day = 1 Feb
	utcMidnight(2024, 2, 29),  // leap day, +1 day = 1 Mar
	utcMidnight(2023, 12, 31), // +1 day = new year
	utcMidnight(2024, 6, 30),
}

func r64(rt *rapid.T, lo, hi int64, name string) int64 {
	return rapid.Int64Range(lo, hi).Draw(rt, name)
}

// genWin draws a window whose bounds are multiples of gran nanoseconds (the resolution of
// the API the window is sent through).
func genWin(rt *rapid.T, gran int64) Win {
	a := anchors[rapid.IntRange(0, len(anchors)-1).Draw(rt, "anchor")]
	kinds := []string{"day", "midnight", "end-after-midnight", "start-after-midnight", "multiday", "three-days", "subsecond", "midnight-exact"}
	if gran >= nsSec {
		kinds = kinds[:6]
	}
	k := kinds[rapid.IntRange(0, len(kinds)-1).Draw(rt, "wkind")]
	var from, to int64
	switch k {
	case "day":
		from = a + r64(rt, 3600, 20*3600, "off")*nsSec
		to = from + r64(rt, 1, 3*3600, "len")*nsSec
	case "midnight":
		from = a + nsDay - r64(rt, 1, 2*3600, "before")*nsSec
		to = a + nsDay + r64(rt, 1, 2*3600, "after")*nsSec
	case "end-after-midnight":
		to = a + nsDay + r64(rt, 0, 1800, "after")*nsSec
		from = to - r64(rt, 60, 3*3600, "len")*nsSec
	case "start-after-midnight":
		from = a + nsDay + r64(rt, 0, 1800, "after")*nsSec
		to = from + r64(rt, 60, 3*3600, "len")*nsSec
	case "multiday":
		from = a - r64(rt, 0, 2, "daysBefore")*nsDay + r64(rt, 0, 86399, "off")*nsSec
		to = a + nsDay + r64(rt, 0, 2, "daysAfter")*nsDay + r64(rt, 0, 86399, "off2")*nsSec
	case "three-days":
		// touches the day before the anchor, the anchor day and the day after: for the anchors
		// this is 30 Jan-1 Feb, 28 Feb-1 Mar (leap year), 30 Dec-1 Jan, ...
		from = a - nsDay + r64(rt, 0, 86399, "off")*nsSec
		to = a + nsDay + r64(rt, 1, 86399, "off2")*nsSec
	case "subsecond":
		from = a + r64(rt, 0, 2*86400, "off")*nsSec + r64(rt, 0, 999, "fracMs")*nsMs
		to = from + r64(rt, 1, 900, "lenMs")*nsMs
	case "midnight-exact":
		// sub-second window around / ending exactly at a UTC midnight
		to = a + nsDay + r64(rt, 0, 1, "afterMs")*500*nsMs
		from = to - r64(rt, 1, 1500, "lenMs")*nsMs
	}
	from -= from % gran
	to -= to % gran
	if to <= from {
		to = from + gran
	}
	return Win{From: from, To: to, Kind: k}
}

// middleDay returns an instant around noon of a UTC day strictly between the window's first
// and last day (ok=false: the window touches fewer than three days). Index rows of data
// there are dated on neither boundary day: the date bound has to be a RANGE.
func (w Win) middleDay() (int64, bool) {
	d0, d1 := dayOf(w.From), dayOf(w.To-1)
	if d1-d0 < 2 {
		return 0, false
	}
	return int64(d0+1)*nsDay + 12*3600*nsSec, true
}

func dayOf(ns int64) chsim.Date {
	if ns < 0 {
		panic("negative timestamp")
	}
	return chsim.Date(ns / nsDay)
}

func (w Win) tags() []string {
	t := []string{"win:" + w.Kind}
	f, e := time.Unix(0, w.From).UTC(), time.Unix(0, w.To-1).UTC()
	if f.Month() != e.Month() {
		t = append(t, "win:crosses-month")
	}
	if dayOf(w.From) != dayOf(w.To-1) {
		t = append(t, "win:crosses-midnight")
	}
	if dayOf(w.To-1)-dayOf(w.From) >= 2 {
		t = append(t, "win:three-or-more-utc-days")
	}
	if w.To-w.From < nsSec {
		t = append(t, "win:sub-second")
	}
	if (w.To%nsDay) <= 1800*nsSec && dayOf(w.From) != dayOf(w.To) {
		t = append(t, "win:ends-within-30min-after-midnight")
	}
	if (w.From % nsDay) < 1800*nsSec {
		t = append(t, "win:starts-within-30min-after-midnight")
	}
	return t
}

// ---- chsim-backed fake database ------------------------------------------------------------

type stmtRec struct {
	SQL   string
	Err   error
	Scans []chsim.ScanStat
	Rows  int
}

type backend struct {
	mu    sync.Mutex
	db    *chsim.DB
	stmts []stmtRec
	ver   VerCfg
	win   Win
	// complexity > 0: the answer to TraceQL's complexity-evaluation statement is scripted
	// (the statement is still executed and judged), so that the per-portion processor runs
	complexity int64
}

// isComplexityStmt recognises the statement of clickhouse_transpiler.PlanEval (the only
// one that selects count() AS _count per prefix; same test as props/c11).
func isComplexityStmt(q string) bool { return strings.Contains(q, "pre_final") }

// ---- schema-version information (reader/utils/dbVersion) ------------------------------------
//
// dbVersion.GetVersionInfo reads, once per database NAME (cached; the cache is dropped 10 s
// after a fill), the `settings` rows of type 'update' (feature name -> unix time of the
// upgrade) and SHOW TABLES (no metrics_15s table -> "v5" = 0). Planners ask
// IsVersionSupported(feature, from, to) = present && from >= upgradeTime and choose other
// statement shapes / bounds when it is false (reader/tempo/sqlIndexQuery.go: the tag index is
// bounded by timestamp only when tempo_v2 covers the window, otherwise by date alone - then
// the bounds on tempo_traces are the only thing that confines the read). Every reader is
// built over a fresh fakesql database (unique name), so no case sees another case's cache.

// Feature classes.
const (
	verLongAgo = 0 // upgraded at unix time 1 (the zero value: old replay files mean this)
	verAbsent  = 1 // no settings row (note: the pinned ctrl scripts never write tempo_v2)
	verBefore  = 2 // upgraded one day before the window starts
	verMid     = 3 // upgraded in the middle of the window
	verAfter   = 4 // upgraded one hour after the window ends
)

var verClassNames = []string{"long-ago", "absent", "before-window", "mid-window", "after-window"}

// verFeatures: every feature name the schema scripts write or the reader asks for.
var verFeatures = []string{"v3_1", "v3_2", "tempo_traces_v1", "tempo_traces_v2", "profiles_v1", "profiles_v2", "v5", "tempo_v2", "v1", "v3", "v4"}

// VerCfg is the generated schema-version configuration of a case.
type VerCfg struct {
	Feat  map[string]int `json:"feat,omitempty"`   // feature -> class; missing = long ago
	NoM15 bool           `json:"no_m15,omitempty"` // SHOW TABLES does not list metrics_15s[_dist]
}

func genVer(rt *rapid.T) VerCfg {
	v := VerCfg{}
	if rapid.IntRange(0, 3).Draw(rt, "verDefault") == 0 {
		return v // every feature long ago
	}
	v.Feat = map[string]int{}
	for _, f := range verFeatures {
		// the features a planner actually branches on get every class with equal weight
		var cl int
		if f == "tempo_v2" || f == "v5" {
			cl = rapid.IntRange(0, 4).Draw(rt, "ver:"+f)
		} else if rapid.IntRange(0, 2).Draw(rt, "verVary:"+f) == 0 {
			cl = rapid.IntRange(0, 4).Draw(rt, "ver:"+f)
		}
		if cl != verLongAgo {
			v.Feat[f] = cl
		}
	}
	v.NoM15 = rapid.IntRange(0, 3).Draw(rt, "noM15") == 0
	return v
}

func (v VerCfg) class(f string) int { return v.Feat[f] }

// upgradeTime is the unix time (seconds) stored for feature f; ok=false: no row.
func (v VerCfg) upgradeTime(f string, w Win) (int64, bool) {
	switch v.class(f) {
	case verAbsent:
		return 0, false
	case verBefore:
		return (w.From - nsDay) / nsSec, true
	case verMid:
		return (w.From + (w.To-w.From)/2) / nsSec, true
	case verAfter:
		return w.To/nsSec + 3600, true
	}
	return 1, true
}

// covers mirrors what the reader will conclude (dbVersion.IsVersionSupported): only used to
// pick the admissible bounds of index scans and for tags, never as an oracle of results.
func (v VerCfg) covers(f string, w Win) bool {
	t, ok := v.upgradeTime(f, w)
	return ok && w.From >= t*nsSec
}

func (v VerCfg) tags(w Win, feats ...string) []string {
	out := []string{}
	nd := false
	for _, f := range verFeatures {
		if v.class(f) != verLongAgo {
			nd = true
		}
	}
	if nd || v.NoM15 {
		out = append(out, "ver:some-feature-not-long-ago")
	} else {
		out = append(out, "ver:all-long-ago")
	}
	for _, f := range feats {
		out = append(out, "ver:"+f+":"+verClassNames[v.class(f)])
	}
	if v.NoM15 {
		out = append(out, "ver:show-tables-without-metrics_15s")
	}
	return out
}

func (b *backend) answerVersion(q string) *fakesql.Result {
	if strings.HasPrefix(strings.TrimSpace(q), "SHOW TABLES") {
		res := fakesql.AnswerVersion(q)
		if b.ver.NoM15 {
			var rows [][]any
			for _, r := range res.Rows {
				if n, _ := r[0].(string); n == "metrics_15s" || n == "metrics_15s_dist" {
					continue
				}
				rows = append(rows, r)
			}
			res.Rows = rows
		}
		return res
	}
	res := &fakesql.Result{Cols: []string{"_name", "_value"}, FailAfter: -1}
	for _, f := range verFeatures {
		if t, ok := b.ver.upgradeTime(f, b.win); ok {
			res.Rows = append(res.Rows, []any{f, fmt.Sprint(t)})
		}
	}
	return res
}

func nativeCell(v any) any {
	switch x := v.(type) {
	case chsim.Tuple:
		// Tuple -> []any, as clickhouse-go delivers it
		out := make([]any, len(x))
		for i, e := range x {
			out[i] = nativeCell(e)
		}
		return out
	case []any:
		if len(x) == 0 {
			return [][]any{}
		}
		allTuple, allStr, allInt := true, true, true
		for _, e := range x {
			if _, ok := e.(chsim.Tuple); !ok {
				allTuple = false
			}
			if _, ok := e.(string); !ok {
				allStr = false
			}
			if _, ok := asInt64(e); !ok {
				allInt = false
			}
		}
		switch {
		case allTuple:
			// Array(Tuple(...)) -> [][]any (promQueryable labelsGetter.Fetch, profService scan it so)
			out := make([][]any, len(x))
			for i, e := range x {
				out[i] = nativeCell(e).([]any)
			}
			return out
		case allStr:
			// Array(String) -> []string, Array(Int*) -> []int64 (TraceQLRequestProcessor scans both)
			out := make([]string, len(x))
			for i, e := range x {
				out[i] = e.(string)
			}
			return out
		case allInt:
			out := make([]int64, len(x))
			for i, e := range x {
				out[i], _ = asInt64(e)
			}
			return out
		}
		out := make([]any, len(x))
		for i, e := range x {
			out[i] = nativeCell(e)
		}
		return out
	}
	return chsim.Native(v)
}

func (b *backend) handle(ctx context.Context, q string, args []driver.NamedValue) (*fakesql.Result, error) {
	if fakesql.IsVersionQuery(q) {
		return b.answerVersion(q), nil
	}
	res, err := b.db.Query(q)
	b.mu.Lock()
	defer b.mu.Unlock()
	rec := stmtRec{SQL: q, Err: err}
	if err != nil {
		b.stmts = append(b.stmts, rec)
		return nil, err
	}
	rec.Scans = res.Scans
	rec.Rows = len(res.Rows)
	b.stmts = append(b.stmts, rec)
	if b.complexity > 0 && isComplexityStmt(q) {
		return fakesql.Rows([]string{"_count"}, []any{b.complexity}), nil
	}
	out := &fakesql.Result{Cols: res.Cols, FailAfter: -1}
	for _, row := range res.Rows {
		r := make([]any, len(row))
		for i, c := range row {
			r[i] = nativeCell(c)
		}
		out.Rows = append(out.Rows, r)
	}
	return out, nil
}

func (b *backend) statements() []stmtRec {
	b.mu.Lock()
	defer b.mu.Unlock()
	return append([]stmtRec(nil), b.stmts...)
}

// stmtProblem reports how the reference interpreter took the statements: "" fine,
// "unsupported" (outside the modelled subset: discard), "rejected: ..." (ClickHouse would
// reject the statement: not this property's business, discard and count).
func stmtProblem(st []stmtRec) string {
	for _, s := range st {
		if s.Err == nil {
			continue
		}
		if errors.Is(s.Err, chsim.ErrUnsupported) {
			return "chsim-unsupported"
		}
		return "stmt-rejected"
	}
	return ""
}

func dbCfg(cluster bool) *clcfg.ClokiBaseDataBase {
	c := &clcfg.ClokiBaseDataBase{Name: "qryn"}
	if cluster {
		c.ClusterName = "c1"
	}
	return c
}

// newReader assembles the real reader over db.
func newReader(db *chsim.DB, cluster bool, ver VerCfg, w Win) (*readersvc.Reader, *backend) {
	b := &backend{db: db, ver: ver, win: w}
	return readersvc.NewReaderCfg(b.handle, dbCfg(cluster)), b
}

// ---- the log / metric store, as the real writer lays it out ---------------------------------

// Smp is one sample. Timestamps are unique within a case: they identify the sample in results.
type Smp struct {
	Ts int64   `json:"ts"`
	M  string  `json:"m,omitempty"` // log line (carries a marker)
	V  float64 `json:"v,omitempty"`
}

// Strm is one series: a label set pushed as log lines (Loki JSON) or metric points
// (remote write). Tag is a free-form role name used in messages.
type Strm struct {
	Tag    string      `json:"tag"`
	Labels []gen.Label `json:"labels"`
	Metric bool        `json:"metric,omitempty"`
	Smps   []Smp       `json:"smps"`
}

// builtStream is what the writer made of a Strm.
type builtStream struct {
	spec  *Strm
	fp    uint64
	tp    uint8
	dates map[chsim.Date]bool
}

type logStore struct {
	db      *chsim.DB
	streams []builtStream
}

var logCols = struct{ samples, series, gin, m15 []string }{
	samples: []string{"fingerprint", "timestamp_ns", "value", "string", "type"},
	series:  []string{"date", "fingerprint", "labels", "name", "type"},
	gin:     []string{"date", "key", "val", "fingerprint", "type"},
	m15:     []string{"fingerprint", "timestamp_ns", "last", "max", "min", "count", "sum", "bytes", "type"},
}

// buildLogStore pushes every stream through the real parsing function of its protocol
// under the writer's zone (writer/utils/unmarshal: the series date is computed there) and
// converts the parser's dates with ch-go's proto.ToDate, which is what
// writer/service/colAdaptors.go DateAppender -> proto.ColDate.Append does at insert time.
// keep selects the samples of each stream that exist in this variant of the database.
func buildLogStore(streams []Strm, wzone int, keep func(s *Strm, sm Smp) bool) (*logStore, error) {
	st := &logStore{db: chsim.NewDB()}
	var samples, series, gin [][]any
	var err error
	inZone(wzone, func() {
		c03.Setup(1)
		for i := range streams {
			sp := &streams[i]
			var ents []gen.Entry
			for _, sm := range sp.Smps {
				if keep != nil && !keep(sp, sm) {
					continue
				}
				if sp.Metric {
					ents = append(ents, gen.Entry{Ts: sm.Ts, Kind: gen.KindMetric, Val: sm.V})
				} else {
					ents = append(ents, gen.Entry{Ts: sm.Ts, Kind: gen.KindLog, Line: evid.Str(sm.M)})
				}
			}
			if len(ents) == 0 {
				continue
			}
			p := gen.LokiJSON
			if sp.Metric {
				p = gen.PromRW
			}
			body := gen.Body{Sets: [][]gen.Label{sp.Labels}, Chunks: []gen.Chunk{{Set: 0, Entries: ents}}}
			parsed := c03.ParseBody(p, body, false)
			if parsed.Err != nil || parsed.Shape != "" {
				err = fmt.Errorf("harness: writer rejected generated stream %s: %v %s", sp.Tag, parsed.Err, parsed.Shape)
				return
			}
			if len(parsed.Samples) != len(ents) {
				err = fmt.Errorf("harness: writer produced %d samples for %d entries of stream %s", len(parsed.Samples), len(ents), sp.Tag)
				return
			}
			bs := builtStream{spec: sp, fp: parsed.Samples[0].FP, tp: parsed.Samples[0].Type, dates: map[chsim.Date]bool{}}
			for _, r := range parsed.Samples {
				samples = append(samples, []any{r.FP, r.Ts, r.Val, r.Line, r.Type})
			}
			for _, r := range parsed.Series {
				d := chsim.Date(proto.ToDate(r.Date))
				bs.dates[d] = true
				series = append(series, []any{d, r.FP, r.Labels, "", r.Type})
				// materialized view time_series_gin_view (ctrl/qryn/sql/log.sql): one row per pair
				// of JSONExtractKeysAndValues(labels, 'String')
				var m map[string]string
				if e := json.Unmarshal([]byte(r.Labels), &m); e != nil {
					err = fmt.Errorf("harness: label document of %s is not JSON: %v", sp.Tag, e)
					return
				}
				keys := make([]string, 0, len(m))
				for k := range m {
					keys = append(keys, k)
				}
				sort.Strings(keys)
				for _, k := range keys {
					gin = append(gin, []any{d, k, m[k], r.FP, r.Type})
				}
			}
			st.streams = append(st.streams, bs)
		}
	})
	if err != nil {
		return nil, err
	}
	// materialized view metrics_15s_mv: GROUP BY fingerprint, intDiv(ts, 15e9)*15e9, type
	type mkey struct {
		fp uint64
		ts int64
		tp uint8
	}
	type magg struct {
		lastTs              int64
		last, max, min, sum float64
		count               uint64
		bytes               float64
	}
	aggs := map[mkey]*magg{}
	var order []mkey
	for _, r := range samples {
		k := mkey{r[0].(uint64), r[1].(int64) / (15 * nsSec) * (15 * nsSec), r[4].(uint8)}
		v := r[2].(float64)
		a := aggs[k]
		if a == nil {
			a = &magg{lastTs: r[1].(int64), last: v, max: v, min: v}
			aggs[k] = a
			order = append(order, k)
		}
		if r[1].(int64) >= a.lastTs {
			a.lastTs, a.last = r[1].(int64), v
		}
		if v > a.max {
			a.max = v
		}
		if v < a.min {
			a.min = v
		}
		a.sum += v
		a.count++
		a.bytes += float64(len(r[3].(string)))
	}
	var m15 [][]any
	for _, k := range order {
		a := aggs[k]
		m15 = append(m15, []any{k.fp, k.ts, chsim.Tuple{a.last, a.lastTs}, a.max, a.min, a.count, a.sum, a.bytes, k.tp})
	}
	st.db.AddTable("samples_v3", logCols.samples, samples)
	st.db.AddTable("time_series", logCols.series, series)
	st.db.AddTable("time_series_gin", logCols.gin, gin)
	st.db.AddTable("metrics_15s", logCols.m15, m15)
	for _, t := range []string{"samples_v3", "time_series", "time_series_gin", "metrics_15s"} {
		st.db.Alias(t+"_dist", t)
	}
	return st, nil
}

func (st *logStore) stream(tag string) *builtStream {
	for i := range st.streams {
		if st.streams[i].spec.Tag == tag {
			return &st.streams[i]
		}
	}
	return nil
}

// writerDatesUTC reports whether, in this tree, the writer dates a series row with the UTC
// day of its sample when it runs in zone z (probe through the real parser). False west of
// UTC on the unfixed tree: DESIGN section 4 #9, fixed by fix/c01.
func writerDatesUTC(z int) bool {
	ts := utcMidnight(2024, 1, 15) + 12*3600*nsSec
	st, err := buildLogStore([]Strm{{Tag: "probe", Labels: []gen.Label{gen.L("probe", "p")}, Smps: []Smp{{Ts: ts, M: "x"}}}}, z, nil)
	if err != nil || len(st.streams) != 1 {
		return false
	}
	return st.streams[0].dates[dayOf(ts)] && len(st.streams[0].dates) == 1
}

// ---- structural oracle over the scan log ------------------------------------------------------

// limits says which rows a statement of the request may admit.
type limits struct {
	// data rows: timestamp must lie in [DataLo, DataHi] (already includes the don't-care
	// boundary instants and the documented widening of the endpoint).
	DataLo, DataHi int64
	// Types: admissible values of the `type` column (nil: the table family has none).
	Types map[uint8]bool
	// index rows: date must be >= IdxLo; and <= IdxHi when CheckIdxHi.
	IdxLo, IdxHi chsim.Date
	CheckIdxHi   bool
	// IndexDateOnly: the timestamp column of tempo_traces_attrs_gin is not judged (the
	// statement family bounds that index by date alone in this schema-version class).
	IndexDateOnly bool
	// Skip: statements (by substring) outside the property (auxiliary estimates).
	Skip func(sql string) bool
}

var dataTables = map[string]bool{"samples_v3": true, "metrics_15s": true, "tempo_traces": true, "profiles": true}
var indexTables = map[string]bool{"time_series": true, "time_series_gin": true, "tempo_traces_attrs_gin": true, "tempo_traces_kv": true,
	"profiles_series": true, "profiles_series_gin": true, "profiles_series_keys": true}

func colIdx(t *chsim.Table, name string) int {
	for i, c := range t.Cols {
		if c == name {
			return i
		}
	}
	return -1
}

func asInt64(v any) (int64, bool) {
	switch x := v.(type) {
	case int64:
		return x, true
	case uint64:
		return int64(x), true
	case int32:
		return int64(x), true
	case uint32:
		return int64(x), true
	case int16:
		return int64(x), true
	case uint16:
		return int64(x), true
	case int8:
		return int64(x), true
	case uint8:
		return int64(x), true
	case int:
		return int64(x), true
	}
	return 0, false
}

func fmtTs(ns int64) string {
	return fmt.Sprintf("%d (%s)", ns, time.Unix(0, ns).UTC().Format("2006-01-02T15:04:05.000000000Z"))
}

func clipSQL(s string) string {
	if len(s) > 900 {
		return s[:900] + "…"
	}
	return s
}

// checkScans is oracle (b): every scan of a base data table is filtered and admits no row
// outside the limits (time or signal type); every scan of an index table is filtered and
// admits no row dated outside the covering date range.
func checkScans(db *chsim.DB, stmts []stmtRec, lim limits, o *evid.Obs) error {
	if os.Getenv("C13_NO_STRUCT") != "" {
		// sensitivity experiments only: shows what the semantic oracle (a) catches on its own
		return nil
	}
	for _, s := range stmts {
		if s.Err != nil || (lim.Skip != nil && lim.Skip(s.SQL)) {
			continue
		}
		for _, sc := range s.Scans {
			isData, isIdx := dataTables[sc.Table], indexTables[sc.Table]
			if !isData && !isIdx {
				continue
			}
			t := db.Table(sc.Table)
			if t == nil {
				continue
			}
			if sc.Offered == 0 {
				continue
			}
			o.Tag("scan:" + sc.Table)
			if !sc.Filtered {
				return fmt.Errorf("structural: scan of %s (as %q) has no WHERE/PREWHERE at all: the whole table is read\n  statement: %s", sc.Table, sc.Ref, clipSQL(s.SQL))
			}
			tsCol, tpCol, dtCol := colIdx(t, "timestamp_ns"), colIdx(t, "type"), colIdx(t, "date")
			for _, ri := range sc.AdmittedRows {
				row := t.Rows[ri]
				if tsCol >= 0 && (isData || (sc.Table == "tempo_traces_attrs_gin" && !lim.IndexDateOnly)) {
					ts, _ := asInt64(row[tsCol])
					lo, hi := ts, ts
					if sc.Table == "metrics_15s" {
						hi = ts + 15*nsSec - 1 // a 15 s bucket covers [ts, ts+15s)
					}
					if hi < lim.DataLo || lo > lim.DataHi {
						return fmt.Errorf("structural: scan of %s admits a row at %s, outside the admissible range [%s, %s] of the request\n  row: %v\n  statement: %s",
							sc.Table, fmtTs(ts), fmtTs(lim.DataLo), fmtTs(lim.DataHi), row, clipSQL(s.SQL))
					}
				}
				if tpCol >= 0 && lim.Types != nil {
					tp, _ := asInt64(row[tpCol])
					if !lim.Types[uint8(tp)] {
						return fmt.Errorf("structural: scan of %s admits a row of signal type %d (request is for %v)\n  row: %v\n  statement: %s",
							sc.Table, tp, typeList(lim.Types), row, clipSQL(s.SQL))
					}
				}
				if dtCol >= 0 && isIdx {
					d, ok := row[dtCol].(chsim.Date)
					if !ok {
						continue
					}
					if d < lim.IdxLo || (lim.CheckIdxHi && d > lim.IdxHi) {
						return fmt.Errorf("structural: scan of index table %s admits a row dated %s, outside the date range [%s, %s] that covers the window (one day of slack each side)\n  row: %v\n  statement: %s",
							sc.Table, dateStr(d), dateStr(lim.IdxLo), dateStr(lim.IdxHi), row, clipSQL(s.SQL))
					}
				}
			}
		}
	}
	return nil
}

func dateStr(d chsim.Date) string {
	return time.Unix(int64(d)*86400, 0).UTC().Format("2006-01-02")
}

func typeList(m map[uint8]bool) []int {
	var out []int
	for k := range m {
		out = append(out, int(k))
	}
	sort.Ints(out)
	return out
}

// mustAdmit checks that some scan of table admitted the row with the given timestamp (and
// fingerprint); used for inside-edge rows of aggregate queries whose output carries no
// per-row marker.
func admitted(db *chsim.DB, stmts []stmtRec, table string, match func(row []any) bool) bool {
	t := db.Table(table)
	if t == nil {
		return false
	}
	for _, s := range stmts {
		for _, sc := range s.Scans {
			if sc.Table != table {
				continue
			}
			for _, ri := range sc.AdmittedRows {
				if match(t.Rows[ri]) {
					return true
				}
			}
		}
	}
	return false
}

func scanned(stmts []stmtRec, table string) bool {
	for _, s := range stmts {
		for _, sc := range s.Scans {
			if sc.Table == table {
				return true
			}
		}
	}
	return false
}

func sqlDump(stmts []stmtRec) string {
	var sb strings.Builder
	for i, s := range stmts {
		fmt.Fprintf(&sb, "  [%d] %s\n", i, clipSQL(s.SQL))
		if s.Err != nil {
			fmt.Fprintf(&sb, "      -> %v\n", s.Err)
		}
	}
	return sb.String()
}

// canonJSON re-marshals arbitrary decoded JSON with sorted keys (encoding/json sorts map keys).
func canonJSON(v any) string {
	b, _ := json.Marshal(v)
	return string(b)
}

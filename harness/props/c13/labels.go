package c13

// labels.go: C13 on the index-only endpoints, through the real HTTP route table:
//   Loki        /loki/api/v1/labels, /loki/api/v1/label/{name}/values, /loki/api/v1/series
//   Prometheus  /api/v1/labels, /api/v1/label/{name}/values, /api/v1/series
//
// These endpoints read only time_series / time_series_gin and are day-granular by design
// (the index has one row per series and day). The property demands of them that the date
// range COVERS the window and that the signal type is the one of the API. So:
//   must be found:     a series with a sample inside the window (at `from`, at `to - 1 ns`,
//                      anywhere between) - its index row is dated by the real writer;
//   must not be found: a series of the other signal with samples inside the window, and a
//                      series whose only index rows are dated two or more UTC days before
//                      the window's first day or after its last day;
//   don't care:        series dated on the day before / after the window's days (the
//                      planners' 30-minute margin legitimately reaches the previous day).
// All series share the label app="a" the matchers select on; each has a label `sid` with a
// unique value and a label name of its own (k_<sid>) - the markers.

import (
	"encoding/json"
	"fmt"
	"net/url"
	"sort"
	"strings"
	"time"

	"pgregory.net/rapid"

	"qrynverif/chsim"
	"qrynverif/evid"
	"qrynverif/gen"
	"qrynverif/readersvc"
)

type labelsCase struct {
	Win      Win    `json:"win"`
	WZone    int    `json:"wzone"`
	RZone    int    `json:"rzone"`
	Cluster  bool   `json:"cluster,omitempty"`
	Endpoint string `json:"endpoint"`
	RFC3339  bool   `json:"rfc3339,omitempty"` // prom labels / series accept RFC 3339 times
	Streams  []Strm `json:"streams"`
	Ver      VerCfg `json:"ver"`
}

var labelEndpoints = []string{"loki-labels", "loki-values", "loki-values-match", "loki-series",
	"prom-labels", "prom-values", "prom-values-match", "prom-series"}

func genLabels(rt *rapid.T) labelsCase {
	c := labelsCase{
		WZone:    rapid.IntRange(0, 2).Draw(rt, "wzone"),
		RZone:    rapid.IntRange(0, 2).Draw(rt, "rzone"),
		Cluster:  rapid.Bool().Draw(rt, "cluster"),
		Endpoint: labelEndpoints[rapid.IntRange(0, len(labelEndpoints)-1).Draw(rt, "endpoint")],
	}
	prom := strings.HasPrefix(c.Endpoint, "prom-")
	gran := int64(1)
	if prom {
		gran = nsSec // the Prometheus flavours take seconds (controller/promQueryLabelsController.go)
		c.RFC3339 = (c.Endpoint == "prom-labels" || c.Endpoint == "prom-series") && rapid.Bool().Draw(rt, "rfc3339")
	}
	w := genWin(rt, gran)
	c.Win = w
	used := tsSet{}
	step := int64(1)
	if prom {
		step = nsMs // remote write carries milliseconds
	}
	at := func(ts int64) int64 { return ts - ts%step }
	mkStream := func(sid string, metric bool, ts ...int64) {
		s := Strm{Tag: sid, Metric: metric, Labels: []gen.Label{gen.L("app", "a"), gen.L("sid", sid), gen.L("k_"+sid, "v_"+sid)}}
		if metric {
			s.Labels = append(s.Labels, gen.L("__name__", "m"))
		}
		for i, t := range ts {
			st := int64(1)
			if metric {
				st = nsMs
				t -= t % nsMs
			}
			// keep the sample on the side of the window it was drawn for
			lo, hi := int64(1), int64(1)<<62
			switch {
			case t >= w.From && t < w.To:
				lo, hi = w.From, w.To-1
			case t < w.From:
				hi = w.From - 1
			default:
				lo = w.To
			}
			if t = used.near(t, st, lo, hi); t > 0 {
				s.Smps = append(s.Smps, Smp{Ts: t, M: fmt.Sprintf("m-%s-%d", sid, i), V: float64(i + 1)})
			}
		}
		if len(s.Smps) > 0 {
			c.Streams = append(c.Streams, s)
		}
	}
	some := func(name string) bool { return rapid.IntRange(0, 9).Draw(rt, name) < 8 }
	sig := prom // wanted signal: metric for the Prometheus flavours
	// inside
	insideLo, insideHi := w.From, w.To-1
	if sig { // keep millisecond-aligned points inside the window
		insideLo, insideHi = (w.From+nsMs-1)/nsMs*nsMs, (w.To-1)/nsMs*nsMs
	}
	if insideHi < insideLo {
		insideLo, insideHi = w.From, w.From // cannot happen: prom windows are whole seconds
	}
	mkStream("in", sig, at(r64(rt, insideLo, insideHi, "in")))
	if some("elo") {
		mkStream("elo", sig, insideLo)
	}
	if some("ehi") {
		mkStream("ehi", sig, insideHi)
	}
	if some("multi") { // a series alive before, inside and after
		mkStream("multi", sig, w.From-r64(rt, 1, 3*nsDay, "mb"), at(r64(rt, insideLo, insideHi, "mi")), w.To+r64(rt, 0, 3*nsDay, "ma"))
	}
	if m, ok := w.middleDay(); ok {
		mkStream("mid", sig, m+r64(rt, 0, 3600, "midOff")*nsSec)
	}
	if some("pfb") {
		mkStream("pfb", sig, int64(dayOf(w.From)-1)*nsDay-1-r64(rt, 0, 2*nsDay, "pfb"))
	}
	if some("pfa") {
		mkStream("pfa", sig, int64(dayOf(w.To)+2)*nsDay+r64(rt, 0, 2*nsDay, "pfa"))
	}
	if some("other") {
		mkStream("other", !sig, at(r64(rt, insideLo, insideHi, "other")))
	}
	c.Ver = genVer(rt)
	return c
}

func fmtTime(ns int64, prom, rfc bool) string {
	switch {
	case prom && rfc:
		return time.Unix(0, ns).UTC().Format(time.RFC3339)
	case prom:
		return fmt.Sprint(ns / nsSec)
	}
	return fmt.Sprint(ns)
}

func predLabels(c labelsCase, o *evid.Obs) error {
	restore := readersvc.Quiet()
	defer restore()
	w := c.Win
	prom := strings.HasPrefix(c.Endpoint, "prom-")
	store, err := buildLogStore(c.Streams, c.WZone, nil)
	if err != nil {
		return err
	}
	o.Tag(w.tags()...)
	o.Tag("wzone:"+zoneNames[c.WZone], "rzone:"+zoneNames[c.RZone], "endpoint:"+c.Endpoint)
	if c.Cluster {
		o.Tag("cluster")
	} else {
		o.Tag("single-node")
	}

	q := url.Values{}
	q.Set("start", fmtTime(w.From, prom, c.RFC3339))
	q.Set("end", fmtTime(w.To, prom, c.RFC3339))
	matcher := `{app="a"}`
	if prom {
		matcher = `m{app="a"}`
	}
	var path string
	switch c.Endpoint {
	case "loki-labels":
		path = "/loki/api/v1/labels"
	case "loki-values":
		path = "/loki/api/v1/label/sid/values"
	case "loki-values-match":
		path = "/loki/api/v1/label/sid/values"
		q.Add("match[]", matcher)
	case "loki-series":
		path = "/loki/api/v1/series"
		q.Add("match[]", matcher)
	case "prom-labels":
		path = "/api/v1/labels"
	case "prom-values":
		path = "/api/v1/label/sid/values"
	case "prom-values-match":
		path = "/api/v1/label/sid/values"
		q.Add("match[]", matcher)
	case "prom-series":
		path = "/api/v1/series"
		q.Add("match[]", matcher)
	}
	rd, be := newReader(store.db, c.Cluster, c.Ver, w)
	o.Tag(c.Ver.tags(w, "v3_1")...)
	defer rd.Close()
	var resp *readersvc.Response
	inZone(c.RZone, func() {
		resp = rd.Get(path + "?" + q.Encode())
	})
	stmts := be.statements()
	if p := stmtProblem(stmts); p != "" {
		o.Discard(p)
		return nil
	}
	if resp.Code != 200 {
		return fmt.Errorf("%s %s?%s: HTTP %d %.300s\n%s", c.Endpoint, path, q.Encode(), resp.Code, resp.Body, sqlDump(stmts))
	}
	var doc struct {
		Status string            `json:"status"`
		Data   []json.RawMessage `json:"data"`
	}
	if err := json.Unmarshal(resp.Body, &doc); err != nil {
		return fmt.Errorf("%s: response is not JSON (%v): %.300s", c.Endpoint, err, resp.Body)
	}
	// which sids does the response show?
	shown := map[string]bool{}
	for _, raw := range doc.Data {
		switch {
		case strings.HasSuffix(c.Endpoint, "-labels"):
			var name string
			_ = json.Unmarshal(raw, &name)
			if strings.HasPrefix(name, "k_") {
				shown[name[2:]] = true
			}
		case strings.HasSuffix(c.Endpoint, "-series"):
			var m map[string]string
			if err := json.Unmarshal(raw, &m); err != nil {
				return fmt.Errorf("%s: series element is not an object: %s", c.Endpoint, raw)
			}
			shown[m["sid"]] = true
		default:
			var v string
			_ = json.Unmarshal(raw, &v)
			shown[v] = true
		}
	}

	sigType := uint8(1)
	if prom {
		sigType = 2
	}
	loDay, hiDay := dayOf(w.From), dayOf(w.To-1)
	nt := false
	for i := range store.streams {
		bs := &store.streams[i]
		var ds []string
		far, hasInside := true, false
		for d := range bs.dates {
			ds = append(ds, dateStr(d))
			if d >= loDay-1 && d <= hiDay+1 {
				far = false
			}
		}
		sort.Strings(ds)
		for _, sm := range bs.spec.Smps {
			if sm.Ts >= w.From && sm.Ts < w.To {
				hasInside = true
			}
		}
		what := fmt.Sprintf("series sid=%s (signal type %d, samples at %v, index rows dated %v by the writer in zone %s)", bs.spec.Tag, bs.tp, sampleTimes(bs.spec), ds, zoneNames[c.WZone])
		ctx := fmt.Sprintf("%s window [%s, %s) reader zone %s cluster=%v", c.Endpoint, fmtTs(w.From), fmtTs(w.To), zoneNames[c.RZone], c.Cluster)
		switch {
		case bs.tp != sigType:
			if shown[bs.spec.Tag] {
				return fmt.Errorf("%s returns %s: it belongs to the other signal\n%s", ctx, what, sqlDump(stmts))
			}
			o.Tag("kept-out:other-signal")
			nt = nt || hasInside
		case hasInside:
			if !shown[bs.spec.Tag] {
				return fmt.Errorf("%s misses %s: it has a sample inside the window, so the index date range does not cover the window\n%s", ctx, what, sqlDump(stmts))
			}
			o.Tag("found-inside")
			if bs.spec.Tag == "mid" {
				o.Tag("middle-day-only:found")
			}
		case far:
			if shown[bs.spec.Tag] {
				return fmt.Errorf("%s returns %s: all its index rows are two or more days away from the window's days [%s, %s]\n%s", ctx, what, dateStr(loDay), dateStr(hiDay), sqlDump(stmts))
			}
			o.Tag("kept-out:far-date")
			nt = true
		default:
			o.Tag("dont-care:adjacent-day")
		}
	}
	if nt {
		o.NonTrivial()
	}
	lim := limits{DataLo: w.From, DataHi: w.To, Types: map[uint8]bool{sigType: true, 0: true},
		// the fingerprint sub-select of a matcher (StreamSelectPlanner) has a lower date bound
		// only, by design, inside a statement whose outer SELECT carries both bounds: the
		// upper bound is decided on the response (far-after series) and not per scan
		IdxLo: loDay - 1, IdxHi: dayOf(w.To) + 1, CheckIdxHi: false,
		Skip: func(sql string) bool { return readersvc.Classify(sql) == readersvc.KindComplexity }}
	if err := checkScans(store.db, stmts, lim, o); err != nil {
		return fmt.Errorf("%s window [%s, %s) reader zone %s cluster=%v: %v", c.Endpoint, fmtTs(w.From), fmtTs(w.To), zoneNames[c.RZone], c.Cluster, err)
	}
	return nil
}

func sampleTimes(s *Strm) []string {
	var out []string
	for _, sm := range s.Smps {
		out = append(out, time.Unix(0, sm.Ts).UTC().Format("2006-01-02T15:04:05.999999999Z"))
	}
	return out
}

var _ = chsim.Date(0)

func addLabels(r *evid.Run) {
	evid.Add(r, evid.Prop[labelsCase]{Name: "labels", Quick: 1000, Thorough: 5000, Gen: genLabels, Pred: predLabels})
}

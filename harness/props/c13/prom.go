package c13

// prom.go: C13 on the Prometheus storage.Querier the PromQL engine reads through
// (service/promQueryable.go CLokiQuerier.Select) with every hint function, on the raw path
// (samples_v3) and on the down-sampled path (metrics_15s), and on the label lookup that
// follows every Select (labelsGetter: time_series by fingerprint and date range).
//
// Contract read from the code: Select(hints) reads the metric samples with
// Start < t <= End (promql/transpiler/init_clickhouse_planner.go: > from, <= to; the
// engine asks for the left-open look-back interval). The instant `Start` itself is
// don't-care. The down-sampled path compares 15 s bucket starts with the same bounds, so
// its admissible range reaches the end of the bucket that contains End ("widened at most
// to 15-second storage boundaries"); the bucket that starts exactly at Start is don't-care.
//
// Oracles: (a) raw path without step: every point inside is returned with its own
// timestamp and (unique) value, no point outside or of the log signal is; always:
// metamorphic - the result on the full database equals the result on the database without
// the poison samples; every returned series has its labels (the label lookup's date range
// covers the window). (b) checkScans + every inside sample / its bucket is admitted.

import (
	"context"
	"fmt"
	"sort"
	"strings"

	"github.com/prometheus/prometheus/model/labels"
	"github.com/prometheus/prometheus/storage"
	"pgregory.net/rapid"

	"qrynverif/evid"
	"qrynverif/gen"
	"qrynverif/readersvc"
)

type promCase struct {
	StartMs int64  `json:"start_ms"`
	EndMs   int64  `json:"end_ms"`
	WKind   string `json:"wkind"`
	WZone   int    `json:"wzone"`
	RZone   int    `json:"rzone"`
	Cluster bool   `json:"cluster,omitempty"`
	Func    string `json:"func"`
	StepMs  int64  `json:"step_ms"`
	RangeMs int64  `json:"range_ms"`
	Matcher int    `json:"matcher"`
	Streams []Strm `json:"streams"`
	Ver     VerCfg `json:"ver"`
}

// every function name the transpilers know (promQueryable.go supportedFunctions,
// transpiler.go instantVectors / rangeVectors) plus names they do not know
var hintFuncs = []string{"", "avg_over_time", "min_over_time", "max_over_time", "sum_over_time", "count_over_time",
	"quantile_over_time", "stddev_over_time", "stdvar_over_time", "last_over_time", "present_over_time", "absent_over_time",
	"abs", "absent", "ceil", "exp", "floor", "ln", "log2", "log10", "round", "scalar", "sgn", "sort", "sqrt", "timestamp",
	"atan", "cos", "cosh", "sin", "sinh", "tan", "tanh", "deg", "rad",
	"sum", "min", "max", "group", "avg", "count", "topk",
	"deriv", "idelta", "irate", "rate", "resets", "delta", "increase", "changes", "histogram_quantile", "label_replace"}

func isRangeFunc(f string) bool {
	return strings.HasSuffix(f, "_over_time") || map[string]bool{"deriv": true, "idelta": true, "irate": true, "rate": true,
		"resets": true, "delta": true, "increase": true, "changes": true}[f]
}

// thinnedFuncs: with Step > Range the transpilers keep only the samples near the step
// grid (transpiler.go processHints, hints_downsample_planner.go): a deliberate thinning
// INSIDE the window, outside this property. Inclusion is then don't-care.
var thinnedFuncs = map[string]bool{"absent_over_time": true, "deriv": true, "idelta": true, "irate": true,
	"rate": true, "resets": true, "min_over_time": true, "max_over_time": true, "sum_over_time": true,
	"count_over_time": true, "stddev_over_time": true, "stdvar_over_time": true, "last_over_time": true,
	"present_over_time": true, "delta": true, "increase": true, "avg_over_time": true}

func promMatchers(i int) []*labels.Matcher {
	switch i {
	case 1:
		return []*labels.Matcher{labels.MustNewMatcher(labels.MatchEqual, "__name__", "m"), labels.MustNewMatcher(labels.MatchRegexp, "app", "a|zz")}
	case 2:
		return []*labels.Matcher{labels.MustNewMatcher(labels.MatchEqual, "app", "a"), labels.MustNewMatcher(labels.MatchNotEqual, "sid", "none")}
	}
	return []*labels.Matcher{labels.MustNewMatcher(labels.MatchEqual, "__name__", "m"), labels.MustNewMatcher(labels.MatchEqual, "app", "a")}
}

func genProm(rt *rapid.T) promCase {
	c := promCase{
		WZone:   rapid.IntRange(0, 2).Draw(rt, "wzone"),
		RZone:   rapid.IntRange(0, 2).Draw(rt, "rzone"),
		Cluster: rapid.Bool().Draw(rt, "cluster"),
		Func:    hintFuncs[rapid.IntRange(0, len(hintFuncs)-1).Draw(rt, "func")],
		Matcher: rapid.IntRange(0, 2).Draw(rt, "matcher"),
	}
	w := genWin(rt, nsMs)
	c.WKind = w.Kind
	c.StartMs, c.EndMs = w.From/nsMs, w.To/nsMs
	c.StepMs = []int64{0, 1000, 5000, 15000, 60000}[rapid.IntRange(0, 4).Draw(rt, "step")]
	// the engine sets Range to the matrix selector's range for range-vector functions and
	// leaves it 0 otherwise (promql/engine.go populateSeries)
	c.RangeMs = 0
	if isRangeFunc(c.Func) {
		c.RangeMs = []int64{1000, 15000, 60000, 300000}[rapid.IntRange(0, 3).Draw(rt, "range")]
	}
	if rapid.Bool().Draw(rt, "align15") {
		// the down-sampled path needs Start % 15 s == 0 (promQueryable.go transpileLabelMatchers)
		c.StartMs -= c.StartMs % 15000
		if c.EndMs <= c.StartMs {
			c.EndMs = c.StartMs + 1
		}
	}
	// class "down-sampled range function": start multiple of 15 s, step and range >= 15 s, a
	// range function the 15 s path supports, step >, = and < range. With step > range the
	// planner adds the "tail of each step" filter (hints_downsample_planner.go:
	// timestamp_ns % step == 0 OR > step - range), which must stay AND-ed to the window, type
	// and fingerprint conditions.
	dsRange := rapid.IntRange(0, 2).Draw(rt, "dsRange") == 0
	if dsRange {
		c.Func = []string{"avg_over_time", "min_over_time", "max_over_time", "sum_over_time", "count_over_time",
			"last_over_time", "present_over_time", "absent_over_time"}[rapid.IntRange(0, 7).Draw(rt, "dsFunc")]
		c.RangeMs = []int64{15000, 60000, 300000}[rapid.IntRange(0, 2).Draw(rt, "dsRangeMs")]
		c.StepMs = []int64{15000, 60000, 300000, 900000}[rapid.IntRange(0, 3).Draw(rt, "dsStep")]
		c.StartMs -= c.StartMs % 15000
		if c.EndMs < c.StartMs+2*c.StepMs+1000 {
			c.EndMs = c.StartMs + 2*c.StepMs + 1000 + r64(rt, 0, 600, "dsExtend")*1000
		}
	}
	start, end := c.StartMs*nsMs, c.EndMs*nsMs
	used := tsSet{}
	val := 0.0
	add := func(s *Strm, ts, lo, hi int64) {
		ts -= ts % nsMs
		if ts = used.near(ts, nsMs, lo, hi); ts > 0 {
			val++
			s.Smps = append(s.Smps, Smp{Ts: ts, V: val, M: fmt.Sprintf("m-%s-%d", s.Tag, len(s.Smps))})
		}
	}
	some := func(name string) bool { return rapid.IntRange(0, 9).Draw(rt, name) < 7 }
	lbl := func(sid string) []gen.Label {
		return []gen.Label{gen.L("__name__", "m"), gen.L("app", "a"), gen.L("sid", sid)}
	}
	inLo, inHi := start+nsMs, end
	far := int64(1) << 62
	s0 := Strm{Tag: "s0", Metric: true, Labels: lbl("s0")}
	for i, n := 0, rapid.IntRange(1, 3).Draw(rt, "ninside"); i < n; i++ {
		add(&s0, r64(rt, inLo, inHi, "inside"), inLo, inHi)
	}
	if some("lo-edge") {
		add(&s0, inLo, inLo, inHi)
	}
	if some("hi-edge") {
		add(&s0, inHi, inLo, inHi)
	}
	if some("second-bucket") {
		add(&s0, start+15*nsSec+r64(rt, 0, 14999, "sb")*nsMs, inLo, inHi)
	}
	if some("at-start") {
		add(&s0, start, start, start) // don't-care instant
	}
	if some("before-1") {
		add(&s0, start-nsMs, 1, start-nsMs)
	}
	if some("after-1") {
		add(&s0, end+nsMs, end+nsMs, far)
	}
	if some("near-before") {
		add(&s0, start-r64(rt, 1, 3600_000, "nb")*nsMs, 1, start-nsMs)
	}
	if some("near-after") {
		add(&s0, end+r64(rt, 1, 3600_000, "na")*nsMs, end+nsMs, far)
	}
	if some("after-bucket") {
		add(&s0, end/(15*nsSec)*(15*nsSec)+15*nsSec+r64(rt, 0, 20000, "ab")*nsMs, end+nsMs, far)
	}
	if some("far-before") {
		add(&s0, start-3*nsDay-r64(rt, 0, 86400_000, "fb")*nsMs, 1, start-nsMs)
	}
	if some("far-after") {
		add(&s0, end+3*nsDay+r64(rt, 0, 86400_000, "fa")*nsMs, end+nsMs, far)
	}
	c.Streams = []Strm{s0}
	if some("elo") {
		s := Strm{Tag: "elo", Metric: true, Labels: lbl("elo")}
		add(&s, inLo+r64(rt, 0, 20000, "eloOff")*nsMs, inLo, inHi)
		if len(s.Smps) > 0 {
			c.Streams = append(c.Streams, s)
		}
	}
	if some("ehi") {
		s := Strm{Tag: "ehi", Metric: true, Labels: lbl("ehi")}
		add(&s, inHi-r64(rt, 0, 20000, "ehiOff")*nsMs, inLo, inHi)
		if len(s.Smps) > 0 {
			c.Streams = append(c.Streams, s)
		}
	}
	if m, ok := (Win{From: start, To: end}).middleDay(); ok {
		s := Strm{Tag: "mid", Metric: true, Labels: lbl("mid")}
		add(&s, m+r64(rt, 0, 3600, "midOff")*nsSec, inLo, inHi)
		if len(s.Smps) > 0 {
			c.Streams = append(c.Streams, s)
		}
	}
	if some("pnear") {
		s := Strm{Tag: "pnear", Metric: true, Labels: lbl("pnear")}
		add(&s, start-nsMs-r64(rt, 0, 60000, "pnb")*nsMs, 1, start-nsMs)
		add(&s, end+nsMs+r64(rt, 0, 60000, "pna")*nsMs, end+nsMs, far)
		c.Streams = append(c.Streams, s)
	}
	if some("decoy") {
		s := Strm{Tag: "decoy", Metric: true, Labels: []gen.Label{gen.L("__name__", "m"), gen.L("app", "b"), gen.L("sid", "decoy")}}
		add(&s, r64(rt, inLo, inHi, "decoyTs"), inLo, inHi)
		if len(s.Smps) > 0 {
			c.Streams = append(c.Streams, s)
		}
	}
	if some("twin") { // the log signal under the label set (and fingerprint) of s0
		s := Strm{Tag: "twin", Labels: lbl("s0")}
		for i, n := 0, rapid.IntRange(1, 2).Draw(rt, "ntwin"); i < n; i++ {
			add(&s, r64(rt, inLo, inHi, "twinTs"), inLo, inHi)
		}
		if len(s.Smps) > 0 {
			c.Streams = append(c.Streams, s)
		}
	}
	if dsRange {
		// poison buckets whose position inside the step falls in the tail (bucket start a
		// multiple of the step): days outside the window, of the log signal, of a fingerprint
		// the matchers do not select
		step := c.StepMs * nsMs
		stream := func(tag string, metric bool, labels []gen.Label) *Strm {
			for i := range c.Streams {
				if c.Streams[i].Tag == tag {
					return &c.Streams[i]
				}
			}
			c.Streams = append(c.Streams, Strm{Tag: tag, Metric: metric, Labels: labels})
			return &c.Streams[len(c.Streams)-1]
		}
		jit := func(name string) int64 { return r64(rt, 0, 14999, name) * nsMs }
		s0 := stream("s0", true, lbl("s0"))
		if b := floorTo(start-3*nsDay, step); b > 0 {
			add(s0, b+jit("tj1"), b, b+15*nsSec-nsMs)
		}
		b := floorTo(end+3*nsDay, step) + step
		add(s0, b+jit("tj2"), b, b+15*nsSec-nsMs)
		if k := (start/step + 1) * step; k+15*nsSec <= end {
			tw := stream("twin", false, lbl("s0"))
			add(tw, k+jit("tj3"), k, k+15*nsSec-nsMs)
			dc := stream("decoy", true, []gen.Label{gen.L("__name__", "m"), gen.L("app", "b"), gen.L("sid", "decoy")})
			add(dc, k+jit("tj4"), k, k+15*nsSec-nsMs)
		}
	}
	c.Ver = genVer(rt)
	return c
}

type promPoint struct {
	sid string
	ts  int64
	v   float64
}

func runSelect(rd *readersvc.Reader, c *promCase) (map[string][]promPoint, []string, error) {
	ctx := context.Background()
	q := rd.Prom.SetOidAndDB(ctx)
	qr, err := q.Querier(ctx, c.StartMs, c.EndMs)
	if err != nil {
		return nil, nil, err
	}
	hints := &storage.SelectHints{Start: c.StartMs, End: c.EndMs, Step: c.StepMs, Func: c.Func, Range: c.RangeMs}
	set := qr.Select(false, hints, promMatchers(c.Matcher)...)
	out := map[string][]promPoint{}
	var nolabels []string
	for set.Next() {
		s := set.At()
		ls := s.Labels()
		sid := ls.Get("sid")
		if len(ls) == 0 {
			nolabels = append(nolabels, "a series without labels")
		}
		it := s.Iterator()
		for it.Next() {
			t, v := it.At()
			out[sid] = append(out[sid], promPoint{sid, t, v})
		}
	}
	return out, nolabels, set.Err()
}

func canonProm(m map[string][]promPoint) string {
	var ks []string
	for k := range m {
		ks = append(ks, k)
	}
	sort.Strings(ks)
	var sb strings.Builder
	for _, k := range ks {
		fmt.Fprintf(&sb, "%s:", k)
		for _, p := range m[k] {
			fmt.Fprintf(&sb, " (%d %v)", p.ts, p.v)
		}
		sb.WriteString("\n")
	}
	return sb.String()
}

func selectedMetric(s *Strm) bool {
	if !s.Metric {
		return false
	}
	for _, l := range s.Labels {
		if string(l.Name) == "app" && string(l.Value) == "a" {
			return true
		}
	}
	return false
}

func predProm(c promCase, o *evid.Obs) error {
	restore := readersvc.Quiet()
	defer restore()
	start, end := c.StartMs*nsMs, c.EndMs*nsMs
	w := Win{From: start, To: end, Kind: c.WKind}
	full, err := buildLogStore(c.Streams, c.WZone, nil)
	if err != nil {
		return err
	}
	o.Tag(w.tags()...)
	o.Tag("wzone:"+zoneNames[c.WZone], "rzone:"+zoneNames[c.RZone], "func:"+c.Func)
	o.Tag(c.Ver.tags(w, "v5")...)
	if c.Cluster {
		o.Tag("cluster")
	} else {
		o.Tag("single-node")
	}
	run := func(st *logStore) (map[string][]promPoint, []string, []stmtRec, error) {
		rd, be := newReader(st.db, c.Cluster, c.Ver, w)
		defer rd.Close()
		var res map[string][]promPoint
		var nol []string
		var err error
		inZone(c.RZone, func() { res, nol, err = runSelect(rd, &c) })
		return res, nol, be.statements(), err
	}
	res, nolabels, stmts, qerr := run(full)
	if p := stmtProblem(stmts); p != "" {
		o.Discard(p)
		return nil
	}
	ctx := fmt.Sprintf("Select(func=%q step=%d range=%d) window (%s, %s] reader zone %s cluster=%v", c.Func, c.StepMs, c.RangeMs, fmtTs(start), fmtTs(end), zoneNames[c.RZone], c.Cluster)
	if qerr != nil {
		return fmt.Errorf("%s failed: %v\n%s", ctx, qerr, sqlDump(stmts))
	}
	ds := scanned(stmts, "metrics_15s")
	path := "raw"
	if ds {
		path = "downsampled"
	}
	o.Tag("path:" + path)
	b15 := func(ts int64) int64 { return floorTo(ts, 15*nsSec) }
	// admissible range (poison lies outside) and must-find predicate
	aLo, aHi := start, end
	must := func(ts int64) bool { return ts > start && ts <= end }
	if ds {
		aHi = b15(end) + 15*nsSec - 1
		must = func(ts int64) bool { return b15(ts) > start && b15(ts) <= end && ts <= end }
	}
	poison := func(s *Strm, sm Smp) bool { return !s.Metric || sm.Ts < aLo || sm.Ts > aHi }
	if c.StepMs != 0 && thinnedFuncs[c.Func] && c.StepMs > c.RangeMs {
		o.Tag("thinned-to-step-grid")
		must = func(int64) bool { return false }
	}

	var s0in, s0out, twin bool
	for i := range c.Streams {
		s := &c.Streams[i]
		for _, sm := range s.Smps {
			switch {
			case s.Tag == "s0" && must(sm.Ts):
				s0in = true
			case s.Tag == "s0" && poison(s, sm):
				s0out = true
			case s.Tag == "twin":
				twin = true
			}
		}
	}
	if a, b := full.stream("s0"), full.stream("twin"); twin && a != nil && b != nil && a.fp == b.fp {
		o.Tag("other-signal-shares-fingerprint")
	} else {
		twin = false
	}
	if s0in && (s0out || twin) {
		o.NonTrivial()
	}
	describe := func(bs *builtStream) string {
		var dd []string
		for d := range bs.dates {
			dd = append(dd, dateStr(d))
		}
		sort.Strings(dd)
		return fmt.Sprintf("series sid=%s (fingerprint %d, type %d, index rows dated %v by the writer in zone %s)", bs.spec.Tag, bs.fp, bs.tp, dd, zoneNames[c.WZone])
	}

	// (b) structural
	lim := limits{DataLo: aLo, DataHi: aHi, Types: map[uint8]bool{2: true, 0: true}, IdxLo: dayOf(start) - 1}
	if err := checkScans(full.db, stmts, lim, o); err != nil {
		return fmt.Errorf("%s (%s path): %v", ctx, path, err)
	}
	if len(nolabels) > 0 {
		return fmt.Errorf("%s (%s path) returns %v: the label lookup's date range does not cover the window\n%s", ctx, path, nolabels[0], sqlDump(stmts))
	}
	for i := range full.streams {
		bs := &full.streams[i]
		if !selectedMetric(bs.spec) {
			continue
		}
		for _, sm := range bs.spec.Smps {
			if !must(sm.Ts) {
				continue
			}
			var ok bool
			if ds {
				ok = admitted(full.db, stmts, "metrics_15s", func(row []any) bool {
					return row[0].(uint64) == bs.fp && row[1].(int64) == b15(sm.Ts) && row[8].(uint8) == 2
				})
			} else {
				ok = admitted(full.db, stmts, "samples_v3", func(row []any) bool {
					return row[0].(uint64) == bs.fp && row[1].(int64) == sm.Ts && row[4].(uint8) == 2
				})
			}
			if !ok {
				return fmt.Errorf("%s (%s path): the point at %s of %s lies inside the window but no scan of the sample tables admits it\n%s", ctx, path, fmtTs(sm.Ts), describe(bs), sqlDump(stmts))
			}
			o.Tag("found-inside")
			if bs.spec.Tag == "mid" {
				o.Tag("middle-day-only:found")
			}
			if _, has := res[bs.spec.Tag]; !has {
				return fmt.Errorf("%s (%s path): %s has a point inside the window (%s) but is not in the result\n%s", ctx, path, describe(bs), fmtTs(sm.Ts), sqlDump(stmts))
			}
		}
	}

	// every returned series belongs to a stream the matchers select
	for sid := range res {
		ok := false
		for i := range full.streams {
			if full.streams[i].spec.Tag == sid && selectedMetric(full.streams[i].spec) {
				ok = true
			}
		}
		if !ok {
			return fmt.Errorf("%s (%s path) returns a series sid=%q that the matchers do not select\n%s", ctx, path, sid, sqlDump(stmts))
		}
	}
	if ds && c.StepMs != 0 && thinnedFuncs[c.Func] {
		switch {
		case c.StepMs > c.RangeMs:
			o.Tag("ds-range-func:step>range(tail-filter)")
		case c.StepMs == c.RangeMs:
			o.Tag("ds-range-func:step=range")
		default:
			o.Tag("ds-range-func:step<range")
		}
	}

	// (a) raw path without step: the points themselves
	if !ds && c.StepMs == 0 {
		o.Tag("raw-points-compared")
		got := map[float64]promPoint{}
		for _, ps := range res {
			for _, p := range ps {
				got[p.v] = p
			}
		}
		for i := range full.streams {
			bs := &full.streams[i]
			for _, sm := range bs.spec.Smps {
				p, returned := got[sm.V]
				if !bs.spec.Metric {
					// a log line has value 0: it can only show up as a point at its timestamp
					returned = false
					for _, ps := range res {
						for _, q := range ps {
							if q.ts == sm.Ts/nsMs && q.v == 0 {
								returned = true
							}
						}
					}
				}
				switch {
				case selectedMetric(bs.spec) && must(sm.Ts):
					if !returned || p.ts != sm.Ts/nsMs {
						return fmt.Errorf("%s: the point (%s, %v) of %s lies inside the window but is not returned\n%s", ctx, fmtTs(sm.Ts), sm.V, describe(bs), sqlDump(stmts))
					}
				case returned && (poison(bs.spec, sm) || !selectedMetric(bs.spec)):
					return fmt.Errorf("%s returns the sample at %s (value %v) of %s, which lies outside the window or belongs to the other signal\n%s", ctx, fmtTs(sm.Ts), sm.V, describe(bs), sqlDump(stmts))
				}
			}
		}
	}

	// (a) metamorphic
	clean, err := buildLogStore(c.Streams, c.WZone, func(s *Strm, sm Smp) bool { return !poison(s, sm) })
	if err != nil {
		return err
	}
	res2, _, stmts2, qerr2 := run(clean)
	if p := stmtProblem(stmts2); p != "" {
		o.Discard(p)
		return nil
	}
	if qerr2 != nil {
		return fmt.Errorf("%s failed on the poison-free database: %v", ctx, qerr2)
	}
	if a, b := canonProm(res), canonProm(res2); a != b {
		return fmt.Errorf("%s (%s path): the result changes when samples outside [%s, %s] / of the log signal are added\n with poison:\n%.800s without:\n%.800s%s", ctx, path, fmtTs(aLo), fmtTs(aHi), a, b, sqlDump(stmts))
	}
	if len(res) > 0 {
		o.Tag("result-nonempty")
	}
	return nil
}

func addProm(r *evid.Run) {
	evid.Add(r, evid.Prop[promCase]{Name: "prom-select", Quick: 800, Thorough: 4000, Gen: genProm, Pred: predProm})
}

package c16

import (
	"testing"

	"qrynverif/evid"
)

func TestProp(t *testing.T) {
	r := evid.New(t, "C16", evid.Config{
		Level: "exploration",
		Rule:  "generated pprof profiles (1-6 per case, shared sample types and function table) through the exported profile parsers, their tree rows merged by service.Tree in a generated order; non-trivial: a recursive frame or a root frame shared by >=2 samples of one profile, and >=2 profiles sharing a root frame; diff: both sides have nodes, the union is >=3 deep and one side owns a chain of >=3 consecutive frames the other lacks",
		Assumptions: []string{
			"one value per sample type in every sample, distinct type:unit names, values >= 0 (pprof CheckValid; reader selects values by name)",
			"a service.Tree holds one sample type (getTree: SampleTypes = [type:unit]); rows reach MergeTrie either pre-summed per (parent, function, node) and ordered by parent id (the generated SQL) or profile by profile",
			"node ids (55-bit city hash of parent id and function id) do not collide within a case",
			"diff: the type id travels in the query text, so the diffed sample type and the period type are plain words; the fake database tells the two merge statements apart by the selector value",
			"the frame of a location is the function of its first line, n/a without lines (qryn's convention; only compared when no location has inlined lines)",
		},
	})
	addProf(r)
	addDiff(r)
	r.Main()
}

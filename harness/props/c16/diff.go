package c16

import (
	"context"
	"database/sql/driver"
	"fmt"
	"regexp"
	"sort"
	"strings"
	"time"

	"github.com/metrico/qryn/reader/service"
	"pgregory.net/rapid"

	"qrynverif/evid"
	"qrynverif/fakesql"
	"qrynverif/gen"
	"qrynverif/readersvc"
)

// ---- C16(b): the diff flame graph ------------------------------------------------------------
//
// Two multisets of profiles (left, right) -> writer rows (exported parsers, same laws as in
// tree.go) -> served, pre-summed per (parent, function, node) and ordered by parent id, by the
// scripted database/sql driver to the real ProfService.RenderDiff (getTree/MergeTrie per
// side, synchronizeNames, mergeNodes, computeFlameGraphDiff, diffToFlameBearer). The result is
// a flame graph in pyroscope's "double" format: every bar carries (offset, total, self) for
// the left and for the right side plus a name index. The property's laws apply per side.

type diffCase struct {
	Left    []gen.Pprof `json:"left"`
	Right   []gen.Pprof `json:"right"`
	Mode    string      `json:"mode"` // mixed | empty-left | empty-right | identical
	TypeIdx int         `json:"type_idx"`
	Shuffle uint64      `json:"shuffle"`
}

var plainWord = regexp.MustCompile(`^[a-z_]+$`)

// addChain gives p one more sample: a prefix of an existing stack (root first) followed by
// frames named names, which no other profile uses.
func addChain(rt *rapid.T, p *gen.Pprof, names []string, label string) {
	var prefix []int // root first
	if len(p.Samples) > 0 {
		s := p.Samples[rapid.IntRange(0, len(p.Samples)-1).Draw(rt, label+"-base")]
		n := rapid.IntRange(0, min(len(s.Stack), 5)).Draw(rt, label+"-prefix")
		for k := len(s.Stack) - 1; k >= len(s.Stack)-n; k-- {
			prefix = append(prefix, s.Stack[k])
		}
	}
	for _, nm := range names {
		p.Funcs = append(p.Funcs, nm)
		p.Locs = append(p.Locs, []int{len(p.Funcs) - 1})
		prefix = append(prefix, len(p.Locs)-1)
	}
	// sometimes shared frames continue below the chain
	if len(p.Locs) > len(names) && rapid.Bool().Draw(rt, label+"-tail") {
		prefix = append(prefix, rapid.IntRange(0, len(p.Locs)-len(names)-1).Draw(rt, label+"-tail-loc"))
	}
	s := gen.PprofSample{}
	for k := len(prefix) - 1; k >= 0; k-- {
		s.Stack = append(s.Stack, prefix[k])
	}
	for range p.SampleTypes {
		s.Values = append(s.Values, int64(rapid.IntRange(1, 500).Draw(rt, label+"-value")))
	}
	p.Samples = append(p.Samples, s)
}

func genDiff(rt *rapid.T) diffCase {
	sh := gen.GenPprofShape(rt)
	c := diffCase{}
	c.TypeIdx = rapid.IntRange(0, len(sh.SampleTypes)-1).Draw(rt, "type-idx")
	// the type id travels in the query text "tp:type:unit:ptype:punit{…}": plain words only
	st := &sh.SampleTypes[c.TypeIdx]
	if !plainWord.MatchString(st.Type) || !plainWord.MatchString(st.Unit) {
		*st = gen.PprofValueType{Type: "diffed", Unit: "things"}
	}
	if !plainWord.MatchString(sh.Period.Type) || !plainWord.MatchString(sh.Period.Unit) {
		sh.Period = gen.PprofValueType{Type: "cpu", Unit: "nanoseconds"}
	}
	c.Mode = rapid.SampledFrom([]string{"mixed", "mixed", "mixed", "mixed", "mixed", "empty-left", "empty-right", "identical", "mixed", "mixed"}).Draw(rt, "mode")
	side := func(label string) []gen.Pprof {
		n := rapid.IntRange(1, 3).Draw(rt, label+"-nprofiles")
		var ps []gen.Pprof
		for i := 0; i < n; i++ {
			p := gen.GenPprof(rt, sh)
			p.Funcs = append([]string(nil), p.Funcs...)
			ps = append(ps, p)
		}
		return ps
	}
	chain := func(ps []gen.Pprof, tag string) {
		if len(ps) == 0 || rapid.IntRange(0, 9).Draw(rt, tag+"-chain") >= 7 {
			return
		}
		n := rapid.IntRange(3, 5).Draw(rt, tag+"-chain-len")
		var names []string
		for i := 0; i < n; i++ {
			names = append(names, fmt.Sprintf("%s.only.f%d", tag, i))
		}
		addChain(rt, &ps[rapid.IntRange(0, len(ps)-1).Draw(rt, tag+"-chain-profile")], names, tag)
	}
	switch c.Mode {
	case "empty-left":
		c.Right = side("right")
		if rapid.Bool().Draw(rt, "left-has-empty-profile") {
			p := gen.GenPprof(rt, sh)
			p.Samples = nil
			c.Left = []gen.Pprof{p}
		}
		chain(c.Right, "right")
	case "empty-right":
		c.Left = side("left")
		if rapid.Bool().Draw(rt, "right-has-empty-profile") {
			p := gen.GenPprof(rt, sh)
			p.Samples = nil
			c.Right = []gen.Pprof{p}
		}
		chain(c.Left, "left")
	case "identical":
		c.Left = side("left")
		chain(c.Left, "left")
		c.Right = append([]gen.Pprof(nil), c.Left...)
	default:
		c.Left, c.Right = side("left"), side("right")
		chain(c.Left, "left")
		chain(c.Right, "right")
	}
	if rapid.IntRange(0, 3).Draw(rt, "shuffle-rows") > 0 {
		c.Shuffle = rapid.Uint64Range(1, 1<<40).Draw(rt, "shuffle")
	}
	// two cases out of three have no zero values, so that every bar has a width on at least
	// one side and its parent bar is unique (the strong form of the nesting check)
	if rapid.IntRange(0, 2).Draw(rt, "keep-zero-values") != 1 {
		for _, ps := range [][]gen.Pprof{c.Left, c.Right} {
			for pi := range ps {
				for si := range ps[pi].Samples {
					vals := append([]int64(nil), ps[pi].Samples[si].Values...)
					for vi := range vals {
						if vals[vi] == 0 {
							vals[vi] = 1
						}
					}
					ps[pi].Samples[si].Values = vals
				}
			}
		}
	}
	return c
}

// sideRows are the rows of one side as the merge SQL would return them.
type sideRows struct {
	nodes [][]any
	funcs [][]any
	model map[uint64]*mnode // summed inputs per node id
	total int64
	fn    map[uint64]string
}

func buildSide(ps []gen.Pprof, j int, shuffle uint64, label string) (*sideRows, error) {
	sr := &sideRows{model: map[uint64]*mnode{}, fn: map[uint64]string{}}
	var order []uint64
	for i, p := range ps {
		// binary endpoint, raw: the parsers themselves are exercised by the tree sub-check
		pd, err := runProfileParser(1+i%2, p, "1700000000", "1700000010", "app")
		if err != nil {
			return nil, fmt.Errorf("%s profile %d: well-formed profile rejected or lost: %v", label, i, err)
		}
		rows, fnames, err := checkWriterTree(p, pd, fmt.Sprintf("%s profile %d", label, i))
		if err != nil {
			return nil, err
		}
		sr.total += sampleSums(p)[j]
		for _, r := range rows {
			m := sr.model[r.node]
			if m == nil {
				m = &mnode{parent: r.parent, fn: r.fn, node: r.node}
				sr.model[r.node] = m
				order = append(order, r.node)
			}
			m.self += r.self[j]
			m.total += r.total[j]
		}
		for id, n := range fnames {
			sr.fn[id] = n
		}
	}
	perm := shuffled(len(order), shuffle)
	ids := make([]uint64, len(order))
	for i, k := range perm {
		ids[i] = order[k]
	}
	sort.SliceStable(ids, func(a, b int) bool { return sr.model[ids[a]].parent < sr.model[ids[b]].parent })
	sr.nodes = [][]any{}
	for _, id := range ids {
		m := sr.model[id]
		sr.nodes = append(sr.nodes, []any{m.parent, m.fn, m.node, m.self, m.total})
	}
	fids := make([]uint64, 0, len(sr.fn))
	for id := range sr.fn {
		fids = append(fids, id)
	}
	sort.Slice(fids, func(a, b int) bool { return fids[a] < fids[b] })
	sr.funcs = [][]any{}
	for _, k := range shuffled(len(fids), shuffle) {
		sr.funcs = append(sr.funcs, []any{fids[k], sr.fn[fids[k]]})
	}
	return sr, nil
}

// dbar is one bar of the double-format flame graph with absolute coordinates per side.
type dbar struct {
	s, e   [2]int64 // start/end per side (0 left, 1 right)
	total  [2]int64
	self   [2]int64
	name   string
	path   int
	parent int // index in the level above, -1 unknown
}

func predDiff(c diffCase, o *evid.Obs) error {
	all := append(append([]gen.Pprof(nil), c.Left...), c.Right...)
	if len(all) == 0 {
		o.Discard("no-profiles")
		return nil
	}
	nst := len(all[0].SampleTypes)
	j := c.TypeIdx % nst
	stype, sunit := all[0].SampleTypes[j].Type, all[0].SampleTypes[j].Unit
	ptype, punit := all[0].Period.Type, all[0].Period.Unit
	for _, w := range []string{stype, sunit, ptype, punit} {
		if !plainWord.MatchString(w) {
			o.Discard("type-id-not-plain")
			return nil
		}
	}
	restore := readersvc.Quiet() // getTree prints every statement
	defer restore()

	left, err := buildSide(c.Left, j, c.Shuffle, "left")
	if err != nil {
		return err
	}
	right, err := buildSide(c.Right, j, c.Shuffle+1, "right")
	if err != nil {
		return err
	}
	sides := [2]*sideRows{left, right}

	var sqlErr error
	asked := map[string]int{}
	db := fakesql.New(func(ctx context.Context, q string, args []driver.NamedValue) (*fakesql.Result, error) {
		if fakesql.IsVersionQuery(q) {
			return fakesql.AnswerVersion(q), nil
		}
		var sr *sideRows
		switch {
		case strings.Contains(q, "'leftside'") && !strings.Contains(q, "'rightside'"):
			sr = left
			asked["left"]++
		case strings.Contains(q, "'rightside'") && !strings.Contains(q, "'leftside'"):
			sr = right
			asked["right"]++
		default:
			sqlErr = fmt.Errorf("cannot tell which side this statement reads: %.400s", q)
			return fakesql.Rows([]string{"_tree", "_functions"}, []any{[][]any{}, [][]any{}}), nil
		}
		if !strings.Contains(q, "'"+stype+":"+sunit+"'") {
			sqlErr = fmt.Errorf("merge statement does not select sample type %s:%s: %.400s", stype, sunit, q)
		}
		return fakesql.Rows([]string{"_tree", "_functions"}, []any{sr.nodes, sr.funcs}), nil
	})
	defer db.Close()
	ps := &service.ProfService{DataSession: db.Registry(nil)}
	typeID := fmt.Sprintf("profiletype:%s:%s:%s:%s", stype, sunit, ptype, punit)
	t0 := time.Unix(1_700_000_000, 0)
	fb, err := ps.RenderDiff(context.Background(), typeID+`{side="leftside"}`, typeID+`{side="rightside"}`,
		t0, t0.Add(time.Hour), t0.Add(10*time.Minute), t0.Add(70*time.Minute))
	if err != nil {
		return fmt.Errorf("RenderDiff failed: %v", err)
	}
	if sqlErr != nil {
		o.Discard("sql-not-recognised")
		return nil
	}
	if asked["left"] != 1 || asked["right"] != 1 {
		return fmt.Errorf("RenderDiff read the left side %d times and the right side %d times", asked["left"], asked["right"])
	}
	if fb == nil || fb.FlamebearerProfileV1.Flamebearer == nil {
		return fmt.Errorf("RenderDiff returned no flame graph")
	}
	f := fb.FlamebearerProfileV1.Flamebearer

	// union model
	type unode struct {
		parent, fn  uint64
		total, self [2]int64
	}
	union := map[uint64]*unode{}
	children := map[uint64][]uint64{}
	fnames := map[uint64]string{}
	for si, sr := range sides {
		for id, m := range sr.model {
			u := union[id]
			if u == nil {
				u = &unode{parent: m.parent, fn: m.fn}
				union[id] = u
				children[m.parent] = append(children[m.parent], id)
			} else if u.parent != m.parent || u.fn != m.fn {
				o.Discard("node-id-collision")
				return nil
			}
			u.total[si], u.self[si] = m.total, m.self
		}
		for id, n := range sr.fn {
			fnames[id] = n
		}
	}
	pathsT := newPaths()
	depthOf, pathOf := map[uint64]int{}, map[uint64]int{}
	byDepth := map[int][]uint64{}
	maxDepth := 0
	type item struct {
		id          uint64
		depth, path int
	}
	queue := []item{{0, 0, 0}}
	for len(queue) > 0 {
		it := queue[0]
		queue = queue[1:]
		for _, ch := range children[it.id] {
			depthOf[ch] = it.depth + 1
			pathOf[ch] = pathsT.child(it.path, fnames[union[ch].fn])
			byDepth[it.depth+1] = append(byDepth[it.depth+1], ch)
			if it.depth+1 > maxDepth {
				maxDepth = it.depth + 1
			}
			queue = append(queue, item{ch, it.depth + 1, pathOf[ch]})
		}
	}
	if len(depthOf) != len(union) {
		return fmt.Errorf("inputs hold %d nodes of which only %d hang off the root", len(union), len(depthOf))
	}
	zeroWidth, onlyChain := false, [2]int{}
	for id, u := range union {
		if u.total[0]+u.total[1] == 0 {
			zeroWidth = true
		}
		// length of the chain of ancestors (including the node) present on one side only
		for si := 0; si < 2; si++ {
			n := 0
			for cur := id; cur != 0; cur = union[cur].parent {
				_, here := sides[si].model[cur]
				_, there := sides[1-si].model[cur]
				if here && !there {
					n++
				} else {
					break
				}
			}
			if n > onlyChain[si] {
				onlyChain[si] = n
			}
		}
	}
	o.Tag("mode=" + c.Mode)
	if onlyChain[0] >= 3 {
		o.Tag("left-only-chain>=3")
	}
	if onlyChain[1] >= 3 {
		o.Tag("right-only-chain>=3")
	}
	if len(left.model) == 0 || len(right.model) == 0 {
		o.Tag("one-side-without-nodes")
	}
	if zeroWidth {
		o.Tag("zero-width-bars")
	}
	if maxDepth >= 3 && (onlyChain[0] >= 3 || onlyChain[1] >= 3) && len(left.model) > 0 && len(right.model) > 0 {
		o.NonTrivial()
	}

	// 1. totals per side
	if got := fb.FlamebearerProfileV1.LeftTicks; got != left.total {
		return fmt.Errorf("leftTicks = %d, the left inputs' sample values add up to %d", got, left.total)
	}
	if got := fb.FlamebearerProfileV1.RightTicks; got != right.total {
		return fmt.Errorf("rightTicks = %d, the right inputs' sample values add up to %d", got, right.total)
	}
	if int64(f.NumTicks) != left.total+right.total {
		return fmt.Errorf("numTicks = %d, left + right inputs add up to %d", f.NumTicks, left.total+right.total)
	}
	levels := f.Levels
	last := len(levels) - 1
	for last > 0 && len(levels[last]) == 0 {
		last--
	}
	if last < 0 {
		return fmt.Errorf("diff flame graph has no level")
	}
	if last != maxDepth {
		return fmt.Errorf("diff flame graph has %d levels below the root, the union of both sides is %d deep", last, maxDepth)
	}
	name := func(i int64) (string, error) {
		if i < 0 || int(i) >= len(f.Names) {
			return "", fmt.Errorf("name index %d outside names (%d)", i, len(f.Names))
		}
		return f.Names[i], nil
	}
	var prev []dbar
	for d := 0; d <= last; d++ {
		v := levels[d]
		if len(v)%7 != 0 {
			return fmt.Errorf("level %d has %d values, not a multiple of 7", d, len(v))
		}
		var cur []dbar
		var x [2]int64
		for i := 0; i < len(v); i += 7 {
			b := dbar{parent: -1}
			for si := 0; si < 2; si++ {
				delta, total, self := v[i+3*si], v[i+3*si+1], v[i+3*si+2]
				if delta < 0 {
					return fmt.Errorf("level %d bar %d: negative %s offset %d (bars overlap)", d, i/7, sideName(si), delta)
				}
				if total < 0 || self < 0 || self > total {
					return fmt.Errorf("level %d bar %d: %s total %d self %d", d, i/7, sideName(si), total, self)
				}
				b.s[si] = x[si] + delta
				b.e[si] = b.s[si] + total
				x[si] = b.e[si]
				b.total[si], b.self[si] = total, self
			}
			n, err := name(v[i+6])
			if err != nil {
				return fmt.Errorf("level %d bar %d: %v", d, i/7, err)
			}
			b.name = n
			cur = append(cur, b)
		}
		if d == 0 {
			if len(cur) != 1 || cur[0].s != [2]int64{0, 0} || cur[0].total != [2]int64{left.total, right.total} || cur[0].self != [2]int64{0, 0} || cur[0].name != "total" {
				return fmt.Errorf("level 0 is %v (names %v), expected one bar total with left %d right %d", v, f.Names, left.total, right.total)
			}
			prev = cur
			continue
		}
		for bi := range cur {
			b := &cur[bi]
			if !zeroWidth {
				// the bar's place in the picture is the sum of both sides; with positive
				// widths exactly one bar of the level above contains it: its parent
				cs, ce := b.s[0]+b.s[1], b.e[0]+b.e[1]
				for pi, p := range prev {
					if p.s[0]+p.s[1] <= cs && ce <= p.e[0]+p.e[1] {
						if b.parent >= 0 {
							return fmt.Errorf("level %d bar %d %q lies inside two bars of level %d: those overlap", d, bi, b.name, d-1)
						}
						b.parent = pi
					}
				}
				if b.parent < 0 {
					return fmt.Errorf("level %d bar %d %q (left [%d,%d) right [%d,%d)) lies inside no bar of level %d", d, bi, b.name, b.s[0], b.e[0], b.s[1], b.e[1], d-1)
				}
				p := prev[b.parent]
				b.path = pathsT.child(p.path, b.name)
				for si := 0; si < 2; si++ {
					if p.total[si] == 0 && b.total[si] != 0 {
						return fmt.Errorf("level %d bar %d %s: %s total %d under a parent whose %s total is 0", d, bi, pathsT.text(b.path), sideName(si), b.total[si], sideName(si))
					}
					if b.s[si] < p.s[si] || b.e[si] > p.e[si] {
						return fmt.Errorf("level %d bar %d %s: %s span [%d,%d) is not inside its parent's %s span [%d,%d)", d, bi, pathsT.text(b.path), sideName(si), b.s[si], b.e[si], sideName(si), p.s[si], p.e[si])
					}
				}
			} else {
				for si := 0; si < 2; si++ {
					ok := false
					for _, p := range prev {
						if p.s[si] <= b.s[si] && b.e[si] <= p.e[si] {
							ok = true
						}
					}
					if !ok {
						return fmt.Errorf("level %d bar %d %q: %s span [%d,%d) lies inside no bar of level %d", d, bi, b.name, sideName(si), b.s[si], b.e[si], d-1)
					}
				}
			}
		}
		// the level shows exactly the nodes of that depth, with each side's own sums
		type sig struct {
			path        int
			name        string
			total, self [2]int64
		}
		want := map[sig]int{}
		for _, id := range byDepth[d] {
			u := union[id]
			if zeroWidth {
				want[sig{0, fnames[u.fn], u.total, u.self}]++
			} else {
				want[sig{pathOf[id], "", u.total, u.self}]++
			}
		}
		if len(cur) != len(byDepth[d]) {
			return fmt.Errorf("level %d shows %d bars, the union of both sides has %d nodes at that depth", d, len(cur), len(byDepth[d]))
		}
		for bi, b := range cur {
			k := sig{b.path, "", b.total, b.self}
			where := ""
			if zeroWidth {
				k = sig{0, b.name, b.total, b.self}
				where = fmt.Sprintf("%q", b.name)
			} else {
				where = pathsT.text(b.path)
			}
			if want[k] == 0 {
				return fmt.Errorf("level %d bar %d: %s with left total/self %d/%d, right %d/%d is not what the inputs give for a node at that depth", d, bi, where, b.total[0], b.self[0], b.total[1], b.self[1])
			}
			want[k]--
		}
		// children of one parent fit, per side, into what the parent does not spend itself
		if !zeroWidth {
			used := map[int][2]int64{}
			for _, b := range cur {
				u := used[b.parent]
				u[0] += b.total[0]
				u[1] += b.total[1]
				used[b.parent] = u
			}
			for pi, p := range prev {
				for si := 0; si < 2; si++ {
					if used[pi][si] > p.total[si]-p.self[si] {
						return fmt.Errorf("level %d: children of %s take %d on the %s side, parent has total %d self %d", d, pathsT.text(p.path), used[pi][si], sideName(si), p.total[si], p.self[si])
					}
				}
			}
		}
		prev = cur
	}
	return nil
}

func sideName(si int) string {
	if si == 0 {
		return "left"
	}
	return "right"
}

func addDiff(r *evid.Run) {
	evid.Add(r, evid.Prop[diffCase]{Name: "diff", Quick: 1500, Thorough: 12000, Gen: genDiff, Pred: predDiff})
}

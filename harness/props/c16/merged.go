package c16

import (
	"fmt"

	"github.com/metrico/qryn/reader/service"

	"qrynverif/evid"
)

type mnode struct {
	parent, fn, node uint64
	self, total      int64
}

// bar is one flame-graph bar with absolute coordinates.
type bar struct {
	start, end  int64
	total, self int64
	name        string
	path        int // call path (interned) reconstructed through the parent bars
}

// checkMerged decides the reader-side part of the property on a service.Tree that was
// filled by MergeTrie: totals are the sums of the inputs, the merged tree conserves weight,
// and the BFS levels nest.
func checkMerged(tree *service.Tree, stName string, wantTotal int64, each func(yield func(parent, fn, node uint64, self, total int64)),
	fnames map[uint64]string, o *evid.Obs) error {
	// model: the sums of the inputs
	model := map[uint64]*mnode{}
	children := map[uint64][]uint64{}
	var dupErr error
	each(func(parent, fn, node uint64, self, total int64) {
		if m, dup := model[node]; dup && (m.parent != parent || m.fn != fn) {
			dupErr = fmt.Errorf("input rows give node %d two identities", node)
		}
		model[node] = &mnode{parent, fn, node, self, total}
		children[parent] = append(children[parent], node)
	})
	if dupErr != nil {
		// two profiles hashing different (parent, function) to one node id: a 55-bit hash
		// collision, outside what generated input can reach; nothing to decide
		o.Discard("node-id-collision")
		return nil
	}

	// 1. totals are the sums of the inputs
	tot := tree.Total()
	if len(tot) != 1 {
		return fmt.Errorf("Total() has %d entries for a tree with one sample type", len(tot))
	}
	if tot[0] != wantTotal {
		return fmt.Errorf("merged Total() = %d, the inputs' sample values add up to %d", tot[0], wantTotal)
	}

	// 2. every input node is in the merged tree exactly once, with summed values
	seen := map[uint64]bool{}
	for parent, list := range tree.Nodes {
		for _, n := range list {
			m := model[n.NodeID]
			if m == nil {
				return fmt.Errorf("merged tree has node %d under parent %d that no input row describes", n.NodeID, parent)
			}
			if seen[n.NodeID] {
				return fmt.Errorf("merged tree holds node %d twice", n.NodeID)
			}
			seen[n.NodeID] = true
			if m.parent != parent || m.fn != n.FnID {
				return fmt.Errorf("node %d sits under parent %d with function %d, inputs say parent %d function %d", n.NodeID, parent, n.FnID, m.parent, m.fn)
			}
			if len(n.Self) != 1 || len(n.Total) != 1 {
				return fmt.Errorf("node %d has %d/%d value slots for one sample type", n.NodeID, len(n.Self), len(n.Total))
			}
			if n.Self[0] != m.self || n.Total[0] != m.total {
				return fmt.Errorf("node %d (%q): merged self/total = %d/%d, the inputs add up to %d/%d", n.NodeID, fnames[m.fn], n.Self[0], n.Total[0], m.self, m.total)
			}
		}
	}
	if len(seen) != len(model) {
		return fmt.Errorf("merged tree holds %d nodes, the inputs describe %d", len(seen), len(model))
	}

	// 3. the merged tree conserves weight
	for _, m := range model {
		var cs int64
		for _, c := range children[m.node] {
			cs += model[c].total
		}
		if m.total != m.self+cs {
			return fmt.Errorf("merged node %d (%q): total %d != self %d + children %d", m.node, fnames[m.fn], m.total, m.self, cs)
		}
	}

	// 4. flame graph levels
	levels := tree.BFS(stName)
	if len(levels) == 0 {
		return fmt.Errorf("BFS returned no level for the tree's own sample type")
	}
	if v := levels[0].Values; len(v) != 4 || v[0] != 0 || v[1] != wantTotal || v[2] != 0 || v[3] != 0 {
		return fmt.Errorf("level 0 is %v, expected [0 %d 0 0]", v, wantTotal)
	}
	// model paths per depth
	ps := newPaths()
	depthOf := map[uint64]int{}
	pathOf := map[uint64]int{}
	maxDepth := 0
	type item struct {
		id    uint64
		depth int
		path  int
	}
	queue := []item{{0, 0, 0}}
	for len(queue) > 0 {
		it := queue[0]
		queue = queue[1:]
		for _, c := range children[it.id] {
			if _, again := depthOf[c]; again {
				return fmt.Errorf("inputs reach node %d twice", c)
			}
			m := model[c]
			depthOf[c] = it.depth + 1
			pathOf[c] = ps.child(it.path, fnames[m.fn])
			if it.depth+1 > maxDepth {
				maxDepth = it.depth + 1
			}
			queue = append(queue, item{c, it.depth + 1, pathOf[c]})
		}
	}
	if len(depthOf) != len(model) {
		return fmt.Errorf("inputs hold %d nodes of which only %d hang off the root", len(model), len(depthOf))
	}
	// trailing empty levels are allowed (BFS appends one after the leaves)
	last := len(levels) - 1
	for last > 0 && len(levels[last].Values) == 0 {
		last--
	}
	if last != maxDepth {
		return fmt.Errorf("flame graph has %d non-empty levels below the root, the merged tree is %d deep", last, maxDepth)
	}
	zeroWidth := false
	for _, m := range model {
		if m.total == 0 {
			zeroWidth = true
		}
	}
	if zeroWidth {
		o.Tag("zero-width-bars")
	}
	prev := []bar{{start: 0, end: wantTotal, total: wantTotal, path: 0}}
	byDepth := map[int][]uint64{}
	for id, d := range depthOf {
		byDepth[d] = append(byDepth[d], id)
	}
	for d := 1; d <= last; d++ {
		v := levels[d].Values
		if len(v)%4 != 0 {
			return fmt.Errorf("level %d has %d values, not a multiple of 4", d, len(v))
		}
		var cur []bar
		var x int64
		for i := 0; i < len(v); i += 4 {
			delta, total, self, ni := v[i], v[i+1], v[i+2], v[i+3]
			if delta < 0 {
				return fmt.Errorf("level %d bar %d: negative offset %d (bars overlap)", d, i/4, delta)
			}
			if total < 0 || self < 0 || self > total {
				return fmt.Errorf("level %d bar %d: total %d self %d", d, i/4, total, self)
			}
			if ni < 0 || int(ni) >= len(tree.Names) {
				return fmt.Errorf("level %d bar %d: name index %d outside Names (%d)", d, i/4, ni, len(tree.Names))
			}
			b := bar{start: x + delta, total: total, self: self, name: tree.Names[ni]}
			b.end = b.start + total
			x = b.end
			cur = append(cur, b)
		}
		// nesting: every bar lies inside a bar of the level above
		for bi := range cur {
			b := &cur[bi]
			var cands []int
			for pi, p := range prev {
				if p.start <= b.start && b.end <= p.end {
					cands = append(cands, pi)
				}
			}
			if len(cands) == 0 {
				return fmt.Errorf("level %d bar %d %q [%d,%d) lies inside no bar of level %d (%s)", d, bi, b.name, b.start, b.end, d-1, showBars(prev))
			}
			if !zeroWidth {
				// positive widths: the containing bar is unique; that is the parent
				if len(cands) != 1 {
					return fmt.Errorf("level %d bar %d [%d,%d) lies inside %d bars of level %d: those overlap", d, bi, b.start, b.end, len(cands), d-1)
				}
				b.path = ps.child(prev[cands[0]].path, b.name)
			}
		}
		// the level shows exactly the nodes of that depth
		type sig struct {
			path        int
			name        string
			total, self int64
		}
		want := map[sig]int{}
		for _, id := range byDepth[d] {
			m := model[id]
			if zeroWidth {
				want[sig{0, fnames[m.fn], m.total, m.self}]++
			} else {
				want[sig{pathOf[id], "", m.total, m.self}]++
			}
		}
		if len(cur) != len(byDepth[d]) {
			return fmt.Errorf("level %d shows %d bars, the merged tree has %d nodes at that depth", d, len(cur), len(byDepth[d]))
		}
		for bi, b := range cur {
			k := sig{b.path, "", b.total, b.self}
			if zeroWidth {
				k = sig{0, b.name, b.total, b.self}
			}
			if want[k] == 0 {
				where := fmt.Sprintf("%q", b.name)
				if !zeroWidth {
					where = ps.text(b.path)
				}
				return fmt.Errorf("level %d bar %d: %s with total %d self %d is not a node of the merged tree at that depth (or shown twice)", d, bi, where, b.total, b.self)
			}
			want[k]--
		}
		// children of one parent fit into what the parent does not spend itself
		if !zeroWidth {
			used := map[int]int64{}
			for _, b := range cur {
				used[ps.steps[b.path-1].parent] += b.total
			}
			for _, p := range prev {
				if used[p.path] > p.total-p.self {
					return fmt.Errorf("level %d: children of %s take %d, parent has total %d self %d", d, ps.text(p.path), used[p.path], p.total, p.self)
				}
			}
		}
		prev = cur
	}
	return nil
}

func showBars(bs []bar) string {
	s := ""
	for i, b := range bs {
		if i >= 8 {
			s += fmt.Sprintf(" …(%d bars)", len(bs))
			break
		}
		s += fmt.Sprintf(" %q[%d,%d)", b.name, b.start, b.end)
	}
	return s
}

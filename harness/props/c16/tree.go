package c16

import (
	"context"
	"fmt"
	"sort"
	"strings"

	"github.com/metrico/qryn/reader/service"
	wmodel "github.com/metrico/qryn/writer/model"
	"github.com/metrico/qryn/writer/utils/unmarshal"
	"pgregory.net/rapid"

	"qrynverif/evid"
	"qrynverif/gen"
)

// ---- C16: call trees conserve weight from ingest to flame graph ------------------------------
//
// Writer half: every generated pprof profile goes through one of the exported profile
// parsers (multipart+gzip as pyroscope clients post it, or binary/octet-stream gzip/raw) with
// the from/until/name context the controller supplies; the tree rows of the ProfileData are
// checked against the conservation laws.
// Reader half: the tree/function rows of all profiles of the case are fed, for one sample
// type, to service.Tree (NewTree, SampleTypes = [that type], MergeTrie, Total, BFS) — either
// the way getTree does it (rows summed per (parent, function, node) and ordered by parent
// id, as the generated SQL does; one MergeTrie call) or profile by profile in any order
// with any row order (MergeTrie is incremental: it adds to nodes it already has).

type profCase struct {
	Shape    shapeJSON   `json:"shape"`
	Profiles []gen.Pprof `json:"profiles"`
	// Parser per profile: 0 multipart/form-data + gzip, 1 binary gzip, 2 binary raw.
	Parser []int  `json:"parser"`
	From   string `json:"from"`
	Until  string `json:"until"`
	Name   string `json:"name"`
	// Reader feeding.
	SQLMode    bool   `json:"sql_mode"`    // true: pre-summed rows, one MergeTrie call
	MergeOrder []int  `json:"merge_order"` // permutation of the profiles (incremental mode)
	Shuffle    uint64 `json:"shuffle"`     // 0: rows in writer order; else seed of the row permutation
	TypeIdx    int    `json:"type_idx"`    // sample type shown
}

// shapeJSON is kept only for readability of replay files (the profiles repeat it).
type shapeJSON struct {
	NumSampleTypes int `json:"n_sample_types"`
	NumFuncs       int `json:"n_funcs"`
}

func genProf(rt *rapid.T) profCase {
	sh := gen.GenPprofShape(rt)
	c := profCase{Shape: shapeJSON{len(sh.SampleTypes), len(sh.Funcs)}}
	np := rapid.SampledFrom([]int{1, 2, 2, 3, 3, 4, 5, 6}).Draw(rt, "nprofiles")
	// now and then a series whose string table alone passes 1 MiB (DESIGN section 4 item 7);
	// only the binary endpoint takes that much (the multipart one stops at 100000 bytes)
	pad := 0
	if rapid.IntRange(0, 79).Draw(rt, "huge-strings") == 41 {
		pad = rapid.IntRange(1025, 1100).Draw(rt, "pad-kb")
	}
	for i := 0; i < np; i++ {
		p := gen.GenPprof(rt, sh)
		p.PadUnitKB = pad
		kind := rapid.IntRange(0, 2).Draw(rt, "parser")
		if pad > 0 && kind == 0 {
			kind = 1
		}
		c.Profiles = append(c.Profiles, p)
		c.Parser = append(c.Parser, kind)
	}
	idx := make([]int, np)
	for i := range idx {
		idx[i] = i
	}
	c.MergeOrder = rapid.Permutation(idx).Draw(rt, "merge-order")
	c.SQLMode = rapid.Bool().Draw(rt, "sql-mode")
	if rapid.IntRange(0, 3).Draw(rt, "shuffle-rows") > 0 {
		c.Shuffle = rapid.Uint64Range(1, 1<<40).Draw(rt, "shuffle")
	}
	c.TypeIdx = rapid.IntRange(0, len(sh.SampleTypes)-1).Draw(rt, "type-idx")
	// from/until as pyroscope clients send them: unix seconds (ns() scales any unit up to
	// nanoseconds; from must not be 0: that loops forever, DESIGN section 4 item 6, C05)
	from := rapid.Int64Range(1_600_000_000, 1_800_000_000).Draw(rt, "from")
	c.From = fmt.Sprint(from)
	c.Until = fmt.Sprint(from + int64(rapid.IntRange(1, 60).Draw(rt, "dur")))
	c.Name = rapid.SampledFrom([]string{"app", "app{}", "app{env=prod}", "my.service{env=prod,region=eu}"}).Draw(rt, "name")
	return c
}

// shuffled returns a deterministic permutation of 0..n-1 from seed (0: identity).
func shuffled(n int, seed uint64) []int {
	idx := make([]int, n)
	for i := range idx {
		idx[i] = i
	}
	if seed == 0 {
		return idx
	}
	x := seed*6364136223846793005 + 1442695040888963407
	for i := n - 1; i > 0; i-- {
		x ^= x << 13
		x ^= x >> 7
		x ^= x << 17
		j := int(x % uint64(i+1))
		idx[i], idx[j] = idx[j], idx[i]
	}
	return idx
}

type ctxKey = string

// runProfileParser pushes one encoded profile through an exported parser the way
// controllerv1.PushProfileV2 does.
func runProfileParser(kind int, p gen.Pprof, from, until, name string) (*wmodel.ProfileData, error) {
	var body []byte
	fn := unmarshal.UnmarshalBinaryStreamProfileProtoV2
	switch kind {
	case 0:
		body, _ = gen.Multipart(p.Encode(true), len(p.Samples)%2 == 0)
		fn = unmarshal.UnmarshalProfileProtoV2
	case 1:
		body = p.Encode(true)
	default:
		body = p.Encode(false)
	}
	ctx := context.WithValue(context.Background(), ctxKey("from"), from)
	ctx = context.WithValue(ctx, ctxKey("name"), name)
	ctx = context.WithValue(ctx, ctxKey("until"), until)
	ch := fn(ctx, strings.NewReader(string(body)), nil)
	var out *wmodel.ProfileData
	var firstErr error
	n := 0
	for resp := range ch {
		if resp.Error != nil {
			if firstErr == nil {
				firstErr = resp.Error
			}
			continue
		}
		if pd, ok := resp.ProfileRequest.(*wmodel.ProfileData); ok && pd != nil {
			out = pd
			n++
		}
	}
	if firstErr != nil {
		return nil, firstErr
	}
	if out == nil || n != 1 {
		return nil, fmt.Errorf("NOROWS: parser returned %d profile responses", n)
	}
	return out, nil
}

// node of the stored tree for one sample type.
type row struct {
	parent, fn, node uint64
	self, total      []int64 // per sample type
}

// expected totals of one profile per sample type: sum of the sample values over samples
// with a non-empty stack (a sample without frames has no place in a call tree).
func sampleSums(p gen.Pprof) []int64 {
	sums := make([]int64, len(p.SampleTypes))
	for _, s := range p.Samples {
		if len(s.Stack) == 0 {
			continue
		}
		for j, v := range s.Values {
			sums[j] += v
		}
	}
	return sums
}

// checkWriterTree decides the writer-side laws on the tree rows of one profile.
func checkWriterTree(p gen.Pprof, pd *wmodel.ProfileData, desc string) ([]row, map[uint64]string, error) {
	nst := len(p.SampleTypes)
	typeNames := make([]string, nst)
	for j := range typeNames {
		typeNames[j] = p.TypeName(j)
	}
	var rows []row
	byNode := map[uint64]int{}
	for i, t := range pd.Tree {
		if len(t.ValueArrTuple) != nst {
			return nil, nil, fmt.Errorf("%s: tree row %d has %d value tuples, profile has %d sample types", desc, i, len(t.ValueArrTuple), nst)
		}
		r := row{parent: t.Field1, fn: t.Field2, node: t.Field3, self: make([]int64, nst), total: make([]int64, nst)}
		for j, v := range t.ValueArrTuple {
			if v.ValueStr != typeNames[j] {
				return nil, nil, fmt.Errorf("%s: tree row %d value %d is named %q, sample type %d is %q", desc, i, j, trunc(v.ValueStr), j, trunc(typeNames[j]))
			}
			r.self[j], r.total[j] = v.FirstValueInt64, v.SecondValueInt64
		}
		if r.node == 0 {
			return nil, nil, fmt.Errorf("%s: tree row %d has node id 0 (the root's id)", desc, i)
		}
		if k, dup := byNode[r.node]; dup {
			return nil, nil, fmt.Errorf("%s: tree rows %d and %d share node id %d", desc, k, i, r.node)
		}
		byNode[r.node] = i
		rows = append(rows, r)
	}
	fnames := map[uint64]string{}
	for _, f := range pd.Function {
		if old, dup := fnames[f.ValueInt64]; dup && old != f.ValueStr {
			return nil, nil, fmt.Errorf("%s: function id %d is listed as %q and as %q", desc, f.ValueInt64, old, f.ValueStr)
		}
		fnames[f.ValueInt64] = f.ValueStr
	}
	childSum := map[uint64][]int64{}
	for _, r := range rows {
		if r.parent != 0 {
			if _, ok := byNode[r.parent]; !ok {
				return nil, nil, fmt.Errorf("%s: node %d names parent %d which is not in the tree", desc, r.node, r.parent)
			}
		}
		if _, ok := fnames[r.fn]; !ok {
			return nil, nil, fmt.Errorf("%s: node %d names function id %d which is not in the function rows", desc, r.node, r.fn)
		}
		cs := childSum[r.parent]
		if cs == nil {
			cs = make([]int64, nst)
			childSum[r.parent] = cs
		}
		for j := range cs {
			cs[j] += r.total[j]
		}
	}
	for _, r := range rows {
		cs := childSum[r.node]
		for j := 0; j < nst; j++ {
			var c int64
			if cs != nil {
				c = cs[j]
			}
			if r.total[j] != r.self[j]+c {
				return nil, nil, fmt.Errorf("%s: node %d (%q) sample type %q: total %d != self %d + children %d", desc, r.node, fnames[r.fn], trunc(typeNames[j]), r.total[j], r.self[j], c)
			}
		}
	}
	want := sampleSums(p)
	roots := childSum[0]
	if roots == nil {
		roots = make([]int64, nst)
	}
	for j := 0; j < nst; j++ {
		if roots[j] != want[j] {
			return nil, nil, fmt.Errorf("%s: sample type %q: root totals add up to %d, the profile's sample values to %d (%d tree rows, %d samples)", desc, trunc(typeNames[j]), roots[j], want[j], len(rows), len(p.Samples))
		}
	}
	return rows, fnames, nil
}

// paths interns call paths: a path is identified by (id of its parent path, frame name), so
// comparing two trees does not need the O(depth^2) text of every path.
type paths struct {
	ids   map[pathStep]int
	steps []pathStep // steps[id-1] describes path id (0 is the empty path)
}

type pathStep struct {
	parent int
	name   string
}

func newPaths() *paths { return &paths{ids: map[pathStep]int{}} }

func (ps *paths) child(parent int, name string) int {
	k := pathStep{parent, name}
	if id, ok := ps.ids[k]; ok {
		return id
	}
	ps.steps = append(ps.steps, k)
	ps.ids[k] = len(ps.steps)
	return len(ps.steps)
}

// text renders a path for messages (root first).
func (ps *paths) text(id int) string {
	var rev []string
	for id > 0 {
		st := ps.steps[id-1]
		rev = append(rev, fmt.Sprintf("%q", st.name))
		id = st.parent
	}
	for i, j := 0, len(rev)-1; i < j; i, j = i+1, j-1 {
		rev[i], rev[j] = rev[j], rev[i]
	}
	return trunc(strings.Join(rev, " > "))
}

// refNode holds self/total of one call path for one sample type.
type refNode struct{ self, total int64 }

// refTrieAdd is the call tree of a profile written down directly from its samples.
func refTrieAdd(ps *paths, ref map[int]*refNode, p gen.Pprof, j int) {
	for _, s := range p.Samples {
		cur := 0
		for k := len(s.Stack) - 1; k >= 0; k-- {
			cur = ps.child(cur, p.FrameName(s.Stack[k]))
			n := ref[cur]
			if n == nil {
				n = &refNode{}
				ref[cur] = n
			}
			n.total += s.Values[j]
			if k == 0 {
				n.self += s.Values[j]
			}
		}
	}
}

// storedTrie turns tree rows (one sample type) into path -> self/total using parent links.
func storedTrie(ps *paths, rows []row, fnames map[uint64]string, j int) (map[int]*refNode, error) {
	byNode := map[uint64]row{}
	for _, r := range rows {
		byNode[r.node] = r
	}
	pathOfNode := map[uint64]int{}
	var resolve func(r row, budget int) (int, error)
	resolve = func(r row, budget int) (int, error) {
		if id, ok := pathOfNode[r.node]; ok {
			return id, nil
		}
		if budget < 0 {
			return 0, fmt.Errorf("parent links of node %d form a cycle", r.node)
		}
		parent := 0
		if r.parent != 0 {
			var err error
			if parent, err = resolve(byNode[r.parent], budget-1); err != nil {
				return 0, err
			}
		}
		id := ps.child(parent, fnames[r.fn])
		pathOfNode[r.node] = id
		return id, nil
	}
	out := map[int]*refNode{}
	for _, r := range rows {
		id, err := resolve(r, len(rows))
		if err != nil {
			return nil, err
		}
		if _, dup := out[id]; dup {
			return nil, fmt.Errorf("two nodes for the same call path %s", ps.text(id))
		}
		out[id] = &refNode{self: r.self[j], total: r.total[j]}
	}
	return out, nil
}

func diffTrie(ps *paths, got, want map[int]*refNode) string {
	for k, w := range want {
		g := got[k]
		if g == nil {
			return fmt.Sprintf("call path %s (total %d self %d) is missing", ps.text(k), w.total, w.self)
		}
		if *g != *w {
			return fmt.Sprintf("call path %s has total %d self %d, expected total %d self %d", ps.text(k), g.total, g.self, w.total, w.self)
		}
	}
	for k, g := range got {
		if want[k] == nil {
			return fmt.Sprintf("unexpected call path %s (total %d self %d)", ps.text(k), g.total, g.self)
		}
	}
	return ""
}

func trunc(s string) string {
	if len(s) > 120 {
		return fmt.Sprintf("%s…(%d bytes)", s[:120], len(s))
	}
	return s
}

func noInlining(p gen.Pprof) bool {
	for _, l := range p.Locs {
		if len(l) > 1 {
			return false
		}
	}
	return true
}

func predProf(c profCase, o *evid.Obs) error {
	if len(c.Profiles) == 0 || len(c.Parser) != len(c.Profiles) {
		o.Discard("malformed-case")
		return nil
	}
	nst := len(c.Profiles[0].SampleTypes)
	j := c.TypeIdx % nst
	type stored struct {
		rows   []row
		fnames map[uint64]string
	}
	var all []stored
	recursive, sharedWithin, deep, inlined, nolines, emptyStack, firstZero := false, false, false, false, false, false, false
	rootsSeen := map[string]int{} // root frame name -> number of profiles that have it
	for i, p := range c.Profiles {
		desc := fmt.Sprintf("profile %d (parser %d)", i, c.Parser[i])
		pd, err := runProfileParser(c.Parser[i], p, c.From, c.Until, c.Name)
		if err != nil {
			if c.Parser[i] == 0 && strings.Contains(err.Error(), "exceeds the limit") {
				// the multipart decoder refuses more than 100000 uncompressed bytes: not accepted
				o.Discard("multipart-over-100000-bytes")
				return nil
			}
			return fmt.Errorf("%s: well-formed profile rejected or lost: %v", desc, err)
		}
		rows, fnames, err := checkWriterTree(p, pd, desc)
		if err != nil {
			return err
		}
		if noInlining(p) {
			// without inlined frames the call tree of the profile is unambiguous
			ps := newPaths()
			ref := map[int]*refNode{}
			refTrieAdd(ps, ref, p, j)
			got, err := storedTrie(ps, rows, fnames, j)
			if err != nil {
				return fmt.Errorf("%s: %v", desc, err)
			}
			if d := diffTrie(ps, got, ref); d != "" {
				return fmt.Errorf("%s: stored tree is not the call tree of the samples (sample type %q): %s", desc, trunc(p.TypeName(j)), d)
			}
		} else {
			inlined = true
		}
		all = append(all, stored{rows, fnames})
		// classification
		prefixes := map[string]int{}
		myRoots := map[string]bool{}
		for _, s := range p.Samples {
			if len(s.Stack) == 0 {
				emptyStack = true
				continue
			}
			if len(s.Stack) > 511 {
				deep = true
			}
			if len(s.Values) >= 2 && s.Values[0] == 0 {
				for _, v := range s.Values[1:] {
					if v != 0 {
						firstZero = true
					}
				}
			}
			seen := map[string]bool{}
			for _, li := range s.Stack {
				n := p.FrameName(li)
				if seen[n] {
					recursive = true
				}
				seen[n] = true
				if len(p.Locs[li]) == 0 {
					nolines = true
				}
			}
			root := p.FrameName(s.Stack[len(s.Stack)-1])
			prefixes[root]++
			myRoots[root] = true
		}
		for _, n := range prefixes {
			if n >= 2 {
				sharedWithin = true
			}
		}
		for r := range myRoots {
			rootsSeen[r]++
		}
	}
	sharedAcross := false
	for _, n := range rootsSeen {
		if n >= 2 {
			sharedAcross = true
		}
	}
	o.Tag(fmt.Sprintf("profiles=%d", len(c.Profiles)))
	if c.Profiles[0].PadUnitKB > 0 {
		o.Tag("strings>1MiB")
	}
	for name, on := range map[string]bool{"recursive": recursive, "shared-prefix-within": sharedWithin, "shared-prefix-across": sharedAcross,
		"depth>511": deep, "inlined-lines": inlined, "no-line-info": nolines, "empty-stack-sample": emptyStack, "sample-0-for-first-type-only": firstZero, "sql-mode": c.SQLMode, "rows-shuffled": c.Shuffle != 0} {
		if on {
			o.Tag(name)
		}
	}
	if (recursive || sharedWithin) && len(c.Profiles) >= 2 && sharedAcross {
		o.NonTrivial()
	}

	// ---- reader half -------------------------------------------------------------------
	stName := c.Profiles[0].TypeName(j)
	type key struct{ parent, fn, node uint64 }
	model := map[key]*refNode{} // sums of the inputs
	var keys []key
	fnAll := map[uint64]string{}
	var wantTotal int64
	for i, st := range all {
		wantTotal += sampleSums(c.Profiles[i])[j]
		for _, r := range st.rows {
			k := key{r.parent, r.fn, r.node}
			if model[k] == nil {
				model[k] = &refNode{}
				keys = append(keys, k)
			}
			model[k].self += r.self[j]
			model[k].total += r.total[j]
		}
		for id, n := range st.fnames {
			fnAll[id] = n
		}
	}
	tree := service.NewTree()
	tree.SampleTypes = []string{stName}
	fnRows := func(m map[uint64]string, seed uint64) [][]any {
		ids := make([]uint64, 0, len(m))
		for id := range m {
			ids = append(ids, id)
		}
		sort.Slice(ids, func(a, b int) bool { return ids[a] < ids[b] })
		var out [][]any
		for _, k := range shuffled(len(ids), seed) {
			out = append(out, []any{ids[k], m[ids[k]]})
		}
		return out
	}
	if c.SQLMode {
		// GROUP BY (parent, function, node) with sum(), ORDER BY parent (ties in any order)
		perm := shuffled(len(keys), c.Shuffle)
		ordered := make([]key, len(keys))
		for i, k := range perm {
			ordered[i] = keys[k]
		}
		sort.SliceStable(ordered, func(a, b int) bool { return ordered[a].parent < ordered[b].parent })
		var nodes [][]any
		for _, k := range ordered {
			nodes = append(nodes, []any{k.parent, k.fn, k.node, model[k].self, model[k].total})
		}
		tree.MergeTrie(nodes, fnRows(fnAll, c.Shuffle), stName)
	} else {
		order := c.MergeOrder
		if len(order) != len(all) {
			order = shuffled(len(all), 0)
		}
		for n, pi := range order {
			if pi < 0 || pi >= len(all) {
				o.Discard("malformed-case")
				return nil
			}
			st := all[pi]
			var nodes [][]any
			for _, k := range shuffled(len(st.rows), c.Shuffle+uint64(n)*(c.Shuffle&1)) {
				r := st.rows[k]
				nodes = append(nodes, []any{r.parent, r.fn, r.node, r.self[j], r.total[j]})
			}
			tree.MergeTrie(nodes, fnRows(st.fnames, c.Shuffle), stName)
		}
	}
	return checkMerged(tree, stName, wantTotal, func(yield func(parent, fn, node uint64, self, total int64)) {
		for _, k := range keys {
			yield(k.parent, k.fn, k.node, model[k].self, model[k].total)
		}
	}, fnAll, o)
}

func addProf(r *evid.Run) {
	evid.Add(r, evid.Prop[profCase]{Name: "tree", Quick: 3000, Thorough: 25000, Gen: genProf, Pred: predProf})
}

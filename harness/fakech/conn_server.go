package fakech

// A minimal ClickHouse native-protocol server in front of the ctrl fake, so that the REAL
// entry points ctrl.Init / ctrl.Rotate — which open their own clickhouse-go connections from
// the configured host:port (ctrl/maintenance/shared.go ConnectV2, no seam) — can be driven
// without a hook: the configuration points at loopback listeners of this server.
//
// Only what clickhouse-go v2 needs for Exec / Query without compression is spoken, at
// protocol revision 54440 (after "settings as strings", before inter-server secret,
// OpenTelemetry, custom serialisation, addendum and query parameters): hello, query + empty
// data block, header/data blocks of UInt64 and String columns, exception, end of stream, ping.
// clickhouse-go binds $n arguments on the client side at this revision, so the statement
// text the backend sees is the final one.

import (
	"bufio"
	"context"
	"encoding/binary"
	"errors"
	"fmt"
	"io"
	"net"
	"strings"
	"sync"

	"github.com/ClickHouse/clickhouse-go/v2"
)

const ctrlSrvRevision = 54440

// CtrlBackend decides which modelled database a connection talks to.
type CtrlBackend interface {
	// Connect is called at the handshake with the listener address and the database named by
	// the client ("" = none). An error is sent as a handshake exception (e.g. UNKNOWN_DATABASE).
	Connect(addr, database string) (CtrlSession, error)
}

// CtrlSession executes the statements of one connection.
type CtrlSession interface {
	Exec(sql string) error
	// Query returns column names and rows of uint64 / string values.
	Query(sql string) (cols []string, rows [][]any, err error)
}

// CtrlServer is one listening node.
type CtrlServer struct {
	ln   net.Listener
	Addr string // host:port
	Host string
	Port uint32

	mu      sync.Mutex
	backend CtrlBackend
	conns   map[net.Conn]struct{}
	closed  bool
	// ProtoErrors collects protocol-level problems (unknown packets …): infrastructure, not verdicts.
	ProtoErrors []string
}

// NewCtrlServer starts a node on a free loopback port.
func NewCtrlServer() (*CtrlServer, error) {
	ln, err := net.Listen("tcp", "127.0.0.1:0")
	if err != nil {
		return nil, err
	}
	ta := ln.Addr().(*net.TCPAddr)
	s := &CtrlServer{ln: ln, Addr: ta.String(), Host: "127.0.0.1", Port: uint32(ta.Port), conns: map[net.Conn]struct{}{}}
	go s.accept()
	return s, nil
}

// SetBackend installs the backend for the connections accepted from now on and drops the
// connections still open (clients that never closed theirs, e.g. upgradeDB).
func (s *CtrlServer) SetBackend(b CtrlBackend) {
	s.mu.Lock()
	s.backend = b
	for c := range s.conns {
		c.Close()
	}
	s.conns = map[net.Conn]struct{}{}
	s.mu.Unlock()
}

// Close stops the node.
func (s *CtrlServer) Close() {
	s.mu.Lock()
	s.closed = true
	for c := range s.conns {
		c.Close()
	}
	s.mu.Unlock()
	s.ln.Close()
}

func (s *CtrlServer) protoErr(f string, a ...any) {
	s.mu.Lock()
	if len(s.ProtoErrors) < 20 {
		s.ProtoErrors = append(s.ProtoErrors, fmt.Sprintf(f, a...))
	}
	s.mu.Unlock()
}

func (s *CtrlServer) accept() {
	for {
		c, err := s.ln.Accept()
		if err != nil {
			return
		}
		s.mu.Lock()
		b := s.backend
		s.conns[c] = struct{}{}
		s.mu.Unlock()
		go func() {
			defer func() {
				c.Close()
				s.mu.Lock()
				delete(s.conns, c)
				s.mu.Unlock()
			}()
			if err := s.serve(c, b); err != nil && !errors.Is(err, io.EOF) && !errors.Is(err, net.ErrClosed) &&
				!strings.Contains(err.Error(), "use of closed") && !strings.Contains(err.Error(), "reset by peer") {
				s.protoErr("%v", err)
			}
		}()
	}
}

type ctrlWire struct {
	r *bufio.Reader
	w *bufio.Writer
}

func (x *ctrlWire) uvarint() (uint64, error) { return binary.ReadUvarint(x.r) }

func (x *ctrlWire) str() (string, error) {
	n, err := x.uvarint()
	if err != nil {
		return "", err
	}
	if n > 64<<20 {
		return "", fmt.Errorf("string of %d bytes", n)
	}
	b := make([]byte, n)
	_, err = io.ReadFull(x.r, b)
	return string(b), err
}

func (x *ctrlWire) skip(n int) error {
	_, err := x.r.Discard(n)
	return err
}

func (x *ctrlWire) putUvarint(v uint64) {
	var b [10]byte
	n := binary.PutUvarint(b[:], v)
	x.w.Write(b[:n])
}

func (x *ctrlWire) putStr(s string) {
	x.putUvarint(uint64(len(s)))
	x.w.WriteString(s)
}

func (x *ctrlWire) putException(code int32, msg string) {
	x.w.WriteByte(2) // ServerException
	var b [4]byte
	binary.LittleEndian.PutUint32(b[:], uint32(code))
	x.w.Write(b[:])
	x.putStr("DB::Exception")
	x.putStr("DB::Exception: " + msg)
	x.putStr("")
	x.w.WriteByte(0) // not nested
}

func (x *ctrlWire) putBlockInfo() {
	x.putUvarint(1)
	x.w.WriteByte(0)
	x.putUvarint(2)
	x.w.Write([]byte{0xff, 0xff, 0xff, 0xff})
	x.putUvarint(0)
}

// putBlock writes a Data packet. kinds: "UInt64" or "String" per column.
func (x *ctrlWire) putBlock(cols, kinds []string, rows [][]any) {
	x.w.WriteByte(1) // ServerData
	x.putStr("")     // temporary table name
	x.putBlockInfo()
	x.putUvarint(uint64(len(cols)))
	x.putUvarint(uint64(len(rows)))
	for ci, name := range cols {
		x.putStr(name)
		x.putStr(kinds[ci])
		for _, row := range rows {
			switch v := row[ci].(type) {
			case uint64:
				var b [8]byte
				binary.LittleEndian.PutUint64(b[:], v)
				x.w.Write(b[:])
			case string:
				x.putStr(v)
			}
		}
	}
}

func (x *ctrlWire) readBlockInfo() error {
	for {
		f, err := x.uvarint()
		if err != nil {
			return err
		}
		switch f {
		case 0:
			return nil
		case 1:
			if err := x.skip(1); err != nil {
				return err
			}
		case 2:
			if err := x.skip(4); err != nil {
				return err
			}
		default:
			return fmt.Errorf("block info field %d", f)
		}
	}
}

func ctrlErrCode(err error) int32 {
	var me *ctrlModelErr
	if errors.As(err, &me) {
		return int32(me.code)
	}
	var ce *clickhouse.Exception
	if errors.As(err, &ce) {
		return ce.Code
	}
	return 210 // NETWORK_ERROR stands for an injected fault
}

func (s *CtrlServer) serve(c net.Conn, backend CtrlBackend) error {
	x := &ctrlWire{r: bufio.NewReader(c), w: bufio.NewWriter(c)}
	// ---- hello
	code, err := x.uvarint()
	if err != nil {
		return err
	}
	if code != 0 {
		return fmt.Errorf("expected client hello, got packet %d", code)
	}
	if _, err = x.str(); err != nil { // client name
		return err
	}
	for i := 0; i < 3; i++ { // major, minor, protocol version
		if _, err = x.uvarint(); err != nil {
			return err
		}
	}
	database, err := x.str()
	if err != nil {
		return err
	}
	if _, err = x.str(); err != nil { // user
		return err
	}
	if _, err = x.str(); err != nil { // password
		return err
	}
	if backend == nil {
		x.putException(516, "fakech: no backend installed")
		return x.w.Flush()
	}
	sess, cerr := backend.Connect(s.Addr, database)
	if cerr != nil {
		x.putException(ctrlErrCode(cerr), cerr.Error())
		return x.w.Flush()
	}
	x.w.WriteByte(0) // ServerHello
	x.putStr("fakech")
	x.putUvarint(24)
	x.putUvarint(3)
	x.putUvarint(ctrlSrvRevision)
	x.putStr("UTC")
	x.putStr("fakech")
	x.putUvarint(0)
	if err := x.w.Flush(); err != nil {
		return err
	}
	// ---- packets
	for {
		code, err := x.uvarint()
		if err != nil {
			return err
		}
		switch code {
		case 4: // ping
			x.w.WriteByte(4) // pong
			if err := x.w.Flush(); err != nil {
				return err
			}
		case 3: // cancel
			return nil
		case 1: // query
			sql, err := s.readQuery(x)
			if err != nil {
				return err
			}
			if drop := s.answer(x, sess, sql); drop {
				return nil // transport-level fault: the connection dies without an answer
			}
			if err := x.w.Flush(); err != nil {
				return err
			}
		default:
			return fmt.Errorf("unexpected client packet %d", code)
		}
	}
}

func (s *CtrlServer) readQuery(x *ctrlWire) (string, error) {
	rd := func(n int, what string) error {
		for i := 0; i < n; i++ {
			if _, err := x.str(); err != nil {
				return fmt.Errorf("%s: %w", what, err)
			}
		}
		return nil
	}
	if err := rd(1, "query id"); err != nil {
		return "", err
	}
	// client info
	kind, err := x.r.ReadByte()
	if err != nil {
		return "", err
	}
	if kind != 0 {
		if err := rd(3, "initial user/query id/address"); err != nil {
			return "", err
		}
		if err := x.skip(1); err != nil { // interface
			return "", err
		}
		if err := rd(3, "os user/hostname/client name"); err != nil {
			return "", err
		}
		for i := 0; i < 3; i++ {
			if _, err := x.uvarint(); err != nil {
				return "", err
			}
		}
		if err := rd(1, "quota key"); err != nil {
			return "", err
		}
		if _, err := x.uvarint(); err != nil { // version patch
			return "", err
		}
	}
	// settings: (key, flags, value)* ""
	for {
		k, err := x.str()
		if err != nil {
			return "", err
		}
		if k == "" {
			break
		}
		if _, err := x.uvarint(); err != nil {
			return "", err
		}
		if _, err := x.str(); err != nil {
			return "", err
		}
	}
	if err := x.skip(2); err != nil { // stage, compression
		return "", err
	}
	sql, err := x.str()
	if err != nil {
		return "", err
	}
	// the empty data block that ends the external tables
	code, err := x.uvarint()
	if err != nil {
		return "", err
	}
	if code != 2 {
		return "", fmt.Errorf("expected data packet after query, got %d", code)
	}
	if err := rd(1, "table name"); err != nil {
		return "", err
	}
	if err := x.readBlockInfo(); err != nil {
		return "", err
	}
	nc, err := x.uvarint()
	if err != nil {
		return "", err
	}
	nr, err := x.uvarint()
	if err != nil {
		return "", err
	}
	if nc != 0 || nr != 0 {
		return "", fmt.Errorf("external table data (%d columns, %d rows) is not modelled", nc, nr)
	}
	return sql, nil
}

func ctrlIsSelect(sql string) bool {
	t := strings.ToUpper(strings.TrimSpace(sql))
	return strings.HasPrefix(t, "SELECT") || strings.HasPrefix(t, "SHOW") || strings.HasPrefix(t, "WITH") || strings.HasPrefix(t, "DESCRIBE") || strings.HasPrefix(t, "EXISTS")
}

func ctrlErrMsg(err error) string {
	var ce *clickhouse.Exception
	if errors.As(err, &ce) {
		return ce.Message
	}
	return err.Error()
}

func (s *CtrlServer) answer(x *ctrlWire, sess CtrlSession, sql string) (drop bool) {
	if !ctrlIsSelect(sql) {
		if err := sess.Exec(sql); err != nil {
			if CtrlTransportError(err) {
				return true
			}
			x.putException(ctrlErrCode(err), ctrlErrMsg(err))
			return false
		}
		x.w.WriteByte(5) // end of stream
		return false
	}
	cols, rows, err := sess.Query(sql)
	if err != nil {
		if CtrlTransportError(err) {
			return true
		}
		x.putException(ctrlErrCode(err), ctrlErrMsg(err))
		return false
	}
	kinds := make([]string, len(cols))
	for i := range cols {
		kinds[i] = "String"
		for _, r := range rows {
			if _, ok := r[i].(uint64); ok {
				kinds[i] = "UInt64"
			}
			break
		}
		if len(rows) == 0 && (cols[i] == "ver" || strings.HasPrefix(cols[i], "count")) {
			kinds[i] = "UInt64"
		}
	}
	x.putBlock(cols, kinds, nil) // header
	if len(rows) > 0 {
		x.putBlock(cols, kinds, rows)
	}
	x.w.WriteByte(5)
	return false
}

// ---- a farm of modelled databases behind several nodes -------------------------------------------

// CtrlFarm is a CtrlBackend: nodes (listener addresses), each belonging to at most one
// cluster, and one modelled database (CtrlConn) per logical database: a database of a
// cluster is one catalogue shared by all nodes of the cluster (every DDL ctrl issues there is
// ON CLUSTER or idempotent; node-local statements are modelled cluster-wide), a database of a
// stand-alone node belongs to that node. A database exists once CREATE DATABASE created it
// (`default` always exists).
type CtrlFarm struct {
	mu      sync.Mutex
	cluster map[string]string    // node address -> cluster name ("" = stand-alone)
	dbs     map[string]*CtrlConn // logical key -> database
	// OnCreate is called when a database comes into existence (install Decide / AfterApply there).
	OnCreate func(key string, conn *CtrlConn)
	// AdminFault, if set, may fail a statement on a connection without database (CREATE DATABASE, SHOW CREATE DATABASE).
	AdminFault func(addr, sql string) error
	AdminCalls []string
}

// NewCtrlFarm: clusterOf maps every node address to its cluster name.
func NewCtrlFarm(clusterOf map[string]string) *CtrlFarm {
	return &CtrlFarm{cluster: clusterOf, dbs: map[string]*CtrlConn{}}
}

// Key is the identity of the database `db` reached through node addr.
func (f *CtrlFarm) Key(addr, db string) string {
	if cl := f.cluster[addr]; cl != "" {
		return "cluster:" + cl + "/" + db
	}
	return "node:" + addr + "/" + db
}

// DB returns the modelled database or nil.
func (f *CtrlFarm) DB(key string) *CtrlConn {
	f.mu.Lock()
	defer f.mu.Unlock()
	return f.dbs[key]
}

// Keys lists the databases that exist.
func (f *CtrlFarm) Keys() []string {
	f.mu.Lock()
	defer f.mu.Unlock()
	var out []string
	for k := range f.dbs {
		out = append(out, k)
	}
	return out
}

func (f *CtrlFarm) create(addr, db string) *CtrlConn {
	key := f.Key(addr, db)
	f.mu.Lock()
	c, ok := f.dbs[key]
	if !ok {
		c = NewCtrlConn(db)
		f.dbs[key] = c
	}
	cb := f.OnCreate
	f.mu.Unlock()
	if !ok && cb != nil {
		cb(key, c)
	}
	return c
}

// Connect implements CtrlBackend.
func (f *CtrlFarm) Connect(addr, database string) (CtrlSession, error) {
	if database == "" {
		return &ctrlAdminSession{f: f, addr: addr}, nil
	}
	if database == "default" {
		return &ctrlDBSession{f.create(addr, database)}, nil
	}
	c := f.DB(f.Key(addr, database))
	if c == nil {
		return nil, ctrlErr(81, "Database %s doesn't exist", database)
	}
	return &ctrlDBSession{c}, nil
}

type ctrlDBSession struct{ c *CtrlConn }

func (s *ctrlDBSession) Exec(sql string) error { return s.c.Exec(context.Background(), sql) }

func (s *ctrlDBSession) Query(sql string) ([]string, [][]any, error) {
	rows, err := s.c.Query(context.Background(), sql)
	if err != nil {
		return nil, nil, err
	}
	r := rows.(*ctrlRows)
	return r.cols, r.data, nil
}

// ctrlAdminSession: a connection without database (InitDB): CREATE DATABASE / SHOW CREATE DATABASE.
type ctrlAdminSession struct {
	f    *CtrlFarm
	addr string
}

func (s *ctrlAdminSession) fault(sql string) error {
	s.f.mu.Lock()
	s.f.AdminCalls = append(s.f.AdminCalls, sql)
	af := s.f.AdminFault
	s.f.mu.Unlock()
	if af != nil {
		return af(s.addr, sql)
	}
	return nil
}

func (s *ctrlAdminSession) Exec(sql string) error {
	if err := s.fault(sql); err != nil {
		return err
	}
	st := ctrlParse(sql, "")
	if st.Kind != "create_database" || st.Table == "" {
		return fmt.Errorf("fakech: statement without database not modelled: %s", sql)
	}
	s.f.create(s.addr, st.Table)
	return nil
}

func (s *ctrlAdminSession) Query(sql string) ([]string, [][]any, error) {
	if err := s.fault(sql); err != nil {
		return nil, nil, err
	}
	toks := ctrlLex(sql)
	if len(toks) == 4 && toks[0].isKw("SHOW") && toks[1].isKw("CREATE") && toks[2].isKw("DATABASE") && toks[3].isName() {
		db := toks[3].text
		if db != "default" && s.f.DB(s.f.Key(s.addr, db)) == nil {
			return nil, nil, ctrlErr(81, "Database %s doesn't exist", db)
		}
		return []string{"statement"}, [][]any{{"CREATE DATABASE " + db + " ENGINE = Atomic"}}, nil
	}
	return nil, nil, fmt.Errorf("fakech: query without database not modelled: %s", sql)
}

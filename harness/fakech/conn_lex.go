package fakech

import (
	"strings"
)

// Minimal lexer of the ClickHouse DDL dialect the ctrl package emits. Tokens keep their
// kind and text; expressions are re-rendered canonically as tokens joined by one space, so
// two spellings that differ only in whitespace / line breaks compare equal.

type ctrlTokKind int

const (
	ctrlTIdent  ctrlTokKind = iota // bare identifier / keyword
	ctrlTQIdent                    // `quoted` or "quoted" identifier
	ctrlTNumber
	ctrlTString // 'string' (text holds the unescaped value)
	ctrlTPunct
)

type ctrlTok struct {
	kind ctrlTokKind
	text string
}

func (t ctrlTok) isKw(kw string) bool {
	return t.kind == ctrlTIdent && strings.EqualFold(t.text, kw)
}

func (t ctrlTok) isPunct(p string) bool { return t.kind == ctrlTPunct && t.text == p }

func (t ctrlTok) isName() bool { return t.kind == ctrlTIdent || t.kind == ctrlTQIdent }

// render gives the canonical spelling of one token.
func (t ctrlTok) render() string {
	switch t.kind {
	case ctrlTString:
		return "'" + strings.NewReplacer(`\`, `\\`, `'`, `\'`).Replace(t.text) + "'"
	case ctrlTQIdent:
		return "`" + t.text + "`"
	}
	return t.text
}

func ctrlIsIdentStart(c byte) bool {
	return c == '_' || (c >= 'a' && c <= 'z') || (c >= 'A' && c <= 'Z')
}

func ctrlIsIdentPart(c byte) bool { return ctrlIsIdentStart(c) || (c >= '0' && c <= '9') }

func ctrlLex(s string) []ctrlTok {
	var out []ctrlTok
	i := 0
	for i < len(s) {
		c := s[i]
		switch {
		case c == ' ' || c == '\t' || c == '\n' || c == '\r':
			i++
		case c == '-' && i+1 < len(s) && s[i+1] == '-':
			for i < len(s) && s[i] != '\n' {
				i++
			}
		case c == '/' && i+1 < len(s) && s[i+1] == '*':
			j := strings.Index(s[i+2:], "*/")
			if j < 0 {
				i = len(s)
			} else {
				i += j + 4
			}
		case ctrlIsIdentStart(c):
			j := i + 1
			for j < len(s) && ctrlIsIdentPart(s[j]) {
				j++
			}
			out = append(out, ctrlTok{ctrlTIdent, s[i:j]})
			i = j
		case c >= '0' && c <= '9':
			j := i + 1
			for j < len(s) && (ctrlIsIdentPart(s[j]) || s[j] == '.') {
				j++
			}
			out = append(out, ctrlTok{ctrlTNumber, s[i:j]})
			i = j
		case c == '\'':
			var b strings.Builder
			j := i + 1
			for j < len(s) {
				if s[j] == '\\' && j+1 < len(s) {
					b.WriteByte(s[j+1])
					j += 2
					continue
				}
				if s[j] == '\'' {
					if j+1 < len(s) && s[j+1] == '\'' {
						b.WriteByte('\'')
						j += 2
						continue
					}
					break
				}
				b.WriteByte(s[j])
				j++
			}
			out = append(out, ctrlTok{ctrlTString, b.String()})
			i = j + 1
		case c == '`' || c == '"':
			j := i + 1
			for j < len(s) && s[j] != c {
				j++
			}
			out = append(out, ctrlTok{ctrlTQIdent, s[i+1 : min(j, len(s))]})
			i = j + 1
		default:
			if i+1 < len(s) {
				two := s[i : i+2]
				switch two {
				case "!=", "<>", "<=", ">=", "->", "::", "||", "==":
					out = append(out, ctrlTok{ctrlTPunct, two})
					i += 2
					continue
				}
			}
			out = append(out, ctrlTok{ctrlTPunct, string(c)})
			i++
		}
	}
	return out
}

func ctrlRender(toks []ctrlTok) string {
	parts := make([]string, len(toks))
	for i, t := range toks {
		parts[i] = t.render()
	}
	return strings.Join(parts, " ")
}

// ctrlSplitTop splits toks at depth-0 occurrences of the punctuation sep.
func ctrlSplitTop(toks []ctrlTok, sep string) [][]ctrlTok {
	var out [][]ctrlTok
	depth := 0
	start := 0
	for i, t := range toks {
		if t.kind == ctrlTPunct {
			switch t.text {
			case "(", "[":
				depth++
			case ")", "]":
				depth--
			}
			if depth == 0 && t.text == sep {
				out = append(out, toks[start:i])
				start = i + 1
			}
		}
	}
	out = append(out, toks[start:])
	return out
}

// ctrlMatchParen returns the index of the parenthesis closing the one at toks[open].
func ctrlMatchParen(toks []ctrlTok, open int) int {
	depth := 0
	for i := open; i < len(toks); i++ {
		if toks[i].kind == ctrlTPunct {
			switch toks[i].text {
			case "(", "[":
				depth++
			case ")", "]":
				depth--
				if depth == 0 {
					return i
				}
			}
		}
	}
	return -1
}

// ctrlStripParens removes one pair of parentheses that encloses the whole token list.
func ctrlStripParens(toks []ctrlTok) ([]ctrlTok, bool) {
	if len(toks) >= 2 && toks[0].isPunct("(") && ctrlMatchParen(toks, 0) == len(toks)-1 {
		return toks[1 : len(toks)-1], true
	}
	return toks, false
}

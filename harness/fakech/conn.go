package fakech

// ctrl fake: an in-memory stand-in for the clickhouse-go v2 connection the ctrl package
// (schema initialisation, retention rotation) talks to. Exec classifies each statement
// with the DDL recogniser of conn_catalog.go and applies it to a modelled catalogue with
// ClickHouse's documented failure rules; Query answers the queries ctrl issues. A fault
// decider can fail any call before its effect or after it (the server executed the
// statement but the client saw an error / the process was killed).

import (
	"context"
	"errors"
	"fmt"
	"reflect"
	"regexp"
	"strconv"
	"strings"
	"sync"

	"github.com/ClickHouse/clickhouse-go/v2/lib/driver"
)

// CtrlFaultMode says how a call fails.
type CtrlFaultMode string

const (
	CtrlNoFault    CtrlFaultMode = ""
	CtrlFailBefore CtrlFaultMode = "before" // error, statement has no effect
	CtrlFailAfter  CtrlFaultMode = "after"  // statement takes effect, error returned
	// Kill modes: the process is killed at the statement. The call never returns (the calling
	// goroutine is parked forever, so no deferred function and no error path of the caller runs);
	// the fake signals Parked() and the harness goes on with a restart on the same catalogue.
	CtrlKillBefore CtrlFaultMode = "kill-before" // statement has no effect
	CtrlKillAfter  CtrlFaultMode = "kill-after"  // statement took effect
)

// ErrCtrlInjected is the error returned for injected faults.
var ErrCtrlInjected = errors.New("fakech: injected fault (connection lost)")

// CtrlCall is one Exec / Query seen by the fake.
type CtrlCall struct {
	Seq   int    `json:"seq"`   // global sequence number
	Run   int    `json:"run"`   // run counter (BeginRun)
	Index int    `json:"index"` // position within the run
	Query bool   `json:"query"` // Query/QueryRow rather than Exec
	Raw   string `json:"-"`
	SQL   string `json:"sql"` // statement with arguments bound
	Stmt  *CtrlStmt
	Fault CtrlFaultMode `json:"fault,omitempty"`
	// Applied: the statement reached the catalogue without a model error; Changed: it changed it
	// (false e.g. for CREATE … IF NOT EXISTS of an existing table).
	Applied bool   `json:"applied"`
	Changed bool   `json:"changed"`
	Err     string `json:"err,omitempty"`
	// ModelErr: Err came from the catalogue's failure rules, not from an injected fault.
	ModelErr bool `json:"model_err,omitempty"`
}

// CtrlConn implements driver.Conn over a CtrlCatalog.
type CtrlConn struct {
	mu    sync.Mutex
	Cat   *CtrlCatalog
	calls []*CtrlCall
	run   int
	idx   int
	// Decide, if set, is asked before every call is executed.
	Decide func(c *CtrlCall) CtrlFaultMode
	// FaultErr, if set, chooses the error VALUE an injected fault returns (nil: ErrCtrlInjected).
	FaultErr func(c *CtrlCall) error
	// AfterApply, if set, is called after a statement changed the catalogue (history invariants).
	AfterApply func(c *CtrlCall, cat *CtrlCatalog)
	closed     int
	parked     chan *CtrlCall
}

// Parked delivers the call at which a kill-mode fault parked its goroutine.
func (c *CtrlConn) Parked() <-chan *CtrlCall {
	c.mu.Lock()
	defer c.mu.Unlock()
	if c.parked == nil {
		c.parked = make(chan *CtrlCall, 16)
	}
	return c.parked
}

// park never returns. c.mu must be held; it is released first (the deferred unlock of the
// caller never runs because the goroutine never resumes).
func (c *CtrlConn) park(call *CtrlCall) {
	call.Err = "killed"
	if c.parked == nil {
		c.parked = make(chan *CtrlCall, 16)
	}
	ch := c.parked
	c.mu.Unlock()
	ch <- call
	select {}
}

// Discard drops the catalogue and the call log (end of a case): goroutines parked by kill-mode
// faults keep a reference to the connection for the life of the process.
func (c *CtrlConn) Discard() {
	c.mu.Lock()
	c.Cat, c.calls, c.Decide, c.AfterApply, c.FaultErr = NewCtrlCatalog(""), nil, nil, nil, nil
	c.mu.Unlock()
}

var _ driver.Conn = (*CtrlConn)(nil)

func (c *CtrlConn) faultErr(call *CtrlCall) error {
	if c.FaultErr != nil {
		if e := c.FaultErr(call); e != nil {
			return e
		}
	}
	return ErrCtrlInjected
}

// NewCtrlConn returns a connection to an empty database named db.
func NewCtrlConn(db string) *CtrlConn { return &CtrlConn{Cat: NewCtrlCatalog(db)} }

// NewCtrlConnOn returns a connection over an existing catalogue (not copied).
func NewCtrlConnOn(cat *CtrlCatalog) *CtrlConn { return &CtrlConn{Cat: cat} }

// BeginRun starts a new run: call indices restart at 0.
func (c *CtrlConn) BeginRun() int {
	c.mu.Lock()
	defer c.mu.Unlock()
	c.run++
	c.idx = 0
	return c.run
}

// Calls returns the call log.
func (c *CtrlConn) Calls() []*CtrlCall {
	c.mu.Lock()
	defer c.mu.Unlock()
	return append([]*CtrlCall(nil), c.calls...)
}

// RunCalls returns the calls of one run.
func (c *CtrlConn) RunCalls(run int) []*CtrlCall {
	var out []*CtrlCall
	for _, cl := range c.Calls() {
		if cl.Run == run {
			out = append(out, cl)
		}
	}
	return out
}

// Unrecognised counts the calls whose statement (or part of it) had no modelled effect.
func (c *CtrlConn) Unrecognised() (stmts, queries int) {
	for _, cl := range c.Calls() {
		if cl.Stmt.Unrecognised {
			if cl.Query {
				queries++
			} else {
				stmts++
			}
		}
	}
	return
}

var ctrlArgRe = regexp.MustCompile(`\$(\d+)`)

func ctrlQuote(s string) string {
	return "'" + strings.NewReplacer(`\`, `\\`, `'`, `\'`).Replace(s) + "'"
}

func ctrlFormatArg(a any) string {
	switch v := a.(type) {
	case string:
		return ctrlQuote(v)
	case []byte:
		return ctrlQuote(string(v))
	case bool:
		if v {
			return "1"
		}
		return "0"
	case fmt.Stringer:
		return ctrlQuote(v.String())
	}
	rv := reflect.ValueOf(a)
	switch rv.Kind() {
	case reflect.Int, reflect.Int8, reflect.Int16, reflect.Int32, reflect.Int64:
		return strconv.FormatInt(rv.Int(), 10)
	case reflect.Uint, reflect.Uint8, reflect.Uint16, reflect.Uint32, reflect.Uint64:
		return strconv.FormatUint(rv.Uint(), 10)
	case reflect.Float32, reflect.Float64:
		return strconv.FormatFloat(rv.Float(), 'g', -1, 64)
	case reflect.String:
		return ctrlQuote(rv.String())
	}
	return ctrlQuote(fmt.Sprint(a))
}

// ctrlBind substitutes $n placeholders the way clickhouse-go's positional binding does.
func ctrlBind(q string, args []any) (string, error) {
	if len(args) == 0 {
		return q, nil
	}
	var berr error
	out := ctrlArgRe.ReplaceAllStringFunc(q, func(m string) string {
		n, _ := strconv.Atoi(m[1:])
		if n < 1 || n > len(args) {
			berr = fmt.Errorf("clickhouse [bind]: argument %s out of range", m)
			return m
		}
		return ctrlFormatArg(args[n-1])
	})
	return out, berr
}

func (c *CtrlConn) begin(query string, args []any, isQuery bool) (*CtrlCall, error) {
	sql, err := ctrlBind(query, args)
	call := &CtrlCall{Seq: len(c.calls), Run: c.run, Index: c.idx, Query: isQuery, Raw: query, SQL: sql}
	c.idx++
	c.calls = append(c.calls, call)
	if err != nil {
		call.Stmt = &CtrlStmt{Kind: "unknown", Unrecognised: true}
		call.Err = err.Error()
		call.ModelErr = true
		return call, err
	}
	call.Stmt = ctrlParse(sql, c.Cat.DB)
	if c.Decide != nil {
		call.Fault = c.Decide(call)
	}
	if call.Fault == CtrlKillBefore {
		c.park(call)
	}
	if call.Fault == CtrlFailBefore {
		e := c.faultErr(call)
		call.Err = e.Error()
		return call, e
	}
	return call, nil
}

// Exec applies one statement to the catalogue.
func (c *CtrlConn) Exec(ctx context.Context, query string, args ...any) error {
	c.mu.Lock()
	defer c.mu.Unlock()
	call, err := c.begin(query, args, false)
	if err != nil {
		return err
	}
	switch call.Stmt.Kind {
	case "select_ver", "select_setting", "select_count", "show_tables":
		// a SELECT through Exec: executed, result dropped
		call.Applied = true
	case "unknown":
		// recorded, succeeds without effect (counted in evidence)
		call.Applied = true
	default:
		changed, aerr := c.Cat.apply(call.Stmt)
		if aerr != nil {
			call.Err = aerr.Error()
			call.ModelErr = true
			return aerr
		}
		call.Applied = true
		call.Changed = changed
		if c.AfterApply != nil {
			c.AfterApply(call, c.Cat)
		}
	}
	if call.Fault == CtrlKillAfter {
		c.park(call)
	}
	if call.Fault == CtrlFailAfter {
		e := c.faultErr(call)
		call.Err = e.Error()
		return e
	}
	return nil
}

// Query answers the queries ctrl issues; anything else is an error (and counted).
func (c *CtrlConn) Query(ctx context.Context, query string, args ...any) (driver.Rows, error) {
	c.mu.Lock()
	defer c.mu.Unlock()
	call, err := c.begin(query, args, true)
	if err != nil {
		return nil, err
	}
	rows := &ctrlRows{}
	st := call.Stmt
	switch st.Kind {
	case "select_ver":
		o, rerr := c.Cat.resolve(st.Table)
		if rerr == nil && o.Name != "ver" {
			rerr = ctrlErr(47, "Missing columns: 'ver' while processing query on %s", o.Name)
		}
		if rerr != nil {
			call.Err, call.ModelErr = rerr.Error(), true
			return nil, rerr
		}
		k, perr := strconv.ParseInt(st.arg, 10, 64)
		if perr != nil {
			call.Err, call.ModelErr = perr.Error(), true
			return nil, perr
		}
		// an aggregate without GROUP BY yields one row even over nothing
		rows.cols = []string{"ver"}
		rows.data = [][]any{{c.Cat.MaxVer(k)}}
	case "select_setting":
		o, rerr := c.Cat.resolve(st.Table)
		if rerr == nil && o.Name != "settings" {
			rerr = ctrlErr(47, "Missing columns: 'value' while processing query on %s", o.Name)
		}
		if rerr != nil {
			call.Err, call.ModelErr = rerr.Error(), true
			return nil, rerr
		}
		rows.cols = []string{"_value"}
		if r, ok := c.Cat.LatestSettings()[st.arg]; ok && r.Name != "" {
			rows.data = [][]any{{r.Value}}
		}
	case "show_tables":
		rows.cols = []string{"name"}
		for _, n := range c.Cat.objectNames() {
			rows.data = append(rows.data, []any{n})
		}
	case "select_count":
		o, rerr := c.Cat.resolve(st.Table)
		if rerr != nil {
			call.Err, call.ModelErr = rerr.Error(), true
			return nil, rerr
		}
		n := uint64(c.Cat.RowCount[o.Name])
		switch o.Name {
		case "ver":
			n = uint64(len(c.Cat.Ver))
		case "settings":
			n = uint64(len(c.Cat.Settings))
		}
		rows.cols = []string{"count(1)"}
		rows.data = [][]any{{n}}
	default:
		st.Unrecognised = true
		e := fmt.Errorf("fakech: query not modelled: %s", call.SQL)
		call.Err, call.ModelErr = e.Error(), true
		return nil, e
	}
	call.Applied = true
	if call.Fault == CtrlKillAfter {
		c.park(call)
	}
	if call.Fault == CtrlFailAfter {
		e := c.faultErr(call)
		call.Err = e.Error()
		return nil, e
	}
	return rows, nil
}

func (c *CtrlCatalog) objectNames() []string {
	names := make([]string, 0, len(c.Objects))
	for n := range c.Objects {
		names = append(names, n)
	}
	// SHOW TABLES is ordered by name
	for i := 1; i < len(names); i++ {
		for j := i; j > 0 && names[j] < names[j-1]; j-- {
			names[j], names[j-1] = names[j-1], names[j]
		}
	}
	return names
}

// QueryRow is Query limited to the first row.
func (c *CtrlConn) QueryRow(ctx context.Context, query string, args ...any) driver.Row {
	rows, err := c.Query(ctx, query, args...)
	if err != nil {
		return &ctrlRow{err: err}
	}
	return &ctrlRow{rows: rows.(*ctrlRows)}
}

func (c *CtrlConn) Contributors() []string { return nil }

func (c *CtrlConn) ServerVersion() (*driver.ServerVersion, error) {
	return &driver.ServerVersion{Name: "fakech", DisplayName: "fakech"}, nil
}

func (c *CtrlConn) Select(ctx context.Context, dest any, query string, args ...any) error {
	return errors.New("fakech: Select not modelled")
}

func (c *CtrlConn) PrepareBatch(ctx context.Context, query string, opts ...driver.PrepareBatchOption) (driver.Batch, error) {
	return nil, errors.New("fakech: PrepareBatch not modelled")
}

func (c *CtrlConn) AsyncInsert(ctx context.Context, query string, wait bool, args ...any) error {
	return c.Exec(ctx, query, args...)
}

func (c *CtrlConn) Ping(context.Context) error { return nil }

func (c *CtrlConn) Stats() driver.Stats { return driver.Stats{} }

func (c *CtrlConn) Close() error {
	c.mu.Lock()
	c.closed++
	c.mu.Unlock()
	return nil
}

// ---- rows ---------------------------------------------------------------------------------------

type ctrlRows struct {
	cols []string
	data [][]any
	pos  int // 0 = before the first row
}

func (r *ctrlRows) Next() bool {
	if r.pos < len(r.data) {
		r.pos++
		return true
	}
	r.pos = len(r.data) + 1
	return false
}

func (r *ctrlRows) Scan(dest ...any) error {
	if r.pos < 1 || r.pos > len(r.data) {
		return errors.New("fakech: Scan called without a current row")
	}
	row := r.data[r.pos-1]
	if len(dest) != len(row) {
		return fmt.Errorf("clickhouse [scan]: expected %d destination arguments in Scan, not %d", len(row), len(dest))
	}
	for i, d := range dest {
		if err := ctrlAssign(d, row[i]); err != nil {
			return err
		}
	}
	return nil
}

func ctrlAssign(dest any, v any) error {
	dv := reflect.ValueOf(dest)
	if dv.Kind() != reflect.Ptr || dv.IsNil() {
		return errors.New("clickhouse [scan]: destination is not a pointer")
	}
	el := dv.Elem()
	sv := reflect.ValueOf(v)
	switch el.Kind() {
	case reflect.String:
		if sv.Kind() == reflect.String {
			el.SetString(sv.String())
			return nil
		}
	case reflect.Uint, reflect.Uint8, reflect.Uint16, reflect.Uint32, reflect.Uint64:
		switch sv.Kind() {
		case reflect.Uint, reflect.Uint8, reflect.Uint16, reflect.Uint32, reflect.Uint64:
			el.SetUint(sv.Uint())
			return nil
		}
	case reflect.Int, reflect.Int8, reflect.Int16, reflect.Int32, reflect.Int64:
		switch sv.Kind() {
		case reflect.Int, reflect.Int8, reflect.Int16, reflect.Int32, reflect.Int64:
			el.SetInt(sv.Int())
			return nil
		}
	case reflect.Interface:
		el.Set(sv)
		return nil
	}
	// clickhouse-go refuses conversions between column type and destination type
	return fmt.Errorf("clickhouse [scan]: converting %T to %s is unsupported", v, el.Type())
}

func (r *ctrlRows) ScanStruct(dest any) error         { return errors.New("fakech: ScanStruct not modelled") }
func (r *ctrlRows) ColumnTypes() []driver.ColumnType { return nil }
func (r *ctrlRows) Totals(dest ...any) error         { return nil }
func (r *ctrlRows) Columns() []string                { return r.cols }
func (r *ctrlRows) Close() error                     { return nil }
func (r *ctrlRows) Err() error                       { return nil }

type ctrlRow struct {
	rows *ctrlRows
	err  error
}

func (r *ctrlRow) Err() error { return r.err }

func (r *ctrlRow) Scan(dest ...any) error {
	if r.err != nil {
		return r.err
	}
	if !r.rows.Next() {
		return errors.New("sql: no rows in result set")
	}
	return r.rows.Scan(dest...)
}

func (r *ctrlRow) ScanStruct(dest any) error { return errors.New("fakech: ScanStruct not modelled") }

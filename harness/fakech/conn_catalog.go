package fakech

import (
	"encoding/json"
	"fmt"
	"sort"
	"strconv"
	"strings"
)

// ---- statements ---------------------------------------------------------------------------

// CtrlStmt is the classification of one statement by the DDL recogniser.
type CtrlStmt struct {
	// Kind: create_table | create_view | create_mv | create_database | drop | rename | alter |
	// insert | select_ver | select_setting | show_tables | select_count | unknown
	Kind      string `json:"kind"`
	Table     string `json:"table,omitempty"` // object name without the default database prefix
	Guard     bool   `json:"guard,omitempty"` // IF NOT EXISTS / IF EXISTS present (create, drop)
	OnCluster string `json:"on_cluster,omitempty"`
	// Alter commands (alter) / rename pairs (rename).
	Cmds    []CtrlAlterCmd `json:"cmds,omitempty"`
	Renames []CtrlRename   `json:"renames,omitempty"`
	// Unrecognised is set when the statement, or one command of an ALTER, was not understood:
	// the unrecognised part has no modelled effect.
	Unrecognised bool `json:"unrecognised,omitempty"`

	obj     *CtrlObject // object to create
	cols    []string    // INSERT column list
	rowVals [][][]ctrlTok // INSERT VALUES tuples: one token list per value
	arg     string      // select_ver: k; select_setting: fingerprint
}

// CtrlAlterCmd is one command of an ALTER TABLE.
type CtrlAlterCmd struct {
	// Op: add_column | drop_column | modify_column | rename_column | add_index | drop_index |
	// modify_order_by | modify_ttl | remove_ttl | modify_setting | reset_setting | unknown
	Op    string `json:"op"`
	Name  string `json:"name,omitempty"`
	Guard bool   `json:"guard,omitempty"`
	// Def: column / index definition, ORDER BY expression, TTL expression list (canonical text).
	Def      string            `json:"def,omitempty"`
	To       string            `json:"to,omitempty"`
	Settings map[string]string `json:"settings,omitempty"`
	Text     string            `json:"text,omitempty"` // canonical text of the whole command
}

// CtrlRename is one "a TO b" element of RENAME TABLE.
type CtrlRename struct {
	From  string `json:"from"`
	To    string `json:"to"`
	Guard bool   `json:"guard,omitempty"`
}

// NonIdempotent says whether executing the statement a second time on the state it produced
// can fail or change rows: RENAME, an ALTER with an unguarded ADD/DROP, an unguarded
// CREATE/DROP, any INSERT.
func (s *CtrlStmt) NonIdempotent() bool {
	switch s.Kind {
	case "rename", "insert":
		return true
	case "create_table", "create_view", "create_mv", "drop":
		return !s.Guard
	case "alter":
		for _, c := range s.Cmds {
			switch c.Op {
			case "add_column", "drop_column", "add_index", "drop_index", "rename_column":
				if !c.Guard {
					return true
				}
			}
		}
	}
	return false
}

// VerRow returns the (k, ver) pair of an `INSERT INTO ver` with one row of literals.
func (s *CtrlStmt) VerRow() (k int64, ver uint64, ok bool) {
	if s.Kind != "insert" || s.Table != "ver" || len(s.rowVals) != 1 || len(s.cols) != len(s.rowVals[0]) {
		return 0, 0, false
	}
	var haveK, haveV bool
	for i, cn := range s.cols {
		txt := ctrlRender(s.rowVals[0][i])
		switch cn {
		case "k":
			v, err := strconv.ParseInt(txt, 10, 64)
			k, haveK = v, err == nil
		case "ver":
			v, err := strconv.ParseUint(txt, 10, 64)
			ver, haveV = v, err == nil
		}
	}
	return k, ver, haveK && haveV
}

// SettingRow returns the literal columns of an `INSERT INTO settings` with one row.
func (s *CtrlStmt) SettingRow() (r CtrlSettingRow, ok bool) {
	if s.Kind != "insert" || s.Table != "settings" || len(s.rowVals) != 1 || len(s.cols) != len(s.rowVals[0]) {
		return r, false
	}
	for i, cn := range s.cols {
		v := s.rowVals[0][i]
		txt := ctrlRender(v)
		if len(v) == 1 && v[0].kind == ctrlTString {
			txt = v[0].text
		}
		switch cn {
		case "fingerprint":
			r.Fingerprint = txt
		case "type":
			r.Type = txt
		case "name":
			r.Name = txt
		case "value":
			r.Value = txt
		}
	}
	return r, true
}

// CtrlCanon renders a statement canonically (tokens joined by one space, trailing ';' dropped).
func CtrlCanon(sql string) string {
	toks := ctrlLex(sql)
	for len(toks) > 0 && toks[len(toks)-1].isPunct(";") {
		toks = toks[:len(toks)-1]
	}
	return ctrlRender(toks)
}

// HasUnguarded reports whether an ALTER holds an ADD/DROP COLUMN/INDEX without its guard.
func (s *CtrlStmt) HasUnguarded() bool {
	return s.Kind == "alter" && s.NonIdempotent()
}

type ctrlParser struct {
	toks []ctrlTok
	pos  int
	db   string
}

func (p *ctrlParser) peek() ctrlTok {
	if p.pos < len(p.toks) {
		return p.toks[p.pos]
	}
	return ctrlTok{kind: ctrlTPunct, text: ""}
}

func (p *ctrlParser) eof() bool { return p.pos >= len(p.toks) }

func (p *ctrlParser) kw(words ...string) bool {
	if p.pos+len(words) > len(p.toks) {
		return false
	}
	for i, w := range words {
		if !p.toks[p.pos+i].isKw(w) {
			return false
		}
	}
	p.pos += len(words)
	return true
}

func (p *ctrlParser) punct(s string) bool {
	if p.peek().isPunct(s) {
		p.pos++
		return true
	}
	return false
}

// name parses [db.]name and drops the default database.
func (p *ctrlParser) name() (string, bool) {
	if !p.peek().isName() {
		return "", false
	}
	n := p.peek().text
	p.pos++
	if p.peek().isPunct(".") && p.pos+1 < len(p.toks) && p.toks[p.pos+1].isName() {
		d := n
		n = p.toks[p.pos+1].text
		p.pos += 2
		if d != p.db {
			n = d + "." + n
		}
	}
	return n, true
}

func (p *ctrlParser) onCluster() string {
	if p.kw("ON", "CLUSTER") {
		t := p.peek()
		if t.isName() || t.kind == ctrlTString {
			p.pos++
			return t.text
		}
	}
	return ""
}

func (p *ctrlParser) rest() []ctrlTok {
	r := p.toks[p.pos:]
	p.pos = len(p.toks)
	return r
}

// ctrlParse classifies one statement. db is the connection's default database.
func ctrlParse(sql string, db string) *CtrlStmt {
	toks := ctrlLex(sql)
	for len(toks) > 0 && toks[len(toks)-1].isPunct(";") {
		toks = toks[:len(toks)-1]
	}
	p := &ctrlParser{toks: toks, db: db}
	unknown := &CtrlStmt{Kind: "unknown", Unrecognised: true}
	switch {
	case p.kw("CREATE"):
		return p.parseCreate(unknown)
	case p.kw("DROP"):
		if !(p.kw("TABLE") || p.kw("VIEW") || p.kw("DICTIONARY")) {
			return unknown
		}
		st := &CtrlStmt{Kind: "drop"}
		st.Guard = p.kw("IF", "EXISTS")
		var ok bool
		if st.Table, ok = p.name(); !ok {
			return unknown
		}
		st.OnCluster = p.onCluster()
		p.kw("SYNC")
		p.kw("NO", "DELAY")
		if !p.eof() {
			return unknown
		}
		return st
	case p.kw("RENAME"):
		if !p.kw("TABLE") {
			return unknown
		}
		st := &CtrlStmt{Kind: "rename"}
		for {
			var r CtrlRename
			var ok bool
			r.Guard = p.kw("IF", "EXISTS")
			if r.From, ok = p.name(); !ok {
				return unknown
			}
			if !p.kw("TO") {
				return unknown
			}
			if r.To, ok = p.name(); !ok {
				return unknown
			}
			st.Renames = append(st.Renames, r)
			if !p.punct(",") {
				break
			}
		}
		st.OnCluster = p.onCluster()
		if !p.eof() {
			return unknown
		}
		st.Table = st.Renames[0].From
		return st
	case p.kw("ALTER"):
		if !p.kw("TABLE") {
			return unknown
		}
		st := &CtrlStmt{Kind: "alter"}
		var ok bool
		if st.Table, ok = p.name(); !ok {
			return unknown
		}
		st.OnCluster = p.onCluster()
		st.Cmds = ctrlParseAlterCmds(p.rest())
		if len(st.Cmds) == 0 {
			return unknown
		}
		for _, c := range st.Cmds {
			if c.Op == "unknown" {
				st.Unrecognised = true
			}
		}
		return st
	case p.kw("INSERT"):
		if !p.kw("INTO") {
			return unknown
		}
		p.kw("TABLE")
		st := &CtrlStmt{Kind: "insert"}
		var ok bool
		if st.Table, ok = p.name(); !ok {
			return unknown
		}
		if p.peek().isPunct("(") {
			end := ctrlMatchParen(p.toks, p.pos)
			if end < 0 {
				return unknown
			}
			for _, c := range ctrlSplitTop(p.toks[p.pos+1:end], ",") {
				if len(c) != 1 || !c[0].isName() {
					return unknown
				}
				st.cols = append(st.cols, c[0].text)
			}
			p.pos = end + 1
		}
		if !p.kw("VALUES") {
			return unknown
		}
		for {
			if !p.peek().isPunct("(") {
				return unknown
			}
			end := ctrlMatchParen(p.toks, p.pos)
			if end < 0 {
				return unknown
			}
			st.rowVals = append(st.rowVals, ctrlSplitTop(p.toks[p.pos+1:end], ","))
			p.pos = end + 1
			if !p.punct(",") {
				break
			}
		}
		if !p.eof() {
			return unknown
		}
		return st
	case p.kw("SHOW"):
		if p.kw("TABLES") && p.eof() {
			return &CtrlStmt{Kind: "show_tables"}
		}
		return unknown
	case p.kw("SELECT"):
		return p.parseSelect(unknown)
	}
	return unknown
}

// The three SELECTs ctrl issues (update.go updateScripts / tableEmpty, rotate.go getSetting).
func (p *ctrlParser) parseSelect(unknown *CtrlStmt) *CtrlStmt {
	text := strings.ToLower(ctrlRender(p.toks[p.pos:]))
	fromTable := func(after string) (string, string, bool) {
		i := strings.Index(text, after)
		if i < 0 {
			return "", "", false
		}
		rest := strings.Fields(text[i+len(after):])
		if len(rest) == 0 {
			return "", "", false
		}
		return rest[0], strings.Join(rest[1:], " "), true
	}
	switch {
	case strings.HasPrefix(text, "max ( ver ) as ver from "):
		tbl, rest, ok := fromTable(" from ")
		if !ok {
			return unknown
		}
		rest = strings.TrimSuffix(rest, " format json")
		f := strings.Fields(rest)
		if len(f) == 4 && f[0] == "where" && f[1] == "k" && f[2] == "=" {
			return &CtrlStmt{Kind: "select_ver", Table: p.stripDB(tbl), arg: f[3]}
		}
	case strings.HasPrefix(text, "argmax ( value , inserted_at ) as _value from "):
		tbl, rest, ok := fromTable(" from ")
		if !ok {
			return unknown
		}
		const tail = " group by fingerprint having argmax ( name , inserted_at ) != ''"
		if !strings.HasSuffix(rest, tail) {
			return unknown
		}
		f := strings.Fields(strings.TrimSuffix(rest, tail))
		if len(f) == 4 && f[0] == "where" && f[1] == "fingerprint" && f[2] == "=" {
			return &CtrlStmt{Kind: "select_setting", Table: p.stripDB(tbl), arg: f[3]}
		}
	case strings.HasPrefix(text, "count ( 1 ) from "):
		tbl, rest, ok := fromTable(" from ")
		if ok && rest == "" {
			return &CtrlStmt{Kind: "select_count", Table: p.stripDB(tbl)}
		}
	}
	return unknown
}

func (p *ctrlParser) stripDB(n string) string {
	n = strings.ReplaceAll(n, " ", "")
	n = strings.ReplaceAll(n, "`", "")
	if p.db != "" && strings.HasPrefix(n, strings.ToLower(p.db)+".") {
		return n[len(p.db)+1:]
	}
	return n
}

var ctrlTableClauses = [][]string{
	{"ENGINE"}, {"PARTITION", "BY"}, {"ORDER", "BY"}, {"PRIMARY", "KEY"}, {"SAMPLE", "BY"},
	{"TTL"}, {"SETTINGS"}, {"COMMENT"},
}

var ctrlViewClauses = [][]string{
	{"TO"}, {"ENGINE"}, {"PARTITION", "BY"}, {"ORDER", "BY"}, {"PRIMARY", "KEY"}, {"SETTINGS"},
	{"POPULATE"}, {"AS"},
}

// ctrlClauses cuts a depth-0 token list into clauses starting at the given keywords.
func ctrlClauses(toks []ctrlTok, heads [][]string) (pre []ctrlTok, out map[string][]ctrlTok, order []string) {
	out = map[string][]ctrlTok{}
	depth := 0
	cur := ""
	start := 0
	flush := func(end int) {
		if cur == "" {
			pre = toks[start:end]
		} else {
			out[cur] = toks[start:end]
		}
	}
	for i := 0; i < len(toks); i++ {
		t := toks[i]
		if t.kind == ctrlTPunct {
			switch t.text {
			case "(", "[":
				depth++
			case ")", "]":
				depth--
			}
			continue
		}
		if depth != 0 || t.kind != ctrlTIdent {
			continue
		}
		if cur == "AS" {
			continue // everything after AS is the SELECT
		}
		for _, h := range heads {
			ok := i+len(h) <= len(toks)
			for k := 0; ok && k < len(h); k++ {
				ok = toks[i+k].isKw(h[k])
			}
			if ok {
				name := strings.Join(h, " ")
				if _, dup := out[name]; dup {
					break
				}
				flush(i)
				cur = name
				order = append(order, name)
				start = i + len(h)
				i += len(h) - 1
				break
			}
		}
	}
	flush(len(toks))
	return
}

func (p *ctrlParser) parseCreate(unknown *CtrlStmt) *CtrlStmt {
	p.kw("OR", "REPLACE")
	kind := ""
	switch {
	case p.kw("TABLE"):
		kind = "table"
	case p.kw("MATERIALIZED", "VIEW"):
		kind = "mv"
	case p.kw("VIEW"):
		kind = "view"
	case p.kw("DATABASE"):
		st := &CtrlStmt{Kind: "create_database"}
		st.Guard = p.kw("IF", "NOT", "EXISTS")
		if t := p.peek(); t.isName() {
			st.Table = t.text
		}
		return st
	default:
		return unknown
	}
	st := &CtrlStmt{Kind: "create_" + kind}
	st.Guard = p.kw("IF", "NOT", "EXISTS")
	var ok bool
	if st.Table, ok = p.name(); !ok {
		return unknown
	}
	st.OnCluster = p.onCluster()
	obj := &CtrlObject{Name: st.Table, Kind: kind, Settings: map[string]string{}}
	if kind == "table" {
		if !p.peek().isPunct("(") {
			return unknown // CREATE TABLE … AS other: not issued by ctrl
		}
		end := ctrlMatchParen(p.toks, p.pos)
		if end < 0 {
			return unknown
		}
		for _, c := range ctrlSplitTop(p.toks[p.pos+1:end], ",") {
			if len(c) == 0 {
				continue
			}
			if c[0].isKw("INDEX") && len(c) >= 2 {
				obj.Indexes = append(obj.Indexes, CtrlColumn{Name: c[1].text, Def: ctrlRender(c[2:])})
				continue
			}
			if c[0].isKw("CONSTRAINT") || c[0].isKw("PROJECTION") {
				obj.Other = append(obj.Other, ctrlRender(c))
				continue
			}
			if !c[0].isName() {
				return unknown
			}
			obj.Columns = append(obj.Columns, CtrlColumn{Name: c[0].text, Def: ctrlRender(c[1:])})
		}
		p.pos = end + 1
	}
	heads := ctrlTableClauses
	if kind != "table" {
		heads = ctrlViewClauses
	}
	pre, cl, _ := ctrlClauses(p.rest(), heads)
	if len(pre) != 0 && kind == "table" {
		return unknown
	}
	if e, ok := cl["ENGINE"]; ok {
		if len(e) > 0 && e[0].isPunct("=") {
			e = e[1:]
		}
		if len(e) == 0 || !e[0].isName() {
			return unknown
		}
		obj.Engine = e[0].text
		if len(e) > 1 {
			args, _ := ctrlStripParens(e[1:])
			obj.EngineArgs = ctrlRender(args)
			for _, a := range ctrlSplitTop(args, ",") {
				obj.engineArgToks = append(obj.engineArgToks, a)
			}
		}
	}
	obj.PartitionBy = ctrlRender(cl["PARTITION BY"])
	obj.OrderBy = ctrlRender(cl["ORDER BY"])
	obj.PrimaryKey = ctrlRender(cl["PRIMARY KEY"])
	obj.TTL = ctrlRender(cl["TTL"])
	if s, ok := cl["SETTINGS"]; ok {
		m, good := ctrlParseSettings(s)
		if !good {
			return unknown
		}
		obj.Settings = m
	}
	if kind != "table" {
		if to, ok := cl["TO"]; ok {
			q := &ctrlParser{toks: to, db: p.db}
			if n, ok := q.name(); ok {
				obj.To = n
			}
		}
		as, ok := cl["AS"]
		if !ok {
			return unknown
		}
		obj.Select = ctrlRender(as)
	}
	st.obj = obj
	return st
}

func ctrlParseSettings(toks []ctrlTok) (map[string]string, bool) {
	m := map[string]string{}
	for _, kv := range ctrlSplitTop(toks, ",") {
		if len(kv) < 3 || !kv[0].isName() || !kv[1].isPunct("=") {
			return nil, false
		}
		if len(kv) == 3 && kv[2].kind == ctrlTString {
			m[kv[0].text] = kv[2].text
		} else {
			m[kv[0].text] = ctrlRender(kv[2:])
		}
	}
	return m, true
}

var ctrlAlterHeads = map[string]bool{
	"ADD": true, "DROP": true, "MODIFY": true, "RENAME": true, "CLEAR": true, "COMMENT": true,
	"MATERIALIZE": true, "UPDATE": true, "DELETE": true, "ALTER": true, "RESET": true,
	"REMOVE": true, "ATTACH": true, "DETACH": true, "FREEZE": true, "UNFREEZE": true,
	"MOVE": true, "REPLACE": true, "FETCH": true, "APPLY": true,
}

func ctrlParseAlterCmds(toks []ctrlTok) []CtrlAlterCmd {
	// commands are separated by depth-0 commas, but MODIFY SETTING / MODIFY TTL own their
	// commas: a piece that does not start with a command keyword continues the previous one.
	var pieces [][]ctrlTok
	for _, pc := range ctrlSplitTop(toks, ",") {
		inner, par := ctrlStripParens(pc)
		head := len(inner) > 0 && inner[0].kind == ctrlTIdent && ctrlAlterHeads[strings.ToUpper(inner[0].text)]
		if (par && head) || head || len(pieces) == 0 {
			if par && head {
				pc = inner
			}
			pieces = append(pieces, pc)
			continue
		}
		last := pieces[len(pieces)-1]
		joined := append(append([]ctrlTok{}, last...), ctrlTok{ctrlTPunct, ","})
		pieces[len(pieces)-1] = append(joined, pc...)
	}
	var out []CtrlAlterCmd
	for _, pc := range pieces {
		out = append(out, ctrlParseAlterCmd(pc))
	}
	return out
}

func ctrlParseAlterCmd(toks []ctrlTok) CtrlAlterCmd {
	p := &ctrlParser{toks: toks}
	text := ctrlRender(toks)
	unk := CtrlAlterCmd{Op: "unknown", Text: text}
	nameOf := func() (string, bool) {
		if p.peek().isName() {
			n := p.peek().text
			p.pos++
			return n, true
		}
		return "", false
	}
	switch {
	case p.kw("ADD", "COLUMN"):
		c := CtrlAlterCmd{Op: "add_column", Text: text}
		c.Guard = p.kw("IF", "NOT", "EXISTS")
		var ok bool
		if c.Name, ok = nameOf(); !ok {
			return unk
		}
		rest := p.rest()
		// placement does not matter to the model
		if n := len(rest); n >= 1 && rest[n-1].isKw("FIRST") {
			rest = rest[:n-1]
		} else if n >= 2 && rest[n-2].isKw("AFTER") {
			rest = rest[:n-2]
		}
		c.Def = ctrlRender(rest)
		return c
	case p.kw("DROP", "COLUMN"):
		c := CtrlAlterCmd{Op: "drop_column", Text: text}
		c.Guard = p.kw("IF", "EXISTS")
		var ok bool
		if c.Name, ok = nameOf(); !ok || !p.eof() {
			return unk
		}
		return c
	case p.kw("MODIFY", "COLUMN"), p.kw("ALTER", "COLUMN"):
		c := CtrlAlterCmd{Op: "modify_column", Text: text}
		c.Guard = p.kw("IF", "EXISTS")
		var ok bool
		if c.Name, ok = nameOf(); !ok {
			return unk
		}
		p.kw("TYPE")
		c.Def = ctrlRender(p.rest())
		return c
	case p.kw("RENAME", "COLUMN"):
		c := CtrlAlterCmd{Op: "rename_column", Text: text}
		c.Guard = p.kw("IF", "EXISTS")
		var ok bool
		if c.Name, ok = nameOf(); !ok || !p.kw("TO") {
			return unk
		}
		if c.To, ok = nameOf(); !ok || !p.eof() {
			return unk
		}
		return c
	case p.kw("ADD", "INDEX"):
		c := CtrlAlterCmd{Op: "add_index", Text: text}
		c.Guard = p.kw("IF", "NOT", "EXISTS")
		var ok bool
		if c.Name, ok = nameOf(); !ok {
			return unk
		}
		c.Def = ctrlRender(p.rest())
		return c
	case p.kw("DROP", "INDEX"):
		c := CtrlAlterCmd{Op: "drop_index", Text: text}
		c.Guard = p.kw("IF", "EXISTS")
		var ok bool
		if c.Name, ok = nameOf(); !ok || !p.eof() {
			return unk
		}
		return c
	case p.kw("MODIFY", "ORDER", "BY"):
		return CtrlAlterCmd{Op: "modify_order_by", Text: text, Def: ctrlRender(p.rest())}
	case p.kw("MODIFY", "TTL"):
		return CtrlAlterCmd{Op: "modify_ttl", Text: text, Def: ctrlRender(p.rest())}
	case p.kw("REMOVE", "TTL"):
		if !p.eof() {
			return unk
		}
		return CtrlAlterCmd{Op: "remove_ttl", Text: text}
	case p.kw("MODIFY", "SETTING"):
		m, ok := ctrlParseSettings(p.rest())
		if !ok {
			return unk
		}
		return CtrlAlterCmd{Op: "modify_setting", Text: text, Settings: m}
	case p.kw("RESET", "SETTING"):
		c := CtrlAlterCmd{Op: "reset_setting", Text: text, Settings: map[string]string{}}
		for _, n := range ctrlSplitTop(p.rest(), ",") {
			if len(n) != 1 || !n[0].isName() {
				return unk
			}
			c.Settings[n[0].text] = ""
		}
		return c
	}
	return unk
}

// ---- catalogue ------------------------------------------------------------------------------

// CtrlColumn is a column or a skipping index: name and canonical definition text.
type CtrlColumn struct {
	Name string `json:"name"`
	Def  string `json:"def"`
}

// CtrlObject is one table, view or materialized view of the modelled database.
type CtrlObject struct {
	Name        string            `json:"name"`
	Kind        string            `json:"kind"` // table | view | mv
	Engine      string            `json:"engine,omitempty"`
	EngineArgs  string            `json:"engine_args,omitempty"`
	Columns     []CtrlColumn      `json:"columns,omitempty"`
	Indexes     []CtrlColumn      `json:"indexes,omitempty"`
	Other       []string          `json:"other,omitempty"`
	PartitionBy string            `json:"partition_by,omitempty"`
	OrderBy     string            `json:"order_by,omitempty"`
	PrimaryKey  string            `json:"primary_key,omitempty"`
	TTL         string            `json:"ttl,omitempty"`
	Settings    map[string]string `json:"settings,omitempty"`
	To          string            `json:"to,omitempty"`
	Select      string            `json:"select,omitempty"`

	engineArgToks [][]ctrlTok
}

func (o *CtrlObject) clone() *CtrlObject {
	c := *o
	c.Columns = append([]CtrlColumn(nil), o.Columns...)
	c.Indexes = append([]CtrlColumn(nil), o.Indexes...)
	c.Other = append([]string(nil), o.Other...)
	c.Settings = map[string]string{}
	for k, v := range o.Settings {
		c.Settings[k] = v
	}
	return &c
}

func (o *CtrlObject) col(name string) int {
	for i, c := range o.Columns {
		if c.Name == name {
			return i
		}
	}
	return -1
}

func (o *CtrlObject) idx(name string) int {
	for i, c := range o.Indexes {
		if c.Name == name {
			return i
		}
	}
	return -1
}

// CtrlVerRow is one row of the ver table.
type CtrlVerRow struct {
	K   int64  `json:"k"`
	Ver uint64 `json:"ver"`
}

// CtrlSettingRow is one row of the settings table. Fingerprint is the canonical text of
// the inserted expression (a number for rows written by putSetting, cityHash64('…') for
// rows written by the migration scripts).
type CtrlSettingRow struct {
	Fingerprint string `json:"fingerprint"`
	Type        string `json:"type"`
	Name        string `json:"name"`
	Value       string `json:"value"`
	Seq         int    `json:"seq"`
}

// CtrlCatalog is the modelled state of one ClickHouse database.
type CtrlCatalog struct {
	DB       string
	Objects  map[string]*CtrlObject
	Ver      []CtrlVerRow
	Settings []CtrlSettingRow
	RowCount map[string]int // rows inserted into other tables
	seq      int
}

// NewCtrlCatalog returns an empty database.
func NewCtrlCatalog(db string) *CtrlCatalog {
	return &CtrlCatalog{DB: db, Objects: map[string]*CtrlObject{}, RowCount: map[string]int{}}
}

// Clone deep-copies the catalogue.
func (c *CtrlCatalog) Clone() *CtrlCatalog {
	n := &CtrlCatalog{DB: c.DB, Objects: map[string]*CtrlObject{}, RowCount: map[string]int{}, seq: c.seq}
	for k, o := range c.Objects {
		n.Objects[k] = o.clone()
	}
	n.Ver = append([]CtrlVerRow(nil), c.Ver...)
	n.Settings = append([]CtrlSettingRow(nil), c.Settings...)
	for k, v := range c.RowCount {
		n.RowCount[k] = v
	}
	return n
}

// Schema renders every object canonically (sorted by name): two catalogues hold the same
// schema iff the strings are equal.
func (c *CtrlCatalog) Schema() string {
	names := make([]string, 0, len(c.Objects))
	for n := range c.Objects {
		names = append(names, n)
	}
	sort.Strings(names)
	var b strings.Builder
	for _, n := range names {
		j, _ := json.Marshal(c.Objects[n]) // maps are marshalled with sorted keys
		b.Write(j)
		b.WriteByte('\n')
	}
	return b.String()
}

// SchemaDiff names the objects that differ between two catalogues (for error messages).
func (c *CtrlCatalog) SchemaDiff(o *CtrlCatalog) []string {
	var out []string
	seen := map[string]bool{}
	for n, a := range c.Objects {
		seen[n] = true
		b, ok := o.Objects[n]
		if !ok {
			out = append(out, "only in first: "+n)
			continue
		}
		ja, _ := json.Marshal(a)
		jb, _ := json.Marshal(b)
		if string(ja) != string(jb) {
			out = append(out, fmt.Sprintf("differs: %s\n    first:  %s\n    second: %s", n, ja, jb))
		}
	}
	for n := range o.Objects {
		if !seen[n] {
			out = append(out, "only in second: "+n)
		}
	}
	sort.Strings(out)
	return out
}

// MaxVer is what `SELECT max(ver) FROM ver WHERE k = …` returns.
func (c *CtrlCatalog) MaxVer(k int64) uint64 {
	var m uint64
	for _, r := range c.Ver {
		if r.K == k && r.Ver > m {
			m = r.Ver
		}
	}
	return m
}

// LatestSettings returns the newest row per fingerprint (what ReplacingMergeTree keeps).
func (c *CtrlCatalog) LatestSettings() map[string]CtrlSettingRow {
	m := map[string]CtrlSettingRow{}
	for _, r := range c.Settings {
		if cur, ok := m[r.Fingerprint]; !ok || r.Seq >= cur.Seq {
			m[r.Fingerprint] = r
		}
	}
	return m
}

// Table returns a modelled object or nil.
func (c *CtrlCatalog) Table(name string) *CtrlObject { return c.Objects[name] }

type ctrlModelErr struct {
	code int
	msg  string
}

func (e *ctrlModelErr) Error() string { return fmt.Sprintf("code: %d, message: %s", e.code, e.msg) }

func ctrlErr(code int, f string, a ...any) error {
	return &ctrlModelErr{code, fmt.Sprintf(f, a...)}
}

// resolve follows Distributed engines to the table that stores the rows.
func (c *CtrlCatalog) resolve(name string) (*CtrlObject, error) {
	for depth := 0; depth < 4; depth++ {
		o := c.Objects[name]
		if o == nil {
			return nil, ctrlErr(60, "Table %s.%s doesn't exist", c.DB, name)
		}
		if o.Engine != "Distributed" || len(o.engineArgToks) < 3 {
			return o, nil
		}
		// Distributed(cluster, database, table[, sharding_key])
		dbt, tt := o.engineArgToks[1], o.engineArgToks[2]
		if len(tt) != 1 || (tt[0].kind != ctrlTString && !tt[0].isName()) {
			return o, nil
		}
		if len(dbt) == 1 && dbt[0].text != c.DB {
			return o, nil // another database: not modelled
		}
		name = tt[0].text
	}
	return nil, ctrlErr(306, "Distributed table %s loops", name)
}

func ctrlOrderList(s string) []string {
	toks := ctrlLex(s)
	if len(toks) == 0 {
		return nil
	}
	inner, par := ctrlStripParens(toks)
	if par && len(inner) > 0 {
		var out []string
		for _, e := range ctrlSplitTop(inner, ",") {
			out = append(out, ctrlRender(e))
		}
		return out
	}
	return []string{ctrlRender(toks)}
}

// apply executes a recognised statement with ClickHouse's documented failure rules:
//   - CREATE of an existing object without IF NOT EXISTS fails (TABLE_ALREADY_EXISTS);
//   - DROP / ALTER / INSERT / SELECT on a missing table fails (UNKNOWN_TABLE), DROP IF EXISTS does not;
//   - RENAME of a missing table fails unless IF EXISTS, RENAME onto an existing name fails;
//   - ADD COLUMN / ADD INDEX of an existing name fails unless IF NOT EXISTS; DROP COLUMN / INDEX
//     of a missing one fails unless IF EXISTS;
//   - MODIFY ORDER BY may only append columns added by the same ALTER (docs, "MODIFY ORDER BY").
//
// An ALTER / RENAME is atomic: all commands are checked on a copy first.
// changed reports whether the catalogue (schema or rows) actually changed.
func (c *CtrlCatalog) apply(st *CtrlStmt) (changed bool, err error) {
	switch st.Kind {
	case "create_table", "create_view", "create_mv":
		if _, ok := c.Objects[st.Table]; ok {
			if st.Guard {
				return false, nil
			}
			return false, ctrlErr(57, "Table %s.%s already exists", c.DB, st.Table)
		}
		c.Objects[st.Table] = st.obj.clone()
		return true, nil
	case "create_database":
		return false, nil
	case "drop":
		if _, ok := c.Objects[st.Table]; !ok {
			if st.Guard {
				return false, nil
			}
			return false, ctrlErr(60, "Table %s.%s doesn't exist", c.DB, st.Table)
		}
		delete(c.Objects, st.Table)
		delete(c.RowCount, st.Table)
		if st.Table == "ver" {
			c.Ver = nil
		}
		if st.Table == "settings" {
			c.Settings = nil
		}
		return true, nil
	case "rename":
		// checked and applied element by element on a copy of the name map
		names := map[string]*CtrlObject{}
		for k, v := range c.Objects {
			names[k] = v
		}
		for _, r := range st.Renames {
			o, ok := names[r.From]
			if !ok {
				if r.Guard {
					continue
				}
				return false, ctrlErr(60, "Table %s.%s doesn't exist", c.DB, r.From)
			}
			if _, ok := names[r.To]; ok {
				return false, ctrlErr(57, "Table %s.%s already exists", c.DB, r.To)
			}
			delete(names, r.From)
			n := o.clone()
			n.Name = r.To
			names[r.To] = n
			changed = true
			if cnt, ok := c.RowCount[r.From]; ok {
				c.RowCount[r.To] = cnt
				delete(c.RowCount, r.From)
			}
		}
		c.Objects = names
		return changed, nil
	case "alter":
		o, ok := c.Objects[st.Table]
		if !ok {
			return false, ctrlErr(60, "Table %s.%s doesn't exist", c.DB, st.Table)
		}
		n := o.clone()
		added := map[string]bool{}
		for _, cmd := range st.Cmds {
			switch cmd.Op {
			case "add_column":
				if n.col(cmd.Name) >= 0 {
					if cmd.Guard {
						continue
					}
					return false, ctrlErr(15, "Cannot add column %s: column with this name already exists", cmd.Name)
				}
				n.Columns = append(n.Columns, CtrlColumn{cmd.Name, cmd.Def})
				added[cmd.Name] = true
				changed = true
			case "drop_column":
				i := n.col(cmd.Name)
				if i < 0 {
					if cmd.Guard {
						continue
					}
					return false, ctrlErr(10, "Wrong column name. Cannot find column %s to drop", cmd.Name)
				}
				n.Columns = append(n.Columns[:i:i], n.Columns[i+1:]...)
				changed = true
			case "modify_column":
				i := n.col(cmd.Name)
				if i < 0 {
					if cmd.Guard {
						continue
					}
					return false, ctrlErr(10, "Wrong column name. Cannot find column %s to modify", cmd.Name)
				}
				if n.Columns[i].Def != cmd.Def {
					n.Columns[i].Def = cmd.Def
					changed = true
				}
			case "rename_column":
				i := n.col(cmd.Name)
				if i < 0 {
					if cmd.Guard {
						continue
					}
					return false, ctrlErr(10, "Wrong column name. Cannot find column %s to rename", cmd.Name)
				}
				if n.col(cmd.To) >= 0 {
					return false, ctrlErr(15, "Cannot rename to %s: column with this name already exists", cmd.To)
				}
				n.Columns[i].Name = cmd.To
				changed = true
			case "add_index":
				if n.idx(cmd.Name) >= 0 {
					if cmd.Guard {
						continue
					}
					return false, ctrlErr(44, "Cannot add index %s: index with this name already exists", cmd.Name)
				}
				n.Indexes = append(n.Indexes, CtrlColumn{cmd.Name, cmd.Def})
				changed = true
			case "drop_index":
				i := n.idx(cmd.Name)
				if i < 0 {
					if cmd.Guard {
						continue
					}
					return false, ctrlErr(36, "Cannot find index %s to drop", cmd.Name)
				}
				n.Indexes = append(n.Indexes[:i:i], n.Indexes[i+1:]...)
				changed = true
			case "modify_order_by":
				oldL, newL := ctrlOrderList(n.OrderBy), ctrlOrderList(cmd.Def)
				if len(oldL) > 0 && len(newL) > 0 {
					if len(newL) < len(oldL) {
						return false, ctrlErr(36, "Existing sorting key columns can't be removed")
					}
					for i := range oldL {
						if oldL[i] != newL[i] {
							return false, ctrlErr(36, "Sorting key can only be extended: %s is not a prefix of %s", n.OrderBy, cmd.Def)
						}
					}
					for _, e := range newL[len(oldL):] {
						if !added[strings.Trim(e, "`")] {
							return false, ctrlErr(36, "Existing column %s is used in the expression that was added to the sorting key. You can add expressions that use only the newly added columns", e)
						}
					}
				}
				if n.OrderBy != cmd.Def {
					n.OrderBy = cmd.Def
					changed = true
				}
			case "modify_ttl":
				if n.TTL != cmd.Def {
					n.TTL = cmd.Def
					changed = true
				}
			case "remove_ttl":
				if n.TTL != "" {
					n.TTL = ""
					changed = true
				}
			case "modify_setting":
				for k, v := range cmd.Settings {
					if n.Settings[k] != v {
						n.Settings[k] = v
						changed = true
					}
				}
			case "reset_setting":
				for k := range cmd.Settings {
					if _, ok := n.Settings[k]; ok {
						delete(n.Settings, k)
						changed = true
					}
				}
			}
		}
		c.Objects[st.Table] = n
		return changed, nil
	case "insert":
		o, err := c.resolve(st.Table)
		if err != nil {
			return false, err
		}
		cols := st.cols
		if len(cols) == 0 {
			for _, cc := range o.Columns {
				cols = append(cols, cc.Name)
			}
		}
		for _, row := range st.rowVals {
			if len(row) != len(cols) {
				return false, ctrlErr(62, "Cannot parse expression: %d values for %d columns", len(row), len(cols))
			}
			val := map[string][]ctrlTok{}
			for i, cn := range cols {
				val[cn] = row[i]
			}
			str := func(cn string) string {
				v := val[cn]
				if len(v) == 1 && v[0].kind == ctrlTString {
					return v[0].text
				}
				return ctrlRender(v)
			}
			switch o.Name {
			case "ver":
				k, e1 := strconv.ParseInt(str("k"), 10, 64)
				v, e2 := strconv.ParseUint(str("ver"), 10, 64)
				if e1 != nil || e2 != nil {
					return false, ctrlErr(62, "Cannot parse ver row (%s, %s)", str("k"), str("ver"))
				}
				c.Ver = append(c.Ver, CtrlVerRow{k, v})
			case "settings":
				c.seq++
				c.Settings = append(c.Settings, CtrlSettingRow{
					Fingerprint: str("fingerprint"), Type: str("type"), Name: str("name"), Value: str("value"), Seq: c.seq,
				})
			default:
				c.RowCount[o.Name]++
			}
			changed = true
		}
		return changed, nil
	}
	return false, nil
}

// ---- TTL expressions (used by the C19 oracle) -------------------------------------------------

// CtrlTTLItem is one element of a table TTL: rows older than Base + Seconds are deleted or
// moved to a disk / volume.
type CtrlTTLItem struct {
	Base    string `json:"base"` // canonical expression without spaces
	Seconds int64  `json:"seconds"`
	Action  string `json:"action"` // delete | disk | volume
	Target  string `json:"target,omitempty"`
}

// CtrlParseTTL reads a TTL expression list of the shape
// `expr + toIntervalSecond(n)|toIntervalDay(n)|INTERVAL n unit [DELETE | TO DISK 'd' | TO VOLUME 'v'], …`.
func CtrlParseTTL(text string) ([]CtrlTTLItem, error) {
	toks := ctrlLex(text)
	if len(toks) == 0 {
		return nil, nil
	}
	var out []CtrlTTLItem
	for _, el := range ctrlSplitTop(toks, ",") {
		it := CtrlTTLItem{Action: "delete"}
		// trailing action
		n := len(el)
		switch {
		case n >= 3 && el[n-3].isKw("TO") && (el[n-2].isKw("DISK") || el[n-2].isKw("VOLUME")) && el[n-1].kind == ctrlTString:
			it.Action = strings.ToLower(el[n-2].text)
			it.Target = el[n-1].text
			el = el[:n-3]
		case n >= 1 && el[n-1].isKw("DELETE"):
			el = el[:n-1]
		}
		// split at the last depth-0 '+'
		parts := ctrlSplitTop(el, "+")
		if len(parts) < 2 {
			return nil, fmt.Errorf("TTL element %q has no '+ interval'", ctrlRender(el))
		}
		iv := parts[len(parts)-1]
		baseToks := el[:len(el)-len(iv)-1]
		it.Base = strings.ReplaceAll(ctrlRender(baseToks), " ", "")
		var unit string
		var num string
		switch {
		case len(iv) == 4 && iv[0].kind == ctrlTIdent && strings.HasPrefix(strings.ToLower(iv[0].text), "tointerval") && iv[1].isPunct("(") && iv[3].isPunct(")"):
			unit = strings.ToLower(iv[0].text[len("tointerval"):])
			num = iv[2].text
		case len(iv) == 5 && iv[0].kind == ctrlTIdent && strings.HasPrefix(strings.ToLower(iv[0].text), "tointerval") && iv[1].isPunct("(") && iv[2].isPunct("-") && iv[4].isPunct(")"):
			unit = strings.ToLower(iv[0].text[len("tointerval"):])
			num = "-" + iv[3].text
		case len(iv) == 3 && iv[0].isKw("INTERVAL"):
			unit = strings.ToLower(iv[2].text)
			num = iv[1].text
		default:
			return nil, fmt.Errorf("TTL interval %q not understood", ctrlRender(iv))
		}
		v, err := strconv.ParseInt(num, 10, 64)
		if err != nil {
			return nil, fmt.Errorf("TTL interval %q: %v", ctrlRender(iv), err)
		}
		mult := map[string]int64{"second": 1, "minute": 60, "hour": 3600, "day": 86400, "week": 7 * 86400}[unit]
		if mult == 0 {
			return nil, fmt.Errorf("TTL interval unit %q not understood", unit)
		}
		it.Seconds = v * mult
		out = append(out, it)
	}
	return out, nil
}

// Package fakech holds the fakes standing in for ClickHouse. This file is the writer-side
// fake: Server is "the database", Server.Factory() is a ch_wrapper.IChClientFactory and the
// clients it hands out implement ch_wrapper.IChClient.
//
// Do receives the real ch.Query built by qryn's insert services. It
//
//	(a) checks that the proto.Input is rectangular with the rule and the error text of
//	    ch-go's Block.EncodeRawBlock / WriteBlock (rows of Input[0] is the block's row
//	    count, every column must have the same), and additionally that nested columns are
//	    well formed (array data length == last offset, tuple elements of equal length:
//	    what the wire format needs to be decodable by the server);
//	(b) decodes every column into plain Go values *before* anything can block, i.e. at the
//	    moment the real client would have serialised the block;
//	(c) asks the fault script for the outcome: ok, error, or block on a gate until the test
//	    releases the call with an outcome of its choice (a cancelled context also ends the
//	    wait, with ctx.Err(), as the real client would);
//	(d) appends the call to a log; every event (connect, refused connect, Do start, Do end,
//	    close, ping) gets a logical sequence number from one counter.
//
// The factory consults the script as well (RefuseConnect(n)).
package fakech

import (
	"context"
	"errors"
	"fmt"
	"reflect"
	"regexp"
	"strings"
	"sync"
	"sync/atomic"
	"time"

	"github.com/ClickHouse/ch-go"
	"github.com/ClickHouse/ch-go/proto"
	"github.com/ClickHouse/clickhouse-go/v2/lib/driver"
	"github.com/metrico/qryn/writer/ch_wrapper"
)

// StepKind is the kind of outcome the script chooses for one Do call.
type StepKind string

const (
	OK    StepKind = "ok"
	Error StepKind = "error"
	Gate  StepKind = "gate"
)

// Step is one scripted outcome (plain data: may live inside a generated case).
type Step struct {
	Kind StepKind `json:"kind"`
	Err  string   `json:"err,omitempty"` // error text of an Error step
	// Class selects a realistic error value for an Error step (see ErrClasses); it wins over Err.
	Class string `json:"class,omitempty"`
}

// Tuple is a decoded Tuple(...) value, Array values are decoded to []any.
type Tuple []any

// Date is a decoded Date value: days since 1970-01-01, exactly what goes on the wire.
type Date uint16

func (d Date) String() string { return proto.Date(d).String() }

// Column is one decoded input column.
type Column struct {
	Name   string
	Type   string // Go type of the ch-go column
	Rows   int    // what Data.Rows() said
	Values []any  // decoded values (len may differ from Rows only when Malformed != "")
	// Malformed is non-empty when the column is internally inconsistent.
	Malformed string
	// Opaque is true when the fake does not know how to decode the column type.
	Opaque bool
}

// Call is one recorded Do.
type Call struct {
	Seq      int64 // sequence number at entry
	EndSeq   int64 // sequence number at return (0 while in flight)
	ClientID int
	Body     string
	Table    string // word after INSERT INTO
	ColNames []string
	Columns  []Column
	NRows    int // rows of the first column (the block's row count in ch-go)
	// RectErr is the error ch-go's block encoder would have returned ("" if rectangular).
	RectErr string
	// ShapeErr reports malformed nested columns ("" if fine).
	ShapeErr string
	Gated    bool
	Done     bool
	Err      error // what Do returned (valid once Done)

	release chan error
}

// OKResult tells whether the call has completed successfully.
func (c *Call) OKResult() bool { return c.Done && c.Err == nil }

// Col returns the decoded column called name (nil if absent).
func (c *Call) Col(name string) *Column {
	for i := range c.Columns {
		if c.Columns[i].Name == name {
			return &c.Columns[i]
		}
	}
	return nil
}

// Row returns row i as column name -> value; columns shorter than i are left out.
func (c *Call) Row(i int) map[string]any {
	m := make(map[string]any, len(c.Columns))
	for _, col := range c.Columns {
		if i < len(col.Values) {
			m[col.Name] = col.Values[i]
		}
	}
	return m
}

// MinRows is the smallest decoded column length (rows that are whole in every column).
func (c *Call) MinRows() int {
	if len(c.Columns) == 0 {
		return 0
	}
	m := len(c.Columns[0].Values)
	for _, col := range c.Columns {
		if len(col.Values) < m {
			m = len(col.Values)
		}
	}
	return m
}

// Event is one entry of the event log.
type Event struct {
	Seq      int64
	Kind     string // connect | connect-refused | do-start | do-end | close | ping
	ClientID int
	Call     *Call // for do-start / do-end
	Err      string
}

// Server is the fake database shared by all clients its factory creates.
type Server struct {
	mu      sync.Mutex
	seq     int64
	clients int
	calls   []*Call
	events  []Event
	changed chan struct{}

	queue       []Step
	perTable    map[string][]Step
	def         Step
	decider     func(c *Call) *Step
	refuse      int
	refuseClass string
	pingErr     error

	connects int
	refused  int
	ends     atomic.Int64
}

// Ends counts the Do calls that have returned (lock-free: for observers that want to act
// right after an INSERT ended, before the insert service has resolved its promises).
func (s *Server) Ends() int64 { return s.ends.Load() }

// NewServer returns a database that accepts everything.
func NewServer() *Server {
	return &Server{def: Step{Kind: OK}, perTable: map[string][]Step{}, changed: make(chan struct{})}
}

func (s *Server) bump() { // s.mu held
	close(s.changed)
	s.changed = make(chan struct{})
}

func (s *Server) event(kind string, client int, c *Call, err string) int64 { // s.mu held
	s.seq++
	s.events = append(s.events, Event{Seq: s.seq, Kind: kind, ClientID: client, Call: c, Err: err})
	return s.seq
}

// Tick advances the logical clock and returns the new value: observers (promise watchers,
// handlers returning) use it to place their observation in the same order as the Do calls.
func (s *Server) Tick() int64 {
	s.mu.Lock()
	defer s.mu.Unlock()
	s.seq++
	return s.seq
}

// SetDefault sets the outcome used when nothing else is scripted.
func (s *Server) SetDefault(st Step) { s.mu.Lock(); s.def = st; s.mu.Unlock() }

// Push queues outcomes for the next Do calls, whatever their table.
func (s *Server) Push(steps ...Step) { s.mu.Lock(); s.queue = append(s.queue, steps...); s.mu.Unlock() }

// PushFor queues outcomes for the next Do calls on one table (consulted before Push's queue).
func (s *Server) PushFor(table string, steps ...Step) {
	s.mu.Lock()
	s.perTable[table] = append(s.perTable[table], steps...)
	s.mu.Unlock()
}

// ClearScript drops everything queued by Push / PushFor.
func (s *Server) ClearScript() {
	s.mu.Lock()
	s.queue = nil
	s.perTable = map[string][]Step{}
	s.mu.Unlock()
}

// SetDecider installs a function consulted first for every Do (nil result = fall through
// to the queues). It is called with the server lock held: it must not call the server.
func (s *Server) SetDecider(f func(c *Call) *Step) { s.mu.Lock(); s.decider = f; s.mu.Unlock() }

// RefuseConnect makes the next n factory calls fail.
func (s *Server) RefuseConnect(n int) { s.mu.Lock(); s.refuse = n; s.mu.Unlock() }

// RefuseConnectWith is RefuseConnect with the error class the factory returns.
func (s *Server) RefuseConnectWith(n int, class string) {
	s.mu.Lock()
	s.refuse, s.refuseClass = n, class
	s.mu.Unlock()
}

// SetPingErr makes Ping fail (nil = succeed).
func (s *Server) SetPingErr(err error) { s.mu.Lock(); s.pingErr = err; s.mu.Unlock() }

// Factory is the ch_wrapper.IChClientFactory of this database.
func (s *Server) Factory() ch_wrapper.IChClientFactory {
	return func() (ch_wrapper.IChClient, error) { return s.Connect() }
}

// Connect is one factory call.
func (s *Server) Connect() (ch_wrapper.IChClient, error) {
	s.mu.Lock()
	defer s.mu.Unlock()
	defer s.bump()
	if s.refuse > 0 {
		s.refuse--
		s.refused++
		s.event("connect-refused", 0, nil, "connection refused")
		if s.refuseClass != "" {
			return nil, ErrorOf(s.refuseClass, s.seq)
		}
		return nil, errors.New("fakech: connection refused")
	}
	s.clients++
	s.connects++
	c := &Client{srv: s, id: s.clients}
	s.event("connect", c.id, nil, "")
	return c, nil
}

// Calls returns a snapshot of the call log (pointers to live records: read fields of calls
// that are not Done only through the server's accessors).
func (s *Server) Calls() []*Call {
	s.mu.Lock()
	defer s.mu.Unlock()
	return append([]*Call(nil), s.calls...)
}

// Events returns a snapshot of the event log.
func (s *Server) Events() []Event {
	s.mu.Lock()
	defer s.mu.Unlock()
	return append([]Event(nil), s.events...)
}

// Stats: successful connects, refused connects, Do calls so far.
func (s *Server) Stats() (connects, refused, calls int) {
	s.mu.Lock()
	defer s.mu.Unlock()
	return s.connects, s.refused, len(s.calls)
}

// PendingRefusals is the number of connection refusals still queued.
func (s *Server) PendingRefusals() int { s.mu.Lock(); defer s.mu.Unlock(); return s.refuse }

// Gated returns the calls currently blocked on a gate, oldest first.
func (s *Server) Gated() []*Call {
	s.mu.Lock()
	defer s.mu.Unlock()
	return s.gatedLocked()
}

func (s *Server) gatedLocked() []*Call {
	var out []*Call
	for _, c := range s.calls {
		if c.Gated && !c.Done {
			out = append(out, c)
		}
	}
	return out
}

// WaitFor blocks until cond (called with the server lock held, so it may inspect the calls
// passed to it but must not call the server) holds, or the timeout expires.
func (s *Server) WaitFor(timeout time.Duration, cond func(calls []*Call) bool) bool {
	t := time.NewTimer(timeout)
	defer t.Stop()
	for {
		s.mu.Lock()
		ok := cond(s.calls)
		ch := s.changed
		s.mu.Unlock()
		if ok {
			return true
		}
		select {
		case <-ch:
		case <-t.C:
			return false
		}
	}
}

// WaitCalls waits until at least n Do calls have been recorded.
func (s *Server) WaitCalls(n int, timeout time.Duration) bool {
	return s.WaitFor(timeout, func(calls []*Call) bool { return len(calls) >= n })
}

// WaitGated waits until at least n calls are blocked on a gate and returns them.
func (s *Server) WaitGated(n int, timeout time.Duration) []*Call {
	var out []*Call
	s.WaitFor(timeout, func(calls []*Call) bool {
		out = out[:0]
		for _, c := range calls {
			if c.Gated && !c.Done {
				out = append(out, c)
			}
		}
		return len(out) >= n
	})
	return out
}

// WaitDone waits until the call has returned.
func (s *Server) WaitDone(c *Call, timeout time.Duration) bool {
	return s.WaitFor(timeout, func([]*Call) bool { return c.Done })
}

// Release ends a gated call with the given outcome (nil = success). It returns false if
// the call is not (or no longer) waiting.
func (s *Server) Release(c *Call, err error) bool {
	s.mu.Lock()
	if !c.Gated || c.Done || c.release == nil {
		s.mu.Unlock()
		return false
	}
	ch := c.release
	c.release = nil
	s.mu.Unlock()
	ch <- err
	return true
}

// ReleaseAll releases every gated call with the same outcome and returns how many.
func (s *Server) ReleaseAll(err error) int {
	n := 0
	for _, c := range s.Gated() {
		if s.Release(c, err) {
			n++
		}
	}
	return n
}

func (s *Server) pick(c *Call) Step { // s.mu held
	if s.decider != nil {
		if st := s.decider(c); st != nil {
			return *st
		}
	}
	if q := s.perTable[c.Table]; len(q) > 0 {
		s.perTable[c.Table] = q[1:]
		return q[0]
	}
	if len(s.queue) > 0 {
		st := s.queue[0]
		s.queue = s.queue[1:]
		return st
	}
	return s.def
}

// Client is one fake connection.
type Client struct {
	srv    *Server
	id     int
	closed bool
}

var _ ch_wrapper.IChClient = (*Client)(nil)

var reInsert = regexp.MustCompile(`(?i)^\s*INSERT\s+INTO\s+([A-Za-z0-9_.` + "`" + `]+)`)

// TableOf extracts the table name of an INSERT statement.
func TableOf(body string) string {
	m := reInsert.FindStringSubmatch(body)
	if m == nil {
		return ""
	}
	return strings.Trim(m[1], "`")
}

// ErrMalformed is returned (wrapped) by Do for a block the server could not decode.
var ErrMalformed = errors.New("fakech: malformed block")

// Do implements the insert path.
func (c *Client) Do(ctx context.Context, q ch.Query) error {
	call := &Call{ClientID: c.id, Body: q.Body, Table: TableOf(q.Body)}
	decodeInput(call, q.Input)

	s := c.srv
	s.mu.Lock()
	call.Seq = s.event("do-start", c.id, call, "")
	s.calls = append(s.calls, call)
	var step Step
	switch {
	case c.closed:
		step = Step{Kind: Error, Err: "fakech: client is closed"}
	case call.RectErr != "":
		// what ch-go returns before anything reaches the server
		step = Step{Kind: Error, Err: call.RectErr}
		s.pick(call) // the scripted outcome is consumed all the same: one step per Do
	case call.ShapeErr != "":
		step = Step{Kind: Error, Err: ErrMalformed.Error() + ": " + call.ShapeErr}
		s.pick(call)
	default:
		step = s.pick(call)
	}
	var wait chan error
	if step.Kind == Gate {
		call.Gated = true
		call.release = make(chan error, 1)
		wait = call.release
	}
	s.bump()
	s.mu.Unlock()

	var err error
	switch step.Kind {
	case Gate:
		select {
		case err = <-wait:
		case <-ctx.Done():
			err = ctx.Err()
		}
	case Error:
		msg := step.Err
		if msg == "" {
			msg = "fakech: scripted insert error"
		}
		err = errors.New(msg)
		if step.Class != "" && call.RectErr == "" && call.ShapeErr == "" {
			err = ErrorOf(step.Class, call.Seq)
		}
	default:
		if e := ctx.Err(); e != nil {
			err = e
		}
	}

	s.ends.Add(1) // before the lock: observers spinning on Ends() see the end of Do as early as possible
	s.mu.Lock()
	call.release = nil
	call.Err = err
	call.Done = true
	es := ""
	if err != nil {
		es = err.Error()
	}
	call.EndSeq = s.event("do-end", c.id, call, es)
	s.bump()
	s.mu.Unlock()
	return err
}

func (c *Client) Ping(ctx context.Context) error {
	s := c.srv
	s.mu.Lock()
	defer s.mu.Unlock()
	es := ""
	if s.pingErr != nil {
		es = s.pingErr.Error()
	}
	s.event("ping", c.id, nil, es)
	return s.pingErr
}

func (c *Client) Close() error {
	s := c.srv
	s.mu.Lock()
	defer s.mu.Unlock()
	c.closed = true
	s.event("close", c.id, nil, "")
	s.bump()
	return nil
}

var errNotImpl = errors.New("not implemented")

func (c *Client) Exec(ctx context.Context, query string, args ...any) error { return errNotImpl }
func (c *Client) Scan(ctx context.Context, req string, args []any, dest ...interface{}) error {
	return errNotImpl
}
func (c *Client) DropIfEmpty(ctx context.Context, name string) error { return errNotImpl }
func (c *Client) TableExists(ctx context.Context, name string) (bool, error) {
	return false, errNotImpl
}
func (c *Client) GetDBExec(env map[string]string) func(ctx context.Context, query string, args ...[]interface{}) error {
	return func(ctx context.Context, query string, args ...[]interface{}) error { return errNotImpl }
}
func (c *Client) GetVersion(ctx context.Context, k uint64) (uint64, error) { return 0, errNotImpl }
func (c *Client) GetSetting(ctx context.Context, tp string, name string) (string, error) {
	return "", errNotImpl
}
func (c *Client) PutSetting(ctx context.Context, tp string, name string, value string) error {
	return errNotImpl
}
func (c *Client) GetFirst(req string, first ...interface{}) error { return errNotImpl }
func (c *Client) GetList(req string) ([]string, error)            { return nil, errNotImpl }
func (c *Client) Query(ctx context.Context, query string, args ...interface{}) (driver.Rows, error) {
	return nil, errNotImpl
}
func (c *Client) QueryRow(ctx context.Context, query string, args ...interface{}) driver.Row {
	return nil
}

// ---------------------------------------------------------------------------------------
// decoding

func decodeInput(call *Call, in proto.Input) {
	call.Columns = make([]Column, len(in))
	call.ColNames = make([]string, len(in))
	for i, ic := range in {
		col := Column{Name: ic.Name}
		if ic.Data == nil {
			col.Malformed = "nil column data"
			col.Type = "<nil>"
		} else {
			col.Type = fmt.Sprintf("%T", ic.Data)
			col.Rows = ic.Data.Rows()
			vals, bad, opaque := decodeAny(ic.Data)
			col.Values, col.Malformed, col.Opaque = vals, bad, opaque
			if bad == "" && !opaque && len(vals) != col.Rows {
				col.Malformed = fmt.Sprintf("Rows() says %d, %d values decoded", col.Rows, len(vals))
			}
		}
		call.Columns[i] = col
		call.ColNames[i] = ic.Name
	}
	if len(in) > 0 {
		call.NRows = call.Columns[0].Rows
	}
	// ch-go proto.Block.EncodeRawBlock / WriteBlock: b.Rows = input[0].Data.Rows();
	// `if r := col.Data.Rows(); r != b.Rows { return errors.Errorf("%q has %d rows, expected %d", …) }`
	for _, col := range call.Columns {
		if col.Rows != call.NRows {
			call.RectErr = fmt.Sprintf("%q has %d rows, expected %d", col.Name, col.Rows, call.NRows)
			break
		}
	}
	for _, col := range call.Columns {
		if col.Malformed != "" {
			call.ShapeErr = fmt.Sprintf("column %q: %s", col.Name, col.Malformed)
			break
		}
	}
}

func decodeStr(c *proto.ColStr) ([]any, string) {
	out := make([]any, 0, len(c.Pos))
	for i, p := range c.Pos {
		if p.Start < 0 || p.End < p.Start || p.End > len(c.Buf) {
			return out, fmt.Sprintf("string %d has position [%d:%d] outside a buffer of %d bytes", i, p.Start, p.End, len(c.Buf))
		}
		out = append(out, string(c.Buf[p.Start:p.End]))
	}
	return out, ""
}

func decodeFixed(c *proto.ColFixedStr) ([]any, string) {
	if c.Size == 0 {
		if len(c.Buf) != 0 {
			return nil, "FixedString of size 0 with data"
		}
		return nil, ""
	}
	n := len(c.Buf) / c.Size
	out := make([]any, 0, n)
	for i := 0; i < n; i++ {
		out = append(out, string(c.Buf[i*c.Size:(i+1)*c.Size]))
	}
	if len(c.Buf)%c.Size != 0 {
		return out, fmt.Sprintf("FixedString(%d) buffer of %d bytes is not a whole number of values", c.Size, len(c.Buf))
	}
	return out, ""
}

func sliceVals[T any, S ~[]T](s S, conv func(T) any) []any {
	out := make([]any, len(s))
	for i, v := range s {
		out[i] = conv(v)
	}
	return out
}

func ident[T any](v T) any { return v }

// decodeAny decodes one ch-go column into Go values. It returns the values, a description
// of an internal inconsistency ("" if none) and whether the type is unknown to the fake.
func decodeAny(d any) (vals []any, malformed string, opaque bool) {
	switch c := d.(type) {
	case *proto.ColStr:
		v, bad := decodeStr(c)
		return v, bad, false
	case proto.ColStr:
		v, bad := decodeStr(&c)
		return v, bad, false
	case *proto.ColFixedStr:
		v, bad := decodeFixed(c)
		return v, bad, false
	case proto.ColFixedStr:
		v, bad := decodeFixed(&c)
		return v, bad, false
	case proto.ColDate:
		return sliceVals[proto.Date](c, func(v proto.Date) any { return Date(v) }), "", false
	case *proto.ColDate:
		return sliceVals[proto.Date](*c, func(v proto.Date) any { return Date(v) }), "", false
	case proto.ColUInt64:
		return sliceVals[uint64](c, ident[uint64]), "", false
	case *proto.ColUInt64:
		return sliceVals[uint64](*c, ident[uint64]), "", false
	case proto.ColInt64:
		return sliceVals[int64](c, ident[int64]), "", false
	case *proto.ColInt64:
		return sliceVals[int64](*c, ident[int64]), "", false
	case proto.ColFloat64:
		return sliceVals[float64](c, ident[float64]), "", false
	case *proto.ColFloat64:
		return sliceVals[float64](*c, ident[float64]), "", false
	case proto.ColInt8:
		return sliceVals[int8](c, ident[int8]), "", false
	case *proto.ColInt8:
		return sliceVals[int8](*c, ident[int8]), "", false
	case proto.ColUInt8:
		return sliceVals[uint8](c, ident[uint8]), "", false
	case *proto.ColUInt8:
		return sliceVals[uint8](*c, ident[uint8]), "", false
	case proto.ColUInt16:
		return sliceVals[uint16](c, ident[uint16]), "", false
	case *proto.ColUInt16:
		return sliceVals[uint16](*c, ident[uint16]), "", false
	case proto.ColUInt32:
		return sliceVals[uint32](c, ident[uint32]), "", false
	case *proto.ColUInt32:
		return sliceVals[uint32](*c, ident[uint32]), "", false
	case proto.ColInt32:
		return sliceVals[int32](c, ident[int32]), "", false
	case *proto.ColInt32:
		return sliceVals[int32](*c, ident[int32]), "", false
	case proto.ColInt16:
		return sliceVals[int16](c, ident[int16]), "", false
	case *proto.ColInt16:
		return sliceVals[int16](*c, ident[int16]), "", false
	case proto.ColFloat32:
		return sliceVals[float32](c, ident[float32]), "", false
	case *proto.ColFloat32:
		return sliceVals[float32](*c, ident[float32]), "", false
	case proto.ColBool:
		return sliceVals[bool](c, ident[bool]), "", false
	case *proto.ColBool:
		return sliceVals[bool](*c, ident[bool]), "", false
	case proto.ColTuple:
		return decodeTuple(c)
	}
	// generic containers: ColArr[T] {Offsets; Data} and adapters embedding proto.ColTuple
	rv := reflect.ValueOf(d)
	for rv.Kind() == reflect.Ptr {
		if rv.IsNil() {
			return nil, "nil column", false
		}
		rv = rv.Elem()
	}
	if rv.Kind() == reflect.Struct {
		off := rv.FieldByName("Offsets")
		data := rv.FieldByName("Data")
		if off.IsValid() && data.IsValid() && off.Type() == reflect.TypeOf(proto.ColUInt64{}) {
			offsets := off.Interface().(proto.ColUInt64)
			if data.Kind() == reflect.Interface && data.IsNil() {
				return nil, "array without element column", false
			}
			return decodeArray(offsets, data.Interface())
		}
		for i := 0; i < rv.NumField(); i++ {
			f := rv.Field(i)
			if f.Type() == reflect.TypeOf(proto.ColTuple{}) && f.CanInterface() {
				return decodeTuple(f.Interface().(proto.ColTuple))
			}
		}
	}
	return nil, "", true
}

func decodeTuple(t proto.ColTuple) ([]any, string, bool) {
	if len(t) == 0 {
		return nil, "", false
	}
	elems := make([][]any, len(t))
	opaque := false
	min := -1
	bad := ""
	for i, e := range t {
		v, b, o := decodeAny(e)
		elems[i] = v
		if o {
			opaque = true
		}
		if b != "" && bad == "" {
			bad = fmt.Sprintf("tuple element %d: %s", i, b)
		}
		if min < 0 || len(v) < min {
			min = len(v)
		}
	}
	if opaque {
		return nil, bad, true
	}
	for i, v := range elems {
		if len(v) != len(elems[0]) && bad == "" {
			bad = fmt.Sprintf("tuple element %d has %d values, element 0 has %d", i, len(v), len(elems[0]))
		}
	}
	out := make([]any, min)
	for r := 0; r < min; r++ {
		tp := make(Tuple, len(t))
		for i := range t {
			tp[i] = elems[i][r]
		}
		out[r] = tp
	}
	return out, bad, false
}

func decodeArray(offsets proto.ColUInt64, data any) ([]any, string, bool) {
	elems, bad, opaque := decodeAny(data)
	if opaque {
		return nil, bad, true
	}
	if bad != "" {
		bad = "array data: " + bad
	}
	out := make([]any, 0, len(offsets))
	prev := uint64(0)
	for i, o := range offsets {
		if o < prev {
			if bad == "" {
				bad = fmt.Sprintf("array offset %d decreases (%d after %d)", i, o, prev)
			}
			break
		}
		if o > uint64(len(elems)) {
			if bad == "" {
				bad = fmt.Sprintf("array offset %d is %d but the element column has %d values", i, o, len(elems))
			}
			break
		}
		out = append(out, append([]any(nil), elems[prev:o]...))
		prev = o
	}
	if bad == "" && prev != uint64(len(elems)) {
		bad = fmt.Sprintf("array element column has %d values but the last offset is %d", len(elems), prev)
	}
	return out, bad, false
}

package fakech

import (
	"context"
	"errors"
	"fmt"
	"io"
	"net"
	"syscall"

	"github.com/ClickHouse/clickhouse-go/v2"
)

// A panel of realistic error VALUES for injected faults. Code that inspects the error (type
// *clickhouse.Exception, its code, its message) to decide whether a statement "really" failed
// is driven through every branch. Whether the statement took effect is decided by the fault
// mode alone (before / after), never by the error value.

// CtrlErrorKinds lists the panel.
var CtrlErrorKinds = []string{
	"plain", "ch159-ddl-timeout", "ch159-timeout", "ch57-table-exists", "ch60-unknown-table",
	"ch44-column-exists", "ch15-duplicate-column", "ch16-no-such-column", "ch999-keeper",
	"ch241-memory", "ch210-network", "net-op-error", "io-eof", "deadline-exceeded",
}

// CtrlTransportError marks error values that stand for a broken connection (over the native
// protocol server they are delivered by closing the connection instead of an exception).
func CtrlTransportError(err error) bool {
	var oe *net.OpError
	return errors.Is(err, io.EOF) || errors.Is(err, context.DeadlineExceeded) || errors.As(err, &oe) || errors.Is(err, io.ErrUnexpectedEOF)
}

func ctrlExc(code int32, name, msg string) error {
	return &clickhouse.Exception{Code: code, Name: name, Message: msg}
}

// CtrlPanelError builds the error value of one kind for a statement.
func CtrlPanelError(kind string, c *CtrlCall) error {
	tbl := "t"
	if c != nil && c.Stmt != nil && c.Stmt.Table != "" {
		tbl = c.Stmt.Table
	}
	switch kind {
	case "ch159-ddl-timeout":
		return ctrlExc(159, "DB::Exception", "Watching task /clickhouse/task_queue/ddl/query-0000000042 is executing longer than distributed_ddl_task_timeout (=180) seconds. There are 1 unfinished hosts (0 of them are currently executing the task), they are going to execute the query in background. (TIMEOUT_EXCEEDED)")
	case "ch159-timeout":
		return ctrlExc(159, "DB::Exception", "Timeout exceeded: elapsed 30.01 seconds, maximum: 30. (TIMEOUT_EXCEEDED)")
	case "ch57-table-exists":
		return ctrlExc(57, "DB::Exception", fmt.Sprintf("Table default.%s already exists. (TABLE_ALREADY_EXISTS)", tbl))
	case "ch60-unknown-table":
		return ctrlExc(60, "DB::Exception", fmt.Sprintf("Table default.%s doesn't exist. (UNKNOWN_TABLE)", tbl))
	case "ch44-column-exists":
		return ctrlExc(44, "DB::Exception", "Cannot add column type: column with this name already exists. (ILLEGAL_COLUMN)")
	case "ch15-duplicate-column":
		return ctrlExc(15, "DB::Exception", "Cannot add column `type_v2`: column with this name already exists. (DUPLICATE_COLUMN)")
	case "ch16-no-such-column":
		return ctrlExc(16, "DB::Exception", fmt.Sprintf("There is no column type in table %s. (NO_SUCH_COLUMN_IN_TABLE)", tbl))
	case "ch999-keeper":
		return ctrlExc(999, "Coordination::Exception", "Coordination error: Connection loss, path /clickhouse/task_queue/ddl. (KEEPER_EXCEPTION)")
	case "ch241-memory":
		return ctrlExc(241, "DB::Exception", "Memory limit (total) exceeded: would use 3.73 GiB (attempt to allocate chunk of 4194304 bytes), maximum: 3.60 GiB. (MEMORY_LIMIT_EXCEEDED)")
	case "ch210-network":
		return ctrlExc(210, "DB::NetException", "Connection reset by peer, while reading from socket (10.0.0.7:9000). (NETWORK_ERROR)")
	case "net-op-error":
		return &net.OpError{Op: "read", Net: "tcp", Addr: &net.TCPAddr{IP: net.IPv4(10, 0, 0, 7), Port: 9000}, Err: syscall.ECONNRESET}
	case "io-eof":
		return io.EOF
	case "deadline-exceeded":
		return context.DeadlineExceeded
	}
	return ErrCtrlInjected
}

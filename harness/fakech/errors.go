package fakech

import (
	"context"
	"errors"
	"fmt"
	"io"
	"net"
	"os"
	"strings"
	"syscall"

	"github.com/ClickHouse/ch-go"
	"github.com/ClickHouse/ch-go/proto"
)

// ErrClasses is the panel of realistic failures a ClickHouse connection produces. The
// writer's error mapping looks at error texts and types (controller.ErrorHandler: custom
// error types, the text "connection reset by peer"; doPush: "dial tcp: lookup" + "i/o
// timeout"), so the outcome of a failing INSERT or reconnect is drawn from real error
// values, not from one synthetic text.
//
//	plain        errors.New text
//	reset        *net.OpError  write tcp a->b: write: connection reset by peer
//	reset-read   *net.OpError  read tcp a->b: read: connection reset by peer
//	pipe         *net.OpError  write tcp a->b: write: broken pipe
//	eof          io.EOF
//	ueof         io.ErrUnexpectedEOF (wrapped the way ch-go wraps packet reads)
//	deadline     context.DeadlineExceeded
//	timeout      *net.OpError  read tcp a->b: i/o timeout
//	dns-timeout  dial tcp: lookup clickhouse on 10.0.0.53:53: read udp ...: i/o timeout
//	refused      *net.OpError  dial tcp 10.0.0.2:9000: connect: connection refused
//	exception    *ch.Exception MEMORY_LIMIT_EXCEEDED (server side)
//	exc-parse    *ch.Exception whose message quotes client data
var ErrClasses = []string{"plain", "reset", "exception", "eof", "reset-read", "deadline", "pipe", "timeout", "ueof", "dns-timeout", "refused", "exc-parse"}

var (
	addrLocal  = &net.TCPAddr{IP: net.IPv4(10, 0, 0, 7), Port: 51544}
	addrRemote = &net.TCPAddr{IP: net.IPv4(10, 0, 0, 2), Port: 9000}
)

type timeoutErr struct{}

func (timeoutErr) Error() string   { return "i/o timeout" }
func (timeoutErr) Timeout() bool   { return true }
func (timeoutErr) Temporary() bool { return true }

// ErrorOf builds the error value of a class (unknown or empty class: a plain error). n only
// makes plain texts distinguishable.
func ErrorOf(class string, n int64) error {
	switch class {
	case "reset":
		return &net.OpError{Op: "write", Net: "tcp", Source: addrLocal, Addr: addrRemote, Err: os.NewSyscallError("write", syscall.ECONNRESET)}
	case "reset-read":
		return &net.OpError{Op: "read", Net: "tcp", Source: addrLocal, Addr: addrRemote, Err: os.NewSyscallError("read", syscall.ECONNRESET)}
	case "pipe":
		return &net.OpError{Op: "write", Net: "tcp", Source: addrLocal, Addr: addrRemote, Err: os.NewSyscallError("write", syscall.EPIPE)}
	case "eof":
		return io.EOF
	case "ueof":
		return fmt.Errorf("packet: read: %w", io.ErrUnexpectedEOF)
	case "deadline":
		return context.DeadlineExceeded
	case "timeout":
		return &net.OpError{Op: "read", Net: "tcp", Source: addrLocal, Addr: addrRemote, Err: timeoutErr{}}
	case "dns-timeout":
		return &net.OpError{Op: "dial", Net: "tcp", Err: &net.DNSError{Err: "read udp 10.0.0.7:40123->10.0.0.53:53: i/o timeout", Name: "clickhouse", Server: "10.0.0.53:53", IsTimeout: true}}
	case "refused":
		return &net.OpError{Op: "dial", Net: "tcp", Addr: addrRemote, Err: os.NewSyscallError("connect", syscall.ECONNREFUSED)}
	case "exception":
		return &ch.Exception{Code: proto.ErrMemoryLimitExceeded, Name: "DB::Exception",
			Message: "DB::Exception: Memory limit (total) exceeded: would use 3.61 GiB, maximum: 3.60 GiB"}
	case "exc-parse":
		return &ch.Exception{Code: proto.ErrCannotParseText, Name: "DB::Exception",
			Message: "DB::Exception: Cannot parse input: expected '\\t' before: 'connection reset by peer\\n': (at row 1)"}
	}
	return fmt.Errorf("scripted failure of INSERT #%d", n)
}

// ClassOf names the class of an error produced by ErrorOf (for evidence tags).
func ClassOf(err error) string {
	if err == nil {
		return "ok"
	}
	var ex *ch.Exception
	if errors.As(err, &ex) {
		if ex.Code == proto.ErrCannotParseText {
			return "exc-parse"
		}
		return "exception"
	}
	s := err.Error()
	switch {
	case errors.Is(err, io.ErrUnexpectedEOF):
		return "ueof"
	case errors.Is(err, io.EOF):
		return "eof"
	case errors.Is(err, context.DeadlineExceeded):
		return "deadline"
	case errors.Is(err, context.Canceled):
		return "canceled"
	case strings.Contains(s, "lookup"):
		return "dns-timeout"
	case strings.Contains(s, "connection reset by peer") && strings.HasPrefix(s, "read"):
		return "reset-read"
	case strings.Contains(s, "connection reset by peer"):
		return "reset"
	case strings.Contains(s, "broken pipe"):
		return "pipe"
	case strings.Contains(s, "connection refused"):
		return "refused"
	case strings.Contains(s, "i/o timeout"):
		return "timeout"
	case strings.Contains(s, "not rectangular") || strings.Contains(s, "rows, expected") || strings.Contains(s, "malformed block"):
		return "bad-block"
	}
	return "plain"
}

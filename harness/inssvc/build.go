package inssvc

import (
	"bytes"
	"compress/gzip"
	"encoding/binary"
	"encoding/hex"
	"fmt"
	"io"
	"mime/multipart"
	"net/http"
	"net/http/httptest"
	"net/url"
	"strings"
	"time"

	"github.com/golang/snappy"
	"github.com/google/pprof/profile"
	"github.com/metrico/qryn/writer/model"
	"github.com/metrico/qryn/writer/utils/helpers"
	"github.com/metrico/qryn/writer/utils/proto/prompb"
	commonpb "go.opentelemetry.io/proto/otlp/common/v1"
	resourcepb "go.opentelemetry.io/proto/otlp/resource/v1"
	tracepb "go.opentelemetry.io/proto/otlp/trace/v1"
	"google.golang.org/protobuf/proto"

	"qrynverif/fakech"
)

const bigLokiLines = 180

var bigLokiPad = strings.Repeat("x", 2000)

func fakechTuple(a, b string) fakech.Tuple { return fakech.Tuple{a, b} }

func otlpStr(k, v string) *commonpb.KeyValue {
	return &commonpb.KeyValue{Key: k, Value: &commonpb.AnyValue{Value: &commonpb.AnyValue_StringValue{StringValue: v}}}
}

// BaseNs is the timestamp every generated row starts from: 2024-01-15 12:00:00 UTC.
const BaseNs = int64(1705320000) * 1e9

func ids(req, i int) (trace []byte, span []byte) {
	trace = make([]byte, 16)
	span = make([]byte, 8)
	binary.BigEndian.PutUint64(trace[0:8], 0xA0000000|uint64(req))
	binary.BigEndian.PutUint64(trace[8:16], uint64(i)+1)
	binary.BigEndian.PutUint64(span, uint64(req)<<24|uint64(i)+1)
	return
}

func pad(i, wide int) string {
	if wide <= 0 {
		return ""
	}
	return strings.Repeat("x", (i*7)%wide)
}

// Direct builds a hand-made request for one service with n rows whose arrays all have the
// same length (the documented precondition of the append routines) and whose Size is
// accounted the way the real parsers do (writer/utils/unmarshal/builder.go). Every field
// of row i of request req is a function of (req, i), so a row mixing fields of two
// submitted rows is recognisable. wide > 0 adds variable-length padding to strings.
func Direct(k Kind, req, n, wide int) helpers.SizeGetter {
	switch k {
	case Samples:
		d := &model.TimeSamplesData{}
		for i := 0; i < n; i++ {
			msg := fmt.Sprintf("S%d-%d%s", req, i, pad(i, wide))
			d.MMessage = append(d.MMessage, msg)
			d.MFingerprint = append(d.MFingerprint, uint64(req)*1000003+uint64(i))
			d.MTimestampNS = append(d.MTimestampNS, BaseNs+int64(req)*1e6+int64(i))
			d.MValue = append(d.MValue, float64(req)+float64(i)/1024)
			d.MType = append(d.MType, model.SAMPLE_TYPE_LOG)
			d.MTTLDays = append(d.MTTLDays, 0)
			d.Size += len(msg) + 26
		}
		return d
	case Metrics:
		d := &model.TimeSamplesData{}
		for i := 0; i < n; i++ {
			d.MFingerprint = append(d.MFingerprint, uint64(req)*1000003+uint64(i))
			d.MTimestampNS = append(d.MTimestampNS, BaseNs+int64(req)*1e6+int64(i))
			d.MValue = append(d.MValue, -float64(req)-float64(i)/1024)
			d.MType = append(d.MType, model.SAMPLE_TYPE_METRIC)
			d.Size += 26
		}
		return d
	case Series:
		d := &model.TimeSeriesData{}
		for i := 0; i < n; i++ {
			lbl := fmt.Sprintf(`{"m":"T%d-%d%s"}`, req, i, pad(i, wide))
			d.MLabels = append(d.MLabels, lbl)
			d.MDate = append(d.MDate, time.Unix((19737+int64(i%3))*86400, 0).UTC())
			d.MFingerprint = append(d.MFingerprint, uint64(req)*1000003+uint64(i))
			d.MType = append(d.MType, uint8(1+i%2))
			d.MTTLDays = append(d.MTTLDays, 0)
			d.Size += 14 + len(lbl)
		}
		return d
	case Spans:
		d := &model.TempoSamples{}
		for i := 0; i < n; i++ {
			tr, sp := ids(req, i)
			name := fmt.Sprintf("P%d-%d%s", req, i, pad(i, wide))
			svc := fmt.Sprintf("svc%d-%d", req, i)
			parent := fmt.Sprintf("par%d-%d", req, i)
			payload := []byte(fmt.Sprintf(`{"p":"%d-%d%s"}`, req, i, pad(i+1, wide)))
			d.MTraceId = append(d.MTraceId, tr)
			d.MSpanId = append(d.MSpanId, sp)
			d.MTimestampNs = append(d.MTimestampNs, BaseNs+int64(req)*1e6+int64(i))
			d.MDurationNs = append(d.MDurationNs, int64(req)*1000+int64(i))
			d.MParentId = append(d.MParentId, parent)
			d.MName = append(d.MName, name)
			d.MServiceName = append(d.MServiceName, svc)
			d.MPayloadType = append(d.MPayloadType, int8(1+i%2))
			d.MPayload = append(d.MPayload, payload)
			d.Size += 49 + len(parent) + len(name) + len(svc) + len(payload)
		}
		return d
	case Tags:
		d := &model.TempoTag{}
		for i := 0; i < n; i++ {
			tr, sp := ids(req, i)
			key := fmt.Sprintf("k%d-%d", req, i)
			val := fmt.Sprintf("v%d-%d%s", req, i, pad(i, wide))
			d.MTraceId = append(d.MTraceId, tr)
			d.MSpanId = append(d.MSpanId, sp)
			d.MTimestampNs = append(d.MTimestampNs, BaseNs+int64(req)*1e6+int64(i))
			d.MDurationNs = append(d.MDurationNs, int64(req)*1000+int64(i))
			d.MDate = append(d.MDate, time.Unix((BaseNs+int64(req)*1e6)/1e9, 0))
			d.MKey = append(d.MKey, key)
			d.MVal = append(d.MVal, val)
			d.Size += 40 + len(key) + len(val)
		}
		return d
	case Profile:
		// one profile per request; n only varies the lengths of the array columns
		d := &model.ProfileData{
			TimestampNs: []uint64{uint64(BaseNs) + uint64(req)*1e6},
			Ptype:       []string{fmt.Sprintf("cpu%d", req)},
			ServiceName: []string{fmt.Sprintf("F%d%s", req, pad(req, wide))},
			PeriodType:  []string{fmt.Sprintf("pt%d", req)},
			PeriodUnit:  []string{fmt.Sprintf("pu%d", req)},
			DurationNs:  []uint64{uint64(req) * 1000},
			PayloadType: []string{"0"},
			Payload:     [][]byte{[]byte(fmt.Sprintf("payload-%d%s", req, pad(req+1, wide)))},
		}
		for i := 0; i < n; i++ {
			d.SamplesTypesUnits = append(d.SamplesTypesUnits, model.StrStr{Str1: fmt.Sprintf("st%d-%d", req, i), Str2: fmt.Sprintf("su%d-%d", req, i)})
			d.ValuesAgg = append(d.ValuesAgg, model.ValuesAgg{ValueStr: fmt.Sprintf("va%d-%d", req, i), ValueInt64: int64(req)*100 + int64(i), ValueInt32: int32(i)})
			d.Function = append(d.Function, model.Function{ValueInt64: uint64(req)*100 + uint64(i), ValueStr: fmt.Sprintf("fn%d-%d", req, i)})
			var vals []model.ValuesArrTuple
			for j := 0; j < i%3; j++ {
				vals = append(vals, model.ValuesArrTuple{ValueStr: fmt.Sprintf("tv%d-%d-%d", req, i, j), FirstValueInt64: int64(req) + int64(j), SecondValueInt64: int64(req)*7 + int64(i)})
			}
			d.Tree = append(d.Tree, model.TreeRootStructure{Field1: uint64(req), Field2: uint64(i), Field3: uint64(req)*31 + uint64(i), ValueArrTuple: vals})
		}
		for i := 0; i < (n+1)/2; i++ {
			d.Tags = append(d.Tags, model.StrStr{Str1: fmt.Sprintf("tk%d-%d", req, i), Str2: fmt.Sprintf("tv%d-%d", req, i)})
		}
		// parserDoer.calculateProfileSize
		sz := 8 + 1 + 1 + 1 + 1 + 8 + 1 + 1
		for _, st := range d.SamplesTypesUnits {
			sz += len(st.Str1) + len(st.Str2)
		}
		for _, tg := range d.Tags {
			sz += len(tg.Str1) + len(tg.Str2)
		}
		d.Size = sz
		return d
	}
	return nil
}

// ---------------------------------------------------------------------------------------
// HTTP bodies. Each returns the request and the rows the body must produce, as
// (table, marker prefix) expectations decided by the generator, not by the parser.

// Expect is a row the body of an HTTP push must lead to.
type Expect struct {
	Table  string
	Marker string // exact marker (see markerOf) or, with Prefix, its beginning
	Prefix bool
	// Cols are the column values the body generator knows the row must carry (decoded
	// representation of fakech); columns it cannot know (fingerprints, re-encoded payloads)
	// are absent. They are compared in every block that holds the row.
	Cols map[string]any
}

// Headers are the request headers the writer's middleware interprets
// (controller.WithOverallContextMiddleware, getAsyncMode): each "" = absent.
type Headers struct {
	Async string `json:"async,omitempty"` // X-Async-Insert: "0" sync, "1" async, anything else = default
	TTL   string `json:"ttl,omitempty"`   // X-Ttl-Days
	Meta  string `json:"meta,omitempty"`  // X-Scope-Meta
	DSN   string `json:"dsn,omitempty"`   // X-CH-DSN: selects the node's services by name, else any
	Enc   string `json:"enc,omitempty"`   // Content-Encoding: "gzip" (the body is really gzipped) or an unsupported one (400)
}

// HeaderChoices are the values drawn for each header.
var HeaderChoices = struct{ Async, TTL, Meta, DSN, Enc []string }{
	Async: []string{"", "1", "0", "", "yes", "1", "", "2"},
	TTL:   []string{"", "", "7", "0", "junk", "99999"},
	Meta:  []string{"", "", `{"org":"o1"}`, "junk"},
	DSN:   []string{"", "", NodeName, "n-clickhouse://other:9000/db", "junk"},
	Enc:   []string{"", "", "", "gzip", "br"},
}

// ApplyHeaders sets the headers on a built request (and gzips its body for Enc "gzip").
func ApplyHeaders(r *http.Request, h Headers) {
	set := func(k, v string) {
		if v != "" {
			r.Header.Set(k, v)
		}
	}
	set("X-Async-Insert", h.Async)
	set("X-Ttl-Days", h.TTL)
	set("X-Scope-Meta", h.Meta)
	set("X-CH-DSN", h.DSN)
	switch h.Enc {
	case "":
	case "gzip":
		raw, _ := io.ReadAll(r.Body)
		var gz bytes.Buffer
		zw := gzip.NewWriter(&gz)
		_, _ = zw.Write(raw)
		_ = zw.Close()
		r.Body = io.NopCloser(&gz)
		r.ContentLength = int64(gz.Len())
		r.Header.Set("Content-Encoding", "gzip")
	default:
		r.Header.Set("Content-Encoding", h.Enc)
	}
}

// HTTPKinds lists the request builders.
var HTTPKinds = []string{"loki", "prom", "zipkin", "profile", "otlp", "mixed", "zipkin-nd", "cf"}

// BuildHTTP builds push request number req of the given protocol with n entries spread
// over streams series/spans. big asks for the large variant of the protocol: prom: one
// series beyond the decoder's 1000-point flush; profile: labels beyond the 1 MiB chunk
// limit; loki / zipkin / otlp: a body whose accounted size crosses the parser's 1 MiB chunk
// threshold (parserDoer.onEntries / onSpan), so that one body becomes >= 2 insert requests
// per service. The bulk sits in fields that are not part of a row marker.
func BuildHTTP(proto_ string, req, streams, n int, big bool) (*http.Request, []Expect) {
	if streams < 1 {
		streams = 1
	}
	var exp []Expect
	switch proto_ {
	case "loki":
		if big {
			streams = 4 + n%3 // 3 streams of bigLokiLines padded lines exceed 1 MiB
		}
		var sb strings.Builder
		sb.WriteString(`{"streams":[`)
		for s := 0; s < streams; s++ {
			if s > 0 {
				sb.WriteString(",")
			}
			lbl := fmt.Sprintf("H%d-s%d", req, s)
			fmt.Fprintf(&sb, `{"stream":{"m":"%s"},"values":[`, lbl)
			cnt := n / streams
			if s < n%streams {
				cnt++
			}
			if big {
				cnt = bigLokiLines
			}
			for i := 0; i < cnt; i++ {
				if i > 0 {
					sb.WriteString(",")
				}
				line := fmt.Sprintf("L%d-s%d-%d", req, s, i)
				tns := BaseNs + int64(req)*1e6 + int64(s)*1000 + int64(i)
				if big {
					// the size is accounted per line (len+26) and checked after every stream
					line += bigLokiPad
				}
				exp = append(exp, Expect{Table: "samples_v3", Marker: MarkerOfLine(line),
					Cols: map[string]any{"string": line, "timestamp_ns": tns, "value": float64(0), "type": uint8(1)}})
				fmt.Fprintf(&sb, `["%d","%s"]`, tns, line)
			}
			sb.WriteString("]}")
			if cnt > 0 {
				exp = append(exp, Expect{Table: "time_series", Marker: fmt.Sprintf(`{"m":"%s"}#`, lbl), Prefix: true,
					Cols: map[string]any{"labels": fmt.Sprintf(`{"m":"%s"}`, lbl), "type": uint8(1), "date": dateOf(time.Unix(BaseNs/1e9, 0).UTC())}})
			}
		}
		sb.WriteString("]}")
		r := httptest.NewRequest("POST", "/loki/api/v1/push", strings.NewReader(sb.String()))
		r.Header.Set("Content-Type", "application/json")
		return r, exp
	case "prom":
		wr := &prompb.WriteRequest{}
		for s := 0; s < streams; s++ {
			lbl := fmt.Sprintf("R%d-s%d", req, s)
			ts := &prompb.TimeSeries{Labels: []*prompb.Label{{Name: "__name__", Value: "m"}, {Name: "m", Value: lbl}}}
			cnt := n / streams
			if s < n%streams {
				cnt++
			}
			if big && s == 0 {
				cnt += 1100 // beyond flushLimit = 1000 of promMetricsProtoDec.Decode
			}
			for i := 0; i < cnt; i++ {
				ms := BaseNs/1e6 + int64(req)*100000 + int64(s)*5000 + int64(i)
				ts.Samples = append(ts.Samples, &prompb.Sample{Value: float64(req) + float64(i)/4096, Timestamp: ms})
				exp = append(exp, Expect{Table: "samples_v3", Marker: fmt.Sprintf("t%d/", ms*1e6), Prefix: true,
					Cols: map[string]any{"string": "", "timestamp_ns": ms * 1e6, "value": float64(req) + float64(i)/4096, "type": uint8(2)}})
			}
			wr.Timeseries = append(wr.Timeseries, ts)
			if cnt > 0 {
				exp = append(exp, Expect{Table: "time_series", Marker: fmt.Sprintf(`{"__name__":"m","m":"%s"}#`, lbl), Prefix: true})
			}
		}
		raw, _ := proto.Marshal(wr)
		r := httptest.NewRequest("POST", "/api/v1/prom/remote/write", bytes.NewReader(snappy.Encode(nil, raw)))
		r.Header.Set("Content-Type", "application/x-protobuf")
		return r, exp
	case "zipkin":
		var sb strings.Builder
		sb.WriteString("[")
		bulk := ""
		if big {
			// an unknown member is skipped by the decoder but is part of the stored payload, whose
			// length is accounted: 6 spans exceed 1 MiB
			n += 7
			bulk = `,"debugPad":"` + strings.Repeat("p", 200*1024) + `"`
		}
		for i := 0; i < n; i++ {
			if i > 0 {
				sb.WriteString(",")
			}
			tr, sp := ids(req, i)
			name := fmt.Sprintf("Z%d-%d", req, i)
			us := (BaseNs + int64(req)*1e6 + int64(i)*1000) / 1000
			span := fmt.Sprintf(`{"traceId":"%s","id":"%s","name":"%s","timestamp":%d,"duration":%d,"localEndpoint":{"serviceName":"zs%d"},"tags":{"mk":"zv%d-%d"}%s}`,
				hex.EncodeToString(tr), hex.EncodeToString(sp), name, us, 10+i, req, req, i, bulk)
			sb.WriteString(span)
			h := hex.EncodeToString(sp)
			// the stored payload is the raw span (zipkinDecoderV2.Decode keeps dec.Raw())
			exp = append(exp, Expect{Table: "tempo_traces", Marker: h + "/" + name, Cols: map[string]any{
				"trace_id": string(tr), "span_id": string(sp), "parent_id": "", "name": name, "timestamp_ns": us * 1000,
				"duration_ns": int64(10+i) * 1000, "service_name": fmt.Sprintf("zs%d", req), "payload_type": int8(1), "payload": span}})
			tag := func(k, v string) {
				exp = append(exp, Expect{Table: "tempo_traces_attrs_gin", Marker: h + "/" + k + "=" + v, Cols: map[string]any{
					"key": k, "val": v, "trace_id": string(tr), "span_id": string(sp), "timestamp_ns": us * 1000, "duration": int64(10+i) * 1000}})
			}
			tag("name", name)
			tag("mk", fmt.Sprintf("zv%d-%d", req, i))
			tag("service.name", fmt.Sprintf("zs%d", req))
		}
		sb.WriteString("]")
		r := httptest.NewRequest("POST", "/tempo/spans", strings.NewReader(sb.String()))
		r.Header.Set("Content-Type", "application/json")
		return r, exp
	case "zipkin-nd":
		// Zipkin NDJSON framing (the route selects the parser by a Content-Type starting with
		// "ndjson"): one span per line, read with a bufio.Scanner whose buffer is 64 KiB. big: a
		// body of several hundred spans, well above that buffer, so it is compacted and refilled
		// many times while earlier spans are still waiting to be copied into the columns
		if big {
			n = 400 + 97*n
		}
		var sb strings.Builder
		for i := 0; i < n; i++ {
			tr, sp := ids(req, i)
			name := fmt.Sprintf("N%d-%d", req, i)
			us := (BaseNs + int64(req)*1e6 + int64(i)*1000) / 1000
			span := fmt.Sprintf(`{"traceId":"%s","id":"%s","name":"%s","timestamp":%d,"duration":%d,"localEndpoint":{"serviceName":"ns%d"},"tags":{"mk":"nv%d-%d","filler":"%s"}}`,
				hex.EncodeToString(tr), hex.EncodeToString(sp), name, us, 10+i%50, req, req, i, pad(i, 160))
			sb.WriteString(span)
			sb.WriteString("\n")
			h := hex.EncodeToString(sp)
			exp = append(exp, Expect{Table: "tempo_traces", Marker: h + "/" + name, Cols: map[string]any{
				"trace_id": string(tr), "span_id": string(sp), "parent_id": "", "name": name, "timestamp_ns": us * 1000,
				"duration_ns": int64(10+i%50) * 1000, "service_name": fmt.Sprintf("ns%d", req), "payload_type": int8(1), "payload": span}})
			exp = append(exp, Expect{Table: "tempo_traces_attrs_gin", Marker: fmt.Sprintf("%s/mk=nv%d-%d", h, req, i), Cols: map[string]any{
				"key": "mk", "val": fmt.Sprintf("nv%d-%d", req, i), "trace_id": string(tr), "span_id": string(sp), "timestamp_ns": us * 1000}})
		}
		r := httptest.NewRequest("POST", "/tempo/spans", strings.NewReader(sb.String()))
		r.Header.Set("Content-Type", "ndjson")
		return r, exp
	case "cf":
		// Cloudflare/Datadog NDJSON (/cf/v1/insert): one JSON event per line, stored as a log
		// line; big: thousands of lines, far beyond the scanner's 64 KiB buffer
		if big {
			n = 1500 + 300*n
		}
		var sb strings.Builder
		for i := 0; i < n; i++ {
			ms := BaseNs/1e6 + int64(req)*5000 + int64(i)
			line := fmt.Sprintf(`{"EventTimestampMs":%d,"ScriptName":"c%d","m":"C%d-%d"}`, ms, req, req, i)
			sb.WriteString(line)
			sb.WriteString("\n")
			exp = append(exp, Expect{Table: "samples_v3", Marker: MarkerOfLine(line),
				Cols: map[string]any{"string": line, "timestamp_ns": ms * 1e6, "value": float64(0), "type": uint8(1)}})
		}
		r := httptest.NewRequest("POST", fmt.Sprintf("/cf/v1/insert?ddsource=src%d", req), strings.NewReader(sb.String()))
		r.Header.Set("Content-Type", "application/json")
		return r, exp
	case "mixed":
		if big {
			n = 2500 + 500*n // > 64 KiB of line protocol
		}
		// one Influx write (one parser chunk) mixing log lines (a `message` field) and metric
		// lines (a numeric field): log batch first when streams is odd, metric batch first
		// otherwise; with n >= 3 a third batch of the first kind follows
		var sb strings.Builder
		logFirst := streams%2 == 1
		for i := 0; i < n+1; i++ {
			tns := BaseNs + int64(req)*1e6 + int64(i)
			isLog := (i%2 == 0) == logFirst
			if isLog {
				msg := fmt.Sprintf("M%d-%d", req, i)
				fmt.Fprintf(&sb, "mixlog%d,job=mix message=\"%s\" %d\n", req, msg, tns)
				exp = append(exp, Expect{Table: "samples_v3", Marker: msg,
					Cols: map[string]any{"string": msg, "timestamp_ns": tns, "value": float64(0), "type": uint8(1)}})
			} else {
				val := float64(req) + float64(i) + 0.25
				fmt.Fprintf(&sb, "mixcpu%d,job=mix usage=%v %d\n", req, val, tns)
				exp = append(exp, Expect{Table: "samples_v3", Marker: fmt.Sprintf("t%d/", tns), Prefix: true,
					Cols: map[string]any{"string": "", "timestamp_ns": tns, "value": val, "type": uint8(2)}})
			}
		}
		r := httptest.NewRequest("POST", "/influx/api/v2/write", strings.NewReader(sb.String()))
		r.Header.Set("Content-Type", "text/plain")
		return r, exp
	case "otlp":
		bulk := ""
		if big {
			n += 7
			bulk = strings.Repeat("s", 200*1024) // trace_state: in the stored payload, in no marker
		}
		rs := &tracepb.ResourceSpans{Resource: &resourcepb.Resource{Attributes: []*commonpb.KeyValue{otlpStr("service.name", fmt.Sprintf("os%d", req))}}}
		ss := &tracepb.ScopeSpans{Scope: &commonpb.InstrumentationScope{Name: "inssvc"}}
		for i := 0; i < n; i++ {
			tr, sp := ids(req, i)
			name := fmt.Sprintf("O%d-%d", req, i)
			start := uint64(BaseNs + int64(req)*1e6 + int64(i)*1000)
			ss.Spans = append(ss.Spans, &tracepb.Span{TraceId: tr, SpanId: sp, Name: name, Kind: tracepb.Span_SPAN_KIND_SERVER,
				StartTimeUnixNano: start, EndTimeUnixNano: start + uint64(10+i), TraceState: bulk,
				Attributes: []*commonpb.KeyValue{otlpStr("mk", fmt.Sprintf("ov%d-%d", req, i))}})
			h := hex.EncodeToString(sp)
			exp = append(exp, Expect{Table: "tempo_traces", Marker: h + "/" + name, Cols: map[string]any{
				"trace_id": string(tr), "span_id": string(sp), "parent_id": "", "name": name, "timestamp_ns": int64(start),
				"duration_ns": int64(10 + i), "service_name": fmt.Sprintf("os%d", req), "payload_type": int8(2)}})
			tag := func(k, v string) {
				exp = append(exp, Expect{Table: "tempo_traces_attrs_gin", Marker: h + "/" + k + "=" + v, Cols: map[string]any{
					"key": k, "val": v, "trace_id": string(tr), "span_id": string(sp), "timestamp_ns": int64(start), "duration": int64(10 + i)}})
			}
			tag("name", name)
			tag("mk", fmt.Sprintf("ov%d-%d", req, i))
			tag("service.name", fmt.Sprintf("os%d", req))
		}
		rs.ScopeSpans = []*tracepb.ScopeSpans{ss}
		raw, _ := proto.Marshal(&tracepb.TracesData{ResourceSpans: []*tracepb.ResourceSpans{rs}})
		r := httptest.NewRequest("POST", "/v1/traces", bytes.NewReader(raw))
		r.Header.Set("Content-Type", "application/x-protobuf")
		return r, exp
	case "profile":
		p := &profile.Profile{
			SampleType: []*profile.ValueType{{Type: "cpu", Unit: "nanoseconds"}},
			PeriodType: &profile.ValueType{Type: "cpu", Unit: "nanoseconds"},
			Period:     10,
		}
		fn := &profile.Function{ID: 1, Name: fmt.Sprintf("fn%d", req)}
		loc := &profile.Location{ID: 1, Line: []profile.Line{{Function: fn}}}
		p.Function = []*profile.Function{fn}
		p.Location = []*profile.Location{loc}
		for i := 0; i < n+1; i++ {
			p.Sample = append(p.Sample, &profile.Sample{Location: []*profile.Location{loc}, Value: []int64{int64(req) + int64(i)}})
		}
		var pb bytes.Buffer
		_ = p.WriteUncompressed(&pb)
		var gz bytes.Buffer
		zw := gzip.NewWriter(&gz)
		_, _ = zw.Write(pb.Bytes())
		_ = zw.Close()
		var body bytes.Buffer
		mw := multipart.NewWriter(&body)
		fw, _ := mw.CreateFormFile("profile", "profile.pprof")
		_, _ = fw.Write(gz.Bytes())
		_ = mw.Close()
		svc := fmt.Sprintf("G%d", req)
		name := svc + fmt.Sprintf("{k=v%d}", req)
		if big {
			// parserDoer.onProfile flushes when the accounted size exceeds 1 MiB; the size counts
			// the label strings of the name parameter
			name = svc + "{k=" + strings.Repeat("v", 1024*1024+64) + "}"
		}
		from := (BaseNs + int64(req)*1e6) / 1e9
		q := url.Values{"from": {fmt.Sprint(from)}, "until": {fmt.Sprint(from + 10)}, "name": {name}}
		r := httptest.NewRequest("POST", "/ingest?"+q.Encode(), &body)
		r.Header.Set("Content-Type", mw.FormDataContentType())
		pc := map[string]any{"service_name": svc, "type": "process_cpu", "period_type": "cpu", "period_unit": "nanoseconds",
			"timestamp_ns": uint64(from) * 1e9, "duration_ns": uint64(10) * 1e9,
			"sample_types_units": []any{fakechTuple("cpu", "nanoseconds")}}
		if !big {
			pc["tags"] = []any{fakechTuple("k", fmt.Sprintf("v%d", req))}
		}
		exp = append(exp, Expect{Table: "profiles_input", Marker: svc + "/process_cpu/", Prefix: true, Cols: pc})
		return r, exp
	}
	return nil, nil
}

package inssvc

import (
	"net/http"
	"sync"
	"time"

	"pgregory.net/rapid"

	"qrynverif/fakech"
)

// Stall is the one wall-clock dependent case class ("long stall", thorough tier only): in a
// single harness several pushes on disjoint services are queued, their INSERTs are started
// and REALLY held for HoldMs (31-35 s of wall time, beyond any per-attempt waiting bound an
// implementation might use), a second push of each protocol arrives while the first is
// stalled, then everything is let through. All stalls run concurrently, so a case costs
// about 35 s once. Oracle unchanged (C02: no row twice in a block, no part in a second
// successful block, answers match block outcomes).
type Stall struct {
	Cfg   Config     `json:"cfg"`
	Holds []StallOne `json:"holds"`
}

// StallOne is one stalled protocol.
type StallOne struct {
	Proto  string `json:"proto"`
	HoldMs int    `json:"hold_ms"`
	Rows   int    `json:"rows"`
}

// GenStall draws a stall case: one protocol per group of services.
func GenStall(rt *rapid.T) Stall {
	s := Stall{}
	s.Cfg.Workers = 1
	s.Cfg.RetryAttempts = rapid.SampledFrom([]int{3, 2, 1000}).Draw(rt, "retries")
	s.Cfg.MaxQueueSize = rapid.SampledFrom([]int64{0, 1 << 30}).Draw(rt, "queue")
	s.Cfg.Bernstein = rapid.Bool().Draw(rt, "bernstein")
	groups := [][]string{{"loki", "prom", "mixed", "cf"}, {"zipkin", "otlp", "zipkin-nd"}, {"profile"}}
	for _, g := range groups {
		s.Holds = append(s.Holds, StallOne{
			Proto:  rapid.SampledFrom(g).Draw(rt, "proto"),
			HoldMs: rapid.IntRange(31000, 35000).Draw(rt, "hold_ms"),
			Rows:   rapid.IntRange(1, 5).Draw(rt, "rows"),
		})
	}
	return s
}

// RunStall executes a stall case. scale < 1 shortens the holds (development only).
func RunStall(s Stall, scale float64) *Trace {
	hs := New(s.Cfg)
	defer hs.Close()
	tr := &Trace{H: History{Cfg: s.Cfg}, Stopped: map[Kind]bool{}}
	hs.DB.SetDefault(fakech.Step{Kind: fakech.Gate})
	var httpWG sync.WaitGroup
	push := func(proto string, id, rows int) {
		hr, exp := BuildHTTP(proto, id, 1+rows%3, rows, false)
		rq := &Request{ID: id, HTTP: true, Proto: proto, Expect: exp}
		tr.Reqs = append(tr.Reqs, rq)
		httpWG.Add(1)
		go func(hr *http.Request, rq *Request) {
			defer httpWG.Done()
			resp := hs.Serve(hr)
			t := hs.DB.Tick()
			rq.mu.Lock()
			rq.Done, rq.Status, rq.HeaderWrites, rq.DoneTick, rq.Body = true, resp.Status, resp.HeaderWrites, t, resp.Body
			rq.mu.Unlock()
		}(hr, rq)
	}
	settle := func() { time.Sleep(20 * time.Millisecond) }
	// request A of every protocol, flushed: its INSERTs are now in flight (held)
	for i, h := range s.Holds {
		push(h.Proto, 2*i+1, h.Rows)
	}
	settle()
	for _, h := range s.Holds {
		for _, k := range KindsOfProto(h.Proto) {
			hs.Svc[k].PlanFlush()
		}
	}
	settle()
	// request B arrives while A is stalled: it waits in the open buffers
	for i, h := range s.Holds {
		push(h.Proto, 2*i+2, h.Rows+1)
	}
	settle()
	start := time.Now()
	var relWG sync.WaitGroup
	for _, h := range s.Holds {
		h := h
		relWG.Add(1)
		go func() {
			defer relWG.Done()
			d := time.Duration(float64(h.HoldMs)*scale) * time.Millisecond
			time.Sleep(time.Until(start.Add(d)))
			want := map[Kind]bool{}
			for _, k := range KindsOfProto(h.Proto) {
				want[k] = true
			}
			for _, c := range hs.DB.Gated() {
				if want[KindOfCall(c)] {
					hs.DB.Release(c, nil)
				}
			}
		}()
	}
	relWG.Wait()
	// drain: everything is accepted and flushed until every request has its answer
	hs.DB.SetDefault(fakech.Step{Kind: fakech.OK})
	httpDone := make(chan struct{})
	go func() { httpWG.Wait(); close(httpDone) }()
	deadline := time.Now().Add(30 * time.Second)
	for {
		hs.DB.ReleaseAll(nil)
		for _, k := range Kinds {
			hs.Svc[k].PlanFlush()
		}
		time.Sleep(500 * time.Microsecond)
		all := false
		select {
		case <-httpDone:
			all = true
		default:
		}
		if all && hs.Rec.Settled(hs.Cfg.Attempts()) {
			time.Sleep(time.Millisecond)
			if hs.Rec.Settled(hs.Cfg.Attempts()) {
				break
			}
			continue
		}
		if time.Now().After(deadline) {
			tr.Unanswered = "requests without an answer 30 s after the stalled INSERTs were let through"
			break
		}
	}
	hs.Close()
	tr.NotQuiet = hs.NotQuiet
	tr.Calls = hs.DB.Calls()
	tr.Events = hs.DB.Events()
	tr.Subs = hs.Rec.Subs()
	return tr
}

package inssvc

import (
	"sort"
	"strings"

	"qrynverif/fakech"
)

// Occ is one occurrence of a row marker in an INSERT block.
type Occ struct {
	Call *fakech.Call
	Row  int
}

// Part is one request part: the same model.* struct submitted once or, when the handler
// retried it, several times (Subs in submission order).
type Part struct {
	Kind  Kind
	Req   any
	Subs  []*Submission
	ReqID int // logical request (0 = could not be attributed)
	// Blocks are the INSERT blocks that contain at least one row of the part, in start order.
	Blocks []*fakech.Call
}

// Analysis indexes a trace for the oracles.
type Analysis struct {
	T        *Trace
	Rows     map[*fakech.Call][]Row // whole rows of every block
	ByMarker map[string][]Occ       // "table|marker" -> occurrences in block start order
	Parts    []*Part
	PartOf   map[*Submission]*Part
	ReqByID  map[int]*Request
	keys     []string // sorted keys of ByMarker (built on demand)
}

func key(table, marker string) string { return table + "|" + marker }

// Analyse builds the indexes.
func Analyse(tr *Trace) *Analysis {
	a := &Analysis{T: tr, Rows: map[*fakech.Call][]Row{}, ByMarker: map[string][]Occ{},
		PartOf: map[*Submission]*Part{}, ReqByID: map[int]*Request{}}
	calls := append([]*fakech.Call(nil), tr.Calls...)
	sort.Slice(calls, func(i, j int) bool { return calls[i].Seq < calls[j].Seq })
	for _, c := range calls {
		rows := BlockRows(c)
		a.Rows[c] = rows
		for i, r := range rows {
			k := key(r.Table, r.Marker)
			a.ByMarker[k] = append(a.ByMarker[k], Occ{c, i})
		}
	}
	for _, rq := range tr.Reqs {
		a.ReqByID[rq.ID] = rq
	}
	// attribute parts to http requests through the markers the generator chose
	exact := map[string]int{}
	type pf struct {
		table, prefix string
		id            int
	}
	var prefixes []pf
	for _, rq := range tr.Reqs {
		for _, e := range rq.Expect {
			if e.Prefix {
				prefixes = append(prefixes, pf{e.Table, e.Marker, rq.ID})
			} else {
				exact[key(e.Table, e.Marker)] = rq.ID
			}
		}
	}
	byReq := map[any]*Part{}
	subs := append([]*Submission(nil), tr.Subs...)
	sort.Slice(subs, func(i, j int) bool { return subs[i].Tick < subs[j].Tick })
	for _, s := range subs {
		p := byReq[s.Req]
		if p == nil {
			p = &Part{Kind: s.Kind, Req: s.Req, ReqID: s.Tag}
			byReq[s.Req] = p
			a.Parts = append(a.Parts, p)
			if p.ReqID == 0 {
				for _, r := range s.Rows {
					if id, ok := exact[key(r.Table, r.Marker)]; ok {
						p.ReqID = id
						break
					}
					for _, x := range prefixes {
						if x.table == r.Table && strings.HasPrefix(r.Marker, x.prefix) {
							p.ReqID = x.id
							break
						}
					}
					if p.ReqID != 0 {
						break
					}
				}
			}
			seen := map[*fakech.Call]bool{}
			for _, r := range s.Rows {
				for _, o := range a.ByMarker[key(r.Table, r.Marker)] {
					if !seen[o.Call] {
						seen[o.Call] = true
						p.Blocks = append(p.Blocks, o.Call)
					}
				}
			}
			sort.Slice(p.Blocks, func(i, j int) bool { return p.Blocks[i].Seq < p.Blocks[j].Seq })
		}
		if s.Tag != 0 && p.ReqID == 0 {
			p.ReqID = s.Tag
		}
		p.Subs = append(p.Subs, s)
		a.PartOf[s] = p
	}
	return a
}

// BlockOf returns the block that carried submission s: the k-th block holding rows of its
// part for the k-th submission of the part (a retry is only submitted after the previous
// attempt was answered, i.e. after its block was sent). nil if there is none.
func (a *Analysis) BlockOf(s *Submission) *fakech.Call {
	p := a.PartOf[s]
	if p == nil {
		return nil
	}
	for i, x := range p.Subs {
		if x == s {
			if i < len(p.Blocks) {
				return p.Blocks[i]
			}
			return nil
		}
	}
	return nil
}

// Find looks an expectation up in the successful blocks that ended before tick (tick <= 0:
// any time). It returns the occurrence or nil.
func (a *Analysis) Find(e Expect, tick int64) *Occ {
	match := func(occs []Occ) *Occ {
		for i := range occs {
			c := occs[i].Call
			if c.OKResult() && (tick <= 0 || c.EndSeq < tick) {
				return &occs[i]
			}
		}
		return nil
	}
	if !e.Prefix {
		return match(a.ByMarker[key(e.Table, e.Marker)])
	}
	return match(a.FindAll(e))
}

// Chunked tells, per HTTP request id, how many insert requests (parts) the parser cut the
// body into for the service that got most, and whether any of those parts was retried.
func (a *Analysis) Chunked() (parts map[int]int, retried map[int]bool) {
	parts, retried = map[int]int{}, map[int]bool{}
	per := map[int]map[Kind]int{}
	for _, p := range a.Parts {
		rq := a.ReqByID[p.ReqID]
		if rq == nil || !rq.HTTP || len(p.Subs) == 0 || len(p.Subs[0].Rows) == 0 {
			continue
		}
		if per[p.ReqID] == nil {
			per[p.ReqID] = map[Kind]int{}
		}
		per[p.ReqID][p.Kind]++
		if len(p.Subs) > 1 {
			retried[p.ReqID] = true
		}
	}
	for id, m := range per {
		for _, n := range m {
			if n > parts[id] {
				parts[id] = n
			}
		}
	}
	return
}

// FindAll returns every occurrence (in any block, whatever its outcome) of the row an
// expectation describes.
func (a *Analysis) FindAll(e Expect) []Occ {
	if !e.Prefix {
		return a.ByMarker[key(e.Table, e.Marker)]
	}
	if a.keys == nil {
		a.keys = make([]string, 0, len(a.ByMarker))
		for k := range a.ByMarker {
			a.keys = append(a.keys, k)
		}
		sort.Strings(a.keys)
	}
	pre := key(e.Table, e.Marker)
	var out []Occ
	for i := sort.SearchStrings(a.keys, pre); i < len(a.keys) && strings.HasPrefix(a.keys[i], pre); i++ {
		out = append(out, a.ByMarker[a.keys[i]]...)
	}
	return out
}

package inssvc

import (
	"encoding/hex"
	"fmt"
	"math"
	"reflect"
	"sort"
	"strings"
	"time"

	"github.com/ClickHouse/ch-go/proto"
	"github.com/metrico/qryn/writer/model"

	"qrynverif/fakech"
)

// Row is one logical table row: a marker that identifies it and the value every column
// must carry. Values use the decoded representation of fakech (string, uint64, int64,
// float64, uint8, int8, fakech.Date, []any, fakech.Tuple).
type Row struct {
	Table  string
	Marker string
	Cols   map[string]any
}

// Table name each service inserts into (single node, no cluster).
var TableOf = map[Kind]string{
	Samples: "samples_v3", Metrics: "samples_v3", Series: "time_series",
	Spans: "tempo_traces", Tags: "tempo_traces_attrs_gin", Profile: "profiles_input",
}

func dateOf(t time.Time) fakech.Date { return fakech.Date(proto.ToDate(t)) }

// marker rules (must agree between ExtractRows and BlockRows):
//
//	samples_v3             string (MarkerOfLine) if non-empty, else "t<timestamp_ns>/<fingerprint>"
//	time_series            labels + "#" + date + "#" + type
//	tempo_traces           hex(span_id) + "/" + name
//	tempo_traces_attrs_gin hex(span_id) + "/" + key + "=" + val
//	profiles_input         service_name + "/" + type + "/" + timestamp_ns
func markerOf(table string, c map[string]any) string {
	switch table {
	case "samples_v3":
		if s, _ := c["string"].(string); s != "" {
			return MarkerOfLine(s)
		}
		return fmt.Sprintf("t%v/%v", c["timestamp_ns"], c["fingerprint"])
	case "time_series":
		return fmt.Sprintf("%v#%v#%v", c["labels"], c["date"], c["type"])
	case "tempo_traces":
		s, _ := c["span_id"].(string)
		return fmt.Sprintf("%s/%v", hex.EncodeToString([]byte(s)), c["name"])
	case "tempo_traces_attrs_gin":
		s, _ := c["span_id"].(string)
		return fmt.Sprintf("%s/%v=%v", hex.EncodeToString([]byte(s)), c["key"], c["val"])
	case "profiles_input":
		return fmt.Sprintf("%v/%v/%v", c["service_name"], c["type"], c["timestamp_ns"])
	}
	return fmt.Sprint(c)
}

// MarkerOfLine is the marker of a log line: the line itself, cut to 80 bytes plus its
// length for long lines (generated lines are unique in their first bytes).
func MarkerOfLine(s string) string {
	if len(s) <= 80 {
		return s
	}
	return fmt.Sprintf("%s…(%d bytes)", s[:80], len(s))
}

func lens(ls ...int) (int, bool) {
	for _, l := range ls {
		if l != ls[0] {
			return ls[0], false
		}
	}
	if len(ls) == 0 {
		return 0, true
	}
	return ls[0], true
}

// ExtractRows turns a submitted model.* request into logical rows. ragged is non-empty
// when the per-row arrays of the request do not all have the same length (then rows holds
// the rows that are whole in every array).
func ExtractRows(k Kind, req any) (rows []Row, ragged string) {
	table := TableOf[k]
	mk := func(c map[string]any) Row { return Row{Table: table, Marker: markerOf(table, c), Cols: c} }
	minOf := func(ls ...int) int {
		m := ls[0]
		for _, l := range ls {
			if l < m {
				m = l
			}
		}
		return m
	}
	switch r := req.(type) {
	case *model.TimeSamplesData:
		if r == nil {
			return nil, ""
		}
		if k == Metrics {
			ls := []int{len(r.MType), len(r.MFingerprint), len(r.MTimestampNS), len(r.MValue)}
			if _, ok := lens(ls...); !ok {
				ragged = fmt.Sprintf("TimeSamplesData arrays type/fingerprint/timestamp_ns/value have lengths %v", ls)
			}
			for i := 0; i < minOf(ls...); i++ {
				rows = append(rows, mk(map[string]any{"type": r.MType[i], "fingerprint": r.MFingerprint[i],
					"timestamp_ns": r.MTimestampNS[i], "value": r.MValue[i]}))
			}
			return
		}
		ls := []int{len(r.MType), len(r.MFingerprint), len(r.MTimestampNS), len(r.MMessage), len(r.MValue)}
		if _, ok := lens(ls...); !ok {
			ragged = fmt.Sprintf("TimeSamplesData arrays type/fingerprint/timestamp_ns/string/value have lengths %v", ls)
		}
		for i := 0; i < minOf(ls...); i++ {
			rows = append(rows, mk(map[string]any{"type": r.MType[i], "fingerprint": r.MFingerprint[i],
				"timestamp_ns": r.MTimestampNS[i], "string": r.MMessage[i], "value": r.MValue[i]}))
		}
	case *model.TimeSeriesData:
		if r == nil {
			return nil, ""
		}
		ls := []int{len(r.MType), len(r.MDate), len(r.MFingerprint), len(r.MLabels)}
		if _, ok := lens(ls...); !ok {
			ragged = fmt.Sprintf("TimeSeriesData arrays type/date/fingerprint/labels have lengths %v", ls)
		}
		for i := 0; i < minOf(ls...); i++ {
			rows = append(rows, mk(map[string]any{"type": r.MType[i], "date": dateOf(r.MDate[i]),
				"fingerprint": r.MFingerprint[i], "labels": r.MLabels[i]}))
		}
	case *model.TempoSamples:
		if r == nil {
			return nil, ""
		}
		ls := []int{len(r.MTraceId), len(r.MSpanId), len(r.MParentId), len(r.MName), len(r.MTimestampNs),
			len(r.MDurationNs), len(r.MServiceName), len(r.MPayloadType), len(r.MPayload)}
		if _, ok := lens(ls...); !ok {
			ragged = fmt.Sprintf("TempoSamples arrays have lengths %v", ls)
		}
		for i := 0; i < minOf(ls...); i++ {
			rows = append(rows, mk(map[string]any{"trace_id": string(r.MTraceId[i]), "span_id": string(r.MSpanId[i]),
				"parent_id": r.MParentId[i], "name": r.MName[i], "timestamp_ns": r.MTimestampNs[i],
				"duration_ns": r.MDurationNs[i], "service_name": r.MServiceName[i],
				"payload_type": r.MPayloadType[i], "payload": string(r.MPayload[i])}))
		}
	case *model.TempoTag:
		if r == nil {
			return nil, ""
		}
		ls := []int{len(r.MDate), len(r.MKey), len(r.MVal), len(r.MTraceId), len(r.MSpanId), len(r.MTimestampNs), len(r.MDurationNs)}
		if _, ok := lens(ls...); !ok {
			ragged = fmt.Sprintf("TempoTag arrays have lengths %v", ls)
		}
		for i := 0; i < minOf(ls...); i++ {
			rows = append(rows, mk(map[string]any{"date": dateOf(r.MDate[i]), "key": r.MKey[i], "val": r.MVal[i],
				"trace_id": string(r.MTraceId[i]), "span_id": string(r.MSpanId[i]),
				"timestamp_ns": r.MTimestampNs[i], "duration": r.MDurationNs[i]}))
		}
	case *model.ProfileData:
		if r == nil {
			return nil, ""
		}
		// one request is one profile: the append routine adds exactly one value to each array
		// column (writer/service/impl/profileInsertService.go), so the scalar arrays must hold one
		// value each
		ls := []int{len(r.TimestampNs), len(r.Ptype), len(r.ServiceName), len(r.PeriodType), len(r.PeriodUnit),
			len(r.DurationNs), len(r.PayloadType), len(r.Payload)}
		n, ok := lens(ls...)
		if !ok || n != 1 {
			ragged = fmt.Sprintf("ProfileData scalar arrays have lengths %v, the array columns always get one row", ls)
		}
		if minOf(ls...) >= 1 {
			rows = append(rows, mk(map[string]any{
				"timestamp_ns": r.TimestampNs[0], "type": r.Ptype[0], "service_name": r.ServiceName[0],
				"sample_types_units": strStrs(r.SamplesTypesUnits), "period_type": r.PeriodType[0],
				"period_unit": r.PeriodUnit[0], "tags": strStrs(r.Tags), "duration_ns": r.DurationNs[0],
				"payload_type": r.PayloadType[0], "payload": string(r.Payload[0]),
				"values_agg": valuesAgg(r.ValuesAgg), "tree": trees(r.Tree), "functions": functions(r.Function)}))
		}
	}
	return
}

func strStrs(v []model.StrStr) []any {
	out := make([]any, len(v))
	for i, x := range v {
		out[i] = fakech.Tuple{x.Str1, x.Str2}
	}
	return out
}

func valuesAgg(v []model.ValuesAgg) []any {
	out := make([]any, len(v))
	for i, x := range v {
		out[i] = fakech.Tuple{x.ValueStr, x.ValueInt64, x.ValueInt32}
	}
	return out
}

func functions(v []model.Function) []any {
	out := make([]any, len(v))
	for i, x := range v {
		out[i] = fakech.Tuple{x.ValueInt64, x.ValueStr}
	}
	return out
}

func trees(v []model.TreeRootStructure) []any {
	out := make([]any, len(v))
	for i, x := range v {
		vals := make([]any, len(x.ValueArrTuple))
		for j, y := range x.ValueArrTuple {
			vals[j] = fakech.Tuple{y.ValueStr, y.FirstValueInt64, y.SecondValueInt64}
		}
		out[i] = fakech.Tuple{x.Field1, x.Field2, x.Field3, vals}
	}
	return out
}

// BlockRows reads the whole rows of a recorded INSERT block (rows present in every column).
func BlockRows(c *fakech.Call) []Row {
	n := c.MinRows()
	out := make([]Row, 0, n)
	for i := 0; i < n; i++ {
		cols := c.Row(i)
		out = append(out, Row{Table: c.Table, Marker: markerOf(c.Table, cols), Cols: cols})
	}
	return out
}

// SameValue compares two decoded values (floats bit-wise, so NaN equals NaN and -0 != 0).
func SameValue(a, b any) bool {
	switch x := a.(type) {
	case float64:
		y, ok := b.(float64)
		return ok && math.Float64bits(x) == math.Float64bits(y)
	case []any:
		y, ok := b.([]any)
		if !ok || len(x) != len(y) {
			return false
		}
		for i := range x {
			if !SameValue(x[i], y[i]) {
				return false
			}
		}
		return true
	case fakech.Tuple:
		y, ok := b.(fakech.Tuple)
		if !ok || len(x) != len(y) {
			return false
		}
		for i := range x {
			if !SameValue(x[i], y[i]) {
				return false
			}
		}
		return true
	}
	return reflect.DeepEqual(a, b)
}

// DiffRow reports the columns in which got differs from want ("" if identical). Columns of
// want holding nil are not compared.
func DiffRow(want, got Row) string {
	var bad []string
	for k, w := range want.Cols {
		if w == nil {
			continue
		}
		g, ok := got.Cols[k]
		if !ok {
			bad = append(bad, fmt.Sprintf("%s: missing", k))
			continue
		}
		if !SameValue(w, g) {
			bad = append(bad, fmt.Sprintf("%s: submitted %s, in block %s", k, short(w), short(g)))
		}
	}
	for k := range got.Cols {
		if _, ok := want.Cols[k]; !ok {
			bad = append(bad, fmt.Sprintf("%s: not a submitted column", k))
		}
	}
	sort.Strings(bad)
	return strings.Join(bad, "; ")
}

func short(v any) string {
	s := fmt.Sprintf("%#v", v)
	if len(s) > 120 {
		s = s[:120] + "…"
	}
	return s
}

package inssvc

import (
	"fmt"
	"net/http"
	"runtime"
	"strings"
	"sync"
	"time"

	"pgregory.net/rapid"

	"qrynverif/fakech"
)

// Action is one step of a gated history (plain data).
//
//	push    direct svc.Request of a hand-built request (Kind, Rows, Wide)
//	http    a request through the real router/handler in its own goroutine (Proto, Rows, Streams, Big)
//	flush   PlanFlush of one service (Kind)
//	release end the oldest gated INSERT of one service with success or an error (Kind, OK, Err = error class)
//	refuse  make the next N reconnects fail (N, Err = error class)
//	stop    stop one service (Kind); only generated as the last action
type Action struct {
	Op      string  `json:"op"`
	Kind    Kind    `json:"kind,omitempty"`
	Proto   string  `json:"proto,omitempty"`
	Rows    int     `json:"rows,omitempty"`
	Streams int     `json:"streams,omitempty"`
	Wide    int     `json:"wide,omitempty"`
	Big     bool    `json:"big,omitempty"`
	Err     string  `json:"err,omitempty"`  // release with an error / refuse: error class (fakech.ErrClasses); "" = plain
	Hdr     Headers `json:"hdr,omitempty"`  // http: request headers the middleware interprets
	Tail    bool    `json:"tail,omitempty"` // http: the generator appended a flush / fail / flush / succeed tail for its services
	OK      bool    `json:"ok,omitempty"`
	N       int     `json:"n,omitempty"`
}

// History is one generated case of the gated driver.
type History struct {
	Cfg     Config   `json:"cfg"`
	Actions []Action `json:"actions"`
}

// GenOpts shapes GenHistory.
type GenOpts struct {
	MaxActions int
	HTTP       bool // allow http actions
	BigRows    bool // allow the > 10 000 row request and the big protocol variants
	Refuse     bool // allow refused reconnects (each costs one second of wall time)
}

// GenHistory draws a history. Push interval is one hour: only size overflow and PlanFlush
// trigger flushes, both chosen here.
func GenHistory(rt *rapid.T, o GenOpts) History {
	h := History{}
	h.Cfg.Workers = rapid.SampledFrom([]int{1, 1, 1, 2, 3, 4, 8}).Draw(rt, "workers")
	DrawRetries(rt, &h.Cfg)
	h.Cfg.AsyncNode = rapid.IntRange(0, 2).Draw(rt, "async_node") == 1
	h.Cfg.Bernstein = rapid.Bool().Draw(rt, "bernstein")
	useHTTP := o.HTTP && rapid.IntRange(0, 9).Draw(rt, "use_http") < 4
	if useHTTP {
		// with a tiny queue the overflow flush of one service races with the handler's
		// concurrent submission to its sibling service; the history would still be decided by
		// the invariants but the batching would not be chosen by the case any more
		h.Cfg.MaxQueueSize = rapid.SampledFrom([]int64{0, 0, 1 << 30}).Draw(rt, "queue")
	} else {
		h.Cfg.MaxQueueSize = rapid.SampledFrom([]int64{0, 1, 60, 200, 2000, 1 << 30}).Draw(rt, "queue")
	}
	if (useHTTP || h.Cfg.Workers > 1) && rapid.IntRange(0, 3).Draw(rt, "interval") == 2 {
		// a real 1 ms timer next to the forced flushes: nothing is predicted in these modes
		h.Cfg.IntervalMs = 1
	}
	n := o.MaxActions
	// a history concentrates on a few services so that requests meet in the same batches
	focus := rapid.SliceOfNDistinct(rapid.SampledFrom(Kinds), 1, len(Kinds), func(k Kind) Kind { return k }).Draw(rt, "focus")
	minLen := rapid.SampledFrom([]int{1, 6, 12}).Draw(rt, "min_len")
	if minLen > n {
		minLen = n
	}
	// rapid favours small indexes: the table starts with the simplest action (the shrink
	// target) and repeats entries to set the weights; rare actions sit in the middle
	ops := []string{"push", "push", "release-err", "flush", "release-ok", "push", "release-err", "flush", "push", "release-ok", "flush", "release-err"}
	if useHTTP {
		ops = append(ops, "http", "http", "push", "http", "release-ok", "http")
	}
	if o.Refuse {
		ops = append(ops[:7:7], append([]string{"refuse"}, ops[7:]...)...)
	}
	rare := func(label string, oneIn int) bool { // true about once in oneIn draws
		return rapid.IntRange(0, 2*oneIn-1).Draw(rt, label) == oneIn
	}
	var protos []string
	for _, k := range focus {
		switch k {
		case Samples, Series:
			protos = append(protos, "loki", "prom", "mixed", "cf")
		case Metrics:
			protos = append(protos, "prom")
		case Spans, Tags:
			protos = append(protos, "zipkin", "otlp", "zipkin-nd")
		case Profile:
			protos = append(protos, "profile")
		}
	}
	genAction := rapid.Custom(func(rt *rapid.T) Action {
		op := rapid.SampledFrom(ops).Draw(rt, "op")
		switch op {
		case "push":
			a := Action{Op: "push", Kind: rapid.SampledFrom(focus).Draw(rt, "kind")}
			a.Rows = rapid.SampledFrom([]int{1, 0, 2, 1, 3, 5, 8}).Draw(rt, "rows")
			if o.BigRows && rare("huge", 30) {
				a.Rows = 10001 + rapid.IntRange(0, 500).Draw(rt, "hugeRows")
			}
			if a.Kind == Profile && a.Rows == 0 {
				a.Rows = 1
			}
			a.Wide = rapid.SampledFrom([]int{0, 0, 5, 40}).Draw(rt, "wide")
			return a
		case "http":
			a := Action{Op: "http", Proto: rapid.SampledFrom(protos).Draw(rt, "proto")}
			a.Rows = rapid.IntRange(1, 6).Draw(rt, "rows")
			a.Streams = rapid.IntRange(1, 3).Draw(rt, "streams")
			a.Hdr = DrawHeaders(rt)
			if o.BigRows {
				// prom: one series beyond the decoder's 1000-point flush; profile: labels beyond 1 MiB;
				// loki / zipkin / otlp: a body that crosses the parser's 1 MiB chunk threshold and so
				// becomes >= 2 insert requests per service
				a.Big = rare("big", 3)
			}
			if t := rapid.IntRange(0, 2).Draw(rt, "tail"); t == 2 || (a.Big && t == 1) {
				a.Tail = true
				a.Err = rapid.SampledFrom(fakech.ErrClasses).Draw(rt, "err")
			}
			return a
		case "release-ok", "release-err":
			a := Action{Op: "release", Kind: rapid.SampledFrom(focus).Draw(rt, "kind"), OK: op == "release-ok"}
			if !a.OK {
				a.Err = rapid.SampledFrom(fakech.ErrClasses).Draw(rt, "err")
			}
			return a
		case "refuse":
			if rare("refuse", 6) {
				return Action{Op: "refuse", N: 1, Err: rapid.SampledFrom([]string{"refused", "dns-timeout", "timeout", "plain"}).Draw(rt, "err")}
			}
		}
		return Action{Op: "flush", Kind: rapid.SampledFrom(focus).Draw(rt, "kind")}
	})
	refused := 0
	for _, a := range rapid.SliceOfN(genAction, minLen, n).Draw(rt, "actions") {
		if a.Op == "refuse" {
			if refused >= 1 {
				continue // each refusal costs a second of wall time
			}
			refused++
		}
		h.Actions = append(h.Actions, a)
		if a.Op == "push" && a.Rows <= 8 {
			// second and later requests appended into non-empty columns are where offset bugs
			// live: every other push is followed by one or two more of the same service
			for extra := (len(h.Actions) + a.Rows + a.Wide) % 4; extra >= 2; extra-- {
				b := a
				b.Rows = 1 + (a.Rows+extra)%5
				b.Wide = []int{0, 5, 40}[(a.Wide+extra)%3]
				h.Actions = append(h.Actions, b)
			}
		}
		if a.Op == "http" && a.Tail {
			// the push is queued; its INSERT fails once (retried parts are re-submitted while later
			// chunks of the same body sit in the queue), then everything is let through
			h.Actions = append(h.Actions, tailOf(a)...)
		}
	}
	if rare("stop", 12) {
		h.Actions = append(h.Actions, Action{Op: "stop", Kind: rapid.SampledFrom(focus).Draw(rt, "kind")})
	}
	return h
}

// DrawHeaders draws the interpreted request headers, each absent / valid / junk.
func DrawHeaders(rt *rapid.T) Headers {
	return Headers{
		Async: rapid.SampledFrom(HeaderChoices.Async).Draw(rt, "hdr_async"),
		TTL:   rapid.SampledFrom(HeaderChoices.TTL).Draw(rt, "hdr_ttl"),
		Meta:  rapid.SampledFrom(HeaderChoices.Meta).Draw(rt, "hdr_meta"),
		DSN:   rapid.SampledFrom(HeaderChoices.DSN).Draw(rt, "hdr_dsn"),
		Enc:   rapid.SampledFrom(HeaderChoices.Enc).Draw(rt, "hdr_enc"),
	}
}

// DrawRetries draws system_settings.retry_attempts over its whole range: the usual 1..4,
// the boundary 0 ("no retries": the unchanged doPush never calls the service, retry.Do
// returns an empty but non-nil error list and the handler answers 500) and a very large
// count (with retry delay 0 a failing part is re-submitted until it succeeds).
func DrawRetries(rt *rapid.T, c *Config) {
	switch v := rapid.SampledFrom([]int{1, 2, 0, 3, 1000, 4, 0, 1}).Draw(rt, "retries"); v {
	case 0:
		c.ZeroAttempts = true
		c.RetryAttempts = 1
	default:
		c.RetryAttempts = v
	}
}

// KindsOfProto lists the services an HTTP push of a protocol feeds; the first one is the
// service whose flush asks for the flush of the second (OnBeforeInsert).
func KindsOfProto(proto string) []Kind {
	switch proto {
	case "loki", "prom", "mixed", "cf":
		return []Kind{Samples, Series}
	case "zipkin", "otlp", "zipkin-nd":
		return []Kind{Spans, Tags}
	case "profile":
		return []Kind{Profile}
	}
	return nil
}

func tailOf(a Action) []Action {
	ks := KindsOfProto(a.Proto)
	if len(ks) == 0 {
		return nil
	}
	out := []Action{{Op: "flush", Kind: ks[0]}, {Op: "release", Kind: ks[0], Err: a.Err}}
	for _, k := range ks[1:] {
		out = append(out, Action{Op: "release", Kind: k, OK: true})
	}
	out = append(out, Action{Op: "flush", Kind: ks[0]}, Action{Op: "release", Kind: ks[0], OK: true})
	for _, k := range ks[1:] {
		out = append(out, Action{Op: "flush", Kind: k}, Action{Op: "release", Kind: k, OK: true})
	}
	return out
}

// Request is one logical push of a history.
type Request struct {
	ID     int
	Action int // index of the action that made it
	HTTP   bool
	Proto  string
	Kind   Kind
	Expect []Expect
	Hdr    Headers
	Direct *Submission

	mu           sync.Mutex
	Done         bool
	Status       int
	HeaderWrites int
	DoneTick     int64
	Body         string
}

// Result of an HTTP request (safe snapshot).
func (r *Request) Result() (done bool, status, writes int, tick int64) {
	r.mu.Lock()
	defer r.mu.Unlock()
	return r.Done, r.Status, r.HeaderWrites, r.DoneTick
}

// Trace is everything observed while a history ran.
type Trace struct {
	H       History
	Calls   []*fakech.Call
	Events  []fakech.Event
	Subs    []*Submission
	Reqs    []*Request
	Stopped map[Kind]bool
	// Exact is true when the executor ran with the single-worker model (workers == 1, no
	// http action): then every flush was predicted and Batches holds the predicted
	// composition of every INSERT in the order they were started, per service.
	Exact   bool
	Batches map[Kind][][]*Submission
	// ModelErr: in exact mode, the observation contradicted the model (first mismatch).
	ModelErr string
	// Unanswered: after the final drain (database accepting everything) something had no answer.
	Unanswered string
	Notes      []string
	// NotQuiet: the writer did not become quiescent before shutdown (Harness.Close); the
	// services were left running and the case must be discarded, not judged.
	NotQuiet bool
	Swaps    int // batches started while another request was waiting (non-trivial rule)
}

// KindOfCall tells which service sent an INSERT block.
func KindOfCall(c *fakech.Call) Kind {
	switch c.Table {
	case "time_series":
		return Series
	case "samples_v3":
		if len(c.Columns) == 4 {
			return Metrics
		}
		return Samples
	case "tempo_traces":
		return Spans
	case "tempo_traces_attrs_gin":
		return Tags
	case "profiles_input":
		return Profile
	}
	return ""
}

type mSvc struct {
	open      []*Submission
	openSize  int64
	pending   bool
	inflight  []*Submission
	busy      bool
	connected bool
	maxQ      int64
	before    Kind
	stopped   bool
}

type hmodel struct {
	svc       map[Kind]*mSvc
	refusals  int
	slept     int
	answered  int
	batches   map[Kind][][]*Submission
	gatedWant int
}

func newModel(cfg Config) *hmodel {
	m := &hmodel{svc: map[Kind]*mSvc{}, batches: map[Kind][][]*Submission{}}
	for _, k := range Kinds {
		m.svc[k] = &mSvc{}
	}
	// plugin.CreateStaticServiceRegistry: MaxQueueSize and OnBeforeInsert per service
	for _, k := range []Kind{Samples, Metrics, Spans, Tags} {
		m.svc[k].maxQ = cfg.MaxQueueSize
	}
	m.svc[Samples].before = Series
	m.svc[Metrics].before = Series
	m.svc[Spans].before = Tags
	m.svc[Tags].before = Spans
	return m
}

// advance runs every idle loop that has a flush pending (InsertServiceV2.Run /
// fetchLoopIteration / swapBuffers) until nothing changes.
func (m *hmodel) advance() {
	for changed := true; changed; {
		changed = false
		for _, k := range Kinds {
			s := m.svc[k]
			if s.stopped || s.busy || !s.pending {
				continue
			}
			changed = true
			if !s.connected {
				if m.refusals > 0 {
					m.refusals--
					m.slept++
					continue // "Reconnect in 1s", the flush stays pending
				}
				s.connected = true
			}
			s.pending = false // swapBuffers renews insertCtx first
			if s.openSize == 0 {
				continue
			}
			batch := s.open
			s.open, s.openSize = nil, 0
			if s.before != "" {
				m.svc[s.before].pending = true
			}
			s.inflight, s.busy = batch, true
			m.batches[k] = append(m.batches[k], batch)
		}
	}
}

func (m *hmodel) busyCount() int {
	n := 0
	for _, s := range m.svc {
		if s.busy {
			n++
		}
	}
	return n
}

// RunHistory executes a history against a fresh harness and returns what was observed.
func RunHistory(h History) *Trace {
	hs := New(h.Cfg)
	defer hs.Close()
	tr := &Trace{H: h, Stopped: map[Kind]bool{}}
	exact := h.Cfg.Workers <= 1 && h.Cfg.IntervalMs == 0
	for _, a := range h.Actions {
		if a.Op == "http" {
			exact = false
		}
	}
	tr.Exact = exact
	hs.DB.SetDefault(fakech.Step{Kind: fakech.Gate})
	m := newModel(h.Cfg)
	var httpWG sync.WaitGroup
	fail := func(format string, a ...any) {
		if tr.ModelErr == "" {
			tr.ModelErr = fmt.Sprintf(format, a...)
		}
	}

	settleExact := func(step int) {
		m.advance()
		want := m.busyCount()
		timeout := 15*time.Second + time.Duration(m.slept)*1500*time.Millisecond
		m.slept = 0
		ok := hs.DB.WaitFor(timeout, func(calls []*fakech.Call) bool {
			n := 0
			for _, c := range calls {
				if c.Gated && !c.Done {
					n++
				}
			}
			return n == want
		})
		if !ok {
			var seen []string
			for _, c := range hs.DB.Gated() {
				seen = append(seen, fmt.Sprintf("#%d %s %d rows", c.Seq, KindOfCall(c), c.NRows))
			}
			fail("after action %d (%+v): the model expects %d INSERTs in flight, the database sees %d %v (waited %v)",
				step, h.Actions[step], want, len(seen), seen, timeout)
			return
		}
		dl := time.Now().Add(timeout)
		// every loop must have taken (or still hold) exactly the flush requests the model says
		for {
			bad := ""
			for _, k := range Kinds {
				if m.svc[k].stopped {
					continue
				}
				if p := hs.FlushPending(k); len(p) == 1 && p[0] != m.svc[k].pending {
					bad = fmt.Sprintf("%s: flush requested=%v, model says %v", k, p[0], m.svc[k].pending)
				}
			}
			if bad == "" {
				break
			}
			if time.Now().After(dl) {
				fail("after action %d (%+v): %s", step, h.Actions[step], bad)
				return
			}
			time.Sleep(20 * time.Microsecond)
		}
		if n := len(hs.DB.Gated()); n != want {
			fail("after action %d (%+v): the model expects %d INSERTs in flight, the database sees %d once all loops are idle", step, h.Actions[step], want, n)
			return
		}
		for {
			_, a := hs.Rec.Counts()
			if a == m.answered {
				break
			}
			if a > m.answered {
				fail("after action %d (%+v): %d submissions have an answer, the model expects only %d (an answer arrived before its INSERT finished?)",
					step, h.Actions[step], a, m.answered)
				return
			}
			if time.Now().After(dl) {
				fail("after action %d (%+v): %d submissions have an answer, the model expects %d", step, h.Actions[step], a, m.answered)
				return
			}
			time.Sleep(50 * time.Microsecond)
		}
	}
	settleLoose := func() {
		// no prediction: wait until nothing has moved for a few scheduler rounds
		type snap struct{ seq, calls, subs, ans int }
		take := func() snap {
			_, _, calls := hs.DB.Stats()
			s, a := hs.Rec.Counts()
			return snap{len(hs.DB.Events()), calls, s, a}
		}
		last := take()
		stable := 0
		for i := 0; i < 400 && stable < 4; i++ {
			runtime.Gosched()
			time.Sleep(60 * time.Microsecond)
			cur := take()
			if cur == last {
				stable++
			} else {
				stable = 0
				last = cur
			}
		}
	}

	reqID := 0
	for i, a := range h.Actions {
		if tr.ModelErr != "" {
			break
		}
		switch a.Op {
		case "push":
			reqID++
			req := Direct(a.Kind, reqID, a.Rows, a.Wide)
			sub := hs.Svc[a.Kind].Submit(req, reqID)
			tr.Reqs = append(tr.Reqs, &Request{ID: reqID, Action: i, Kind: a.Kind, Direct: sub})
			if exact {
				s := m.svc[a.Kind]
				switch {
				case s.stopped:
				case len(sub.Rows) == 0:
					m.answered++ // inserted == 0: answered at once, nothing accounted
				default:
					s.open = append(s.open, sub)
					s.openSize += req.GetSize()
					if s.maxQ > 0 && s.openSize > s.maxQ {
						s.pending = true
					}
				}
			}
		case "http":
			reqID++
			hr, exp := BuildHTTP(a.Proto, reqID, a.Streams, a.Rows, a.Big)
			ApplyHeaders(hr, a.Hdr)
			rq := &Request{ID: reqID, Action: i, HTTP: true, Proto: a.Proto, Expect: exp, Hdr: a.Hdr}
			tr.Reqs = append(tr.Reqs, rq)
			httpWG.Add(1)
			go func(hr *http.Request, rq *Request) {
				defer httpWG.Done()
				resp := hs.Serve(hr)
				t := hs.DB.Tick()
				rq.mu.Lock()
				rq.Done, rq.Status, rq.HeaderWrites, rq.DoneTick, rq.Body = true, resp.Status, resp.HeaderWrites, t, resp.Body
				rq.mu.Unlock()
			}(hr, rq)
		case "flush":
			hs.Svc[a.Kind].PlanFlush()
			if exact && !m.svc[a.Kind].stopped {
				m.svc[a.Kind].pending = true
			}
		case "release":
			var target *fakech.Call
			for _, c := range hs.DB.Gated() {
				if KindOfCall(c) == a.Kind {
					target = c
					break
				}
			}
			if target == nil {
				if exact && m.svc[a.Kind].busy {
					fail("action %d: the model has an INSERT of %s in flight, the database has none", i, a.Kind)
					continue
				}
				// nothing of that service is in flight: take the oldest INSERT in flight instead
				if g := hs.DB.Gated(); len(g) > 0 {
					target = g[0]
				} else {
					continue
				}
			}
			kind := KindOfCall(target)
			// more waiters per promise, their first Get placed around the instant of Done
			hs.Rec.ArmWaiters(KindOfCall(target), 3, func(j int) int { return (i*131 + j*977) % 2500 })
			// give promise watchers every chance to run before the INSERT ends: an answer that
			// precedes the end of its INSERT must get the smaller sequence number
			for j := 0; j < 3; j++ {
				runtime.Gosched()
			}
			var err error
			if !a.OK {
				err = fakech.ErrorOf(a.Err, target.Seq)
			}
			hs.DB.Release(target, err)
			hs.DB.WaitDone(target, 20*time.Second)
			if exact {
				s := m.svc[kind]
				if !s.busy {
					fail("action %d: the database had an INSERT of %s in flight, the model none", i, kind)
					continue
				}
				m.answered += len(s.inflight)
				s.inflight, s.busy = nil, false
				if !a.OK {
					s.connected = false // client dropped after an error
				}
			}
		case "refuse":
			hs.DB.RefuseConnectWith(a.N, a.Err)
			if exact {
				m.refusals = a.N
			}
		case "stop":
			hs.Stop(a.Kind)
			tr.Stopped[a.Kind] = true
			if exact {
				s := m.svc[a.Kind]
				s.stopped = true
				if s.busy {
					// the cancelled context ends the INSERT with an error
					m.answered += len(s.inflight)
					s.inflight, s.busy = nil, false
				}
			}
			time.Sleep(2 * time.Millisecond)
		}
		if exact && a.Op != "stop" {
			settleExact(i)
		} else {
			settleLoose()
		}
	}

	// final drain: the database accepts everything from now on, every service is flushed
	// until every submission and every HTTP request has its answer
	hs.DB.RefuseConnect(0)
	hs.DB.SetDefault(fakech.Step{Kind: fakech.OK})
	httpDone := make(chan struct{})
	go func() { httpWG.Wait(); close(httpDone) }()
	deadline := time.Now().Add(30 * time.Second)
	anyStopped := len(tr.Stopped) > 0
	if anyStopped {
		deadline = time.Now().Add(300 * time.Millisecond)
	}
	for {
		hs.DB.ReleaseAll(nil)
		for _, k := range Kinds {
			if !tr.Stopped[k] {
				hs.Svc[k].PlanFlush()
			}
		}
		time.Sleep(300 * time.Microsecond)
		s, a := hs.Rec.Counts()
		allHTTP := false
		select {
		case <-httpDone:
			allHTTP = true
		default:
		}
		if s == a && allHTTP && hs.Rec.Settled(hs.Cfg.Attempts()) {
			time.Sleep(300 * time.Microsecond)
			if hs.Rec.Settled(hs.Cfg.Attempts()) {
				break
			}
			continue
		}
		if time.Now().After(deadline) {
			if !anyStopped {
				var pend []string
				for _, sub := range hs.Rec.Subs() {
					if ok, _, _ := sub.Answer(); !ok {
						pend = append(pend, fmt.Sprintf("submission %d to %s (%d rows)", sub.ID, sub.Kind, len(sub.Rows)))
					}
				}
				for _, rq := range tr.Reqs {
					if rq.HTTP {
						if d, _, _, _ := rq.Result(); !d {
							pend = append(pend, fmt.Sprintf("http request %d (%s)", rq.ID, rq.Proto))
						}
					}
				}
				tr.Unanswered = strings.Join(pend, ", ")
			}
			break
		}
	}
	hs.Close()
	tr.NotQuiet = hs.NotQuiet
	// a handler still blocked after the services are gone can only be waiting on a
	// submission that will never be answered; do not wait for it forever
	select {
	case <-httpDone:
	case <-time.After(500 * time.Millisecond):
	}
	tr.Calls = hs.DB.Calls()
	tr.Events = hs.DB.Events()
	tr.Subs = hs.Rec.Subs()
	if exact {
		tr.Batches = m.batches
	}
	return tr
}

// FindingProfileOver1MiB is the id of the recorded finding "a profile whose accounted size
// exceeds 1 MiB is dropped, acknowledged and leaves a half-appended row in the shared batch"
// (parserDoer.onProfile). It is owned and repaired by another check (C16/C06 builder); the
// C01/C02 campaigns keep generated profiles below the limit and count what they left out.
const FindingProfileOver1MiB = "C16-profile-over-1MiB"

// StripKnown removes the regions of recorded findings from a history unless it is replayed
// as a witness; it returns the ids of the findings whose region the case touched.
func StripKnown(h History, witness bool) (History, []string) {
	if witness {
		return h, nil
	}
	var ids []string
	out := h
	out.Actions = append([]Action(nil), h.Actions...)
	for i, a := range out.Actions {
		if a.Op == "http" && a.Proto == "profile" && a.Big {
			out.Actions[i].Big = false
			if len(ids) == 0 {
				ids = append(ids, FindingProfileOver1MiB)
			}
		}
	}
	return out, ids
}

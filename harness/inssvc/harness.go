// Package inssvc is the shared insert-service harness of C01, C02, C04 and C05: it builds
// qryn's real insert services (impl.New*InsertService) over the writer fake (fakech), wires
// them exactly as plugin.CreateStaticServiceRegistry does (the OnBeforeInsert cross
// flushes), publishes them through the real static registry and serves the real HTTP
// handlers of the writer route table on a mux.Router.
//
// Every service handed to the handlers is wrapped in a thin recording proxy (Proxy): it
// forwards Request to the real service unchanged and records the submission (which rows,
// which promise, when it was answered). Nothing of qryn is replaced.
package inssvc

import (
	"bytes"
	"context"
	"io"
	"net/http"
	"net/http/httptest"
	"reflect"
	"runtime"
	"sync"
	"time"
	"unsafe"

	"github.com/VictoriaMetrics/fastcache"
	"github.com/gorilla/mux"
	clconfig "github.com/metrico/cloki-config"
	cfgpkg "github.com/metrico/cloki-config/config"
	"github.com/metrico/qryn/writer/config"
	controllerv1 "github.com/metrico/qryn/writer/controller"
	"github.com/metrico/qryn/writer/model"
	apirouterv1 "github.com/metrico/qryn/writer/router"
	"github.com/metrico/qryn/writer/service"
	"github.com/metrico/qryn/writer/service/impl"
	"github.com/metrico/qryn/writer/service/registry"
	"github.com/metrico/qryn/writer/utils/helpers"
	"github.com/metrico/qryn/writer/utils/logger"
	"github.com/metrico/qryn/writer/utils/numbercache"
	"github.com/metrico/qryn/writer/utils/promise"

	"qrynverif/fakech"
)

// Kind names one insert service.
type Kind string

const (
	Samples Kind = "samples"
	Series  Kind = "series"
	Metrics Kind = "metrics"
	Spans   Kind = "spans"
	Tags    Kind = "tags"
	Profile Kind = "profile"
)

// Kinds lists all services in a fixed order.
var Kinds = []Kind{Series, Samples, Metrics, Spans, Tags, Profile}

// Config is the batching configuration of one harness instance (plain data).
type Config struct {
	IntervalMs    int   `json:"interval_ms"` // push interval; 0 = one hour (timer never fires)
	MaxQueueSize  int64 `json:"max_queue"`   // 0 = unlimited
	Workers       int   `json:"workers"`     // parallel insert workers per service (>=1)
	RetryAttempts int   `json:"retries"`     // SYSTEM_SETTINGS.RetryAttempts; 0 = default of the harness (1)
	// ZeroAttempts configures retry_attempts = 0 (an operator asking for "no retries"); it
	// wins over RetryAttempts. A separate flag because 0 in RetryAttempts means "default".
	ZeroAttempts  bool `json:"retry_attempts_zero,omitempty"`
	RetryTimeoutS int  `json:"retry_s"`   // SYSTEM_SETTINGS.RetryTimeoutS
	Bernstein     bool `json:"bernstein"` // fingerprint type
	// AsyncNode configures the database node with async_insert = true (DATABASE_DATA[].AsyncInsert);
	// the plugin hands it to every insert service (InsertServiceOpts.AsyncInsert).
	AsyncNode bool `json:"async_node,omitempty"`
}

// Attempts is the configured system_settings.retry_attempts.
func (c Config) Attempts() int {
	if c.ZeroAttempts {
		return 0
	}
	if c.RetryAttempts <= 0 {
		return 1
	}
	return c.RetryAttempts
}

// NodeName is the name of the single database node of the harness.
const NodeName = "node1"

// Harness is one assembled writer side.
type Harness struct {
	Cfg    Config
	DB     *fakech.Server
	Svc    map[Kind]*Proxy
	Router *mux.Router
	Node   *model.DataDatabasesMap
	Cache  *numbercache.Cache[uint64]

	Rec *Recorder

	runWG      sync.WaitGroup
	stopped    bool
	stoppedOne bool // a case stopped a service itself (Stop)
	// NotQuiet is set by Close when the writer did not become quiescent within its bound: the
	// services were then not stopped and the case is to be discarded ("not-quiet-before-stop").
	NotQuiet bool
	basePush map[string]bool // doPush goroutines left over by earlier cases (see PushGoroutines)
}

var poolsOnce sync.Once
var cacheOnce sync.Once
var sharedCache *numbercache.Cache[uint64]
var sharedNodeMap = map[string]*model.DataDatabasesMap{}

// ResetCache empties the process-wide fingerprint/day cache exactly as its own cleanup
// ticker does (lock, sets.Reset(), unlock). The cache is built by the real
// numbercache.NewCache; its reset is only reachable through an unexported ticker, so the
// harness reaches the two unexported fields by reflection to make resets an explicit,
// replayable action instead of a wall-clock event.
func ResetCache(c *numbercache.Cache[uint64]) {
	v := reflect.ValueOf(c).Elem()
	mf := v.FieldByName("mtx")
	sf := v.FieldByName("sets")
	mtx := *(**sync.Mutex)(unsafe.Pointer(mf.UnsafeAddr()))
	sets := *(**fastcache.Cache)(unsafe.Pointer(sf.UnsafeAddr()))
	mtx.Lock()
	sets.Reset()
	mtx.Unlock()
}

// New resets the process-global state the writer uses (config.Cloki, controllerv1.Registry,
// controllerv1.FPCache, the fingerprint cache content) and assembles a fresh writer.
func New(cfg Config) *Harness {
	if cfg.Workers <= 0 {
		cfg.Workers = 1
	}
	if cfg.RetryAttempts <= 0 {
		cfg.RetryAttempts = 1
	}
	logger.Logger.SetOutput(io.Discard)
	poolsOnce.Do(func() { service.CreateColPools(100) })

	st := &cfgpkg.ClokiBaseSettingServer{}
	st.SYSTEM_SETTINGS.RetryAttempts = cfg.Attempts()
	st.SYSTEM_SETTINGS.RetryTimeoutS = cfg.RetryTimeoutS
	st.SYSTEM_SETTINGS.ChannelsSample = cfg.Workers
	st.SYSTEM_SETTINGS.ChannelsTimeSeries = cfg.Workers
	st.FingerPrintType = 1 // writer.FINGERPRINT_CityHash
	if cfg.Bernstein {
		st.FingerPrintType = 0 // writer.FINGERPRINT_Bernstein
	}
	st.HTTP_SETTINGS.InputBufferMB = 200
	config.Cloki = &clconfig.ClokiConfig{Setting: st}
	helpers.SetGlobalLimit(200 * 1024 * 1024)

	node := &model.DataDatabasesMap{}
	node.Node = NodeName
	node.Name = "qryn"
	node.AsyncInsert = cfg.AsyncNode
	node.WriteTimeout = 600 // seconds; context.WithTimeout(svc.ctx, WriteTimeout) bounds every Do

	h := &Harness{Cfg: cfg, DB: fakech.NewServer(), Node: node, Svc: map[Kind]*Proxy{}}
	h.Rec = newRecorder(h.DB)
	h.basePush = PushGoroutines()

	interval := time.Hour
	if cfg.IntervalMs > 0 {
		interval = time.Duration(cfg.IntervalMs) * time.Millisecond
	}
	raw := map[Kind]service.IInsertServiceV2{}
	planFlush := func(k Kind) func() { return func() { raw[k].PlanFlush() } }
	// mirrors plugin.CreateStaticServiceRegistry (writer/plugin/qryn_writer_db.go): which
	// services get MaxQueueSize and which flush which
	raw[Series] = impl.NewTimeSeriesInsertService(model.InsertServiceOpts{
		Session: h.DB.Factory(), Node: node, Interval: interval, ParallelNum: cfg.Workers, AsyncInsert: node.AsyncInsert})
	raw[Samples] = impl.NewSamplesInsertService(model.InsertServiceOpts{
		Session: h.DB.Factory(), Node: node, Interval: interval, ParallelNum: cfg.Workers, AsyncInsert: node.AsyncInsert,
		MaxQueueSize: cfg.MaxQueueSize, OnBeforeInsert: planFlush(Series)})
	raw[Metrics] = impl.NewMetricsInsertService(model.InsertServiceOpts{
		Session: h.DB.Factory(), Node: node, Interval: interval, ParallelNum: cfg.Workers, AsyncInsert: node.AsyncInsert,
		MaxQueueSize: cfg.MaxQueueSize, OnBeforeInsert: planFlush(Series)})
	raw[Spans] = impl.NewTempoSamplesInsertService(model.InsertServiceOpts{
		Session: h.DB.Factory(), Node: node, Interval: interval, ParallelNum: cfg.Workers, AsyncInsert: node.AsyncInsert,
		MaxQueueSize: cfg.MaxQueueSize, OnBeforeInsert: planFlush(Tags)})
	raw[Tags] = impl.NewTempoTagsInsertService(model.InsertServiceOpts{
		Session: h.DB.Factory(), Node: node, Interval: interval, ParallelNum: cfg.Workers, AsyncInsert: node.AsyncInsert,
		MaxQueueSize: cfg.MaxQueueSize, OnBeforeInsert: planFlush(Spans)})
	raw[Profile] = impl.NewProfileSamplesInsertService(model.InsertServiceOpts{
		Session: h.DB.Factory(), Node: node, Interval: interval, ParallelNum: cfg.Workers, AsyncInsert: node.AsyncInsert})

	maps := map[Kind]map[string]service.IInsertServiceV2{}
	for _, k := range Kinds {
		raw[k].Init()
		h.Svc[k] = &Proxy{Kind: k, Real: raw[k], rec: h.Rec}
		maps[k] = map[string]service.IInsertServiceV2{NodeName: h.Svc[k]}
	}
	for _, k := range Kinds {
		k := k
		h.runWG.Add(1)
		go func() { defer h.runWG.Done(); raw[k].Run() }()
	}
	controllerv1.Registry = registry.NewStaticServiceRegistry(maps[Series], maps[Samples], maps[Metrics],
		maps[Spans], maps[Tags], maps[Profile])

	sharedNodeMap[NodeName] = node
	cacheOnce.Do(func() {
		// the real cache, TTL far beyond any run: resets are explicit (ResetCache)
		sharedCache = numbercache.NewCache[uint64](24*time.Hour, func(val uint64) []byte {
			return unsafe.Slice((*byte)(unsafe.Pointer(&val)), 8)
		}, sharedNodeMap)
	})
	ResetCache(sharedCache)
	h.Cache = sharedCache
	controllerv1.FPCache = sharedCache

	r := mux.NewRouter()
	mw := controllerv1.NewMiddlewareConfig(controllerv1.WithExtraMiddlewareDefault...)
	mwTempo := controllerv1.NewMiddlewareConfig(controllerv1.WithExtraMiddlewareTempo...)
	// plugin.performV1APIRouting
	apirouterv1.RouteInsertDataApis(r, mw)
	apirouterv1.RoutePromDataApis(r, mw)
	apirouterv1.RouteElasticDataApis(r, mw)
	apirouterv1.RouteInsertTempoApis(r, mwTempo)
	apirouterv1.RouteProfileDataApis(r, mw)
	apirouterv1.RouteMiscApis(r, mw)
	h.Router = r
	return h
}

// FlushPending peeks, per parallel worker of the synchronous side of service k, whether a
// flush is requested but not yet taken by the worker's loop (its insertCtx is done). The
// fields are unexported, so they are read by reflection under the worker's own mutex. The
// gated driver uses this only to wait until a loop has consumed a flush request that finds
// an empty batch - a transition with no other observable effect.
func (h *Harness) FlushPending(k Kind) []bool {
	mm := reflect.ValueOf(h.Svc[k].Real).Elem() // InsertServiceV2Multimodal
	rr := mm.FieldByName("SyncService")
	if rr.IsNil() {
		return nil
	}
	sv := rr.Elem().FieldByName("services")
	sv = reflect.NewAt(sv.Type(), unsafe.Pointer(sv.UnsafeAddr())).Elem()
	out := make([]bool, sv.Len())
	for i := 0; i < sv.Len(); i++ {
		w := sv.Index(i).Elem() // InsertServiceV2
		mf := w.FieldByName("mtx")
		mtx := (*sync.Mutex)(unsafe.Pointer(mf.UnsafeAddr()))
		cf := w.FieldByName("insertCtx")
		mtx.Lock()
		ctx := *(*context.Context)(unsafe.Pointer(cf.UnsafeAddr()))
		mtx.Unlock()
		out[i] = ctx != nil && ctx.Err() != nil
	}
	return out
}

// Stop stops one service (its Run loops return).
func (h *Harness) Stop(k Kind) { h.stoppedOne = true; h.Svc[k].Real.Stop() }

// PushGoroutines counts the goroutines that are inside controller.doPush's retry closure
// (looked up in a dump of all goroutine stacks). doParse answers on the first failed part
// and may do so before the goroutines of its other parts have even made their first
// Request, so "every recorded submission is answered" does not yet mean that no qryn
// goroutine can still call Request; a goroutine that can has a doPush frame. The result is
// the set of their goroutine ids (goroutines of an earlier case that stopped a service
// itself stay blocked for ever on promises nobody resolves; they are told apart by id).
func PushGoroutines() map[string]bool {
	buf := make([]byte, 1<<20)
	for {
		n := runtime.Stack(buf, true)
		if n < len(buf) {
			buf = buf[:n]
			break
		}
		buf = make([]byte, 2*len(buf))
	}
	ids := map[string]bool{}
	for _, g := range bytes.Split(buf, []byte("\n\n")) {
		if !bytes.Contains(g, []byte("writer/controller.doPush.func1")) {
			continue
		}
		// "goroutine 123 [chan receive]:"
		if f := bytes.Fields(g); len(f) >= 2 {
			ids[string(f[1])] = true
		}
	}
	return ids
}

// Quiet tells whether the writer is quiescent: every submission answered, every retry chain
// ended, no goroutine left inside doPush. Checked twice.
func (h *Harness) Quiet() bool {
	for i := 0; i < 2; i++ {
		if !h.Rec.Settled(h.Cfg.Attempts()) {
			return false
		}
		for id := range PushGoroutines() {
			if !h.basePush[id] {
				return false
			}
		}
		if i == 0 {
			time.Sleep(200 * time.Microsecond)
		}
	}
	return true
}

// Close stops every service, frees every gated call and waits for the Run loops.
func (h *Harness) Close() {
	if h.stopped {
		return
	}
	h.stopped = true
	h.DB.SetDefault(fakech.Step{Kind: fakech.OK})
	h.DB.SetDecider(nil)
	h.DB.ClearScript()
	h.DB.RefuseConnect(0)
	// Shutdown is outside every property's statement, and InsertServiceV2.Request reads
	// svc.running without the lock while Run writes it on exit: no qryn goroutine of the case
	// may still be able to call Request when Stop is issued. Everything is accepted and
	// flushed until the writer is quiescent (bounded; a case that stopped a service itself
	// cannot become quiescent and does not wait).
	wait := 20 * time.Second
	if h.stoppedOne {
		wait = 50 * time.Millisecond
	}
	quiet := false
	for dl := time.Now().Add(wait); time.Now().Before(dl); {
		if h.Quiet() {
			quiet = true
			break
		}
		h.DB.ReleaseAll(nil)
		for _, k := range Kinds {
			h.Svc[k].Real.PlanFlush()
		}
		time.Sleep(300 * time.Microsecond)
	}
	if !quiet && !h.stoppedOne {
		// not quiescent within the bound (overloaded machine): Stop is NOT issued - a goroutine
		// that may still call Request would race with the shutdown. The services of this one
		// harness are left running (they accept everything); the case must not be judged.
		h.NotQuiet = true
		return
	}
	for _, k := range Kinds {
		h.Svc[k].Real.Stop()
	}
	done := make(chan struct{})
	go func() { h.runWG.Wait(); close(done) }()
	for {
		h.DB.ReleaseAll(nil)
		select {
		case <-done:
			return
		case <-time.After(2 * time.Millisecond):
		}
	}
}

// Response is what a handler produced.
type Response struct {
	Status       int
	Body         string
	HeaderWrites int // calls of WriteHeader (implicit ones included)
}

type countingWriter struct {
	*httptest.ResponseRecorder
	writes int
}

func (c *countingWriter) WriteHeader(code int) {
	c.writes++
	c.ResponseRecorder.WriteHeader(code)
}

func (c *countingWriter) Write(b []byte) (int, error) {
	if c.writes == 0 {
		c.writes++
	}
	return c.ResponseRecorder.Write(b)
}

// Serve runs one request through the real router and handler in the calling goroutine.
func (h *Harness) Serve(req *http.Request) Response {
	w := &countingWriter{ResponseRecorder: httptest.NewRecorder()}
	h.Router.ServeHTTP(w, req)
	return Response{Status: w.Code, Body: w.Body.String(), HeaderWrites: w.writes}
}

// ---------------------------------------------------------------------------------------
// recording proxy

// Submission is one call of IInsertServiceV2.Request seen by a proxy.
type Submission struct {
	ID      int
	Kind    Kind
	Req     any   // the model.* struct that was submitted
	Rows    []Row // rows extracted from Req at submission time
	Ragged  string
	Tick    int64 // fake sequence number taken after Request returned
	Tag     int   // logical request the submission belongs to (set by the driver; 0 = unknown)
	promise *promise.Promise[uint32]

	mu        sync.Mutex
	answered  bool
	err       error
	answerTck int64
	extra     []error // what the additional waiters (ArmWaiters) got from Get
	extraN    int
}

// Waiters returns what the additional waiters of the submission observed.
func (s *Submission) Waiters() []error {
	s.mu.Lock()
	defer s.mu.Unlock()
	return append([]error(nil), s.extra...)
}

// Answer returns whether the promise has been observed resolved, with what, and the fake
// sequence number taken right after the observation.
func (s *Submission) Answer() (bool, error, int64) {
	s.mu.Lock()
	defer s.mu.Unlock()
	return s.answered, s.err, s.answerTck
}

// Recorder collects the submissions of all proxies of one harness.
type Recorder struct {
	db   *fakech.Server
	mu   sync.Mutex
	subs []*Submission
	wg   sync.WaitGroup
	// CurrentTag is copied into submissions made from the goroutine-less direct path.
	answered int
}

func newRecorder(db *fakech.Server) *Recorder { return &Recorder{db: db} }

// Subs returns a snapshot of all submissions so far.
func (r *Recorder) Subs() []*Submission {
	r.mu.Lock()
	defer r.mu.Unlock()
	return append([]*Submission(nil), r.subs...)
}

// Counts returns submissions seen and answers observed.
func (r *Recorder) Counts() (subs, answered int) {
	r.mu.Lock()
	defer r.mu.Unlock()
	return len(r.subs), r.answered
}

// ArmWaiters adds n more waiters to every unanswered submission (of one service, or of all
// when k is ""). Each waits - spinning, not blocking - until the next INSERT returns, lets a
// generated number of scheduler-free iterations pass (spin(j)) and only then calls Get for
// the first time: first Get calls land around the instant the insert service resolves the
// promises, where a promise that publishes "done" before its outcome, or a reader that
// takes a shortcut, hands out a wrong answer. Every waiter must get the very same outcome.
func (r *Recorder) ArmWaiters(k Kind, n int, spin func(j int) int) {
	r.mu.Lock()
	subs := append([]*Submission(nil), r.subs...)
	r.mu.Unlock()
	e0 := r.db.Ends()
	for _, s := range subs {
		s.mu.Lock()
		skip := s.answered || s.extraN >= 12 || (k != "" && s.Kind != k)
		if !skip {
			s.extraN += n
		}
		s.mu.Unlock()
		if skip {
			continue
		}
		for j := 0; j < n; j++ {
			s, iters := s, spin(j)
			r.wg.Add(1)
			go func() {
				defer r.wg.Done()
				dl := time.Now().Add(3 * time.Millisecond)
				for i := 0; r.db.Ends() == e0; i++ {
					if i%256 == 255 {
						if time.Now().After(dl) {
							break
						}
						runtime.Gosched()
					}
				}
				x := 0
				for i := 0; i < iters; i++ {
					x += i
				}
				_ = x
				_, err := s.promise.Get()
				s.mu.Lock()
				s.extra = append(s.extra, err)
				s.mu.Unlock()
			}()
		}
	}
}

// Settled tells whether every submission has been answered and no handler goroutine can
// still be about to re-submit: doPush retries a part until it succeeds or the attempts are
// used up, and doParse returns on the first failed part while the sibling parts' retry
// goroutines may still be running. A part (same request struct) is finished when its last
// submission succeeded or it has been submitted `attempts` times.
func (r *Recorder) Settled(attempts int) bool {
	r.mu.Lock()
	subs := append([]*Submission(nil), r.subs...)
	r.mu.Unlock()
	type st struct {
		n      int
		lastOK bool
		direct bool
	}
	parts := map[any]*st{}
	for _, s := range subs {
		ok, err, _ := s.Answer()
		if !ok {
			return false
		}
		p := parts[s.Req]
		if p == nil {
			p = &st{}
			parts[s.Req] = p
		}
		p.n++
		p.lastOK = err == nil
		if s.Tag != 0 {
			p.direct = true
		}
	}
	for _, p := range parts {
		if !p.direct && !p.lastOK && p.n < attempts {
			return false
		}
	}
	return true
}

// WaitSettled waits for Settled.
func (r *Recorder) WaitSettled(attempts int, timeout time.Duration) bool {
	dl := time.Now().Add(timeout)
	for {
		if r.Settled(attempts) {
			// a retry is submitted right after the failed answer; look twice
			time.Sleep(300 * time.Microsecond)
			if r.Settled(attempts) {
				return true
			}
		}
		if time.Now().After(dl) {
			return false
		}
		time.Sleep(200 * time.Microsecond)
	}
}

// WaitAnswered waits until every submission has been answered.
func (r *Recorder) WaitAnswered(timeout time.Duration) bool {
	dl := time.Now().Add(timeout)
	for {
		s, a := r.Counts()
		if s == a {
			return true
		}
		if time.Now().After(dl) {
			return false
		}
		time.Sleep(200 * time.Microsecond)
	}
}

// Proxy forwards to the real service and records.
type Proxy struct {
	Kind Kind
	Real service.IInsertServiceV2
	rec  *Recorder
}

var _ service.IInsertServiceV2 = (*Proxy)(nil)

func (p *Proxy) Run()                        { p.Real.Run() }
func (p *Proxy) Stop()                       { p.Real.Stop() }
func (p *Proxy) Ping() (time.Time, error)    { return p.Real.Ping() }
func (p *Proxy) GetState(insertMode int) int { return p.Real.GetState(insertMode) }
func (p *Proxy) GetNodeName() string         { return p.Real.GetNodeName() }
func (p *Proxy) Init()                       { p.Real.Init() }
func (p *Proxy) PlanFlush()                  { p.Real.PlanFlush() }

// Request records the rows of req, forwards it and watches the promise.
func (p *Proxy) Request(req helpers.SizeGetter, insertMode int) *promise.Promise[uint32] {
	rows, ragged := ExtractRows(p.Kind, req)
	pr := p.Real.Request(req, insertMode)
	s := &Submission{Kind: p.Kind, Req: req, Rows: rows, Ragged: ragged, promise: pr}
	s.Tick = p.rec.db.Tick()
	p.rec.mu.Lock()
	s.ID = len(p.rec.subs) + 1
	p.rec.subs = append(p.rec.subs, s)
	p.rec.mu.Unlock()
	go func() {
		_, err := pr.Get()
		t := p.rec.db.Tick()
		s.mu.Lock()
		s.answered, s.err, s.answerTck = true, err, t
		s.mu.Unlock()
		p.rec.mu.Lock()
		p.rec.answered++
		p.rec.mu.Unlock()
	}()
	return pr
}

// Submit is Request for callers that want the Submission record back (direct pushes).
func (p *Proxy) Submit(req helpers.SizeGetter, tag int) *Submission {
	p.Request(req, service.INSERT_MODE_SYNC)
	p.rec.mu.Lock()
	defer p.rec.mu.Unlock()
	// the submission just appended by this goroutine is the last one carrying req
	for i := len(p.rec.subs) - 1; i >= 0; i-- {
		if p.rec.subs[i].Req == any(req) {
			p.rec.subs[i].Tag = tag
			return p.rec.subs[i]
		}
	}
	return nil
}

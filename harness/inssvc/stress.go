package inssvc

import (
	"fmt"
	"net/http"
	"runtime"
	"sync"
	"sync/atomic"
	"time"

	"pgregory.net/rapid"

	"qrynverif/fakech"
)

// Stress is one case of the free-running driver: real timers, concurrent pushers on all
// services and endpoints, a fault script consumed by the INSERTs in arrival order. The
// schedule is not part of the case (it is whatever the Go scheduler does), so a replay
// re-runs the case several times.
type Stress struct {
	Cfg    Config        `json:"cfg"`
	Plan   [][]Action    `json:"plan"`   // one list of push/http actions per pusher goroutine
	Script []fakech.Step `json:"script"` // outcomes of the first INSERTs; afterwards everything succeeds
	GateOK []bool        `json:"gate_ok"`
	// GateErr are the error classes (fakech.ErrClasses) of gated INSERTs released with an
	// error, used cyclically; empty = plain errors.
	GateErr []string `json:"gate_err,omitempty"`
	Refuse  int      `json:"refuse"` // reconnects refused at the first error
}

// GenStress draws a stress case.
func GenStress(rt *rapid.T, maxPushers, maxPer int) Stress {
	s := Stress{}
	s.Cfg.IntervalMs = rapid.SampledFrom([]int{1, 1, 2, 5, 20, 0}).Draw(rt, "interval") // 0 = one hour: only overflow and forced flushes
	s.Cfg.MaxQueueSize = rapid.SampledFrom([]int64{0, 1, 100, 3000, 1 << 30}).Draw(rt, "queue")
	s.Cfg.Workers = rapid.SampledFrom([]int{1, 2, 3, 4, 1, 8}).Draw(rt, "workers")
	DrawRetries(rt, &s.Cfg)
	s.Cfg.AsyncNode = rapid.IntRange(0, 2).Draw(rt, "async_node") == 1
	s.Cfg.Bernstein = rapid.Bool().Draw(rt, "bernstein")
	np := rapid.IntRange(2, maxPushers).Draw(rt, "pushers")
	for p := 0; p < np; p++ {
		n := rapid.IntRange(1, maxPer).Draw(rt, "n")
		var plan []Action
		for i := 0; i < n; i++ {
			if rapid.IntRange(0, 9).Draw(rt, "http") < 4 {
				plan = append(plan, Action{Op: "http", Proto: rapid.SampledFrom(HTTPKinds).Draw(rt, "proto"),
					Rows: rapid.IntRange(1, 8).Draw(rt, "rows"), Streams: rapid.IntRange(1, 3).Draw(rt, "streams"),
					Big: rapid.IntRange(0, 15).Draw(rt, "big") == 8, Hdr: DrawHeaders(rt)})
				if plan[len(plan)-1].Proto == "profile" {
					plan[len(plan)-1].Big = false // region of finding C16-profile-over-1MiB
				}
			} else {
				a := Action{Op: "push", Kind: rapid.SampledFrom(Kinds).Draw(rt, "kind"),
					Rows: rapid.SampledFrom([]int{0, 1, 2, 3, 7, 30}).Draw(rt, "rows"), Wide: rapid.SampledFrom([]int{0, 9}).Draw(rt, "wide")}
				if a.Kind == Profile && a.Rows == 0 {
					a.Rows = 1
				}
				plan = append(plan, a)
			}
		}
		s.Plan = append(s.Plan, plan)
	}
	ns := rapid.IntRange(0, 30).Draw(rt, "script")
	for i := 0; i < ns; i++ {
		switch rapid.IntRange(0, 9).Draw(rt, "step") {
		case 0, 1, 2:
			s.Script = append(s.Script, fakech.Step{Kind: fakech.Error, Err: fmt.Sprintf("scripted error %d", i),
				Class: rapid.SampledFrom(fakech.ErrClasses).Draw(rt, "class")})
		case 3, 4, 5:
			s.Script = append(s.Script, fakech.Step{Kind: fakech.Gate})
		default:
			s.Script = append(s.Script, fakech.Step{Kind: fakech.OK})
		}
	}
	ng := rapid.IntRange(1, 6).Draw(rt, "gates")
	for i := 0; i < ng; i++ {
		s.GateOK = append(s.GateOK, rapid.Bool().Draw(rt, "gate_ok"))
		s.GateErr = append(s.GateErr, rapid.SampledFrom(fakech.ErrClasses).Draw(rt, "gate_err"))
	}
	if rapid.IntRange(0, 11).Draw(rt, "refuse") == 0 {
		s.Refuse = 1
	}
	return s
}

// RunStress executes a stress case once.
func RunStress(s Stress) *Trace {
	hs := New(s.Cfg)
	defer hs.Close()
	tr := &Trace{H: History{Cfg: s.Cfg}, Stopped: map[Kind]bool{}}
	hs.DB.Push(s.Script...)
	hs.DB.RefuseConnectWith(s.Refuse, "refused")

	stopRel := make(chan struct{})
	var relWG sync.WaitGroup
	relWG.Add(1)
	var gateN int64
	go func() { // releases gated INSERTs after a few scheduler rounds, outcomes from the case
		defer relWG.Done()
		for {
			select {
			case <-stopRel:
				return
			default:
			}
			for _, c := range hs.DB.Gated() {
				for j := 0; j < 5; j++ {
					runtime.Gosched()
				}
				i := atomic.AddInt64(&gateN, 1) - 1
				var err error
				if len(s.GateOK) > 0 && !s.GateOK[int(i)%len(s.GateOK)] {
					class := ""
					if len(s.GateErr) > 0 {
						class = s.GateErr[int(i)%len(s.GateErr)]
					}
					err = fakech.ErrorOf(class, c.Seq)
				}
				hs.Rec.ArmWaiters(KindOfCall(c), 2, func(j int) int { return int(i*211+int64(j)*1597) % 3000 })
				hs.DB.Release(c, err)
			}
			time.Sleep(100 * time.Microsecond)
		}
	}()

	if s.Cfg.IntervalMs == 0 {
		// one-hour interval: the timer never fires, batches leave on overflow or forced flushes
		relWG.Add(1)
		go func() {
			defer relWG.Done()
			for {
				select {
				case <-stopRel:
					return
				case <-time.After(500 * time.Microsecond):
					for _, k := range Kinds {
						hs.Svc[k].PlanFlush()
					}
				}
			}
		}()
	}
	var mu sync.Mutex
	var wg sync.WaitGroup
	for p, plan := range s.Plan {
		wg.Add(1)
		go func(p int, plan []Action) {
			defer wg.Done()
			for i, a := range plan {
				id := (p+1)*1000 + i + 1
				switch a.Op {
				case "push":
					sub := hs.Svc[a.Kind].Submit(Direct(a.Kind, id, a.Rows, a.Wide), id)
					mu.Lock()
					tr.Reqs = append(tr.Reqs, &Request{ID: id, Kind: a.Kind, Direct: sub})
					mu.Unlock()
					if i%3 == 2 {
						// every third direct push waits for its answer, the others pile up
						sub.promise.Get()
					}
				case "http":
					var hr *http.Request
					hr, exp := BuildHTTP(a.Proto, id, a.Streams, a.Rows, a.Big)
					ApplyHeaders(hr, a.Hdr)
					rq := &Request{ID: id, HTTP: true, Proto: a.Proto, Expect: exp, Hdr: a.Hdr}
					mu.Lock()
					tr.Reqs = append(tr.Reqs, rq)
					mu.Unlock()
					resp := hs.Serve(hr)
					t := hs.DB.Tick()
					rq.mu.Lock()
					rq.Done, rq.Status, rq.HeaderWrites, rq.DoneTick, rq.Body = true, resp.Status, resp.HeaderWrites, t, resp.Body
					rq.mu.Unlock()
				}
			}
		}(p, plan)
	}
	done := make(chan struct{})
	go func() { wg.Wait(); close(done) }()
	// liveness: the database always answers (errors are finite, gates are released), so all
	// pushers must finish; the bound is far beyond the normal run time of milliseconds
	select {
	case <-done:
	case <-time.After(60 * time.Second):
		tr.Unanswered = "pushers still blocked 60 s after the start although the database keeps answering"
	}
	if tr.Unanswered == "" && !hs.Rec.WaitSettled(hs.Cfg.Attempts(), 30*time.Second) {
		tr.Unanswered = "submissions without an answer 30 s after the last push although the database keeps answering"
	}
	close(stopRel)
	relWG.Wait()
	hs.Close()
	tr.NotQuiet = hs.NotQuiet
	tr.Calls = hs.DB.Calls()
	tr.Events = hs.DB.Events()
	tr.Subs = hs.Rec.Subs()
	return tr
}

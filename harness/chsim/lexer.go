// Package chsim is a reference interpreter for the subset of ClickHouse SQL that qryn's
// query planners emit. It is written from the ClickHouse documentation and (where the
// documentation is silent) from the behaviour of the ClickHouse sources named in the
// comments; it shares no code with qryn.
//
// This file: the lexer. It alone is the oracle of property C10.
package chsim

import (
	"errors"
	"fmt"
	"strings"
	"unicode/utf8"
)

// ErrUnsupported is wrapped by every error that means "this statement is outside the
// modelled subset" (as opposed to "ClickHouse would reject / fail this statement").
var ErrUnsupported = errors.New("chsim: unsupported")

// ErrSyntax is wrapped by every lexing/parsing error that ClickHouse itself would report
// as a syntax error (unterminated literal, unterminated comment, stray byte).
var ErrSyntax = errors.New("chsim: syntax error")

// TokKind classifies a token.
type TokKind int

const (
	TokBareWord    TokKind = iota // identifier or keyword: [A-Za-z_$][A-Za-z0-9_$]*
	TokQuotedIdent                // `x` or "x"
	TokString                     // 'x' (also heredoc $tag$x$tag$)
	TokNumber                     // 1, 1.5, .5, 1e3, 0x1F, 0b11
	TokOp                         // operator or punctuation; Text holds it
)

func (k TokKind) String() string {
	switch k {
	case TokBareWord:
		return "word"
	case TokQuotedIdent:
		return "qident"
	case TokString:
		return "string"
	case TokNumber:
		return "number"
	case TokOp:
		return "op"
	}
	return "?"
}

// Token is one significant token (whitespace and comments are skipped).
type Token struct {
	Kind TokKind
	Text string // the source text of the token
	Val  string // decoded value: string literals and quoted identifiers; == Text otherwise
	Pos  int    // byte offset in the source
}

// Shape renders the token with literal contents abstracted: the structural skeleton used
// by C10. Bare words are lower-cased (keywords and function names are structure); string
// literals become 'S', numbers N, quoted identifiers keep their (decoded) name because the
// planners only ever quote fixed names.
func (t Token) Shape() string {
	switch t.Kind {
	case TokString:
		return "'S'"
	case TokNumber:
		return "N"
	case TokBareWord:
		return strings.ToLower(t.Text)
	case TokQuotedIdent:
		return "`" + t.Val + "`"
	}
	return t.Text
}

// Shape of a whole statement: token shapes joined by a space.
func Shape(toks []Token) string {
	parts := make([]string, len(toks))
	for i, t := range toks {
		parts[i] = t.Shape()
	}
	return strings.Join(parts, " ")
}

func syntaxErr(pos int, format string, a ...any) error {
	return fmt.Errorf("%w at byte %d: %s", ErrSyntax, pos, fmt.Sprintf(format, a...))
}

func isWordStart(c byte) bool {
	return c == '_' || (c >= 'a' && c <= 'z') || (c >= 'A' && c <= 'Z')
}
func isDigit(c byte) bool    { return c >= '0' && c <= '9' }
func isWordChar(c byte) bool { return isWordStart(c) || isDigit(c) || c == '$' }
func isHex(c byte) bool {
	return isDigit(c) || (c >= 'a' && c <= 'f') || (c >= 'A' && c <= 'F')
}

// ASCII whitespace as in ClickHouse's isWhitespaceASCII: space, \t \n \r \f \v.
func isSpace(c byte) bool {
	return c == ' ' || c == '\t' || c == '\n' || c == '\r' || c == '\f' || c == '\v'
}

// Tokens splits a ClickHouse statement into significant tokens.
//
// Sources: ClickHouse docs "SQL reference / Syntax" (spaces, comments, identifiers,
// literals, operators) and src/Parsers/Lexer.cpp for the corner cases the docs leave open:
//
//   - comments: "--" to end of line; "#" followed by a space or "!" to end of line
//     (docs: "#! " and "# " comments; newer versions also accept a bare "#" — we accept a
//     bare "#" too because a leaked "#" can then only ever *hide* text, which still changes
//     the token sequence); "/* ... */" multi-line, NOT nested in the versions qryn targets
//     (nesting was added in 24.x; an unterminated comment is an error either way).
//   - a quoted token ('...', `...`, "...") ends at the first unescaped quote; a backslash
//     always protects the following byte, and a doubled quote stays inside the token
//     (Lexer.cpp quotedString<>). Reaching the end of input first is an error.
//   - "." after an identifier, ")" "]" or a number is the tuple/qualifier dot; otherwise
//     ".5" is a number. After a dot only decimal digits form a number (x.1.2).
//   - "!" alone is an error (ErrorSingleExclamationMark); "!=" is an operator.
//   - bytes >= 0x80 outside a quoted token are an error (ClickHouse accepts only Unicode
//     white space and typographic quotes there; the planners never emit them, and rejecting
//     is the conservative reading for C10).
func Tokens(sql string) ([]Token, error) {
	var out []Token
	n := len(sql)
	i := 0
	prevSig := func() (Token, bool) {
		if len(out) == 0 {
			return Token{}, false
		}
		return out[len(out)-1], true
	}
	emit := func(k TokKind, start, end int, val string) {
		out = append(out, Token{Kind: k, Text: sql[start:end], Val: val, Pos: start})
	}
	for i < n {
		c := sql[i]
		switch {
		case isSpace(c):
			i++
		case c == '-' && i+1 < n && sql[i+1] == '-':
			for i < n && sql[i] != '\n' {
				i++
			}
		case c == '#':
			for i < n && sql[i] != '\n' {
				i++
			}
		case c == '/' && i+1 < n && sql[i+1] == '*':
			end := strings.Index(sql[i+2:], "*/")
			if end < 0 {
				return out, syntaxErr(i, "unterminated /* comment")
			}
			i = i + 2 + end + 2
		case c == '\'':
			end, err := scanQuoted(sql, i, '\'')
			if err != nil {
				return out, err
			}
			val, err := UnescapeString(sql[i+1 : end-1])
			if err != nil {
				return out, syntaxErr(i, "%v", err)
			}
			emit(TokString, i, end, val)
			i = end
		case c == '`' || c == '"':
			end, err := scanQuoted(sql, i, c)
			if err != nil {
				return out, err
			}
			val, err := unescapeQuoted(sql[i+1:end-1], c)
			if err != nil {
				return out, syntaxErr(i, "%v", err)
			}
			if val == "" {
				return out, syntaxErr(i, "empty quoted identifier")
			}
			emit(TokQuotedIdent, i, end, val)
			i = end
		case c == '$':
			// heredoc $tag$ ... $tag$ (docs: Syntax / Heredoc), else part of a bare word.
			j := i + 1
			for j < n && isWordChar(sql[j]) && sql[j] != '$' {
				j++
			}
			if j < n && sql[j] == '$' {
				tag := sql[i : j+1]
				end := strings.Index(sql[j+1:], tag)
				if end < 0 {
					return out, syntaxErr(i, "unterminated heredoc")
				}
				emit(TokString, i, j+1+end+len(tag), sql[j+1:j+1+end])
				i = j + 1 + end + len(tag)
				break
			}
			j = i
			for j < n && isWordChar(sql[j]) {
				j++
			}
			emit(TokBareWord, i, j, sql[i:j])
			i = j
		case isWordStart(c):
			j := i
			for j < n && isWordChar(sql[j]) {
				j++
			}
			emit(TokBareWord, i, j, sql[i:j])
			i = j
		case isDigit(c):
			p, ok := prevSig()
			if ok && p.Kind == TokOp && p.Text == "." {
				// tuple element index: decimal digits only
				j := i
				for j < n && isDigit(sql[j]) {
					j++
				}
				emit(TokNumber, i, j, sql[i:j])
				i = j
				break
			}
			j, err := scanNumber(sql, i)
			if err != nil {
				return out, err
			}
			emit(TokNumber, i, j, sql[i:j])
			i = j
		case c == '.':
			p, ok := prevSig()
			nextDigit := i+1 < n && isDigit(sql[i+1])
			afterOperand := ok && (p.Kind == TokBareWord || p.Kind == TokQuotedIdent || p.Kind == TokNumber ||
				(p.Kind == TokOp && (p.Text == ")" || p.Text == "]")))
			if i > 0 && (!nextDigit || afterOperand) {
				emit(TokOp, i, i+1, ".")
				i++
				break
			}
			if !nextDigit {
				emit(TokOp, i, i+1, ".")
				i++
				break
			}
			j, err := scanNumber(sql, i)
			if err != nil {
				return out, err
			}
			emit(TokNumber, i, j, sql[i:j])
			i = j
		default:
			if c >= 0x80 {
				return out, syntaxErr(i, "non-ASCII byte 0x%02x outside a quoted token", c)
			}
			op := scanOp(sql, i)
			if op == "" {
				return out, syntaxErr(i, "unexpected byte %q", c)
			}
			emit(TokOp, i, i+len(op), op)
			i += len(op)
		}
	}
	return out, nil
}

// scanQuoted returns the index just past the closing quote of the token starting at i.
func scanQuoted(s string, i int, q byte) (int, error) {
	j := i + 1
	for j < len(s) {
		switch s[j] {
		case '\\':
			j += 2
			if j > len(s) {
				return 0, syntaxErr(i, "unterminated %c-quoted token (trailing backslash)", q)
			}
		case q:
			if j+1 < len(s) && s[j+1] == q {
				j += 2
				continue
			}
			return j + 1, nil
		default:
			j++
		}
	}
	return 0, syntaxErr(i, "unterminated %c-quoted token", q)
}

func scanNumber(s string, i int) (int, error) {
	n := len(s)
	j := i
	if s[j] == '0' && j+1 < n && (s[j+1] == 'x' || s[j+1] == 'X') && j+2 < n && isHex(s[j+2]) {
		j += 2
		for j < n && isHex(s[j]) {
			j++
		}
	} else if s[j] == '0' && j+1 < n && (s[j+1] == 'b' || s[j+1] == 'B') && j+2 < n && (s[j+2] == '0' || s[j+2] == '1') {
		j += 2
		for j < n && (s[j] == '0' || s[j] == '1') {
			j++
		}
	} else {
		for j < n && isDigit(s[j]) {
			j++
		}
		if j < n && s[j] == '.' {
			j++
			for j < n && isDigit(s[j]) {
				j++
			}
		}
		if j < n && (s[j] == 'e' || s[j] == 'E') {
			k := j + 1
			if k < n && (s[k] == '+' || s[k] == '-') {
				k++
			}
			if k < n && isDigit(s[k]) {
				for k < n && isDigit(s[k]) {
					k++
				}
				j = k
			}
		}
	}
	// Lexer.cpp: a word character glued to a number is an error token ("1a").
	if j < n && isWordChar(s[j]) {
		return 0, syntaxErr(i, "malformed number %q", s[i:j+1])
	}
	return j, nil
}

var ops3 = []string{"<=>"}
var ops2 = []string{"==", "!=", "<>", "<=", ">=", "->", "::", "||"}

const ops1 = "()[]{},;*/%+-=<>?:|^@"

func scanOp(s string, i int) string {
	for _, o := range ops3 {
		if strings.HasPrefix(s[i:], o) {
			return o
		}
	}
	for _, o := range ops2 {
		if strings.HasPrefix(s[i:], o) {
			return o
		}
	}
	if strings.IndexByte(ops1, s[i]) >= 0 {
		return s[i : i+1]
	}
	return ""
}

// UnescapeString decodes the inside of a single-quoted ClickHouse string literal.
//
// Rules and sources:
//
//  1. docs, "Syntax / String": supported escape sequences are \\ \' \b \f \r \n \t \0 \a
//     \v \xHH; a single quote may also be written doubled (”). "The backslash loses its
//     special meaning, i.e. will be interpreted literally, if it precedes characters
//     different than the listed ones" — i.e. an unknown escape keeps BOTH the backslash and
//     the character (this is what makes '\%' and '\.' usable in LIKE and match patterns).
//  2. src/IO/ReadHelpers.cpp parseComplexEscapeSequence / parseEscapeSequence (used by
//     ParserStringLiteral through readQuotedStringWithSQLStyle) adds what the docs omit:
//     \e is ESC (0x1B); \N is the empty string; the backslash is dropped (character kept)
//     before " ` / = and before any ASCII control character (<= 0x1F); \x must be followed
//     by two more bytes, which are hex-decoded.
//  3. a backslash as the very last byte cannot happen inside a lexed token (the lexer pairs
//     it with the closing quote) and is reported as an error here.
func UnescapeString(body string) (string, error) { return unescapeQuoted(body, '\'') }

func unescapeQuoted(body string, q byte) (string, error) {
	if strings.IndexByte(body, '\\') < 0 && strings.IndexByte(body, q) < 0 {
		return body, nil
	}
	var b strings.Builder
	for i := 0; i < len(body); i++ {
		c := body[i]
		if c == q {
			// can only be the first half of a doubled quote
			if i+1 < len(body) && body[i+1] == q {
				b.WriteByte(q)
				i++
				continue
			}
			return "", fmt.Errorf("unescaped quote inside literal")
		}
		if c != '\\' {
			b.WriteByte(c)
			continue
		}
		if i+1 >= len(body) {
			return "", fmt.Errorf("dangling backslash at end of literal")
		}
		i++
		e := body[i]
		switch e {
		case 'x':
			if i+2 >= len(body) {
				return "", fmt.Errorf("incomplete \\x escape")
			}
			// ClickHouse uses unhex2 without validation; non-hex digits give garbage there.
			// The planners never emit \x with non-hex digits except \x1a; reject the rest.
			if !isHex(body[i+1]) || !isHex(body[i+2]) {
				return "", fmt.Errorf("invalid \\x escape")
			}
			b.WriteByte(unhex(body[i+1])<<4 | unhex(body[i+2]))
			i += 2
		case 'N':
			// empty
		default:
			d := e
			switch e {
			case 'a':
				d = '\a'
			case 'b':
				d = '\b'
			case 'e':
				d = 0x1b
			case 'f':
				d = '\f'
			case 'n':
				d = '\n'
			case 'r':
				d = '\r'
			case 't':
				d = '\t'
			case 'v':
				d = '\v'
			case '0':
				d = 0
			}
			if d != '\\' && d != '\'' && d != '"' && d != '`' && d != '/' && d != '=' && d > 31 {
				b.WriteByte('\\')
			}
			b.WriteByte(d)
		}
	}
	return b.String(), nil
}

func unhex(c byte) byte {
	switch {
	case c >= '0' && c <= '9':
		return c - '0'
	case c >= 'a' && c <= 'f':
		return c - 'a' + 10
	default:
		return c - 'A' + 10
	}
}

// QuoteString renders s as a single-quoted ClickHouse literal that decodes back to s
// (the printer half of the lexer∘printer round trip). Only \\ and \' are needed for
// correctness; control bytes are written as \xHH for readability.
func QuoteString(s string) string {
	var b strings.Builder
	b.WriteByte('\'')
	for i := 0; i < len(s); i++ {
		c := s[i]
		switch {
		case c == '\\':
			b.WriteString(`\\`)
		case c == '\'':
			b.WriteString(`\'`)
		case c < 0x20:
			fmt.Fprintf(&b, `\x%02x`, c)
		default:
			b.WriteByte(c)
		}
	}
	b.WriteByte('\'')
	return b.String()
}

// QuoteIdent renders an identifier in backticks.
func QuoteIdent(s string) string {
	var b strings.Builder
	b.WriteByte('`')
	for i := 0; i < len(s); i++ {
		c := s[i]
		switch {
		case c == '\\':
			b.WriteString(`\\`)
		case c == '`':
			b.WriteString("\\`")
		case c < 0x20:
			fmt.Fprintf(&b, `\x%02x`, c)
		default:
			b.WriteByte(c)
		}
	}
	b.WriteByte('`')
	return b.String()
}

// PrintTokens renders tokens so that Tokens(PrintTokens(t)) yields tokens with the same
// kinds and values.
func PrintTokens(toks []Token) string {
	var b strings.Builder
	for i, t := range toks {
		if i > 0 {
			b.WriteByte(' ')
		}
		switch t.Kind {
		case TokString:
			b.WriteString(QuoteString(t.Val))
		case TokQuotedIdent:
			b.WriteString(QuoteIdent(t.Val))
		default:
			b.WriteString(t.Text)
		}
	}
	return b.String()
}

// ---- LIKE ------------------------------------------------------------------------------

// LikeElem is one element of a parsed LIKE pattern.
type LikeElem struct {
	Any   bool   // %  : any run of bytes, possibly empty
	One   bool   // _  : exactly one character (one UTF-8 code point; one byte if invalid)
	Bytes string // literal bytes otherwise
}

// ParseLike parses a LIKE pattern (the *decoded* string value, not SQL text).
//
// Rules and sources (docs, "Functions / String search / like"; src/Functions/likePatternToRegexp.h):
//
//   - % matches any quantity of any bytes (including none), _ matches one character
//     ("matching is based on UTF-8, e.g. _ matches the code point ¥");
//   - \% \_ \\ stand for the literal characters % _ \;
//   - "the backslash loses its special meaning (i.e. is interpreted literally) if it
//     prepends a character different than %, _ or \": the backslash AND the character are
//     both literal;
//   - a pattern ending in a single backslash is rejected by current ClickHouse
//     ("Invalid escape sequence at the end of LIKE pattern", CANNOT_PARSE_ESCAPE_SEQUENCE);
//     ParseLike returns an error for it.
func ParseLike(pattern string) ([]LikeElem, error) {
	var out []LikeElem
	var lit []byte
	flush := func() {
		if len(lit) > 0 {
			out = append(out, LikeElem{Bytes: string(lit)})
			lit = nil
		}
	}
	for i := 0; i < len(pattern); i++ {
		c := pattern[i]
		switch c {
		case '%':
			flush()
			out = append(out, LikeElem{Any: true})
		case '_':
			flush()
			out = append(out, LikeElem{One: true})
		case '\\':
			if i+1 >= len(pattern) {
				return nil, fmt.Errorf("chsim: invalid escape sequence at the end of LIKE pattern %q", pattern)
			}
			n := pattern[i+1]
			if n == '%' || n == '_' || n == '\\' {
				lit = append(lit, n)
				i++
			} else {
				lit = append(lit, '\\')
			}
		default:
			lit = append(lit, c)
		}
	}
	flush()
	return out, nil
}

// UnescapeLike returns the literal text a LIKE pattern stands for when the pattern contains
// no active wildcard, plus ok=false if it does contain one (or is invalid).
func UnescapeLike(pattern string) (string, bool) {
	el, err := ParseLike(pattern)
	if err != nil {
		return "", false
	}
	var b strings.Builder
	for _, e := range el {
		if e.Any || e.One {
			return "", false
		}
		b.WriteString(e.Bytes)
	}
	return b.String(), true
}

// LikeCore strips ONE leading and ONE trailing unescaped % from a pattern of the form
// %core% and returns the literal text of core (ok=false when the pattern does not have
// that form, core contains an active wildcard, or the pattern is invalid). This is the
// "contains" idiom the LogQL line-filter planner emits.
func LikeCore(pattern string) (string, bool) {
	if len(pattern) < 2 || pattern[0] != '%' || pattern[len(pattern)-1] != '%' {
		return "", false
	}
	// If the final % was escaped, the middle ends in a dangling backslash and fails to parse.
	return UnescapeLike(pattern[1 : len(pattern)-1])
}

// EscapeLike escapes s so that it matches itself literally inside a LIKE pattern.
func EscapeLike(s string) string {
	r := strings.NewReplacer(`\`, `\\`, `%`, `\%`, `_`, `\_`)
	return r.Replace(s)
}

// LikeMatch reports whether s matches the LIKE pattern; fold selects ILIKE
// (case-insensitive; ClickHouse folds case through RE2's (?i), i.e. Unicode simple
// folding — we fold ASCII and use Go's unicode simple lower-casing for the rest).
func LikeMatch(pattern, s string, fold bool) (bool, error) {
	el, err := ParseLike(pattern)
	if err != nil {
		return false, err
	}
	if fold {
		s = foldCase(s)
		for i := range el {
			el[i].Bytes = foldCase(el[i].Bytes)
		}
	}
	// collapse runs of % (pure optimisation: keeps the backtracking matcher polynomial)
	cl := el[:0:0]
	for _, e := range el {
		if e.Any && len(cl) > 0 && cl[len(cl)-1].Any {
			continue
		}
		cl = append(cl, e)
	}
	return likeRec(cl, s), nil
}

// foldCase lower-cases for case-insensitive matching. Invalid UTF-8 is folded bytewise
// over ASCII only (strings.ToLower would rewrite the invalid bytes).
func foldCase(s string) string {
	if utf8.ValidString(s) {
		return strings.ToLower(s)
	}
	b := []byte(s)
	for i, c := range b {
		if c >= 'A' && c <= 'Z' {
			b[i] = c + 32
		}
	}
	return string(b)
}

func likeRec(el []LikeElem, s string) bool {
	if len(el) == 0 {
		return s == ""
	}
	e := el[0]
	switch {
	case e.Any:
		if len(el) == 1 {
			return true
		}
		for k := 0; k <= len(s); k++ {
			if likeRec(el[1:], s[k:]) {
				return true
			}
		}
		return false
	case e.One:
		if s == "" {
			return false
		}
		_, w := utf8.DecodeRuneInString(s)
		return likeRec(el[1:], s[w:])
	default:
		if !strings.HasPrefix(s, e.Bytes) {
			return false
		}
		return likeRec(el[1:], s[len(e.Bytes):])
	}
}

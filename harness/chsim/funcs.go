package chsim

import (
	"encoding/hex"
	"hash/fnv"
	"math"
	"regexp"
	"sort"
	"strconv"
	"strings"
	"sync"
)

// fnDef is an ordinary (strict) function. Unless nullOK, a NULL argument yields NULL
// without calling fn (ClickHouse's default implementation for Nullable arguments).
type fnDef struct {
	fn     func(args []any) (any, error)
	arity  int // exact number of arguments, or -1 with min/max
	min    int
	max    int // -1 = unbounded
	nullOK bool
}

func fixed(n int, fn func(a []any) (any, error)) fnDef { return fnDef{fn: fn, arity: n, max: -1} }
func variadic(min, max int, fn func(a []any) (any, error)) fnDef {
	return fnDef{fn: fn, arity: -1, min: min, max: max}
}

// functions: case-sensitive names (ClickHouse function names are case-sensitive except for
// a list of SQL-compatibility aliases, see functionsCI).
var functions map[string]fnDef

// functionsCI: names ClickHouse registers case-insensitively.
var functionsCI map[string]fnDef

// castFuncs: target type name (lower case) -> conversion.
var castFuncs map[string]func([]any) (any, error)

var specialForms map[string]func(en *env, c *Call) (any, error)

func init() {
	functions = map[string]fnDef{
		// ---- conversion (docs: Type conversion functions) ----
		"toFloat64":       fixed(1, fnToFloat64),
		"toFloat64OrNull": fixed(1, func(a []any) (any, error) { return toFloatOr(a[0], nil, "toFloat64OrNull") }),
		"toFloat64OrZero": fixed(1, func(a []any) (any, error) { return toFloatOr(a[0], float64(0), "toFloat64OrZero") }),
		"toUInt64":        fixed(1, func(a []any) (any, error) { return toIntN(a[0], 64, false, "toUInt64") }),
		"toUInt32":        fixed(1, func(a []any) (any, error) { return toIntN(a[0], 32, false, "toUInt32") }),
		"toUInt16":        fixed(1, func(a []any) (any, error) { return toIntN(a[0], 16, false, "toUInt16") }),
		"toUInt8":         fixed(1, func(a []any) (any, error) { return toIntN(a[0], 8, false, "toUInt8") }),
		"toInt64":         fixed(1, func(a []any) (any, error) { return toIntN(a[0], 64, true, "toInt64") }),
		"toInt32":         fixed(1, func(a []any) (any, error) { return toIntN(a[0], 32, true, "toInt32") }),
		"toInt16":         fixed(1, func(a []any) (any, error) { return toIntN(a[0], 16, true, "toInt16") }),
		"toInt8":          fixed(1, func(a []any) (any, error) { return toIntN(a[0], 8, true, "toInt8") }),
		"toString": fixed(1, func(a []any) (any, error) {
			s, err := toStringValue(a[0])
			return s, err
		}),
		"toDate": fixed(1, fnToDate),
		"toUnixTimestamp": fixed(1, func(a []any) (any, error) {
			// Date -> seconds of its midnight in the server time zone (modelled: UTC)
			switch x := a[0].(type) {
			case Date:
				return uint32(int64(x) * 86400), nil
			case string:
				d, err := ParseDate(x)
				if err != nil || len(x) != 10 {
					return nil, unsupported("toUnixTimestamp(%q)", x)
				}
				return uint32(int64(d) * 86400), nil
			}
			return nil, unsupported("toUnixTimestamp(%s)", typeName(a[0]))
		}),
		// ---- arithmetic / bit ----
		"intDiv":   fixed(2, func(a []any) (any, error) { return intDiv(a[0], a[1]) }),
		"plus":     fixed(2, func(a []any) (any, error) { return arith("+", a[0], a[1]) }),
		"minus":    fixed(2, func(a []any) (any, error) { return arith("-", a[0], a[1]) }),
		"multiply": fixed(2, func(a []any) (any, error) { return arith("*", a[0], a[1]) }),
		"divide":   fixed(2, func(a []any) (any, error) { return arith("/", a[0], a[1]) }),
		"modulo":   fixed(2, func(a []any) (any, error) { return arith("%", a[0], a[1]) }),
		"negate":   fixed(1, func(a []any) (any, error) { return negate(a[0]) }),
		"abs": fixed(1, func(a []any) (any, error) {
			k, w, u, i, f := numInfo(a[0])
			switch k {
			case kFloat:
				return math.Abs(f), nil
			case kUint:
				return mkUint(w, u), nil
			case kInt:
				if i < 0 {
					i = -i
				}
				return mkUint(w, uint64(i)), nil
			}
			return nil, execErr("illegal type %s of argument of abs", typeName(a[0]))
		}),
		"bitShiftLeft":  fixed(2, fnBitShiftLeft),
		"bitShiftRight": fixed(2, fnBitShiftRight),
		"bitAnd":        fixed(2, func(a []any) (any, error) { return bitOp("bitAnd", a[0], a[1]) }),
		"bitOr":         fixed(2, func(a []any) (any, error) { return bitOp("bitOr", a[0], a[1]) }),
		"bitXor":        fixed(2, func(a []any) (any, error) { return bitOp("bitXor", a[0], a[1]) }),
		// ---- comparison / logic as functions ----
		"equals":          fixed(2, func(a []any) (any, error) { return compareOp("==", a[0], a[1]) }),
		"notEquals":       fixed(2, func(a []any) (any, error) { return compareOp("!=", a[0], a[1]) }),
		"less":            fixed(2, func(a []any) (any, error) { return compareOp("<", a[0], a[1]) }),
		"lessOrEquals":    fixed(2, func(a []any) (any, error) { return compareOp("<=", a[0], a[1]) }),
		"greater":         fixed(2, func(a []any) (any, error) { return compareOp(">", a[0], a[1]) }),
		"greaterOrEquals": fixed(2, func(a []any) (any, error) { return compareOp(">=", a[0], a[1]) }),
		"and": {fn: func(a []any) (any, error) { return foldLogic("AND", a) }, arity: -1, min: 2, max: -1, nullOK: true},
		"or":  {fn: func(a []any) (any, error) { return foldLogic("OR", a) }, arity: -1, min: 2, max: -1, nullOK: true},
		"not": fixed(1, func(a []any) (any, error) { return fnNot(a[0]) }),
		"isNotNull": {fn: func(a []any) (any, error) { return b2u(a[0] != nil), nil }, arity: 1, max: -1, nullOK: true},
		"isNull":    {fn: func(a []any) (any, error) { return b2u(a[0] == nil), nil }, arity: 1, max: -1, nullOK: true},
		"assumeNotNull": {fn: func(a []any) (any, error) {
			if a[0] == nil {
				return Zero{}, nil
			}
			return a[0], nil
		}, arity: 1, max: -1, nullOK: true},
		// ---- strings ----
		"length": fixed(1, func(a []any) (any, error) {
			switch x := a[0].(type) {
			case string:
				return uint64(len(x)), nil
			case []any:
				return uint64(len(x)), nil
			case Map:
				return uint64(len(x)), nil
			case Zero:
				return uint64(0), nil
			}
			return nil, execErr("illegal type %s of argument of length", typeName(a[0]))
		}),
		"lower": fixed(1, func(a []any) (any, error) { // ASCII only (docs: lower)
			s, err := asString(a[0], "lower")
			if err != nil {
				return nil, err
			}
			b := []byte(s)
			for i, c := range b {
				if c >= 'A' && c <= 'Z' {
					b[i] = c + 32
				}
			}
			return string(b), nil
		}),
		"upper": fixed(1, func(a []any) (any, error) {
			s, err := asString(a[0], "upper")
			if err != nil {
				return nil, err
			}
			b := []byte(s)
			for i, c := range b {
				if c >= 'a' && c <= 'z' {
					b[i] = c - 32
				}
			}
			return string(b), nil
		}),
		"hex":   fixed(1, fnHex),
		"unhex": fixed(1, fnUnhex),
		"concat": variadic(1, -1, func(a []any) (any, error) {
			var b strings.Builder
			for _, x := range a {
				s, err := asString(x, "concat")
				if err != nil {
					return nil, err
				}
				b.WriteString(s)
			}
			return b.String(), nil
		}),
		"format":      variadic(1, -1, fnFormat),
		"splitByChar": variadic(2, 3, fnSplitByChar),
		"match": fixed(2, func(a []any) (any, error) {
			h, err := asString(a[0], "match")
			if err != nil {
				return nil, err
			}
			p, err := asString(a[1], "match")
			if err != nil {
				return nil, err
			}
			re, err := compileRE2(p)
			if err != nil {
				return nil, err
			}
			return b2u(re.MatchString(h)), nil
		}),
		"like":     fixed(2, func(a []any) (any, error) { return fnLike(a[0], a[1], false, false) }),
		"notLike":  fixed(2, func(a []any) (any, error) { return fnLike(a[0], a[1], true, false) }),
		"ilike":    fixed(2, func(a []any) (any, error) { return fnLike(a[0], a[1], false, true) }),
		"notILike": fixed(2, func(a []any) (any, error) { return fnLike(a[0], a[1], true, true) }),
		"extractAllGroupsHorizontal": fixed(2, fnExtractAllGroupsHorizontal),
		"position": fixed(2, func(a []any) (any, error) {
			h, err := asString(a[0], "position")
			if err != nil {
				return nil, err
			}
			n, err := asString(a[1], "position")
			if err != nil {
				return nil, err
			}
			return uint64(strings.Index(h, n) + 1), nil
		}),
		"empty": fixed(1, func(a []any) (any, error) {
			switch x := a[0].(type) {
			case string:
				return b2u(x == ""), nil
			case []any:
				return b2u(len(x) == 0), nil
			case Zero:
				return uint8(1), nil
			}
			return nil, execErr("illegal type %s of argument of empty", typeName(a[0]))
		}),
		"notEmpty": fixed(1, func(a []any) (any, error) {
			switch x := a[0].(type) {
			case string:
				return b2u(x != ""), nil
			case []any:
				return b2u(len(x) != 0), nil
			case Zero:
				return uint8(0), nil
			}
			return nil, execErr("illegal type %s of argument of notEmpty", typeName(a[0]))
		}),
		// ---- JSON ----
		"JSONExtractKeysAndValues": variadic(2, -1, fnJSONExtractKeysAndValues),
		"JSONExtractString":        variadic(1, -1, fnJSONExtractString),
		"JSONExtractRaw":           variadic(1, -1, fnJSONExtractRaw),
		"JSONType":                 variadic(1, -1, fnJSONType),
		"JSONHas":                  variadic(1, -1, fnJSONHas),
		// ---- maps ----
		"mapFromArrays": fixed(2, func(a []any) (any, error) {
			ks, err := asArray(a[0], "mapFromArrays")
			if err != nil {
				return nil, err
			}
			vs, err := asArray(a[1], "mapFromArrays")
			if err != nil {
				return nil, err
			}
			if len(ks) != len(vs) {
				return nil, execErr("mapFromArrays: key and value arrays have different sizes (%d, %d)", len(ks), len(vs))
			}
			m := make(Map, len(ks))
			for i := range ks {
				if ks[i] == nil {
					return nil, execErr("mapFromArrays: NULL key")
				}
				m[i] = Pair{ks[i], vs[i]}
			}
			return m, nil
		}),
		"mapKeys": fixed(1, func(a []any) (any, error) {
			m, err := asMap(a[0], "mapKeys")
			if err != nil {
				return nil, err
			}
			out := make([]any, len(m))
			for i, p := range m {
				out[i] = p.K
			}
			return out, nil
		}),
		"mapValues": fixed(1, func(a []any) (any, error) {
			m, err := asMap(a[0], "mapValues")
			if err != nil {
				return nil, err
			}
			out := make([]any, len(m))
			for i, p := range m {
				out[i] = p.V
			}
			return out, nil
		}),
		"mapContains": fixed(2, func(a []any) (any, error) {
			m, err := asMap(a[0], "mapContains")
			if err != nil {
				return nil, err
			}
			for _, p := range m {
				if c, err := compare(p.K, a[1]); err != nil {
					return nil, err
				} else if c == 0 {
					return uint8(1), nil
				}
			}
			return uint8(0), nil
		}),
		// mapUpdate(m1, m2): src/Functions/map.cpp FunctionMapUpdate — the pairs of m1 whose
		// key is absent from m2, in m1's order, followed by all pairs of m2 in m2's order.
		"mapUpdate": fixed(2, func(a []any) (any, error) {
			m1, err := asMap(a[0], "mapUpdate")
			if err != nil {
				return nil, err
			}
			m2, err := asMap(a[1], "mapUpdate")
			if err != nil {
				return nil, err
			}
			out := Map{}
			for _, p := range m1 {
				found := false
				for _, q := range m2 {
					if c, err := compare(p.K, q.K); err != nil {
						return nil, err
					} else if c == 0 {
						found = true
						break
					}
				}
				if !found {
					out = append(out, p)
				}
			}
			return append(out, m2...), nil
		}),
		// ---- arrays ----
		"array": {fn: func(a []any) (any, error) { return append([]any{}, a...), nil }, arity: -1, max: -1, nullOK: true},
		"arrayZip": variadic(1, -1, func(a []any) (any, error) {
			n := -1
			arrs := make([][]any, len(a))
			for i, x := range a {
				arr, err := asArray(x, "arrayZip")
				if err != nil {
					return nil, err
				}
				if n >= 0 && len(arr) != n {
					return nil, execErr("arrayZip: arrays of different sizes")
				}
				n = len(arr)
				arrs[i] = arr
			}
			out := make([]any, n)
			for k := 0; k < n; k++ {
				t := make(Tuple, len(arrs))
				for i := range arrs {
					t[i] = arrs[i][k]
				}
				out[k] = t
			}
			return out, nil
		}),
		"arraySlice": variadic(2, 3, fnArraySlice),
		"arrayElement": fixed(2, func(a []any) (any, error) { return arrayElement(a[0], a[1]) }),
		"has": fixed(2, func(a []any) (any, error) {
			arr, err := asArray(a[0], "has")
			if err != nil {
				return nil, err
			}
			for _, e := range arr {
				if e == nil {
					continue
				}
				if c, err := compare(e, a[1]); err != nil {
					return nil, err
				} else if c == 0 {
					return uint8(1), nil
				}
			}
			return uint8(0), nil
		}),
		"arrayConcat": variadic(1, -1, func(a []any) (any, error) {
			out := []any{}
			for _, x := range a {
				arr, err := asArray(x, "arrayConcat")
				if err != nil {
					return nil, err
				}
				out = append(out, arr...)
			}
			return out, nil
		}),
		"arrayDistinct": fixed(1, func(a []any) (any, error) {
			arr, err := asArray(a[0], "arrayDistinct")
			if err != nil {
				return nil, err
			}
			seen := map[string]bool{}
			out := []any{}
			for _, e := range arr {
				if e == nil {
					continue
				}
				k := valueKey(e)
				if !seen[k] {
					seen[k] = true
					out = append(out, e)
				}
			}
			return out, nil
		}),
		"tupleElement": fixed(2, func(a []any) (any, error) {
			t, ok := a[0].(Tuple)
			n, err := asInt(a[1], "tupleElement")
			if !ok || err != nil || n < 1 || int(n) > len(t) {
				return nil, execErr("tupleElement: bad arguments")
			}
			return t[n-1], nil
		}),
		// ---- hashing ----
		// cityHash64 is modelled by a deterministic, order- and type-shape-sensitive 64-bit
		// hash of the canonical serialisation (FNV-1a). Only identity matters to the
		// properties; the numeric values differ from ClickHouse's.
		"cityHash64": {fn: func(a []any) (any, error) {
			h := fnv.New64a()
			for _, x := range a {
				h.Write([]byte(valueKey(x)))
			}
			return h.Sum64(), nil
		}, arity: -1, min: 1, max: -1, nullOK: true},
	}
	functionsCI = map[string]fnDef{}
	for _, n := range []string{"lower", "upper", "length", "concat", "abs", "hex", "unhex", "position", "format"} {
		functionsCI[n] = functions[n]
	}
	registerStringFuncs()
	functionsCI["lcase"] = functions["lower"]
	functionsCI["ucase"] = functions["upper"]
	castFuncs = map[string]func([]any) (any, error){}
	for _, n := range []string{"Float64", "UInt64", "UInt32", "UInt16", "UInt8", "Int64", "Int32", "Int16", "Int8", "String", "Date"} {
		castFuncs[strings.ToLower(n)] = functions["to"+n].fn
	}
	specialForms = map[string]func(en *env, c *Call) (any, error){
		"if": func(en *env, c *Call) (any, error) {
			if len(c.Args) != 3 {
				return nil, execErr("if takes 3 arguments")
			}
			v, err := en.evalIf(c.Args[0], c.Args[1], c.Args[2])
			if err != nil {
				return nil, err
			}
			return v, nil
		},
		"arrayMap":    sfArrayMap,
		"arrayFilter": sfArrayFilter,
		"arrayExists": sfArrayExists,
		"arrayFirst":  sfArrayFirst,
		"arraySort":   func(en *env, c *Call) (any, error) { return sfArraySort(en, c, false) },
		"arrayReverseSort": func(en *env, c *Call) (any, error) { return sfArraySort(en, c, true) },
		"mapFilter":   sfMapFilter,
		"__inlist":    sfInList,
	}
}

func foldLogic(op string, a []any) (any, error) {
	acc := a[0]
	for _, x := range a[1:] {
		v, err := logic(op, acc, x)
		if err != nil {
			return nil, err
		}
		acc = v
	}
	if acc != nil {
		t, err := truth(acc)
		if err != nil {
			return nil, err
		}
		return b2u(t), nil
	}
	return nil, nil
}

// ---- conversions -----------------------------------------------------------------------

func fnToFloat64(a []any) (any, error) {
	switch x := a[0].(type) {
	case string:
		f, ok := parseFloatCH(x)
		if !ok {
			return nil, execErr("cannot parse string %q as Float64", x)
		}
		return f, nil
	case Date:
		return float64(x), nil
	}
	f, ok := toFloat(a[0])
	if !ok {
		return nil, execErr("illegal type %s of argument of toFloat64", typeName(a[0]))
	}
	return f, nil
}

// toFloat64OrNull / OrZero accept only String (ILLEGAL_TYPE_OF_ARGUMENT otherwise).
func toFloatOr(v any, def any, fn string) (any, error) {
	s, ok := v.(string)
	if !ok {
		if _, z := v.(Zero); z {
			return def, nil
		}
		return nil, execErr("illegal type %s of argument of %s (String expected)", typeName(v), fn)
	}
	f, ok := parseFloatCH(s)
	if !ok {
		return def, nil
	}
	return f, nil
}

func toIntN(v any, bits int, signed bool, fn string) (any, error) {
	var u uint64
	switch x := v.(type) {
	case string:
		if signed {
			i, err := strconv.ParseInt(x, 10, 64)
			if err != nil {
				return nil, execErr("cannot parse string %q as Int%d", x, bits)
			}
			u = uint64(i)
		} else {
			// ClickHouse's readIntText for unsigned types accepts a leading '-' and wraps;
			// not modelled: reject.
			p, err := strconv.ParseUint(strings.TrimPrefix(x, "+"), 10, 64)
			if err != nil {
				return nil, execErr("cannot parse string %q as UInt%d", x, bits)
			}
			u = p
		}
	case Date:
		u = uint64(x)
	default:
		k, _, uu, _, f := numInfo(v)
		switch k {
		case kNone:
			return nil, execErr("illegal type %s of argument of %s", typeName(v), fn)
		case kFloat:
			if math.IsNaN(f) || math.IsInf(f, 0) {
				return nil, unsupported("%s(%v) is undefined behaviour in ClickHouse", fn, f)
			}
			if f < 0 {
				u = uint64(int64(f))
			} else {
				u = uint64(f)
			}
		default:
			u = uu
		}
	}
	if signed {
		switch bits {
		case 8:
			return int8(u), nil
		case 16:
			return int16(u), nil
		case 32:
			return int32(u), nil
		}
		return int64(u), nil
	}
	return mkUint(bits, u&maskBits(bits)), nil
}

func maskBits(bits int) uint64 {
	if bits >= 64 {
		return ^uint64(0)
	}
	return (uint64(1) << bits) - 1
}

func fnToDate(a []any) (any, error) {
	switch x := a[0].(type) {
	case Date:
		return x, nil
	case string:
		return ParseDate(x)
	}
	if k, _, u, _, _ := numInfo(a[0]); k == kUint && u <= 65535 {
		return Date(u), nil // docs: a small number is a day count
	}
	return nil, unsupported("toDate(%s)", typeName(a[0]))
}

// ---- bit functions ---------------------------------------------------------------------

// bitShiftLeft / bitShiftRight(a, n): result type NumberTraits::ResultOfBit<A, B> — as wide
// as the wider of the two arguments, signed if either is (src/Functions/bitShiftLeft.cpp);
// the docs say "the type of a", which coincides whenever n is a small literal. Bits shifted
// out are lost: bitShiftLeft(<UInt8>, 8) = 0.
func shiftArgs(fn string, a []any) (w int, signed bool, u, n uint64, err error) {
	k, wa, u, _, _ := numInfo(a[0])
	kn, wn, n, ni, _ := numInfo(a[1])
	if (k != kUint && k != kInt) || (kn != kUint && kn != kInt) {
		return 0, false, 0, 0, execErr("illegal types %s, %s of arguments of %s", typeName(a[0]), typeName(a[1]), fn)
	}
	if kn == kInt && ni < 0 {
		return 0, false, 0, 0, unsupported("%s with a negative shift", fn)
	}
	w = wa
	if wn > w {
		w = wn
	}
	return w, k == kInt || kn == kInt, u, n, nil
}

func fnBitShiftLeft(a []any) (any, error) {
	w, signed, u, n, err := shiftArgs("bitShiftLeft", a)
	if err != nil {
		return nil, err
	}
	var r uint64
	if n < uint64(w) {
		r = (u << n) & maskBits(w)
	}
	if signed {
		return mkInt(w, int64(r)), nil
	}
	return mkUint(w, r), nil
}

func fnBitShiftRight(a []any) (any, error) {
	w, signed, u, n, err := shiftArgs("bitShiftRight", a)
	if err != nil {
		return nil, err
	}
	if signed {
		return nil, unsupported("bitShiftRight of a signed value")
	}
	var r uint64
	if n < uint64(w) {
		r = (u & maskBits(w)) >> n
	}
	return mkUint(w, r), nil
}

// bitAnd/bitOr/bitXor: result as wide as the wider argument, signed if either is signed.
func bitOp(fn string, a, b any) (any, error) {
	ka, wa, ua, _, _ := numInfo(a)
	kb, wb, ub, _, _ := numInfo(b)
	if (ka != kUint && ka != kInt) || (kb != kUint && kb != kInt) {
		return nil, execErr("illegal types %s, %s of arguments of %s", typeName(a), typeName(b), fn)
	}
	w := wa
	if wb > w {
		w = wb
	}
	var r uint64
	switch fn {
	case "bitAnd":
		r = ua & ub
	case "bitOr":
		r = ua | ub
	default:
		r = ua ^ ub
	}
	if ka == kInt || kb == kInt {
		return mkInt(w, int64(r)), nil
	}
	return mkUint(w, r&maskBits(w)), nil
}

// ---- strings ---------------------------------------------------------------------------

func fnHex(a []any) (any, error) {
	switch x := a[0].(type) {
	case string:
		return strings.ToUpper(hex.EncodeToString([]byte(x))), nil
	case Zero:
		return "", nil
	}
	k, w, u, _, _ := numInfo(a[0])
	if k == kUint || k == kInt {
		s := strings.ToUpper(strconv.FormatUint(u&maskBits(w), 16))
		if len(s)%2 == 1 {
			s = "0" + s // docs: hex prints whole bytes ("hex(1) = 01")
		}
		return s, nil
	}
	return nil, unsupported("hex(%s)", typeName(a[0]))
}

func fnUnhex(a []any) (any, error) {
	s, err := asString(a[0], "unhex")
	if err != nil {
		return nil, err
	}
	for i := 0; i < len(s); i++ {
		if !isHex(s[i]) {
			// docs: "if the argument contains anything other than hexadecimal digits, some
			// implementation-defined result is returned"
			return nil, unsupported("unhex of a non-hex string is implementation-defined")
		}
	}
	if len(s)%2 == 1 {
		s = "0" + s
	}
	b, _ := hex.DecodeString(s)
	return string(b), nil
}

// format(pattern, args...): {} in order or {N}; {{ and }} are literal braces.
func fnFormat(a []any) (any, error) {
	p, err := asString(a[0], "format")
	if err != nil {
		return nil, err
	}
	args := make([]string, len(a)-1)
	for i, x := range a[1:] {
		s, err := toStringValue(x)
		if err != nil {
			return nil, err
		}
		args[i] = s
	}
	var b strings.Builder
	next, mode := 0, 0 // mode: 0 unknown, 1 sequential, 2 indexed
	for i := 0; i < len(p); i++ {
		c := p[i]
		switch {
		case c == '{' && i+1 < len(p) && p[i+1] == '{':
			b.WriteByte('{')
			i++
		case c == '}' && i+1 < len(p) && p[i+1] == '}':
			b.WriteByte('}')
			i++
		case c == '{':
			j := strings.IndexByte(p[i:], '}')
			if j < 0 {
				return nil, execErr("format: unbalanced {")
			}
			inside := p[i+1 : i+j]
			idx := next
			if inside == "" {
				if mode == 2 {
					return nil, execErr("format: cannot mix {} and {N}")
				}
				mode = 1
				next++
			} else {
				n, err := strconv.Atoi(inside)
				if err != nil || mode == 1 {
					return nil, execErr("format: bad placeholder {%s}", inside)
				}
				mode = 2
				idx = n
			}
			if idx < 0 || idx >= len(args) {
				return nil, execErr("format: argument %d out of range", idx)
			}
			b.WriteString(args[idx])
			i += j
		case c == '}':
			return nil, execErr("format: unbalanced }")
		default:
			b.WriteByte(c)
		}
	}
	return b.String(), nil
}

func fnSplitByChar(a []any) (any, error) {
	sep, err := asString(a[0], "splitByChar")
	if err != nil {
		return nil, err
	}
	s, err := asString(a[1], "splitByChar")
	if err != nil {
		return nil, err
	}
	if len(sep) != 1 {
		return nil, execErr("splitByChar: separator must be exactly one byte")
	}
	if len(a) == 3 {
		return nil, unsupported("splitByChar with max_substrings")
	}
	parts := strings.Split(s, sep)
	out := make([]any, len(parts))
	for i, p := range parts {
		out[i] = p
	}
	return out, nil
}

var reCache sync.Map

// compileRE2: ClickHouse regular-expression functions use RE2 with "dot matches newline"
// (docs, String search functions: "unlike re2's default behaviour, . matches line breaks").
// Go's regexp implements the RE2 syntax; patterns RE2 accepts but Go rejects (\C, \pN in
// some forms) surface as ErrUnsupported rather than as a ClickHouse error.
func compileRE2(p string) (*regexp.Regexp, error) {
	if v, ok := reCache.Load(p); ok {
		if re, ok := v.(*regexp.Regexp); ok {
			return re, nil
		}
		return nil, v.(error)
	}
	re, err := regexp.Compile("(?s)" + p)
	if err != nil {
		e := execErr("cannot compile regular expression %q: %v", p, err)
		reCache.Store(p, e)
		return nil, e
	}
	reCache.Store(p, re)
	return re, nil
}

func fnLike(x, p any, not, fold bool) (any, error) {
	if x == nil || p == nil {
		return nil, nil
	}
	s, err := asString(x, "like")
	if err != nil {
		return nil, err
	}
	pat, err := asString(p, "like")
	if err != nil {
		return nil, err
	}
	ok, err := LikeMatch(pat, s, fold)
	if err != nil {
		return nil, execErr("%v", err)
	}
	return b2u(ok != not), nil
}

// extractAllGroupsHorizontal(haystack, pattern): array of arrays, the k-th holding every
// match of group k (docs). The pattern must contain a group. A group that did not
// participate contributes ''.
func fnExtractAllGroupsHorizontal(a []any) (any, error) {
	h, err := asString(a[0], "extractAllGroupsHorizontal")
	if err != nil {
		return nil, err
	}
	p, err := asString(a[1], "extractAllGroupsHorizontal")
	if err != nil {
		return nil, err
	}
	re, err := compileRE2(p)
	if err != nil {
		return nil, err
	}
	ng := re.NumSubexp()
	if ng == 0 {
		return nil, execErr("extractAllGroupsHorizontal: there are no groups in the regexp %q", p)
	}
	out := make([]any, ng)
	for i := range out {
		out[i] = []any{}
	}
	for _, m := range re.FindAllStringSubmatchIndex(h, -1) {
		for g := 1; g <= ng; g++ {
			s := ""
			if m[2*g] >= 0 {
				s = h[m[2*g]:m[2*g+1]]
			}
			out[g-1] = append(out[g-1].([]any), s)
		}
	}
	return out, nil
}

// ---- arrays ----------------------------------------------------------------------------

// arraySlice(arr, offset[, length]): offset is 1-based, negative counts from the end;
// a negative length means "up to that many elements before the end" (docs).
func fnArraySlice(a []any) (any, error) {
	arr, err := asArray(a[0], "arraySlice")
	if err != nil {
		return nil, err
	}
	off, err := asInt(a[1], "arraySlice")
	if err != nil {
		return nil, err
	}
	n := int64(len(arr))
	var start int64
	switch {
	case off > 0:
		start = off - 1
	case off < 0:
		start = n + off
		if start < 0 {
			start = 0
		}
	default:
		return nil, unsupported("arraySlice with offset 0")
	}
	if start > n {
		start = n
	}
	end := n
	if len(a) == 3 {
		l, err := asInt(a[2], "arraySlice")
		if err != nil {
			return nil, err
		}
		if l >= 0 {
			end = start + l
		} else {
			end = n + l
		}
	}
	if end > n {
		end = n
	}
	if end < start {
		end = start
	}
	return append([]any{}, arr[start:end]...), nil
}

// lambdaArgs evaluates "f(lambda, arr1, arr2, ...)" arguments.
func lambdaArgs(en *env, c *Call, minArrays int) (*closure, [][]any, error) {
	if len(c.Args) < 1+minArrays {
		return nil, nil, execErr("%s: too few arguments", c.Name)
	}
	fv, err := en.eval(c.Args[0])
	if err != nil {
		return nil, nil, err
	}
	f, ok := fv.(*closure)
	if !ok {
		return nil, nil, execErr("%s: first argument must be a lambda", c.Name)
	}
	var arrs [][]any
	for _, a := range c.Args[1:] {
		v, err := en.eval(a)
		if err != nil {
			return nil, nil, err
		}
		if v == nil {
			return nil, nil, unsupported("%s over a NULL array", c.Name)
		}
		arr, err := asArray(v, c.Name)
		if err != nil {
			return nil, nil, err
		}
		if len(arrs) > 0 && len(arr) != len(arrs[0]) {
			return nil, nil, execErr("%s: arrays of different sizes", c.Name)
		}
		arrs = append(arrs, arr)
	}
	if len(arrs) != len(f.params) {
		return nil, nil, execErr("%s: lambda takes %d arguments, %d arrays given", c.Name, len(f.params), len(arrs))
	}
	return f, arrs, nil
}

func nthArgs(arrs [][]any, k int) []any {
	out := make([]any, len(arrs))
	for i := range arrs {
		out[i] = arrs[i][k]
	}
	return out
}

func sfArrayMap(en *env, c *Call) (any, error) {
	f, arrs, err := lambdaArgs(en, c, 1)
	if err != nil {
		return nil, err
	}
	out := make([]any, len(arrs[0]))
	for k := range out {
		v, err := f.call(nthArgs(arrs, k)...)
		if err != nil {
			return nil, err
		}
		out[k] = v
	}
	return out, nil
}

func sfArrayFilter(en *env, c *Call) (any, error) {
	f, arrs, err := lambdaArgs(en, c, 1)
	if err != nil {
		return nil, err
	}
	out := []any{}
	for k := range arrs[0] {
		v, err := f.call(nthArgs(arrs, k)...)
		if err != nil {
			return nil, err
		}
		t, err := truth(v)
		if err != nil {
			return nil, err
		}
		if t {
			out = append(out, arrs[0][k])
		}
	}
	return out, nil
}

func sfArrayExists(en *env, c *Call) (any, error) {
	f, arrs, err := lambdaArgs(en, c, 1)
	if err != nil {
		return nil, err
	}
	for k := range arrs[0] {
		v, err := f.call(nthArgs(arrs, k)...)
		if err != nil {
			return nil, err
		}
		t, err := truth(v)
		if err != nil {
			return nil, err
		}
		if t {
			return uint8(1), nil
		}
	}
	return uint8(0), nil
}

func sfArrayFirst(en *env, c *Call) (any, error) {
	f, arrs, err := lambdaArgs(en, c, 1)
	if err != nil {
		return nil, err
	}
	for k := range arrs[0] {
		v, err := f.call(nthArgs(arrs, k)...)
		if err != nil {
			return nil, err
		}
		t, err := truth(v)
		if err != nil {
			return nil, err
		}
		if t {
			return arrs[0][k], nil
		}
	}
	if len(arrs[0]) > 0 {
		return zeroLike(arrs[0][0]), nil
	}
	return Zero{}, nil
}

// arraySort([f,] arr...): ascending by the element or by f's value; NULL and NaN last.
// ClickHouse's sort here is not guaranteed stable; chsim's is, so results that depend on the
// order of equal keys are an unspecified-order zone for callers.
func sfArraySort(en *env, c *Call, reverse bool) (any, error) {
	if len(c.Args) == 0 {
		return nil, execErr("%s: too few arguments", c.Name)
	}
	var keys, arr []any
	if _, isLambda := c.Args[0].(*Lambda); isLambda {
		f, arrs, err := lambdaArgs(en, c, 1)
		if err != nil {
			return nil, err
		}
		arr = arrs[0]
		keys = make([]any, len(arr))
		for k := range arr {
			v, err := f.call(nthArgs(arrs, k)...)
			if err != nil {
				return nil, err
			}
			keys[k] = v
		}
	} else {
		if len(c.Args) != 1 {
			return nil, execErr("%s: without a lambda exactly one array is expected", c.Name)
		}
		v, err := en.eval(c.Args[0])
		if err != nil || v == nil {
			return nil, err
		}
		if arr, err = asArray(v, c.Name); err != nil {
			return nil, err
		}
		keys = arr
	}
	idx := make([]int, len(arr))
	for i := range idx {
		idx[i] = i
	}
	var sortErr error
	sort.SliceStable(idx, func(i, j int) bool {
		a, b := keys[idx[i]], keys[idx[j]]
		cmp, err := compareNullable(a, b)
		if err != nil {
			sortErr = err
			return false
		}
		if a == nil || b == nil || isNaN(a) || isNaN(b) {
			return cmp < 0
		}
		if reverse {
			return cmp > 0
		}
		return cmp < 0
	})
	if sortErr != nil {
		return nil, sortErr
	}
	out := make([]any, len(arr))
	for i, k := range idx {
		out[i] = arr[k]
	}
	return out, nil
}

func sfMapFilter(en *env, c *Call) (any, error) {
	if len(c.Args) != 2 {
		return nil, execErr("mapFilter takes a lambda and a map")
	}
	fv, err := en.eval(c.Args[0])
	if err != nil {
		return nil, err
	}
	f, ok := fv.(*closure)
	if !ok || len(f.params) != 2 {
		return nil, execErr("mapFilter: first argument must be a lambda of (key, value)")
	}
	mv, err := en.eval(c.Args[1])
	if err != nil || mv == nil {
		return nil, err
	}
	m, err := asMap(mv, "mapFilter")
	if err != nil {
		return nil, err
	}
	out := Map{}
	for _, p := range m {
		v, err := f.call(p.K, p.V)
		if err != nil {
			return nil, err
		}
		t, err := truth(v)
		if err != nil {
			return nil, err
		}
		if t {
			out = append(out, p)
		}
	}
	return out, nil
}

// __inlist(x, e1, ..., en, not): IN over a list with non-constant members.
func sfInList(en *env, c *Call) (any, error) {
	x, err := en.eval(c.Args[0])
	if err != nil || x == nil {
		return nil, err
	}
	not := c.Args[len(c.Args)-1].(*Lit).V.(bool)
	for _, a := range c.Args[1 : len(c.Args)-1] {
		v, err := en.eval(a)
		if err != nil {
			return nil, err
		}
		if v == nil {
			continue
		}
		cmp, err := compare(x, v)
		if err != nil {
			return nil, err
		}
		if cmp == 0 {
			return b2u(!not), nil
		}
	}
	return b2u(not), nil
}

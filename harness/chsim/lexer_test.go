package chsim

import (
	"errors"
	"regexp"
	"strings"
	"testing"
	"unicode/utf8"

	"pgregory.net/rapid"
)

func TestUnescapeDocCases(t *testing.T) {
	// docs "Syntax / String": \\ \' \b \f \r \n \t \0 \a \v \xHH, '' ; unknown keeps backslash.
	cases := []struct{ src, want string }{
		{`'hello'`, "hello"},
		{`''`, ""},
		{`'a\\b'`, `a\b`},
		{`'it\'s'`, "it's"},
		{`'it''s'`, "it's"},
		{`'\b\f\r\n\t\0\a\v'`, "\b\f\r\n\t\x00\a\v"},
		{`'\x41\x1a\xff'`, "A\x1a\xff"},
		{`'\%\_\.\d\w'`, `\%\_\.\d\w`}, // unknown escapes keep the backslash
		{`'\"'`, `"`},                   // ReadHelpers.cpp: backslash dropped before "
		{"'\\`'", "`"},
		{`'\/\='`, `/=`},
		{`'\e'`, "\x1b"},
		{`'a\Nb'`, "ab"},
		{"'\\\n'", "\n"}, // backslash before a control byte is dropped
		{`'--'`, "--"},
		{`'/* x */'`, "/* x */"},
		{"'a\nb'", "a\nb"},
		{"'\x00'", "\x00"},
		{`'` + "\xff\xfe" + `'`, "\xff\xfe"},
	}
	for _, c := range cases {
		toks, err := Tokens(c.src)
		if err != nil || len(toks) != 1 || toks[0].Kind != TokString {
			t.Errorf("%s: toks=%v err=%v", c.src, toks, err)
			continue
		}
		if toks[0].Val != c.want {
			t.Errorf("%s: got %q want %q", c.src, toks[0].Val, c.want)
		}
	}
}

func TestLexErrors(t *testing.T) {
	for _, src := range []string{
		`'abc`, `'abc\'`, `'abc\`, "`abc", `"abc`, `/* abc`, `SELECT 1 /* x`, `'a' 'b`, `!`, `a ! b`,
		"\xc3\xa9", `1a`, `$x$ abc`, `'\x4'`, "``",
	} {
		if _, err := Tokens(src); err == nil || !errors.Is(err, ErrSyntax) {
			t.Errorf("%q: expected syntax error, got %v", src, err)
		}
	}
}

func TestLexShapes(t *testing.T) {
	cases := []struct{ src, shape string }{
		{"SELECT a.b, t.1, x.1.2 FROM `db`.tbl -- c\n WHERE x==1", "select a . b , t . N , x . N . N from `db` . tbl where x == N"},
		{`a != 'x' and b <> 1.5e3 or c<=.5 # zz`, "a != 'S' and b <> N or c <= N"},
		{`x -> y :: Float64 || 'a' % 2 >= 0x1F`, "x -> y :: float64 || 'S' % N >= N"},
		{`/* c */ 1 /* d */ + /**/ 2`, "N + N"},
		{`f(a)[1].2`, "f ( a ) [ N ] . N"},
		{`"quoted ""id"""`, "`quoted \"id\"`"},
		{`$tag$ any 'thing' $tag$`, "'S'"},
		{`a<=>b`, "a <=> b"},
		{`{x:UInt8}`, "{ x : uint8 }"},
		{`1.`, "N"},
		{`(1).2`, "( N ) . N"},
	}
	for _, c := range cases {
		toks, err := Tokens(c.src)
		if err != nil {
			t.Errorf("%q: %v", c.src, err)
			continue
		}
		if got := Shape(toks); got != c.shape {
			t.Errorf("%q:\n got  %s\n want %s", c.src, got, c.shape)
		}
	}
}

func TestLikeDocCases(t *testing.T) {
	cases := []struct {
		pat, s string
		want   bool
	}{
		{"%", "", true}, {"%", "abc", true}, {"", "", true}, {"", "a", false},
		{"abc", "abc", true}, {"abc", "xabc", false}, {"%abc", "xabc", true}, {"abc%", "abcx", true},
		{"a_c", "abc", true}, {"a_c", "ac", false}, {"a_c", "a¥c", true}, // _ is one code point
		{`100\%`, "100%", true}, {`100\%`, "1000", false},
		{`a\_b`, "a_b", true}, {`a\_b`, "axb", false},
		{`a\\b`, `a\b`, true}, {`a\\b`, `a\\b`, false},
		{`a\bc`, `a\bc`, true}, {`a\bc`, `abc`, false}, // unknown escape: both literal
		{"%a.c%", "xa.cx", true}, {"%a.c%", "xabcx", false}, // regex metachars literal
		{"%a\nb%", "xa\nbx", true}, {"a%", "a\nb", true}, // % spans newlines
		{"%%a%%", "bab", true},
	}
	for _, c := range cases {
		got, err := LikeMatch(c.pat, c.s, false)
		if err != nil || got != c.want {
			t.Errorf("like(%q,%q)=%v,%v want %v", c.s, c.pat, got, err, c.want)
		}
	}
	if _, err := LikeMatch(`abc\`, "abc\\", false); err == nil {
		t.Errorf("trailing backslash must be rejected")
	}
	if ok, _ := LikeMatch("%HeLLo%", "say hello!", true); !ok {
		t.Errorf("ilike")
	}
	if ok, _ := LikeMatch("%HeLLo%", "say hello!", false); ok {
		t.Errorf("like is case sensitive")
	}
	for _, c := range []struct {
		pat, core string
		ok        bool
	}{
		{"%abc%", "abc", true}, {"%%", "", true}, {`%a\%b%`, "a%b", true}, {`%a\\%`, `a\`, true},
		{`%a\%`, "", false}, {"%a%b%", "", false}, {"%a_b%", "", false}, {"abc%", "", false}, {"%", "", false},
		{`%a\x%`, `a\x`, true},
	} {
		got, ok := LikeCore(c.pat)
		if ok != c.ok || got != c.core {
			t.Errorf("LikeCore(%q)=%q,%v want %q,%v", c.pat, got, ok, c.core, c.ok)
		}
	}
}

var hostile = []string{"'", `\`, `"`, "`", "%", "_", "\x00", "\n", "\r", "\t", "--", "/*", "*/", "#", "''", `\'`, "é", "\xff", "\xc3", "a", "b", " ", "x", "0", "$", ";", ")", "(", "\x1a", "\b"}

func genHostile(rt *rapid.T, label string) string {
	parts := rapid.SliceOfN(rapid.OneOf(rapid.SampledFrom(hostile), rapid.Map(rapid.Byte(), func(b byte) string { return string([]byte{b}) })), 0, 12).Draw(rt, label)
	return strings.Join(parts, "")
}

// lexer∘printer: any byte string printed as a literal lexes to exactly one string token
// that decodes to the original, also when embedded in a statement.
func TestRapidQuoteRoundTrip(t *testing.T) {
	rapid.Check(t, func(rt *rapid.T) {
		s := genHostile(rt, "s")
		id := genHostile(rt, "id")
		src := "SELECT " + QuoteString(s) + " /* c */ AS x -- tail"
		toks, err := Tokens(src)
		if err != nil || len(toks) != 4 || toks[1].Kind != TokString || toks[1].Val != s {
			rt.Fatalf("src=%q toks=%+v err=%v", src, toks, err)
		}
		if id != "" {
			toks, err = Tokens(QuoteIdent(id) + " , " + QuoteString(s))
			if err != nil || len(toks) != 3 || toks[0].Kind != TokQuotedIdent || toks[0].Val != id || toks[2].Val != s {
				rt.Fatalf("id=%q toks=%+v err=%v", id, toks, err)
			}
		}
	})
}

// printer∘lexer is idempotent on token streams: print, lex, print gives the same text, and
// kinds/values are preserved.
func TestRapidTokenRoundTrip(t *testing.T) {
	words := []string{"SELECT", "a", "FROM", "t", "(", ")", ",", "==", "!=", "->", "::", "1", "2.5", "*", "||", "[", "]", "%", "<=", "<>", "x1", "_y"}
	rapid.Check(t, func(rt *rapid.T) {
		n := rapid.IntRange(0, 15).Draw(rt, "n")
		var src []string
		for i := 0; i < n; i++ {
			switch rapid.IntRange(0, 3).Draw(rt, "k") {
			case 0:
				src = append(src, QuoteString(genHostile(rt, "s")))
			case 1:
				id := genHostile(rt, "id")
				if id == "" {
					id = "i"
				}
				src = append(src, QuoteIdent(id))
			default:
				src = append(src, rapid.SampledFrom(words).Draw(rt, "w"))
			}
		}
		text := strings.Join(src, " ")
		t1, err := Tokens(text)
		if err != nil {
			rt.Fatalf("%q: %v", text, err)
		}
		if len(t1) != n {
			rt.Fatalf("%q: %d tokens, want %d", text, len(t1), n)
		}
		p := PrintTokens(t1)
		t2, err := Tokens(p)
		if err != nil || len(t2) != len(t1) {
			rt.Fatalf("reprint %q: %v", p, err)
		}
		for i := range t1 {
			if t1[i].Kind != t2[i].Kind || t1[i].Val != t2[i].Val {
				rt.Fatalf("token %d differs: %+v vs %+v", i, t1[i], t2[i])
			}
		}
	})
}

// Any text cut inside a literal is an error; appending garbage after a complete literal
// never changes the decoded value of that literal.
func TestRapidTruncation(t *testing.T) {
	rapid.Check(t, func(rt *rapid.T) {
		s := genHostile(rt, "s")
		q := QuoteString(s)
		cut := rapid.IntRange(1, len(q)-1).Draw(rt, "cut")
		if _, err := Tokens(q[:cut]); err == nil {
			// a prefix can only be complete if it ends at a quote that closes it: impossible
			// for QuoteString output, which never contains an unescaped quote inside.
			rt.Fatalf("prefix %q of %q lexed", q[:cut], q)
		}
	})
}

// likeToRegexp is an independent translation of LIKE into RE2 following
// likePatternToRegexp.h; LikeMatch must agree with it on valid UTF-8.
func likeToRegexp(p string) (string, bool) {
	var b strings.Builder
	b.WriteString(`(?s)^`)
	for i := 0; i < len(p); i++ {
		switch c := p[i]; c {
		case '%':
			b.WriteString(`.*`)
		case '_':
			b.WriteString(`.`)
		case '\\':
			if i+1 == len(p) {
				return "", false
			}
			switch p[i+1] {
			case '%', '_', '\\':
				b.WriteString(regexp.QuoteMeta(string(p[i+1])))
				i++
			default:
				b.WriteString(`\\`)
			}
		default:
			_, w := utf8.DecodeRuneInString(p[i:])
			b.WriteString(regexp.QuoteMeta(p[i : i+w]))
			i += w - 1
		}
	}
	b.WriteString(`$`)
	return b.String(), true
}

func TestRapidLikeVsRegexp(t *testing.T) {
	alpha := []string{"a", "b", "%", "_", `\`, ".", "*", "é", "\n", "(", "[", "^", "$"}
	gen := rapid.Map(rapid.SliceOfN(rapid.SampledFrom(alpha), 0, 8), func(p []string) string { return strings.Join(p, "") })
	rapid.Check(t, func(rt *rapid.T) {
		pat := gen.Draw(rt, "pat")
		s := gen.Draw(rt, "s")
		if !utf8.ValidString(pat) || !utf8.ValidString(s) {
			rt.Skip()
		}
		re, ok := likeToRegexp(pat)
		got, err := LikeMatch(pat, s, false)
		if !ok {
			if err == nil {
				rt.Fatalf("pattern %q: expected error", pat)
			}
			return
		}
		if err != nil {
			rt.Fatalf("pattern %q: %v", pat, err)
		}
		want := regexp.MustCompile(re).MatchString(s)
		if got != want {
			rt.Fatalf("like(%q, %q) = %v, regexp %q says %v", s, pat, got, re, want)
		}
		// EscapeLike: a string matches its own escaped form, and the core round-trips.
		if ok, _ := LikeMatch(EscapeLike(s), s, false); !ok {
			rt.Fatalf("EscapeLike(%q) does not match itself", s)
		}
		if core, ok := LikeCore("%" + EscapeLike(s) + "%"); !ok || core != s {
			rt.Fatalf("LikeCore(EscapeLike(%q)) = %q,%v", s, core, ok)
		}
	})
}

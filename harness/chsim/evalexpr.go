package chsim

import (
	"strings"
)

// env is the evaluation context of one row (or one group, when agg != nil).
type env struct {
	b     *binder
	row   []any
	vars  map[string]any // lambda parameters
	agg   *aggEnv        // aggregate context: the rows of the current group
	inAgg bool           // evaluating the argument of an aggregate function
	memo  map[*boundAlias]any
}

type aggEnv struct {
	rows     [][]any
	keyCanon map[string]int
	keyVals  []any
}

// closure is the value of a lambda expression.
type closure struct {
	params []string
	body   Expr
	en     *env
}

func (c *closure) call(args ...any) (any, error) {
	if len(args) != len(c.params) {
		return nil, execErr("lambda takes %d arguments, %d given", len(c.params), len(args))
	}
	ne := *c.en
	ne.vars = make(map[string]any, len(c.en.vars)+len(args))
	for k, v := range c.en.vars {
		ne.vars[k] = v
	}
	for i, p := range c.params {
		ne.vars[p] = args[i]
	}
	ne.memo = nil
	return ne.eval(c.body)
}

func (en *env) eval(e Expr) (any, error) {
	if en.agg != nil && !en.inAgg {
		switch e.(type) {
		case *Lit, *boundConst, *Interval, *Lambda, *boundLambda:
		default:
			if idx, ok := en.agg.keyCanon[ExprString(e)]; ok {
				return en.agg.keyVals[idx], nil
			}
		}
	}
	switch n := e.(type) {
	case *Lit:
		if b, ok := n.V.(bool); ok {
			return b2u(b), nil
		}
		return n.V, nil
	case *boundConst:
		return n.V, nil
	case *Interval:
		return n, nil
	case *boundCol:
		if en.agg != nil && !en.inAgg {
			return nil, execErr("column %s is not under an aggregate function and not in GROUP BY (NOT_AN_AGGREGATE)", n.Name)
		}
		if en.row == nil {
			return nil, execErr("column %s used in a constant context", n.Name)
		}
		return en.row[n.Idx], nil
	case *boundLambda:
		v, ok := en.vars[n.Name]
		if !ok {
			return nil, execErr("unknown identifier %s (lambda parameter used outside its lambda)", n.Name)
		}
		return v, nil
	case *boundAlias:
		if n.lambdaFree && (en.agg == nil || !en.inAgg) {
			if v, ok := en.memo[n]; ok {
				return v, nil
			}
			v, err := en.eval(n.X)
			if err != nil {
				return nil, err
			}
			if en.memo == nil {
				en.memo = map[*boundAlias]any{}
			}
			en.memo[n] = v
			return v, nil
		}
		return en.eval(n.X)
	case *Lambda:
		return &closure{params: n.Params, body: n.Body, en: en}, nil
	case *ArrayLit:
		out := make([]any, len(n.Elems))
		for i, x := range n.Elems {
			v, err := en.eval(x)
			if err != nil {
				return nil, err
			}
			out[i] = v
		}
		return out, nil
	case *TupleLit:
		out := make(Tuple, len(n.Elems))
		for i, x := range n.Elems {
			v, err := en.eval(x)
			if err != nil {
				return nil, err
			}
			out[i] = v
		}
		return out, nil
	case *TupleElem:
		v, err := en.eval(n.X)
		if err != nil || v == nil {
			return nil, err
		}
		t, ok := v.(Tuple)
		if !ok {
			if _, z := v.(Zero); z {
				return Zero{}, nil
			}
			return nil, execErr("tupleElement: %s is not a tuple", typeName(v))
		}
		if n.N < 1 || n.N > len(t) {
			return nil, execErr("tupleElement: index %d out of bounds (tuple has %d elements)", n.N, len(t))
		}
		return t[n.N-1], nil
	case *Index:
		x, err := en.eval(n.X)
		if err != nil {
			return nil, err
		}
		i, err := en.eval(n.I)
		if err != nil {
			return nil, err
		}
		// a CONSTANT zero index is rejected at analysis time (ZERO_ARRAY_OR_TUPLE_INDEX);
		// a computed zero index yields the default value (arrayElement.cpp)
		if l, ok := n.I.(*Lit); ok {
			if k, _, u, _, _ := numInfo(l.V); (k == kUint || k == kInt) && u == 0 {
				if _, isArr := x.([]any); isArr {
					return nil, execErr("array indices are 1-based")
				}
			}
		}
		return arrayElement(x, i)
	case *Unary:
		x, err := en.eval(n.X)
		if err != nil {
			return nil, err
		}
		if n.Op == "NOT" {
			return fnNot(x)
		}
		return negate(x)
	case *Binary:
		return en.evalBinary(n)
	case *IsNull:
		x, err := en.eval(n.X)
		if err != nil {
			return nil, err
		}
		return b2u((x == nil) != n.Not), nil
	case *Like:
		x, err := en.eval(n.X)
		if err != nil {
			return nil, err
		}
		p, err := en.eval(n.P)
		if err != nil {
			return nil, err
		}
		return fnLike(x, p, n.Not, n.Fold)
	case *Cond:
		return en.evalIf(n.C, n.A, n.B)
	case *Cast:
		x, err := en.eval(n.X)
		if err != nil {
			return nil, err
		}
		return castTo(x, n.Type)
	case *boundSet:
		x, err := en.eval(n.X)
		if err != nil {
			return nil, err
		}
		if x == nil {
			return nil, nil
		}
		if t, ok := x.(Tuple); ok {
			if len(t) != n.n {
				return nil, execErr("IN: tuple of %d elements against a set of %d columns", len(t), n.n)
			}
		} else if n.n != 1 {
			return nil, execErr("IN: scalar against a set of %d columns", n.n)
		}
		in, err := n.contains(x)
		if err != nil {
			return nil, err
		}
		return b2u(in != n.Not), nil
	case *Call:
		return en.evalCall(n)
	case *Ident:
		return nil, execErr("internal: unbound identifier %s", strings.Join(n.Parts, "."))
	}
	return nil, unsupported("expression %T", e)
}

func (en *env) evalBinary(n *Binary) (any, error) {
	switch n.Op {
	case "AND", "OR":
		// three-valued logic (docs "Logical functions": and/or with NULL)
		l, err := en.eval(n.L)
		if err != nil {
			return nil, err
		}
		r, err := en.eval(n.R)
		if err != nil {
			return nil, err
		}
		return logic(n.Op, l, r)
	}
	l, err := en.eval(n.L)
	if err != nil {
		return nil, err
	}
	r, err := en.eval(n.R)
	if err != nil {
		return nil, err
	}
	return binaryOp(n.Op, l, r)
}

func binaryOp(op string, l, r any) (any, error) {
	switch op {
	case "+", "-", "*", "/", "%":
		return arith(op, l, r)
	case "||":
		if l == nil || r == nil {
			return nil, nil
		}
		ls, err := asString(l, "concat")
		if err != nil {
			return nil, err
		}
		rs, err := asString(r, "concat")
		if err != nil {
			return nil, err
		}
		return ls + rs, nil
	case "==", "!=", "<", "<=", ">", ">=":
		return compareOp(op, l, r)
	}
	return nil, unsupported("operator %s", op)
}

func compareOp(op string, l, r any) (any, error) {
	if l == nil || r == nil {
		return nil, nil
	}
	// comparisons with NaN are false except !=
	if isNaN(l) || isNaN(r) {
		if !isNum(l) || !isNum(r) {
			return nil, execErr("cannot compare %s with %s", typeName(l), typeName(r))
		}
		return b2u(op == "!="), nil
	}
	c, err := compare(l, r)
	if err != nil {
		return nil, err
	}
	switch op {
	case "==":
		return b2u(c == 0), nil
	case "!=":
		return b2u(c != 0), nil
	case "<":
		return b2u(c < 0), nil
	case "<=":
		return b2u(c <= 0), nil
	case ">":
		return b2u(c > 0), nil
	}
	return b2u(c >= 0), nil
}

func logic(op string, l, r any) (any, error) {
	lt, lnull := false, l == nil
	rt, rnull := false, r == nil
	var err error
	if !lnull {
		if lt, err = truth(l); err != nil {
			return nil, err
		}
	}
	if !rnull {
		if rt, err = truth(r); err != nil {
			return nil, err
		}
	}
	if op == "AND" {
		switch {
		case (!lnull && !lt) || (!rnull && !rt):
			return uint8(0), nil
		case lnull || rnull:
			return nil, nil
		}
		return uint8(1), nil
	}
	switch {
	case (!lnull && lt) || (!rnull && rt):
		return uint8(1), nil
	case lnull || rnull:
		return nil, nil
	}
	return uint8(0), nil
}

func fnNot(x any) (any, error) {
	if x == nil {
		return nil, nil
	}
	t, err := truth(x)
	if err != nil {
		return nil, err
	}
	return b2u(!t), nil
}

// negate: result is signed and one size wider than an unsigned argument (docs: negate).
func negate(x any) (any, error) {
	if x == nil {
		return nil, nil
	}
	k, w, _, i, f := numInfo(x)
	switch k {
	case kFloat:
		return -f, nil
	case kInt:
		return mkInt(w, -i), nil
	case kUint:
		if w < 64 {
			w *= 2
		}
		return mkInt(w, -i), nil
	}
	return nil, execErr("illegal type %s of argument of negate", typeName(x))
}

func (en *env) evalIf(c, a, b Expr) (any, error) {
	cv, err := en.eval(c)
	if err != nil {
		return nil, err
	}
	// both branches are evaluated by ClickHouse (errors in the untaken branch surface only
	// with short_circuit_function_evaluation = 'disable'); the default 'enable' makes `if`
	// lazy, which is what is modelled.
	t := false
	if cv != nil {
		if t, err = truth(cv); err != nil {
			return nil, err
		}
	}
	if t {
		return en.eval(a)
	}
	return en.eval(b)
}

// arrayElement: a[i] (1-based, negative from the end, out of range gives the default
// value; index 0 is an error) and m[k] (first pair with that key, default value if absent).
func arrayElement(x, i any) (any, error) {
	if x == nil || i == nil {
		return nil, nil
	}
	switch c := x.(type) {
	case []any:
		n, err := asInt(i, "arrayElement")
		if err != nil {
			return nil, err
		}
		if n < 0 {
			n = int64(len(c)) + n + 1
		}
		if n < 1 || n > int64(len(c)) {
			if len(c) > 0 {
				return zeroLike(c[0]), nil
			}
			return Zero{}, nil
		}
		return c[n-1], nil
	case Map:
		for _, p := range c {
			if p.K == nil {
				continue
			}
			eq, err := compare(p.K, i)
			if err != nil {
				return nil, err
			}
			if eq == 0 {
				return p.V, nil
			}
		}
		if len(c) > 0 {
			return zeroLike(c[0].V), nil
		}
		return Zero{}, nil
	case Zero:
		return Zero{}, nil
	}
	return nil, execErr("illegal type %s of first argument of arrayElement", typeName(x))
}

func castTo(x any, ty string) (any, error) {
	fn, ok := castFuncs[strings.ToLower(ty)]
	if !ok {
		return nil, unsupported("CAST to %s", ty)
	}
	if x == nil {
		return nil, nil
	}
	return fn([]any{x})
}

// evalCall dispatches a function call: aggregate, special form (lambda / lazy arguments)
// or ordinary strict function.
func (en *env) evalCall(c *Call) (any, error) {
	if spec, ok := aggregateSpec(c.Name); ok {
		return en.evalAggregate(c, spec)
	}
	if c.HasParam {
		return nil, unsupported("parametric function %s", c.Name)
	}
	if c.Distinct {
		return nil, execErr("DISTINCT in a non-aggregate function %s", c.Name)
	}
	if sf, ok := specialForms[c.Name]; ok {
		return sf(en, c)
	}
	f, ok := functions[c.Name]
	if !ok {
		if f2, ok2 := functionsCI[strings.ToLower(c.Name)]; ok2 {
			f, ok = f2, true
		}
	}
	if !ok {
		return nil, unsupported("function %s", c.Name)
	}
	args := make([]any, len(c.Args))
	for i, a := range c.Args {
		v, err := en.eval(a)
		if err != nil {
			return nil, err
		}
		if _, isFn := v.(*closure); isFn {
			return nil, execErr("function %s does not take a lambda", c.Name)
		}
		args[i] = v
	}
	if f.arity >= 0 && len(args) != f.arity {
		return nil, execErr("function %s takes %d arguments, %d given", c.Name, f.arity, len(args))
	}
	if len(args) < f.min || (f.max >= 0 && f.arity < 0 && len(args) > f.max) {
		return nil, execErr("wrong number of arguments (%d) for function %s", len(args), c.Name)
	}
	if !f.nullOK {
		for _, a := range args {
			if a == nil {
				return nil, nil
			}
		}
	}
	return f.fn(args)
}

package chsim

import (
	"fmt"
	"strconv"
	"strings"
)

// ---- AST -------------------------------------------------------------------------------

// Expr is an expression node.
type Expr interface{ exprString(b *strings.Builder) }

type (
	// Lit is a literal: string, number (typed as ClickHouse types it: the smallest unsigned
	// type that fits, signed for negatives, Float64 for decimals), NULL, true/false.
	Lit struct{ V any }
	// Ident is a possibly qualified name: col, tbl.col, db.tbl.col (qualifiers resolved at
	// evaluation; a part that names a tuple-typed value followed by a name is not modelled).
	Ident struct{ Parts []string }
	// Star is * or qualifier.*.
	Star struct{ Qual string }
	// Call is f(args) or the parametric form f(params)(args); Distinct is f(DISTINCT x).
	Call struct {
		Name     string
		Params   []Expr
		HasParam bool
		Args     []Expr
		Distinct bool
	}
	// Lambda is x -> body or (x, y) -> body.
	Lambda struct {
		Params []string
		Body   Expr
	}
	// Binary covers arithmetic, comparison, AND/OR, ||.
	Binary struct {
		Op   string // + - * / % == != < <= > >= AND OR || <=>
		L, R Expr
	}
	// Unary is prefix NOT or -.
	Unary struct {
		Op string // NOT, -
		X  Expr
	}
	// Index is x[i] (array element, 1-based; map lookup).
	Index struct{ X, I Expr }
	// TupleElem is x.N (1-based).
	TupleElem struct {
		X Expr
		N int
	}
	ArrayLit struct{ Elems []Expr }
	TupleLit struct{ Elems []Expr }
	// Alias is the inline form "expr AS name"; the name is visible in the whole SELECT.
	Alias struct {
		X    Expr
		Name string
	}
	// Cast is x::Type.
	Cast struct {
		X    Expr
		Type string
	}
	// In is x [NOT] [GLOBAL] IN (list | subquery | name).
	In struct {
		X    Expr
		Not  bool
		List []Expr  // literal list / tuple list, or
		Sub  *Query  // a subquery, or
		Ref  string  // a table / WITH name
		RefQ []string // qualified table name parts when Ref is db.table
	}
	IsNull struct {
		X   Expr
		Not bool
	}
	// Like is the operator form x [NOT] LIKE|ILIKE p.
	Like struct {
		X, P Expr
		Not  bool
		Fold bool
	}
	// Subquery is a scalar subquery inside an expression.
	Subquery struct{ Q *Query }
	// Interval is INTERVAL n unit / INTERVAL 'n unit'.
	Interval struct {
		N    int64
		Unit string
	}
	// Cond is c ? a : b.
	Cond struct{ C, A, B Expr }
)

// Query is a chain of SELECTs combined with UNION ALL / INTERSECT.
type Query struct {
	// Exactly one of Select / (Op, Left, Right) is set.
	Select *Select
	Op     string // "UNION ALL", "INTERSECT", "UNION DISTINCT", "EXCEPT"
	Left   *Query
	Right  *Query
}

// With is one element of a WITH clause: name AS (subquery), or expr AS name.
type With struct {
	Name string
	Q    *Query // CTE form
	X    Expr   // scalar form
}

// TableExpr is a FROM / JOIN operand.
type TableExpr struct {
	Name  []string // table name parts (db.table) or a WITH name, or
	Sub   *Query   // a subquery
	Alias string
}

// Join is one JOIN / ARRAY JOIN step.
type Join struct {
	Kind       string // "INNER", "LEFT", "ARRAY", "LEFT ARRAY", "RIGHT", "FULL", "CROSS"
	Strictness string // "", "ANY", "ALL", "SEMI", "ANTI", "ASOF"
	Global     bool
	Table      *TableExpr // table joins
	On         Expr
	Using      []string
	Array      []Expr // ARRAY JOIN operands (possibly Alias nodes)
}

// OrderKey is one ORDER BY key.
type OrderKey struct {
	X    Expr
	Desc bool
}

// Select is one SELECT.
type Select struct {
	With     []With
	Distinct bool
	Cols     []Expr // possibly Alias / Star nodes
	From     *TableExpr
	Joins    []Join
	Prewhere Expr
	Where    Expr
	GroupBy  []Expr
	Having   Expr
	OrderBy  []OrderKey
	Limit    Expr
	Offset   Expr
	Settings map[string]string
}

// ---- printing (canonical, re-parsable) -------------------------------------------------

// ExprString renders an expression in a canonical, fully parenthesised, re-parsable form.
func ExprString(e Expr) string {
	var b strings.Builder
	e.exprString(&b)
	return b.String()
}

func writeList(b *strings.Builder, es []Expr) {
	for i, e := range es {
		if i > 0 {
			b.WriteString(", ")
		}
		e.exprString(b)
	}
}

func identString(s string) string {
	ok := s != ""
	for i := 0; i < len(s); i++ {
		if !(isWordStart(s[i]) || (i > 0 && isDigit(s[i]))) {
			ok = false
		}
	}
	if ok && !reserved[strings.ToUpper(s)] {
		return s
	}
	return QuoteIdent(s)
}

func (e *Lit) exprString(b *strings.Builder) {
	switch v := e.V.(type) {
	case nil:
		b.WriteString("NULL")
	case string:
		b.WriteString(QuoteString(v))
	case float64:
		s := strconv.FormatFloat(v, 'g', -1, 64)
		if !strings.ContainsAny(s, ".eEnN") {
			s += "."
		}
		if v < 0 {
			s = "(" + s + ")"
		}
		b.WriteString(s)
	case bool:
		if v {
			b.WriteString("true")
		} else {
			b.WriteString("false")
		}
	default:
		if f, ok := toFloat(v); ok && f < 0 {
			fmt.Fprintf(b, "(%v)", v)
		} else {
			fmt.Fprintf(b, "%v", v)
		}
	}
}
func (e *Ident) exprString(b *strings.Builder) {
	for i, p := range e.Parts {
		if i > 0 {
			b.WriteByte('.')
		}
		b.WriteString(identString(p))
	}
}
func (e *Star) exprString(b *strings.Builder) {
	if e.Qual != "" {
		b.WriteString(identString(e.Qual) + ".")
	}
	b.WriteByte('*')
}
func (e *Call) exprString(b *strings.Builder) {
	b.WriteString(e.Name)
	if e.HasParam {
		b.WriteByte('(')
		writeList(b, e.Params)
		b.WriteByte(')')
	}
	b.WriteByte('(')
	if e.Distinct {
		b.WriteString("DISTINCT ")
	}
	writeList(b, e.Args)
	b.WriteByte(')')
}
func (e *Lambda) exprString(b *strings.Builder) {
	b.WriteString("((")
	for i, p := range e.Params {
		if i > 0 {
			b.WriteString(", ")
		}
		b.WriteString(identString(p))
	}
	b.WriteString(") -> ")
	e.Body.exprString(b)
	b.WriteByte(')')
}
func (e *Binary) exprString(b *strings.Builder) {
	b.WriteByte('(')
	e.L.exprString(b)
	b.WriteString(" " + e.Op + " ")
	e.R.exprString(b)
	b.WriteByte(')')
}
func (e *Unary) exprString(b *strings.Builder) {
	b.WriteString("(" + e.Op + " ")
	e.X.exprString(b)
	b.WriteByte(')')
}
func (e *Index) exprString(b *strings.Builder) {
	e.X.exprString(b)
	b.WriteByte('[')
	e.I.exprString(b)
	b.WriteByte(']')
}
func (e *TupleElem) exprString(b *strings.Builder) {
	b.WriteByte('(')
	e.X.exprString(b)
	fmt.Fprintf(b, ").%d", e.N)
}
func (e *ArrayLit) exprString(b *strings.Builder) {
	b.WriteByte('[')
	writeList(b, e.Elems)
	b.WriteByte(']')
}
func (e *TupleLit) exprString(b *strings.Builder) {
	b.WriteString("tuple(")
	writeList(b, e.Elems)
	b.WriteByte(')')
}
func (e *Alias) exprString(b *strings.Builder) {
	b.WriteByte('(')
	e.X.exprString(b)
	b.WriteString(" AS " + identString(e.Name) + ")")
}
func (e *Cast) exprString(b *strings.Builder) {
	b.WriteByte('(')
	e.X.exprString(b)
	b.WriteString(")::" + e.Type)
}
func (e *In) exprString(b *strings.Builder) {
	b.WriteByte('(')
	e.X.exprString(b)
	if e.Not {
		b.WriteString(" NOT")
	}
	b.WriteString(" IN ")
	switch {
	case e.Sub != nil:
		b.WriteString("(" + e.Sub.String() + ")")
	case e.Ref != "":
		if len(e.RefQ) > 0 {
			for i, p := range e.RefQ {
				if i > 0 {
					b.WriteByte('.')
				}
				b.WriteString(identString(p))
			}
		} else {
			b.WriteString(identString(e.Ref))
		}
	default:
		b.WriteByte('(')
		writeList(b, e.List)
		b.WriteByte(')')
	}
	b.WriteByte(')')
}
func (e *IsNull) exprString(b *strings.Builder) {
	b.WriteByte('(')
	e.X.exprString(b)
	if e.Not {
		b.WriteString(" IS NOT NULL)")
	} else {
		b.WriteString(" IS NULL)")
	}
}
func (e *Like) exprString(b *strings.Builder) {
	b.WriteByte('(')
	e.X.exprString(b)
	if e.Not {
		b.WriteString(" NOT")
	}
	if e.Fold {
		b.WriteString(" ILIKE ")
	} else {
		b.WriteString(" LIKE ")
	}
	e.P.exprString(b)
	b.WriteByte(')')
}
func (e *Subquery) exprString(b *strings.Builder) { b.WriteString("(" + e.Q.String() + ")") }
func (e *Interval) exprString(b *strings.Builder) {
	fmt.Fprintf(b, "INTERVAL %d %s", e.N, e.Unit)
}
func (e *Cond) exprString(b *strings.Builder) {
	b.WriteString("if(")
	writeList(b, []Expr{e.C, e.A, e.B})
	b.WriteByte(')')
}

func (t *TableExpr) String() string {
	var b strings.Builder
	if t.Sub != nil {
		b.WriteString("(" + t.Sub.String() + ")")
	} else {
		for i, p := range t.Name {
			if i > 0 {
				b.WriteByte('.')
			}
			b.WriteString(identString(p))
		}
	}
	if t.Alias != "" {
		b.WriteString(" AS " + identString(t.Alias))
	}
	return b.String()
}

// String renders the query in canonical re-parsable form.
func (q *Query) String() string {
	if q.Select != nil {
		return q.Select.String()
	}
	l, r := q.Left.String(), q.Right.String()
	if q.Left.Select == nil {
		l = "(" + l + ")"
	}
	if q.Right.Select == nil {
		r = "(" + r + ")"
	}
	return l + " " + q.Op + " " + r
}

func (s *Select) String() string {
	var b strings.Builder
	if len(s.With) > 0 {
		b.WriteString("WITH ")
		for i, w := range s.With {
			if i > 0 {
				b.WriteString(", ")
			}
			if w.Q != nil {
				b.WriteString(identString(w.Name) + " AS (" + w.Q.String() + ")")
			} else {
				w.X.exprString(&b)
				b.WriteString(" AS " + identString(w.Name))
			}
		}
		b.WriteByte(' ')
	}
	b.WriteString("SELECT ")
	if s.Distinct {
		b.WriteString("DISTINCT ")
	}
	for i, c := range s.Cols {
		if i > 0 {
			b.WriteString(", ")
		}
		if a, ok := c.(*Alias); ok {
			a.X.exprString(&b)
			b.WriteString(" AS " + identString(a.Name))
		} else {
			c.exprString(&b)
		}
	}
	if s.From != nil {
		b.WriteString(" FROM " + s.From.String())
	}
	for _, j := range s.Joins {
		b.WriteByte(' ')
		if j.Global {
			b.WriteString("GLOBAL ")
		}
		if j.Kind == "ARRAY" || j.Kind == "LEFT ARRAY" {
			b.WriteString(j.Kind + " JOIN ")
			for i, a := range j.Array {
				if i > 0 {
					b.WriteString(", ")
				}
				if al, ok := a.(*Alias); ok {
					al.X.exprString(&b)
					b.WriteString(" AS " + identString(al.Name))
				} else {
					a.exprString(&b)
				}
			}
			continue
		}
		if j.Strictness != "" {
			b.WriteString(j.Strictness + " ")
		}
		b.WriteString(j.Kind + " JOIN " + j.Table.String())
		if j.On != nil {
			b.WriteString(" ON ")
			j.On.exprString(&b)
		}
		if len(j.Using) > 0 {
			b.WriteString(" USING (")
			for i, u := range j.Using {
				if i > 0 {
					b.WriteString(", ")
				}
				b.WriteString(identString(u))
			}
			b.WriteByte(')')
		}
	}
	if s.Prewhere != nil {
		b.WriteString(" PREWHERE ")
		s.Prewhere.exprString(&b)
	}
	if s.Where != nil {
		b.WriteString(" WHERE ")
		s.Where.exprString(&b)
	}
	if len(s.GroupBy) > 0 {
		b.WriteString(" GROUP BY ")
		writeList(&b, s.GroupBy)
	}
	if s.Having != nil {
		b.WriteString(" HAVING ")
		s.Having.exprString(&b)
	}
	if len(s.OrderBy) > 0 {
		b.WriteString(" ORDER BY ")
		for i, k := range s.OrderBy {
			if i > 0 {
				b.WriteString(", ")
			}
			k.X.exprString(&b)
			if k.Desc {
				b.WriteString(" DESC")
			} else {
				b.WriteString(" ASC")
			}
		}
	}
	if s.Limit != nil {
		b.WriteString(" LIMIT ")
		s.Limit.exprString(&b)
	}
	if s.Offset != nil {
		b.WriteString(" OFFSET ")
		s.Offset.exprString(&b)
	}
	return b.String()
}

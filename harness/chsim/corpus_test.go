package chsim_test

import (
	"errors"
	"fmt"
	"os"
	"sort"
	"strings"
	"testing"

	"qrynverif/chsim"
	"qrynverif/chsim/qcorpus"
)

// corpusDB: small tables with the columns of qryn's schema (ctrl/qryn/sql/*.sql).
func corpusDB() *chsim.DB {
	db := chsim.NewDB()
	day := chsim.Date(19675) // 2023-11-14
	t0 := int64(1700000000000000000)
	lbl := func(kv ...string) string {
		var p []string
		for i := 0; i < len(kv); i += 2 {
			p = append(p, fmt.Sprintf("%q:%q", kv[i], kv[i+1]))
		}
		return "{" + strings.Join(p, ",") + "}"
	}
	series := []struct {
		fp  uint64
		tp  uint8
		lbl []string
	}{
		{1, 1, []string{"a", "b", "c", "x"}},
		{2, 1, []string{"a", "b", "c", "d", "e", "f"}},
		{3, 1, []string{"a", "it's", "b", `q"uote`, "c", `back\slash`}},
		{4, 2, []string{"__name__", "up", "a", "z", "c", "dd"}},
		{5, 1, []string{"test_id", "x_json", "a", "b"}},
	}
	var ts, gin [][]any
	for _, s := range series {
		ts = append(ts, []any{day, s.fp, lbl(s.lbl...), "", s.tp})
		for i := 0; i < len(s.lbl); i += 2 {
			gin = append(gin, []any{day, s.lbl[i], s.lbl[i+1], s.fp, s.tp})
		}
	}
	db.AddTable("time_series", []string{"date", "fingerprint", "labels", "name", "type"}, ts)
	db.AddTable("time_series_gin", []string{"date", "key", "val", "fingerprint", "type"}, gin)
	var samples, m15 [][]any
	lines := []string{`x y=1`, `{"y":"2","lvl":"info","str_id":"7"}`, `12 abc`, `{"y":{"z":"q"},"u":[5]}`, `it's %_\`, `LIT w`}
	for _, s := range series {
		for i := 0; i < 12; i++ {
			tns := t0 + int64(i)*2500000000 + int64(s.fp)
			samples = append(samples, []any{s.fp, tns, float64(i) + 0.5, lines[i%len(lines)], s.tp})
		}
		for b := 0; b < 3; b++ {
			m15 = append(m15, []any{s.fp, t0 + int64(b)*15000000000, chsim.Tuple{float64(b), t0 + int64(b)*15000000000 + 3}, float64(b + 1), float64(b), uint64(4), float64(b * 4), float64(40), s.tp})
		}
	}
	db.AddTable("samples_v3", []string{"fingerprint", "timestamp_ns", "value", "string", "type"}, samples)
	db.AddTable("metrics_15s", []string{"fingerprint", "timestamp_ns", "last", "max", "min", "count", "sum", "bytes", "type"}, m15)

	tid := func(n byte) string { return strings.Repeat(string([]byte{n}), 16) }
	sid := func(n byte) string { return strings.Repeat(string([]byte{n}), 8) }
	var traces, attrs, kv [][]any
	for tr := byte(1); tr <= 3; tr++ {
		for sp := byte(1); sp <= 3; sp++ {
			tns := t0 + int64(tr)*1000000000 + int64(sp)*1000
			dur := int64(sp) * 600000000
			traces = append(traces, []any{"0", tid(tr), sid(sp + 10*tr), "", "op", tns, dur, "svc", int8(1), `{"traceId":"x"}`})
			for _, a := range [][2]string{{"a", "b"}, {"c", "d"}, {"n", "12"}, {"f", fmt.Sprint(5 * int(sp))}, {"name", "op"}, {"service.name", "svc"}, {"e", "f"}, {"k", "v"}} {
				attrs = append(attrs, []any{"0", day, a[0], a[1], tid(tr), sid(sp + 10*tr), tns, dur})
			}
		}
	}
	for _, a := range [][2]string{{"a", "b"}, {"c", "d"}, {"service.name", "svc"}, {"k", "v"}} {
		kv = append(kv, []any{"0", day, a[0], uint64(len(a[1])), a[1]})
	}
	db.AddTable("tempo_traces", []string{"oid", "trace_id", "span_id", "parent_id", "name", "timestamp_ns", "duration_ns", "service_name", "payload_type", "payload"}, traces)
	db.AddTable("tempo_traces_attrs_gin", []string{"oid", "date", "key", "val", "trace_id", "span_id", "timestamp_ns", "duration"}, attrs)
	db.AddTable("tempo_traces_kv", []string{"oid", "date", "key", "val_id", "val"}, kv)

	stu := []any{chsim.Tuple{"cpu", "nanoseconds"}, chsim.Tuple{"samples", "count"}}
	tags := []any{chsim.Tuple{"pod", "p1"}, chsim.Tuple{"service_name", "svc"}, chsim.Tuple{"c", "dd"}}
	typeID := "process_cpu:cpu:nanoseconds"
	tree := []any{chsim.Tuple{uint64(0), uint64(1), uint64(10), []any{chsim.Tuple{"cpu:nanoseconds", int64(5), int64(9)}, chsim.Tuple{"samples:count", int64(1), int64(2)}}}}
	fns := []any{chsim.Tuple{uint64(10), "main"}}
	var prof, pser, pgin, pkeys [][]any
	for i := 0; i < 3; i++ {
		prof = append(prof, []any{uint64(t0 + int64(i)*20000000000), uint64(77), typeID, stu, "svc", uint64(1000), "pprof", "bin",
			[]any{chsim.Tuple{"cpu:nanoseconds", int64(100 + i), int32(3)}, chsim.Tuple{"samples:count", int64(3), int32(3)}}, tree, fns})
	}
	pser = append(pser, []any{day, typeID, stu, "svc", uint64(77), tags})
	for _, tg := range tags {
		t := tg.(chsim.Tuple)
		pgin = append(pgin, []any{day, t[0], t[1], typeID, stu, "svc", uint64(77)})
		pkeys = append(pkeys, []any{day, t[0], t[1], uint64(1)})
	}
	db.AddTable("profiles", []string{"timestamp_ns", "fingerprint", "type_id", "sample_types_units", "service_name", "duration_ns", "payload_type", "payload", "values_agg", "tree", "functions"}, prof)
	db.AddTable("profiles_series", []string{"date", "type_id", "sample_types_units", "service_name", "fingerprint", "tags"}, pser)
	db.AddTable("profiles_series_gin", []string{"date", "key", "val", "type_id", "sample_types_units", "service_name", "fingerprint"}, pgin)
	db.AddTable("profiles_series_keys", []string{"date", "key", "val", "val_id"}, pkeys)
	for _, t := range []string{"samples_v3", "time_series", "time_series_gin", "metrics_15s", "tempo_traces", "tempo_traces_attrs_gin", "tempo_traces_kv", "profiles", "profiles_series", "profiles_series_gin", "profiles_series_keys"} {
		db.Alias(t+"_dist", t)
	}
	return db
}

// TestCorpus renders every request of qcorpus through the real qryn services (single-node
// and cluster rendering) and requires that every statement parses and executes on small
// tables. ErrUnsupported is a failure; a statement ClickHouse itself would reject
// (ErrExec / ErrSyntax) must be on the list of understood cases below.
func TestCorpus(t *testing.T) {
	db := corpusDB()
	// statements that real ClickHouse rejects too (each re-derived by hand):
	expectedReject := []string{
		// DESIGN.md section 4 #18: {duration > 1s} alone renders "WHERE (...) and ()"
		"empty parentheses",
		// prof SelectSeries with aggregation AVG renders arrayFirst(x -> x.1 == (x.1) == ('cpu:nanoseconds')).3 :
		// arrayFirst with a lambda and no array
		"arrayFirst: too few arguments",
		// TraceQL tags/values V2 with a query: "SELECT key as key ... GROUP BY trace_id, span_id"
		// (select_tags_planner.go): key / val is neither a key nor aggregated
		"column key is not under an aggregate function",
		"column val is not under an aggregate function",
	}
	// version-dependent statements chsim refuses to model (documented in README "known gaps")
	expectedUnsupported := []string{
		// topk(...) > n : "SELECT arr_b.2 ... ARRAY JOIN ... HAVING value > n" without GROUP BY
		"HAVING without GROUP BY",
	}
	total, ok, rejected, unsupported := 0, 0, 0, 0
	byErr := map[string][]string{}
	seen := map[string]bool{}
	for _, cluster := range []bool{false, true} {
		e := qcorpus.NewEnv(cluster)
		for _, en := range qcorpus.Entries() {
			st, _ := en.Run(e)
			for _, s := range st {
				if seen[s.SQL] {
					continue
				}
				seen[s.SQL] = true
				total++
				res, err := db.Query(s.SQL)
				switch {
				case err == nil:
					ok++
					_ = res
				case errors.Is(err, chsim.ErrUnsupported):
					unsupported++
					known := false
					for _, k := range expectedUnsupported {
						if strings.Contains(err.Error(), k) {
							known = true
						}
					}
					if !known {
						byErr["UNSUPPORTED "+err.Error()] = append(byErr["UNSUPPORTED "+err.Error()], en.Name)
					}
				default:
					known := false
					for _, k := range expectedReject {
						if strings.Contains(err.Error(), k) {
							known = true
						}
					}
					if known {
						rejected++
					} else {
						byErr[err.Error()] = append(byErr[err.Error()], en.Name+"  ::  "+s.SQL)
					}
				}
			}
		}
		e.Close()
	}
	t.Logf("corpus: %d distinct statements, %d executed, %d rejected as ClickHouse would, %d unsupported", total, ok, rejected, unsupported)
	var keys []string
	for k := range byErr {
		keys = append(keys, k)
	}
	sort.Strings(keys)
	for _, k := range keys {
		v := byErr[k]
		ex := v[0]
		if len(ex) > 1500 && os.Getenv("CHSIM_FULL") == "" {
			ex = ex[:1500] + "..."
		}
		t.Errorf("%d statement(s): %s\n   e.g. %s", len(v), k, ex)
	}
}

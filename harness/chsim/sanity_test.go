package chsim_test

import (
	"fmt"
	"testing"

	"qrynverif/chsim/qcorpus"
)

// TestSanityLogSelect: the statement qryn renders for {a="b"} |= "y" returns exactly the
// matching lines of the corpus tables with their label maps.
func TestSanityLogSelect(t *testing.T) {
	db := corpusDB()
	e := qcorpus.NewEnv(false)
	defer e.Close()
	st, err := e.LogQL(`{a="b", c!="x"} |= "y"`, 1700000000, 1700003600, 5000, 100, true)
	if err != nil || len(st) != 1 {
		t.Fatal(err, len(st))
	}
	res, err := db.Query(st[0].SQL)
	if err != nil {
		t.Fatal(err)
	}
	if fmt.Sprint(res.Cols) != "[fingerprint labels string timestamp_ns]" {
		t.Fatalf("cols %v", res.Cols)
	}
	// series 2 (a=b,c=d,e=f) and 5 (test_id=x_json,a=b) match a="b"; c!="x" excludes series 1
	// ... but qryn's negative matcher needs the label to exist, so series 5 (no c) is excluded.
	want := 0
	for i := 0; i < 12; i++ {
		if i%6 == 0 || i%6 == 1 || i%6 == 3 { // lines containing "y"
			want++
		}
	}
	if len(res.Rows) != want {
		for _, r := range res.Rows {
			t.Log(r)
		}
		t.Fatalf("rows %d want %d", len(res.Rows), want)
	}
	for i, r := range res.Rows {
		if r[0] != uint64(2) || fmt.Sprint(r[1]) != "[{a b} {c d} {e f}]" {
			t.Fatalf("row %d: %v", i, r)
		}
		if i > 0 && res.Rows[i-1][3].(int64) > r[3].(int64) {
			t.Fatalf("not ascending by time")
		}
	}
	// scans: time_series_gin (filtered), samples_v3 (filtered, admitted == rows of fp 2 in window), time_series
	var sawSamples bool
	for _, s := range res.Scans {
		if s.Table == "samples_v3" {
			sawSamples = true
			if s.Offered != 60 || s.Admitted != want || !s.Filtered {
				t.Fatalf("scan %+v", s)
			}
		}
	}
	if !sawSamples {
		t.Fatalf("no samples_v3 scan recorded: %+v", res.Scans)
	}
}

package chsim_test

import (
	"fmt"
	"os"
	"testing"

	"qrynverif/chsim/qcorpus"
)

// TestDumpCorpus writes the rendered corpus to $CHSIM_DUMP (debug aid; skipped otherwise).
func TestDumpCorpus(t *testing.T) {
	path := os.Getenv("CHSIM_DUMP")
	if path == "" {
		t.Skip("CHSIM_DUMP not set")
	}
	f, err := os.Create(path)
	if err != nil {
		t.Fatal(err)
	}
	defer f.Close()
	for _, cluster := range []bool{false, true} {
		e := qcorpus.NewEnv(cluster)
		for _, en := range qcorpus.Entries() {
			st, err := en.Run(e)
			fmt.Fprintf(f, "### %s cluster=%v err=%v n=%d\n", en.Name, cluster, err, len(st))
			for _, s := range st {
				fmt.Fprintf(f, "%s\n", s.SQL)
			}
		}
		e.Close()
	}
}

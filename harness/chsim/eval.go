package chsim

import (
	"fmt"
	"sort"
	"strings"
)

// ---- public API ------------------------------------------------------------------------

// DB is a set of in-memory tables.
type DB struct {
	tables  map[string]*Table
	aliases map[string]string
	// NewAnalyzer selects the reading of the analyzer that is the default since ClickHouse
	// 24.3 where the two analyzers differ. Currently one point: HAVING in a SELECT with
	// neither GROUP BY nor aggregate functions is a row filter (it sees the SELECT aliases,
	// like WHERE) instead of being refused (the old analyzer turns such a query into an
	// aggregation and raises NOT_AN_AGGREGATE). Default false: such statements give
	// ErrUnsupported.
	NewAnalyzer bool
}

// Table is a named relation: column names + rows of values (see values.go for the cell
// types).
type Table struct {
	Name string
	Cols []string
	Rows [][]any
}

// ScanStat is recorded once per evaluation of a base table in the FROM position of a
// SELECT (instrumentation for property C13). Offered is the number of rows the table
// holds; Admitted counts the base rows that passed PREWHERE and WHERE of that SELECT
// (a base row that survives in several joined / array-joined copies counts once).
type ScanStat struct {
	Table        string // resolved table name (after Alias)
	Ref          string // name as written in the statement
	Alias        string // AS alias in the statement ("" if none)
	Offered      int
	Admitted     int
	AdmittedRows []int // indexes into Table.Rows, ascending
	Filtered     bool  // the SELECT had a WHERE or PREWHERE
}

// Result of a query. Row order: as ORDER BY dictates; ties, unordered results and GROUP BY
// output keep first-appearance order of the input (ClickHouse promises no order there).
type Result struct {
	Cols  []string
	Rows  [][]any
	Scans []ScanStat
}

func NewDB() *DB { return &DB{tables: map[string]*Table{}, aliases: map[string]string{}} }

// AddTable registers (or replaces) a table. Rows are copied; Go ints/float32/[]string/
// map[string]string cells are normalised (see normalise).
func (db *DB) AddTable(name string, cols []string, rows [][]any) *Table {
	t := &Table{Name: name, Cols: append([]string(nil), cols...)}
	for _, r := range rows {
		if len(r) != len(cols) {
			panic(fmt.Sprintf("chsim: table %s: row has %d cells, %d columns", name, len(r), len(cols)))
		}
		nr := make([]any, len(r))
		for i, v := range r {
			nr[i] = normalise(v)
		}
		t.Rows = append(t.Rows, nr)
	}
	db.tables[name] = t
	return t
}

// Alias makes alias another name of table (the "_dist" names).
func (db *DB) Alias(alias, table string) { db.aliases[alias] = table }

// Table returns a registered table (following aliases) or nil.
func (db *DB) Table(name string) *Table {
	for i := 0; i < 8; i++ {
		if t, ok := db.tables[name]; ok {
			return t
		}
		n, ok := db.aliases[name]
		if !ok {
			return nil
		}
		name = n
	}
	return nil
}

// Query parses and executes one statement.
func (db *DB) Query(sql string) (*Result, error) {
	q, err := Parse(sql)
	if err != nil {
		return nil, err
	}
	return db.Exec(q)
}

// Exec executes a parsed statement.
func (db *DB) Exec(q *Query) (res *Result, err error) {
	ex := &execCtx{db: db, scans: &[]ScanStat{}, subCache: map[*Query]*rel{}}
	defer func() {
		if r := recover(); r != nil {
			if e, ok := r.(evalPanic); ok {
				res, err = nil, e.err
				return
			}
			panic(r)
		}
	}()
	r, err := ex.execQuery(q)
	if err != nil {
		return nil, err
	}
	out := &Result{Scans: *ex.scans}
	for _, c := range r.cols {
		out.Cols = append(out.Cols, c.name)
	}
	out.Rows = r.rows
	if out.Rows == nil {
		out.Rows = [][]any{}
	}
	return out, nil
}

type evalPanic struct{ err error }

// ---- relations -------------------------------------------------------------------------

type colRef struct {
	table string // qualifier ("" = none)
	name  string
}

type rel struct {
	cols []colRef
	rows [][]any
	// provenance for scan statistics: base[i] is the base-table row index of rows[i]
	scan *ScanStat
	base []int
	// kinds[i]: a sample non-NULL value of column i when known (for LEFT JOIN defaults)
	sample []any
	// nullable[i]: column i has a Nullable type as far as chsim can tell statically
	// (see binder.nullable); nil = all false
	nullable []bool
}

func (r *rel) isNullable(i int) bool { return i < len(r.nullable) && r.nullable[i] }

type cteDef struct {
	q     *Query
	ctx   *execCtx // context in which the definition is evaluated
	done  *rel
	busy  bool
	exprX Expr // scalar WITH expr AS name
}

type execCtx struct {
	db       *DB
	parent   *execCtx
	ctes     map[string]*cteDef
	scans    *[]ScanStat
	subCache map[*Query]*rel
}

func (ex *execCtx) child() *execCtx {
	return &execCtx{db: ex.db, parent: ex, ctes: map[string]*cteDef{}, scans: ex.scans, subCache: ex.subCache}
}

func (ex *execCtx) lookupCTE(name string) *cteDef {
	for c := ex; c != nil; c = c.parent {
		if d, ok := c.ctes[name]; ok {
			return d
		}
	}
	return nil
}

func (ex *execCtx) execQuery(q *Query) (*rel, error) {
	if q.Select != nil {
		return ex.execSelect(q.Select)
	}
	l, err := ex.execQuery(q.Left)
	if err != nil {
		return nil, err
	}
	r, err := ex.execQuery(q.Right)
	if err != nil {
		return nil, err
	}
	if len(l.cols) != len(r.cols) {
		return nil, execErr("%s: different number of columns (%d vs %d)", q.Op, len(l.cols), len(r.cols))
	}
	out := &rel{cols: l.cols}
	for i := range l.cols {
		out.nullable = append(out.nullable, l.isNullable(i) || r.isNullable(i))
	}
	switch q.Op {
	case "UNION ALL":
		out.rows = append(append([][]any{}, l.rows...), r.rows...)
	case "INTERSECT":
		// ClickHouse's IntersectOrExceptTransform: build a set from the right input, stream
		// the left input through it (left duplicates are kept).
		set := map[string]bool{}
		for _, row := range r.rows {
			set[valueKey(Tuple(row))] = true
		}
		for _, row := range l.rows {
			if set[valueKey(Tuple(row))] {
				out.rows = append(out.rows, row)
			}
		}
	default:
		return nil, unsupported("set operation %s", q.Op)
	}
	return out, nil
}

// resolveTable evaluates a FROM / JOIN operand.
func (ex *execCtx) resolveTable(t *TableExpr, isFrom bool) (*rel, error) {
	if t.Sub != nil {
		r, err := ex.execQuery(t.Sub)
		if err != nil {
			return nil, err
		}
		return requalify(r, t.Alias), nil
	}
	name := t.Name[len(t.Name)-1]
	qual := t.Alias
	if qual == "" {
		qual = name
	}
	if len(t.Name) == 1 {
		if d := ex.lookupCTE(name); d != nil && d.q != nil {
			r, err := d.materialise(name)
			if err != nil {
				return nil, err
			}
			return requalify(r, qual), nil
		}
	}
	tb := ex.db.Table(name)
	if tb == nil {
		return nil, execErr("unknown table %s", strings.Join(t.Name, "."))
	}
	r := &rel{}
	for _, c := range tb.Cols {
		r.cols = append(r.cols, colRef{table: qual, name: c})
	}
	r.rows = tb.Rows
	r.nullable = make([]bool, len(tb.Cols))
	for _, row := range tb.Rows {
		for i, v := range row {
			if v == nil {
				r.nullable[i] = true // a table column holding NULL can only be Nullable
			}
		}
	}
	r.base = make([]int, len(tb.Rows))
	for i := range r.base {
		r.base[i] = i
	}
	r.scan = &ScanStat{Table: tb.Name, Ref: strings.Join(t.Name, "."), Alias: t.Alias, Offered: len(tb.Rows)}
	return r, nil
}

func (d *cteDef) materialise(name string) (*rel, error) {
	if d.done != nil {
		return d.done, nil
	}
	if d.busy {
		return nil, execErr("WITH %s refers to itself", name)
	}
	d.busy = true
	defer func() { d.busy = false }()
	r, err := d.ctx.execQuery(d.q)
	if err != nil {
		return nil, err
	}
	d.done = r
	return r, nil
}

func requalify(r *rel, qual string) *rel {
	out := &rel{rows: r.rows, sample: r.sample, nullable: r.nullable}
	for _, c := range r.cols {
		out.cols = append(out.cols, colRef{table: qual, name: c.name})
	}
	return out
}

// ---- SELECT ----------------------------------------------------------------------------

func (ex *execCtx) execSelect(s *Select) (*rel, error) {
	cx := ex
	if len(s.With) > 0 {
		cx = ex.child()
		for _, w := range s.With {
			// Each definition sees the outer scope and the definitions before it, not itself.
			defCtx := cx
			cx = cx.child()
			if w.Q != nil {
				cx.ctes[w.Name] = &cteDef{q: w.Q, ctx: defCtx}
			} else {
				cx.ctes[w.Name] = &cteDef{exprX: w.X, ctx: defCtx}
			}
		}
	}
	var cur *rel
	if s.From == nil {
		cur = &rel{rows: [][]any{{}}}
	} else {
		var err error
		if cur, err = cx.resolveTable(s.From, true); err != nil {
			return nil, err
		}
	}
	scan := cur.scan

	// SELECT-level aliases: every "expr AS name" anywhere in this SELECT (not in subqueries).
	aliases := map[string]Expr{}
	var aliasErr error
	collect := func(e Expr) {
		walkExpr(e, func(n Expr) bool {
			if a, ok := n.(*Alias); ok {
				if prev, dup := aliases[a.Name]; dup && ExprString(prev) != ExprString(a.X) {
					aliasErr = execErr("different expressions with the same alias %s", a.Name)
				}
				aliases[a.Name] = a.X
			}
			return true
		})
	}
	for _, c := range s.Cols {
		collect(c)
	}
	for _, e := range []Expr{s.Prewhere, s.Where, s.Having, s.Limit, s.Offset} {
		if e != nil {
			collect(e)
		}
	}
	for _, e := range s.GroupBy {
		collect(e)
	}
	for _, k := range s.OrderBy {
		collect(k.X)
	}
	for _, j := range s.Joins {
		if j.On != nil {
			collect(j.On)
		}
		for _, a := range j.Array {
			// "ARRAY JOIN e AS x" names a new column, not an expression alias
			if al, ok := a.(*Alias); ok {
				collect(al.X)
			} else {
				collect(a)
			}
		}
	}
	if aliasErr != nil {
		return nil, aliasErr
	}
	// scalar WITH expr AS name behaves as an alias of this SELECT
	for c := cx; c != nil; c = c.parent {
		for n, d := range c.ctes {
			if d.exprX != nil {
				if _, ok := aliases[n]; !ok {
					aliases[n] = d.exprX
				}
			}
		}
	}

	for ji := range s.Joins {
		j := &s.Joins[ji]
		var err error
		if j.Kind == "ARRAY" || j.Kind == "LEFT ARRAY" {
			cur, err = cx.arrayJoin(cur, j, aliases)
		} else {
			cur, err = cx.tableJoin(cur, j, aliases)
		}
		if err != nil {
			return nil, err
		}
	}

	b := newBinder(cx, cur, aliases)

	// PREWHERE / WHERE
	var conds []Expr
	for _, e := range []Expr{s.Prewhere, s.Where} {
		if e == nil {
			continue
		}
		be, err := b.bind(e)
		if err != nil {
			return nil, err
		}
		if containsAgg(be) {
			return nil, execErr("aggregate function in WHERE/PREWHERE (ILLEGAL_AGGREGATION): %s", ExprString(e))
		}
		conds = append(conds, be)
	}
	if len(conds) > 0 {
		kept := &rel{cols: cur.cols, sample: cur.sample, nullable: cur.nullable}
		for i, row := range cur.rows {
			en := b.rowEnv(row)
			ok := true
			for _, c := range conds {
				v, err := en.eval(c)
				if err != nil {
					return nil, err
				}
				t, err := truth(v)
				if err != nil {
					return nil, err
				}
				if !t {
					ok = false
					break
				}
			}
			if ok {
				kept.rows = append(kept.rows, row)
				if cur.base != nil {
					kept.base = append(kept.base, cur.base[i])
				}
			}
		}
		if cur.base == nil {
			kept.base = nil
		}
		cur = kept
		b.rel = cur
	}
	if scan != nil {
		scan.Filtered = len(conds) > 0
		seen := map[int]bool{}
		for _, bi := range cur.base {
			if !seen[bi] {
				seen[bi] = true
				scan.AdmittedRows = append(scan.AdmittedRows, bi)
			}
		}
		sort.Ints(scan.AdmittedRows)
		scan.Admitted = len(scan.AdmittedRows)
		*cx.scans = append(*cx.scans, *scan)
	}

	// expand * and bind the select list
	type outCol struct {
		name string
		x    Expr
	}
	var outs []outCol
	for _, c := range s.Cols {
		if st, ok := c.(*Star); ok {
			n := 0
			for i, cr := range cur.cols {
				if st.Qual == "" || cr.table == st.Qual {
					outs = append(outs, outCol{cr.name, &boundCol{Idx: i, Name: cr.name}})
					n++
				}
			}
			if n == 0 && st.Qual != "" {
				return nil, execErr("unknown table qualifier %s.*", st.Qual)
			}
			continue
		}
		name := ""
		x := c
		if a, ok := c.(*Alias); ok {
			name = a.Name
		} else if id, ok := c.(*Ident); ok {
			name = id.Parts[len(id.Parts)-1]
		} else {
			name = ExprString(c)
		}
		bx, err := b.bind(x)
		if err != nil {
			return nil, err
		}
		outs = append(outs, outCol{name, bx})
	}
	var having Expr
	if s.Having != nil {
		var err error
		if having, err = b.bind(s.Having); err != nil {
			return nil, err
		}
	}
	var orderX []Expr
	for _, k := range s.OrderBy {
		// ORDER BY <positive integer literal> is positional in ClickHouse
		// (enable_positional_arguments, on by default since 22.x).
		if l, ok := k.X.(*Lit); ok {
			if kd, _, u, _, _ := numInfo(l.V); kd == kUint && u >= 1 && int(u) <= len(outs) {
				orderX = append(orderX, outs[u-1].x)
				continue
			}
		}
		bx, err := b.bind(k.X)
		if err != nil {
			return nil, err
		}
		orderX = append(orderX, bx)
	}
	var groupX []Expr
	for _, g := range s.GroupBy {
		if l, ok := g.(*Lit); ok {
			if kd, _, u, _, _ := numInfo(l.V); kd == kUint && u >= 1 && int(u) <= len(outs) {
				groupX = append(groupX, outs[u-1].x)
				continue
			}
		}
		bx, err := b.bind(g)
		if err != nil {
			return nil, err
		}
		if containsAgg(bx) {
			return nil, execErr("aggregate function in GROUP BY: %s", ExprString(g))
		}
		groupX = append(groupX, bx)
	}

	isAgg := len(groupX) > 0
	for _, o := range outs {
		if containsAgg(o.x) {
			isAgg = true
		}
	}
	for _, o := range orderX {
		if containsAgg(o) {
			isAgg = true
		}
	}
	if having != nil && containsAgg(having) {
		isAgg = true
	}
	if having != nil && !isAgg && !cx.db.NewAnalyzer {
		// HAVING with neither GROUP BY nor aggregates: the old analyzer turns the query into an
		// aggregation without keys (ExpressionAnalyzer::analyzeAggregation: "groupBy() ||
		// having() => has_aggregation"), so plain columns in SELECT raise NOT_AN_AGGREGATE;
		// the new analyzer (default since 24.3) applies HAVING as a filter. Version-dependent:
		// modelled only on request (DB.NewAnalyzer: HAVING is then checked row by row in emit).
		return nil, unsupported("HAVING without GROUP BY or aggregate functions (behaviour differs between ClickHouse analyzers)")
	}

	type outRow struct {
		vals []any
		keys []any
	}
	var produced []outRow
	emit := func(en *env) error {
		if having != nil {
			v, err := en.eval(having)
			if err != nil {
				return err
			}
			t, err := truth(v)
			if err != nil {
				return err
			}
			if !t {
				return nil
			}
		}
		r := outRow{vals: make([]any, len(outs)), keys: make([]any, len(orderX))}
		for i, o := range outs {
			v, err := en.eval(o.x)
			if err != nil {
				return err
			}
			r.vals[i] = v
		}
		for i, o := range orderX {
			v, err := en.eval(o)
			if err != nil {
				return err
			}
			r.keys[i] = v
		}
		produced = append(produced, r)
		return nil
	}

	if !isAgg {
		for _, row := range cur.rows {
			if err := emit(b.rowEnv(row)); err != nil {
				return nil, err
			}
		}
	} else {
		keyCanon := map[string]int{}
		for i, g := range groupX {
			keyCanon[ExprString(g)] = i
		}
		type group struct {
			keyVals []any
			rows    [][]any
		}
		var groups []*group
		index := map[string]*group{}
		for _, row := range cur.rows {
			en := b.rowEnv(row)
			kv := make([]any, len(groupX))
			for i, g := range groupX {
				v, err := en.eval(g)
				if err != nil {
					return nil, err
				}
				kv[i] = v
			}
			k := valueKey(Tuple(kv))
			g := index[k]
			if g == nil {
				g = &group{keyVals: kv}
				index[k] = g
				groups = append(groups, g)
			}
			g.rows = append(g.rows, row)
		}
		if len(groupX) == 0 && len(groups) == 0 {
			// aggregation without keys over an empty input yields one row
			groups = append(groups, &group{})
		}
		for _, g := range groups {
			en := &env{b: b, agg: &aggEnv{rows: g.rows, keyCanon: keyCanon, keyVals: g.keyVals}}
			if err := emit(en); err != nil {
				return nil, err
			}
		}
	}

	// DISTINCT
	if s.Distinct {
		seen := map[string]bool{}
		kept := produced[:0:0]
		for _, r := range produced {
			k := valueKey(Tuple(r.vals))
			if !seen[k] {
				seen[k] = true
				kept = append(kept, r)
			}
		}
		produced = kept
	}
	// ORDER BY
	if len(orderX) > 0 {
		var sortErr error
		sort.SliceStable(produced, func(i, j int) bool {
			for k := range orderX {
				c, err := compareNullable(produced[i].keys[k], produced[j].keys[k])
				if err != nil {
					sortErr = err
					return false
				}
				if c == 0 {
					continue
				}
				// NULLs and NaN go last in both directions (NULLS LAST is ClickHouse's default)
				if produced[i].keys[k] == nil || produced[j].keys[k] == nil || isNaN(produced[i].keys[k]) || isNaN(produced[j].keys[k]) {
					return c < 0
				}
				if s.OrderBy[k].Desc {
					return c > 0
				}
				return c < 0
			}
			return false
		})
		if sortErr != nil {
			return nil, sortErr
		}
	}
	// LIMIT / OFFSET
	off, lim := 0, -1
	if s.Offset != nil {
		n, err := constUint(s.Offset, "OFFSET")
		if err != nil {
			return nil, err
		}
		off = n
	}
	if s.Limit != nil {
		n, err := constUint(s.Limit, "LIMIT")
		if err != nil {
			return nil, err
		}
		lim = n
	}
	if off > len(produced) {
		off = len(produced)
	}
	produced = produced[off:]
	if lim >= 0 && lim < len(produced) {
		produced = produced[:lim]
	}

	out := &rel{}
	for _, o := range outs {
		out.cols = append(out.cols, colRef{name: o.name})
		out.nullable = append(out.nullable, b.nullable(o.x))
	}
	out.rows = make([][]any, len(produced))
	for i, r := range produced {
		out.rows[i] = r.vals
	}
	return out, nil
}

func isNaN(v any) bool {
	f, ok := v.(float64)
	return ok && f != f
}

func constUint(e Expr, what string) (int, error) {
	l, ok := e.(*Lit)
	if !ok {
		return 0, unsupported("non-literal %s", what)
	}
	k, _, u, i, _ := numInfo(l.V)
	if k == kUint || (k == kInt && i >= 0) {
		if u > 1<<40 {
			u = 1 << 40
		}
		return int(u), nil
	}
	return 0, execErr("%s must be a non-negative integer", what)
}

// ---- joins -----------------------------------------------------------------------------

func (ex *execCtx) arrayJoin(cur *rel, j *Join, aliases map[string]Expr) (*rel, error) {
	b := newBinder(ex, cur, aliases)
	type item struct {
		x       Expr
		target  int    // index of the column replaced, or -1
		newName string // name of the appended column
	}
	var items []item
	for _, a := range j.Array {
		it := item{target: -1}
		x := a
		if al, ok := a.(*Alias); ok {
			x = al.X
			it.newName = al.Name
		}
		bx, err := b.bind(x)
		if err != nil {
			return nil, err
		}
		it.x = bx
		if it.newName == "" {
			bc, ok := bx.(*boundCol)
			if !ok {
				return nil, execErr("ARRAY JOIN of an expression requires an alias: %s", ExprString(a))
			}
			it.target = bc.Idx
		}
		items = append(items, it)
	}
	out := &rel{cols: append([]colRef(nil), cur.cols...), scan: cur.scan}
	for i := range cur.cols {
		out.nullable = append(out.nullable, cur.isNullable(i))
	}
	for _, it := range items {
		if it.target < 0 {
			out.cols = append(out.cols, colRef{name: it.newName})
			out.nullable = append(out.nullable, false)
		}
	}
	for ri, row := range cur.rows {
		en := b.rowEnv(row)
		arrs := make([][]any, len(items))
		n := -1
		for i, it := range items {
			v, err := en.eval(it.x)
			if err != nil {
				return nil, err
			}
			a, err := asArray(v, "ARRAY JOIN")
			if err != nil {
				return nil, err
			}
			arrs[i] = a
			if n >= 0 && len(a) != n {
				return nil, execErr("ARRAY JOIN: arrays of different sizes")
			}
			n = len(a)
		}
		if n == 0 && j.Kind == "LEFT ARRAY" {
			nr := append([]any(nil), row...)
			for i, it := range items {
				_ = i
				if it.target >= 0 {
					nr[it.target] = Zero{}
				} else {
					nr = append(nr, Zero{})
				}
			}
			out.rows = append(out.rows, nr)
			if cur.base != nil {
				out.base = append(out.base, cur.base[ri])
			}
			continue
		}
		for k := 0; k < n; k++ {
			nr := append([]any(nil), row...)
			for i, it := range items {
				if it.target >= 0 {
					nr[it.target] = arrs[i][k]
				} else {
					nr = append(nr, arrs[i][k])
				}
			}
			out.rows = append(out.rows, nr)
			if cur.base != nil {
				out.base = append(out.base, cur.base[ri])
			}
		}
	}
	return out, nil
}

func (ex *execCtx) tableJoin(left *rel, j *Join, aliases map[string]Expr) (*rel, error) {
	if len(j.Using) > 0 {
		return nil, unsupported("JOIN ... USING")
	}
	switch j.Kind {
	case "INNER", "LEFT":
	default:
		return nil, unsupported("%s JOIN", j.Kind)
	}
	switch j.Strictness {
	case "", "ALL", "ANY":
	default:
		return nil, unsupported("%s %s JOIN", j.Strictness, j.Kind)
	}
	right, err := ex.resolveTable(j.Table, false)
	if err != nil {
		return nil, err
	}
	if right.scan != nil {
		// a base table on the right side of a join is read completely
		st := *right.scan
		st.Admitted = st.Offered
		for i := 0; i < st.Offered; i++ {
			st.AdmittedRows = append(st.AdmittedRows, i)
		}
		*ex.scans = append(*ex.scans, st)
	}
	nl := len(left.cols)
	comb := &rel{cols: append(append([]colRef(nil), left.cols...), right.cols...)}
	for i := range left.cols {
		comb.nullable = append(comb.nullable, left.isNullable(i))
	}
	for i := range right.cols {
		comb.nullable = append(comb.nullable, right.isNullable(i))
	}
	b := newBinder(ex, comb, aliases)
	on, err := b.bind(j.On)
	if err != nil {
		return nil, err
	}
	// ON must be a conjunction of equalities left-expr == right-expr (hash join keys).
	var lk, rk []Expr
	var flat func(e Expr) error
	flat = func(e Expr) error {
		if bin, ok := e.(*Binary); ok {
			if bin.Op == "AND" {
				if err := flat(bin.L); err != nil {
					return err
				}
				return flat(bin.R)
			}
			if bin.Op == "==" {
				ls, rs := sideOf(bin.L, nl), sideOf(bin.R, nl)
				switch {
				case ls == 1 && rs == 2:
					lk, rk = append(lk, bin.L), append(rk, bin.R)
					return nil
				case ls == 2 && rs == 1:
					lk, rk = append(lk, bin.R), append(rk, bin.L)
					return nil
				}
			}
		}
		return unsupported("JOIN ON condition that is not a conjunction of left = right equalities: %s", ExprString(e))
	}
	if err := flat(on); err != nil {
		return nil, err
	}
	keyOf := func(row []any, xs []Expr) (string, bool, error) {
		en := b.rowEnv(row)
		kv := make([]any, len(xs))
		for i, x := range xs {
			v, err := en.eval(x)
			if err != nil {
				return "", false, err
			}
			if v == nil {
				return "", false, nil // NULL never joins
			}
			kv[i] = v
		}
		return valueKey(Tuple(kv)), true, nil
	}
	pad := make([]any, nl)
	type bucket struct {
		rows [][]any
		used bool
	}
	hash := map[string]*bucket{}
	for _, rr := range right.rows {
		full := append(append([]any(nil), pad...), rr...)
		k, ok, err := keyOf(full, rk)
		if err != nil {
			return nil, err
		}
		if !ok {
			continue
		}
		bk := hash[k]
		if bk == nil {
			bk = &bucket{}
			hash[k] = bk
		}
		// ANY: the hash table keeps the first row of each key only
		if j.Strictness == "ANY" && len(bk.rows) == 1 {
			continue
		}
		bk.rows = append(bk.rows, rr)
	}
	// defaults for unmatched right columns (join_use_nulls = 0: type defaults, not NULL)
	defaults := make([]any, len(right.cols))
	for i := range defaults {
		defaults[i] = Zero{}
		for _, rr := range right.rows {
			if rr[i] != nil {
				if _, isZ := rr[i].(Zero); !isZ {
					defaults[i] = zeroLike(rr[i])
					break
				}
			}
		}
	}
	out := &rel{cols: comb.cols, scan: left.scan, nullable: comb.nullable}
	rpad := make([]any, len(right.cols))
	for li, lr := range left.rows {
		full := append(append([]any(nil), lr...), rpad...)
		k, ok, err := keyOf(full, lk)
		if err != nil {
			return nil, err
		}
		var bk *bucket
		if ok {
			bk = hash[k]
		}
		matched := bk != nil
		// ANY INNER JOIN (any_join_distinct_right_table_keys = 0, the default): one row per
		// key from BOTH sides — a right key is consumed by the first left row that uses it
		// (HashJoin: KeyGetter::findKey + setUsedOnce).
		if matched && j.Kind == "INNER" && j.Strictness == "ANY" {
			if bk.used {
				matched = false
			} else {
				bk.used = true
			}
		}
		switch {
		case matched:
			for _, rr := range bk.rows {
				out.rows = append(out.rows, append(append([]any(nil), lr...), rr...))
				if left.base != nil {
					out.base = append(out.base, left.base[li])
				}
			}
		case j.Kind == "LEFT":
			out.rows = append(out.rows, append(append([]any(nil), lr...), defaults...))
			if left.base != nil {
				out.base = append(out.base, left.base[li])
			}
		}
	}
	return out, nil
}

// sideOf: 1 = only left columns, 2 = only right columns, 0 = none (constant), 3 = both.
func sideOf(e Expr, nl int) int {
	side := 0
	walkExpr(e, func(n Expr) bool {
		if c, ok := n.(*boundCol); ok {
			if c.Idx < nl {
				side |= 1
			} else {
				side |= 2
			}
		}
		return true
	})
	return side
}

// ---- tree walking ----------------------------------------------------------------------

// walkExpr visits e and its children (not the inside of subqueries); f returning false
// stops descent below that node.
func walkExpr(e Expr, f func(Expr) bool) {
	if e == nil || !f(e) {
		return
	}
	switch n := e.(type) {
	case *Call:
		for _, a := range n.Params {
			walkExpr(a, f)
		}
		for _, a := range n.Args {
			walkExpr(a, f)
		}
	case *Lambda:
		walkExpr(n.Body, f)
	case *Binary:
		walkExpr(n.L, f)
		walkExpr(n.R, f)
	case *Unary:
		walkExpr(n.X, f)
	case *Index:
		walkExpr(n.X, f)
		walkExpr(n.I, f)
	case *TupleElem:
		walkExpr(n.X, f)
	case *ArrayLit:
		for _, a := range n.Elems {
			walkExpr(a, f)
		}
	case *TupleLit:
		for _, a := range n.Elems {
			walkExpr(a, f)
		}
	case *Alias:
		walkExpr(n.X, f)
	case *Cast:
		walkExpr(n.X, f)
	case *In:
		walkExpr(n.X, f)
		for _, a := range n.List {
			walkExpr(a, f)
		}
	case *IsNull:
		walkExpr(n.X, f)
	case *Like:
		walkExpr(n.X, f)
		walkExpr(n.P, f)
	case *Cond:
		walkExpr(n.C, f)
		walkExpr(n.A, f)
		walkExpr(n.B, f)
	case *boundAlias:
		walkExpr(n.X, f)
	}
}

func containsAgg(e Expr) bool {
	found := false
	walkExpr(e, func(n Expr) bool {
		if c, ok := n.(*Call); ok {
			if _, isAgg := aggregateSpec(c.Name); isAgg {
				found = true
				return false
			}
		}
		return !found
	})
	return found
}

// ---- binding ---------------------------------------------------------------------------

// boundCol is a resolved column reference; boundLambda a lambda parameter; boundAlias an
// expanded alias (shared by all its uses so a row-level memo can reuse its value).
type (
	boundCol struct {
		Idx  int
		Name string
	}
	boundLambda struct{ Name string }
	boundAlias  struct {
		Name       string
		X          Expr
		lambdaFree bool
	}
	boundSet struct { // IN right-hand side evaluated once
		X    Expr
		Not  bool
		keys map[string]bool
		n    int // tuple width expected (1 = scalar)
		desc string
		// elems: the set members as rows of n components (for the Date conversion below);
		// list: the set is a constant list (its string constants are converted to the type
		// of the left side, as ClickHouse does); plans: per left-side shape, the converted key set
		elems    [][]any
		list     bool
		plans map[string]setPlan
	}
	boundConst struct{ V any } // scalar subquery result
)

func (e *boundCol) exprString(b *strings.Builder)    { fmt.Fprintf(b, "#%d", e.Idx) }
func (e *boundLambda) exprString(b *strings.Builder) { b.WriteString("λ" + e.Name) }
func (e *boundAlias) exprString(b *strings.Builder)  { e.X.exprString(b) }
func (e *boundSet) exprString(b *strings.Builder) {
	b.WriteByte('(')
	e.X.exprString(b)
	if e.Not {
		b.WriteString(" NOT")
	}
	b.WriteString(" IN " + e.desc + ")")
}
func (e *boundConst) exprString(b *strings.Builder) { (&Lit{V: e.V}).exprString(b) }

type binder struct {
	ex      *execCtx
	rel     *rel
	aliases map[string]Expr
	bound   map[string]*boundAlias
	busy    map[string]bool
	lambda  []string
}

func newBinder(ex *execCtx, r *rel, aliases map[string]Expr) *binder {
	return &binder{ex: ex, rel: r, aliases: aliases, bound: map[string]*boundAlias{}, busy: map[string]bool{}}
}

func (b *binder) isLambdaVar(n string) bool {
	for i := len(b.lambda) - 1; i >= 0; i-- {
		if b.lambda[i] == n {
			return true
		}
	}
	return false
}

func (b *binder) findCol(table, name string) int {
	for i, c := range b.rel.cols {
		if c.name == name && (table == "" || c.table == table) {
			return i
		}
	}
	return -1
}

// bindIdent implements ClickHouse name resolution for the modelled cases: lambda parameter,
// then SELECT alias (visible in every clause; wins over a same-named source column except
// inside its own definition), then source column (left-most when a join makes the short
// name ambiguous), qualified names by table alias / table name.
func (b *binder) bindIdent(id *Ident) (Expr, error) {
	p := id.Parts
	if len(p) == 1 {
		n := p[0]
		if b.isLambdaVar(n) {
			return &boundLambda{Name: n}, nil
		}
		if x, ok := b.aliases[n]; ok && !b.busy[n] {
			return b.bindAlias(n, x)
		}
		if i := b.findCol("", n); i >= 0 {
			return &boundCol{Idx: i, Name: n}, nil
		}
		if b.busy[n] {
			return nil, execErr("cyclic alias %s", n)
		}
		return nil, execErr("unknown identifier %s", n)
	}
	// qualified: [db.]table.column
	tbl, col := p[len(p)-2], p[len(p)-1]
	if len(p) <= 3 {
		if i := b.findCol(tbl, col); i >= 0 {
			return &boundCol{Idx: i, Name: col}, nil
		}
	}
	// alias-or-column followed by a name: named tuple element / nested column
	if b.isLambdaVar(p[0]) || b.aliases[p[0]] != nil || b.findCol("", p[0]) >= 0 {
		return nil, unsupported("named sub-column access %s", strings.Join(p, "."))
	}
	return nil, execErr("unknown identifier %s", strings.Join(p, "."))
}

func (b *binder) bindAlias(n string, x Expr) (Expr, error) {
	if ba, ok := b.bound[n]; ok {
		return ba, nil
	}
	b.busy[n] = true
	depth := len(b.lambda)
	bx, err := b.bind(x)
	delete(b.busy, n)
	if err != nil {
		return nil, err
	}
	ba := &boundAlias{Name: n, X: bx, lambdaFree: true}
	walkExpr(bx, func(e Expr) bool {
		if _, ok := e.(*boundLambda); ok {
			ba.lambdaFree = false
		}
		return true
	})
	if depth == 0 || ba.lambdaFree {
		b.bound[n] = ba
	}
	return ba, nil
}

func (b *binder) bindList(es []Expr) ([]Expr, error) {
	if es == nil {
		return nil, nil
	}
	out := make([]Expr, len(es))
	for i, e := range es {
		x, err := b.bind(e)
		if err != nil {
			return nil, err
		}
		out[i] = x
	}
	return out, nil
}

func (b *binder) bind(e Expr) (Expr, error) {
	switch n := e.(type) {
	case nil:
		return nil, nil
	case *Lit, *Interval, *boundCol, *boundLambda, *boundAlias, *boundSet, *boundConst:
		return e, nil
	case *Ident:
		return b.bindIdent(n)
	case *Star:
		return nil, execErr("* is not allowed here")
	case *Alias:
		// the definition site: bind through the alias table so every use shares one node
		if b.busy[n.Name] {
			return b.bind(n.X)
		}
		return b.bindAlias(n.Name, n.X)
	case *Call:
		// count(*) is count()
		if len(n.Args) == 1 {
			if _, ok := n.Args[0].(*Star); ok && strings.EqualFold(n.Name, "count") {
				return &Call{Name: n.Name}, nil
			}
		}
		ps, err := b.bindList(n.Params)
		if err != nil {
			return nil, err
		}
		as, err := b.bindList(n.Args)
		if err != nil {
			return nil, err
		}
		return &Call{Name: n.Name, Params: ps, HasParam: n.HasParam, Args: as, Distinct: n.Distinct}, nil
	case *Lambda:
		b.lambda = append(b.lambda, n.Params...)
		body, err := b.bind(n.Body)
		b.lambda = b.lambda[:len(b.lambda)-len(n.Params)]
		if err != nil {
			return nil, err
		}
		return &Lambda{Params: n.Params, Body: body}, nil
	case *Binary:
		l, err := b.bind(n.L)
		if err != nil {
			return nil, err
		}
		r, err := b.bind(n.R)
		if err != nil {
			return nil, err
		}
		return &Binary{Op: n.Op, L: l, R: r}, nil
	case *Unary:
		x, err := b.bind(n.X)
		if err != nil {
			return nil, err
		}
		return &Unary{Op: n.Op, X: x}, nil
	case *Index:
		x, err := b.bind(n.X)
		if err != nil {
			return nil, err
		}
		i, err := b.bind(n.I)
		if err != nil {
			return nil, err
		}
		return &Index{X: x, I: i}, nil
	case *TupleElem:
		x, err := b.bind(n.X)
		if err != nil {
			return nil, err
		}
		return &TupleElem{X: x, N: n.N}, nil
	case *ArrayLit:
		es, err := b.bindList(n.Elems)
		if err != nil {
			return nil, err
		}
		return &ArrayLit{Elems: es}, nil
	case *TupleLit:
		es, err := b.bindList(n.Elems)
		if err != nil {
			return nil, err
		}
		return &TupleLit{Elems: es}, nil
	case *Cast:
		x, err := b.bind(n.X)
		if err != nil {
			return nil, err
		}
		return &Cast{X: x, Type: n.Type}, nil
	case *IsNull:
		x, err := b.bind(n.X)
		if err != nil {
			return nil, err
		}
		return &IsNull{X: x, Not: n.Not}, nil
	case *Like:
		x, err := b.bind(n.X)
		if err != nil {
			return nil, err
		}
		p, err := b.bind(n.P)
		if err != nil {
			return nil, err
		}
		return &Like{X: x, P: p, Not: n.Not, Fold: n.Fold}, nil
	case *Cond:
		c, err := b.bind(n.C)
		if err != nil {
			return nil, err
		}
		a, err := b.bind(n.A)
		if err != nil {
			return nil, err
		}
		bb, err := b.bind(n.B)
		if err != nil {
			return nil, err
		}
		return &Cond{C: c, A: a, B: bb}, nil
	case *Subquery:
		r, err := b.subquery(n.Q)
		if err != nil {
			return nil, err
		}
		// scalar subquery: one row expected; no row gives NULL; several columns give a tuple
		switch {
		case len(r.rows) == 0:
			return &boundConst{V: nil}, nil
		case len(r.rows) > 1:
			return nil, execErr("scalar subquery returned more than one row")
		case len(r.cols) == 1:
			return &boundConst{V: r.rows[0][0]}, nil
		}
		return &boundConst{V: Tuple(r.rows[0])}, nil
	case *In:
		return b.bindIn(n)
	}
	return nil, unsupported("expression %T", e)
}

func (b *binder) subquery(q *Query) (*rel, error) {
	if r, ok := b.ex.subCache[q]; ok {
		return r, nil
	}
	r, err := b.ex.execQuery(q)
	if err != nil {
		return nil, err
	}
	b.ex.subCache[q] = r
	return r, nil
}

func (b *binder) bindIn(n *In) (Expr, error) {
	x, err := b.bind(n.X)
	if err != nil {
		return nil, err
	}
	width := 1
	if t, ok := n.X.(*TupleLit); ok {
		width = len(t.Elems)
	}
	set := &boundSet{X: x, Not: n.Not, keys: map[string]bool{}, n: width}
	addRows := func(r *rel) error {
		if len(r.cols) != width {
			return execErr("IN: the set has %d columns, the left side %d", len(r.cols), width)
		}
		for _, row := range r.rows {
			if width == 1 {
				if row[0] != nil {
					set.keys[valueKey(row[0])] = true
					set.elems = append(set.elems, row[:1])
				}
			} else {
				set.keys[valueKey(Tuple(row))] = true
				set.elems = append(set.elems, row)
			}
		}
		return nil
	}
	switch {
	case n.Sub != nil:
		r, err := b.subquery(n.Sub)
		if err != nil {
			return nil, err
		}
		set.desc = "(subquery)"
		if err := addRows(r); err != nil {
			return nil, err
		}
	case n.Ref != "":
		set.desc = n.Ref
		name := []string{n.Ref}
		if len(n.RefQ) > 0 {
			name = n.RefQ
		}
		// "x IN (name)": a WITH name or a table; but a plain column / alias in parentheses is
		// an ordinary one-element list — ClickHouse tries the identifier as a table first
		// only when no such column exists.
		if len(name) == 1 && b.ex.lookupCTE(n.Ref) == nil && b.ex.db.Table(n.Ref) == nil {
			el, err := b.bind(&Ident{Parts: []string{n.Ref}})
			if err != nil {
				return nil, err
			}
			return &Call{Name: "__inlist", Args: []Expr{x, el, &Lit{V: n.Not}}}, nil
		}
		r, err := b.ex.resolveTable(&TableExpr{Name: name}, false)
		if err != nil {
			return nil, err
		}
		if r.scan != nil {
			st := *r.scan
			st.Admitted = st.Offered
			for i := 0; i < st.Offered; i++ {
				st.AdmittedRows = append(st.AdmittedRows, i)
			}
			*b.ex.scans = append(*b.ex.scans, st)
		}
		if err := addRows(r); err != nil {
			return nil, err
		}
	default:
		set.desc = "(list)"
		allConst := true
		for _, el := range n.List {
			if !isConstExpr(el) {
				allConst = false
			}
		}
		if !allConst {
			// non-constant list: evaluate per row
			args := []Expr{x}
			for _, el := range n.List {
				be, err := b.bind(el)
				if err != nil {
					return nil, err
				}
				args = append(args, be)
			}
			args = append(args, &Lit{V: n.Not})
			return &Call{Name: "__inlist", Args: args}, nil
		}
		en := &env{b: b}
		list := n.List
		if width > 1 && len(list) == width {
			// "(a, b) IN (x, y)" / "(a, b) IN ((x, y))": a right side whose members are not
			// tuples is ONE tuple, not a list of scalars
			scalars := true
			for _, el := range list {
				if _, isT := el.(*TupleLit); isT {
					scalars = false
				}
			}
			if scalars {
				list = []Expr{&TupleLit{Elems: list}}
			}
		}
		for _, el := range list {
			be, err := b.bind(el)
			if err != nil {
				return nil, err
			}
			v, err := en.eval(be)
			if err != nil {
				return nil, err
			}
			if v == nil {
				continue
			}
			if t, ok := v.(Tuple); ok && width > 1 {
				if len(t) != width {
					return nil, execErr("IN: tuple sizes differ")
				}
			} else if width > 1 {
				return nil, execErr("IN: a scalar in the set of a %d-tuple", width)
			}
			set.keys[valueKey(v)] = true
			if t, ok := v.(Tuple); ok && width > 1 {
				set.elems = append(set.elems, []any(t))
			} else {
				set.elems = append(set.elems, []any{v})
			}
		}
		set.list = true
	}
	return set, nil
}

func isConstExpr(e Expr) bool {
	c := true
	walkExpr(e, func(n Expr) bool {
		switch n.(type) {
		case *Ident, *boundCol, *boundLambda, *Subquery, *Star:
			c = false
		}
		return c
	})
	return c
}

func (b *binder) rowEnv(row []any) *env { return &env{b: b, row: row} }

// nullable reports whether a bound expression has a Nullable type, as far as can be told
// without full type inference. ClickHouse rules used (docs "Nullable", "Aggregate functions /
// NULL processing"): a NULL literal and the *OrNull / nullIf / toNullable functions are
// Nullable; an ordinary function of a Nullable argument is Nullable (except isNull,
// isNotNull, assumeNotNull, coalesce/ifNull with a non-Nullable fallback); an aggregate
// function of a Nullable argument is Nullable (except count / uniq* / groupArray*); `if`
// is Nullable when a branch is; a column is Nullable when the sub-select expression that
// produced it is (base table: when it holds a NULL). Array/tuple/map element access is
// taken as not Nullable.
func (b *binder) nullable(e Expr) bool {
	switch n := e.(type) {
	case *Lit:
		return n.V == nil
	case *boundConst:
		return n.V == nil
	case *boundCol:
		return b.rel.isNullable(n.Idx)
	case *boundAlias:
		return b.nullable(n.X)
	case *Cast:
		return b.nullable(n.X) || strings.HasPrefix(strings.ToLower(n.Type), "nullable")
	case *Unary:
		return b.nullable(n.X)
	case *Binary:
		return b.nullable(n.L) || b.nullable(n.R)
	case *Cond:
		return b.nullable(n.A) || b.nullable(n.B)
	case *boundSet:
		return b.nullable(n.X)
	case *Like:
		return b.nullable(n.X) || b.nullable(n.P)
	case *Call:
		if strings.HasSuffix(n.Name, "OrNull") || n.Name == "nullIf" || n.Name == "toNullable" {
			return true
		}
		switch n.Name {
		case "isNull", "isNotNull", "assumeNotNull", "cityHash64", "array", "tuple", "arrayMap", "arrayFilter", "arraySort",
			"arrayZip", "arraySlice", "mapFromArrays", "mapFilter", "mapUpdate", "mapKeys", "mapValues", "arrayExists", "arrayFirst", "__inlist":
			return false
		case "if":
			return len(n.Args) == 3 && (b.nullable(n.Args[1]) || b.nullable(n.Args[2]))
		}
		if spec, ok := aggregateSpec(n.Name); ok {
			switch spec.base {
			case "count", "uniq", "uniqExact", "groupArray", "groupUniqArray":
				return false
			}
			if spec.merge {
				return false
			}
			return len(n.Args) > 0 && b.nullable(n.Args[0])
		}
		for _, a := range n.Args {
			if b.nullable(a) {
				return true
			}
		}
	}
	return false
}

type setPlan struct {
	keys map[string]bool // nil: the plain keys apply
	err  error
}

// contains: membership with ClickHouse's conversion of the set's constants to the type of
// the left side for the one cross-type case the model has — Date against String. A Date on
// the left with 'YYYY-MM-DD' string constants in a constant list (also inside tuples) is
// compared as Date (Set::createFromAST converts the literals to the left type; a string
// that is not a date raises CANNOT_PARSE_DATE). Every other Date/String mix (a String
// column of a subquery against a Date, a String on the left against Dates) is a type
// mismatch ClickHouse resolves in version-dependent ways: ErrUnsupported, never a silent
// "no match".
func (s *boundSet) contains(x any) (bool, error) {
	comps := []any{x}
	if t, ok := x.(Tuple); ok {
		comps = []any(t)
	}
	sig := make([]byte, len(comps))
	anyDate := false
	for i, c := range comps {
		switch c.(type) {
		case Date:
			sig[i] = 'd'
			anyDate = true
		case string:
			sig[i] = 's'
		default:
			sig[i] = '-'
		}
	}
	// which components need a conversion, judged on the whole set (once per left-side shape)
	if pl, ok := s.plans[string(sig)]; ok {
		if pl.err != nil {
			return false, pl.err
		}
		if pl.keys == nil {
			return s.keys[valueKey(x)], nil
		}
		return pl.keys[valueKey(x)], nil
	}
	if s.plans == nil {
		s.plans = map[string]setPlan{}
	}
	remember := func(keys map[string]bool, err error) (bool, error) {
		s.plans[string(sig)] = setPlan{keys: keys, err: err}
		if err != nil {
			return false, err
		}
		if keys == nil {
			return s.keys[valueKey(x)], nil
		}
		return keys[valueKey(x)], nil
	}
	need := false
	for _, el := range s.elems {
		for i := range comps {
			if i >= len(el) {
				continue
			}
			_, elStr := el[i].(string)
			_, elDate := el[i].(Date)
			switch {
			case sig[i] == 'd' && elStr:
				if !s.list {
					return remember(nil, unsupported("IN: Date on the left against a String column of a subquery/table"))
				}
				need = true
			case sig[i] == 's' && elDate:
				return remember(nil, unsupported("IN: String on the left against a set of Date values"))
			}
		}
	}
	if !need || !anyDate {
		return remember(nil, nil)
	}
	ks := map[string]bool{}
	for _, el := range s.elems {
		conv := make([]any, len(el))
		copy(conv, el)
		for i := range conv {
			if i < len(sig) && sig[i] == 'd' {
				if str, isStr := conv[i].(string); isStr {
					d, err := ParseDate(str)
					if err != nil {
						return remember(nil, err)
					}
					if len(str) != 10 {
						return remember(nil, unsupported("IN: date-time string %q against a Date", str))
					}
					conv[i] = d
				}
			}
		}
		if s.n == 1 {
			ks[valueKey(conv[0])] = true
		} else {
			ks[valueKey(Tuple(conv))] = true
		}
	}
	return remember(ks, nil)
}
